(* Proofs about Model/Smoothing.v – the lemma family behind property C20. *)
From Coq Require Import QArith ZArith List Bool Lia Arith.
From CC Require Import Base.XQ Base.ListX Model.Smoothing.
Import ListNotations.
Local Close Scope Q_scope.
Local Open Scope nat_scope.

(* The trailing-window statement for one series. *)
Lemma smooth_row_length w v : length (smooth_row w v) = length v.
Proof. unfold smooth_row. apply tab_length. Qed.

Lemma smooth_row_head w v t : t < length v -> t + 1 < w -> vnth (smooth_row w v) t = NaN.
Proof.
  intros Ht Hw. unfold smooth_row. rewrite tab_vnth by exact Ht.
  apply Nat.ltb_lt in Hw. rewrite Hw. reflexivity.
Qed.

Lemma smooth_row_tail w v t : t < length v -> w <= t + 1 ->
  vnth (smooth_row w v) t = xdiv (xsum (slice (t + 1 - w) w v)) (xofnat w).
Proof.
  intros Ht Hw. unfold smooth_row. rewrite tab_vnth by exact Ht.
  apply Nat.ltb_ge in Hw. rewrite Hw. reflexivity.
Qed.

(* the window really is v[t-w+1 .. t]: w entries, the k-th being v[t-w+1+k] *)
Lemma slice_length {A} s n (l : list A) : s + n <= length l -> length (slice s n l) = n.
Proof.
  intros H. unfold slice. rewrite firstn_length, skipn_length. lia.
Qed.

Lemma slice_nth {A} s n (l : list A) d k : k < n -> nth k (slice s n l) d = nth (s + k) l d.
Proof.
  intros H. unfold slice. rewrite nth_firstn_lt by exact H. apply nth_skipn_add.
Qed.

(* guard: when smoothing is not possible the values are returned unchanged *)
Lemma smooth1_guard cd raw v :
  can_smooth cd (window_of raw) (length v) (length v) = false -> smooth1 cd raw v = v.
Proof. intros H. unfold smooth1. rewrite H. reflexivity. Qed.

Lemma smooth2_guard cd raw m :
  can_smooth cd (window_of raw) (msize m) (ncols m) = false -> smooth2 cd raw m = m.
Proof. intros H. unfold smooth2. rewrite H. reflexivity. Qed.

Lemma can_smooth_false_iff cd w size n :
  can_smooth cd w size n = false <->
  (size = 0 \/ cd = false \/ (Z.of_nat n < w)%Z \/ (w < 2)%Z).
Proof.
  unfold can_smooth. split.
  - intros H.
    destruct (size =? 0) eqn:E1; [apply Nat.eqb_eq in E1; auto|].
    destruct cd; [|auto].
    destruct (w <=? Z.of_nat n)%Z eqn:E2; [|apply Z.leb_gt in E2; auto].
    destruct (2 <=? w)%Z eqn:E3; [discriminate|apply Z.leb_gt in E3; auto].
  - intros [H|[H|[H|H]]].
    + subst. reflexivity.
    + subst. rewrite andb_false_r. reflexivity.
    + apply Z.leb_gt in H. rewrite H. rewrite andb_false_r. reflexivity.
    + apply Z.leb_gt in H. rewrite H. rewrite andb_false_r. reflexivity.
Qed.

Lemma can_smooth_true cd w size n :
  can_smooth cd w size n = true ->
  size <> 0 /\ cd = true /\ (2 <= w <= Z.of_nat n)%Z.
Proof.
  unfold can_smooth. intros H.
  apply andb_prop in H as [H H4]. apply andb_prop in H as [H H3].
  apply andb_prop in H as [H1 H2].
  apply Z.leb_le in H3, H4. apply negb_true_iff in H1. apply Nat.eqb_neq in H1. auto.
Qed.

(* ---- the C20 statements ---------------------------------------------------------- *)

(* 1-D: strand means along the rows dimension *)
Theorem smooth1_window cd raw v t :
  can_smooth cd (window_of raw) (length v) (length v) = true ->
  t < length v ->
  let w := Z.to_nat (window_of raw) in
  (t + 1 < w -> vnth (smooth1 cd raw v) t = NaN) /\
  (w <= t + 1 ->
     vnth (smooth1 cd raw v) t = xdiv (xsum (slice (t + 1 - w) w v)) (xofnat w)
     /\ length (slice (t + 1 - w) w v) = w
     /\ forall k, k < w -> nth k (slice (t + 1 - w) w v) NaN = vnth v (t + 1 - w + k)).
Proof.
  intros Hc Ht w. unfold smooth1. rewrite Hc. fold w. split.
  - intros Hw. apply smooth_row_head; assumption.
  - intros Hw. split; [apply smooth_row_tail; assumption|]. split.
    + apply slice_length. lia.
    + intros k Hk. apply slice_nth. exact Hk.
Qed.

(* 2-D: every row of a rectangular matrix independently *)
Theorem smooth2_window cd raw m i t :
  can_smooth cd (window_of raw) (msize m) (ncols m) = true ->
  all_rows_length m (ncols m) ->
  i < length m -> t < ncols m ->
  let w := Z.to_nat (window_of raw) in
  let row := nth i m [] in
  (t + 1 < w -> mnth (smooth2 cd raw m) i t = NaN) /\
  (w <= t + 1 ->
     mnth (smooth2 cd raw m) i t = xdiv (xsum (slice (t + 1 - w) w row)) (xofnat w)
     /\ length (slice (t + 1 - w) w row) = w
     /\ forall k, k < w -> nth k (slice (t + 1 - w) w row) NaN = mnth m i (t + 1 - w + k)).
Proof.
  intros Hc Hrect Hi Ht w row. unfold smooth2. rewrite Hc. fold w.
  assert (Hlen : length row = ncols m).
  { unfold row. unfold all_rows_length in Hrect. rewrite Forall_forall in Hrect.
    apply Hrect. apply nth_In. exact Hi. }
  assert (Hrow : nth i (map (smooth_row w) m) [] = smooth_row w row).
  { unfold row. rewrite (nth_indep _ [] (smooth_row w [])) by (rewrite map_length; exact Hi).
    apply map_nth. }
  unfold mnth. rewrite Hrow. split.
  - intros Hw. apply smooth_row_head; [rewrite Hlen|]; assumption.
  - intros Hw. split; [apply smooth_row_tail; [rewrite Hlen|]; assumption|]. split.
    + apply slice_length. rewrite Hlen. lia.
    + intros k Hk. apply slice_nth. exact Hk.
Qed.

(* finite windows: the window mean is the arithmetic mean in Q *)
Lemma window_mean_fin w (qs : list Q) :
  0 < w -> xdiv (xsum (map Fin qs)) (xofnat w) =x= Fin (qsum qs / inject_Z (Z.of_nat w)).
Proof.
  intros Hw. rewrite xsum_fin. unfold xofnat. rewrite xdiv_fin. reflexivity.
  intros E. assert (H0 : (inject_Z (Z.of_nat w) == inject_Z 0)%Q) by exact E.
  unfold Qeq in H0. simpl in H0. lia.
Qed.

(* a NaN anywhere in the window makes the smoothed value NaN *)
Lemma xsum_nan l : In NaN l -> xsum l = NaN.
Proof.
  induction l as [|a t IH]; simpl; [tauto|].
  intros [H|H]; [subst; reflexivity|]. rewrite (IH H). apply xadd_nan_r.
Qed.
Lemma window_nan w l : In NaN l -> xdiv (xsum l) (xofnat w) = NaN.
Proof. intros H. rewrite (xsum_nan _ H). reflexivity. Qed.

(* window parsing decision table *)
Lemma window_default : window_of None = 2%Z.
Proof. reflexivity. Qed.
Lemma window_given w : window_of (Some w) = w.
Proof. reflexivity. Qed.
