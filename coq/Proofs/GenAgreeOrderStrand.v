(* Proofs/GenAgreeOrderStrand.v -- the order helpers of src/cr/cube/stripe/assembler.py (Gen/OrderHelperSrc.v
   [ord_stripe_*], meaning Base/OrderExp.v) denote Model/SortKeys.v's [strand_order]: `_OrderHelper` the
   explicit / payload collator, `_SortByLabelHelper` the labels, `_SortByMeasureHelper` the two blocks of the
   measure its keyname table names (a keyname outside the table: ValueError, hence the payload order; an
   absent "measure" field: KeyError escapes), each with `try .. except ValueError` around the sort-by-value
   collator; the empty rows are those whose pruning base == 0; the factory picks `_SortByMeasureHelper` for
   UNIVARIATE_MEASURE, `_SortByLabelHelper` for LABEL, `_OrderHelper` otherwise = [method_of PStrand]. *)
From Coq Require Import List ZArith Bool Lia Arith String QArith.
From CC Require Import Base.XQ Base.SortX Base.AsmExp Base.OrderExp Spec.OrderSpec Model.Collator
  Model.SortKeys Model.OrderOrient Gen.OrderHelperSrc Gen.SortTablesSrc
  Proofs.GenAgreeSortTables Proofs.GenAgreeOrderTac Proofs.GenAgreeOrderHelpers.
Import ListNotations.
Local Close Scope Q_scope.
Local Open Scope string_scope.
Local Open Scope nat_scope.

Lemma bind_ok_id {A} (r : res A) : bind r (fun l => Ok l) = r.
Proof. destruct r; reflexivity. Qed.

Section Strand.
Variables cm t3 : list (string * string).
Variable dim : dimension.
Variable req : order_req.
Variable pbase : list xq.
Variable labels : list string * list string.
Variable env : venv.
Hypothesis T3 : lookup_agrees t3 strand_table.

Notation E := (henv_strand cm t3 dim req pbase labels env).
Notation emp := (where_zero pbase).

Lemma semp_eval : heval' E SEMP = HOk (HVNats emp).
Proof. reflexivity. Qed.

Lemma strand_result_eq (m : method) (f : found) :
  partition_order dim req m f emp false
  = bind (ordering_of req m f) (fun og => helper_order dim og emp).
Proof.
  unfold partition_order, display_order. destruct (ordering_of req m f) as [og|c]; cbn [bind]; [|reflexivity].
  apply bind_ok_id.
Qed.

Lemma strand_sbv EV SV (m : method) (f : found) :
  is_value_method m = true ->
  vals_eval E EV SV f ->
  heval' E (TRYSBV DRows EV SV SEMP) = to_hres (partition_order dim req m f emp false).
Proof.
  intros Hm Hv. rewrite strand_result_eq.
  apply (try_sbv E DRows EV SV SEMP emp dim req m f Hm eq_refl).
  - intros ev sv. reflexivity.
  - reflexivity.
  - apply semp_eval.
  - exact Hv.
Qed.

Lemma strand_anch :
  heval' E (ANCH DRows SEMP)
  = to_hres (partition_order dim req
               (if String.eqb (cm_of cm (o_type req)) "EXPLICIT_ORDER" then MExplicit else MPayload)
               (Ok None) emp false).
Proof.
  rewrite strand_result_eq. unfold ANCH. cbn [heval hbind h_method henv_strand]. rewrite semp_eval.
  cbn [hbind h_format h_collate henv_strand].
  destruct (String.eqb (cm_of cm (o_type req)) "EXPLICIT_ORDER"); reflexivity.
Qed.

Lemma strand_label :
  heval' E (TRYSBV DRows (LAB DRows) (SLAB DRows) SEMP)
  = to_hres (partition_order dim req MLabel (strand_values req env (fst labels) (snd labels) MLabel) emp false).
Proof.
  apply (strand_sbv _ _ MLabel); [reflexivity|].
  cbn [strand_values vals_eval]. exists (map KStr (fst labels)). exists (map KStr (snd labels)).
  unfold LAB, SLAB. cbn [heval hbind h_labels h_sublabels henv_strand]. rewrite !omap_strs, !map_sval_KStr.
  repeat split; reflexivity.
Qed.

Lemma smeas_eval :
  heval' E SMEAS
  = match o_measure req with
    | None => HRaise EKeyError
    | Some k => match find_kw strand_table k with
                | None => HRaise EValueError
                | Some r => match env (kw_prop r) with
                            | Some v => HOk (vblocks_val v)
                            | None => HRaise EValueError
                            end
                end
    end.
Proof.
  unfold SMEAS.
  cbn [heval hbind h_spec h_table h_blocks henv_strand spec_of String.eqb Ascii.eqb Bool.eqb].
  destruct (o_measure req) as [k|]; cbn [spec_key hbind]; [|reflexivity].
  rewrite (T3 k). destruct (find_kw strand_table k) as [r|]; cbn [option_map hbind]; reflexivity.
Qed.

Lemma strand_measure :
  heval' E (TRYSBV DRows (HItem SMEAS 0) (HItem SMEAS 1) SEMP)
  = to_hres (partition_order dim req MUnivariate
               (strand_values req env (fst labels) (snd labels) MUnivariate) emp false).
Proof.
  apply (strand_sbv _ _ MUnivariate); [reflexivity|].
  unfold strand_values, vals_eval. pose proof smeas_eval as HM.
  destruct (o_measure req) as [k|].
  - destruct (find_kw strand_table k) as [r|].
    + destruct (env (kw_prop r)) as [[base subs]|].
      * exists (map KNum base). exists (map KNum subs).
        rewrite !heval_item, HM. unfold vblocks_val. cbn [hbind nth_error fst snd].
        rewrite !map_sval_KNum. repeat split; reflexivity.
      * left. rewrite heval_item, HM. reflexivity.
    + left. rewrite heval_item, HM. reflexivity.
  - split; [discriminate|]. left. rewrite heval_item, HM. reflexivity.
Qed.

Hypothesis CMH : cm_spec cm.

Lemma strand_payload_leaf :
  heval' E (HCollate3 CPayload (HDim DRows) SEMP HFormat)
  = to_hres (partition_order dim req MPayload
               (strand_values req env (fst labels) (snd labels) MPayload) emp false).
Proof. rewrite strand_result_eq. reflexivity. Qed.

Lemma strand_explicit_leaf :
  heval' E (HCollate3 CExplicit (HDim DRows) SEMP HFormat)
  = to_hres (partition_order dim req MExplicit
               (strand_values req env (fst labels) (snd labels) MExplicit) emp false).
Proof. rewrite strand_result_eq. reflexivity. Qed.

Ltac strand_factory_script :=
  unfold strand_order;
  let k := fresh "k" in let OT := fresh "OT" in let Hk := fresh "Hk" in
  destruct (o_type req) as [k|] eqn:OT;
  [ pose proof (CMH k) as Hk; rewrite <- OT in Hk at 1; unfold method_of;
    destruct (String.eqb k "explicit"); [dispatch_steps Hk; apply strand_explicit_leaf|];
    destruct (String.eqb k "label"); [dispatch_steps Hk; apply strand_label|];
    destruct (String.eqb k "opposing_element"); [dispatch_steps Hk; apply strand_payload_leaf|];
    destruct (String.eqb k "opposing_insertion"); [dispatch_steps Hk; apply strand_payload_leaf|];
    destruct (String.eqb k "marginal"); [dispatch_steps Hk; apply strand_payload_leaf|];
    destruct (String.eqb k "univariate_measure"); [dispatch_steps Hk; apply strand_measure|];
    dispatch_steps Hk; apply strand_payload_leaf
  | assert (Hk : cm_of cm (o_type req) = "PAYLOAD_ORDER") by (rewrite OT; reflexivity);
    unfold method_of; dispatch_steps Hk; apply strand_payload_leaf ].

Lemma strand_factory_aux :
  match ord_stripe_display_order with
  | Some e => heval' E e = to_hres (strand_order dim req env (fst labels) (snd labels) emp)
  | None => True
  end.
Proof.
  unfold ord_stripe_display_order.
  lazymatch goal with
  | |- True => exact I
  | _ => strand_factory_script
  end.
Qed.
End Strand.

(* ------------------------------------------------------------------------------------ *)
(** * the generated terms *)

Definition strand_class (src : option hexp) (m : method) : Prop :=
  with_tables (fun cm _ _ _ _ t3 =>
    match src with
    | Some e => forall dim req pbase labels env,
        heval' (henv_strand cm t3 dim req pbase labels env) e
        = to_hres (partition_order dim req m (strand_values req env (fst labels) (snd labels) m)
                                   (where_zero pbase) false)
    | None => True
    end).

Lemma gen_stripe_SortByLabelHelper : strand_class ord_stripe__SortByLabelHelper__display_order MLabel.
Proof.
  unfold strand_class, ord_stripe__SortByLabelHelper__display_order. tables_setup;
  lazymatch goal with |- True => exact I | _ => intros; apply strand_label end.
Qed.

Lemma gen_stripe_SortByMeasureHelper : strand_class ord_stripe__SortByMeasureHelper__display_order MUnivariate.
Proof.
  unfold strand_class, ord_stripe__SortByMeasureHelper__display_order. tables_setup;
  lazymatch goal with |- True => exact I | _ => intros; apply strand_measure; assumption end.
Qed.

(* stripe _OrderHelper: the explicit-order collator exactly for EXPLICIT_ORDER, else payload order *)
Lemma gen_stripe_OrderHelper :
  with_tables (fun cm _ _ _ _ t3 =>
    match ord_stripe__OrderHelper__display_order with
    | Some e => forall dim req pbase labels env,
        heval' (henv_strand cm t3 dim req pbase labels env) e
        = to_hres (display_order dim (anchored_of cm req) (where_zero pbase) false)
    | None => True
    end).
Proof.
  unfold ord_stripe__OrderHelper__display_order. tables_setup;
  lazymatch goal with
  | |- True => exact I
  | _ => intros; etransitivity; [apply strand_anch|]; unfold anchored_of, partition_order;
         destruct (String.eqb _ "EXPLICIT_ORDER"); reflexivity
  end.
Qed.

(* stripe _BaseOrderHelper.display_order: the signed row order of a strand IS [strand_order] *)
Lemma gen_stripe_display_order :
  with_tables (fun cm _ _ _ _ t3 =>
    match ord_stripe_display_order with
    | Some e => forall dim req pbase labels env,
        heval' (henv_strand cm t3 dim req pbase labels env) e
        = to_hres (strand_order dim req env (fst labels) (snd labels) (where_zero pbase))
    | None => True
    end).
Proof.
  pose proof gen_cm_spec as CMH. unfold tbl_COLLATION_METHOD in CMH.
  pose proof strand_factory_aux as AUX.
  tables_setup;
  lazymatch goal with
  | |- True => exact I
  | _ => destruct ord_stripe_display_order as [e|]; [|exact I]; intros; apply AUX; assumption
  end.
Qed.
