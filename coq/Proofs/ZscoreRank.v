(* The rank test of _Zscores._is_defective, exactly over the rationals:
   all 2x2 minors vanish  <->  every row is a multiple of one vector (rank <= 1);
   and a non-defective table has two rows and two columns with a non-zero determinant. *)
From Coq Require Import QArith Qabs ZArith List Bool Lia Arith Lqa.
From CC Require Import Base.XQ Base.ListX Model.Zscore.
Import ListNotations.
Local Close Scope Q_scope.
Local Open Scope nat_scope.

Definition all_minors_zero (f : nat -> nat -> Q) (nr nc : nat) : Prop :=
  forall i i' j j', i < nr -> i' < nr -> j < nc -> j' < nc ->
    (f i j * f i' j' == f i j' * f i' j)%Q.

(* rank <= 1: an outer product  a_i * v_j *)
Definition rank_le1 (f : nat -> nat -> Q) (nr nc : nat) : Prop :=
  exists (a v : nat -> Q), forall i j, i < nr -> j < nc -> (f i j == a i * v j)%Q.

Definition fmat (nr nc : nat) (f : nat -> nat -> Q) : mat :=
  tab2 nr nc (fun i j => Fin (f i j)).

Lemma ncols_tab2 nr nc g : 0 < nr -> ncols (tab2 nr nc g) = nc.
Proof.
  intros H. destruct nr as [|n]; [lia|]. unfold tab2, tab. simpl.
  rewrite map_length, seq_length. reflexivity.
Qed.

Lemma row_dec (f : nat -> nat -> Q) i nc :
  (forall j, j < nc -> (f i j == 0)%Q) \/ (exists j, j < nc /\ ~ (f i j == 0)%Q).
Proof.
  induction nc as [|n IH].
  - left. intros j H. lia.
  - destruct IH as [IH|[j [Hj Hn]]].
    + destruct (Qeq_dec (f i n) 0) as [E|E].
      * left. intros j Hj. destruct (Nat.eq_dec j n) as [->|Hne]; auto. apply IH. lia.
      * right. exists n. split; [lia|exact E].
    + right. exists j. split; [lia|exact Hn].
Qed.

Lemma mat_dec (f : nat -> nat -> Q) nr nc :
  (forall i j, i < nr -> j < nc -> (f i j == 0)%Q) \/
  (exists i j, i < nr /\ j < nc /\ ~ (f i j == 0)%Q).
Proof.
  induction nr as [|n IH].
  - left. intros i j H. lia.
  - destruct IH as [IH|[i [j [Hi [Hj Hn]]]]].
    + destruct (row_dec f n nc) as [E|[j [Hj Hn]]].
      * left. intros i j Hi Hj. destruct (Nat.eq_dec i n) as [->|Hne]; auto. apply IH; lia.
      * right. exists n, j. repeat split; auto.
    + right. exists i, j. repeat split; auto.
Qed.

Theorem minors_zero_iff_rank_le1 f nr nc : all_minors_zero f nr nc <-> rank_le1 f nr nc.
Proof.
  split.
  - intros H. destruct (mat_dec f nr nc) as [Z|[i0 [j0 [Hi0 [Hj0 Hn]]]]].
    + exists (fun _ => 0%Q), (fun _ => 0%Q). intros i j Hi Hj. rewrite (Z i j Hi Hj). ring.
    + exists (fun i => (f i j0 / f i0 j0)%Q), (fun j => f i0 j). intros i j Hi Hj.
      pose proof (H i i0 j j0 Hi Hi0 Hj Hj0) as M.
      apply (Qmult_inj_r _ _ (f i0 j0) Hn). rewrite M. field. exact Hn.
  - intros [a [v H]] i i' j j' Hi Hi' Hj Hj'.
    rewrite (H i j), (H i' j'), (H i j'), (H i' j) by assumption. ring.
Qed.

Lemma fmat_mnth nr nc f i j : i < nr -> j < nc -> mnth (fmat nr nc f) i j = Fin (f i j).
Proof. intros Hi Hj. unfold fmat. apply tab2_mnth; assumption. Qed.

Lemma minor_fin nr nc f i i' j j' : i < nr -> i' < nr -> j < nc -> j' < nc ->
  minor (fmat nr nc f) i i' j j' = Fin (f i j * f i' j' + - (f i j' * f i' j))%Q.
Proof.
  intros Hi Hi' Hj Hj'. unfold minor. rewrite !fmat_mnth by assumption. reflexivity.
Qed.

Lemma minor_zero_iff nr nc f i i' j j' : i < nr -> i' < nr -> j < nc -> j' < nc ->
  xeqb (minor (fmat nr nc f) i i' j j') (Fin 0) = true <->
  (f i j * f i' j' == f i j' * f i' j)%Q.
Proof.
  intros Hi Hi' Hj Hj'. rewrite minor_fin by assumption. simpl. rewrite Qeq_bool_iff.
  split; intros H; lra.
Qed.

Lemma rank_lt2_fin nr nc f : 0 < nr ->
  rank_lt2 (fmat nr nc f) = true <-> all_minors_zero f nr nc.
Proof.
  intros Hnr. unfold rank_lt2.
  assert (Er : nrows (fmat nr nc f) = nr) by apply tab2_nrows.
  assert (Ec : ncols (fmat nr nc f) = nc) by (apply ncols_tab2; exact Hnr).
  rewrite Er, Ec. split.
  - intros H i i' j j' Hi Hi' Hj Hj'.
    rewrite forallb_forall in H. specialize (H i). rewrite in_seq in H.
    assert (H1 := H ltac:(lia)). clear H.
    rewrite forallb_forall in H1. specialize (H1 i'). rewrite in_seq in H1.
    assert (H2 := H1 ltac:(lia)). clear H1.
    rewrite forallb_forall in H2. specialize (H2 j). rewrite in_seq in H2.
    assert (H3 := H2 ltac:(lia)). clear H2.
    rewrite forallb_forall in H3. specialize (H3 j'). rewrite in_seq in H3.
    assert (H4 := H3 ltac:(lia)). clear H3.
    apply (minor_zero_iff nr nc f i i' j j'); assumption.
  - intros H.
    apply forallb_forall. intros i Hi. apply in_seq in Hi.
    apply forallb_forall. intros i' Hi'. apply in_seq in Hi'.
    apply forallb_forall. intros j Hj. apply in_seq in Hj.
    apply forallb_forall. intros j' Hj'. apply in_seq in Hj'.
    apply (minor_zero_iff nr nc f i i' j j'); try lia. apply H; lia.
Qed.

(* defective <-> no two linearly independent rows (all rows multiples of one vector) *)
Theorem defective_iff_rank_le1 nr nc f : 0 < nr -> 0 < nc ->
  defective (fmat nr nc f) = true <-> rank_le1 f nr nc.
Proof.
  intros Hnr Hnc. unfold defective.
  assert (Er : nrows (fmat nr nc f) = nr) by apply tab2_nrows.
  assert (Ec : ncols (fmat nr nc f) = nc) by (apply ncols_tab2; exact Hnr).
  rewrite Er, Ec.
  destruct (nr =? 0) eqn:E1; [apply Nat.eqb_eq in E1; lia|].
  destruct (nc =? 0) eqn:E2; [apply Nat.eqb_eq in E2; lia|].
  simpl. rewrite rank_lt2_fin by exact Hnr. apply minors_zero_iff_rank_le1.
Qed.

Theorem defective_empty m : nrows m = 0 \/ ncols m = 0 -> defective m = true.
Proof.
  intros [H|H]; unfold defective; rewrite H; simpl; auto using orb_true_r.
  destruct (nrows m =? 0); reflexivity.
Qed.

(* a non-defective table has rows i, i' and columns j, j' with a non-zero determinant *)
Lemma forallb_false_ex {A} (p : A -> bool) l :
  forallb p l = false -> exists x, In x l /\ p x = false.
Proof.
  induction l as [|a t IH]; simpl; [discriminate|].
  destruct (p a) eqn:E; simpl.
  - intros H. destruct (IH H) as [x [Hx Hp]]. exists x. auto.
  - intros _. exists a. auto.
Qed.

Theorem nondefective_witness nr nc f :
  defective (fmat nr nc f) = false ->
  exists i i' j j', i < nr /\ i' < nr /\ j < nc /\ j' < nc /\
    ~ (f i j * f i' j' == f i j' * f i' j)%Q.
Proof.
  unfold defective. intros H.
  apply orb_false_elim in H as [H H3]. apply orb_false_elim in H as [H1 H2].
  apply Nat.eqb_neq in H1, H2.
  assert (Er : nrows (fmat nr nc f) = nr) by apply tab2_nrows.
  assert (Hnr : 0 < nr) by lia.
  assert (Ec : ncols (fmat nr nc f) = nc) by (apply ncols_tab2; exact Hnr).
  unfold rank_lt2 in H3. rewrite Er, Ec in H3.
  apply forallb_false_ex in H3 as [i [Hi H3]]. apply in_seq in Hi.
  apply forallb_false_ex in H3 as [i' [Hi' H3]]. apply in_seq in Hi'.
  apply forallb_false_ex in H3 as [j [Hj H3]]. apply in_seq in Hj.
  apply forallb_false_ex in H3 as [j' [Hj' H3]]. apply in_seq in Hj'.
  exists i, i', j, j'. repeat split; try lia.
  intros E. apply (minor_zero_iff nr nc f i i' j j') in E; try lia. congruence.
Qed.
