(* Two-sided p-values  p = 2 (1 - F |x|)  for ANY function F with the shape of a
   symmetric cumulative distribution function (scipy's norm.cdf, t.cdf(., df)).
   F is a Section variable: nothing numerical about the normal / Student distribution is
   assumed, only symmetry, monotonicity and range.  That scipy's functions have this shape
   is a stated assumption of the check (harness).  Reals: the statistic itself is a square
   root; the model carries its square and sign, and [pval_of_square] shows the p-value is
   determined by the square alone. *)
From Coq Require Import Reals Lra.
Open Scope R_scope.

Section TwoSided.
  Variable F : R -> R.
  Hypothesis F_sym : forall x, F (- x) = 1 - F x.
  Hypothesis F_mono : forall x y, x <= y -> F x <= F y.
  Hypothesis F_range : forall x, 0 <= F x <= 1.

  Definition pval (x : R) : R := 2 * (1 - F (Rabs x)).

  Lemma F_zero : F 0 = 1 / 2.
  Proof. pose proof (F_sym 0) as H. rewrite Ropp_0 in H. lra. Qed.

  Lemma pval_range x : 0 <= pval x <= 1.
  Proof.
    unfold pval. pose proof (F_range (Rabs x)) as [_ H1].
    pose proof (F_mono 0 (Rabs x) (Rabs_pos x)) as H2. rewrite F_zero in H2. lra.
  Qed.

  Lemma pval_even x : pval (- x) = pval x.
  Proof. unfold pval. rewrite Rabs_Ropp. reflexivity. Qed.

  (* a larger |statistic| never has a larger p-value *)
  Lemma pval_antitone x y : Rabs x <= Rabs y -> pval y <= pval x.
  Proof. intros H. unfold pval. pose proof (F_mono _ _ H). lra. Qed.

  (* it IS the two-sided tail: mass below -|x| plus mass above |x| *)
  Lemma pval_two_tails x : pval x = F (- Rabs x) + (1 - F (Rabs x)).
  Proof. unfold pval. rewrite F_sym. lra. Qed.

  Lemma pval_zero : pval 0 = 1.
  Proof. unfold pval. rewrite Rabs_R0, F_zero. lra. Qed.

  (* determined by the square of the statistic (what the model computes) *)
  Lemma pval_of_square x y : x * x = y * y -> pval x = pval y.
  Proof.
    intros H. unfold pval. f_equal. f_equal. f_equal.
    apply Rsqr_eq_abs_0. unfold Rsqr. exact H.
  Qed.

  (* threshold decisions: p < alpha is monotone in alpha *)
  Lemma pval_threshold_mono x a1 a2 : a1 <= a2 -> pval x < a1 -> pval x < a2.
  Proof. intros. lra. Qed.
End TwoSided.
