(* Proofs/GenAgreeScaleMedianBlocks.v -- GenAgree tie of matrix/measure.py::_ScaleMedian.blocks to
   Model/Scale.v's [scale_median_vec] (property C14): for a marginal whose opposing dimension has a
   numeric value, the two blocks are one cumulative-count median per ROW (ROWS orientation: the valued
   COLUMNS of every row taken in value order, np.apply_along_axis .. 1) resp. per COLUMN (COLUMNS:
   the valued ROWS taken in value order, axis 0) -- for every argsort accepted by [argsort_ok].
   The inlined body of `_weighted_median` is recognised (by conversion) as the term the lemma
   [gen_ScaleMedian__weighted_median] is about. *)
From Coq Require Import QArith ZArith List Bool Lia Arith String ZifyBool Setoid Morphisms Sorted Permutation.
From CC Require Import Base.XQ Base.ListX Base.VecExp Model.Scale Proofs.ScaleMedianProofs
     Proofs.GenAgreeVecTac Proofs.GenAgreeScaleTac Proofs.GenAgreeScaleMean Proofs.GenAgreeScaleMedian Gen.ScaleSrc.
Import ListNotations.
Local Close Scope Q_scope.
Local Open Scope string_scope.
Local Open Scope nat_scope.

(* `_weighted_median(a, sorted_values=b)` as read from the source *)
Definition wm_tree (srt : list xq -> list nat) (a b : vval) : vval :=
  veval (mkVenv (var2 "sorted_counts" a "sorted_values" b) no_var no_get no_call srt)
        (match vsrc_ScaleMedian__weighted_median with Some e => e | None => XRaise end).

#[global] Arguments wm_tree : simpl never.

Lemma vagrees_VS_inv v w : vagrees v (VS w) -> exists x, v = VS x /\ x =x= w.
Proof. destruct v; simpl; try contradiction. intros H. eexists. split; [reflexivity|exact H]. Qed.

Lemma wm_tree_ok srt cs (vs : list Q) :
  vsrc_ScaleMedian__weighted_median <> None ->
  List.length cs = List.length vs -> List.length cs <> 0 -> Forall nonneg_count cs ->
  exists x, wm_tree srt (VV cs) (VV (map Fin vs)) = VS x /\ x =x= weighted_median cs vs.
Proof.
  intros Hs H1 H2 H3. apply vagrees_VS_inv. unfold wm_tree.
  pose proof gen_ScaleMedian__weighted_median as G.
  destruct vsrc_ScaleMedian__weighted_median as [e|]; [|congruence].
  apply G; assumption.
Qed.

(* np.apply_along_axis with a body that is a scalar up to Qeq *)
Lemma opt_all_scal_ex (f : list xq -> vval) (g : list xq -> xq) P :
  (forall r, In r P -> exists x, f r = VS x /\ x =x= g r) ->
  exists xs, opt_all (map (fun r => scal_of (f r)) P) = Some xs /\ vxeq_l xs (map g P).
Proof.
  induction P as [|r P IH]; intros H.
  - exists []. split; [reflexivity|constructor].
  - destruct (H r (or_introl eq_refl)) as [x [Ex Hx]].
    destruct IH as [xs [Exs Hxs]]; [intros r' Hr'; apply H; right; exact Hr'|].
    exists (x :: xs). split; [cbn [map opt_all]; rewrite Ex; cbn [scal_of]; rewrite Exs; reflexivity|].
    constructor; assumption.
Qed.

(* one block: the guard for an empty block, then one median per slice *)
Lemma med_block_rows srt k P (vs : list Q) :
  vsrc_ScaleMedian__weighted_median <> None -> List.length vs <> 0 ->
  (forall r, In r P -> List.length r = List.length vs /\ Forall nonneg_count r) ->
  exists xs,
    (if (Z.of_nat (List.length P) =? 0)%Z then VV []
     else v_apply (fun r => wm_tree srt (VV r) (VV (map Fin vs))) (VZ 1) (VM k P)) = VV xs
    /\ vxeq_l xs (map (fun r => weighted_median r vs) P).
Proof.
  intros Hs Hv HP. destruct P as [|r0 P'].
  - exists []. split; [reflexivity|constructor].
  - replace (Z.of_nat (List.length (r0 :: P')) =? 0)%Z with false by (cbn [List.length]; lia).
    unfold v_apply, apply_slices. cbn [List.length Nat.eqb].
    destruct (opt_all_scal_ex (fun r => wm_tree srt (VV r) (VV (map Fin vs))) (fun r => weighted_median r vs) (r0 :: P'))
      as [xs [E Hxs]].
    + intros r Hr. destruct (HP r Hr) as [Hl Hn]. apply wm_tree_ok; [exact Hs|exact Hl|lia|exact Hn].
    + rewrite E. exists xs. split; [reflexivity|exact Hxs].
Qed.

Lemma med_block_cols srt k P (vs : list Q) :
  vsrc_ScaleMedian__weighted_median <> None -> List.length vs <> 0 ->
  (forall r, In r (cols_of k P) -> List.length r = List.length vs /\ Forall nonneg_count r) ->
  exists xs,
    (if (Z.of_nat k =? 0)%Z then VV []
     else v_apply (fun r => wm_tree srt (VV r) (VV (map Fin vs))) (VZ 0) (VM k P)) = VV xs
    /\ vxeq_l xs (map (fun r => weighted_median r vs) (cols_of k P)).
Proof.
  intros Hs Hv HP. destruct k as [|k].
  - exists []. split; [reflexivity|constructor].
  - replace (Z.of_nat (S k) =? 0)%Z with false by lia.
    unfold v_apply, apply_slices. cbn [Nat.eqb].
    destruct (opt_all_scal_ex (fun r => wm_tree srt (VV r) (VV (map Fin vs))) (fun r => weighted_median r vs) (cols_of (S k) P))
      as [xs [E Hxs]].
    + intros r Hr. destruct (HP r Hr) as [Hl Hn]. apply wm_tree_ok; [exact Hs|exact Hl|lia|exact Hn].
    + rewrite E. exists xs. split; [reflexivity|exact Hxs].
Qed.

(* the numeric values taken in sort order are finite *)
Lemma sorted_vals_fin vals ord : Forall finite_or_nan vals ->
  (forall i, In i ord -> i < List.length vals /\ is_nan (vnth vals i) = false) ->
  map (vnth vals) ord = map Fin (map (fun i => nan_to_num (vnth vals i)) ord).
Proof.
  intros Hf Hord. rewrite map_map. apply map_ext_in. intros i Hi. destruct (Hord i Hi) as [Hl Hv].
  assert (Hin : In (vnth vals i) vals) by (apply nth_In; exact Hl).
  rewrite Forall_forall in Hf. specialize (Hf _ Hin).
  destruct (vnth vals i) as [q|s|]; [reflexivity|contradiction|discriminate].
Qed.

Lemma sort_order_props vals srt : argsort_ok vals (srt vals) ->
  forall i, In i (sort_order vals srt) -> i < List.length vals /\ is_nan (vnth vals i) = false.
Proof.
  intros [_ [_ [Hr _]]] i Hi. unfold sort_order in Hi. apply filter_In in Hi. destruct Hi as [Hi Hv].
  split; [apply Hr; exact Hi|]. apply negb_true_iff. exact Hv.
Qed.

Lemma any_value_sort_order vals srt : argsort_ok vals (srt vals) -> any_value vals = true ->
  List.length (sort_order vals srt) <> 0.
Proof.
  intros Hok Hany. pose proof (argsort_valid_order vals (srt vals) Hok) as Hv.
  apply valid_order_props in Hv. destruct Hv as [Hp _]. fold (sort_order vals srt) in Hp.
  rewrite (Permutation_length Hp). unfold any_value in Hany. apply existsb_exists in Hany.
  destruct Hany as [v [Hin Hv]]. apply In_nth with (d := NaN) in Hin. destruct Hin as [i [Hi Ei]].
  assert (Hm : In i (valued_idxs vals)).
  { apply valued_idxs_In. split; [exact Hi|]. unfold vnth. rewrite Ei. apply negb_true_iff. exact Hv. }
  destruct (valued_idxs vals); [contradiction|simpl; lia].
Qed.

(* ------------------------------------------------------------------------------------ *)
(** * _ScaleMedian.blocks *)

Definition cells_nonneg (C : list (list xq)) : Prop := Forall (Forall nonneg_count) C.

Lemma cells_nonneg_mnth nc C i j : wf_mat nc C -> cells_nonneg C -> i < List.length C -> j < nc ->
  nonneg_count (mnth C i j).
Proof.
  intros HC HN Hi Hj. unfold mnth, vnth.
  assert (Hin : In (nth i C []) C) by (apply nth_In; exact Hi).
  unfold cells_nonneg in HN. rewrite Forall_forall in HN. specialize (HN _ Hin).
  rewrite Forall_forall in HN. apply HN. apply nth_In. rewrite (wf_mat_in nc C _ HC Hin). exact Hj.
Qed.

(* the sorted numeric values, as the evaluation of `self._sorted_values` inside the inlined body *)
Ltac med_sorted_values vals srt Hr Hlen Hlt Hfin Hso :=
  let SV := fresh "SV" in let ESV := fresh "ESV" in
  match goal with |- context [v_item (v_if ?c ?a ?b) (v_setdiff ?x ?y)] =>
    set (SV := v_item (v_if c a b) (v_setdiff x y)) in * end;
  match goal with |- context [v_apply ?F _ _] =>
    change F with (fun r : list xq => wm_tree srt (VV r) SV) end;
  assert (ESV : SV = VV (map Fin (map (fun i => nan_to_num (vnth vals i)) (sort_order vals srt))))
    by (unfold SV; cbn; rewrite (setdiff_nan_filter _ _ Hr); fold (sort_order vals srt);
        replace (all_lt (List.length vals) (sort_order vals srt)) with true by (rewrite Hlen; symmetry; exact Hlt);
        unfold idx_take; rewrite <- (sorted_vals_fin vals _ Hfin Hso); reflexivity);
  clearbody SV; subst SV.

Lemma gen_ScaleMedian_blocks_rows :
  match vsrc_ScaleMedian_blocks with
  | Some e => forall nc C0 C1 rvals cvals srt,
      vsrc_ScaleMedian__weighted_median <> None ->
      any_value cvals = true -> argsort_ok cvals (srt cvals) -> List.length cvals = nc ->
      Forall finite_or_nan cvals ->
      wf_mat nc C0 -> wf_mat nc C1 -> cells_nonneg C0 -> cells_nonneg C1 ->
      exists m0 m1,
        veval (env_scale "MO.ROWS" (dims_attrs rvals cvals ++ med_attrs_rows nc C0 C1) no_var srt) e
        = VL [VV m0; VV m1]
        /\ vxeq_l m0 (map (fun r => scale_median_vec (sort_order cvals srt) false r cvals) C0)
        /\ vxeq_l m1 (map (fun r => scale_median_vec (sort_order cvals srt) false r cvals) C1)
  | None => True
  end.
Proof.
  unfold_vsrcs; try exact I.
  all: intros nc C0 C1 rvals cvals srt Hs Hdef Hok Hn Hfin HC0 HC1 HN0 HN1.
  all: pose proof (sort_order_lt cvals srt nc Hok Hn) as Hlt.
  all: pose proof (sort_order_props cvals srt Hok) as Hso.
  all: pose proof (any_value_sort_order cvals srt Hok Hdef) as Hone.
  all: destruct Hok as [Hnd [Hlen [Hr Hasc]]].
  all: assert (HP : forall C, wf_mat nc C -> cells_nonneg C ->
           forall r, In r (map (fun r0 : list xq => idx_take NaN r0 (sort_order cvals srt)) C) ->
           List.length r = List.length (map (fun i => nan_to_num (vnth cvals i)) (sort_order cvals srt))
           /\ Forall nonneg_count r).
  all: [> intros C HC HN r Hin; apply in_map_iff in Hin; destruct Hin as [r0 [<- Hr0]]; unfold idx_take;
          rewrite !map_length; split; [reflexivity|];
          apply Forall_forall; intros x Hx; apply in_map_iff in Hx; destruct Hx as [i [<- Hi]];
          unfold cells_nonneg in HN; rewrite Forall_forall in HN; specialize (HN r0 Hr0);
          rewrite Forall_forall in HN; apply HN; apply nth_In;
          rewrite (wf_mat_in nc C r0 HC Hr0), <- Hn; apply Hso; exact Hi | ].
  all: pose proof (HP C0 HC0 HN0) as HP0.
  all: pose proof (HP C1 HC1 HN1) as HP1.
  all: assert (Hvl : List.length (map (fun i => nan_to_num (vnth cvals i)) (sort_order cvals srt)) <> 0)
         by (rewrite map_length; exact Hone).
  all: destruct (med_block_rows srt (List.length (sort_order cvals srt)) _ _ Hs Hvl HP0) as [xs0 [E0 H0]].
  all: destruct (med_block_rows srt (List.length (sort_order cvals srt)) _ _ Hs Hvl HP1) as [xs1 [E1 H1]].
  all: unfold med_attrs_rows; scale_env.
  all: exists xs0, xs1; split.
  all: [> vstage1 | ].
  all: [> med_sorted_values cvals srt Hr Hn Hlt Hfin Hso | ].
  all: [> vrun | ].
  all: [> rewrite all_isnan_any_value, Hdef; cbn [negb]; cbv iota | ].
  all: [> rewrite (setdiff_nan_filter _ _ Hr); fold (sort_order cvals srt); rewrite Hlt; cbv iota | ].
  all: [> vrun | ].
  all: [> rewrite E0, E1; reflexivity | ].
  all: rewrite map_map in H0, H1.
  all: split; assumption.
Qed.

Lemma mcol_take_rows (C : list (list xq)) ord j : (forall i, In i ord -> i < List.length C) ->
  mcol (idx_take [] C ord) j = map (vnth (mcol C j)) ord.
Proof.
  intros Hord. unfold mcol at 1, idx_take. rewrite map_map. apply map_ext_in. intros i Hi.
  rewrite mcol_vnth by (apply Hord; exact Hi). reflexivity.
Qed.

Lemma gen_ScaleMedian_blocks_columns :
  match vsrc_ScaleMedian_blocks with
  | Some e => forall nr nc ncs C0 C1 rvals cvals srt,
      vsrc_ScaleMedian__weighted_median <> None ->
      any_value rvals = true -> argsort_ok rvals (srt rvals) -> List.length rvals = nr ->
      Forall finite_or_nan rvals ->
      wf_mat nc C0 -> wf_mat ncs C1 -> List.length C0 = nr -> List.length C1 = nr ->
      cells_nonneg C0 -> cells_nonneg C1 ->
      exists m0 m1,
        veval (env_scale "MO.COLUMNS" (dims_attrs rvals cvals ++ med_attrs_cols nc ncs C0 C1) no_var srt) e
        = VL [VV m0; VV m1]
        /\ vxeq_l m0 (tab nc (fun j => scale_median_vec (sort_order rvals srt) false (mcol C0 j) rvals))
        /\ vxeq_l m1 (tab ncs (fun j => scale_median_vec (sort_order rvals srt) false (mcol C1 j) rvals))
  | None => True
  end.
Proof.
  unfold_vsrcs; try exact I.
  all: intros nr nc ncs C0 C1 rvals cvals srt Hs Hdef Hok Hn Hfin HC0 HC1 HL0 HL1 HN0 HN1.
  all: pose proof (sort_order_lt rvals srt nr Hok Hn) as Hlt.
  all: pose proof (sort_order_props rvals srt Hok) as Hso.
  all: pose proof (any_value_sort_order rvals srt Hok Hdef) as Hone.
  all: destruct Hok as [Hnd [Hlen [Hr Hasc]]].
  all: assert (Hord : forall C : list (list xq), List.length C = nr -> forall i, In i (sort_order rvals srt) -> i < List.length C)
         by (intros C HL i Hi; rewrite HL, <- Hn; apply Hso; exact Hi).
  all: assert (HP : forall k C, wf_mat k C -> List.length C = nr -> cells_nonneg C ->
           forall r, In r (cols_of k (idx_take [] C (sort_order rvals srt))) ->
           List.length r = List.length (map (fun i => nan_to_num (vnth rvals i)) (sort_order rvals srt))
           /\ Forall nonneg_count r).
  all: [> intros k C HC HL HN r Hin; apply in_cols_of in Hin; destruct Hin as [j [Hj ->]];
          rewrite (mcol_take_rows C _ j (Hord C HL)); rewrite !map_length; split; [reflexivity|];
          apply Forall_forall; intros x Hx; apply in_map_iff in Hx; destruct Hx as [i [<- Hi]];
          rewrite mcol_vnth by (apply (Hord C HL); exact Hi);
          apply (cells_nonneg_mnth k C i j HC HN); [apply (Hord C HL); exact Hi|exact Hj] | ].
  all: pose proof (HP nc C0 HC0 HL0 HN0) as HP0.
  all: pose proof (HP ncs C1 HC1 HL1 HN1) as HP1.
  all: assert (Hvl : List.length (map (fun i => nan_to_num (vnth rvals i)) (sort_order rvals srt)) <> 0)
         by (rewrite map_length; exact Hone).
  all: destruct (med_block_cols srt nc _ _ Hs Hvl HP0) as [xs0 [E0 H0]].
  all: destruct (med_block_cols srt ncs _ _ Hs Hvl HP1) as [xs1 [E1 H1]].
  all: unfold med_attrs_cols; scale_env.
  all: exists xs0, xs1; split.
  all: [> vstage1 | ].
  all: [> med_sorted_values rvals srt Hr Hn Hlt Hfin Hso | ].
  all: [> vrun | ].
  all: [> rewrite all_isnan_any_value, Hdef; cbn [negb]; cbv iota | ].
  all: [> rewrite (setdiff_nan_filter _ _ Hr); fold (sort_order rvals srt); rewrite HL0, HL1, Hlt; cbv iota | ].
  all: [> vrun | ].
  all: [> rewrite E0, E1; reflexivity | ].
  all: unfold cols_of in H0, H1; rewrite map_tab in H0, H1.
  all: split.
  all: [> erewrite tab_ext_lt; [exact H0|] | erewrite tab_ext_lt; [exact H1|] ].
  all: intros j Hj; cbv beta; unfold scale_median_vec, comparable;
       (rewrite mcol_take_rows by (apply Hord; assumption)); reflexivity.
Qed.
