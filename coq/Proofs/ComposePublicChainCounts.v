(* Proofs/ComposePublicChainCounts.v -- the measure chain, level 0: the weighted counts.
   Bridge: gen_WeightedCounts_blocks_ij (Proofs/GenAgreeProportions.v).  See ComposePublicChainDefs.v. *)
From Coq Require Import QArith ZArith List Bool Lia Arith String.
From CC Require Import Base.XQ Base.ListX Base.WiringExp Model.Subtotals Model.Proportions
     Proofs.ComposePublicSem Proofs.ComposePublicLinks Proofs.ComposePublicChainDefs.
From CC Require Base.MeasureExp Base.BasesExp Gen.MeasureSrc Gen.BasesSrc
     Proofs.GenAgreeMeasTac Proofs.GenAgreeBasesTac Proofs.GenAgreeProportions.
Import ListNotations.
Local Close Scope Q_scope.
Local Open Scope string_scope.
Local Open Scope nat_scope.

Import CC.Gen.MeasureSrc CC.Gen.BasesSrc.

(* ------------------------------------------------------------------------------------ *)
(** * level 0: the weighted counts *)

Definition terms_weighted_counts : bool :=
  is_some src_WeightedCounts_blocks_00 && is_some src_WeightedCounts_blocks_01 &&
  is_some src_WeightedCounts_blocks_10 && is_some src_WeightedCounts_blocks_11.

Theorem realizes_weighted_counts :
  need terms_weighted_counts
  (forall f C, cube_tab C "counts" -> realizes (S f) C "weighted_counts" (B_counts C)).
Proof.
  unfold terms_weighted_counts.
  bridge GenAgreeProportions.gen_WeightedCounts_blocks_00 src_WeightedCounts_blocks_00.
  bridge GenAgreeProportions.gen_WeightedCounts_blocks_01 src_WeightedCounts_blocks_01.
  bridge GenAgreeProportions.gen_WeightedCounts_blocks_10 src_WeightedCounts_blocks_10.
  bridge GenAgreeProportions.gen_WeightedCounts_blocks_11 src_WeightedCounts_blocks_11.
  needed. intros f C Hc. pose proof (tabular_counts C Hc) as T. four_blocks.
  - block_by E eval_block_mat ltac:(apply G) T.
  - block_by E0 eval_block_mat ltac:(apply G0) T.
  - block_by E1 eval_block_mat ltac:(apply G1) T.
  - block_by E2 eval_block_mat ltac:(apply G2) T.
Qed.

