(* Proofs/TransposePayload.v -- C10 end to end for the cube counts: the analysis (slice_counts of
   Model/CubeCounts.v) of the TRANSPOSED PAYLOAD with the dimensions exchanged is the transpose
   of the analysis of the original payload, for every 2-D response whose dimensions are plain
   (CAT-like, CA items, CA categories) or multiple-response (items + selection axis), every
   layout of missing elements and every data list. *)
From Coq Require Import QArith ZArith List Bool Lia Arith Setoid Morphisms.
From CC Require Import Base.XQ Base.ListX Spec.Survey Model.CubeCounts Model.Subtotals
  Model.Transpose Proofs.TransposeAlgebra Proofs.TransposeCounts Proofs.TransposeStats
  Proofs.CubeCountsProofs.
Import ListNotations.
Local Close Scope Q_scope.
Local Open Scope nat_scope.

(* ---- of_flat / flatten / in_boundsb on rotated shapes ---------------------------------------- *)
Lemma of_flat_flatten_total shape T idx :
  of_flat shape (flatten shape T) idx = if in_boundsb shape idx then T idx else NaN.
Proof.
  destruct (in_boundsb shape idx) eqn:E.
  - apply of_flat_flatten. exact E.
  - unfold of_flat. rewrite E. reflexivity.
Qed.

Lemma in_boundsb_app s1 s2 a b :
  length a = length s1 ->
  in_boundsb (s1 ++ s2) (a ++ b) = in_boundsb s1 a && in_boundsb s2 b.
Proof.
  revert a. induction s1 as [|n t IH]; intros [|x a] H; simpl in *; try discriminate; [reflexivity|].
  rewrite IH by lia. rewrite andb_assoc. reflexivity.
Qed.

Lemma rot_app {A} (a b : list A) : skipn (length a) (a ++ b) ++ firstn (length a) (a ++ b) = b ++ a.
Proof.
  rewrite skipn_app, firstn_app, Nat.sub_diag, skipn_all, firstn_all. simpl.
  rewrite app_nil_r. reflexivity.
Qed.

(* the transposed payload, read at (ic ++ ir), is the original payload read at (ir ++ ic) *)
Lemma of_flat_rot shr shc data ic ir :
  length ic = length shc -> length ir = length shr ->
  of_flat (shc ++ shr) (flatten (shc ++ shr) (trot (length shc) (of_flat (shr ++ shc) data))) (ic ++ ir)
  = of_flat (shr ++ shc) data (ir ++ ic).
Proof.
  intros Hc Hr. rewrite of_flat_flatten_total.
  rewrite in_boundsb_app by exact Hc.
  unfold trot. rewrite <- Hc. rewrite rot_app.
  destruct (in_boundsb shc ic && in_boundsb shr ir) eqn:E; [reflexivity|].
  unfold of_flat at 1. rewrite in_boundsb_app by exact Hr. rewrite andb_comm, E. reflexivity.
Qed.

Lemma remap_length vs idx : length idx = length vs -> length (remap vs idx) = length vs.
Proof.
  revert idx. induction vs as [|v t IH]; intros [|x idx] H; simpl in *; try discriminate; [reflexivity|].
  f_equal. apply IH. lia.
Qed.

Lemma permute_seq l : permute (seq 0 (length l)) l = l.
Proof.
  unfold permute. apply (nth_ext _ _ 0 0).
  - rewrite map_length, seq_length. reflexivity.
  - intros i Hi. rewrite map_length, seq_length in Hi.
    rewrite (nth_indep _ 0 (nth 0 l 0)) by (rewrite map_length, seq_length; exact Hi).
    rewrite (map_nth (fun i => nth i l 0) (seq 0 (length l)) 0 i).
    rewrite seq_nth by exact Hi. reflexivity.
Qed.

Definition no_numarr (ds : list dimd) : Prop := existsb is_numarr ds = false.

Lemma dimension_order_plain ds : no_numarr ds -> dimension_order ds = seq 0 (length ds).
Proof. intros H. unfold dimension_order. rewrite H, andb_false_r. reflexivity. Qed.

Lemma raw_shape_plain ds : no_numarr ds -> raw_shape ds = map dsize ds.
Proof.
  intros H. unfold raw_shape. rewrite (dimension_order_plain ds H).
  rewrite <- (map_length dsize ds). apply permute_seq.
Qed.

Lemma take_valid_ord_plain ds T idx :
  no_numarr ds -> length idx = length ds -> take_valid_ord ds T idx = take_valid ds T idx.
Proof.
  intros H L. unfold take_valid_ord, take_valid. rewrite (dimension_order_plain ds H).
  assert (E : length (remap (map dvalid ds) idx) = length ds)
    by (rewrite remap_length; rewrite map_length; auto).
  rewrite <- E. rewrite permute_seq. reflexivity.
Qed.

(* ---- the valid tensor of the transposed payload ------------------------------------------------- *)
Theorem valid_tensor_of_transposed_payload gr gc data ic ir :
  no_numarr (gr ++ gc) -> length ic = length gc -> length ir = length gr ->
  take_valid_ord (gc ++ gr)
    (of_flat (raw_shape (gc ++ gr))
       (flatten (map dsize gc ++ map dsize gr)
                (trot (length gc) (of_flat (map dsize gr ++ map dsize gc) data)))) (ic ++ ir)
  = trot (length gc) (take_valid_ord (gr ++ gc) (of_flat (raw_shape (gr ++ gc)) data)) (ic ++ ir).
Proof.
  intros Hn Hc Hr.
  assert (Hn' : no_numarr (gc ++ gr)).
  { unfold no_numarr in *. rewrite existsb_app in *. apply orb_false_iff in Hn.
    destruct Hn as [A B]. rewrite A, B. reflexivity. }
  rewrite take_valid_ord_plain by (try assumption; rewrite !app_length; lia).
  unfold trot at 2. rewrite <- Hc at 2 3. rewrite rot_app.
  rewrite take_valid_ord_plain by (try assumption; rewrite !app_length; lia).
  rewrite (raw_shape_plain _ Hn), (raw_shape_plain _ Hn'). rewrite !map_app.
  unfold take_valid. rewrite !map_app.
  rewrite remap_app by (rewrite map_length; exact Hc).
  rewrite remap_app by (rewrite map_length; exact Hr).
  rewrite <- (map_length dsize gc) at 1.
  apply of_flat_rot; rewrite remap_length; rewrite !map_length; auto.
Qed.

(* ---- the extractors read the tensor at indexes of the right length only -------------------------- *)
Definition agree (n : nat) (V1 V2 : tensor) : Prop := forall idx, length idx = n -> V1 idx = V2 idx.

Ltac ext_solve H :=
  repeat first [ reflexivity | apply H; reflexivity
               | (apply (f_equal xsum); apply tab_ext; intros) ].

Lemma tab2_ext nr nc f g : (forall i j, f i j = g i j) -> tab2 nr nc f = tab2 nr nc g.
Proof. intros H. unfold tab2. apply tab_ext. intros i _. apply tab_ext. intros j _. apply H. Qed.

Lemma slice_out_of_ext V1 V2 nr nc sr sc rc cc :
  agree (grp (cls_mr rc) + grp (cls_mr cc)) V1 V2 ->
  slice_out_of V1 nr nc sr sc rc cc = slice_out_of V2 nr nc sr sc rc cc.
Proof.
  intros H. unfold slice_out_of.
  assert (E1 : forall i j, counts_of V1 rc cc i j = counts_of V2 rc cc i j)
    by (intros; destruct rc, cc; unf; ext_solve H).
  assert (E2 : forall i j, row_bases_of V1 nc sc rc cc i j = row_bases_of V2 nc sc rc cc i j)
    by (intros; destruct rc, cc; unf; ext_solve H).
  assert (E3 : forall i j, column_bases_of V1 nr sr rc cc i j = column_bases_of V2 nr sr rc cc i j)
    by (intros; destruct rc, cc; unf; ext_solve H).
  assert (E4 : forall i j, table_bases_of V1 nr nc sr sc rc cc i j = table_bases_of V2 nr nc sr sc rc cc i j)
    by (intros; destruct rc, cc; unf; ext_solve H).
  assert (E5 : oapp (tab nr) (rows_base_of V1 nc rc cc) = oapp (tab nr) (rows_base_of V2 nc rc cc))
    by (destruct rc, cc; unf; cbn [oapp]; try reflexivity; f_equal; apply tab_ext; intros; ext_solve H).
  assert (E6 : oapp (tab nc) (columns_base_of V1 nr rc cc) = oapp (tab nc) (columns_base_of V2 nr rc cc))
    by (destruct rc, cc; unf; cbn [oapp]; try reflexivity; f_equal; apply tab_ext; intros; ext_solve H).
  assert (E7 : oapp (tab nr) (rows_table_base_of V1 nr nc sr rc cc)
               = oapp (tab nr) (rows_table_base_of V2 nr nc sr rc cc))
    by (destruct rc, cc; unf; cbn [oapp]; try reflexivity; f_equal; apply tab_ext; intros; ext_solve H).
  assert (E8 : oapp (tab nc) (columns_table_base_of V1 nr nc sc rc cc)
               = oapp (tab nc) (columns_table_base_of V2 nr nc sc rc cc))
    by (destruct rc, cc; unf; cbn [oapp]; try reflexivity; f_equal; apply tab_ext; intros; ext_solve H).
  assert (E9 : table_base_of V1 nr nc rc cc = table_base_of V2 nr nc rc cc)
    by (destruct rc, cc; unf; try reflexivity; f_equal; ext_solve H).
  rewrite (tab2_ext nr nc _ _ E1), (tab2_ext nr nc _ _ E2), (tab2_ext nr nc _ _ E3),
          (tab2_ext nr nc _ _ E4), E5, E6, E7, E8, E9.
  reflexivity.
Qed.

(* ---- dimension groups ------------------------------------------------------------------------------ *)
Lemma dgroup_no_numarr g : dgroup g -> existsb is_numarr g = false.
Proof.
  intros [d A B C|d s A B]; simpl.
  - rewrite C. reflexivity.
  - unfold is_numarr. rewrite A, B. reflexivity.
Qed.

Lemma dgroup_len g : dgroup g -> length g = grp (is_mr (g_dim g)).
Proof.
  intros [d A B C|d s A B]; simpl.
  - rewrite A. reflexivity.
  - unfold is_mr. rewrite A. reflexivity.
Qed.

Lemma cls_mr_cls_of d : cls_mr (cls_of d) = is_mr d.
Proof. unfold cls_mr, cls_of, is_mr. destruct (dk d); reflexivity. Qed.

Lemma slice_info_groups gr gc :
  dgroup gr -> dgroup gc ->
  slice_info_of (gr ++ gc) =
  Some (mkSliceInfo 2 false (g_dim gr) (g_sel gr) (match gr with [_; s] => dsize s | _ => 0 end)
                            (g_dim gc) (g_sel gc) (match gc with [_; s] => dsize s | _ => 0 end)).
Proof.
  assert (F1 : forall d, dk d = DMrSubvar -> is_mrcat d = false)
    by (intros d H; unfold is_mrcat; rewrite H; reflexivity).
  assert (F2 : forall d, dk d = DMrCat -> is_mrcat d = true)
    by (intros d H; unfold is_mrcat; rewrite H; reflexivity).
  intros [r A B C|r rs A B] [c A' B' C'|c cs A' B']; unfold slice_info_of, apparent;
    cbn [app rev split_last filter length g_dim g_sel hd];
    rewrite ?B, ?B', ?(F1 _ A), ?(F1 _ A'), ?(F2 _ B), ?(F2 _ B');
    cbn [app rev split_last filter length negb];
    rewrite ?B, ?B', ?(F1 _ A), ?(F1 _ A'), ?(F2 _ B), ?(F2 _ B');
    cbn; try reflexivity.
Qed.

Lemma rgrp_app gr gc : dgroup gr -> rgrp (gr ++ gc) = length gr.
Proof.
  intros [d A B C|d s A B]; simpl.
  - rewrite A. reflexivity.
  - unfold is_mr. rewrite A. reflexivity.
Qed.

Lemma skipn_app_len {A} (a b : list A) n : n = length a -> skipn n (a ++ b) = b.
Proof.
  intros ->. rewrite skipn_app, Nat.sub_diag, skipn_all. reflexivity.
Qed.
Lemma firstn_app_len {A} (a b : list A) n : n = length a -> firstn n (a ++ b) = a.
Proof.
  intros ->. rewrite firstn_app, Nat.sub_diag, firstn_all. simpl. apply app_nil_r.
Qed.

Lemma tpayload_groups gr gc data :
  dgroup gr ->
  tpayload (gr ++ gc) data
  = flatten (map dsize gc ++ map dsize gr)
            (trot (length gc) (of_flat (map dsize gr ++ map dsize gc) data)).
Proof.
  intros G. unfold tpayload. rewrite (rgrp_app gr gc G). rewrite map_app.
  rewrite skipn_app_len by (rewrite map_length; reflexivity).
  rewrite firstn_app_len by (rewrite map_length; reflexivity).
  rewrite app_length.
  replace (length gr + length gc - length gr) with (length gc) by lia.
  reflexivity.
Qed.

(* the analysis of the transposed payload is the transpose of the analysis of the payload *)
Theorem slice_counts_transposed_payload gr gc data :
  dgroup gr -> dgroup gc ->
  exists S S',
    slice_counts (gr ++ gc) data 0 = Some S /\
    slice_counts (gc ++ gr) (tpayload (gr ++ gc) data) 0 = Some S' /\
    slice_counts_T (gr ++ gc) data = Some S' /\
    slice_out_T (nvalid (g_dim gr)) (nvalid (g_dim gc)) S' S.
Proof.
  intros Gr Gc.
  assert (Nn : no_numarr (gr ++ gc)).
  { unfold no_numarr. rewrite existsb_app, (dgroup_no_numarr _ Gr), (dgroup_no_numarr _ Gc). reflexivity. }
  rewrite !slice_counts_is_slice_out_of. unfold slice_counts_T.
  rewrite (slice_info_groups gr gc Gr Gc), (slice_info_groups gc gr Gc Gr).
  cbn [si_row si_col si_sr si_sc si_ndim si_table_mr].
  set (V := slice_tensor (gr ++ gc) data _ 0).
  set (V' := slice_tensor (gc ++ gr) _ _ 0).
  assert (E : slice_out_of V' (nvalid (g_dim gc)) (nvalid (g_dim gr)) (g_sel gc) (g_sel gr)
                (cls_of (g_dim gc)) (cls_of (g_dim gr))
              = slice_out_of (ttrans (is_mr (g_dim gc)) V) (nvalid (g_dim gc)) (nvalid (g_dim gr))
                  (g_sel gc) (g_sel gr) (cls_of (g_dim gc)) (cls_of (g_dim gr))).
  { apply slice_out_of_ext. rewrite !cls_mr_cls_of.
    rewrite <- (dgroup_len _ Gr), <- (dgroup_len _ Gc).
    intros idx L.
    rewrite <- (firstn_skipn (length gc) idx).
    assert (Lc : length (firstn (length gc) idx) = length gc) by (rewrite firstn_length; lia).
    assert (Lr : length (skipn (length gc) idx) = length gr) by (rewrite skipn_length; lia).
    unfold V', V, slice_tensor, slice_at. cbn [si_ndim si_table_mr Nat.ltb Nat.leb].
    rewrite (tpayload_groups gr gc data Gr).
    unfold ttrans. rewrite <- (dgroup_len _ Gc).
    apply valid_tensor_of_transposed_payload; assumption. }
  eexists. eexists. split; [reflexivity|]. split; [reflexivity|]. split.
  - rewrite E. reflexivity.
  - rewrite E. rewrite <- (cls_mr_cls_of (g_dim gc)). apply slice_out_of_T.
Qed.
