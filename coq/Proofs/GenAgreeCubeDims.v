(* GenAgreeCubeDims: Cube._all_dimensions and the numeric-measure chain it rests on (available_measures,
   _available_numeric_measures, _numeric_measure_subvariables, _numeric_measure_references,
   _numeric_array_dimension) as generated from src/cr/cube/cube.py (Gen/CubeSrc.v): on a count response the
   dimension dicts handed to Dimensions.from_dicts are exactly result.dimensions (no numeric-array dimension
   is put in front); on any response, [numeric-array dimension] + result.dimensions when there is one. *)
From Coq Require Import List ZArith QArith String Bool Lia Arith.
From CC Require Import Base.XQ Base.ListX Base.PyList Base.PyJson Spec.Survey Model.CubeCounts Model.DimType
  Model.PyCube Gen.CubeSrc Proofs.GenAgreeCubeLib Proofs.GenAgreeCubeBase.
Import ListNotations.
Local Close Scope Q_scope.
Local Open Scope Z_scope.
Local Open Scope string_scope.

(* Cube._all_dimensions in terms of the numeric-array dimension and the parsed response *)
(*@ C01 C06 *)
Lemma gen_cube_Cube__all_dimensions :
  match src_Cube__all_dimensions, src_Cube__numeric_array_dimension, src_Cube__cube_response with
  | Some f, Some g1, Some g2 => forall X c numdim res dimsj,
      g1 X c = POk numdim -> g2 X c = POk (JDict [("result", JDict res)]) ->
      py_dict_get String.eqb res "dimensions" = Some (JList dimsj) ->
      f X c = x_from_dicts X (JList (if json_truthy numdim then numdim :: dimsj else dimsj))
  | _, _, _ => True end.
Proof.
  unfold src_Cube__all_dimensions. src_cases; (intros X c numdim res dimsj H1 H2 H3;
  rewrite H1, H2; cbn [pbind py_getitem_str py_dict_get String.eqb Ascii.eqb Bool.eqb pres_of_option];
  rewrite H3; cbn [pbind pres_of_option]; unfold py_or;
  destruct (json_truthy numdim) eqn:E; cbn; rewrite ?E; cbn; rewrite pbind_ret; reflexivity).
Qed.

(* a count response (counts, count / valid-count measures with their data only) has no numeric array *)
(*@ C01 C06 *)
Lemma gen_cube_Cube__numeric_array_dimension_counts :
  match src_Cube__numeric_array_dimension, src_Cube__cube_response with
  | Some f, Some g => forall X c p more,
      g X c = POk (count_response p more) -> f X c = POk JNull
  | _, _ => True end.
Proof.
  unfold src_Cube__numeric_array_dimension, src_Cube__numeric_measure_subvariables,
    src_Cube__numeric_measure_references, src_Cube__available_numeric_measures, src_Cube_available_measures.
  src_cases; (intros X c pl more H; rewrite !H;
  destruct pl as [cn [cnt|] [vu|] [vw|]];
    cbn -[data_json]; reflexivity).
Qed.

(*@ C01 C06 *)
Lemma gen_cube_Cube__all_dimensions_counts :
  match src_Cube__all_dimensions, src_Cube__cube_response with
  | Some f, Some g => forall X c p more dimsj,
      g X c = POk (count_response p more) ->
      py_dict_get String.eqb more "dimensions" = Some (JList dimsj) ->
      f X c = x_from_dicts X (JList dimsj)
  | _, _ => True end.
Proof.
  generalize gen_cube_Cube__all_dimensions gen_cube_Cube__numeric_array_dimension_counts.
  unfold src_Cube__all_dimensions.
  src_cases; (intros Ha Hn; intros X c pl more dimsj H1 H2;
  rewrite (Ha X c JNull (count_result pl more) dimsj (Hn X c pl more H1) H1);
  [ reflexivity | unfold count_result; cbn; exact H2 ]).
Qed.
