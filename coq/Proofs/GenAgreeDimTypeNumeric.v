(* GenAgreeDimTypeNumeric (C14): Element.numeric_value and Dimension.numeric_values as generated from
   src/cr/cube/dimension.py (Gen/DimensionSrc.v) ARE [numeric_value_of] / the values of the valid elements of
   Model/DimValues.v: absent or null is NaN, 0 is 0.  Dimension.numeric_values is stated relative to
   Dimension.valid_elements (`match src_f, src_g with Some f, Some g => forall self els, g self = Ok els -> ..`:
   whenever valid_elements of the same object evaluates to els); what valid_elements evaluates to for every type
   definition is Proofs/GenAgreeDimTypeOrder.v, the composition Proofs/GenAgreeDimTypeComposeNumeric.v. *)
From Coq Require Import List ZArith String Bool Lia Arith.
From CC Require Import Base.XQ Base.Ident Base.PyList Base.PyDict Model.DimType Model.PyDimension Model.PyDimType
  Model.DimValues  Gen.DimensionSrc Gen.DimTypeSrc Proofs.GenAgreeDimensionLib Proofs.GenAgreeDimTypeLib.
Import ListNotations.
Local Close Scope Q_scope.
Local Open Scope Z_scope.
Local Open Scope string_scope.

(*@ C14 *)
Lemma gen_dimtype_Element_numeric_value :
  match src_Element_numeric_value with
  | Some f => forall e idx xf t, f (mkPyElement (JDict e) idx xf t) = Ok (numeric_value_of e)
  | None => True end.
Proof.
  unfold src_Element_numeric_value.
  first [exact I | idtac].
  all: gen_open; dsimpl; rewrite pj_get_dict; dsimpl.
  all: unfold numeric_value_of; rewrite jget_default.
  all: destruct (jget e "numeric_value") as [[| | | | | |]|]; reflexivity.
Qed.

(*@ C14 *)
Lemma gen_dimtype_Dimension_numeric_values :
  match src_Dimension_numeric_values, src_Dimension_valid_elements with
  | Some f, Some g => forall self els, g self = Ok els -> Forall el_is_dict els ->
      f self = Ok (map (fun el => def_numeric_value (el_element_dict el)) els)
  | _, _ => True end.
Proof.
  unfold src_Dimension_numeric_values.
  first [exact I | idtac].
  all: destruct src_Dimension_valid_elements as [g|]; [|exact I].
  all: generalize gen_dimtype_Element_numeric_value; destruct src_Element_numeric_value as [nv|]; [intros Hnv | intros _; exact I].
  all: intros self els Hg Hd; cbv beta iota; rewrite Hg; dsimpl; rewrite bind_ret.
  all: apply py_compM_map; intros el Hin; rewrite Forall_forall in Hd; destruct (Hd el Hin) as [e He].
  all: destruct el as [ed idx xf t]; cbn [el_element_dict] in *; subst ed; rewrite Hnv; reflexivity.
Qed.

