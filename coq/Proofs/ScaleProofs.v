(* Proofs about Model/Scale.v (scale mean, stddev^2, stderr^2, None/NaN conventions) against
   the respondent-level statistics of Spec/Stats.v - lemma family behind property C14. *)
From Coq Require Import QArith ZArith List Bool Lia Arith Lqa.
From CC Require Import Base.XQ Base.ListX Spec.Stats Model.Scale.
Import ListNotations.
Local Close Scope Q_scope.
Local Open Scope nat_scope.

(* ---- sums over the valued categories of a count vector --------------------------------- *)
Fixpoint vdot (f : Q -> Q -> Q) (ovals : list (option Q)) (cs : list Q) : Q :=
  match ovals, cs with
  | Some v :: ot, c :: ct => (f v c + vdot f ot ct)%Q
  | None :: ot, _ :: ct => vdot f ot ct
  | _, _ => 0%Q
  end.

Definition f_mul (v c : Q) : Q := (v * c)%Q.
Definition f_cnt (_ c : Q) : Q := c.
Definition f_dev (m : Q) (v c : Q) : Q := (c * ((v + - m) * (v + - m)))%Q.

Lemma vdot_ext f g ovals cs : (forall v c, (f v c == g v c)%Q) -> (vdot f ovals cs == vdot g ovals cs)%Q.
Proof.
  intros H. revert cs. induction ovals as [|[v|] ot IH]; intros [|c ct]; simpl; try reflexivity.
  - rewrite H, IH. reflexivity.
  - apply IH.
Qed.

Lemma nansum_vdot ovals ps :
  nansum (map (fun vp => xmul (fst vp) (snd vp)) (combine (map xval ovals) (map Fin ps)))
  = Fin (vdot f_mul ovals ps).
Proof.
  revert ps. induction ovals as [|[v|] ot IH]; intros [|p pt]; simpl; try reflexivity.
  - rewrite IH. reflexivity.
  - rewrite IH. reflexivity.
Qed.

Lemma keep_valued_vdot ovals ps :
  xsum (keep_valued (map xval ovals) (map Fin ps)) = Fin (vdot f_cnt ovals ps).
Proof.
  unfold keep_valued.
  revert ps. induction ovals as [|[v|] ot IH]; intros [|p pt]; simpl; try reflexivity.
  - rewrite IH. reflexivity.
  - apply IH.
Qed.

Lemma wmean_fin ovals ps :
  wmean (map Fin ps) (map xval ovals) = xdiv (Fin (vdot f_mul ovals ps)) (Fin (vdot f_cnt ovals ps)).
Proof. unfold wmean. rewrite nansum_vdot, keep_valued_vdot. reflexivity. Qed.

Lemma pdiv_const cs B : qzero B = false ->
  pdiv (map Fin cs) (repeat (Fin B) (length cs)) = map Fin (map (fun c => c / B)%Q cs).
Proof.
  intros HB. unfold pdiv. induction cs as [|c ct IH]; simpl; [reflexivity|].
  rewrite HB. f_equal. exact IH.
Qed.

Lemma vdot_mul_div ovals cs B : ~ (B == 0)%Q ->
  (vdot f_mul ovals (map (fun c => c / B) cs) == vdot f_mul ovals cs / B)%Q.
Proof.
  intros HB. revert cs. induction ovals as [|[v|] ot IH]; intros [|c ct]; simpl;
    try (field; exact HB).
  - rewrite IH. unfold f_mul. field. exact HB.
  - apply IH.
Qed.
Lemma vdot_cnt_div ovals cs B : ~ (B == 0)%Q ->
  (vdot f_cnt ovals (map (fun c => c / B) cs) == vdot f_cnt ovals cs / B)%Q.
Proof.
  intros HB. revert cs. induction ovals as [|[v|] ot IH]; intros [|c ct]; simpl;
    try (field; exact HB).
  - rewrite IH. unfold f_cnt. field. exact HB.
  - apply IH.
Qed.

(* dividing numerator and denominator by the same positive base changes nothing *)
Lemma xdiv_scale a b B : (0 < B)%Q ->
  xdiv (Fin (a / B)) (Fin (b / B)) =x= xdiv (Fin a) (Fin b).
Proof.
  intros HB. assert (HB0 : ~ (B == 0)%Q) by lra.
  simpl.
  destruct (qzero b) eqn:Eb.
  - apply qzero_true in Eb.
    assert (E1 : qzero (b / B) = true).
    { apply qzero_true. rewrite Eb. field. exact HB0. }
    rewrite E1.
    destruct (qzero a) eqn:Ea.
    + apply qzero_true in Ea.
      assert (E2 : qzero (a / B) = true) by (apply qzero_true; rewrite Ea; field; exact HB0).
      rewrite E2. reflexivity.
    + apply qzero_false in Ea.
      assert (E2 : qzero (a / B) = false).
      { apply qzero_false. intros H. apply Ea.
        assert (a == a / B * B)%Q by (field; exact HB0). rewrite H0, H. ring. }
      rewrite E2. simpl.
      destruct (qneg a) eqn:Na.
      * apply qneg_true in Na.
        assert (E3 : qneg (a / B) = true).
        { apply qneg_true. apply Qlt_shift_div_r; [exact HB|]. lra. }
        rewrite E3. reflexivity.
      * apply qneg_false in Na.
        assert (E3 : qneg (a / B) = false).
        { apply qneg_false. apply Qle_shift_div_l; [exact HB|]. lra. }
        rewrite E3. reflexivity.
  - apply qzero_false in Eb.
    assert (E1 : qzero (b / B) = false).
    { apply qzero_false. intros H. apply Eb.
      assert (b == b / B * B)%Q by (field; exact HB0). rewrite H0, H. ring. }
    rewrite E1. simpl. field. split; assumption.
Qed.

(* the scale mean of a vector depends on the counts only (any positive common base) *)
Lemma scale_mean_counts ovals cs B : (0 < B)%Q ->
  scale_mean_vec (map Fin cs) (repeat (Fin B) (length cs)) (map xval ovals)
  =x= xdiv (Fin (vdot f_mul ovals cs)) (Fin (vdot f_cnt ovals cs)).
Proof.
  intros HB. assert (HB0 : ~ (B == 0)%Q) by lra.
  unfold scale_mean_vec. rewrite pdiv_const by (apply qzero_false; exact HB0).
  rewrite wmean_fin.
  assert (E1 : Fin (vdot f_mul ovals (map (fun c => c / B)%Q cs)) =x= Fin (vdot f_mul ovals cs / B))
    by (apply xeq_Fin, vdot_mul_div, HB0).
  assert (E2 : Fin (vdot f_cnt ovals (map (fun c => c / B)%Q cs)) =x= Fin (vdot f_cnt ovals cs / B))
    by (apply xeq_Fin, vdot_cnt_div, HB0).
  rewrite E1, E2. apply xdiv_scale. exact HB.
Qed.

(* ---- variance ----------------------------------------------------------------------------- *)
Lemma valued_pairs_dev ovals cs m :
  nansum (map (fun vc => xmul (snd vc) (xsq (xsub (fst vc) (Fin m))))
              (valued_pairs (map xval ovals) (map Fin cs)))
  = Fin (vdot (f_dev m) ovals cs).
Proof.
  unfold valued_pairs.
  revert cs. induction ovals as [|[v|] ot IH]; intros [|c ct]; simpl; try reflexivity.
  - rewrite IH. reflexivity.
  - apply IH.
Qed.
Lemma valued_pairs_dev_xsum ovals cs m :
  xsum (map (fun vc => xmul (snd vc) (xsq (xsub (fst vc) (Fin m))))
            (valued_pairs (map xval ovals) (map Fin cs)))
  = Fin (vdot (f_dev m) ovals cs).
Proof.
  unfold valued_pairs.
  revert cs. induction ovals as [|[v|] ot IH]; intros [|c ct]; simpl; try reflexivity.
  - rewrite IH. reflexivity.
  - apply IH.
Qed.
Lemma valued_pairs_cnt ovals cs :
  xsum (map snd (valued_pairs (map xval ovals) (map Fin cs))) = Fin (vdot f_cnt ovals cs).
Proof.
  unfold valued_pairs.
  revert cs. induction ovals as [|[v|] ot IH]; intros [|c ct]; simpl; try reflexivity.
  - rewrite IH. reflexivity.
  - apply IH.
Qed.
Lemma valued_pairs_mul_xsum ovals cs :
  xsum (map (fun vc => xmul (snd vc) (fst vc)) (valued_pairs (map xval ovals) (map Fin cs)))
  = Fin (vdot (fun v c => c * v)%Q ovals cs).
Proof.
  unfold valued_pairs.
  revert cs. induction ovals as [|[v|] ot IH]; intros [|c ct]; simpl; try reflexivity.
  - rewrite IH. reflexivity.
  - apply IH.
Qed.

Lemma scale_var_fin ovals cs m :
  scale_var (map Fin cs) (map xval ovals) (Fin m)
  = xdiv (Fin (vdot (f_dev m) ovals cs)) (Fin (vdot f_cnt ovals cs)).
Proof. unfold scale_var. rewrite valued_pairs_dev, valued_pairs_cnt. reflexivity. Qed.

(* ---- from respondents to count vectors ------------------------------------------------------ *)
Lemma add_at_length k w l : length (add_at k w l) = length l.
Proof. revert k. induction l as [|c t IH]; intros [|k]; simpl; auto. Qed.

Lemma tally_length n rs : length (tally n rs) = n.
Proof.
  unfold tally. induction rs as [|r t IH]; simpl.
  - apply repeat_length.
  - rewrite add_at_length. exact IH.
Qed.

Lemma vdot_zero f ovals n : (forall v, f v 0 == 0)%Q -> (vdot f ovals (repeat 0%Q n) == 0)%Q.
Proof.
  intros Hf. revert n. induction ovals as [|[v|] ot IH]; intros [|n]; simpl; try reflexivity.
  - rewrite Hf, IH. ring.
  - apply IH.
Qed.

(* f must be additive in the count *)
Definition additive (f : Q -> Q -> Q) : Prop :=
  (forall v, f v 0 == 0)%Q /\ (forall v c w, f v (c + w) == f v c + f v w)%Q.

Lemma vdot_add_at f ovals k w cs : additive f -> k < length cs -> length ovals = length cs ->
  (vdot f ovals (add_at k w cs) ==
   vdot f ovals cs + match nth k ovals None with Some v => f v w | None => 0 end)%Q.
Proof.
  intros [_ Hadd]. revert k cs.
  induction ovals as [|o ot IH]; intros k [|c ct] Hk Hl; simpl in *; try lia.
  destruct k as [|k].
  - destruct o as [v|]; simpl.
    + rewrite Hadd. ring.
    + ring.
  - destruct o as [v|]; simpl.
    + rewrite IH by lia. ring.
    + rewrite IH by lia. ring.
Qed.

Lemma qsum_app l1 l2 : (qsum (l1 ++ l2) == qsum l1 + qsum l2)%Q.
Proof. induction l1 as [|a t IH]; simpl; [ring|]. rewrite IH. ring. Qed.

Definition cats_below (n : nat) (rs : list (nat * Q)) : Prop := Forall (fun r => fst r < n) rs.

Lemma vdot_tally f ovals rs : additive f -> cats_below (length ovals) rs ->
  (vdot f ovals (tally (length ovals) rs)
   == qsum (map (fun o => f (fst o) (snd o)) (observations ovals rs)))%Q.
Proof.
  intros Hf Hc. induction rs as [|r t IH].
  - simpl. apply vdot_zero. apply Hf.
  - inversion Hc as [|? ? Hr Ht]; subst.
    change (tally (length ovals) (r :: t)) with (add_at (fst r) (snd r) (tally (length ovals) t)).
    rewrite vdot_add_at; [|exact Hf|rewrite tally_length; exact Hr|rewrite tally_length; reflexivity].
    rewrite IH by exact Ht.
    simpl observations. rewrite map_app, qsum_app.
    destruct (nth (fst r) ovals None) as [v|]; simpl; ring.
Qed.

Lemma additive_mul : additive f_mul.
Proof. split; intros; unfold f_mul; ring. Qed.
Lemma additive_cnt : additive f_cnt.
Proof. split; intros; unfold f_cnt; ring. Qed.
Lemma additive_dev m : additive (f_dev m).
Proof. split; intros; unfold f_dev; ring. Qed.

Lemma qsum_map_ext {A} (f g : A -> Q) l : (forall x, f x == g x)%Q -> (qsum (map f l) == qsum (map g l))%Q.
Proof. intros H. induction l as [|a t IH]; simpl; [reflexivity|]. rewrite H, IH. reflexivity. Qed.

Lemma tally_wsumv ovals rs : cats_below (length ovals) rs ->
  (vdot f_mul ovals (tally (length ovals) rs) == wsumv (observations ovals rs))%Q.
Proof. intros H. rewrite (vdot_tally _ _ _ additive_mul H). reflexivity. Qed.
Lemma tally_wtotal ovals rs : cats_below (length ovals) rs ->
  (vdot f_cnt ovals (tally (length ovals) rs) == wtotal (observations ovals rs))%Q.
Proof. intros H. rewrite (vdot_tally _ _ _ additive_cnt H). reflexivity. Qed.
Lemma tally_wsqdev m ovals rs : cats_below (length ovals) rs ->
  (vdot (f_dev m) ovals (tally (length ovals) rs) == wsqdev m (observations ovals rs))%Q.
Proof.
  intros H. rewrite (vdot_tally _ _ _ (additive_dev m) H). unfold wsqdev.
  apply qsum_map_ext. intros x. unfold f_dev. ring.
Qed.

(* ---- the theorems ------------------------------------------------------------------------------ *)
Definition nonneg_weights (rs : list (nat * Q)) : Prop := Forall (fun r => (0 <= snd r)%Q) rs.

Lemma xdiv_fin_eq a a' b b' : (a == a')%Q -> (b == b')%Q -> ~ (b' == 0)%Q ->
  xdiv (Fin a) (Fin b) =x= Fin (a' / b').
Proof.
  intros Ha Hb H0. assert (E : xdiv (Fin a) (Fin b) =x= xdiv (Fin a') (Fin b')).
  { apply xdiv_Proper; simpl; assumption. }
  rewrite E. rewrite xdiv_fin by exact H0. reflexivity.
Qed.

Theorem scale_mean_eq ovals rs B :
  cats_below (length ovals) rs -> (0 < B)%Q ->
  ~ (wtotal (observations ovals rs) == 0)%Q ->
  scale_mean_vec (map Fin (tally (length ovals) rs)) (repeat (Fin B) (length ovals)) (map xval ovals)
  =x= Fin (wmean_spec (observations ovals rs)).
Proof.
  intros Hc HB Ht.
  pose proof (scale_mean_counts ovals (tally (length ovals) rs) B HB) as H.
  rewrite tally_length in H. rewrite H.
  unfold wmean_spec. apply xdiv_fin_eq; [apply tally_wsumv|apply tally_wtotal|]; assumption.
Qed.

(* observations carry the respondents' weights *)
Lemma observations_nonneg ovals rs : nonneg_weights rs ->
  Forall (fun o => (0 <= snd o)%Q) (observations ovals rs).
Proof.
  intros H. induction H as [|r t Hr Ht IH]; simpl; [constructor|].
  apply Forall_app. split; [|exact IH].
  destruct (nth (fst r) ovals None); constructor; auto.
Qed.

Lemma qsum_nonneg l : Forall (fun q => (0 <= q)%Q) l -> (0 <= qsum l)%Q.
Proof. intros H. induction H as [|a t Ha Ht IH]; simpl; lra. Qed.

Lemma zero_total_zero_sum (g : Q * Q -> Q) l :
  Forall (fun o => (0 <= snd o)%Q) l -> (qsum (map snd l) == 0)%Q ->
  (qsum (map (fun o => g o * snd o) l) == 0)%Q.
Proof.
  intros H. induction H as [|a t Ha Ht IH]; simpl; intros E; [reflexivity|].
  assert (0 <= qsum (map snd t))%Q.
  { apply qsum_nonneg. rewrite Forall_map. exact Ht. }
  assert (E1 : (snd a == 0)%Q) by lra.
  assert (E2 : (qsum (map snd t) == 0)%Q) by lra.
  rewrite (IH E2), E1. ring.
Qed.

(* no numeric-valued respondent (total valued weight 0) => NaN *)
Theorem scale_mean_nan ovals rs B :
  cats_below (length ovals) rs -> nonneg_weights rs -> (0 < B)%Q ->
  (wtotal (observations ovals rs) == 0)%Q ->
  scale_mean_vec (map Fin (tally (length ovals) rs)) (repeat (Fin B) (length ovals)) (map xval ovals)
  =x= NaN.
Proof.
  intros Hc Hn HB Ht.
  pose proof (scale_mean_counts ovals (tally (length ovals) rs) B HB) as H.
  rewrite tally_length in H. rewrite H.
  assert (E1 : (vdot f_mul ovals (tally (length ovals) rs) == 0)%Q).
  { rewrite tally_wsumv by exact Hc. unfold wsumv.
    apply (zero_total_zero_sum (fun o => fst o)); [apply observations_nonneg; exact Hn|exact Ht]. }
  assert (E2 : (vdot f_cnt ovals (tally (length ovals) rs) == 0)%Q).
  { rewrite tally_wtotal by exact Hc. exact Ht. }
  rewrite (xdiv_zero_zero _ _ E1 E2). reflexivity.
Qed.

(* a zero base (nobody at all in the vector): 0/0 proportions => NaN *)
Lemma pdiv_zero_base cs : pdiv (map Fin cs) (repeat (Fin 0) (length cs))
  = map (fun c => if qzero c then NaN else Inf (qneg c)) cs.
Proof. unfold pdiv. induction cs as [|c t IH]; simpl; [reflexivity|]. f_equal. exact IH. Qed.

Lemma Fin_eq_inv x m : x =x= Fin m -> exists m', x = Fin m' /\ (m' == m)%Q.
Proof. destruct x as [q|s|]; simpl; intros H; try contradiction. exists q. auto. Qed.

Lemma wsqdev_ext m m' l : (m == m')%Q -> (wsqdev m l == wsqdev m' l)%Q.
Proof. intros H. unfold wsqdev. apply qsum_map_ext. intros x. rewrite H. reflexivity. Qed.

Lemma wsqdev_nonneg m l : Forall (fun o => (0 <= snd o)%Q) l -> (0 <= wsqdev m l)%Q.
Proof.
  intros H. unfold wsqdev. apply qsum_nonneg. rewrite Forall_map.
  eapply Forall_impl; [|exact H]. intros o Ho. simpl.
  apply Qmult_le_0_compat; [exact Ho|].
  destruct (Qlt_le_dec (fst o - m) 0) as [L|L].
  - setoid_replace ((fst o - m) * (fst o - m))%Q with ((- (fst o - m)) * (- (fst o - m)))%Q by ring.
    apply Qmult_le_0_compat; lra.
  - apply Qmult_le_0_compat; exact L.
Qed.

Lemma wtotal_pos ovals rs : nonneg_weights rs -> ~ (wtotal (observations ovals rs) == 0)%Q ->
  (0 < wtotal (observations ovals rs))%Q.
Proof.
  intros Hn Ht.
  assert (0 <= wtotal (observations ovals rs))%Q.
  { unfold wtotal. apply qsum_nonneg. rewrite Forall_map. apply observations_nonneg. exact Hn. }
  lra.
Qed.

Lemma wvar_nonneg ovals rs : nonneg_weights rs -> ~ (wtotal (observations ovals rs) == 0)%Q ->
  (0 <= wvar_spec (observations ovals rs))%Q.
Proof.
  intros Hn Ht. unfold wvar_spec.
  apply Qle_shift_div_l; [apply wtotal_pos; assumption|].
  pose proof (wsqdev_nonneg (wmean_spec (observations ovals rs)) _ (observations_nonneg ovals rs Hn)). lra.
Qed.

Lemma sqrt_arg_nonneg q : (0 <= q)%Q -> sqrt_arg (Fin q) = Fin q.
Proof. intros H. simpl. apply qneg_false in H. rewrite H. reflexivity. Qed.

Lemma sqrt_arg_xeq x q : x =x= Fin q -> (0 <= q)%Q -> sqrt_arg x =x= Fin q.
Proof.
  intros H Hq. destruct (Fin_eq_inv _ _ H) as [q' [-> E]].
  rewrite sqrt_arg_nonneg by lra. exact E.
Qed.

(* the raw variance quotient for a non-difference vector *)
Lemma scale_var_raw ovals rs B :
  cats_below (length ovals) rs -> (0 < B)%Q ->
  ~ (wtotal (observations ovals rs) == 0)%Q ->
  scale_var (map Fin (tally (length ovals) rs)) (map xval ovals)
    (scale_mean_vec (map Fin (tally (length ovals) rs)) (repeat (Fin B) (length ovals)) (map xval ovals))
  =x= Fin (wvar_spec (observations ovals rs)).
Proof.
  intros Hc HB Ht.
  destruct (Fin_eq_inv _ _ (scale_mean_eq ovals rs B Hc HB Ht)) as [m' [-> Em]].
  rewrite scale_var_fin. unfold wvar_spec.
  apply xdiv_fin_eq; [|apply tally_wtotal; exact Hc|exact Ht].
  rewrite tally_wsqdev by exact Hc. apply wsqdev_ext. exact Em.
Qed.

Theorem scale_var_eq ovals rs B :
  cats_below (length ovals) rs -> nonneg_weights rs -> (0 < B)%Q ->
  ~ (wtotal (observations ovals rs) == 0)%Q ->
  scale_var_vec false (map Fin (tally (length ovals) rs)) (repeat (Fin B) (length ovals)) (map xval ovals)
  =x= Fin (wvar_spec (observations ovals rs)).
Proof.
  intros Hc Hn HB Ht. unfold scale_var_vec, comparable.
  apply sqrt_arg_xeq; [apply scale_var_raw; assumption|apply wvar_nonneg; assumption].
Qed.

Theorem scale_stderr_eq ovals rs B M :
  cats_below (length ovals) rs -> nonneg_weights rs -> (0 < B)%Q -> (0 < M)%Q ->
  ~ (wtotal (observations ovals rs) == 0)%Q ->
  scale_stderr_sq_vec false (map Fin (tally (length ovals) rs)) (repeat (Fin B) (length ovals))
    (map xval ovals) (Fin M)
  =x= Fin (wvar_spec (observations ovals rs) / M).
Proof.
  intros Hc Hn HB HM Ht. unfold scale_stderr_sq_vec.
  destruct (Fin_eq_inv _ _ (scale_var_eq ovals rs B Hc Hn HB Ht)) as [v' [-> Ev]].
  rewrite sqrt_arg_nonneg by lra.
  apply xdiv_fin_eq; [exact Ev|reflexivity|lra].
Qed.

(* the margin really is the total weight of the vector's respondents, valued or not *)
Lemma qsum_add_at k w l : k < length l -> (qsum (add_at k w l) == qsum l + w)%Q.
Proof.
  revert k. induction l as [|c t IH]; intros [|k] H; simpl in *; try lia; try ring.
  rewrite IH by lia. ring.
Qed.
Lemma qsum_repeat0 n : (qsum (repeat 0%Q n) == 0)%Q.
Proof. induction n; simpl; [reflexivity|]. rewrite IHn. ring. Qed.
Theorem tally_total n rs : cats_below n rs -> (qsum (tally n rs) == weight_all rs)%Q.
Proof.
  intros H. unfold weight_all. induction H as [|r t Hr Ht IH]; simpl.
  - apply qsum_repeat0.
  - rewrite qsum_add_at by (rewrite tally_length; exact Hr).
    change (fold_right (fun r acc => add_at (fst r) (snd r) acc) (repeat 0%Q n) t) with (tally n t).
    rewrite IH. ring.
Qed.

(* difference vectors: all counts NaN => the variance (and the standard error) is NaN *)
Lemma nansum_nan_counts (g : xq -> xq) (l : list (xq * xq)) :
  Forall (fun vc => snd vc = NaN) l ->
  nansum (map (fun vc => xmul (snd vc) (g (fst vc))) l) = Fin 0.
Proof.
  intros H. induction H as [|a t Ha Ht IH]; simpl; [reflexivity|].
  rewrite Ha. simpl. exact IH.
Qed.
Lemma xsum_all_nan (l : list xq) : Forall (fun a => a = NaN) l -> xsum l = Fin 0 \/ xsum l = NaN.
Proof. intros H. destruct H as [|a t Ha Ht]; simpl; [left; reflexivity|right; rewrite Ha; reflexivity]. Qed.
Lemma valued_pairs_nan vals (counts : list xq) :
  Forall (fun vc : xq * xq => snd vc = NaN) (valued_pairs vals (map (fun _ => NaN) counts)).
Proof.
  unfold valued_pairs. revert counts.
  induction vals as [|v vt IH]; intros [|c ct]; simpl; try constructor.
  destruct (negb (is_nan v)); [constructor; [reflexivity|apply IH]|apply IH].
Qed.
Theorem scale_var_diff counts bases vals : scale_var_vec true counts bases vals = NaN.
Proof.
  unfold scale_var_vec, comparable, scale_var.
  rewrite (nansum_nan_counts (fun v => xsq (xsub v _)) _ (valued_pairs_nan vals counts)).
  destruct (xsum_all_nan (map snd (valued_pairs vals (map (fun _ => NaN) counts)))) as [E|E].
  - rewrite Forall_map. apply valued_pairs_nan.
  - rewrite E. reflexivity.
  - rewrite E. reflexivity.
Qed.
Theorem scale_stderr_diff counts bases vals margin :
  scale_stderr_sq_vec true counts bases vals margin = NaN.
Proof. unfold scale_stderr_sq_vec. rewrite scale_var_diff. apply xdiv_nan_l. Qed.

(* ---- None <-> no category has a numeric value ------------------------------------------------- *)
Theorem any_value_false_iff ovals :
  any_value (map xval ovals) = false <-> Forall (fun o => o = None) ovals.
Proof.
  unfold any_value. induction ovals as [|[v|] t IH]; simpl.
  - split; auto.
  - split; [discriminate|]. intros H. inversion H. discriminate.
  - rewrite IH. split; intros H; [constructor; auto|inversion H; auto].
Qed.

(* ---- margins: the same formula over the margin vector ------------------------------------------ *)
Theorem scale_mean_margin_eq ovals rs :
  cats_below (length ovals) rs ->
  ~ (wtotal (observations ovals rs) == 0)%Q ->
  scale_mean_margin (map Fin (tally (length ovals) rs)) (map xval ovals)
  =x= Fin (wmean_spec (observations ovals rs)).
Proof.
  intros Hc Ht. unfold scale_mean_margin. rewrite wmean_fin. unfold wmean_spec.
  apply xdiv_fin_eq; [apply tally_wsumv|apply tally_wtotal|]; assumption.
Qed.

(* ---- strand ------------------------------------------------------------------------------------ *)
Lemma valued_pairs_nil_iff ovals cs : length ovals = length cs ->
  (valued_pairs (map xval ovals) (map Fin cs) = [] <-> Forall (fun o => o = None) ovals).
Proof.
  unfold valued_pairs. revert cs.
  induction ovals as [|[v|] t IH]; intros [|c ct] Hl; simpl in *; try lia.
  - split; auto.
  - split; [discriminate|]. intros H. inversion H. discriminate.
  - rewrite IH by lia. split; intros H; [constructor; auto|inversion H; auto].
Qed.

Lemma strand_total_fin ovals cs :
  strand_total (map Fin cs) (map xval ovals) = Fin (vdot f_cnt ovals cs).
Proof. unfold strand_total. apply valued_pairs_cnt. Qed.

(* None <-> no category with a value, or no numeric-valued respondent *)
Theorem strand_mean_none_iff ovals rs :
  cats_below (length ovals) rs ->
  (strand_scale_mean (map Fin (tally (length ovals) rs)) (map xval ovals) = None
   <-> (Forall (fun o => o = None) ovals \/ (wtotal (observations ovals rs) == 0)%Q)).
Proof.
  intros Hc. unfold strand_scale_mean.
  pose proof (valued_pairs_nil_iff ovals (tally (length ovals) rs)) as Hnil.
  rewrite tally_length in Hnil. specialize (Hnil eq_refl).
  rewrite strand_total_fin.
  destruct (valued_pairs (map xval ovals) (map Fin (tally (length ovals) rs))) as [|p l] eqn:E.
  - split; [intros _; left; apply Hnil; reflexivity|reflexivity].
  - simpl xeqb.
    destruct (Qeq_bool (vdot f_cnt ovals (tally (length ovals) rs)) 0) eqn:Q0.
    + split; [|reflexivity]. intros _. right. apply Qeq_bool_iff in Q0.
      rewrite <- tally_wtotal by exact Hc. exact Q0.
    + split; [discriminate|]. intros [H|H].
      * apply Hnil in H. discriminate.
      * rewrite <- tally_wtotal in H by exact Hc. apply Qeq_bool_iff in H. congruence.
Qed.

Lemma strand_mean_some ovals rs :
  cats_below (length ovals) rs ->
  ~ Forall (fun o => o = None) ovals -> ~ (wtotal (observations ovals rs) == 0)%Q ->
  exists m, strand_scale_mean (map Fin (tally (length ovals) rs)) (map xval ovals) = Some (Fin m)
            /\ (m == wmean_spec (observations ovals rs))%Q.
Proof.
  intros Hc Hv Ht. unfold strand_scale_mean.
  pose proof (valued_pairs_nil_iff ovals (tally (length ovals) rs)) as Hnil.
  rewrite tally_length in Hnil. specialize (Hnil eq_refl).
  rewrite strand_total_fin.
  pose proof (valued_pairs_mul_xsum ovals (tally (length ovals) rs)) as Hnum.
  destruct (valued_pairs (map xval ovals) (map Fin (tally (length ovals) rs))) as [|p l] eqn:E.
  - exfalso. apply Hv. apply Hnil. reflexivity.
  - simpl xeqb.
    assert (Hz : ~ (vdot f_cnt ovals (tally (length ovals) rs) == 0)%Q).
    { rewrite tally_wtotal by exact Hc. exact Ht. }
    destruct (Qeq_bool (vdot f_cnt ovals (tally (length ovals) rs)) 0) eqn:Q0.
    + apply Qeq_bool_iff in Q0. contradiction.
    + rewrite Hnum. rewrite xdiv_fin by exact Hz. eexists. split; [reflexivity|].
      unfold wmean_spec. rewrite <- tally_wsumv, <- tally_wtotal by exact Hc.
      assert (E2 : (vdot (fun v c => c * v) ovals (tally (length ovals) rs)
                   == vdot f_mul ovals (tally (length ovals) rs))%Q).
      { apply vdot_ext. intros. unfold f_mul. ring. }
      rewrite E2. reflexivity.
Qed.

Theorem strand_mean_eq ovals rs :
  cats_below (length ovals) rs ->
  ~ Forall (fun o => o = None) ovals -> ~ (wtotal (observations ovals rs) == 0)%Q ->
  exists x, strand_scale_mean (map Fin (tally (length ovals) rs)) (map xval ovals) = Some x
            /\ x =x= Fin (wmean_spec (observations ovals rs)).
Proof.
  intros Hc Hv Ht. destruct (strand_mean_some ovals rs Hc Hv Ht) as [m [E Em]].
  exists (Fin m). split; [exact E|exact Em].
Qed.

Lemma strand_var_some ovals rs :
  cats_below (length ovals) rs ->
  ~ Forall (fun o => o = None) ovals -> ~ (wtotal (observations ovals rs) == 0)%Q ->
  exists v, strand_scale_var (map Fin (tally (length ovals) rs)) (map xval ovals) = Some (Fin v)
            /\ (v == wvar_spec (observations ovals rs))%Q.
Proof.
  intros Hc Hv Ht. unfold strand_scale_var.
  destruct (strand_mean_some ovals rs Hc Hv Ht) as [m [-> Em]].
  rewrite valued_pairs_dev_xsum, strand_total_fin.
  assert (Hz : ~ (vdot f_cnt ovals (tally (length ovals) rs) == 0)%Q).
  { rewrite tally_wtotal by exact Hc. exact Ht. }
  rewrite xdiv_fin by exact Hz. eexists. split; [reflexivity|].
  unfold wvar_spec. rewrite tally_wsqdev, tally_wtotal by exact Hc.
  rewrite (wsqdev_ext _ _ _ Em). reflexivity.
Qed.

Theorem strand_stddev_eq ovals rs :
  cats_below (length ovals) rs -> nonneg_weights rs ->
  ~ Forall (fun o => o = None) ovals -> ~ (wtotal (observations ovals rs) == 0)%Q ->
  exists x, strand_scale_stddev_sq (map Fin (tally (length ovals) rs)) (map xval ovals) = Some x
            /\ x =x= Fin (wvar_spec (observations ovals rs)).
Proof.
  intros Hc Hn Hv Ht. unfold strand_scale_stddev_sq.
  destruct (strand_var_some ovals rs Hc Hv Ht) as [v [-> Ev]].
  cbn [option_map]. eexists. split; [reflexivity|].
  apply sqrt_arg_xeq; [exact Ev|apply wvar_nonneg; assumption].
Qed.

(* for a strand the standard error is over the weighted count of NUMERIC-VALUED respondents *)
Theorem strand_stderr_eq ovals rs :
  cats_below (length ovals) rs -> nonneg_weights rs ->
  ~ Forall (fun o => o = None) ovals -> ~ (wtotal (observations ovals rs) == 0)%Q ->
  exists x, strand_scale_stderr_sq (map Fin (tally (length ovals) rs)) (map xval ovals) = Some x
            /\ x =x= Fin (wvar_spec (observations ovals rs) / wtotal (observations ovals rs)).
Proof.
  intros Hc Hn Hv Ht. unfold strand_scale_stderr_sq.
  destruct (strand_var_some ovals rs Hc Hv Ht) as [v [-> Ev]].
  cbn [option_map]. eexists. split; [reflexivity|].
  rewrite strand_total_fin.
  pose proof (wtotal_pos ovals rs Hn Ht) as Hp.
  pose proof (wvar_nonneg ovals rs Hn Ht) as Hvn.
  apply sqrt_arg_xeq.
  - apply xdiv_fin_eq; [exact Ev|apply tally_wtotal; exact Hc|exact Ht].
  - apply Qle_shift_div_l; [exact Hp|]. lra.
Qed.

(* strand variance/errors are None exactly when the mean is *)
Theorem strand_none_together counts vals :
  strand_scale_mean counts vals = None ->
  strand_scale_stddev_sq counts vals = None /\ strand_scale_stderr_sq counts vals = None.
Proof.
  intros H. unfold strand_scale_stddev_sq, strand_scale_stderr_sq, strand_scale_var.
  rewrite H. split; reflexivity.
Qed.
