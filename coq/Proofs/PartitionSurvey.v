(* Proofs/PartitionSurvey.v -- slice k of the tensor of a 3-D cube is the tensor of the 2-D
   cube of the survey restricted to the members of table element k (Spec/Restrict.v).

   1. cell level: the respondents in cell (k, idx) of the 3-D cube are exactly (same list) the
      respondents in cell idx of the 2-D cube of the restricted survey -- so ANY cell statistic
      (counts, sums, means, medians ... of whatever the response carries) agrees;
   2. tensor level: _slice_idx_expr applied to the valid tensor of [tabulate] of the survey is
      pointwise the valid tensor of [tabulate] of the restricted survey, for a categorical and
      for a multiple-response table variable (selected plane) and for a categorical-array table
      variable (table = item, rows = its categories);
   3. every count / base extractor of Model/CubeCounts.v (all nine class pairs) respects
      pointwise equality of tensors, hence takes the same value on partition k and on the
      2-D cube of the restricted survey;
   4. CA-as-0th: strand k is the univariate tabulation of sub-variable k. *)
From Coq Require Import QArith ZArith List Bool Lia Arith Btauto Setoid Morphisms.
From CC Require Import Base.XQ Base.ListX Spec.Survey Spec.Restrict Model.CubeCounts
     Model.Partition Proofs.CubeCountsProofs Proofs.CubeCountsIndex.
Import ListNotations.
Local Close Scope Q_scope.
Local Open Scope nat_scope.

(* ------------------------------------------------------------------------------------ *)
(** * filters and sums *)

Lemma filter_filter_and {A} (P Q : A -> bool) l :
  filter Q (filter P l) = filter (fun x => P x && Q x) l.
Proof.
  induction l as [|a t IH]; simpl; [reflexivity|].
  destruct (P a); simpl; [destruct (Q a); simpl; rewrite IH; reflexivity| exact IH].
Qed.

Lemma gsum_filter S P F :
  (gsum (filter P S) F == gsum S (fun r => ind (P r) * F r))%Q.
Proof.
  induction S as [|r S IH]; simpl; [reflexivity|].
  destruct (P r); simpl; rewrite IH; ring.
Qed.

Lemma wsum_filter S P Q :
  (wsum (filter P S) Q == wsum S (fun r => P r && Q r))%Q.
Proof.
  unfold wsum. rewrite gsum_filter. apply gsum_ext. intros r _. rewrite ind_andb. reflexivity.
Qed.

Lemma gsum_map (f : resp -> resp) S F :
  (forall r, weight (f r) = weight r) ->
  (gsum (map f S) F == gsum S (fun r => F (f r)))%Q.
Proof.
  intros Hw. induction S as [|r S IH]; simpl; [reflexivity|]. rewrite IH, Hw. reflexivity.
Qed.

Lemma wsum_map (f : resp -> resp) S P :
  (forall r, weight (f r) = weight r) ->
  (wsum (map f S) P == wsum S (fun r => P (f r)))%Q.
Proof. intros Hw. apply gsum_map. exact Hw. Qed.

(* the weighted count of Spec/Survey.v is the cell statistic "sum of the weights" *)
Lemma tabulate_is_wcount vs S idx :
  Fin (tabulate vs S idx) =x= stat_tensor wcount vs S idx.
Proof.
  unfold stat_tensor, wcount, cell_resp, tabulate, wsum. simpl.
  rewrite gsum_filter. apply gsum_ext. intros r _. ring.
Qed.

(* ------------------------------------------------------------------------------------ *)
(** * 1. cell level *)

(* the tensor position of table element k: its payload offset (and the "selected" state) *)
Definition table_part (kd : kind) (ms : list bool) (k : nat) : list nat :=
  match kd with
  | KCat => [nth k (valid_idxs ms) 0]
  | _ => [nth k (valid_idxs ms) 0; 0]
  end.

Lemma contributes_member v kd ms k r :
  cat_or_mr kd -> k < nval ms ->
  contributes kd (ans r v) (table_part kd ms k) = member v kd ms k r.
Proof.
  intros [-> | ->] Hk; unfold member, table_part; simpl.
  - unfold in_cat. unfold nval in Hk. rewrite (ltb_true _ _ Hk). reflexivity.
  - unfold in_mr. destruct (mstate (ans r v) (nth k (valid_idxs ms) 0)); reflexivity.
Qed.

Lemma contributes_all_table v kd ms k rc r idx :
  cat_or_mr kd -> k < nval ms ->
  contributes_all ((v, kd) :: rc) r (table_part kd ms k ++ idx)
  = member v kd ms k r && contributes_all rc r idx.
Proof.
  intros Hkd Hk. rewrite <- (contributes_member v kd ms k r Hkd Hk).
  destruct Hkd as [-> | ->]; reflexivity.
Qed.

(* the respondents of cell (k, idx) of the 3-D cube ARE the respondents of cell idx of the
   2-D cube of the restricted survey: same respondents, same order *)
Theorem cell_restrict v kd ms k rc S idx :
  cat_or_mr kd -> k < nval ms ->
  cell_resp ((v, kd) :: rc) S (table_part kd ms k ++ idx)
  = cell_resp rc (restrict S v kd ms k) idx.
Proof.
  intros Hkd Hk. unfold cell_resp, restrict. rewrite filter_filter_and.
  apply filter_ext. intros r. apply contributes_all_table; assumption.
Qed.

(* hence every cell statistic of the table-k plane equals that of the restricted survey *)
Theorem stat_restrict stat v kd ms k rc S idx :
  cat_or_mr kd -> k < nval ms ->
  stat_tensor stat ((v, kd) :: rc) S (table_part kd ms k ++ idx)
  = stat_tensor stat rc (restrict S v kd ms k) idx.
Proof. intros Hkd Hk. unfold stat_tensor. rewrite cell_restrict by assumption. reflexivity. Qed.

Theorem tabulate_restrict v kd ms k rc S idx :
  cat_or_mr kd -> k < nval ms ->
  (tabulate ((v, kd) :: rc) S (table_part kd ms k ++ idx)
   == tabulate rc (restrict S v kd ms k) idx)%Q.
Proof.
  intros Hkd Hk. unfold tabulate, restrict. rewrite wsum_filter. apply wsum_ext. intros r _.
  apply contributes_all_table; assumption.
Qed.

(* ------------------------------------------------------------------------------------ *)
(** * 2. tensor level: Cube._valid_idxs then _slice_idx_expr *)

Definition teq (T T' : tensor) : Prop := forall idx, T idx =x= T' idx.

Lemma teq_refl T : teq T T.
Proof. intros idx. reflexivity. Qed.
Lemma teq_sym T T' : teq T T' -> teq T' T.
Proof. intros H idx. symmetry. apply H. Qed.
Lemma teq_trans T T' T'' : teq T T' -> teq T' T'' -> teq T T''.
Proof. intros H H' idx. rewrite (H idx). apply H'. Qed.

Lemma kmr_is_mr kd ms dsrc :
  cat_or_mr kd -> table_is_mr (dims_of kd ms ++ dsrc) = kmr kd.
Proof. intros [-> | ->]; reflexivity. Qed.

Lemma cube_ndim_table kd ms dsrc :
  cat_or_mr kd -> cube_ndim (dims_of kd ms ++ dsrc) = 1 + cube_ndim dsrc.
Proof. intros [-> | ->]; reflexivity. Qed.

(* the index the sliced valid tensor reads in the raw tensor *)
Lemma slice_reads kd ms dsrc k (T : tensor) idx :
  cat_or_mr kd -> 2 <= cube_ndim dsrc ->
  slice_idx_expr (dims_of kd ms ++ dsrc) k (take_valid (dims_of kd ms ++ dsrc) T) idx
  = T (table_part kd ms k ++ remap (map dvalid dsrc) idx).
Proof.
  intros Hkd Hn. unfold slice_idx_expr, slice_at.
  rewrite (cube_ndim_table kd ms dsrc Hkd), (kmr_is_mr kd ms dsrc Hkd).
  assert ((1 + cube_ndim dsrc <? 3) = false) as -> by (apply Nat.ltb_ge; lia).
  destruct Hkd as [-> | ->]; reflexivity.
Qed.

(* for a 2-D cube the slice expression is np.s_[:] *)
Lemma slice_idx_expr_2d ds k T : cube_ndim ds < 3 -> slice_idx_expr ds k T = T.
Proof.
  intros H. unfold slice_idx_expr, slice_at. rewrite (ltb_true _ _ H). reflexivity.
Qed.

Section SliceRestrict.
  Variable S : survey.
  Variables (v : nat) (kd : kind) (ms : list bool).
  Variable rc : cubevars.          (* the rows and columns variables (any kinds) *)
  Variable dsrc : list dimd.       (* their dimensions *)
  Variable k : nat.
  Hypothesis Hkd : cat_or_mr kd.
  Hypothesis Hk : k < nval ms.
  Hypothesis Hn : 2 <= cube_ndim dsrc.
  Let ds3 := dims_of kd ms ++ dsrc.

  (* any statistic the response may carry per cell *)
  Theorem slice_restrict_stat stat idx :
    slice_idx_expr ds3 k (take_valid ds3 (stat_tensor stat ((v, kd) :: rc) S)) idx
    = take_valid dsrc (stat_tensor stat rc (restrict S v kd ms k)) idx.
  Proof.
    unfold ds3. rewrite (slice_reads kd ms dsrc k _ idx Hkd Hn). unfold take_valid.
    apply stat_restrict; assumption.
  Qed.

  (* the weighted counts [tabulate] *)
  Theorem slice_restrict :
    teq (slice_idx_expr ds3 k (take_valid ds3 (raw_of ((v, kd) :: rc) S)))
        (take_valid dsrc (raw_of rc (restrict S v kd ms k))).
  Proof.
    intros idx. unfold ds3. rewrite (slice_reads kd ms dsrc k _ idx Hkd Hn).
    unfold take_valid, raw_of. simpl. apply tabulate_restrict; assumption.
  Qed.
End SliceRestrict.

(* the unweighted counts are the counts of the unit-weight survey, and restriction commutes
   with forgetting the weights *)
Lemma restrict_unit_weights S v kd ms k :
  restrict (unit_weights S) v kd ms k = unit_weights (restrict S v kd ms k).
Proof.
  unfold restrict, unit_weights. induction S as [|r S IH]; simpl; [reflexivity|].
  change (member v kd ms k (mkResp (answers r) 1)) with (member v kd ms k r).
  destruct (member v kd ms k r); simpl; rewrite IH; reflexivity.
Qed.

(* restriction keeps respondents, their order and their weights: nobody is invented *)
Lemma restrict_incl S v kd ms k r : In r (restrict S v kd ms k) <-> In r S /\ member v kd ms k r = true.
Proof. unfold restrict. apply filter_In. Qed.

Lemma restrict_wf S v kd ms k : wf_survey S -> wf_survey (restrict S v kd ms k).
Proof.
  unfold wf_survey. rewrite !Forall_forall. intros H r Hr. apply H.
  apply restrict_incl in Hr. tauto.
Qed.

(* ------------------------------------------------------------------------------------ *)
(** * 3. the extractors respect pointwise equality *)

Lemma xsum_ext_xeq (l l' : list xq) :
  Forall2 xeq l l' -> xsum l =x= xsum l'.
Proof.
  induction 1 as [|a b l l' Hab _ IH]; simpl; [reflexivity|]. rewrite Hab, IH. reflexivity.
Qed.

Lemma xsumn_ext_xeq n f g : (forall i, i < n -> f i =x= g i) -> xsumn n f =x= xsumn n g.
Proof.
  intros H. unfold xsumn. apply xsum_ext_xeq. unfold tab.
  assert (G : forall s, (forall i, s <= i < s + n -> f i =x= g i) ->
                        Forall2 xeq (map f (seq s n)) (map g (seq s n))).
  { induction n as [|n IH]; intros s Hs; simpl; constructor.
    - apply Hs. lia.
    - apply IH; [intros; apply H; lia|]. intros i Hi. apply Hs. lia. }
  apply G. intros i Hi. apply H. lia.
Qed.

Ltac teq_done H :=
  repeat (apply xsumn_ext_xeq; intros); apply H.

Section Respect.
  Variables V V' : tensor.
  Hypothesis H : teq V V'.
  Variables nr nc sr sc : nat.

  Lemma counts_of_teq rc cc i j : counts_of V rc cc i j =x= counts_of V' rc cc i j.
  Proof. destruct rc, cc; apply H. Qed.

  Lemma row_bases_of_teq rc cc i j :
    row_bases_of V nc sc rc cc i j =x= row_bases_of V' nc sc rc cc i j.
  Proof.
    destruct rc, cc; simpl;
      unfold cc_row_bases, cc_rows_base, cm_row_bases, mc_row_bases, mc_rows_base, mm_row_bases,
        ma_counts, am_row_bases, aa_counts, ac_rows_base, ca_counts; teq_done H.
  Qed.

  Lemma column_bases_of_teq rc cc i j :
    column_bases_of V nr sr rc cc i j =x= column_bases_of V' nr sr rc cc i j.
  Proof.
    destruct rc, cc; simpl;
      unfold cc_column_bases, cc_columns_base, cm_column_bases, cm_columns_base, mc_column_bases,
        mm_column_bases, ma_column_bases, am_counts, aa_counts, ac_counts, ca_columns_base;
      teq_done H.
  Qed.

  Lemma table_bases_of_teq rc cc i j :
    table_bases_of V nr nc sr sc rc cc i j =x= table_bases_of V' nr nc sr sc rc cc i j.
  Proof.
    destruct rc, cc; simpl;
      unfold cc_table_bases, cc_table_base, cm_table_bases, cm_columns_table_base, mc_table_bases,
        mc_rows_table_base, mm_table_bases, ma_column_bases, am_row_bases, aa_counts, ac_rows_base,
        ca_columns_base; teq_done H.
  Qed.

  Lemma passthrough_of_teq rmr cmr i j :
    passthrough_of V rmr cmr i j =x= passthrough_of V' rmr cmr i j.
  Proof. destruct rmr, cmr; apply H. Qed.

  Lemma stripe_counts_teq c i : stripe_counts V c i =x= stripe_counts V' c i.
  Proof. destruct c; apply H. Qed.

  Lemma stripe_bases_teq n s c i : stripe_bases V n s c i =x= stripe_bases V' n s c i.
  Proof.
    destruct c; simpl; unfold sc_bases, sc_table_base, sm_bases, sc_counts; teq_done H.
  Qed.
End Respect.

(* Partition k of the 3-D cube and the only partition of the 2-D cube of the restricted
   survey have the same counts and the same three bases, for ALL nine class pairs *)
Section PartitionEqualsRestricted.
  Variable S : survey.
  Variables (v : nat) (kd : kind) (ms : list bool).
  Variable rc : cubevars.
  Variable dsrc : list dimd.
  Variable k : nat.
  Hypothesis Hkd : cat_or_mr kd.
  Hypothesis Hk : k < nval ms.
  Hypothesis Hn : cube_ndim dsrc = 2.
  Let ds3 := dims_of kd ms ++ dsrc.
  Let V3 := slice_idx_expr ds3 k (take_valid ds3 (raw_of ((v, kd) :: rc) S)).
  Let V2 := slice_idx_expr dsrc 0 (take_valid dsrc (raw_of rc (restrict S v kd ms k))).

  Lemma V3_teq_V2 : teq V3 V2.
  Proof.
    unfold V3, V2. rewrite (slice_idx_expr_2d dsrc 0) by lia.
    apply slice_restrict; [assumption| assumption| lia].
  Qed.

  Theorem partition_counts_restricted rcl ccl i j :
    counts_of V3 rcl ccl i j =x= counts_of V2 rcl ccl i j.
  Proof. apply counts_of_teq. exact V3_teq_V2. Qed.

  Theorem partition_row_bases_restricted nc sc rcl ccl i j :
    row_bases_of V3 nc sc rcl ccl i j =x= row_bases_of V2 nc sc rcl ccl i j.
  Proof. apply row_bases_of_teq. exact V3_teq_V2. Qed.

  Theorem partition_column_bases_restricted nr sr rcl ccl i j :
    column_bases_of V3 nr sr rcl ccl i j =x= column_bases_of V2 nr sr rcl ccl i j.
  Proof. apply column_bases_of_teq. exact V3_teq_V2. Qed.

  Theorem partition_table_bases_restricted nr nc sr sc rcl ccl i j :
    table_bases_of V3 nr nc sr sc rcl ccl i j =x= table_bases_of V2 nr nc sr sc rcl ccl i j.
  Proof. apply table_bases_of_teq. exact V3_teq_V2. Qed.
End PartitionEqualsRestricted.

(* ------------------------------------------------------------------------------------ *)
(** * categorical-array table variable: table = item k, rows = the categories of item k *)

Lemma tab_nth_default {A} n (f : nat -> A) d i : n <= i -> nth i (tab n f) d = d.
Proof. intros H. apply nth_overflow. rewrite tab_length. exact H. Qed.

Lemma ans_set_answer v a r n :
  ans (set_answer v a r) n = if n =? v then a else ans r n.
Proof.
  unfold ans at 1, set_answer. simpl.
  destruct (n <? Nat.max (length (answers r)) (v + 1)) eqn:E.
  - apply Nat.ltb_lt in E. rewrite (tab_nth _ _ _ _ E). reflexivity.
  - apply Nat.ltb_ge in E. rewrite tab_nth_default by exact E.
    destruct (n =? v) eqn:Ev; [apply Nat.eqb_eq in Ev; lia|].
    unfold ans. rewrite nth_overflow by lia. reflexivity.
Qed.

Lemma contributes_all_set_answer rc v a r idx :
  ~ In v (map fst rc) ->
  contributes_all rc (set_answer v a r) idx = contributes_all rc r idx.
Proof.
  revert idx. induction rc as [|[v' k'] t IH]; intros idx Hv; simpl; [reflexivity|].
  simpl in Hv. rewrite ans_set_answer.
  destruct (v' =? v) eqn:E; [apply Nat.eqb_eq in E; subst; tauto|].
  rewrite IH by tauto. reflexivity.
Qed.

Lemma contributes_item a item c :
  contributes KArr a [item; c] = contributes KCat (item_answer a item) [c].
Proof. unfold item_answer. simpl. destruct (aarr a item); reflexivity. Qed.

(* cell (item, c, idx) of the cube over the array variable = cell (c, idx) of the cube over
   its sub-variable *)
Theorem tabulate_subvar v item rc S c idx :
  ~ In v (map fst rc) ->
  (tabulate ((v, KArr) :: rc) S (item :: c :: idx)
   == tabulate ((v, KCat) :: rc) (subvar S v item) (c :: idx))%Q.
Proof.
  intros Hv. unfold tabulate, subvar. rewrite wsum_map by reflexivity.
  apply wsum_ext. intros r _. simpl contributes_all.
  rewrite ans_set_answer, Nat.eqb_refl.
  rewrite (contributes_all_set_answer rc v _ r idx Hv).
  unfold item_answer. destruct (aarr (ans r v) item); reflexivity.
Qed.

(* dimensions of a categorical array: items, then categories *)
Definition ca_dims (ms mcat : list bool) : list dimd := [mkDim DCaSubvar ms; mkDim DCat mcat].

Section SliceRestrictArray.
  Variable S : survey.
  Variable v : nat.
  Variables ms mcat : list bool.
  Variable rc : cubevars.          (* the columns variable(s) *)
  Variable dsc : list dimd.
  Variable k : nat.
  Hypothesis Hv : ~ In v (map fst rc).
  Hypothesis Hn : 1 <= cube_ndim dsc.
  Let item := nth k (valid_idxs ms) 0.
  Let ds3 := ca_dims ms mcat ++ dsc.
  Let ds2 := mkDim DCat mcat :: dsc.

  Theorem slice_restrict_array i idx :
    slice_idx_expr ds3 k (take_valid ds3 (raw_of ((v, KArr) :: rc) S)) (i :: idx)
    =x= take_valid ds2 (raw_of ((v, KCat) :: rc) (subvar S v item)) (i :: idx).
  Proof.
    unfold slice_idx_expr, slice_at, ds3, ds2.
    assert (E : cube_ndim (ca_dims ms mcat ++ dsc) = 2 + cube_ndim dsc) by reflexivity.
    rewrite E. assert ((2 + cube_ndim dsc <? 3) = false) as -> by (apply Nat.ltb_ge; lia).
    change (table_is_mr (ca_dims ms mcat ++ dsc)) with false. cbv iota.
    unfold take_valid, raw_of. simpl. apply tabulate_subvar. exact Hv.
  Qed.
End SliceRestrictArray.

(* ------------------------------------------------------------------------------------ *)
(** * 4. CA-as-0th: strand k is the univariate analysis of sub-variable k *)

Section CaAs0th.
  Variable S : survey.
  Variable v : nat.
  Variables ms mcat : list bool.
  Variable k : nat.
  Let item := nth k (valid_idxs ms) 0.
  Let V := strand_idx_expr true k (take_valid (ca_dims ms mcat) (raw_of [(v, KArr)] S)).
  Let U := take_valid (dims_of KCat mcat) (raw_of [(v, KCat)] (subvar S v item)).

  Lemma ca0_strand_cell i : V [i] =x= U [i].
  Proof.
    unfold V, U, strand_idx_expr, take_valid, raw_of. simpl.
    apply (tabulate_subvar v item [] S (nth i (dvalid (mkDim DCat mcat)) 0) []).
    simpl. tauto.
  Qed.

  (* counts of strand k = counts of the 1-D cube of sub-variable k *)
  Theorem ca0_strand_counts i : sc_counts V i =x= sc_counts U i.
  Proof. apply ca0_strand_cell. Qed.

  Theorem ca0_strand_table_base n : sc_table_base V n =x= sc_table_base U n.
  Proof. unfold sc_table_base. apply xsumn_ext_xeq. intros i _. apply ca0_strand_cell. Qed.

  (* respondent-level reading: who is counted in row i of strand k *)
  Theorem ca0_strand_counts_spec i : i < nval mcat ->
    sc_counts V i =x= Fin (wsum (subvar S v item) (fun r => in_cat mcat (ans r v) i)).
  Proof.
    intros Hi. rewrite ca0_strand_counts. apply strand_cat_counts_spec. exact Hi.
  Qed.

  Theorem ca0_strand_table_base_spec :
    sc_table_base V (nval mcat) =x= Fin (wsum (subvar S v item) (fun r => ok_cat mcat (ans r v))).
  Proof. rewrite ca0_strand_table_base. apply strand_cat_table_base_spec. Qed.

  (* the answer of a respondent of [subvar] to v is his answer to the sub-variable *)
  Theorem subvar_answer P :
    (wsum (subvar S v item) (fun r => P (ans r v))
     == wsum S (fun r => P (item_answer (ans r v) item)))%Q.
  Proof.
    unfold subvar. rewrite wsum_map by reflexivity. apply wsum_ext. intros r _.
    rewrite ans_set_answer, Nat.eqb_refl. reflexivity.
  Qed.
End CaAs0th.

(* the four statements about strand k of a CA-as-0th cube, together *)
Lemma ca0_strand S v ms mcat k i :
  i < nval mcat ->
  let item := nth k (valid_idxs ms) 0 in
  let V := strand_idx_expr true k (take_valid (ca_dims ms mcat) (raw_of [(v, KArr)] S)) in
  let U := take_valid (dims_of KCat mcat) (raw_of [(v, KCat)] (subvar S v item)) in
  sc_counts V i =x= sc_counts U i
  /\ sc_table_base V (nval mcat) =x= sc_table_base U (nval mcat)
  /\ sc_counts V i =x= Fin (wsum S (fun r => in_cat mcat (item_answer (ans r v) item) i))
  /\ sc_table_base V (nval mcat) =x= Fin (wsum S (fun r => ok_cat mcat (item_answer (ans r v) item))).
Proof.
  intros Hi item V U. split; [apply ca0_strand_counts|]. split; [apply ca0_strand_table_base|]. split.
  - unfold V. rewrite (ca0_strand_counts_spec S v ms mcat k i Hi). simpl.
    apply (subvar_answer S v ms k (fun a => in_cat mcat a i)).
  - unfold V. rewrite (ca0_strand_table_base_spec S v ms mcat k). simpl.
    apply (subvar_answer S v ms k (fun a => ok_cat mcat a)).
Qed.

(* ------------------------------------------------------------------------------------ *)
(** * numeric / pass-through measures of partition k (means, sums, stddev, medians ...)

   A pass-through measure reads ONE cell of its tensor; whatever statistic of the respondents
   of a cell the response carries, partition k shows the value the 2-D cube of the restricted
   survey shows in the same cell. *)

Theorem partition_passthrough_restricted S v kd ms rc dsrc k stat rmr cmr i j :
  cat_or_mr kd -> k < nval ms -> 2 <= cube_ndim dsrc ->
  let ds3 := dims_of kd ms ++ dsrc in
  passthrough_of (slice_idx_expr ds3 k (take_valid ds3 (stat_tensor stat ((v, kd) :: rc) S))) rmr cmr i j
  = passthrough_of (take_valid dsrc (stat_tensor stat rc (restrict S v kd ms k))) rmr cmr i j.
Proof.
  intros Hkd Hk Hn ds3. unfold ds3.
  destruct rmr, cmr; simpl passthrough_of; apply slice_restrict_stat; assumption.
Qed.

(* ------------------------------------------------------------------------------------ *)
(** * what partition k counts, in words of the restricted survey (composition with C01/C02) *)

Lemma slice_of_2d_eq vr kr mr vc kc mc S :
  cat_or_mr kr -> cat_or_mr kc ->
  slice_idx_expr (dims_of kr mr ++ dims_of kc mc) 0
                 (take_valid (dims_of kr mr ++ dims_of kc mc) (raw_of [(vr, kr); (vc, kc)] S))
  = slice_of None vr kr mr vc kc mc S 0.
Proof. intros [-> | ->] [-> | ->]; reflexivity. Qed.

Lemma cube_ndim_rc kr mr kc mc :
  cat_or_mr kr -> cat_or_mr kc -> cube_ndim (dims_of kr mr ++ dims_of kc mc) = 2.
Proof. intros [-> | ->] [-> | ->]; reflexivity. Qed.

Section Meaning.
  Variable S : survey.
  Variables (v : nat) (kd : kind) (ms : list bool).
  Variables vr vc : nat.
  Variables kr kc : kind.
  Variables mr mc : list bool.
  Variable k : nat.
  Hypothesis Hkd : cat_or_mr kd.
  Hypothesis Hr : cat_or_mr kr.
  Hypothesis Hc : cat_or_mr kc.
  Hypothesis Hk : k < nval ms.
  Let rc : cubevars := [(vr, kr); (vc, kc)].
  Let dsrc := dims_of kr mr ++ dims_of kc mc.
  Let ds3 := dims_of kd ms ++ dsrc.
  Let V3 := slice_idx_expr ds3 k (take_valid ds3 (raw_of ((v, kd) :: rc) S)).
  Let R := restrict S v kd ms k.

  (* cell (i, j) of partition k counts the members of row element i and column element j
     AMONG THE RESTRICTED RESPONDENTS *)
  Theorem partition_counts_meaning i j : i < nval mr -> j < nval mc ->
    counts_of V3 (kcls kr) (kcls kc) i j =x=
    Fin (wsum R (fun r => in_el kr mr (ans r vr) i && in_el kc mc (ans r vc) j)).
  Proof.
    intros Hi Hj. unfold V3, ds3, R.
    rewrite (partition_counts_restricted S v kd ms rc dsrc k Hkd Hk (cube_ndim_rc kr mr kc mc Hr Hc)).
    unfold dsrc, rc. rewrite (slice_of_2d_eq vr kr mr vc kc mc (restrict S v kd ms k) Hr Hc).
    rewrite (counts_of_spec (restrict S v kd ms k) None vr vc kr kc mr mc 0 I Hr Hc Nat.lt_0_1 i j Hi Hj).
    simpl. apply wsum_ext. intros r _. reflexivity.
  Qed.

  Theorem partition_bases_meaning i j : i < nval mr -> j < nval mc ->
    row_bases_of V3 (nval mc) (length mrv) (kcls kr) (kcls kc) i j =x=
      Fin (wsum R (fun r => in_el kr mr (ans r vr) i && ok_el kc mc (ans r vc) j))
    /\ column_bases_of V3 (nval mr) (length mrv) (kcls kr) (kcls kc) i j =x=
      Fin (wsum R (fun r => ok_el kr mr (ans r vr) i && in_el kc mc (ans r vc) j))
    /\ table_bases_of V3 (nval mr) (nval mc) (length mrv) (length mrv) (kcls kr) (kcls kc) i j =x=
      Fin (wsum R (fun r => ok_el kr mr (ans r vr) i && ok_el kc mc (ans r vc) j)).
  Proof.
    intros Hi Hj. unfold V3, ds3, R.
    pose proof (cube_ndim_rc kr mr kc mc Hr Hc) as Hn. split; [|split].
    - rewrite (partition_row_bases_restricted S v kd ms rc dsrc k Hkd Hk Hn).
      unfold dsrc, rc. rewrite (slice_of_2d_eq vr kr mr vc kc mc (restrict S v kd ms k) Hr Hc).
      rewrite (row_bases_of_spec (restrict S v kd ms k) None vr vc kr kc mr mc 0 I Hr Hc Nat.lt_0_1 i j Hi Hj).
      simpl. apply wsum_ext. intros r _. reflexivity.
    - rewrite (partition_column_bases_restricted S v kd ms rc dsrc k Hkd Hk Hn).
      unfold dsrc, rc. rewrite (slice_of_2d_eq vr kr mr vc kc mc (restrict S v kd ms k) Hr Hc).
      rewrite (column_bases_of_spec (restrict S v kd ms k) None vr vc kr kc mr mc 0 I Hr Hc Nat.lt_0_1 i j Hi Hj).
      simpl. apply wsum_ext. intros r _. reflexivity.
    - rewrite (partition_table_bases_restricted S v kd ms rc dsrc k Hkd Hk Hn).
      unfold dsrc, rc. rewrite (slice_of_2d_eq vr kr mr vc kc mc (restrict S v kd ms k) Hr Hc).
      rewrite (table_bases_of_spec (restrict S v kd ms k) None vr vc kr kc mr mc 0 I Hr Hc Nat.lt_0_1 i j Hi Hj).
      simpl. apply wsum_ext. intros r _. reflexivity.
  Qed.
End Meaning.
