(* Proofs/GenAgreeShare.v -- GenAgree for C15: what the source SAYS NOW for the four blocks of
     SecondOrderMeasures.row_share_sum / column_share_sum / total_share_sum
       (SumSubtotals.blocks(cube_sum.sums, diff_cols_nan=True, diff_rows_nan=True) divided by
        np.nansum over the BASE block or the inserted block's own base rows / columns)
     StripeMeasures.share_sum (base_values, subtotal_values)
   denotes [row_share] / [col_share] / [total_share] / [stripe_share_base] /
   [stripe_share_subtotals] of Model/Share.v, the definitions the theorems of Props/C15.v are
   about.  See GenAgreeMeasTac.v. *)
From Coq Require Import QArith ZArith List Bool Lia Arith String.
From CC Require Import Base.XQ Base.ListX Base.MeasureExp
     Model.Subtotals Model.Proportions Model.Variance Model.Share
     Gen.MeasureSrc Gen.StripeMeasureSrc Proofs.GenAgreeMeasTac.
Import ListNotations.
Local Close Scope Q_scope.
Local Open Scope string_scope.
Local Open Scope nat_scope.

Ltac gen_share :=
  gen_meas_with ltac:(unfold col_share, row_share, total_share; cbn [b_base b_cols b_rows b_inter]).

Lemma gen_RowShareSum_blocks_00 :
  match src_RowShareSum_blocks_00 with
  | Some e => forall nr nc rsubs csubs rd cd blk cubem cubeflag flag,
      holds_mat (menv_mat nr nc rsubs csubs rd cd blk cubem cubeflag flag) e DR DC
        (mnth (b_base (row_share (cubem "cube_sum" "sums") nr nc rsubs csubs)))
  | None => True
  end.
Proof. gen_share. Qed.

Lemma gen_RowShareSum_blocks_01 :
  match src_RowShareSum_blocks_01 with
  | Some e => forall nr nc rsubs csubs rd cd blk cubem cubeflag flag,
      holds_mat (menv_mat nr nc rsubs csubs rd cd blk cubem cubeflag flag) e DR DCS
        (mnth (b_cols (row_share (cubem "cube_sum" "sums") nr nc rsubs csubs)))
  | None => True
  end.
Proof. gen_share. Qed.

Lemma gen_RowShareSum_blocks_10 :
  match src_RowShareSum_blocks_10 with
  | Some e => forall nr nc rsubs csubs rd cd blk cubem cubeflag flag,
      holds_mat (menv_mat nr nc rsubs csubs rd cd blk cubem cubeflag flag) e DRS DC
        (mnth (b_rows (row_share (cubem "cube_sum" "sums") nr nc rsubs csubs)))
  | None => True
  end.
Proof. gen_share. Qed.

Lemma gen_RowShareSum_blocks_11 :
  match src_RowShareSum_blocks_11 with
  | Some e => forall nr nc rsubs csubs rd cd blk cubem cubeflag flag,
      holds_mat (menv_mat nr nc rsubs csubs rd cd blk cubem cubeflag flag) e DRS DCS
        (mnth (b_inter (row_share (cubem "cube_sum" "sums") nr nc rsubs csubs)))
  | None => True
  end.
Proof. gen_share. Qed.

Lemma gen_ColumnShareSum_blocks_00 :
  match src_ColumnShareSum_blocks_00 with
  | Some e => forall nr nc rsubs csubs rd cd blk cubem cubeflag flag,
      holds_mat (menv_mat nr nc rsubs csubs rd cd blk cubem cubeflag flag) e DR DC
        (mnth (b_base (col_share (cubem "cube_sum" "sums") nr nc rsubs csubs)))
  | None => True
  end.
Proof. gen_share. Qed.

Lemma gen_ColumnShareSum_blocks_01 :
  match src_ColumnShareSum_blocks_01 with
  | Some e => forall nr nc rsubs csubs rd cd blk cubem cubeflag flag,
      holds_mat (menv_mat nr nc rsubs csubs rd cd blk cubem cubeflag flag) e DR DCS
        (mnth (b_cols (col_share (cubem "cube_sum" "sums") nr nc rsubs csubs)))
  | None => True
  end.
Proof. gen_share. Qed.

Lemma gen_ColumnShareSum_blocks_10 :
  match src_ColumnShareSum_blocks_10 with
  | Some e => forall nr nc rsubs csubs rd cd blk cubem cubeflag flag,
      holds_mat (menv_mat nr nc rsubs csubs rd cd blk cubem cubeflag flag) e DRS DC
        (mnth (b_rows (col_share (cubem "cube_sum" "sums") nr nc rsubs csubs)))
  | None => True
  end.
Proof. gen_share. Qed.

Lemma gen_ColumnShareSum_blocks_11 :
  match src_ColumnShareSum_blocks_11 with
  | Some e => forall nr nc rsubs csubs rd cd blk cubem cubeflag flag,
      holds_mat (menv_mat nr nc rsubs csubs rd cd blk cubem cubeflag flag) e DRS DCS
        (mnth (b_inter (col_share (cubem "cube_sum" "sums") nr nc rsubs csubs)))
  | None => True
  end.
Proof. gen_share. Qed.

Lemma gen_TotalShareSum_blocks_00 :
  match src_TotalShareSum_blocks_00 with
  | Some e => forall nr nc rsubs csubs rd cd blk cubem cubeflag flag,
      holds_mat (menv_mat nr nc rsubs csubs rd cd blk cubem cubeflag flag) e DR DC
        (mnth (b_base (total_share (cubem "cube_sum" "sums") nr nc rsubs csubs)))
  | None => True
  end.
Proof. gen_share. Qed.

Lemma gen_TotalShareSum_blocks_01 :
  match src_TotalShareSum_blocks_01 with
  | Some e => forall nr nc rsubs csubs rd cd blk cubem cubeflag flag,
      holds_mat (menv_mat nr nc rsubs csubs rd cd blk cubem cubeflag flag) e DR DCS
        (mnth (b_cols (total_share (cubem "cube_sum" "sums") nr nc rsubs csubs)))
  | None => True
  end.
Proof. gen_share. Qed.

Lemma gen_TotalShareSum_blocks_10 :
  match src_TotalShareSum_blocks_10 with
  | Some e => forall nr nc rsubs csubs rd cd blk cubem cubeflag flag,
      holds_mat (menv_mat nr nc rsubs csubs rd cd blk cubem cubeflag flag) e DRS DC
        (mnth (b_rows (total_share (cubem "cube_sum" "sums") nr nc rsubs csubs)))
  | None => True
  end.
Proof. gen_share. Qed.

Lemma gen_TotalShareSum_blocks_11 :
  match src_TotalShareSum_blocks_11 with
  | Some e => forall nr nc rsubs csubs rd cd blk cubem cubeflag flag,
      holds_mat (menv_mat nr nc rsubs csubs rd cd blk cubem cubeflag flag) e DRS DCS
        (mnth (b_inter (total_share (cubem "cube_sum" "sums") nr nc rsubs csubs)))
  | None => True
  end.
Proof. gen_share. Qed.

(* ------------------------------------------------------------------------------------ *)
(** * strand *)

Definition share_cube (sums : list xq) (c a : string) : mval :=
  if String.eqb c "cube_sum" && String.eqb a "sums" then VVec DR (vnth sums) else VErr.

Lemma tab_vnth_id (l : list xq) : tab (List.length l) (vnth l) = l.
Proof.
  apply (nth_ext _ _ NaN NaN).
  - apply tab_length.
  - intros n Hn. rewrite tab_length in Hn. rewrite tab_nth by exact Hn. reflexivity.
Qed.

(* for EVERY index (out of range: NaN / total = NaN on both sides) *)
Lemma share_vnth sums i : vnth (stripe_share_base sums) i = xdiv (vnth sums i) (nansum sums).
Proof.
  unfold stripe_share_base, vnth.
  rewrite <- (xdiv_nan_l (nansum sums)) at 1.
  exact (map_nth (fun x => xdiv x (nansum sums)) sums NaN i).
Qed.

Lemma gen_stripe_ShareSum_base_values :
  match ssrc_ShareSum_base_values with
  | Some e => forall subs rd vblk sums,
      holds_vec (senv_std (List.length sums) subs rd vblk (share_cube sums)) e DR
        (vnth (stripe_share_base sums))
  | None => True
  end.
Proof.
  unfold_srcs;
  lazymatch goal with
  | |- True => exact I
  | _ =>
      intros; meas_eval; cbv [share_cube andb String.eqb Ascii.eqb Bool.eqb]; meas_eval;
      split; [reflexivity|]; intros; rewrite share_vnth; unfold nansumN; rewrite tab_vnth_id;
      reflexivity
  end.
Qed.

Lemma gen_stripe_ShareSum_subtotal_values :
  match ssrc_ShareSum_subtotal_values with
  | Some e => forall subs rd vblk sums,
      holds_vec (senv_std (List.length sums) subs rd vblk (share_cube sums)) e DRS
        (vnth (stripe_share_subtotals sums subs))
  | None => True
  end.
Proof.
  unfold_srcs;
  lazymatch goal with
  | |- True => exact I
  | _ =>
      intros; meas_eval; cbv [share_cube andb String.eqb Ascii.eqb Bool.eqb]; meas_eval;
      split; [reflexivity|]; intros k Hk;
      unfold stripe_share_subtotals, stripe_sum_subtotals, vnth;
      rewrite (nth_indep _ NaN (stripe_sum_subtotal (stripe_share_base sums) nosub))
        by (rewrite map_length; exact Hk);
      rewrite (map_nth (stripe_sum_subtotal (stripe_share_base sums)) subs nosub k);
      unfold stripe_sum_subtotal, vsum_idx, nansumN; rewrite tab_vnth_id;
      f_equal; f_equal; apply map_ext; intros a; symmetry; apply share_vnth
  end.
Qed.
