(* GenAgreeDimTypeDims: the collection `Dimensions` and the Dimension object, as generated from
   src/cr/cube/dimension.py (Gen/DimTypeSrc.v):

     Dimension.__init__ / apply_transforms      a new object with the SAME response dict and dimension type and the
                                                given transforms ({} for a falsy one)
     Dimensions.apparent_dimensions             the items whose type is not MR_CAT; their types are [apparent_types]
                                                of Model/DimType.v
     Dimensions.dimension_order                 [dimension_order] of Model/CubeCounts.v (named in Model/NumArray.v):
                                                the numeric-array axis goes from the front to the back, for ANY
                                                number of dimensions >= 2
     Dimensions.shape                           [raw_shape] of Model/CubeCounts.v
     Dimensions.from_dicts                      Proofs/GenAgreeDimTypeFromDicts.v

   [X] = what the lazyproperties _dimension_dict / _dimension_transforms_dict of a Dimension object evaluate to
   (Model/PyDimType.v); the statements hold for every X. *)
From Coq Require Import List ZArith String Bool Lia Arith.
From CC Require Import Base.XQ Base.ListX Base.PyList Base.PyDict Model.CubeCounts Model.DimType Model.PyDimension
  Model.PyDimType Model.DimValues Gen.DimensionSrc Gen.DimTypeSrc Proofs.GenAgreeDimensionLib
  Proofs.GenAgreeDimTypeLib.
Import ListNotations.
Local Close Scope Q_scope.
Local Open Scope Z_scope.
Local Open Scope string_scope.

(* --- the object ------------------------------------------------------------------------------------------- *)
(*@ C01 *)
Lemma gen_dimtype_Dimension___init__ :
  match src_Dimension___init__ with
  | Some f => forall d t tr, f d t tr = mkPyDimObj d t (if jv_truthy tr then tr else JDict [])
  | None => True end.
Proof.
  unfold src_Dimension___init__.
  first [exact I | idtac].
  all: reflexivity.
Qed.

(*@ C01 *)
Lemma gen_dimtype_Dimension_apply_transforms :
  match src_Dimension_apply_transforms with
  | Some f => forall d t tr0 tr,
      f (mkPyDimObj d t tr0) tr = Ok (mkPyDimObj d t (if jv_truthy tr then tr else JDict []))
  | None => True end.
Proof.
  unfold src_Dimension_apply_transforms.
  first [exact I | idtac].
  all: dep gen_dimtype_Dimension___init__ src_Dimension___init__.
  all: gen_open; rewrite H; reflexivity.
Qed.

(* --- apparent dimensions ------------------------------------------------------------------------------------- *)
Definition not_mr_cat (o : pydimobj) : bool := negb (dtype_eqb (do_dimension_type o) TMrCat).

(*@ C01 *)
Lemma gen_dimtype_Dimensions_apparent_dimensions :
  match src_Dimensions_apparent_dimensions with
  | Some f => forall X self,
      f X self = Ok (filter not_mr_cat self) /\
      map do_dimension_type (filter not_mr_cat self) = apparent_types (map do_dimension_type self)
  | None => True end.
Proof.
  unfold src_Dimensions_apparent_dimensions.
  first [exact I | idtac].
  all: intros X self; split; [reflexivity|].
  all: unfold apparent_types, not_mr_cat; induction self as [|o t IH]; cbn [filter map]; [reflexivity|].
  all: destruct (dtype_eqb (do_dimension_type o) TMrCat); cbn [negb map]; rewrite IH; reflexivity.
Qed.

(* --- dimension order ------------------------------------------------------------------------------------------ *)
(* the model's dimension (kind + missing flags) of an object: its kind is the one of its type *)
Definition kind_abs (o : pydimobj) (d : dimd) : Prop := dk d = dkind_of (do_dimension_type o).

Lemma numarr_in self ds :
  Forall2 kind_abs self ds ->
  PyList.py_in dtype_eqb TNumArr (map do_dimension_type self) = existsb is_numarr ds.
Proof.
  unfold PyList.py_in. induction 1 as [|o d os ds' H _ IH]; cbn [map existsb]; [reflexivity|].
  rewrite IH. f_equal. unfold is_numarr, kind_abs in *. rewrite H.
  destruct (do_dimension_type o); reflexivity.
Qed.

Lemma pl_getitem_0 {A} (x : A) l : pl_getitem (x :: l) 0 = Ok x.
Proof.
  unfold pl_getitem, py_nth. cbn [List.length Z.ltb Z.compare].
  replace ((0 <=? 0)%Z && (0 <? Z.of_nat (S (List.length l)))%Z)%bool with true; [reflexivity|].
  symmetry. apply andb_true_iff. split; [reflexivity | apply Z.ltb_lt; lia].
Qed.

(*@ C01 *)
Lemma gen_dimtype_Dimensions_dimension_order :
  match src_Dimensions_dimension_order with
  | Some f => forall X self ds, Forall2 kind_abs self ds ->
      f X self = Ok (map Z.of_nat (CubeCounts.dimension_order ds))
  | None => True end.
Proof.
  unfold src_Dimensions_dimension_order.
  first [exact I | idtac].
  all: intros X self ds HF; cbv beta iota zeta.
  all: unfold DT_NUM_ARRAY;
    match goal with |- context [PyList.py_in dtype_eqb TNumArr ?m] => change m with (map do_dimension_type self) end;
    rewrite (numarr_in self ds HF).
  all: assert (Hl : List.length ds = List.length self) by (symmetry; apply (Forall2_len _ _ _ HF)).
  all: unfold CubeCounts.dimension_order; rewrite Hl, py_range_len.
  all: assert (Hge : Z.geb (py_len self) 2 = (2 <=? List.length self)%nat)
         by (unfold py_len; rewrite Z.geb_leb; destruct (2 <=? List.length self)%nat eqn:E;
             [apply Nat.leb_le in E; apply Z.leb_le; lia | apply Nat.leb_gt in E; apply Z.leb_gt; lia]).
  all: rewrite Hge; destruct (2 <=? List.length self)%nat eqn:E; cbn [andb]; [|reflexivity].
  all: destruct (existsb is_numarr ds); [|reflexivity].
  all: apply Nat.leb_le in E; destruct (List.length self) as [|n]; [lia|].
  all: cbn [seq map]; rewrite pl_getitem_0; cbn [Collator.bind].
  all: unfold py_slice_from; cbn [Z.to_nat Pos.to_nat Pos.iter_op Nat.add skipn].
  all: rewrite map_app; replace (S n - 1)%nat with n by lia; reflexivity.
Qed.

(* --- shape -------------------------------------------------------------------------------------------------- *)
Lemma pl_getitem_nth {A} (l : list A) (i : nat) d : (i < List.length l)%nat -> pl_getitem l (Z.of_nat i) = Ok (nth i l d).
Proof.
  intros H. unfold pl_getitem, py_nth.
  replace (Z.of_nat i <? 0)%Z with false by (symmetry; apply Z.ltb_ge; lia).
  replace ((0 <=? Z.of_nat i)%Z && (Z.of_nat i <? Z.of_nat (List.length l))%Z)%bool with true
    by (symmetry; apply andb_true_iff; split; [apply Z.leb_le | apply Z.ltb_lt]; lia).
  rewrite Nat2Z.id. rewrite (nth_error_nth' l d H). reflexivity.
Qed.

Lemma dimension_order_lt ds i : In i (CubeCounts.dimension_order ds) -> (i < List.length ds)%nat.
Proof.
  unfold CubeCounts.dimension_order.
  destruct ((2 <=? List.length ds)%nat && existsb is_numarr ds)%bool eqn:E.
  - apply andb_true_iff in E. destruct E as [E _]. apply Nat.leb_le in E.
    intros H. apply in_app_or in H. destruct H as [H|[<-|[]]]; [apply in_seq in H|]; lia.
  - intros H. apply in_seq in H. lia.
Qed.

Lemma nth_forall2 {A B} (R : A -> B -> Prop) l l' da db i :
  Forall2 R l l' -> (i < List.length l)%nat -> R (nth i l da) (nth i l' db).
Proof.
  intros H. revert i. induction H as [|x y xs ys Hxy _ IH]; intros i Hi; [simpl in Hi; lia|].
  destruct i as [|i]; [exact Hxy|]. apply IH. simpl in Hi. lia.
Qed.

Lemma getitems_nth {A} (self : list A) (o0 : A) order :
  (forall i, In i order -> (i < List.length self)%nat) ->
  py_compM (fun l_i => bind (pl_getitem self l_i) (fun t2 => Ok (Some t2))) (map Z.of_nat order)
  = Ok (map (fun i => nth i self o0) order).
Proof.
  induction order as [|i t IH]; intros Hin; cbn [map py_compM]; [reflexivity|].
  rewrite (pl_getitem_nth self i o0) by (apply Hin; simpl; auto). cbn [Collator.bind].
  rewrite IH by (intros; apply Hin; simpl; auto). reflexivity.
Qed.

Lemma shapes_of (h : pydimension -> res Z) X (self : list pydimobj) o0 (sizes : list nat) order :
  (forall i, In i order -> h (dim_view X (nth i self o0)) = Ok (Z.of_nat (nth i sizes 0%nat))) ->
  py_compM (fun l_d => bind (h (dim_view X l_d)) (fun t4 => Ok (Some t4))) (map (fun i => nth i self o0) order)
  = Ok (map Z.of_nat (map (fun i => nth i sizes 0%nat) order)).
Proof.
  induction order as [|i t IH]; intros Hin; cbn [map py_compM]; [reflexivity|].
  rewrite Hin by (simpl; auto). cbn [Collator.bind]. rewrite IH by (intros; apply Hin; simpl; auto). reflexivity.
Qed.

(* whenever Dimension.shape of every item (through its view) evaluates to the size of the model's dimension *)
(*@ C01 *)
Lemma gen_dimtype_Dimensions_shape :
  match src_Dimensions_shape, src_Dimension_shape with
  | Some f, Some h => forall X self ds,
      Forall2 (fun o d => kind_abs o d /\ h (dim_view X o) = Ok (Z.of_nat (dsize d))) self ds ->
      f X self = Ok (map Z.of_nat (raw_shape ds))
  | _, _ => True end.
Proof.
  unfold src_Dimensions_shape.
  first [exact I | idtac].
  all: generalize gen_dimtype_Dimensions_dimension_order.
  all: destruct src_Dimensions_dimension_order as [g|]; [|intros _; exact I].
  all: destruct src_Dimension_shape as [h|]; [|intros _; exact I].
  all: intros G X self ds HF; cbv beta iota.
  all: assert (HK : Forall2 kind_abs self ds)
         by (clear G; induction HF as [|o d os ds' [Hk _] _ IH]; constructor; assumption).
  all: rewrite (G X self ds HK); dsimpl.
  all: assert (Hl : List.length ds = List.length self) by (symmetry; apply (Forall2_len _ _ _ HK)).
  all: destruct self as [|o0 self']; [inversion HF; subst; reflexivity|].
  all: rewrite (getitems_nth (o0 :: self') o0) by (intros i Hi; rewrite <- Hl; apply dimension_order_lt; exact Hi).
  all: dsimpl; rewrite bind_ret.
  all: rewrite (shapes_of h X (o0 :: self') o0 (map dsize ds)); [reflexivity|].
  all: intros i Hi; apply dimension_order_lt in Hi.
  all: destruct ds as [|d0 ds']; [simpl in Hi; lia|].
  all: destruct (nth_forall2 _ _ _ o0 d0 i HF) as [_ Hh]; [rewrite <- Hl; exact Hi|].
  all: rewrite Hh, (nth_indep (map dsize (d0 :: ds')) 0%nat (dsize d0)) by (rewrite map_length; exact Hi).
  all: rewrite map_nth; reflexivity.
Qed.
