(* GOLDEN obligations of the wiring translator for C09 (generated ONCE by tools/gen_wiring_props.py,
   then committed): what each public member of cubepart.py that C09 relies on IS, as a term of
   Base/WiringExp.v.  Gen/WiringSrc.v is regenerated from /repo on every check; an edit of the
   public layer that changes one of these members breaks the lemma below (reflexivity). *)
From Coq Require Import List ZArith String.
From CC Require Import Base.WiringExp Gen.WiringSrc.
Import ListNotations.
Local Open Scope string_scope.

(* SecondOrderMeasures.columns_pruning_mask *)
Lemma gen_wiring_SecondOrderMeasures_columns_pruning_mask :
  wsrc_SecondOrderMeasures_columns_pruning_mask = Some (WAttr (WAttr (WSelf "_cube_measures")
      "unweighted_cube_counts") "columns_pruning_mask").
Proof. reflexivity. Qed.

(* SecondOrderMeasures.rows_pruning_mask *)
Lemma gen_wiring_SecondOrderMeasures_rows_pruning_mask :
  wsrc_SecondOrderMeasures_rows_pruning_mask = Some (WAttr (WAttr (WSelf "_cube_measures")
      "unweighted_cube_counts") "rows_pruning_mask").
Proof. reflexivity. Qed.

(* StripeMeasures.pruning_base *)
Lemma gen_wiring_StripeMeasures_pruning_base :
  wsrc_StripeMeasures_pruning_base = Some (WAttr (WAttr (WSelf "_cube_measures")
      "unweighted_cube_counts") "pruning_base").
Proof. reflexivity. Qed.
