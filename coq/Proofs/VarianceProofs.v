(* Proofs about Model/Variance.v – the lemma family behind property C11. *)
From Coq Require Import QArith ZArith List Bool Lia Arith Setoid Morphisms.
From CC Require Import Base.XQ Base.ListX Model.Subtotals Model.Proportions Model.Variance.
Import ListNotations.
Open Scope Q_scope.

(* ---- respondent-level specification -------------------------------------------------
   The respondents in the proportion's base, each with a weight and the indicator
   +1 (member of the cell's addends), -1 (member of its subtrahends) or 0. *)
Inductive mark := Pos | Zero | Neg.
Definition mval (m : mark) : Q := match m with Pos => 1 | Zero => 0 | Neg => -1 end.
Definition resp := (Q * mark)%type.

Fixpoint wsum_if (f : mark -> bool) (l : list resp) : Q :=
  match l with
  | [] => 0
  | (w, m) :: t => (if f m then w else 0) + wsum_if f t
  end.
Definition w_tot := wsum_if (fun _ => true).
Definition w_pos := wsum_if (fun m => match m with Pos => true | _ => false end).
Definition w_neg := wsum_if (fun m => match m with Neg => true | _ => false end).
Definition w_ign := wsum_if (fun m => match m with Zero => true | _ => false end).

(* weighted mean of the indicator and weighted (population) variance around it *)
Fixpoint wx_sum (l : list resp) : Q :=
  match l with [] => 0 | (w, m) :: t => w * mval m + wx_sum t end.
Fixpoint wdev_sum (p : Q) (l : list resp) : Q :=
  match l with [] => 0 | (w, m) :: t => w * ((mval m - p) * (mval m - p)) + wdev_sum p t end.
Definition spec_mean (l : list resp) : Q := wx_sum l / w_tot l.
Definition spec_var (l : list resp) : Q := wdev_sum (spec_mean l) l / w_tot l.

Lemma wx_sum_split l : wx_sum l == w_pos l - w_neg l.
Proof.
  unfold w_pos, w_neg. induction l as [|[w m] t IH]; simpl; [ring|].
  rewrite IH. destruct m; simpl; ring.
Qed.

Lemma w_tot_split l : w_tot l == w_pos l + w_ign l + w_neg l.
Proof.
  unfold w_tot, w_pos, w_neg, w_ign. induction l as [|[w m] t IH]; simpl; [ring|].
  rewrite IH. destruct m; simpl; ring.
Qed.

Lemma wdev_sum_split p l :
  wdev_sum p l == (1 - p) * (1 - p) * w_pos l + (0 - p) * (0 - p) * w_ign l
                  + (-1 - p) * (-1 - p) * w_neg l.
Proof.
  unfold w_pos, w_neg, w_ign. induction l as [|[w m] t IH]; simpl; [ring|].
  rewrite IH. destruct m; simpl; ring.
Qed.

(* ---- the three-term formula of the code is that variance ---------------------------- *)
Lemma calc_var_fin (p Nt Np Ni Nn : Q) : ~ Nt == 0 ->
  calc_var (Fin p) (Fin Nt) (Fin Np) (Fin Ni) (Fin Nn) =x=
  Fin ((1 - p) * (1 - p) * (Np / Nt) + (0 - p) * (0 - p) * (Ni / Nt)
       + (-1 - p) * (-1 - p) * (Nn / Nt)).
Proof.
  intros H. unfold calc_var, xsq, xsub. rewrite !xdiv_fin by exact H. simpl. ring.
Qed.

Theorem var_is_indicator_variance (l : list resp) : ~ w_tot l == 0 ->
  var_cell (Fin (spec_mean l)) (Fin (w_tot l)) (Fin (w_pos l)) (Fin (w_neg l))
  =x= Fin (spec_var l).
Proof.
  intros H. unfold var_cell. unfold xsub at 1 2. simpl xneg. simpl xadd.
  rewrite calc_var_fin by exact H. simpl. unfold spec_var.
  rewrite (wdev_sum_split (spec_mean l) l).
  rewrite (w_tot_split l) at 2. field. exact H.
Qed.

(* the proportion the code uses IS the mean of the indicator: (Np - Nn) / Nt *)
Lemma spec_mean_counts l : spec_mean l == (w_pos l - w_neg l) / w_tot l.
Proof. unfold spec_mean. rewrite wx_sum_split. reflexivity. Qed.

(* without subtrahends: p (1 - p) *)
Theorem var_no_negatives (p Nt Np : Q) : ~ Nt == 0 -> p == Np / Nt ->
  var_cell (Fin p) (Fin Nt) (Fin Np) (Fin 0) =x= Fin (p * (1 - p)).
Proof.
  intros H Hp. unfold var_cell. unfold xsub at 1 2. simpl xneg. simpl xadd.
  rewrite calc_var_fin by exact H. simpl. rewrite Hp. field. exact H.
Qed.

(* second-moment form: (Np + Nn)/Nt - p^2 *)
Theorem var_second_moment (p Nt Np Nn : Q) : ~ Nt == 0 -> p == (Np - Nn) / Nt ->
  var_cell (Fin p) (Fin Nt) (Fin Np) (Fin Nn) =x= Fin ((Np + Nn) / Nt - p * p).
Proof.
  intros H Hp. unfold var_cell. unfold xsub at 1 2. simpl xneg. simpl xadd.
  rewrite calc_var_fin by exact H. simpl. rewrite Hp. field. exact H.
Qed.

(* non-negative for non-negative weights *)
Lemma wdev_sum_nonneg p l : (forall w m, In (w, m) l -> 0 <= w) -> 0 <= wdev_sum p l.
Proof.
  induction l as [|[w m] t IH]; intros Hw; simpl; [apply Qle_refl|].
  assert (H1 : 0 <= w) by (apply (Hw w m); left; reflexivity).
  assert (H2 : 0 <= wdev_sum p t) by (apply IH; intros w' m' Hin; apply (Hw w' m'); right; exact Hin).
  assert (H3 : 0 <= (mval m - p) * (mval m - p)).
  { destruct (Qlt_le_dec (mval m - p) 0) as [L|L].
    - setoid_replace ((mval m - p) * (mval m - p)) with ((- (mval m - p)) * (- (mval m - p))) by ring.
      apply Qmult_le_0_compat; apply (Qopp_le_compat _ 0); apply Qlt_le_weak; exact L.
    - apply Qmult_le_0_compat; exact L. }
  setoid_replace 0 with (0 + 0) by ring. apply Qplus_le_compat; auto.
  apply Qmult_le_0_compat; auto.
Qed.

Lemma w_tot_nonneg l : (forall w m, In (w, m) l -> 0 <= w) -> 0 <= w_tot l.
Proof.
  induction l as [|[w m] t IH]; intros Hw; unfold w_tot in *; simpl; [apply Qle_refl|].
  setoid_replace 0 with (0 + 0) by ring. apply Qplus_le_compat.
  - apply (Hw w m). left. reflexivity.
  - apply IH. intros w' m' Hin. apply (Hw w' m'). right. exact Hin.
Qed.

Theorem spec_var_nonneg l : (forall w m, In (w, m) l -> 0 <= w) -> ~ w_tot l == 0 ->
  0 <= spec_var l.
Proof.
  intros Hw Hnz. unfold spec_var.
  assert (Hpos : 0 < w_tot l).
  { destruct (Qlt_le_dec 0 (w_tot l)) as [L|L]; auto. exfalso. apply Hnz.
    apply Qle_antisym; auto. apply w_tot_nonneg. exact Hw. }
  apply Qle_shift_div_l; auto. rewrite Qmult_0_l. apply wdev_sum_nonneg. exact Hw.
Qed.

(* undefined base or proportion => NaN *)
Lemma var_nan_zero_base p : var_cell p (Fin 0) (Fin 0) (Fin 0) = NaN.
Proof.
  unfold var_cell, calc_var.
  assert (E : xdiv (Fin 0) (Fin 0) = NaN) by reflexivity.
  assert (E2 : xsub (xsub (Fin 0) (Fin 0)) (Fin 0) =x= Fin 0) by (simpl; ring).
  rewrite E. rewrite xmul_nan_r. reflexivity.
Qed.
Lemma var_nan_prop Nt Np Nn : var_cell NaN Nt Np Nn = NaN.
Proof. unfold var_cell, calc_var. simpl. reflexivity. Qed.

(* std-err^2 = variance / base ; MoE^2 = 1.959964^2 * std-err^2 *)
Lemma stderr_sq_def var base : stderr_sq var base = xdiv var base.
Proof. reflexivity. Qed.
Lemma moe_sq_fin s : moe_sq (Fin s) = Fin ((1959964 # 1000000) * (1959964 # 1000000) * s).
Proof. reflexivity. Qed.
Lemma moe_sq_nan : moe_sq NaN = NaN.
Proof. reflexivity. Qed.
Lemma stderr_sq_nonneg v b : 0 <= v -> 0 < b ->
  match stderr_sq (Fin v) (Fin b) with Fin s => 0 <= s | _ => False end.
Proof.
  intros Hv Hb. unfold stderr_sq. rewrite xdiv_fin.
  - apply Qle_shift_div_l; auto. rewrite Qmult_0_l. exact Hv.
  - intros E. rewrite E in Hb. apply (Qlt_irrefl 0 Hb).
Qed.

(* pointwise: the variance blocks apply [var_cell] to proportion, base, positive and negative
   term blocks cell by cell *)
Section Pointwise.
  Variable counts : mat.
  Variable nr nc : nat.
  Variable rsubs csubs : list subtotal.
  Variable P T : blocks.
  Let V := variance_blocks counts nr nc rsubs csubs P T.
  Let A := pos_blocks counts nr nc rsubs csubs.
  Let N := neg_blocks counts nr nc rsubs csubs.
  Local Close Scope Q_scope.
  Local Open Scope nat_scope.

  Lemma var_blocks_pointwise :
    (forall i j, i < nr -> j < nc -> mnth (b_base V) i j =
       var_cell (mnth (b_base P) i j) (mnth (b_base T) i j) (mnth (b_base A) i j) (mnth (b_base N) i j)) /\
    (forall i l, i < nr -> l < length csubs -> mnth (b_cols V) i l =
       var_cell (mnth (b_cols P) i l) (mnth (b_cols T) i l) (mnth (b_cols A) i l) (mnth (b_cols N) i l)) /\
    (forall k j, k < length rsubs -> j < nc -> mnth (b_rows V) k j =
       var_cell (mnth (b_rows P) k j) (mnth (b_rows T) k j) (mnth (b_rows A) k j) (mnth (b_rows N) k j)) /\
    (forall k l, k < length rsubs -> l < length csubs -> mnth (b_inter V) k l =
       var_cell (mnth (b_inter P) k l) (mnth (b_inter T) k l) (mnth (b_inter A) k l) (mnth (b_inter N) k l)).
  Proof.
    unfold V, variance_blocks, map4; simpl.
    repeat split; intros; rewrite tab2_mnth; auto.
  Qed.

  (* positive / negative term blocks: sums of the addends' / subtrahends' counts *)
  Lemma pos_neg_rows k j : k < length rsubs -> j < nc ->
    mnth (b_rows A) k j = sum_rows counts (s_add (nth k rsubs nosub)) j /\
    mnth (b_rows N) k j = sum_rows counts (s_sub (nth k rsubs nosub)) j.
  Proof.
    intros. unfold A, N, pos_blocks, neg_blocks; simpl. rewrite !tab2_mnth; auto.
  Qed.
  Lemma pos_neg_cols i l : i < nr -> l < length csubs ->
    mnth (b_cols A) i l = sum_cols counts i (s_add (nth l csubs nosub)) /\
    mnth (b_cols N) i l = sum_cols counts i (s_sub (nth l csubs nosub)).
  Proof.
    intros. unfold A, N, pos_blocks, neg_blocks; simpl. rewrite !tab2_mnth; auto.
  Qed.
  Lemma pos_neg_base i j : i < nr -> j < nc ->
    mnth (b_base A) i j = mnth counts i j /\ mnth (b_base N) i j = Fin 0.
  Proof.
    intros. unfold A, N, pos_blocks, neg_blocks; simpl. rewrite tab2_mnth; auto.
  Qed.
End Pointwise.
