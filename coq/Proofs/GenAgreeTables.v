(* Proofs/GenAgreeTables.v -- constants read from the source (Gen/Tables.v): cubepart.Z_975 is the
   constant the models of C11 / C17 / C08 use (Model/Variance.v, Model/Population.v,
   Model/SortKeys.v).  Not re-exported by a property file yet (their owners may add
   `exact gen_Z_975`). *)
From Coq Require Import QArith ZArith List Bool Lia Arith String.
From CC Require Import Base.XQ Base.ListX Base.Tensor Model.CubeCounts
     Gen.CubeCountsSrc Gen.StripeCountsSrc Gen.Tables Proofs.GenAgreeTac.
From CC Require Model.Variance Model.Population Model.SortKeys.
Import ListNotations.
Local Close Scope Q_scope.
Local Open Scope string_scope.
Local Open Scope nat_scope.

Lemma gen_Z_975 :
  match tbl_Z_975 with
  | Some z => (z == CC.Model.Variance.Z975)%Q /\ (z == CC.Model.SortKeys.Z975)%Q /\
              Fin z =x= CC.Model.Population.Z975
  | None => True
  end.
Proof.
  unfold tbl_Z_975; lazymatch goal with
  | |- True => exact I
  | _ => repeat split; vm_compute; reflexivity
  end.
Qed.

