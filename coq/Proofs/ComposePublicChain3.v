(* Proofs/ComposePublicChain3.v -- the COMPOSITION of the source translators, part 3c: the measure chain,
   the column index (level 1: on the EVALUATED weighted counts and column weighted bases, and the baseline of
   the unconditional cube counts -- an array of shape (rows, 1), or (rows, columns) for MR columns).
   Bridges: Proofs/GenAgreeIndex.v.  See ComposePublicChain.v. *)
From Coq Require Import QArith ZArith List Bool Lia Arith String.
From CC Require Import Base.XQ Base.ListX Base.WiringExp Model.Subtotals Model.Proportions Model.CubeCounts
     Proofs.ComposePublicSem Proofs.ComposePublicLinks Proofs.ComposePublicChainDefs
     Proofs.ComposePublicChainCounts Proofs.ComposePublicChainBases.
From CC Require Base.MeasureExp Gen.MeasureSrc Proofs.GenAgreeMeasTac Proofs.GenAgreeIndex.
Import ListNotations.
Local Close Scope Q_scope.
Local Open Scope string_scope.
Local Open Scope nat_scope.

Import CC.Gen.MeasureSrc.

Section Model.
  Variable C : pctx.
  (* 100 * (count / column base) / baseline of the row (and column, for MR columns) *)
  Definition index_fn (i j : nat) : xq :=
    column_index_cell (mnth (m_counts C) i j) (mnth (m_cb C) i j)
                      (c_baseline C i (if c_cmr C then j else 0)).
  (* NanSubtotals: every inserted row / column is NaN *)
  Definition B_index : blocks :=
    nan_blocks (tab2 (c_nr C) (c_nc C) index_fn) (c_nr C) (c_nc C) (c_rsubs C) (c_csubs C).
End Model.

Lemma tabular_index C : tabular C (B_index C).
Proof. tab_cases; apply is_tab_tab2. Qed.

Definition terms_column_index : bool :=
  terms_weighted_counts && terms_column_weighted_bases &&
  is_some src_ColumnIndex_blocks_00 && is_some src_ColumnIndex_blocks_01 &&
  is_some src_ColumnIndex_blocks_10 && is_some src_ColumnIndex_blocks_11.

Lemma index_model_chain f C :
  realizes f C "weighted_counts" (B_counts C) -> realizes f C "column_weighted_bases" (B_colb C) ->
  tab2 (c_nr C) (c_nc C) (GenAgreeIndex.index_model (blk_at f C) (c_cmr C) (c_baseline C))
  = tab2 (c_nr C) (c_nc C) (index_fn C).
Proof.
  intros Rc Rb. apply tab2_ext_lt. intros i j _ _. unfold GenAgreeIndex.index_model, index_fn.
  rewrite (realizes_blk _ _ _ _ 0 0 Rc) by lia. rewrite (realizes_blk _ _ _ _ 0 0 Rb) by lia. reflexivity.
Qed.

Theorem realizes_column_index :
  need terms_column_index
  (forall f C, cube_tab C "counts" -> cube_tab C "column_bases" -> nonempty C ->
     realizes (S (S f)) C "column_index" (B_index C)).
Proof.
  unfold terms_column_index.
  use_need realizes_weighted_counts terms_weighted_counts. intros Rc.
  use_need realizes_column_weighted_bases terms_column_weighted_bases. intros Rb.
  bridge GenAgreeIndex.gen_ColumnIndex_blocks_00 src_ColumnIndex_blocks_00.
  bridge GenAgreeIndex.gen_ColumnIndex_blocks_01 src_ColumnIndex_blocks_01.
  bridge GenAgreeIndex.gen_ColumnIndex_blocks_10 src_ColumnIndex_blocks_10.
  bridge GenAgreeIndex.gen_ColumnIndex_blocks_11 src_ColumnIndex_blocks_11.
  needed. intros f C Hc Hcb Hne.
  pose proof (index_model_chain (S f) C (Rc f C Hc) (Rb f C Hcb Hne)) as M.
  pose proof (tabular_index C) as T. four_blocks.
  - block_by E eval_block_index ltac:(unfold B_index; rewrite <- M; apply G) T.
  - block_by E0 eval_block_index ltac:(unfold B_index; rewrite <- M; apply G0) T.
  - block_by E1 eval_block_index ltac:(unfold B_index; rewrite <- M; apply G1) T.
  - block_by E2 eval_block_index ltac:(unfold B_index; rewrite <- M; apply G2) T.
Qed.
