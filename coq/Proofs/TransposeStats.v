(* Proofs/TransposeStats.v -- C10 for the scale statistics (Model/Scale.v, per vector), the margin
   proportions, the residual z-scores (Model/Zscore.v) and the population estimates
   (Model/Population.v). *)
From Coq Require Import QArith ZArith List Bool Lia Arith Setoid Morphisms.
From CC Require Import Base.XQ Base.ListX Model.Subtotals Model.Scale Model.Zscore Model.Population
  Model.Transpose Proofs.TransposeAlgebra.
Import ListNotations.
Local Close Scope Q_scope.
Local Open Scope nat_scope.

Lemma tab_ext {A} n (f g : nat -> A) : (forall i, i < n -> f i = g i) -> tab n f = tab n g.
Proof.
  intros H. unfold tab. apply map_ext_in. intros i Hi. apply in_seq in Hi. apply H. lia.
Qed.

(* ---- statistics of the row vectors / column vectors ------------------------------------------ *)
(* any per-vector statistic: along the rows of B x A = along the columns of A x B *)
Theorem rows_stat_T f nr nc counts bases :
  length counts = nr -> length bases = nr ->
  rows_stat f nc (mtranspose nr nc counts) (mtranspose nr nc bases) = cols_stat f nc counts bases.
Proof.
  intros Hc Hb. unfold rows_stat, cols_stat. apply tab_ext. intros j Hj.
  rewrite !mrow_mtranspose by assumption. reflexivity.
Qed.

Theorem cols_stat_T f nr nc counts bases :
  shape counts nr nc -> shape bases nr nc ->
  cols_stat f nr (mtranspose nr nc counts) (mtranspose nr nc bases) = rows_stat f nr counts bases.
Proof.
  intros Hc Hb. unfold rows_stat, cols_stat. apply tab_ext. intros i Hi.
  rewrite !mcol_mtranspose by assumption. reflexivity.
Qed.

(* ---- margin proportions -------------------------------------------------------------------------- *)
Theorem margin_proportion_T nr nc margin marginT tb tbT i j :
  MT marginT margin -> MT tbT tb -> i < nr -> j < nc ->
  mnth (margin_proportion nc nr marginT tbT) j i =x= mnth (margin_proportion nr nc margin tb) i j.
Proof.
  intros Hm Ht Hi Hj. unfold margin_proportion. rewrite !tab2_mnth by assumption.
  rewrite (Hm i j), (Ht i j). reflexivity.
Qed.

(* ---- z-scores -------------------------------------------------------------------------------------- *)
(* one cell: exchanging the row base and the column base does not change z (finite bases) *)
Lemma z_expected_sym r k t : z_expected (Fin k) (Fin r) (Fin t) =x= z_expected (Fin r) (Fin k) (Fin t).
Proof.
  unfold z_expected. apply xdiv_Proper; [|reflexivity]. simpl. ring.
Qed.

Lemma z_variance_sym r k t : z_variance (Fin k) (Fin r) (Fin t) =x= z_variance (Fin r) (Fin k) (Fin t).
Proof.
  unfold z_variance. apply xdiv_Proper; [|reflexivity]. simpl. ring.
Qed.

Theorem z_zabs_sym c r k t : z_zabs c (Fin k) (Fin r) (Fin t) =x= z_zabs c (Fin r) (Fin k) (Fin t).
Proof.
  unfold z_zabs, z_resid. cbv zeta.
  assert (E := z_expected_sym r k t). assert (W := z_variance_sym r k t).
  rewrite (xltb_Proper _ _ W (Fin 0) (Fin 0) (xeq_refl _)).
  destruct (xltb (z_variance (Fin r) (Fin k) (Fin t)) (Fin 0)); [reflexivity|].
  rewrite E, W. reflexivity.
Qed.

#[global] Instance z_zabs_Proper : Proper (xeq ==> xeq ==> xeq ==> xeq ==> xeq) z_zabs.
Proof.
  intros c c' Hc r r' Hr k k' Hk t t' Ht. unfold z_zabs, z_resid, z_expected. cbv zeta.
  assert (W : z_variance r k t =x= z_variance r' k' t')
    by (unfold z_variance; rewrite Hr, Hk, Ht; reflexivity).
  rewrite (xltb_Proper _ _ W (Fin 0) (Fin 0) (xeq_refl _)).
  destruct (xltb (z_variance r' k' t') (Fin 0)); [reflexivity|].
  rewrite W, Hc, Hr, Hk, Ht. reflexivity.
Qed.

(* the guards of a block *)
Lemma ncols_shape (m : mat) nr nc : shape m nr nc -> 0 < nr -> ncols m = nc.
Proof.
  intros [Hl Hr] H. unfold ncols. destruct m as [|r t]; [simpl in Hl; lia|].
  apply (Hr 0). exact H.
Qed.
Lemma nrows_shape (m : mat) nr nc : shape m nr nc -> nrows m = nr.
Proof. intros [Hl _]. exact Hl. Qed.

Lemma mall_eq_spec a b :
  mall_eq a b = true <->
  (forall i j, i < nrows a -> j < ncols a -> xeqb (mnth a i j) (mnth b i j) = true).
Proof.
  unfold mall_eq. rewrite forallb_forall. split.
  - intros H i j Hi Hj. assert (Hx := H i). rewrite forallb_forall in Hx.
    apply Hx; apply in_seq; lia.
  - intros H i Hi. rewrite forallb_forall. intros j Hj. apply in_seq in Hi, Hj. apply H; lia.
Qed.

Lemma mall_eq_T nr nc a b aT bT :
  0 < nr -> 0 < nc -> shape a nr nc -> shape aT nc nr -> MT aT a -> MT bT b ->
  mall_eq aT bT = mall_eq a b.
Proof.
  intros Hnr Hnc Sa SaT Ha Hb. apply eq_true_iff_eq. rewrite !mall_eq_spec.
  rewrite (nrows_shape _ _ _ Sa), (ncols_shape _ _ _ Sa Hnr),
          (nrows_shape _ _ _ SaT), (ncols_shape _ _ _ SaT Hnc).
  split; intros H i j Hi Hj.
  - rewrite <- (xeqb_Proper _ _ (Ha i j) _ _ (Hb i j)). apply H; assumption.
  - rewrite (xeqb_Proper _ _ (Ha j i) _ _ (Hb j i)). apply H; assumption.
Qed.

Lemma rank_lt2_spec m :
  rank_lt2 m = true <->
  (forall i i' j j', i < nrows m -> i' < nrows m -> j < ncols m -> j' < ncols m ->
     xeqb (minor m i i' j j') (Fin 0) = true).
Proof.
  unfold rank_lt2. cbv zeta. rewrite forallb_forall. split.
  - intros H i i' j j' Hi Hi' Hj Hj'.
    assert (H1 := H i). rewrite forallb_forall in H1.
    assert (H2 := H1 (proj2 (in_seq _ _ _) (conj (Nat.le_0_l i) Hi)) i').
    rewrite forallb_forall in H2.
    assert (H3 := H2 (proj2 (in_seq _ _ _) (conj (Nat.le_0_l i') Hi')) j).
    rewrite forallb_forall in H3.
    assert (H4 := H3 (proj2 (in_seq _ _ _) (conj (Nat.le_0_l j) Hj))).
    apply H4. apply in_seq. lia.
  - intros H i Hi. rewrite forallb_forall. intros i' Hi'. rewrite forallb_forall. intros j Hj.
    rewrite forallb_forall. intros j' Hj'. apply in_seq in Hi, Hi', Hj, Hj'. apply H; lia.
Qed.

Lemma minor_T m mT i i' j j' : MT mT m -> minor mT j j' i i' =x= minor m i i' j j'.
Proof.
  intros H. unfold minor. rewrite (H i j), (H i' j'), (H i' j), (H i j').
  rewrite (xmul_comm (mnth m i' j) (mnth m i j')). reflexivity.
Qed.

Lemma rank_lt2_T nr nc m mT :
  0 < nr -> 0 < nc -> shape m nr nc -> shape mT nc nr -> MT mT m -> rank_lt2 mT = rank_lt2 m.
Proof.
  intros Hnr Hnc S ST H. apply eq_true_iff_eq. rewrite !rank_lt2_spec.
  rewrite (nrows_shape _ _ _ S), (ncols_shape _ _ _ S Hnr),
          (nrows_shape _ _ _ ST), (ncols_shape _ _ _ ST Hnc).
  split; intros G a a' b b' Ha Ha' Hb Hb'.
  - rewrite <- (xeqb_Proper _ _ (minor_T m mT a a' b b' H) _ _ (xeq_refl _)). apply G; assumption.
  - rewrite (xeqb_Proper _ _ (minor_T m mT b b' a a' H) _ _ (xeq_refl _)). apply G; assumption.
Qed.

Lemma defective_T nr nc m mT :
  0 < nr -> 0 < nc -> shape m nr nc -> shape mT nc nr -> MT mT m -> defective mT = defective m.
Proof.
  intros Hnr Hnc S ST H. unfold defective.
  rewrite (rank_lt2_T nr nc m mT) by assumption.
  rewrite (nrows_shape _ _ _ S), (ncols_shape _ _ _ S Hnr),
          (nrows_shape _ _ _ ST), (ncols_shape _ _ _ ST Hnc).
  destruct nr, nc; try lia. reflexivity.
Qed.

(* a block of z-scores: the block of B x A (row bases and column bases exchanged) is the
   transpose of the block of A x B.  [bc]: the base block of the counts (n0 x m0). *)
Theorem zscores_block_T n0 m0 nr nc bc bcT c cT t tT r rT k kT :
  0 < n0 -> 0 < m0 -> shape bc n0 m0 -> shape bcT m0 n0 -> MT bcT bc ->
  0 < nr -> 0 < nc ->
  shape c nr nc -> shape cT nc nr -> shape t nr nc -> shape tT nc nr ->
  MT cT c -> MT tT t -> MT rT r -> MT kT k ->
  all_fin_mat t nr nc -> all_fin_mat r nr nc -> all_fin_mat k nr nc ->
  all_fin_mat tT nc nr -> all_fin_mat rT nc nr -> all_fin_mat kT nc nr ->
  forall i j, i < nr -> j < nc ->
    mnth (zscores_block bcT cT tT kT rT) j i =x= mnth (zscores_block bc c t r k) i j.
Proof.
  intros Hn0 Hm0 Sb SbT Hb Hnr Hnc Sc ScT St StT Hc Ht Hr Hk Ft Fr Fk FtT FrT FkT i j Hi Hj.
  unfold zscores_block, zblock, nan_like.
  rewrite (defective_T n0 m0 bc bcT) by assumption.
  rewrite (nrows_shape _ _ _ Sc), (ncols_shape _ _ _ Sc Hnr),
          (nrows_shape _ _ _ ScT), (ncols_shape _ _ _ ScT Hnc).
  destruct (defective bc).
  - rewrite !tab2_mnth by assumption. reflexivity.
  - rewrite (mall_eq_T nr nc t k tT kT) by assumption.
    rewrite (mall_eq_T nr nc t r tT rT) by assumption.
    rewrite (orb_comm (mall_eq t k)).
    destruct (mall_eq t r || mall_eq t k).
    + rewrite !tab2_mnth by assumption. reflexivity.
    + rewrite !tab2_mnth by assumption.
      destruct (Ft i j Hi Hj) as [qt Et], (Fr i j Hi Hj) as [qr Er], (Fk i j Hi Hj) as [qk Ek].
      destruct (FtT j i Hj Hi) as [qt' Et'], (FrT j i Hj Hi) as [qr' Er'], (FkT j i Hj Hi) as [qk' Ek'].
      assert (Xt := Ht i j). assert (Xr := Hr i j). assert (Xk := Hk i j). assert (Xc := Hc i j).
      rewrite Et, Er, Ek, Et', Er', Ek' in *.
      transitivity (z_zabs (mnth c i j) (Fin qk) (Fin qr) (Fin qt)).
      * apply z_zabs_Proper; assumption.
      * apply z_zabs_sym.
Qed.

(* ---- population estimates ---------------------------------------------------------------------------- *)
Lemma pop_choice_T {A} rcd ccd (g : A -> A) (rowm colm tabm : A) :
  rcd && ccd = false ->
  pop_choice ccd rcd (g colm) (g rowm) (g tabm) = g (pop_choice rcd ccd rowm colm tabm).
Proof. destruct rcd, ccd; simpl; intros H; try discriminate; reflexivity. Qed.

Theorem pop_counts_T nr nc rcd ccd rowp colp tabp N f dr dc :
  rcd && ccd = false -> 0 < nr -> 0 < nc ->
  shape rowp nr nc -> shape colp nr nc -> shape tabp nr nc ->
  forall i j, i < nr -> j < nc ->
    mnth (pop_counts ccd rcd (mtranspose nr nc colp) (mtranspose nr nc rowp) (mtranspose nr nc tabp)
                     N f dc dr) j i
    = mnth (pop_counts rcd ccd rowp colp tabp N f dr dc) i j.
Proof.
  intros H Hnr Hnc Sr Sc St i j Hi Hj. unfold pop_counts.
  rewrite (pop_choice_T rcd ccd (mtranspose nr nc)) by exact H.
  assert (SP : shape (pop_choice rcd ccd rowp colp tabp) nr nc) by (destruct rcd, ccd; assumption).
  set (P := pop_choice rcd ccd rowp colp tabp) in *.
  rewrite (nrows_shape _ _ _ (mtranspose_shape nr nc P)),
          (ncols_shape _ _ _ (mtranspose_shape nr nc P) Hnc),
          (nrows_shape _ _ _ SP), (ncols_shape _ _ _ SP Hnr).
  rewrite !tab2_mnth by assumption. rewrite mtranspose_mnth by assumption.
  rewrite orb_comm. reflexivity.
Qed.

Theorem pop_moe_T nr nc rcd ccd rowse colse tabse N f :
  rcd && ccd = false -> 0 < nr -> 0 < nc ->
  shape rowse nr nc -> shape colse nr nc -> shape tabse nr nc ->
  forall i j, i < nr -> j < nc ->
    mnth (pop_moe ccd rcd (mtranspose nr nc colse) (mtranspose nr nc rowse) (mtranspose nr nc tabse) N f) j i
    = mnth (pop_moe rcd ccd rowse colse tabse N f) i j.
Proof.
  intros H Hnr Hnc Sr Sc St i j Hi Hj. unfold pop_moe.
  rewrite (pop_choice_T rcd ccd (mtranspose nr nc)) by exact H.
  assert (SP : shape (pop_choice rcd ccd rowse colse tabse) nr nc) by (destruct rcd, ccd; assumption).
  set (P := pop_choice rcd ccd rowse colse tabse) in *.
  rewrite (nrows_shape _ _ _ (mtranspose_shape nr nc P)),
          (ncols_shape _ _ _ (mtranspose_shape nr nc P) Hnc),
          (nrows_shape _ _ _ SP), (ncols_shape _ _ _ SP Hnr).
  rewrite !tab2_mnth by assumption. rewrite mtranspose_mnth by assumption. reflexivity.
Qed.

(* both dimensions categorical-date: the ROW proportion is projected in either order, so the
   estimates of A x B and B x A are not transposes of each other *)
Definition wit_rowp : mat := [[Fin (1 # 3); Fin (2 # 3)]].
Definition wit_colp : mat := [[Fin 1; Fin 1]].
Definition wit_tabp : mat := [[Fin (1 # 3); Fin (2 # 3)]].

Theorem pop_counts_both_dates_refuted :
  exists rowp colp tabp,
    shape rowp 1 2 /\ shape colp 1 2 /\ shape tabp 1 2 /\
    ~ (mnth (pop_counts true true (mtranspose 1 2 colp) (mtranspose 1 2 rowp) (mtranspose 1 2 tabp)
                        (Fin 1000) (Fin 1) [] []) 0 0
       =x= mnth (pop_counts true true rowp colp tabp (Fin 1000) (Fin 1) [] []) 0 0).
Proof.
  exists wit_rowp, wit_colp, wit_tabp.
  repeat split; try (intros [|[|]] H; simpl; try reflexivity; lia).
  vm_compute. discriminate.
Qed.
