(* Proofs/GenAgreeBases.v -- GenAgree for C02: row/column/table bases, the four 1-D margins and
   the scalar table base of the nine _XxYCubeCounts classes (inheritance flattened: "return None"
   of _BaseCubeCounts where a class does not override), through the factory's dict; stripe
   bases / table_base.  See GenAgreeTac.v. *)
From Coq Require Import QArith ZArith List Bool Lia Arith String.
From CC Require Import Base.XQ Base.ListX Base.Tensor Model.CubeCounts
     Gen.CubeCountsSrc Gen.StripeCountsSrc Gen.Tables Proofs.GenAgreeTac.
Import ListNotations.
Local Close Scope Q_scope.
Local Open Scope string_scope.
Local Open Scope nat_scope.

Lemma gen_CatXCatCubeCounts_row_bases :
  match src_CatXCatCubeCounts_row_bases with
  | Some e => forall V nr nc sr sc,
      agrees2 (teval (envC (shape_of CCat CCat nr nc sr sc) V) e) nr nc (row_bases_of V nc sc CCat CCat)
  | None => True
  end.
Proof. gen_agree. Qed.

Lemma gen_CatXCatCubeCounts_column_bases :
  match src_CatXCatCubeCounts_column_bases with
  | Some e => forall V nr nc sr sc,
      agrees2 (teval (envC (shape_of CCat CCat nr nc sr sc) V) e) nr nc (column_bases_of V nr sr CCat CCat)
  | None => True
  end.
Proof. gen_agree. Qed.

Lemma gen_CatXCatCubeCounts_table_bases :
  match src_CatXCatCubeCounts_table_bases with
  | Some e => forall V nr nc sr sc,
      agrees2 (teval (envC (shape_of CCat CCat nr nc sr sc) V) e) nr nc (table_bases_of V nr nc sr sc CCat CCat)
  | None => True
  end.
Proof. gen_agree. Qed.

Lemma gen_CatXCatCubeCounts_rows_base :
  match src_CatXCatCubeCounts_rows_base with
  | Some e => forall V nr nc sr sc,
      agrees_opt1 (teval (envC (shape_of CCat CCat nr nc sr sc) V) e) nr (rows_base_of V nc CCat CCat)
  | None => True
  end.
Proof. gen_agree. Qed.

Lemma gen_CatXCatCubeCounts_columns_base :
  match src_CatXCatCubeCounts_columns_base with
  | Some e => forall V nr nc sr sc,
      agrees_opt1 (teval (envC (shape_of CCat CCat nr nc sr sc) V) e) nc (columns_base_of V nr CCat CCat)
  | None => True
  end.
Proof. gen_agree. Qed.

Lemma gen_CatXCatCubeCounts_rows_table_base :
  match src_CatXCatCubeCounts_rows_table_base with
  | Some e => forall V nr nc sr sc,
      agrees_opt1 (teval (envC (shape_of CCat CCat nr nc sr sc) V) e) nr (rows_table_base_of V nr nc sr CCat CCat)
  | None => True
  end.
Proof. gen_agree. Qed.

Lemma gen_CatXCatCubeCounts_columns_table_base :
  match src_CatXCatCubeCounts_columns_table_base with
  | Some e => forall V nr nc sr sc,
      agrees_opt1 (teval (envC (shape_of CCat CCat nr nc sr sc) V) e) nc (columns_table_base_of V nr nc sc CCat CCat)
  | None => True
  end.
Proof. gen_agree. Qed.

Lemma gen_CatXCatCubeCounts_table_base :
  match src_CatXCatCubeCounts_table_base with
  | Some e => forall V nr nc sr sc,
      agrees_opt0 (teval (envC (shape_of CCat CCat nr nc sr sc) V) e) (table_base_of V nr nc CCat CCat)
  | None => True
  end.
Proof. gen_agree. Qed.

Lemma gen_CatXMrCubeCounts_row_bases :
  match src_CatXMrCubeCounts_row_bases with
  | Some e => forall V nr nc sr sc,
      agrees2 (teval (envC (shape_of CCat CMr nr nc sr sc) V) e) nr nc (row_bases_of V nc sc CCat CMr)
  | None => True
  end.
Proof. gen_agree. Qed.

Lemma gen_CatXMrCubeCounts_column_bases :
  match src_CatXMrCubeCounts_column_bases with
  | Some e => forall V nr nc sr sc,
      agrees2 (teval (envC (shape_of CCat CMr nr nc sr sc) V) e) nr nc (column_bases_of V nr sr CCat CMr)
  | None => True
  end.
Proof. gen_agree. Qed.

Lemma gen_CatXMrCubeCounts_table_bases :
  match src_CatXMrCubeCounts_table_bases with
  | Some e => forall V nr nc sr sc,
      agrees2 (teval (envC (shape_of CCat CMr nr nc sr sc) V) e) nr nc (table_bases_of V nr nc sr sc CCat CMr)
  | None => True
  end.
Proof. gen_agree. Qed.

Lemma gen_CatXMrCubeCounts_rows_base :
  match src_CatXMrCubeCounts_rows_base with
  | Some e => forall V nr nc sr sc,
      agrees_opt1 (teval (envC (shape_of CCat CMr nr nc sr sc) V) e) nr (rows_base_of V nc CCat CMr)
  | None => True
  end.
Proof. gen_agree. Qed.

Lemma gen_CatXMrCubeCounts_columns_base :
  match src_CatXMrCubeCounts_columns_base with
  | Some e => forall V nr nc sr sc,
      agrees_opt1 (teval (envC (shape_of CCat CMr nr nc sr sc) V) e) nc (columns_base_of V nr CCat CMr)
  | None => True
  end.
Proof. gen_agree. Qed.

Lemma gen_CatXMrCubeCounts_rows_table_base :
  match src_CatXMrCubeCounts_rows_table_base with
  | Some e => forall V nr nc sr sc,
      agrees_opt1 (teval (envC (shape_of CCat CMr nr nc sr sc) V) e) nr (rows_table_base_of V nr nc sr CCat CMr)
  | None => True
  end.
Proof. gen_agree. Qed.

Lemma gen_CatXMrCubeCounts_columns_table_base :
  match src_CatXMrCubeCounts_columns_table_base with
  | Some e => forall V nr nc sr sc,
      agrees_opt1 (teval (envC (shape_of CCat CMr nr nc sr sc) V) e) nc (columns_table_base_of V nr nc sc CCat CMr)
  | None => True
  end.
Proof. gen_agree. Qed.

Lemma gen_CatXMrCubeCounts_table_base :
  match src_CatXMrCubeCounts_table_base with
  | Some e => forall V nr nc sr sc,
      agrees_opt0 (teval (envC (shape_of CCat CMr nr nc sr sc) V) e) (table_base_of V nr nc CCat CMr)
  | None => True
  end.
Proof. gen_agree. Qed.

Lemma gen_CatXArrCubeCounts_row_bases :
  match src_CatXArrCubeCounts_row_bases with
  | Some e => forall V nr nc sr sc,
      agrees2 (teval (envC (shape_of CCat CArr nr nc sr sc) V) e) nr nc (row_bases_of V nc sc CCat CArr)
  | None => True
  end.
Proof. gen_agree. Qed.

Lemma gen_CatXArrCubeCounts_column_bases :
  match src_CatXArrCubeCounts_column_bases with
  | Some e => forall V nr nc sr sc,
      agrees2 (teval (envC (shape_of CCat CArr nr nc sr sc) V) e) nr nc (column_bases_of V nr sr CCat CArr)
  | None => True
  end.
Proof. gen_agree. Qed.

Lemma gen_CatXArrCubeCounts_table_bases :
  match src_CatXArrCubeCounts_table_bases with
  | Some e => forall V nr nc sr sc,
      agrees2 (teval (envC (shape_of CCat CArr nr nc sr sc) V) e) nr nc (table_bases_of V nr nc sr sc CCat CArr)
  | None => True
  end.
Proof. gen_agree. Qed.

Lemma gen_CatXArrCubeCounts_rows_base :
  match src_CatXArrCubeCounts_rows_base with
  | Some e => forall V nr nc sr sc,
      agrees_opt1 (teval (envC (shape_of CCat CArr nr nc sr sc) V) e) nr (rows_base_of V nc CCat CArr)
  | None => True
  end.
Proof. gen_agree. Qed.

Lemma gen_CatXArrCubeCounts_columns_base :
  match src_CatXArrCubeCounts_columns_base with
  | Some e => forall V nr nc sr sc,
      agrees_opt1 (teval (envC (shape_of CCat CArr nr nc sr sc) V) e) nc (columns_base_of V nr CCat CArr)
  | None => True
  end.
Proof. gen_agree. Qed.

Lemma gen_CatXArrCubeCounts_rows_table_base :
  match src_CatXArrCubeCounts_rows_table_base with
  | Some e => forall V nr nc sr sc,
      agrees_opt1 (teval (envC (shape_of CCat CArr nr nc sr sc) V) e) nr (rows_table_base_of V nr nc sr CCat CArr)
  | None => True
  end.
Proof. gen_agree. Qed.

Lemma gen_CatXArrCubeCounts_columns_table_base :
  match src_CatXArrCubeCounts_columns_table_base with
  | Some e => forall V nr nc sr sc,
      agrees_opt1 (teval (envC (shape_of CCat CArr nr nc sr sc) V) e) nc (columns_table_base_of V nr nc sc CCat CArr)
  | None => True
  end.
Proof. gen_agree. Qed.

Lemma gen_CatXArrCubeCounts_table_base :
  match src_CatXArrCubeCounts_table_base with
  | Some e => forall V nr nc sr sc,
      agrees_opt0 (teval (envC (shape_of CCat CArr nr nc sr sc) V) e) (table_base_of V nr nc CCat CArr)
  | None => True
  end.
Proof. gen_agree. Qed.

Lemma gen_MrXCatCubeCounts_row_bases :
  match src_MrXCatCubeCounts_row_bases with
  | Some e => forall V nr nc sr sc,
      agrees2 (teval (envC (shape_of CMr CCat nr nc sr sc) V) e) nr nc (row_bases_of V nc sc CMr CCat)
  | None => True
  end.
Proof. gen_agree. Qed.

Lemma gen_MrXCatCubeCounts_column_bases :
  match src_MrXCatCubeCounts_column_bases with
  | Some e => forall V nr nc sr sc,
      agrees2 (teval (envC (shape_of CMr CCat nr nc sr sc) V) e) nr nc (column_bases_of V nr sr CMr CCat)
  | None => True
  end.
Proof. gen_agree. Qed.

Lemma gen_MrXCatCubeCounts_table_bases :
  match src_MrXCatCubeCounts_table_bases with
  | Some e => forall V nr nc sr sc,
      agrees2 (teval (envC (shape_of CMr CCat nr nc sr sc) V) e) nr nc (table_bases_of V nr nc sr sc CMr CCat)
  | None => True
  end.
Proof. gen_agree. Qed.

Lemma gen_MrXCatCubeCounts_rows_base :
  match src_MrXCatCubeCounts_rows_base with
  | Some e => forall V nr nc sr sc,
      agrees_opt1 (teval (envC (shape_of CMr CCat nr nc sr sc) V) e) nr (rows_base_of V nc CMr CCat)
  | None => True
  end.
Proof. gen_agree. Qed.

Lemma gen_MrXCatCubeCounts_columns_base :
  match src_MrXCatCubeCounts_columns_base with
  | Some e => forall V nr nc sr sc,
      agrees_opt1 (teval (envC (shape_of CMr CCat nr nc sr sc) V) e) nc (columns_base_of V nr CMr CCat)
  | None => True
  end.
Proof. gen_agree. Qed.

Lemma gen_MrXCatCubeCounts_rows_table_base :
  match src_MrXCatCubeCounts_rows_table_base with
  | Some e => forall V nr nc sr sc,
      agrees_opt1 (teval (envC (shape_of CMr CCat nr nc sr sc) V) e) nr (rows_table_base_of V nr nc sr CMr CCat)
  | None => True
  end.
Proof. gen_agree. Qed.

Lemma gen_MrXCatCubeCounts_columns_table_base :
  match src_MrXCatCubeCounts_columns_table_base with
  | Some e => forall V nr nc sr sc,
      agrees_opt1 (teval (envC (shape_of CMr CCat nr nc sr sc) V) e) nc (columns_table_base_of V nr nc sc CMr CCat)
  | None => True
  end.
Proof. gen_agree. Qed.

Lemma gen_MrXCatCubeCounts_table_base :
  match src_MrXCatCubeCounts_table_base with
  | Some e => forall V nr nc sr sc,
      agrees_opt0 (teval (envC (shape_of CMr CCat nr nc sr sc) V) e) (table_base_of V nr nc CMr CCat)
  | None => True
  end.
Proof. gen_agree. Qed.

Lemma gen_MrXMrCubeCounts_row_bases :
  match src_MrXMrCubeCounts_row_bases with
  | Some e => forall V nr nc sr sc,
      agrees2 (teval (envC (shape_of CMr CMr nr nc sr sc) V) e) nr nc (row_bases_of V nc sc CMr CMr)
  | None => True
  end.
Proof. gen_agree. Qed.

Lemma gen_MrXMrCubeCounts_column_bases :
  match src_MrXMrCubeCounts_column_bases with
  | Some e => forall V nr nc sr sc,
      agrees2 (teval (envC (shape_of CMr CMr nr nc sr sc) V) e) nr nc (column_bases_of V nr sr CMr CMr)
  | None => True
  end.
Proof. gen_agree. Qed.

Lemma gen_MrXMrCubeCounts_table_bases :
  match src_MrXMrCubeCounts_table_bases with
  | Some e => forall V nr nc sr sc,
      agrees2 (teval (envC (shape_of CMr CMr nr nc sr sc) V) e) nr nc (table_bases_of V nr nc sr sc CMr CMr)
  | None => True
  end.
Proof. gen_agree. Qed.

Lemma gen_MrXMrCubeCounts_rows_base :
  match src_MrXMrCubeCounts_rows_base with
  | Some e => forall V nr nc sr sc,
      agrees_opt1 (teval (envC (shape_of CMr CMr nr nc sr sc) V) e) nr (rows_base_of V nc CMr CMr)
  | None => True
  end.
Proof. gen_agree. Qed.

Lemma gen_MrXMrCubeCounts_columns_base :
  match src_MrXMrCubeCounts_columns_base with
  | Some e => forall V nr nc sr sc,
      agrees_opt1 (teval (envC (shape_of CMr CMr nr nc sr sc) V) e) nc (columns_base_of V nr CMr CMr)
  | None => True
  end.
Proof. gen_agree. Qed.

Lemma gen_MrXMrCubeCounts_rows_table_base :
  match src_MrXMrCubeCounts_rows_table_base with
  | Some e => forall V nr nc sr sc,
      agrees_opt1 (teval (envC (shape_of CMr CMr nr nc sr sc) V) e) nr (rows_table_base_of V nr nc sr CMr CMr)
  | None => True
  end.
Proof. gen_agree. Qed.

Lemma gen_MrXMrCubeCounts_columns_table_base :
  match src_MrXMrCubeCounts_columns_table_base with
  | Some e => forall V nr nc sr sc,
      agrees_opt1 (teval (envC (shape_of CMr CMr nr nc sr sc) V) e) nc (columns_table_base_of V nr nc sc CMr CMr)
  | None => True
  end.
Proof. gen_agree. Qed.

Lemma gen_MrXMrCubeCounts_table_base :
  match src_MrXMrCubeCounts_table_base with
  | Some e => forall V nr nc sr sc,
      agrees_opt0 (teval (envC (shape_of CMr CMr nr nc sr sc) V) e) (table_base_of V nr nc CMr CMr)
  | None => True
  end.
Proof. gen_agree. Qed.

Lemma gen_MrXArrCubeCounts_row_bases :
  match src_MrXArrCubeCounts_row_bases with
  | Some e => forall V nr nc sr sc,
      agrees2 (teval (envC (shape_of CMr CArr nr nc sr sc) V) e) nr nc (row_bases_of V nc sc CMr CArr)
  | None => True
  end.
Proof. gen_agree. Qed.

Lemma gen_MrXArrCubeCounts_column_bases :
  match src_MrXArrCubeCounts_column_bases with
  | Some e => forall V nr nc sr sc,
      agrees2 (teval (envC (shape_of CMr CArr nr nc sr sc) V) e) nr nc (column_bases_of V nr sr CMr CArr)
  | None => True
  end.
Proof. gen_agree. Qed.

Lemma gen_MrXArrCubeCounts_table_bases :
  match src_MrXArrCubeCounts_table_bases with
  | Some e => forall V nr nc sr sc,
      agrees2 (teval (envC (shape_of CMr CArr nr nc sr sc) V) e) nr nc (table_bases_of V nr nc sr sc CMr CArr)
  | None => True
  end.
Proof. gen_agree. Qed.

Lemma gen_MrXArrCubeCounts_rows_base :
  match src_MrXArrCubeCounts_rows_base with
  | Some e => forall V nr nc sr sc,
      agrees_opt1 (teval (envC (shape_of CMr CArr nr nc sr sc) V) e) nr (rows_base_of V nc CMr CArr)
  | None => True
  end.
Proof. gen_agree. Qed.

Lemma gen_MrXArrCubeCounts_columns_base :
  match src_MrXArrCubeCounts_columns_base with
  | Some e => forall V nr nc sr sc,
      agrees_opt1 (teval (envC (shape_of CMr CArr nr nc sr sc) V) e) nc (columns_base_of V nr CMr CArr)
  | None => True
  end.
Proof. gen_agree. Qed.

Lemma gen_MrXArrCubeCounts_rows_table_base :
  match src_MrXArrCubeCounts_rows_table_base with
  | Some e => forall V nr nc sr sc,
      agrees_opt1 (teval (envC (shape_of CMr CArr nr nc sr sc) V) e) nr (rows_table_base_of V nr nc sr CMr CArr)
  | None => True
  end.
Proof. gen_agree. Qed.

Lemma gen_MrXArrCubeCounts_columns_table_base :
  match src_MrXArrCubeCounts_columns_table_base with
  | Some e => forall V nr nc sr sc,
      agrees_opt1 (teval (envC (shape_of CMr CArr nr nc sr sc) V) e) nc (columns_table_base_of V nr nc sc CMr CArr)
  | None => True
  end.
Proof. gen_agree. Qed.

Lemma gen_MrXArrCubeCounts_table_base :
  match src_MrXArrCubeCounts_table_base with
  | Some e => forall V nr nc sr sc,
      agrees_opt0 (teval (envC (shape_of CMr CArr nr nc sr sc) V) e) (table_base_of V nr nc CMr CArr)
  | None => True
  end.
Proof. gen_agree. Qed.

Lemma gen_ArrXCatCubeCounts_row_bases :
  match src_ArrXCatCubeCounts_row_bases with
  | Some e => forall V nr nc sr sc,
      agrees2 (teval (envC (shape_of CArr CCat nr nc sr sc) V) e) nr nc (row_bases_of V nc sc CArr CCat)
  | None => True
  end.
Proof. gen_agree. Qed.

Lemma gen_ArrXCatCubeCounts_column_bases :
  match src_ArrXCatCubeCounts_column_bases with
  | Some e => forall V nr nc sr sc,
      agrees2 (teval (envC (shape_of CArr CCat nr nc sr sc) V) e) nr nc (column_bases_of V nr sr CArr CCat)
  | None => True
  end.
Proof. gen_agree. Qed.

Lemma gen_ArrXCatCubeCounts_table_bases :
  match src_ArrXCatCubeCounts_table_bases with
  | Some e => forall V nr nc sr sc,
      agrees2 (teval (envC (shape_of CArr CCat nr nc sr sc) V) e) nr nc (table_bases_of V nr nc sr sc CArr CCat)
  | None => True
  end.
Proof. gen_agree. Qed.

Lemma gen_ArrXCatCubeCounts_rows_base :
  match src_ArrXCatCubeCounts_rows_base with
  | Some e => forall V nr nc sr sc,
      agrees_opt1 (teval (envC (shape_of CArr CCat nr nc sr sc) V) e) nr (rows_base_of V nc CArr CCat)
  | None => True
  end.
Proof. gen_agree. Qed.

Lemma gen_ArrXCatCubeCounts_columns_base :
  match src_ArrXCatCubeCounts_columns_base with
  | Some e => forall V nr nc sr sc,
      agrees_opt1 (teval (envC (shape_of CArr CCat nr nc sr sc) V) e) nc (columns_base_of V nr CArr CCat)
  | None => True
  end.
Proof. gen_agree. Qed.

Lemma gen_ArrXCatCubeCounts_rows_table_base :
  match src_ArrXCatCubeCounts_rows_table_base with
  | Some e => forall V nr nc sr sc,
      agrees_opt1 (teval (envC (shape_of CArr CCat nr nc sr sc) V) e) nr (rows_table_base_of V nr nc sr CArr CCat)
  | None => True
  end.
Proof. gen_agree. Qed.

Lemma gen_ArrXCatCubeCounts_columns_table_base :
  match src_ArrXCatCubeCounts_columns_table_base with
  | Some e => forall V nr nc sr sc,
      agrees_opt1 (teval (envC (shape_of CArr CCat nr nc sr sc) V) e) nc (columns_table_base_of V nr nc sc CArr CCat)
  | None => True
  end.
Proof. gen_agree. Qed.

Lemma gen_ArrXCatCubeCounts_table_base :
  match src_ArrXCatCubeCounts_table_base with
  | Some e => forall V nr nc sr sc,
      agrees_opt0 (teval (envC (shape_of CArr CCat nr nc sr sc) V) e) (table_base_of V nr nc CArr CCat)
  | None => True
  end.
Proof. gen_agree. Qed.

Lemma gen_ArrXMrCubeCounts_row_bases :
  match src_ArrXMrCubeCounts_row_bases with
  | Some e => forall V nr nc sr sc,
      agrees2 (teval (envC (shape_of CArr CMr nr nc sr sc) V) e) nr nc (row_bases_of V nc sc CArr CMr)
  | None => True
  end.
Proof. gen_agree. Qed.

Lemma gen_ArrXMrCubeCounts_column_bases :
  match src_ArrXMrCubeCounts_column_bases with
  | Some e => forall V nr nc sr sc,
      agrees2 (teval (envC (shape_of CArr CMr nr nc sr sc) V) e) nr nc (column_bases_of V nr sr CArr CMr)
  | None => True
  end.
Proof. gen_agree. Qed.

Lemma gen_ArrXMrCubeCounts_table_bases :
  match src_ArrXMrCubeCounts_table_bases with
  | Some e => forall V nr nc sr sc,
      agrees2 (teval (envC (shape_of CArr CMr nr nc sr sc) V) e) nr nc (table_bases_of V nr nc sr sc CArr CMr)
  | None => True
  end.
Proof. gen_agree. Qed.

Lemma gen_ArrXMrCubeCounts_rows_base :
  match src_ArrXMrCubeCounts_rows_base with
  | Some e => forall V nr nc sr sc,
      agrees_opt1 (teval (envC (shape_of CArr CMr nr nc sr sc) V) e) nr (rows_base_of V nc CArr CMr)
  | None => True
  end.
Proof. gen_agree. Qed.

Lemma gen_ArrXMrCubeCounts_columns_base :
  match src_ArrXMrCubeCounts_columns_base with
  | Some e => forall V nr nc sr sc,
      agrees_opt1 (teval (envC (shape_of CArr CMr nr nc sr sc) V) e) nc (columns_base_of V nr CArr CMr)
  | None => True
  end.
Proof. gen_agree. Qed.

Lemma gen_ArrXMrCubeCounts_rows_table_base :
  match src_ArrXMrCubeCounts_rows_table_base with
  | Some e => forall V nr nc sr sc,
      agrees_opt1 (teval (envC (shape_of CArr CMr nr nc sr sc) V) e) nr (rows_table_base_of V nr nc sr CArr CMr)
  | None => True
  end.
Proof. gen_agree. Qed.

Lemma gen_ArrXMrCubeCounts_columns_table_base :
  match src_ArrXMrCubeCounts_columns_table_base with
  | Some e => forall V nr nc sr sc,
      agrees_opt1 (teval (envC (shape_of CArr CMr nr nc sr sc) V) e) nc (columns_table_base_of V nr nc sc CArr CMr)
  | None => True
  end.
Proof. gen_agree. Qed.

Lemma gen_ArrXMrCubeCounts_table_base :
  match src_ArrXMrCubeCounts_table_base with
  | Some e => forall V nr nc sr sc,
      agrees_opt0 (teval (envC (shape_of CArr CMr nr nc sr sc) V) e) (table_base_of V nr nc CArr CMr)
  | None => True
  end.
Proof. gen_agree. Qed.

Lemma gen_ArrXArrCubeCounts_row_bases :
  match src_ArrXArrCubeCounts_row_bases with
  | Some e => forall V nr nc sr sc,
      agrees2 (teval (envC (shape_of CArr CArr nr nc sr sc) V) e) nr nc (row_bases_of V nc sc CArr CArr)
  | None => True
  end.
Proof. gen_agree. Qed.

Lemma gen_ArrXArrCubeCounts_column_bases :
  match src_ArrXArrCubeCounts_column_bases with
  | Some e => forall V nr nc sr sc,
      agrees2 (teval (envC (shape_of CArr CArr nr nc sr sc) V) e) nr nc (column_bases_of V nr sr CArr CArr)
  | None => True
  end.
Proof. gen_agree. Qed.

Lemma gen_ArrXArrCubeCounts_table_bases :
  match src_ArrXArrCubeCounts_table_bases with
  | Some e => forall V nr nc sr sc,
      agrees2 (teval (envC (shape_of CArr CArr nr nc sr sc) V) e) nr nc (table_bases_of V nr nc sr sc CArr CArr)
  | None => True
  end.
Proof. gen_agree. Qed.

Lemma gen_ArrXArrCubeCounts_rows_base :
  match src_ArrXArrCubeCounts_rows_base with
  | Some e => forall V nr nc sr sc,
      agrees_opt1 (teval (envC (shape_of CArr CArr nr nc sr sc) V) e) nr (rows_base_of V nc CArr CArr)
  | None => True
  end.
Proof. gen_agree. Qed.

Lemma gen_ArrXArrCubeCounts_columns_base :
  match src_ArrXArrCubeCounts_columns_base with
  | Some e => forall V nr nc sr sc,
      agrees_opt1 (teval (envC (shape_of CArr CArr nr nc sr sc) V) e) nc (columns_base_of V nr CArr CArr)
  | None => True
  end.
Proof. gen_agree. Qed.

Lemma gen_ArrXArrCubeCounts_rows_table_base :
  match src_ArrXArrCubeCounts_rows_table_base with
  | Some e => forall V nr nc sr sc,
      agrees_opt1 (teval (envC (shape_of CArr CArr nr nc sr sc) V) e) nr (rows_table_base_of V nr nc sr CArr CArr)
  | None => True
  end.
Proof. gen_agree. Qed.

Lemma gen_ArrXArrCubeCounts_columns_table_base :
  match src_ArrXArrCubeCounts_columns_table_base with
  | Some e => forall V nr nc sr sc,
      agrees_opt1 (teval (envC (shape_of CArr CArr nr nc sr sc) V) e) nc (columns_table_base_of V nr nc sc CArr CArr)
  | None => True
  end.
Proof. gen_agree. Qed.

Lemma gen_ArrXArrCubeCounts_table_base :
  match src_ArrXArrCubeCounts_table_base with
  | Some e => forall V nr nc sr sc,
      agrees_opt0 (teval (envC (shape_of CArr CArr nr nc sr sc) V) e) (table_base_of V nr nc CArr CArr)
  | None => True
  end.
Proof. gen_agree. Qed.

Lemma gen_dispatch_row_bases :
  match src_CubeCounts_dispatch with
  | Some D => forall rc cc,
      meth src_methods (dict_pick (tag rc, tag cc) (fst D) (snd D)) "row_bases"
        (fun e => forall V nr nc sr sc,
           agrees2 (teval (envC (shape_of rc cc nr nc sr sc) V) e) nr nc (row_bases_of V nc sc rc cc))
  | None => True
  end.
Proof.
  dispatch9 src_CubeCounts_dispatch
    gen_CatXCatCubeCounts_row_bases gen_CatXMrCubeCounts_row_bases gen_CatXArrCubeCounts_row_bases
    gen_MrXCatCubeCounts_row_bases gen_MrXMrCubeCounts_row_bases gen_MrXArrCubeCounts_row_bases
    gen_ArrXCatCubeCounts_row_bases gen_ArrXMrCubeCounts_row_bases gen_ArrXArrCubeCounts_row_bases.
Qed.

Lemma gen_dispatch_column_bases :
  match src_CubeCounts_dispatch with
  | Some D => forall rc cc,
      meth src_methods (dict_pick (tag rc, tag cc) (fst D) (snd D)) "column_bases"
        (fun e => forall V nr nc sr sc,
           agrees2 (teval (envC (shape_of rc cc nr nc sr sc) V) e) nr nc (column_bases_of V nr sr rc cc))
  | None => True
  end.
Proof.
  dispatch9 src_CubeCounts_dispatch
    gen_CatXCatCubeCounts_column_bases gen_CatXMrCubeCounts_column_bases gen_CatXArrCubeCounts_column_bases
    gen_MrXCatCubeCounts_column_bases gen_MrXMrCubeCounts_column_bases gen_MrXArrCubeCounts_column_bases
    gen_ArrXCatCubeCounts_column_bases gen_ArrXMrCubeCounts_column_bases gen_ArrXArrCubeCounts_column_bases.
Qed.

Lemma gen_dispatch_table_bases :
  match src_CubeCounts_dispatch with
  | Some D => forall rc cc,
      meth src_methods (dict_pick (tag rc, tag cc) (fst D) (snd D)) "table_bases"
        (fun e => forall V nr nc sr sc,
           agrees2 (teval (envC (shape_of rc cc nr nc sr sc) V) e) nr nc (table_bases_of V nr nc sr sc rc cc))
  | None => True
  end.
Proof.
  dispatch9 src_CubeCounts_dispatch
    gen_CatXCatCubeCounts_table_bases gen_CatXMrCubeCounts_table_bases gen_CatXArrCubeCounts_table_bases
    gen_MrXCatCubeCounts_table_bases gen_MrXMrCubeCounts_table_bases gen_MrXArrCubeCounts_table_bases
    gen_ArrXCatCubeCounts_table_bases gen_ArrXMrCubeCounts_table_bases gen_ArrXArrCubeCounts_table_bases.
Qed.

Lemma gen_dispatch_rows_base :
  match src_CubeCounts_dispatch with
  | Some D => forall rc cc,
      meth src_methods (dict_pick (tag rc, tag cc) (fst D) (snd D)) "rows_base"
        (fun e => forall V nr nc sr sc,
           agrees_opt1 (teval (envC (shape_of rc cc nr nc sr sc) V) e) nr (rows_base_of V nc rc cc))
  | None => True
  end.
Proof.
  dispatch9 src_CubeCounts_dispatch
    gen_CatXCatCubeCounts_rows_base gen_CatXMrCubeCounts_rows_base gen_CatXArrCubeCounts_rows_base
    gen_MrXCatCubeCounts_rows_base gen_MrXMrCubeCounts_rows_base gen_MrXArrCubeCounts_rows_base
    gen_ArrXCatCubeCounts_rows_base gen_ArrXMrCubeCounts_rows_base gen_ArrXArrCubeCounts_rows_base.
Qed.

Lemma gen_dispatch_columns_base :
  match src_CubeCounts_dispatch with
  | Some D => forall rc cc,
      meth src_methods (dict_pick (tag rc, tag cc) (fst D) (snd D)) "columns_base"
        (fun e => forall V nr nc sr sc,
           agrees_opt1 (teval (envC (shape_of rc cc nr nc sr sc) V) e) nc (columns_base_of V nr rc cc))
  | None => True
  end.
Proof.
  dispatch9 src_CubeCounts_dispatch
    gen_CatXCatCubeCounts_columns_base gen_CatXMrCubeCounts_columns_base gen_CatXArrCubeCounts_columns_base
    gen_MrXCatCubeCounts_columns_base gen_MrXMrCubeCounts_columns_base gen_MrXArrCubeCounts_columns_base
    gen_ArrXCatCubeCounts_columns_base gen_ArrXMrCubeCounts_columns_base gen_ArrXArrCubeCounts_columns_base.
Qed.

Lemma gen_dispatch_rows_table_base :
  match src_CubeCounts_dispatch with
  | Some D => forall rc cc,
      meth src_methods (dict_pick (tag rc, tag cc) (fst D) (snd D)) "rows_table_base"
        (fun e => forall V nr nc sr sc,
           agrees_opt1 (teval (envC (shape_of rc cc nr nc sr sc) V) e) nr (rows_table_base_of V nr nc sr rc cc))
  | None => True
  end.
Proof.
  dispatch9 src_CubeCounts_dispatch
    gen_CatXCatCubeCounts_rows_table_base gen_CatXMrCubeCounts_rows_table_base gen_CatXArrCubeCounts_rows_table_base
    gen_MrXCatCubeCounts_rows_table_base gen_MrXMrCubeCounts_rows_table_base gen_MrXArrCubeCounts_rows_table_base
    gen_ArrXCatCubeCounts_rows_table_base gen_ArrXMrCubeCounts_rows_table_base gen_ArrXArrCubeCounts_rows_table_base.
Qed.

Lemma gen_dispatch_columns_table_base :
  match src_CubeCounts_dispatch with
  | Some D => forall rc cc,
      meth src_methods (dict_pick (tag rc, tag cc) (fst D) (snd D)) "columns_table_base"
        (fun e => forall V nr nc sr sc,
           agrees_opt1 (teval (envC (shape_of rc cc nr nc sr sc) V) e) nc (columns_table_base_of V nr nc sc rc cc))
  | None => True
  end.
Proof.
  dispatch9 src_CubeCounts_dispatch
    gen_CatXCatCubeCounts_columns_table_base gen_CatXMrCubeCounts_columns_table_base gen_CatXArrCubeCounts_columns_table_base
    gen_MrXCatCubeCounts_columns_table_base gen_MrXMrCubeCounts_columns_table_base gen_MrXArrCubeCounts_columns_table_base
    gen_ArrXCatCubeCounts_columns_table_base gen_ArrXMrCubeCounts_columns_table_base gen_ArrXArrCubeCounts_columns_table_base.
Qed.

Lemma gen_dispatch_table_base :
  match src_CubeCounts_dispatch with
  | Some D => forall rc cc,
      meth src_methods (dict_pick (tag rc, tag cc) (fst D) (snd D)) "table_base"
        (fun e => forall V nr nc sr sc,
           agrees_opt0 (teval (envC (shape_of rc cc nr nc sr sc) V) e) (table_base_of V nr nc rc cc))
  | None => True
  end.
Proof.
  dispatch9 src_CubeCounts_dispatch
    gen_CatXCatCubeCounts_table_base gen_CatXMrCubeCounts_table_base gen_CatXArrCubeCounts_table_base
    gen_MrXCatCubeCounts_table_base gen_MrXMrCubeCounts_table_base gen_MrXArrCubeCounts_table_base
    gen_ArrXCatCubeCounts_table_base gen_ArrXMrCubeCounts_table_base gen_ArrXArrCubeCounts_table_base.
Qed.

Lemma gen_stripe_CatCubeCounts_bases :
  match ssrc_CatCubeCounts_bases with
  | Some e => forall V n s, agrees1 (teval (envS [n] V) e) n (stripe_bases V n s CCat)
  | None => True
  end.
Proof. gen_agree. Qed.

Lemma gen_stripe_CatCubeCounts_table_base :
  match ssrc_CatCubeCounts_table_base with
  | Some e => forall V n, agrees0 (teval (envS [n] V) e) (sc_table_base V n)
  | None => True
  end.
Proof. gen_agree. Qed.

Lemma gen_stripe_MrCubeCounts_bases :
  match ssrc_MrCubeCounts_bases with
  | Some e => forall V n s, agrees1 (teval (envS [n; s] V) e) n (stripe_bases V n s CMr)
  | None => True
  end.
Proof. gen_agree. Qed.

Lemma gen_stripe_MrCubeCounts_table_base :
  match ssrc_MrCubeCounts_table_base with
  | Some e => forall V n s, agrees_none (teval (envS [n; s] V) e)
  | None => True
  end.
Proof. gen_agree. Qed.

Lemma gen_stripe_NumArrCubeCounts_bases :
  match ssrc_NumArrCubeCounts_bases with
  | Some e => forall V n s, agrees1 (teval (envS [n] V) e) n (stripe_bases V n s CArr)
  | None => True
  end.
Proof. gen_agree. Qed.

Lemma gen_stripe_NumArrCubeCounts_table_base :
  match ssrc_NumArrCubeCounts_table_base with
  | Some e => forall V n, agrees_none (teval (envS [n] V) e)
  | None => True
  end.
Proof. gen_agree. Qed.

