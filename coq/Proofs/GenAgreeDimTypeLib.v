(* GenAgreeDimTypeLib: what the agreement proofs of the dimtype translator (harness/translate/x_dimtype.py,
   Proofs/GenAgreeDimType*.v) share: the reduction tactic, reads of a JSON dict by a string key in the form
   Model/DimValues.v uses ([jget]). *)
From Coq Require Import List ZArith String Bool Lia Arith.
From CC Require Import Base.XQ Base.Ident Base.PyList Base.PyDict Model.DimType Model.PyDimension Model.PyDimType
  Model.DimValues  Gen.DimensionSrc Gen.DimTypeSrc Proofs.GenAgreeDimensionLib.
Import ListNotations.
Local Close Scope Q_scope.
Local Open Scope Z_scope.
Local Open Scope string_scope.

Ltac dsimpl := cbn [Collator.bind of_option el_element_dict el_index el_element_transforms el_dim_type
                    xf_element_transforms_dict dm_dimension_type dm_dimension_dict dm_dimension_transforms_dict
                    st_subtotal_dict st_valid_elements negb].

Lemma Forall2_len {A B} (R : A -> B -> Prop) l l' : Forall2 R l l' -> List.length l = List.length l'.
Proof. induction 1; simpl; [reflexivity | congruence]. Qed.

Lemma jget_default d k dflt : jd_get_default d (JStr k) dflt = match jget d k with Some v => v | None => dflt end.
Proof. reflexivity. Qed.

Lemma pj_contains_dict d k : pj_contains (JStr k) (JDict d) = Ok (match jget d k with Some _ => true | None => false end).
Proof. unfold pj_contains, jd_mem, jget, jd_get, py_dict_mem. cbn [jv_hashable]. destruct (py_dict_get jv_eqb d (JStr k)); reflexivity. Qed.

Lemma pj_getitem_jget d k : pj_getitem (JDict d) (JStr k) = of_option KeyError (jget d k).
Proof. reflexivity. Qed.


Lemma pj_get_dict d k dflt : pj_get (JDict d) (JStr k) dflt = Ok (jd_get_default d (JStr k) dflt).
Proof. reflexivity. Qed.

Definition el_is_dict (el : pyelement) : Prop := exists e, el_element_dict el = JDict e.

(* Dimension.alias (read by Dimensions.from_dicts, C01, and a label output, C05) *)
(*@ C01 C05 *)
Lemma gen_dimtype_Dimension_alias :
  match src_Dimension_alias with
  | Some f => forall t dd tr refs, jget dd "references" = Some (JDict refs) ->
      f (mkPyDimension t (JDict dd) tr) = Ok (dimension_alias refs)
  | None => True end.
Proof.
  unfold src_Dimension_alias.
  first [exact I | idtac].
  all: gen_open; dsimpl; rewrite pj_getitem_jget.
  all: match goal with Hr : jget _ _ = Some _ |- _ => rewrite Hr end; dsimpl.
  all: rewrite pj_get_dict; reflexivity.
Qed.

