(* Proofs/GenAgreeScaleDisplay.v -- GenAgree tie of cubepart.py::_Slice._rows_/_columns_dimension_numeric_values,
   _rows_/_columns_have_numeric_value and _columns_scale_mean_variance to Model/ScaleDisplay.v (property C14).
   Leaves: `<dimension>.valid_elements[*].numeric_value` (the per-element attribute as one array, NaN = none),
   the signed display order `_row_/_column_order_signed_indexes` (a list of ints; every non-negative entry
   must be a valid element offset), the assembled `counts`, `columns_scale_mean`. *)
From Coq Require Import QArith ZArith List Bool Lia Arith String ZifyBool Setoid Morphisms.
From CC Require Import Base.XQ Base.ListX Base.VecExp Model.Scale Model.ScaleDisplay
     Proofs.GenAgreeVecTac Proofs.GenAgreeScaleTac Proofs.GenAgreeScaleStrand Proofs.GenAgreeScaleMargin
     Gen.PartScaleSrc.
Import ListNotations.
Local Close Scope Q_scope.
Local Open Scope string_scope.
Local Open Scope nat_scope.

Definition order_ok (n : nat) (order : list Z) : Prop := Forall (fun z => (z < Z.of_nat n)%Z) order.

Definition disp_attrs (rvals cvals : list xq) (rorder corder : list Z) (rest : list (string * vval))
  : list (string * vval) :=
  ("_dimensions[0].valid_elements[*].numeric_value", VV rvals)
  :: ("_dimensions[1].valid_elements[*].numeric_value", VV cvals)
  :: ("_row_order_signed_indexes", VL (map VZ rorder))
  :: ("_column_order_signed_indexes", VL (map VZ corder)) :: rest.

(* the comprehension over the signed order *)
Definition disp_item (vals : list xq) (x : vval) : vval :=
  v_if (v_cmp CGe x (VZ 0)) (v_item (VV vals) x) (VS NaN).

Lemma disp_item_ok vals z : (z < Z.of_nat (List.length vals))%Z ->
  disp_item vals (VZ z) = VS (if (0 <=? z)%Z then vnth vals (Z.to_nat z) else NaN).
Proof.
  intros Hz. unfold disp_item. cbn [v_cmp cmp_z]. destruct (0 <=? z)%Z eqn:E.
  - rewrite v_if_true. unfold v_item, zidx. rewrite E. replace (z <? Z.of_nat (List.length vals))%Z with true by lia.
    reflexivity.
  - apply v_if_false.
Qed.

Lemma display_values_length' vals order : List.length (display_values vals order) = List.length order.
Proof. unfold display_values. apply map_length. Qed.

Lemma has_err_VS (l : list xq) : has_err (map VS l) = false.
Proof. induction l; simpl; auto. Qed.
Lemma opt_all_scal_VS' l : opt_all (map scal_of (map VS l)) = Some l.
Proof. induction l as [|a t IH]; simpl; [reflexivity|]. rewrite IH. reflexivity. Qed.

Lemma disp_array_ok vals order : order_ok (List.length vals) order ->
  v_array (v_for (disp_item vals) (VL (map VZ order))) = VV (display_values vals order).
Proof.
  intros Hok. unfold v_for. cbn [items_of].
  assert (E : map (disp_item vals) (map VZ order) = map VS (display_values vals order)).
  { unfold display_values. rewrite !map_map. apply map_ext_in. intros z Hz.
    unfold order_ok in Hok. rewrite Forall_forall in Hok. apply disp_item_ok. apply Hok. exact Hz. }
  rewrite E. unfold v_list. rewrite has_err_VS. unfold v_array. rewrite opt_all_scal_VS'. reflexivity.
Qed.

Ltac disp_env := unfold env_part, disp_attrs.
(* after [vstage1]: recognise the comprehension's body as [disp_item] and evaluate it *)
Ltac disp_fold vals Hok :=
  repeat match goal with |- context [v_for ?F (VL (map VZ ?o))] =>
    lazymatch F with
    | disp_item _ => fail
    | _ => change F with (disp_item vals)
    end end;
  rewrite !(disp_array_ok vals _ Hok).

Lemma gen_Slice__rows_dimension_numeric_values :
  match vpsrc_Slice__rows_dimension_numeric_values with
  | Some e => forall rvals cvals rorder corder rest srt, order_ok (List.length rvals) rorder ->
      veval (env_part (disp_attrs rvals cvals rorder corder rest) srt) e = VV (display_values rvals rorder)
  | None => True
  end.
Proof.
  unfold_vsrcs; try exact I.
  all: intros rvals cvals rorder corder rest srt Hok; disp_env; vstage1; disp_fold rvals Hok; reflexivity.
Qed.

Lemma gen_Slice__columns_dimension_numeric_values :
  match vpsrc_Slice__columns_dimension_numeric_values with
  | Some e => forall rvals cvals rorder corder rest srt, order_ok (List.length cvals) corder ->
      veval (env_part (disp_attrs rvals cvals rorder corder rest) srt) e = VV (display_values cvals corder)
  | None => True
  end.
Proof.
  unfold_vsrcs; try exact I.
  all: intros rvals cvals rorder corder rest srt Hok; disp_env; vstage1; disp_fold cvals Hok; reflexivity.
Qed.

Lemma gen_Slice__rows_have_numeric_value :
  match vpsrc_Slice__rows_have_numeric_value with
  | Some e => forall rvals cvals rorder corder rest srt, order_ok (List.length rvals) rorder ->
      veval (env_part (disp_attrs rvals cvals rorder corder rest) srt) e = VB (display_have_value rvals rorder)
  | None => True
  end.
Proof.
  unfold_vsrcs; try exact I.
  all: intros rvals cvals rorder corder rest srt Hok; disp_env; vstage1; disp_fold rvals Hok;
    unfold display_have_value; vrun; rewrite all_isnan_any_value, negb_involutive; reflexivity.
Qed.

Lemma gen_Slice__columns_have_numeric_value :
  match vpsrc_Slice__columns_have_numeric_value with
  | Some e => forall rvals cvals rorder corder rest srt, order_ok (List.length cvals) corder ->
      veval (env_part (disp_attrs rvals cvals rorder corder rest) srt) e = VB (display_have_value cvals corder)
  | None => True
  end.
Proof.
  unfold_vsrcs; try exact I.
  all: intros rvals cvals rorder corder rest srt Hok; disp_env; vstage1; disp_fold cvals Hok;
    unfold display_have_value; vrun; rewrite all_isnan_any_value, negb_involutive; reflexivity.
Qed.

Definition opt_vec (o : option (list xq)) : vval := match o with None => VNone | Some l => VV l end.

(* the assembled counts have one row per entry of the display order *)
Lemma gen_Slice__columns_scale_mean_variance :
  match vpsrc_Slice__columns_scale_mean_variance with
  | Some e => forall nc counts means rvals cvals rorder corder srt,
      order_ok (List.length rvals) rorder -> wf_mat nc counts ->
      List.length counts = List.length rorder -> List.length means = nc -> 0 < nc ->
      veval (env_part (disp_attrs rvals cvals rorder corder
                         [("counts", VM nc counts); ("columns_scale_mean", VV means)]) srt) e
      = opt_vec (display_scale_variance nc counts (display_values rvals rorder) means)
  | None => True
  end.
Proof.
  unfold_vsrcs; try exact I.
  all: intros nc counts means rvals cvals rorder corder srt Hok HC HL Hm Hnc.
  all: disp_env; vstage1; disp_fold rvals Hok.
  all: unfold display_scale_variance.
  all: pose proof (display_values_length' rvals rorder) as Hdl.
  all: set (dvals := display_values rvals rorder) in *.
  all: pose proof (mask_take_length dvals (map negb (map is_nan dvals)) ltac:(vnorm; reflexivity)) as Hmt.
  all: pose proof (mask_take_length counts (map negb (map is_nan dvals)) ltac:(vnorm; lia)) as HmC.
  all: vrun.
  all: rewrite all_isnan_any_value.
  all: destruct (any_value dvals); cbn [negb]; cbv iota; [|reflexivity].
  all: vsplit.
  all: rewrite ?Nat2Z.id.
  all: rewrite cols_var_list_raw by (assumption || lia).
  all: reflexivity.
Qed.
