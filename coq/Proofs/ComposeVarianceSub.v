(* Proofs/ComposeVarianceSub.v -- C11 END TO END for INSERTED ROWS (subtotals and differences).

   A row subtotal s of a slice with categorical rows (addend offsets [s_add s], subtrahend offsets
   [s_sub s]: valid rows, each listed once, no row on both sides -- what Model/SubtotalIds.v
   resolves for disjoint id lists), columns categorical or MR, 2-D or a 3-D partition.  Computed
   from the blocks the model extracts from the tabulation of a survey, the model's variance of the
   inserted row's COLUMN and TABLE proportion (the three-term formula over the Positive / Negative
   term blocks) is the weighted variance of

        X_r = +1 if r answered an addend row, -1 if r answered a subtrahend row, 0 otherwise

   over the respondents of the proportion's base (column j and any valid row / eligible for both):
   [marks3 S K A B].  It equals (Np + Nn)/Nt - p^2, is non-negative, NaN exactly when the base is
   empty.  For a subtotal WITHOUT subtrahends the ROW direction is covered as well (base = the
   addend rows' respondents eligible for the column).  Differences in their own (row) direction
   have a NaN base (C04) and are not a variance of anything.
   Hypotheses [dn && has_subs = false], [rd && has_subs = false]: the response carries no valid
   counts (else a difference's count is NaN) and the rows dimension is not categorical-date (else a
   difference's proportion follows the wave rule). *)
From Coq Require Import QArith ZArith List Bool Lia Arith Setoid Morphisms Btauto.
From CC Require Import Base.XQ Base.ListX Spec.Survey Spec.Merge Model.CubeCounts Model.Subtotals
     Model.Proportions Model.Variance Proofs.CubeCountsProofs Proofs.ProportionsProofs
     Proofs.VarianceProofs Proofs.MergeSum Proofs.MergeSurvey Proofs.MergeMeasures
     Proofs.ComposeBase Proofs.ComposeProportions Proofs.ComposeVariance.
Import ListNotations.
Local Close Scope Q_scope.
Local Open Scope nat_scope.

(* ------------------------------------------------------------------------------------ *)
(** * respondent list with a positive and a negative set *)

Definition marks3 (S : survey) (K A B : Survey.resp -> bool) : list VarianceProofs.resp :=
  map (fun r => (weight r, if A r then Pos else if B r then Neg else Zero)) (filter K S).

Lemma marks3_w_tot S K A B : (w_tot (marks3 S K A B) == wsum S K)%Q.
Proof.
  unfold w_tot, marks3, wsum. induction S as [|r S IH]; [reflexivity|].
  cbn [filter gsum fold_right]. fold (gsum S (fun r => ind (K r))).
  destruct (K r); cbn [map wsum_if ind]; rewrite IH; ring.
Qed.

Lemma marks3_w_pos S K A B : (w_pos (marks3 S K A B) == wsum S (fun r => K r && A r))%Q.
Proof.
  unfold w_pos, marks3, wsum. induction S as [|r S IH]; [reflexivity|].
  cbn [filter gsum fold_right]. fold (gsum S (fun r => ind (K r && A r))).
  destruct (K r); cbn [map wsum_if andb ind].
  - destruct (A r); [|destruct (B r)]; cbn [ind]; rewrite IH; ring.
  - rewrite IH. ring.
Qed.

Lemma marks3_w_neg S K A B : (w_neg (marks3 S K A B) == wsum S (fun r => K r && (negb (A r) && B r)))%Q.
Proof.
  unfold w_neg, marks3, wsum. induction S as [|r S IH]; [reflexivity|].
  cbn [filter gsum fold_right]. fold (gsum S (fun r => ind (K r && (negb (A r) && B r)))).
  destruct (K r); cbn [map wsum_if andb ind].
  - destruct (A r); [|destruct (B r)]; cbn [negb andb ind]; rewrite IH; ring.
  - rewrite IH. ring.
Qed.

Lemma marks3_weights_nonneg S K A B : wf_survey S ->
  forall w m, In (w, m) (marks3 S K A B) -> (0 <= w)%Q.
Proof.
  intros Hwf w m Hin. unfold marks3 in Hin. apply in_map_iff in Hin.
  destruct Hin as [r [E Hr]]. injection E as Ew _. subst w.
  apply filter_In in Hr. destruct Hr as [Hr _].
  unfold wf_survey in Hwf. rewrite Forall_forall in Hwf. apply Hwf. exact Hr.
Qed.

Definition var3_spec (x : xq) (l : list VarianceProofs.resp) (np nn b : Q) : Prop :=
  match x with
  | NaN => (b == 0)%Q
  | Fin v => ~ (b == 0)%Q /\ (v == spec_var l)%Q /\
             (v == (np + nn) / b - ((np - nn) / b) * ((np - nn) / b))%Q /\ (0 <= v)%Q
  | Inf _ => False
  end.

Section Generic3.
  Variable S : survey.
  Variables K A B : Survey.resp -> bool.
  Hypothesis Hwf : wf_survey S.
  Hypothesis HA : forall r, In r S -> A r = true -> K r = true.
  Hypothesis HB : forall r, In r S -> B r = true -> K r = true.
  Hypothesis Hdisj : forall r, In r S -> A r && B r = false.
  Let np := wsum S A.
  Let nn := wsum S B.
  Let b := wsum S K.
  Let l := marks3 S K A B.

  Lemma l3_tot : (w_tot l == b)%Q. Proof. apply marks3_w_tot. Qed.
  Lemma l3_pos : (w_pos l == np)%Q.
  Proof. unfold l. rewrite marks3_w_pos. apply wsum_subset. exact HA. Qed.
  Lemma l3_neg : (w_neg l == nn)%Q.
  Proof.
    unfold l. rewrite marks3_w_neg. apply wsum_ext. intros r Hr.
    specialize (Hdisj r Hr). destruct (B r) eqn:EB.
    - rewrite (HB r Hr EB). destruct (A r); [discriminate Hdisj| reflexivity].
    - rewrite !andb_false_r. reflexivity.
  Qed.

  Lemma np_nn_bounds : (0 <= np)%Q /\ (0 <= nn)%Q /\ (np <= b)%Q /\ (nn <= b)%Q.
  Proof.
    repeat split; try (apply wsum_nonneg; exact Hwf); apply wsum_mono; try exact Hwf; assumption.
  Qed.

  Theorem var_cell_survey3 (p t xp xn : xq) :
    p =x= xdiv (Fin (np - nn)) (Fin b) -> t =x= Fin b -> xp =x= Fin np -> xn =x= Fin nn ->
    var3_spec (var_cell p t xp xn) l np nn b.
  Proof.
    intros Hp Ht Hxp Hxn. destruct np_nn_bounds as [P0 [N0 [Pb Nb]]].
    destruct (Qeq_dec b 0) as [Hb|Hb].
    - assert (Hp0 : (np == 0)%Q) by (apply Qle_antisym; [rewrite <- Hb; exact Pb| exact P0]).
      assert (Hn0 : (nn == 0)%Q) by (apply Qle_antisym; [rewrite <- Hb; exact Nb| exact N0]).
      assert (Hd : (np - nn == 0)%Q) by (rewrite Hp0, Hn0; ring).
      assert (E : var_cell p t xp xn =x= NaN).
      { rewrite Hp, (xdiv_zero_zero _ b Hd Hb). rewrite var_nan_prop. reflexivity. }
      apply xeq_nan_eq in E. rewrite E. exact Hb.
    - assert (Hl : ~ (w_tot l == 0)%Q) by (rewrite l3_tot; exact Hb).
      assert (Hm : (spec_mean l == (np - nn) / b)%Q)
        by (rewrite spec_mean_counts, l3_tot, l3_pos, l3_neg; reflexivity).
      assert (E : var_cell p t xp xn =x= Fin (spec_var l)).
      { rewrite <- (var_is_indicator_variance l Hl).
        apply compose_var_cell_Proper.
        - rewrite Hp, (xdiv_fin _ _ Hb). simpl. symmetry. exact Hm.
        - rewrite Ht. simpl. symmetry. apply l3_tot.
        - rewrite Hxp. simpl. symmetry. apply l3_pos.
        - rewrite Hxn. simpl. symmetry. apply l3_neg. }
      assert (E2 : var_cell p t xp xn
                   =x= Fin ((np + nn) / b - ((np - nn) / b) * ((np - nn) / b))%Q).
      { rewrite <- (var_second_moment ((np - nn) / b) b np nn Hb (Qeq_refl _)).
        apply compose_var_cell_Proper; [rewrite Hp, (xdiv_fin _ _ Hb); reflexivity| exact Ht| exact Hxp| exact Hxn]. }
      destruct (xeq_fin_inv _ _ E) as [v [Ev Hv]]. rewrite Ev in *. simpl in E2.
      split; [exact Hb|]. split; [exact Hv|]. split; [exact E2|].
      rewrite Hv. apply spec_var_nonneg; [apply marks3_weights_nonneg; exact Hwf| exact Hl].
  Qed.
End Generic3.

(* ------------------------------------------------------------------------------------ *)
(** * sums of rows of the tabulated count block are weights of unions of row categories *)

Section RowSums.
  Variable S : survey.
  Variable tv : tvar.
  Variables vr vc : nat.
  Variable kc : kind.
  Variables ms mc : list bool.
  Variable k : nat.
  Hypothesis Ht : t_ok tv.
  Hypothesis Hc : cat_or_mr kc.
  Hypothesis Hk : k < t_n tv.
  Let Hr : cat_or_mr KCat := or_introl eq_refl.

  Notation C := (t_counts S tv vr KCat ms vc kc mc k).

  (* r is in table element k, in one of the row categories [offs], and in column j *)
  Definition rows_in (offs : list nat) (j : nat) (r : Survey.resp) : bool :=
    pop_of tv k r && in_any ms offs (ans r vr) && in_el kc mc (ans r vc) j.

  Lemma sum_rows_survey offs j :
    Forall (fun i => i < n_valid ms) offs -> NoDup offs -> j < nval mc ->
    sum_rows C offs j =x= Fin (wsum S (rows_in offs j)).
  Proof.
    intros Hoffs Hnd Hj. unfold t_counts.
    rewrite (sum_rows_tab2 (nval ms) (nval mc) _ offs j Hoffs Hj).
    rewrite (xsum_map_fin _ (fun i => wsum S (fun r => pop_of tv k r && in_cat ms (ans r vr) i
                                                      && in_el kc mc (ans r vc) j)) offs).
    - simpl.
      rewrite (qsum_map_ext _ (fun i => wsum S (fun r => (pop_of tv k r && in_el kc mc (ans r vc) j)
                                                          && in_cat ms (ans r vr) i)) offs)
        by (intros i _; apply wsum_ext; intros r _; btauto).
      rewrite (qsum_in_any S ms offs (fun r => pop_of tv k r && in_el kc mc (ans r vc) j) vr Hnd Hoffs).
      apply wsum_ext. intros r _. unfold rows_in. btauto.
    - intros i Hi. rewrite Forall_forall in Hoffs.
      apply (counts_of_spec S tv vr vc KCat kc ms mc k Ht Hr Hc Hk i j (Hoffs i Hi) Hj).
  Qed.

  (* members of two disjoint sets of row categories are different respondents *)
  Lemma in_any_disjoint offs1 offs2 a :
    Forall (fun i => i < n_valid ms) offs1 -> Forall (fun i => i < n_valid ms) offs2 ->
    (forall i, In i offs1 -> ~ In i offs2) ->
    in_any ms offs1 a && in_any ms offs2 a = false.
  Proof.
    intros H1 H2 Hd. destruct (in_any ms offs1 a) eqn:E1; [|reflexivity].
    destruct (in_any ms offs2 a) eqn:E2; [|reflexivity]. exfalso.
    unfold in_any in E1, E2. apply existsb_exists in E1. apply existsb_exists in E2.
    destruct E1 as [i [Hi Ei]]. destruct E2 as [i' [Hi' Ei']].
    assert (i = i') by (apply (in_cat_unique ms a); assumption). subst i'.
    exact (Hd i Hi Hi').
  Qed.

  Lemma in_any_ok_cat offs a : in_any ms offs a = true -> ok_cat ms a = true.
  Proof.
    unfold in_any. intros H. apply existsb_exists in H. destruct H as [i [_ Hi]].
    apply (in_cat_ok_cat ms a i Hi).
  Qed.
End RowSums.

(* ------------------------------------------------------------------------------------ *)
(** * the inserted row of the variance blocks *)

Section InsertedRow.
  Variable S : survey.
  Variable tv : tvar.
  Variables vr vc : nat.
  Variable kc : kind.
  Variables ms mc : list bool.
  Variable k : nat.
  Variables rsubs csubs : list subtotal.
  Variable kk : nat.
  Variables dn rd cd : bool.
  Hypothesis Ht : t_ok tv.
  Hypothesis Hc : cat_or_mr kc.
  Hypothesis Hk : k < t_n tv.
  Hypothesis Hwf : wf_survey S.
  Hypothesis Hkk : kk < length rsubs.
  Let s := nth kk rsubs nosub.
  Hypothesis Hadd : Forall (fun i => i < n_valid ms) (s_add s).
  Hypothesis Hsubt : Forall (fun i => i < n_valid ms) (s_sub s).
  Hypothesis Hnda : NoDup (s_add s).
  Hypothesis Hnds : NoDup (s_sub s).
  Hypothesis Hdisj : forall i, In i (s_add s) -> ~ In i (s_sub s).
  Hypothesis Hdn : dn && has_subs s = false.
  Hypothesis Hrd : rd && has_subs s = false.
  Hypothesis Hpos : 0 < n_valid ms.
  Let Hr : cat_or_mr KCat := or_introl eq_refl.

  Notation nr := (nval ms).
  Notation nc := (nval mc).
  Notation C := (t_counts S tv vr KCat ms vc kc mc k).
  Notation CB := (t_cb S tv vr KCat ms vc kc mc k).
  Notation TB := (t_tb S tv vr KCat ms vc kc mc k).

  (* the positive and negative sets of the inserted row, column j *)
  Notation Aj := (rows_in tv vr vc kc ms mc k (s_add s)).
  Notation Bj := (rows_in tv vr vc kc ms mc k (s_sub s)).

  Lemma sub_count_cell j : j < nc ->
    mnth (b_rows (count_blocks nr nc rsubs csubs C dn)) kk j
    =x= Fin (wsum S (Aj j) - wsum S (Bj j))%Q.
  Proof.
    intros Hj. rewrite (count_blocks_rows nr nc rsubs csubs kk Hkk C dn j Hj). fold s.
    unfold subrow_cell. rewrite Hdn.
    rewrite (sum_rows_survey S tv vr vc kc ms mc k Ht Hc Hk (s_add s) j Hadd Hnda Hj),
            (sum_rows_survey S tv vr vc kc ms mc k Ht Hc Hk (s_sub s) j Hsubt Hnds Hj).
    simpl. ring.
  Qed.

  Lemma AB_disjoint j r : Aj j r && Bj j r = false.
  Proof.
    unfold rows_in.
    pose proof (in_any_disjoint ms (s_add s) (s_sub s) (ans r vr) Hadd Hsubt Hdisj) as D.
    destruct (in_any ms (s_add s) (ans r vr)), (in_any ms (s_sub s) (ans r vr));
      try discriminate D; rewrite ?andb_false_r, ?andb_false_l; reflexivity.
  Qed.

  (* ---- COLUMN direction: base = column j and any valid row --------------------------- *)
  Notation Kc := (colbase_in tv k vr KCat ms vc kc mc 0).

  Lemma rows_in_sub_colbase offs j r : rows_in tv vr vc kc ms mc k offs j r = true -> Kc j r = true.
  Proof.
    unfold rows_in, colbase_in. rewrite !andb_true_iff. intros [[H1 H2] H3].
    repeat split; auto. simpl ok_el. apply (in_any_ok_cat ms offs _ H2).
  Qed.

  Theorem column_variance_inserted_row j : j < nc ->
    var3_spec
      (mnth (b_rows (variance_blocks C nr nc rsubs csubs
                       (col_proportions nr nc rsubs csubs C dn rd cd CB)
                       (col_base_blocks nr nc rsubs csubs CB))) kk j)
      (marks3 S (Kc j) (Aj j) (Bj j))
      (wsum S (Aj j)) (wsum S (Bj j)) (w_colbase tv k vr KCat ms vc kc mc S 0 j).
  Proof.
    intros Hj.
    destruct (var_blocks_pointwise C nr nc rsubs csubs
                (col_proportions nr nc rsubs csubs C dn rd cd CB)
                (col_base_blocks nr nc rsubs csubs CB)) as [_ [_ [Hrows _]]].
    rewrite (Hrows kk j Hkk Hj).
    destruct (pos_neg_rows C nr nc rsubs csubs kk j Hkk Hj) as [-> ->]. fold s.
    assert (HT : mnth (b_rows (col_base_blocks nr nc rsubs csubs CB)) kk j
                 =x= Fin (w_colbase tv k vr KCat ms vc kc mc S 0 j)).
    { rewrite (col_base_blocks_rows nr nc rsubs csubs kk Hkk CB j Hj).
      apply (t_cb_cell S tv vr KCat ms vc kc mc k Ht Hr Hc Hk 0 j Hpos Hj). }
    apply (var_cell_survey3 S (Kc j) (Aj j) (Bj j) Hwf
             (fun r _ => rows_in_sub_colbase (s_add s) j r)
             (fun r _ => rows_in_sub_colbase (s_sub s) j r)
             (fun r _ => AB_disjoint j r)).
    - unfold col_proportions.
      rewrite (props_rows nr nc rsubs csubs _ _ CB C rd cd kk j Hkk Hj). cbv zeta. fold s. rewrite Hrd.
      rewrite (sub_count_cell j Hj), HT. reflexivity.
    - exact HT.
    - apply (sum_rows_survey S tv vr vc kc ms mc k Ht Hc Hk (s_add s) j Hadd Hnda Hj).
    - apply (sum_rows_survey S tv vr vc kc ms mc k Ht Hc Hk (s_sub s) j Hsubt Hnds Hj).
  Qed.

  (* ---- TABLE direction: base = eligible for column j and any valid row --------------- *)
  Notation Kt := (tabbase_in tv k vr KCat ms vc kc mc 0).

  Lemma rows_in_sub_tabbase offs j r : rows_in tv vr vc kc ms mc k offs j r = true -> Kt j r = true.
  Proof.
    unfold rows_in, tabbase_in. rewrite !andb_true_iff. intros [[H1 H2] H3].
    repeat split; auto.
    - simpl ok_el. apply (in_any_ok_cat ms offs _ H2).
    - apply in_el_ok_el. exact H3.
  Qed.

  Theorem table_variance_inserted_row j : j < nc ->
    var3_spec
      (mnth (b_rows (variance_blocks C nr nc rsubs csubs
                       (table_proportions nr nc rsubs csubs C dn TB)
                       (table_base_blocks nr nc rsubs csubs TB))) kk j)
      (marks3 S (Kt j) (Aj j) (Bj j))
      (wsum S (Aj j)) (wsum S (Bj j)) (w_tabbase tv k vr KCat ms vc kc mc S 0 j).
  Proof.
    intros Hj.
    destruct (var_blocks_pointwise C nr nc rsubs csubs
                (table_proportions nr nc rsubs csubs C dn TB)
                (table_base_blocks nr nc rsubs csubs TB)) as [_ [_ [Hrows _]]].
    rewrite (Hrows kk j Hkk Hj).
    destruct (pos_neg_rows C nr nc rsubs csubs kk j Hkk Hj) as [-> ->]. fold s.
    assert (HT : mnth (b_rows (table_base_blocks nr nc rsubs csubs TB)) kk j
                 =x= Fin (w_tabbase tv k vr KCat ms vc kc mc S 0 j)).
    { rewrite (table_base_blocks_rows nr nc rsubs csubs kk Hkk TB j Hj).
      apply (t_tb_cell S tv vr KCat ms vc kc mc k Ht Hr Hc Hk 0 j Hpos Hj). }
    apply (var_cell_survey3 S (Kt j) (Aj j) (Bj j) Hwf
             (fun r _ => rows_in_sub_tabbase (s_add s) j r)
             (fun r _ => rows_in_sub_tabbase (s_sub s) j r)
             (fun r _ => AB_disjoint j r)).
    - unfold table_proportions, div_blocks. cbn [b_rows].
      rewrite (tab2_mnth _ _ _ kk j Hkk Hj).
      rewrite (sub_count_cell j Hj), HT. reflexivity.
    - exact HT.
    - apply (sum_rows_survey S tv vr vc kc ms mc k Ht Hc Hk (s_add s) j Hadd Hnda Hj).
    - apply (sum_rows_survey S tv vr vc kc ms mc k Ht Hc Hk (s_sub s) j Hsubt Hnds Hj).
  Qed.
End InsertedRow.
