(* Proofs about the resolution cascade [translate] of Model/Shim.v (property C19). *)
From Coq Require Import ZArith List Bool Lia Arith String.
From CC Require Import Base.Ident Model.Shim Proofs.ShimSpec.
Import ListNotations.
Local Open Scope nat_scope.

Lemma dec_inj a b : dec a = dec b -> a = b.
Proof.
  intros H. pose proof (parse_int_dec a) as Ha. rewrite H, parse_int_dec in Ha. congruence.
Qed.

Lemma aliases_length d : List.length (aliases d) = List.length (d_items d).
Proof. unfold aliases. apply map_length. Qed.
Lemma raw_ids_length d : List.length (raw_ids d) = List.length (d_items d).
Proof. unfold raw_ids. apply map_length. Qed.

Lemma nth_alias_In d k : k < List.length (d_items d) -> In (nth_alias d k) (aliases d).
Proof. intros H. unfold nth_alias. apply nth_In. rewrite aliases_length. exact H. Qed.

Lemma subvar_ids_length d :
  List.length (subvar_ids d) = List.length (d_items d) \/ subvar_ids d = [].
Proof.
  unfold subvar_ids. destruct (forallb _ _); [left; apply map_length | right; reflexivity].
Qed.

Lemma py_index_first l x k : first_at l x k -> py_index x l = Some k.
Proof.
  intros [Hk [Hx Hf]].
  destruct (py_index x l) as [i|] eqn:E.
  - destruct (py_index_some _ _ _ E) as [Hi [Hxi Hfi]].
    destruct (Nat.lt_trichotomy i k) as [Hlt|[Heq|Hgt]].
    + exfalso. apply (Hf i Hlt). exact Hxi.
    + congruence.
    + exfalso. apply (Hfi k Hgt). exact Hx.
  - exfalso. apply py_index_none in E. apply E. rewrite <- Hx. apply nth_In. exact Hk.
Qed.

Lemma first_at_nodup l k : NoDup l -> k < List.length l -> first_at l (nth k l INone) k.
Proof.
  intros Hnd Hk. split; [exact Hk|]. split; [reflexivity|].
  intros j Hj E.
  assert (j = k) by (apply (proj1 (NoDup_nth l INone) Hnd); [lia | lia | exact E]). lia.
Qed.

Lemma py_index_lt x l i : py_index x l = Some i -> i < List.length l.
Proof. intros H. apply py_index_some in H. tauto. Qed.

(* ---- the special MR branch ---------------------------------------------------------- *)
Lemma mr_branch_none d x : ~ L_mrstr d x -> mr_branch d x = None.
Proof.
  intros H. unfold mr_branch. destruct (d_mr_ins d) eqn:Em; [|reflexivity].
  fold (nonins_strs d). destruct (py_in x (nonins_strs d)) eqn:Ei; [|reflexivity].
  exfalso. apply H. split; [exact Em|]. apply py_in_In. exact Ei.
Qed.

Lemma mr_branch_some d x z k :
  L_mrstr d x -> py_int x = IntOk z -> first_at (raw_ids d) (IInt z) k ->
  mr_branch d x = Some (Ok (nth_alias d k)).
Proof.
  intros [Em Hin] Hz Hf. unfold mr_branch. rewrite Em. fold (nonins_strs d).
  apply py_in_In in Hin. rewrite Hin, Hz. rewrite (py_index_first _ _ _ Hf). reflexivity.
Qed.

(* ---- one theorem per rule: x is resolved by the first level it sits at ------------------ *)
Lemma translate_alias d x : L_alias d x -> translate d x = Ok x.
Proof.
  intros H. unfold translate. apply py_in_In in H. rewrite H. reflexivity.
Qed.

Lemma translate_eid d x k :
  ~ L_alias d x -> first_at (raw_ids d) x k -> translate d x = Ok (nth_alias d k).
Proof.
  intros H1 Hf. unfold translate. apply py_in_false in H1. rewrite H1.
  rewrite (py_index_first _ _ _ Hf). reflexivity.
Qed.

Lemma translate_mrstr d x z k :
  ~ L_alias d x -> ~ L_eid d x -> L_mrstr d x -> py_int x = IntOk z ->
  first_at (raw_ids d) (IInt z) k -> translate d x = Ok (nth_alias d k).
Proof.
  intros H1 H2 H3 Hz Hf. unfold translate. apply py_in_false in H1. rewrite H1.
  apply py_index_none in H2. rewrite H2. rewrite (mr_branch_some d x z k H3 Hz Hf). reflexivity.
Qed.

Lemma translate_svid d x k :
  ~ L_alias d x -> ~ L_eid d x -> ~ L_mrstr d x -> first_at (subvar_ids d) x k ->
  translate d x = Ok (nth_alias d k).
Proof.
  intros H1 H2 H3 Hf. unfold translate. apply py_in_false in H1. rewrite H1.
  apply py_index_none in H2. rewrite H2. rewrite (mr_branch_none d x H3).
  rewrite (py_index_first _ _ _ Hf). reflexivity.
Qed.

Lemma translate_num d x z k :
  ~ L_alias d x -> ~ L_eid d x -> ~ L_mrstr d x -> ~ L_svid d x ->
  py_int x = IntOk z -> first_at (raw_ids d) (IInt z) k ->
  translate d x = Ok (nth_alias d k).
Proof.
  intros H1 H2 H3 H4 Hz Hf. unfold translate. apply py_in_false in H1. rewrite H1.
  apply py_index_none in H2. rewrite H2. rewrite (mr_branch_none d x H3).
  apply py_index_none in H4. rewrite H4. rewrite Hz.
  rewrite (py_index_first _ _ _ Hf). reflexivity.
Qed.

Lemma translate_pos d x z :
  ~ L_alias d x -> ~ L_eid d x -> ~ L_mrstr d x -> ~ L_svid d x -> ~ L_num d x ->
  py_int x = IntOk z -> (0 <= z < Z.of_nat (List.length (d_items d)))%Z ->
  translate d x = Ok (nth_alias d (Z.to_nat z)).
Proof.
  intros H1 H2 H3 H4 H5 Hz Hr. unfold translate. apply py_in_false in H1. rewrite H1.
  apply py_index_none in H2. rewrite H2. rewrite (mr_branch_none d x H3).
  apply py_index_none in H4. rewrite H4. rewrite Hz.
  assert (E : py_index (IInt z) (raw_ids d) = None).
  { apply py_index_none. intros Hin. apply H5. exists z. split; assumption. }
  rewrite E. rewrite aliases_length.
  assert (B : ((0 <=? z)%Z && (z <? Z.of_nat (List.length (d_items d)))%Z)%bool = true).
  { apply andb_true_iff. split; [apply Z.leb_le | apply Z.ltb_lt]; lia. }
  rewrite B. reflexivity.
Qed.

Lemma translate_stale d x : stale d x -> translate d x = Ok INone.
Proof.
  intros [H1 [H2 [H3 [H4 [H5 H6]]]]]. unfold translate.
  apply py_in_false in H1. rewrite H1. apply py_index_none in H2. rewrite H2.
  rewrite (mr_branch_none d x H3). apply py_index_none in H4. rewrite H4.
  destruct (py_int x) as [z| |] eqn:Ez.
  - assert (E : py_index (IInt z) (raw_ids d) = None).
    { apply py_index_none. intros Hin. apply H5. exists z. split; [exact Ez|exact Hin]. }
    rewrite E. rewrite aliases_length.
    destruct ((0 <=? z)%Z && (z <? Z.of_nat (List.length (d_items d)))%Z)%bool eqn:B; [|reflexivity].
    exfalso. apply H6. exists z. split; [exact Ez|].
    apply andb_true_iff in B. destruct B as [B1 B2]. apply Z.leb_le in B1. apply Z.ltb_lt in B2. lia.
  - reflexivity.
  - reflexivity.
Qed.

Lemma not_mrstr_none d : ~ L_mrstr d INone.
Proof.
  intros [_ Hin]. unfold nonins_strs in Hin. apply in_map_iff in Hin.
  destruct Hin as [it [E _]]. discriminate.
Qed.

(* None itself (a null in an id list, or the re-translation of a stale id that an earlier shim
   rewrote to None in the caller's dict) is a fixed point: the repaired code catches TypeError *)
Lemma translate_none d : ~ L_eid d INone -> ~ L_svid d INone -> translate d INone = Ok INone.
Proof.
  intros H2 H4. unfold translate. destruct (py_in INone (aliases d)); [reflexivity|].
  apply py_index_none in H2. rewrite H2.
  rewrite (mr_branch_none d INone (not_mrstr_none d)). apply py_index_none in H4. rewrite H4.
  reflexivity.
Qed.

(* the cascade is total: no identifier makes it raise (the int() of the special MR branch is only
   reached with str(id) of an element whose id is an int) *)
Lemma translate_total d x : ~ In INone (raw_ids d) -> exists a, translate d x = Ok a.
Proof.
  intros HN. unfold translate.
  destruct (py_in x (aliases d)); [eexists; reflexivity|].
  destruct (py_index x (raw_ids d)) as [i|] eqn:E2; [eexists; reflexivity|].
  destruct (mr_branch d x) as [r|] eqn:E3.
  - unfold mr_branch in E3. cbv zeta in E3. destruct (d_mr_ins d); [|discriminate E3].
    fold (nonins_strs d) in E3.
    destruct (py_in x (nonins_strs d)) eqn:Ein; [|discriminate E3]. injection E3 as E3'. subst r.
    apply py_in_In in Ein. unfold nonins_strs in Ein. apply in_map_iff in Ein.
    destruct Ein as [it [Ex Hit]]. apply filter_In in Hit. destruct Hit as [Hit _].
    assert (Hraw : In (i_eid it) (raw_ids d)) by (unfold raw_ids; apply in_map; exact Hit).
    destruct (i_eid it) as [z|s|] eqn:Eid; simpl in Ex.
    + subst x. rewrite py_int_dec.
      destruct (py_index (IInt z) (raw_ids d)) as [i|] eqn:E4; [eexists; reflexivity|].
      exfalso. apply py_index_none in E4. exact (E4 Hraw).
    + subst x. exfalso. apply py_index_none in E2. exact (E2 Hraw).
    + exfalso. exact (HN Hraw).
  - destruct (py_index x (subvar_ids d)); [eexists; reflexivity|].
    destruct (py_int x) as [z| |]; try (eexists; reflexivity).
    destruct (py_index (IInt z) (raw_ids d)); [eexists; reflexivity|].
    destruct ((0 <=? z)%Z && (z <? Z.of_nat (List.length (aliases d)))%Z)%bool; eexists; reflexivity.
Qed.

(* every result is None or an alias of the dimension *)
Lemma translate_range d x a : translate d x = Ok a -> a = INone \/ In a (aliases d).
Proof.
  assert (NA : forall i, i < List.length (d_items d) -> In (nth_alias d i) (aliases d)).
  { exact (nth_alias_In d). }
  unfold translate. destruct (py_in x (aliases d)) eqn:E1.
  - intros H. inversion H; subst. right. apply py_in_In. exact E1.
  - destruct (py_index x (raw_ids d)) as [i|] eqn:E2.
    + intros H. inversion H; subst. right. apply NA.
      rewrite <- raw_ids_length. exact (py_index_lt _ _ _ E2).
    + destruct (mr_branch d x) as [r|] eqn:E3.
      * unfold mr_branch in E3. cbv zeta in E3. destruct (d_mr_ins d); [|discriminate E3].
        fold (nonins_strs d) in E3.
        destruct (py_in x (nonins_strs d)); [|discriminate E3]. injection E3 as E3'. subst r.
        intros H.
        destruct (py_int x) as [z| |]; try discriminate.
        destruct (py_index (IInt z) (raw_ids d)) as [i|] eqn:E4; try discriminate.
        injection H as Ha. subst a. right. apply NA. rewrite <- raw_ids_length.
        exact (py_index_lt _ _ _ E4).
      * destruct (py_index x (subvar_ids d)) as [i|] eqn:E4.
        -- intros H. inversion H; subst. right. apply NA.
           pose proof (py_index_lt _ _ _ E4) as Hlt.
           destruct (subvar_ids_length d) as [L|L]; [lia|]. rewrite L in Hlt. simpl in Hlt. lia.
        -- destruct (py_int x) as [z| |]; intros H; try discriminate.
           ++ destruct (py_index (IInt z) (raw_ids d)) as [i|] eqn:E5.
              ** inversion H; subst. right. apply NA. rewrite <- raw_ids_length.
                 exact (py_index_lt _ _ _ E5).
              ** rewrite aliases_length in H.
                 destruct ((0 <=? z)%Z && (z <? Z.of_nat (List.length (d_items d)))%Z)%bool eqn:B.
                 --- inversion H; subst. right. apply NA.
                     apply andb_true_iff in B. destruct B as [B1 B2].
                     apply Z.leb_le in B1. apply Z.ltb_lt in B2. lia.
                 --- inversion H; subst. left. reflexivity.
           ++ inversion H; subst. left. reflexivity.
           ++ inversion H; subst. left. reflexivity.
Qed.

(* ---- well-formed (Crunch-shaped) dimensions: all listed spellings agree ---------------- *)
Section WF.
  Variable d : adim.
  Hypothesis W : wf d.
  Let n := List.length (d_items d).

  Lemma wf_alias_not_int z : ~ In (IInt z) (aliases d).
  Proof.
    intros H. pose proof (wf_al_str d W) as F. rewrite Forall_forall in F.
    destruct (F _ H) as [s E]. discriminate.
  Qed.
  Lemma wf_raw_not_str s : ~ In (IStr s) (raw_ids d).
  Proof.
    intros H. pose proof (wf_eid_int d W) as F. rewrite Forall_forall in F.
    destruct (F _ H) as [z E]. discriminate.
  Qed.
  Lemma wf_sv_not_int z : ~ In (IInt z) (subvar_ids d).
  Proof.
    intros H. pose proof (wf_sv_str d W) as F. rewrite Forall_forall in F.
    destruct (F _ H) as [s E]. discriminate.
  Qed.
  Lemma wf_alias_not_decstr z : ~ In (IStr (dec z)) (aliases d).
  Proof.
    intros H. pose proof (wf_al_nonnum d W _ H) as E. rewrite py_int_dec in E. discriminate.
  Qed.

  Lemma nonins_strs_eid x :
    In x (nonins_strs d) -> exists j z, j < n /\ nth j (raw_ids d) INone = IInt z /\ x = IStr (dec z).
  Proof.
    unfold nonins_strs. intros H. apply in_map_iff in H. destruct H as [it [E Hin]].
    apply filter_In in Hin. destruct Hin as [Hin _].
    destruct (In_nth _ _ (mk_item INone None None false false) Hin) as [j [Hj Hn]].
    assert (Er : nth j (raw_ids d) INone = i_eid it).
    { unfold raw_ids. rewrite (nth_indep _ INone (i_eid (mk_item INone None None false false)))
        by (rewrite map_length; exact Hj). rewrite map_nth. rewrite Hn. reflexivity. }
    assert (Hraw : In (i_eid it) (raw_ids d)).
    { unfold raw_ids. apply in_map. exact Hin. }
    pose proof (wf_eid_int d W) as F. rewrite Forall_forall in F.
    destruct (F _ Hraw) as [z Ez]. exists j, z. split; [exact Hj|]. split; [congruence|].
    rewrite <- E. rewrite Ez. reflexivity.
  Qed.

  Lemma raw_first k : k < n -> first_at (raw_ids d) (nth k (raw_ids d) INone) k.
  Proof.
    intros Hk. apply first_at_nodup; [exact (wf_eid_nodup d W)|]. rewrite raw_ids_length. exact Hk.
  Qed.
  Lemma sv_first k : k < n -> first_at (subvar_ids d) (nth k (subvar_ids d) INone) k.
  Proof.
    intros Hk. apply first_at_nodup; [exact (wf_sv_nodup d W)|]. rewrite (wf_sv_all d W). exact Hk.
  Qed.

  (* by element id (int) *)
  Lemma wf_translate_eid k : k < n -> translate d (nth k (raw_ids d) INone) = Ok (nth_alias d k).
  Proof.
    intros Hk. apply translate_eid; [|apply raw_first; exact Hk].
    assert (Hin : In (nth k (raw_ids d) INone) (raw_ids d)).
    { apply nth_In. rewrite raw_ids_length. exact Hk. }
    pose proof (wf_eid_int d W) as F. rewrite Forall_forall in F. destruct (F _ Hin) as [z E].
    rewrite E. apply wf_alias_not_int.
  Qed.

  (* by element id written as a string *)
  Lemma wf_translate_eidstr k z :
    k < n -> nth k (raw_ids d) INone = IInt z -> translate d (IStr (dec z)) = Ok (nth_alias d k).
  Proof.
    intros Hk Ez.
    assert (Hf : first_at (raw_ids d) (IInt z) k) by (rewrite <- Ez; apply raw_first; exact Hk).
    assert (N1 : ~ L_alias d (IStr (dec z))) by apply wf_alias_not_decstr.
    assert (N2 : ~ L_eid d (IStr (dec z))) by apply wf_raw_not_str.
    destruct (d_mr_ins d) eqn:Em.
    - destruct (in_dec ident_eq_dec (IStr (dec z)) (nonins_strs d)) as [Hin|Hnin].
      + apply (translate_mrstr d _ z k N1 N2); [split; assumption | apply py_int_dec | exact Hf].
      + assert (N3 : ~ L_mrstr d (IStr (dec z))) by (intros [_ H]; auto).
        destruct (in_dec ident_eq_dec (IStr (dec z)) (subvar_ids d)) as [Hs|Hns].
        * destruct (In_nth _ _ INone Hs) as [j [Hj Ej]]. rewrite (wf_sv_all d W) in Hj.
          assert (j = k) by (apply (wf_sv_eidstr d W j k z Hj Hk Ez Ej)). subst j.
          apply translate_svid; try assumption. rewrite <- Ej. apply sv_first. exact Hk.
        * apply (translate_num d _ z k); try assumption. apply py_int_dec.
    - assert (N3 : ~ L_mrstr d (IStr (dec z))) by (intros [H _]; congruence).
      destruct (in_dec ident_eq_dec (IStr (dec z)) (subvar_ids d)) as [Hs|Hns].
      + destruct (In_nth _ _ INone Hs) as [j [Hj Ej]]. rewrite (wf_sv_all d W) in Hj.
        assert (j = k) by (apply (wf_sv_eidstr d W j k z Hj Hk Ez Ej)). subst j.
        apply translate_svid; try assumption. rewrite <- Ej. apply sv_first. exact Hk.
      + apply (translate_num d _ z k); try assumption. apply py_int_dec.
  Qed.

  (* by sub-variable id *)
  Lemma wf_translate_svid k : k < n -> translate d (nth k (subvar_ids d) INone) = Ok (nth_alias d k).
  Proof.
    intros Hk. set (x := nth k (subvar_ids d) INone).
    assert (Hin : In x (subvar_ids d)).
    { apply nth_In. rewrite (wf_sv_all d W). exact Hk. }
    pose proof (wf_sv_str d W) as F. rewrite Forall_forall in F. destruct (F _ Hin) as [s Es].
    destruct (in_dec ident_eq_dec x (aliases d)) as [Ha|N1].
    { (* the sub-variable id is also an alias: by wf it is the alias of the same item *)
      destruct (In_nth _ _ INone Ha) as [j [Hj Ej]]. rewrite aliases_length in Hj.
      assert (j = k) by (apply (wf_al_sv d W j k Hj Hk); exact Ej). subst j.
      rewrite (translate_alias d x Ha). unfold nth_alias. rewrite Ej. reflexivity. }
    assert (N2 : ~ L_eid d x) by (rewrite Es; apply wf_raw_not_str).
    destruct (d_mr_ins d) eqn:Em.
    - destruct (in_dec ident_eq_dec x (nonins_strs d)) as [Hi|Hni].
      + destruct (nonins_strs_eid x Hi) as [j [z [Hj [Ej Ex]]]].
        assert (k = j).
        { apply (wf_sv_eidstr d W k j z Hk Hj Ej). fold x. exact Ex. }
        subst j. rewrite Ex. apply wf_translate_eidstr; assumption.
      + apply translate_svid; try assumption; [intros [_ H]; auto | apply sv_first; exact Hk].
    - apply translate_svid; try assumption; [intros [H _]; congruence | apply sv_first; exact Hk].
  Qed.

  Lemma wf_translate_spelling k x :
    k < n -> spelling d k x -> translate d x = Ok (nth_alias d k).
  Proof.
    intros Hk S. destruct S as [| | |z Ez].
    - apply translate_alias. apply nth_alias_In. exact Hk.
    - apply wf_translate_svid. exact Hk.
    - apply wf_translate_eid. exact Hk.
    - apply wf_translate_eidstr; assumption.
  Qed.

  (* a number that is no element id (and no sub-variable id) is a zero-based position *)
  Lemma wf_translate_position p :
    p < n -> ~ In (IInt (Z.of_nat p)) (raw_ids d) ->
    ~ In (IStr (dec (Z.of_nat p))) (subvar_ids d) ->
    translate d (IInt (Z.of_nat p)) = Ok (nth_alias d p) /\
    translate d (IStr (dec (Z.of_nat p))) = Ok (nth_alias d p).
  Proof.
    intros Hp Hr Hs. set (z := Z.of_nat p).
    assert (Hnum : forall x, py_int x = IntOk z -> ~ L_num d x).
    { intros x Ex [z' [E' Hin]]. rewrite Ex in E'. inversion E'; subst z'. exact (Hr Hin). }
    assert (Hrange : (0 <= z < Z.of_nat (List.length (d_items d)))%Z) by (unfold z; fold n; lia).
    split.
    - replace (nth_alias d p) with (nth_alias d (Z.to_nat z)) by (unfold z; rewrite Nat2Z.id; reflexivity).
      apply translate_pos; try assumption; try reflexivity.
      + apply wf_alias_not_int.
      + intros [_ H]. unfold nonins_strs in H. apply in_map_iff in H. destruct H as [it [E _]].
        discriminate.
      + apply wf_sv_not_int.
      + apply Hnum. reflexivity.
    - replace (nth_alias d p) with (nth_alias d (Z.to_nat z)) by (unfold z; rewrite Nat2Z.id; reflexivity).
      apply translate_pos; try assumption; try apply py_int_dec.
      + apply wf_alias_not_decstr.
      + apply wf_raw_not_str.
      + intros [_ H]. destruct (nonins_strs_eid _ H) as [j [z' [Hj [Ej Ex]]]].
        inversion Ex as [Ed]. apply dec_inj in Ed. subst z'. apply Hr. change (In (IInt z) (raw_ids d)). rewrite <- Ej.
        apply nth_In. rewrite raw_ids_length. exact Hj.
      + apply Hnum. apply py_int_dec.
  Qed.

  Lemma wf_ids_not_none : ids_not_none d.
  Proof.
    split.
    - intros H. pose proof (wf_eid_int d W) as F. rewrite Forall_forall in F.
      destruct (F _ H) as [z E]. discriminate.
    - intros H. pose proof (wf_sv_str d W) as F. rewrite Forall_forall in F.
      destruct (F _ H) as [s E]. discriminate.
  Qed.

  (* re-translating None gives None (idempotence of the shim, see Props/C18.v) *)
  Lemma wf_translate_none : translate d INone = Ok INone.
  Proof. destruct wf_ids_not_none as [A B]. apply translate_none; assumption. Qed.

  Lemma wf_translate_ref ok x : ref d ok x -> translate d x = Ok (oalias d ok).
  Proof.
    destruct ok as [k|]; simpl.
    - intros [Hk S]. apply wf_translate_spelling; assumption.
    - intros S. apply translate_stale; assumption.
  Qed.
End WF.
