(* Proofs/GenAgreePopulation.v -- GenAgree for C17: what the source SAYS NOW for
     SecondOrderMeasures.population_std_err (four blocks) and population_proportions
        ( the CAT_DATE dispatch: rows first, then columns, else the table measure )
     StripeMeasures.population_proportions.base_values, population_proportion_stderrs
     cubepart._Slice / _Strand .population_counts and .population_counts_moe
   denotes [pop_choice], the strand's (if cat_date then 1 / 0 else ..), [pop_cell] and
   [moe_cell] of Model/Population.v, the definitions the theorems of Props/C17.v are about.
   See GenAgreeMeasTac.v. *)
From Coq Require Import QArith ZArith List Bool Lia Arith String.
From CC Require Import Base.XQ Base.ListX Base.MeasureExp
     Model.Subtotals Model.Proportions Model.Variance Model.Population
     Gen.MeasureSrc Gen.StripeMeasureSrc Gen.PartMeasureSrc Gen.Tables Proofs.GenAgreeMeasTac.
Import ListNotations.
Local Close Scope Q_scope.
Local Open Scope string_scope.
Local Open Scope nat_scope.

Ltac gen_pop := gen_meas_with ltac:(unfold pop_choice).

Lemma gen_PopulationStandardError_blocks_00 :
  match src_PopulationStandardError_blocks_00 with
  | Some e => forall nr nc rsubs csubs rd cd blk cubem cubeflag flag,
      holds_mat (menv_mat nr nc rsubs csubs rd cd blk cubem cubeflag flag) e DR DC
        (mnth (pop_choice rd cd (blk "row_std_err" 0 0) (blk "column_std_err" 0 0)
                          (blk "table_std_err" 0 0)))
  | None => True
  end.
Proof. gen_pop. Qed.

Lemma gen_PopulationStandardError_blocks_01 :
  match src_PopulationStandardError_blocks_01 with
  | Some e => forall nr nc rsubs csubs rd cd blk cubem cubeflag flag,
      holds_mat (menv_mat nr nc rsubs csubs rd cd blk cubem cubeflag flag) e DR DCS
        (mnth (pop_choice rd cd (blk "row_std_err" 0 1) (blk "column_std_err" 0 1)
                          (blk "table_std_err" 0 1)))
  | None => True
  end.
Proof. gen_pop. Qed.

Lemma gen_PopulationStandardError_blocks_10 :
  match src_PopulationStandardError_blocks_10 with
  | Some e => forall nr nc rsubs csubs rd cd blk cubem cubeflag flag,
      holds_mat (menv_mat nr nc rsubs csubs rd cd blk cubem cubeflag flag) e DRS DC
        (mnth (pop_choice rd cd (blk "row_std_err" 1 0) (blk "column_std_err" 1 0)
                          (blk "table_std_err" 1 0)))
  | None => True
  end.
Proof. gen_pop. Qed.

Lemma gen_PopulationStandardError_blocks_11 :
  match src_PopulationStandardError_blocks_11 with
  | Some e => forall nr nc rsubs csubs rd cd blk cubem cubeflag flag,
      holds_mat (menv_mat nr nc rsubs csubs rd cd blk cubem cubeflag flag) e DRS DCS
        (mnth (pop_choice rd cd (blk "row_std_err" 1 1) (blk "column_std_err" 1 1)
                          (blk "table_std_err" 1 1)))
  | None => True
  end.
Proof. gen_pop. Qed.

(* ------------------------------------------------------------------------------------ *)
(** * population proportions: the dispatch, NaN at the difference subtotals *)

(* the first factor of [pop_cell]: (if is_diff then NaN else p), p the dispatched proportion *)
Definition pop_props_model (rsubs csubs : list subtotal) (rd cd : bool)
           (blk : string -> nat -> nat -> list (list xq)) (bi bj i j : nat) : xq :=
  let p := mnth (pop_choice rd cd (blk "row_proportions" bi bj) (blk "column_proportions" bi bj)
                            (blk "table_proportions" bi bj)) i j in
  match bi, bj with
  | 0, 0 => p
  | 0, _ => if has_subs (nth j csubs nosub) then NaN else p
  | _, 0 => if has_subs (nth i rsubs nosub) then NaN else p
  | _, _ => if has_subs (nth j csubs nosub) then NaN
            else if has_subs (nth i rsubs nosub) then NaN else p
  end.

Ltac gen_popprops :=
  unfold_srcs;
  lazymatch goal with
  | |- True => exact I
  | _ =>
      intros nr nc rsubs csubs rd cd blk cubem cubeflag flag; meas_eval;
      split; [reflexivity|split; [reflexivity|]];
      intros i j Hi Hj; unfold pop_props_model, pop_choice;
      destruct rd, cd;
      destruct (existsb has_subs rsubs) eqn:Er; destruct (existsb has_subs csubs) eqn:Ec;
      cbn [negb andb];
      try rewrite (existsb_false_nth _ _ nosub _ Er Hi);
      try rewrite (existsb_false_nth _ _ nosub _ Ec Hj);
      reflexivity
  end.

Lemma gen_PopulationProportions_blocks_00 :
  match src_PopulationProportions_blocks_00 with
  | Some e => forall nr nc rsubs csubs rd cd blk cubem cubeflag flag,
      holds_mat (menv_mat nr nc rsubs csubs rd cd blk cubem cubeflag flag) e DR DC
        (pop_props_model rsubs csubs rd cd blk 0 0)
  | None => True
  end.
Proof. gen_popprops. Qed.

Lemma gen_PopulationProportions_blocks_01 :
  match src_PopulationProportions_blocks_01 with
  | Some e => forall nr nc rsubs csubs rd cd blk cubem cubeflag flag,
      holds_mat (menv_mat nr nc rsubs csubs rd cd blk cubem cubeflag flag) e DR DCS
        (pop_props_model rsubs csubs rd cd blk 0 1)
  | None => True
  end.
Proof. gen_popprops. Qed.

Lemma gen_PopulationProportions_blocks_10 :
  match src_PopulationProportions_blocks_10 with
  | Some e => forall nr nc rsubs csubs rd cd blk cubem cubeflag flag,
      holds_mat (menv_mat nr nc rsubs csubs rd cd blk cubem cubeflag flag) e DRS DC
        (pop_props_model rsubs csubs rd cd blk 1 0)
  | None => True
  end.
Proof. gen_popprops. Qed.

Lemma gen_PopulationProportions_blocks_11 :
  match src_PopulationProportions_blocks_11 with
  | Some e => forall nr nc rsubs csubs rd cd blk cubem cubeflag flag,
      holds_mat (menv_mat nr nc rsubs csubs rd cd blk cubem cubeflag flag) e DRS DCS
        (pop_props_model rsubs csubs rd cd blk 1 1)
  | None => True
  end.
Proof. gen_popprops. Qed.

(* ------------------------------------------------------------------------------------ *)
(** * strand *)

Definition no_cube (_ _ : string) : mval := VErr.

Lemma gen_stripe_PopulationProportions_base_values :
  match ssrc_PopulationProportions_base_values with
  | Some e => forall n subs rd vblk,
      holds_vec (senv_std n subs rd vblk no_cube) e DR
        (fun i => if rd then Fin 1%Q else vnth (vblk "table_proportions" 0) i)
  | None => True
  end.
Proof. gen_meas. Qed.

Lemma gen_stripe_PopulationProportions_subtotal_values :
  match ssrc_PopulationProportions_subtotal_values with
  | Some e => forall n subs rd vblk,
      holds_vec (senv_std n subs rd vblk no_cube) e DRS
        (fun k => if has_subs (nth k subs nosub) then NaN
                  else if rd then Fin 1%Q else vnth (vblk "table_proportions" 1) k)
  | None => True
  end.
Proof. gen_meas. Qed.

Lemma gen_stripe_PopulationProportionStderrs_base_values :
  match ssrc_PopulationProportionStderrs_base_values with
  | Some e => forall n subs rd vblk,
      holds_vec (senv_std n subs rd vblk no_cube) e DR
        (fun i => if rd then Fin 0%Q else vnth (vblk "table_proportion_stderrs" 0) i)
  | None => True
  end.
Proof. gen_meas. Qed.

Lemma gen_stripe_PopulationProportionStderrs_subtotal_values :
  match ssrc_PopulationProportionStderrs_subtotal_values with
  | Some e => forall n subs rd vblk,
      holds_vec (senv_std n subs rd vblk no_cube) e DRS
        (fun i => if rd then Fin 0%Q else vnth (vblk "table_proportion_stderrs" 1) i)
  | None => True
  end.
Proof. gen_meas. Qed.

(* ------------------------------------------------------------------------------------ *)
(** * cubepart.py: population counts and their margin of error *)

Definition part_names (z : Q) (s : string) : xq :=
  if String.eqb s "Z_975" then Fin z else NaN.
Definition part_scalars (N f : xq) (s : string) : xq :=
  if String.eqb s "_population" then N
  else if String.eqb s "_cube.population_fraction" then f else NaN.
Definition part_mat (p : string) (m : list (list xq)) (s : string) : mval :=
  if String.eqb s p then VMat DR DC (mnth m) else VErr.
Definition part_vec (p : string) (v : list xq) (s : string) : mval :=
  if String.eqb s p then VVec DR (vnth v) else VErr.

Ltac gen_part :=
  gen_meas_core ltac:(cbv [part_names part_scalars part_mat part_vec String.eqb Ascii.eqb Bool.eqb])
                ltac:(unfold pop_cell, moe_cell, Z975).

Lemma gen_Slice_population_counts :
  match psrc_Slice_population_counts with
  | Some e => forall nr nc z N f P,
      holds_mat (penv_std nr nc (part_names z) (part_scalars N f) (part_mat "population_proportions" P)) e DR DC
        (fun i j => pop_cell (mnth P i j) N f false)
  | None => True
  end.
Proof. gen_part. Qed.

Lemma gen_Slice_population_counts_moe :
  match psrc_Slice_population_counts_moe, tbl_Z_975 with
  | Some e, Some z => forall nr nc N f S,
      holds_mat (penv_std nr nc (part_names z) (part_scalars N f) (part_mat "population_std_err" S)) e DR DC
        (fun i j => moe_cell (mnth S i j) N f)
  | _, _ => True
  end.
Proof. gen_part. Qed.

Lemma gen_Strand_population_counts :
  match psrc_Strand_population_counts with
  | Some e => forall n z N f P,
      holds_vec (penv_std n 0 (part_names z) (part_scalars N f) (part_vec "population_proportions" P)) e DR
        (fun i => pop_cell (vnth P i) N f false)
  | None => True
  end.
Proof. gen_part. Qed.

Lemma gen_Strand_population_counts_moe :
  match psrc_Strand_population_counts_moe, tbl_Z_975 with
  | Some e, Some z => forall n N f S,
      holds_vec (penv_std n 0 (part_names z) (part_scalars N f) (part_vec "population_proportion_stderrs" S)) e DR
        (fun i => moe_cell (vnth S i) N f)
  | _, _ => True
  end.
Proof. gen_part. Qed.
