(* Proofs about Model/PairwiseLegacy.v and Model/OverlapBases.v: what the definitions MEAN. *)
From Coq Require Import QArith Qabs ZArith List Bool Lia Arith Lqa.
From CC Require Import Base.XQ Base.ListX Model.CubeCounts Model.Pairwise Model.PairwiseP Model.PairwiseLegacy
     Model.OverlapBases Proofs.PairwiseXQ Proofs.PairwiseProofs.
Import ListNotations.
Local Open Scope Q_scope.

(* ---- the column-summary test IS the two-proportion test on the column shares ---- *)
Theorem summary_tabs_formula (cb cb0 N : Q) :
  0 < N ->
  let p := cb / N in let p0 := cb0 / N in
  0 < p * (1 - p) / N + p0 * (1 - p0) / N ->
  summary_tabs (Fin cb) (Fin N) (Fin cb0) (Fin N) =x=
  Fin ((p - p0) * Qabs (p - p0) / (p * (1 - p) / N + p0 * (1 - p0) / N)).
Proof.
  intros HN p p0 HS. unfold summary_tabs.
  assert (HN0 : ~ N == 0) by lra.
  rewrite !(xdiv_fin _ _ HN0). fold p p0.
  assert (E : xadd (prop_var (Fin p) (Fin N)) (prop_var (Fin p0) (Fin N)) = Fin (qS p N p0 N)).
  { rewrite !prop_var_fin by exact HN0. reflexivity. }
  assert (ES : qS p N p0 N == p * (1 - p) / N + p0 * (1 - p0) / N)
    by (unfold qS, qpv, Qminus; reflexivity).
  rewrite (legacy_tabs_eq _ _ _ _ _ E) by lra.
  apply t_formula; assumption.
Qed.

Theorem summary_df_cell cb c j : (j < length cb)%nat ->
  vnth (summary_df cb c) j = t_df (vnth cb j) (vnth cb c).
Proof. intros H. unfold summary_df. rewrite tab_vnth by exact H. reflexivity. Qed.

(* ---- the scale-mean test: pooled two-sample t ---- *)
Definition qpool (n v n0 v0 : Q) : Q := ((n0 - 1) * v0 + (n - 1) * v) / (n0 + n - 2).

Theorem scale_tabs_formula (m v n m0 v0 n0 : Q) :
  ~ n == 0 -> ~ n0 == 0 -> ~ n0 + n - 2 == 0 ->
  0 < qpool n v n0 v0 -> 0 < 1 / n0 + 1 / n ->
  scale_tabs (Fin m) (Fin v) (Fin n) (Fin m0) (Fin v0) (Fin n0) =x=
  Fin ((m - m0) * Qabs (m - m0) / (qpool n v n0 v0 * (1 / n0 + 1 / n))).
Proof.
  intros Hn Hn0 Hd Hp Hs.
  unfold scale_tabs, pooled_var, nonneg_or_nan. xfin.
  assert (Hd' : ~ n0 + n + - (2) == 0) by (intro E; apply Hd; rewrite <- E; ring).
  rewrite (xdiv_fin _ _ Hd'). rewrite (xdiv_fin _ _ Hn0), (xdiv_fin _ _ Hn). xfin.
  assert (E1 : ((n0 + - (1)) * v0 + (n + - (1)) * v) / (n0 + n + - (2)) == qpool n v n0 v0)
    by (unfold qpool, Qminus; reflexivity).
  assert (L1 : xltb (Fin (((n0 + - (1)) * v0 + (n + - (1)) * v) / (n0 + n + - (2)))) (Fin 0) = false)
    by (apply xltb_fin_false; rewrite E1; lra).
  assert (L2 : xltb (Fin (1 / n0 + 1 / n)) (Fin 0) = false) by (apply xltb_fin_false; lra).
  rewrite L1, L2. xfin.
  rewrite xdiv_fin.
  - apply xeq_Fin. unfold Qminus. rewrite E1. reflexivity.
  - rewrite E1. intro E. assert (0 < qpool n v n0 v0 * (1 / n0 + 1 / n)) by nra. lra.
Qed.

Theorem scale_df_sym n n0 : scale_df n0 n =x= scale_df n n0.
Proof. unfold scale_df. destruct n as [p| |], n0 as [q| |]; simpl; try reflexivity; try ring;
       destruct neg; try destruct neg0; reflexivity. Qed.

Theorem scale_df_fin (n n0 : Q) : scale_df (Fin n) (Fin n0) =x= Fin (n0 + n - 2).
Proof. unfold scale_df. simpl. unfold Qminus. reflexivity. Qed.

(* the counts of the scale-mean test: rows WITHOUT a numeric value do not count *)
Local Close Scope Q_scope.
Theorem valid_counts_all_valid nv M nr j :
  (forall i, i < nr -> is_nan (vnth nv i) = false) ->
  valid_counts nv M nr j = xsum (map (fun i => mnth M i j) (seq 0 nr)).
Proof.
  intros H. unfold valid_counts. f_equal. f_equal.
  assert (G : forall l, (forall i, In i l -> is_nan (vnth nv i) = false) ->
              filter (fun i => negb (is_nan (vnth nv i))) l = l).
  { induction l as [|a t IH]; intros Hl; [reflexivity|].
    simpl. rewrite (Hl a) by (left; reflexivity). simpl. f_equal. apply IH.
    intros i Hi. apply Hl. right. exact Hi. }
  apply G. intros i Hi. apply in_seq in Hi. apply H. lia.
Qed.

Theorem valid_counts_none_valid nv M nr j :
  (forall i, i < nr -> is_nan (vnth nv i) = true) -> valid_counts nv M nr j = Fin 0.
Proof.
  intros H. unfold valid_counts.
  assert (G : forall l, (forall i, In i l -> is_nan (vnth nv i) = true) ->
              filter (fun i => negb (is_nan (vnth nv i))) l = []).
  { induction l as [|a t IH]; intros Hl; [reflexivity|].
    simpl. rewrite (Hl a) by (left; reflexivity). simpl. apply IH.
    intros i Hi. apply Hl. right. exact Hi. }
  rewrite G; [reflexivity|]. intros i Hi. apply in_seq in Hi. apply H. lia.
Qed.

(* ---- index tuples ---- *)
Theorem legacy_where_spec alpha ol pv tv n j :
  In j (legacy_where alpha ol pv tv n) <->
  j < n /\ xltb (pv j) alpha = true /\ (ol = true -> xltb (tv j) (Fin 0%Q) = true).
Proof.
  unfold legacy_where. rewrite filter_In, in_seq, andb_true_iff, orb_true_iff, negb_true_iff.
  split.
  - intros [Hj [Hp Ht]]. repeat split; try lia; try assumption.
    intros ->. destruct Ht as [Ht|Ht]; [discriminate|exact Ht].
  - intros [Hj [Hp Ht]]. repeat split; try lia; try assumption.
    destruct ol; [right; apply Ht; reflexivity|left; reflexivity].
Qed.

(* the selected column is kept out by its own statistic: t = 0 under only_larger, p = 1 otherwise *)
Theorem legacy_where_self_excluded_t alpha pv tv n c :
  tv c = Fin 0%Q \/ tv c = NaN -> ~ In c (legacy_where alpha true pv tv n).
Proof.
  intros H Hin. apply legacy_where_spec in Hin. destruct Hin as [_ [_ Ht]].
  specialize (Ht eq_refl). destruct H as [H|H]; rewrite H in Ht; discriminate Ht.
Qed.

Theorem legacy_where_self_excluded_p (alpha : Q) ol pv tv n c :
  (alpha <= 1)%Q -> pv c = Fin 1%Q \/ pv c = NaN -> ~ In c (legacy_where (Fin alpha) ol pv tv n).
Proof.
  intros Ha H Hin. apply legacy_where_spec in Hin. destruct Hin as [_ [Hp _]].
  destruct H as [H|H]; rewrite H in Hp; [|discriminate Hp].
  apply xltb_fin in Hp. lra.
Qed.

(* ---- which planes of the overlap measures ---- *)
Theorem overlap_slice_2d ndim tmr k T : ndim < 3 -> overlap_slice ndim tmr k T = T.
Proof. intros H. unfold overlap_slice, slice_at. rewrite (proj2 (Nat.ltb_lt _ _) H). reflexivity. Qed.

Theorem overlap_slice_mr_table ndim k T idx : 3 <= ndim ->
  overlap_slice ndim true k T idx = T (k :: 0 :: idx).
Proof. intros H. unfold overlap_slice, slice_at. rewrite (proj2 (Nat.ltb_ge _ _) H). reflexivity. Qed.

Theorem overlap_slice_cat_table ndim k T idx : 3 <= ndim ->
  overlap_slice ndim false k T idx = T (k :: idx).
Proof. intros H. unfold overlap_slice, slice_at. rewrite (proj2 (Nat.ltb_ge _ _) H). reflexivity. Qed.

(* CAT x MR: the bases are the same for every row; with a (selected, other, missing) selection axis the
   valid base adds the selected and the other plane and leaves the missing one out *)
Theorem cm_bases_row_independent O V ncat sel r r' a b :
  selected_of O ncat sel false r a b = selected_of O ncat sel false r' a b /\
  valid_of V ncat sel false r a b = valid_of V ncat sel false r' a b.
Proof. split; reflexivity. Qed.

Theorem cm_valid_excludes_missing V ncat r a b :
  cm_valid V ncat 3 r a b =
  xsumn ncat (fun c => xadd (V [c; a; 0; b]) (xadd (V [c; a; 1; b]) (Fin 0%Q))).
Proof. reflexivity. Qed.

Theorem mm_valid_excludes_missing V r a b :
  mm_valid V 3 r a b =
  xadd (xadd (V [r; 0; a; 0; b]) (xadd (V [r; 0; a; 1; b]) (Fin 0%Q)))
       (xadd (xadd (V [r; 1; a; 0; b]) (xadd (V [r; 1; a; 1; b]) (Fin 0%Q))) (Fin 0%Q)).
Proof. reflexivity. Qed.

Theorem mm_selected_planes O r a b :
  mm_selected O 3 r a b = xadd (O [r; 0; a; 0; b]) (xadd (O [r; 1; a; 0; b]) (Fin 0%Q)).
Proof. reflexivity. Qed.
