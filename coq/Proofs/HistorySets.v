(* C18, CubeSet histories: (1) inflation - every history over responses in which the responses of a
   numeric-measure CubeSet are used by that CubeSet only is pure (induction over arbitrary op
   lists); (2) augment_response - idempotence, purity of repeated CubeSets. *)
From Coq Require Import ZArith List Bool Lia Arith String.
From CC Require Import Base.Ident Model.Shim Model.History Proofs.HistoryArray.
Import ListNotations.
Local Open Scope nat_scope.

(* ---- inflate_all, exactly --------------------------------------------------------------------- *)
Lemma inflate_all_notin l : forall r i, ~ In i l -> inflate_all r l i = r i.
Proof.
  unfold inflate_all. induction l as [|a t IH]; intros r i H; simpl; [reflexivity|].
  rewrite IH by (intros Hin; apply H; right; exact Hin).
  destruct (Nat.eqb_spec i a) as [E|N]; [exfalso; apply H; left; congruence|reflexivity].
Qed.

Lemma inflate_all_nodup l : forall r i, NoDup l -> In i l -> inflate_all r l i = S (r i).
Proof.
  unfold inflate_all. induction l as [|a t IH]; intros r i Hnd Hin; simpl; [contradiction|].
  inversion Hnd as [|? ? Hnot Hnd']; subst. destruct Hin as [E|Hin].
  - subst a. pose proof (inflate_all_notin t (fun j => if Nat.eqb j i then S (r j) else r j) i Hnot) as K.
    unfold inflate_all in K. rewrite K. rewrite Nat.eqb_refl. reflexivity.
  - rewrite (IH _ i Hnd' Hin). destruct (Nat.eqb_spec i a) as [E|N]; [subst; contradiction|reflexivity].
Qed.

(* ---- histories ----------------------------------------------------------------------------------- *)
Definition rop_eq_dec (x y : rop) : {x = y} + {x <> y}.
Proof. decide equality; try apply Nat.eq_dec. apply (list_eq_dec Nat.eq_dec). Defined.

(* x is a numeric set (on the pristine responses) => y is the same operation or shares no response *)
Definition compat (r0 : nat -> nat) (x y : rop) : Prop :=
  numeric0 r0 x = true -> y = x \/ (forall i, In i (touches x) -> ~ In i (touches y)).
(* H3: the responses of a numeric-measure CubeSet are used by that CubeSet only *)
Definition groups_ok (r0 : nat -> nat) (ops : list rop) : Prop :=
  (forall x, In x ops -> numeric0 r0 x = true -> NoDup (touches x)) /\
  (forall x y, In x ops -> In y ops -> compat r0 x y).

(* has response i been inflated by one of the executed operations? *)
Definition infl (r0 : nat -> nat) (done : list rop) (i : nat) : bool :=
  existsb (fun x => numeric0 r0 x && existsb (Nat.eqb i) (touches x)) done.

Lemma existsb_eqb_In i l : existsb (Nat.eqb i) l = true <-> In i l.
Proof.
  rewrite existsb_exists. split.
  - intros [j [Hj E]]. apply Nat.eqb_eq in E. subst. exact Hj.
  - intros H. exists i. split; [exact H|apply Nat.eqb_refl].
Qed.

Lemma infl_true r0 done i :
  infl r0 done i = true <-> exists x, In x done /\ numeric0 r0 x = true /\ In i (touches x).
Proof.
  unfold infl. rewrite existsb_exists. split.
  - intros [x [Hx B]]. apply andb_true_iff in B. destruct B as [B1 B2].
    exists x. split; [exact Hx|]. split; [exact B1|]. apply existsb_eqb_In. exact B2.
  - intros [x [Hx [B1 B2]]]. exists x. split; [exact Hx|]. apply andb_true_iff. split; [exact B1|].
    apply existsb_eqb_In. exact B2.
Qed.

Lemma infl_false r0 done i :
  (forall x, In x done -> numeric0 r0 x = true -> ~ In i (touches x)) -> infl r0 done i = false.
Proof.
  intros H. destruct (infl r0 done i) eqn:E; [|reflexivity]. apply infl_true in E.
  destruct E as [x [Hx [B1 B2]]]. exfalso. exact (H x Hx B1 B2).
Qed.

Lemma infl_snoc r0 done x i :
  infl r0 (done ++ [x]) i = infl r0 done i || (numeric0 r0 x && existsb (Nat.eqb i) (touches x)).
Proof. unfold infl. rewrite existsb_app. simpl. rewrite orb_false_r. reflexivity. Qed.

Definition RInv (r0 r : nat -> nat) (done : list rop) : Prop :=
  forall i, r i = if infl r0 done i then S (r0 i) else r0 i.

Definition pristine_out (r0 : nat -> nat) (x : rop) : list pkind :=
  match snd (rstep (r0, []) x) with [k] => k | _ => [] end.

Lemma is_numeric_set_ext r r' l :
  (forall i, In i l -> r i = r' i) -> is_numeric_set r l = is_numeric_set r' l.
Proof.
  intros H. destruct l as [|i [|j t]]; simpl; try reflexivity.
  rewrite (H i (or_introl eq_refl)). reflexivity.
Qed.

Lemma map_kind_ext (r r' : nat -> nat) l :
  (forall i, In i l -> r i = r' i) -> map (fun i => kind_of (r i)) l = map (fun i => kind_of (r' i)) l.
Proof. intros H. apply map_ext_in. intros i Hi. rewrite (H i Hi). reflexivity. Qed.

Lemma numeric_head_pos r l : is_numeric_set r l = true -> exists i t, l = i :: t /\ r i = 0.
Proof.
  destruct l as [|i [|j t]]; simpl; try discriminate. intros H. apply Nat.eqb_eq in H.
  exists i, (j :: t). split; [reflexivity|exact H].
Qed.

Lemma rstep_inv r0 r done out x all :
  groups_ok r0 all -> incl (done ++ [x]) all -> RInv r0 r done ->
  let sr := rstep (r, out) x in
  RInv r0 (fst sr) (done ++ [x]) /\ snd sr = out ++ [pristine_out r0 x].
Proof.
  intros [GN GC] Hincl HI.
  assert (Hx : In x all) by (apply Hincl; apply in_or_app; right; left; reflexivity).
  assert (Hd : forall y, In y done -> In y all) by (intros y Hy; apply Hincl; apply in_or_app; left; exact Hy).
  destruct x as [i|l]; simpl.
  - (* a single cube: its response was never inflated *)
    assert (E : infl r0 done i = false).
    { apply infl_false. intros y Hy Ny Hin. destruct (GC y (MkCube i) (Hd y Hy) Hx Ny) as [E|Dj].
      - subst y. discriminate Ny.
      - apply (Dj i Hin). left. reflexivity. }
    split.
    + intros j. rewrite infl_snoc. simpl. rewrite orb_false_r. apply HI.
    + unfold pristine_out. simpl. rewrite (HI i), E. reflexivity.
  - destruct (numeric0 r0 (MkSet l)) eqn:Nx; pose proof Nx as Nx'; simpl in Nx'.
    + (* a numeric-measure set *)
      pose proof (GN _ Hx Nx) as Hnd. simpl in Hnd.
      assert (P : pristine_out r0 (MkSet l) = map (fun i => kind_of (S (r0 i))) l).
      { unfold pristine_out. simpl. rewrite Nx'. simpl. apply map_ext_in.
        intros i Hi. rewrite (inflate_all_nodup l r0 i Hnd Hi). reflexivity. }
      destruct (in_dec rop_eq_dec (MkSet l) done) as [Hdone|Hnew].
      * (* run before: its responses are inflated, it is no longer numeric *)
        assert (Ei : forall i, In i l -> r i = S (r0 i)).
        { intros i Hi. rewrite (HI i). replace (infl r0 done i) with true; [reflexivity|].
          symmetry. apply infl_true. exists (MkSet l). split; [exact Hdone|]. split; [exact Nx|exact Hi]. }
        assert (Ns : is_numeric_set r l = false).
        { destruct (is_numeric_set r l) eqn:E; [|reflexivity]. exfalso.
          destruct (numeric_head_pos r l E) as [i [t [El Ez]]]. subst l.
          rewrite (Ei i (or_introl eq_refl)) in Ez. discriminate. }
        rewrite Ns. simpl. split.
        -- intros j. rewrite infl_snoc. rewrite (HI j).
           destruct (infl r0 done j) eqn:Ej; [reflexivity|]. simpl. rewrite Nx'. simpl.
           destruct (existsb (Nat.eqb j) l) eqn:Ein; [|reflexivity].
           apply existsb_eqb_In in Ein. exfalso.
           assert (infl r0 done j = true); [|congruence].
           apply infl_true. exists (MkSet l). split; [exact Hdone|]. split; [exact Nx|exact Ein].
        -- rewrite P. f_equal. f_equal. apply map_ext_in. intros i Hi. rewrite (Ei i Hi). reflexivity.
      * (* first run: its responses are pristine *)
        assert (Ei : forall i, In i l -> r i = r0 i).
        { intros i Hi. rewrite (HI i). rewrite infl_false; [reflexivity|].
          intros y Hy Ny Hin. destruct (GC y (MkSet l) (Hd y Hy) Hx Ny) as [E|Dj].
          - subst y. exact (Hnew Hy).
          - exact (Dj i Hin Hi). }
        assert (Ns : is_numeric_set r l = true).
        { rewrite (is_numeric_set_ext r r0 l Ei). exact Nx'. }
        rewrite Ns. simpl. split.
        -- intros j. rewrite infl_snoc. simpl. rewrite Nx'. simpl.
           destruct (existsb (Nat.eqb j) l) eqn:Ein.
           ++ apply existsb_eqb_In in Ein. rewrite orb_true_r.
              rewrite (inflate_all_nodup l r j Hnd Ein). rewrite (Ei j Ein). reflexivity.
           ++ rewrite orb_false_r. rewrite inflate_all_notin; [apply HI|].
              intros Hin. apply existsb_eqb_In in Hin. congruence.
        -- rewrite P. f_equal. f_equal. apply map_ext_in. intros i Hi.
           rewrite (inflate_all_nodup l r i Hnd Hi). rewrite (Ei i Hi). reflexivity.
    + (* not a numeric set: its responses were never inflated *)
      assert (Ei : forall i, In i l -> r i = r0 i).
      { intros i Hi. rewrite (HI i). rewrite infl_false; [reflexivity|].
        intros y Hy Ny Hin. destruct (GC y (MkSet l) (Hd y Hy) Hx Ny) as [E|Dj].
        - subst y. congruence.
        - exact (Dj i Hin Hi). }
      rewrite (is_numeric_set_ext r r0 l Ei), Nx'. simpl. split.
      * intros j. rewrite infl_snoc. simpl. rewrite Nx'. simpl. rewrite orb_false_r. apply HI.
      * unfold pristine_out. simpl. rewrite Nx'. simpl. f_equal. f_equal. apply map_kind_ext. exact Ei.
Qed.

Lemma rfold_inv r0 all ops : forall r done out,
  groups_ok r0 all -> incl (done ++ ops) all -> RInv r0 r done ->
  snd (fold_left rstep ops (r, out)) = out ++ map (pristine_out r0) ops.
Proof.
  induction ops as [|x ops IH]; intros r done out G Hincl HI; [simpl; rewrite app_nil_r; reflexivity|].
  cbn [fold_left map].
  assert (Hi1 : incl (done ++ [x]) all).
  { intros y Hy. apply Hincl. apply in_app_or in Hy. apply in_or_app.
    destruct Hy as [Hy|[Hy|[]]]; [left; exact Hy|right; left; exact Hy]. }
  pose proof (rstep_inv r0 r done out x all G Hi1 HI) as S. cbv zeta in S.
  destruct (rstep (r, out) x) as [r' out'] eqn:E. simpl in S. destruct S as [S1 S2]. subst out'.
  rewrite (IH r' (done ++ [x]) _ G); [rewrite <- app_assoc; reflexivity| |exact S1].
  rewrite <- app_assoc. exact Hincl.
Qed.

(* THE CubeSet history theorem: arbitrary op lists, numeric-measure sets included *)
Theorem response_reads_pure_groups r0 ops :
  groups_ok r0 ops -> rrun r0 ops = rrun_pristine r0 ops.
Proof.
  intros G. unfold rrun, rrun_pristine.
  rewrite (rfold_inv r0 ops ops r0 [] [] G); [reflexivity| |].
  - simpl. apply incl_refl.
  - intros i. reflexivity.
Qed.

(* the former hypothesis (no numeric set at all) is a special case *)
Lemma rop_ok_groups r0 ops : Forall (rop_ok r0) ops -> groups_ok r0 ops.
Proof.
  intros F. rewrite Forall_forall in F. split.
  - intros x Hx N. specialize (F x Hx). destruct x; simpl in *; congruence.
  - intros x y Hx _ N. specialize (F x Hx). destruct x; simpl in *; congruence.
Qed.

(* ---- augment_response ------------------------------------------------------------------------ *)
Lemma set_nth_len {A} n (a : A) l : List.length (set_nth n a l) = List.length l.
Proof. revert n. induction l as [|b t IH]; intros [|n]; simpl; auto. Qed.

Lemma py_setitem_length l p v l' : py_setitem l p v = Some l' -> List.length l' = List.length l.
Proof.
  unfold py_setitem. destruct p as [z|s|]; try discriminate.
  destruct ((0 <=? z)%Z && (z <? Z.of_nat (List.length l))%Z)%bool.
  - intros H; inversion H; subst. apply set_nth_len.
  - destruct ((- Z.of_nat (List.length l) <=? z)%Z && (z <? 0)%Z)%bool; [|discriminate].
    intros H; inversion H; subst. apply set_nth_len.
Qed.

Lemma a_fill_length pv : forall data d', a_fill data pv = Some d' -> List.length d' = List.length data.
Proof.
  induction pv as [|[p v] t IH]; simpl; intros data d' H.
  - inversion H; subst. reflexivity.
  - destruct (py_setitem data p v) as [d1|] eqn:E; [|discriminate].
    rewrite (IH d1 d' H). exact (py_setitem_length _ _ _ _ E).
Qed.

(* afterwards the filter cube has as many counts as the summary cube ... *)
Lemma augment_length f s f' :
  augment f s = Some f' -> List.length (a_counts f') = List.length (a_counts s).
Proof.
  unfold augment. destruct (Nat.eqb_spec (List.length (a_counts f)) (List.length (a_counts s))) as [E|N].
  - intros H; inversion H; subst. exact E.
  - destruct (a_fill _ _) as [data|] eqn:F; [|discriminate]. intros H; inversion H; subst. simpl.
    rewrite (a_fill_length _ _ _ F). apply repeat_length.
Qed.

(* ... so augmenting again changes nothing *)
Theorem augment_idem f s f' : augment f s = Some f' -> augment f' s = Some f'.
Proof.
  intros H. unfold augment. rewrite (augment_length f s f' H). rewrite Nat.eqb_refl. reflexivity.
Qed.

(* a history made of the SAME CubeSet over (s, f) any number of times is pure - provided the
   first one does not raise (an IndexError leaves the filter response half-edited) *)
Lemma augment_left_ok f s f' : augment f s = Some f' -> augment_left f s = f'.
Proof. intros H. unfold augment_left. rewrite H. reflexivity. Qed.

Lemma astep_set_ok s f out f1 :
  augment f s = Some f1 -> astep s (f, out) ASet = (f1, out ++ [Some (a_counts f1)]).
Proof. intros E. unfold astep. rewrite (augment_left_ok f s f1 E), E. reflexivity. Qed.

Lemma a_fold_fixed s f1 n : forall out,
  augment f1 s = Some f1 ->
  snd (fold_left (astep s) (repeat ASet n) (f1, out)) = out ++ repeat (Some (a_counts f1)) n.
Proof.
  induction n as [|n IH]; intros out H; [simpl; rewrite app_nil_r; reflexivity|].
  cbn [repeat fold_left]. rewrite (astep_set_ok s f1 out f1 H).
  rewrite (IH _ H). rewrite <- app_assoc. reflexivity.
Qed.

Lemma map_repeat_c {A B} (f : A -> B) a n : map f (repeat a n) = repeat (f a) n.
Proof. induction n as [|n IH]; simpl; [reflexivity|]. rewrite IH. reflexivity. Qed.

Theorem aset_reads_pure s f0 n :
  augment f0 s <> None ->
  a_run s f0 (repeat ASet n) = a_run_pristine s f0 (repeat ASet n).
Proof.
  intros Hok. unfold a_run, a_run_pristine. destruct n as [|n]; [reflexivity|].
  destruct (augment f0 s) as [f1|] eqn:E; [|congruence].
  cbn [repeat fold_left map]. rewrite (astep_set_ok s f0 [] f1 E).
  rewrite (a_fold_fixed s f1 n _ (augment_idem f0 s f1 E)). cbn [app snd]. f_equal.
  rewrite map_repeat_c. rewrite (astep_set_ok s f0 [] f1 E). reflexivity.
Qed.

(* when nothing has to be augmented (same number of counts) every history is pure *)
Theorem a_noaug_reads_pure s f0 ops :
  List.length (a_counts f0) = List.length (a_counts s) -> a_run s f0 ops = a_run_pristine s f0 ops.
Proof.
  intros L. assert (A : augment f0 s = Some f0) by (unfold augment; rewrite L, Nat.eqb_refl; reflexivity).
  assert (St : forall out x, astep s (f0, out) x = (f0, out ++ [Some (a_counts f0)])).
  { intros out x. destruct x; [apply astep_set_ok; exact A|reflexivity]. }
  unfold a_run, a_run_pristine.
  assert (G : forall out, fold_left (astep s) ops (f0, out) =
              (f0, out ++ map (fun x => match snd (astep s (f0, []) x) with [k] => k | _ => None end) ops)).
  { induction ops as [|x ops IH]; intros out; [simpl; rewrite app_nil_r; reflexivity|].
    cbn [fold_left map]. rewrite (St out x), (St [] x). rewrite IH. cbn [snd app].
    rewrite <- app_assoc. reflexivity. }
  rewrite G. reflexivity.
Qed.
