(* C18, CubeSet histories over a summary response and a single-filter-column response:
   augment_response (repaired, 502c5e20 / 537d2a70) returns a cube on a response of its own, so EVERY
   history is pure and the caller's filter response is the pristine one afterwards; the idempotence
   of the padding (what made repeating the same CubeSet safe under the former in-place design) is
   still a theorem about [augment] as a function. *)
From Coq Require Import ZArith List Bool Lia Arith String.
From CC Require Import Base.Ident Model.Shim Model.History.
Import ListNotations.
Local Open Scope nat_scope.

(* ---- augment_response ------------------------------------------------------------------------ *)
Lemma set_nth_len {A} n (a : A) l : List.length (set_nth n a l) = List.length l.
Proof. revert n. induction l as [|b t IH]; intros [|n]; simpl; auto. Qed.

Lemma py_setitem_length l p v l' : py_setitem l p v = Some l' -> List.length l' = List.length l.
Proof.
  unfold py_setitem. destruct p as [z|s|]; try discriminate.
  destruct ((0 <=? z)%Z && (z <? Z.of_nat (List.length l))%Z)%bool.
  - intros H; inversion H; subst. apply set_nth_len.
  - destruct ((- Z.of_nat (List.length l) <=? z)%Z && (z <? 0)%Z)%bool; [|discriminate].
    intros H; inversion H; subst. apply set_nth_len.
Qed.

Lemma a_fill_length pv : forall data d', a_fill data pv = Some d' -> List.length d' = List.length data.
Proof.
  induction pv as [|[p v] t IH]; simpl; intros data d' H.
  - inversion H; subst. reflexivity.
  - destruct (py_setitem data p v) as [d1|] eqn:E; [|discriminate].
    rewrite (IH d1 d' H). exact (py_setitem_length _ _ _ _ E).
Qed.

(* afterwards the filter cube has as many counts as the summary cube ... *)
Lemma augment_length f s f' :
  augment f s = Some f' -> List.length (a_counts f') = List.length (a_counts s).
Proof.
  unfold augment. destruct (Nat.eqb_spec (List.length (a_counts f)) (List.length (a_counts s))) as [E|N].
  - intros H; inversion H; subst. exact E.
  - destruct (a_fill _ _) as [data|] eqn:F; [|discriminate]. intros H; inversion H; subst. simpl.
    rewrite (a_fill_length _ _ _ F). apply repeat_length.
Qed.

(* ... so augmenting again changes nothing *)
Theorem augment_idem f s f' : augment f s = Some f' -> augment f' s = Some f'.
Proof.
  intros H. unfold augment. rewrite (augment_length f s f' H). rewrite Nat.eqb_refl. reflexivity.
Qed.

(* ---- histories ------------------------------------------------------------------------------------ *)
Definition a_out (s f : aresp) (x : aop) : option (list Z) :=
  match snd (astep s (f, []) x) with [k] => k | _ => None end.

Lemma astep_spec s f out x : astep s (f, out) x = (f, out ++ [a_out s f x]).
Proof. destruct x; reflexivity. Qed.

Lemma a_fold s f0 ops : forall out,
  fold_left (astep s) ops (f0, out) = (f0, out ++ map (a_out s f0) ops).
Proof.
  induction ops as [|x ops IH]; intros out; simpl; [rewrite app_nil_r; reflexivity|].
  change (fold_left (astep s) ops (astep s (f0, out) x) = (f0, out ++ a_out s f0 x :: map (a_out s f0) ops)).
  rewrite astep_spec, IH, <- app_assoc. reflexivity.
Qed.

(* THE augment history theorem: EVERY list of CubeSet([s, f]) / Cube(f) operations - padded or
   not, raising (summary ids that are no positions) or not *)
Theorem a_reads_pure s f0 ops : a_run s f0 ops = a_run_pristine s f0 ops.
Proof. unfold a_run, a_run_pristine. rewrite (a_fold s f0 ops []). reflexivity. Qed.

(* ... and the caller's filter response is the pristine one afterwards *)
Theorem a_run_state_unchanged s f0 ops : a_run_state s f0 ops = f0.
Proof. unfold a_run_state. rewrite (a_fold s f0 ops []). reflexivity. Qed.

(* the histories the former design made safe are special cases *)
Theorem aset_reads_pure s f0 n : a_run s f0 (repeat ASet n) = a_run_pristine s f0 (repeat ASet n).
Proof. apply a_reads_pure. Qed.
