(* C09: a vector is empty iff every unweighted count that is eligible for it is zero. *)
From Coq Require Import List Arith Bool Lia QArith.
From CC Require Import Spec.OrderSpec Model.OrderPruning Proofs.OrderCollate Proofs.OrderVisible.
Import ListNotations.
Local Close Scope Q_scope.
Local Open Scope nat_scope.

Lemma sumn_zero_nth l : sumn l = 0 <-> forall k, nth k l 0 = 0.
Proof.
  induction l as [|x t IH]; simpl.
  - split; auto. intros _ [|k]; reflexivity.
  - split.
    + intros H [|k]; [lia|]. apply IH. lia.
    + intros H. assert (x = 0) by (apply (H 0)).
      assert (sumn t = 0) by (apply IH; intros k; apply (H (S k))). lia.
Qed.

Lemma nth_map_default {A B} (f : A -> B) l k dA : nth k (map f l) (f dA) = f (nth k l dA).
Proof. apply map_nth. Qed.

Lemma sum2_zero m : sum2 m = 0 <-> forall j s, nth s (nth j m []) 0 = 0.
Proof.
  unfold sum2. rewrite sumn_zero_nth. split.
  - intros H j. apply sumn_zero_nth. rewrite <- (nth_map_default sumn m j []). apply H.
  - intros H j. change 0 with (sumn []) at 1. rewrite (nth_map_default sumn m j []).
    apply sumn_zero_nth. apply H.
Qed.

Lemma sum3_zero t : sum3 t = 0 <-> forall s1 j s2, nth s2 (nth j (nth s1 t []) []) 0 = 0.
Proof.
  unfold sum3. rewrite sumn_zero_nth. split.
  - intros H s1. apply sum2_zero. rewrite <- (nth_map_default sum2 t s1 []). apply H.
  - intros H s1. change 0 with (sum2 []) at 1. rewrite (nth_map_default sum2 t s1 []).
    apply sum2_zero. apply H.
Qed.

Lemma nth_firstn_1 {A} (l : list A) k d : nth k (firstn 1 l) d = if Nat.eqb k 0 then nth 0 l d else d.
Proof.
  destruct l as [|x t]; simpl.
  - destruct k; reflexivity.
  - destruct k as [|k]; simpl; auto. destruct k; reflexivity.
Qed.

Lemma nth_nil {A} k (d : A) : nth k [] d = d.
Proof. destruct k; reflexivity. Qed.

(* --- rows ------------------------------------------------------------------------------------ *)
Theorem rows_base_zero_iff (mrxmr : bool) (u : t4) i :
  i < List.length u ->
  (nth i (rows_pruning_base mrxmr u) 0 = 0 <->
   forall s1 j s2, (mrxmr = false \/ s1 = 0) -> cell4 u i s1 j s2 = 0).
Proof.
  intros Hi. unfold rows_pruning_base.
  rewrite (nth_indep _ 0 ((fun ui => sum3 (if mrxmr then firstn 1 ui else ui)) []))
    by (rewrite map_length; exact Hi).
  rewrite (map_nth (fun ui => sum3 (if mrxmr then firstn 1 ui else ui))).
  rewrite sum3_zero. unfold cell4. destruct mrxmr.
  - split.
    + intros H s1 j s2 [E|E]; [discriminate|]. subst. specialize (H 0 j s2).
      rewrite nth_firstn_1 in H. exact H.
    + intros H s1 j s2. rewrite nth_firstn_1. destruct (Nat.eqb s1 0) eqn:E.
      * apply (H 0 j s2). auto.
      * rewrite !nth_nil. reflexivity.
  - split; intros H s1 j s2; [intros _|]; apply H; auto.
Qed.

(* --- columns --------------------------------------------------------------------------------- *)
Lemma sumn_map_zero {A} (f : A -> nat) l dA :
  f dA = 0 -> (sumn (map f l) = 0 <-> forall k, f (nth k l dA) = 0).
Proof.
  intros D. rewrite sumn_zero_nth. split; intros H k.
  - rewrite <- (map_nth f). rewrite D. apply H.
  - rewrite <- D at 1. rewrite (map_nth f). apply H.
Qed.

Theorem columns_base_zero_iff (mrxmr : bool) (ncols : nat) (u : t4) j :
  j < ncols ->
  (nth j (columns_pruning_base mrxmr ncols u) 0 = 0 <->
   forall i s1 s2, (mrxmr = false \/ s2 = 0) -> cell4 u i s1 j s2 = 0).
Proof.
  intros Hj. unfold columns_pruning_base.
  set (F := fun j0 => sumn (map (fun ui => sumn (map (fun uis =>
              sumn (let c := nth j0 uis [] in if mrxmr then firstn 1 c else c)) ui)) u)).
  rewrite (nth_indep _ 0 (F 0)) by (rewrite map_length, seq_length; exact Hj).
  rewrite (map_nth F), seq_nth by exact Hj. simpl. unfold F.
  rewrite (sumn_map_zero _ u []) by reflexivity.
  assert (D : sumn (let c := nth j (@nil (list nat)) [] in if mrxmr then firstn 1 c else c) = 0).
  { rewrite nth_nil. destruct mrxmr; reflexivity. }
  split.
  - intros H i s1 s2 C. specialize (H i).
    rewrite (sumn_map_zero _ (nth i u []) []) in H by exact D.
    specialize (H s1). cbv zeta in H. rewrite sumn_zero_nth in H. specialize (H s2).
    unfold cell4. destruct mrxmr.
    + destruct C as [C|C]; [discriminate|]. subst. rewrite nth_firstn_1 in H. exact H.
    + exact H.
  - intros H i. rewrite (sumn_map_zero _ (nth i u []) []) by exact D.
    intros s1. cbv zeta. rewrite sumn_zero_nth. intros s2. unfold cell4 in H. destruct mrxmr.
    + rewrite nth_firstn_1. destruct (Nat.eqb s2 0) eqn:E; [|reflexivity]. apply H. auto.
    + apply H. auto.
Qed.

(* --- strands --------------------------------------------------------------------------------- *)
Theorem strand_base_zero_iff (u : list (list nat)) i :
  i < List.length u ->
  (nth i (strand_pruning_base u) 0 = 0 <-> forall s, nth s (nth i u []) 0 = 0).
Proof.
  intros Hi. unfold strand_pruning_base.
  change 0 with (sumn []) at 1. rewrite (map_nth sumn). apply sumn_zero_nth.
Qed.

(* --- empties ---------------------------------------------------------------------------------- *)
Lemma empties_of_in base i :
  In i (empties_of base) <-> i < List.length base /\ nth i base 0 = 0.
Proof.
  unfold empties_of. rewrite in_map_iff. split.
  - intros ([k b] & E & H). simpl in E. subst. apply filter_In in H. destruct H as [H Z].
    simpl in Z. apply Nat.eqb_eq in Z. subst.
    apply (in_enumerate_iff _ _ _ 0) in H. destruct H as [H E]. rewrite E. auto.
  - intros [H Z]. exists (i, nth i base 0). split; auto. apply filter_In. split.
    + apply nth_in_enumerate. exact H.
    + simpl. apply Nat.eqb_eq. exact Z.
Qed.

Lemma empties_of_nodup base : NoDup (empties_of base).
Proof.
  unfold empties_of.
  assert (N : NoDup (map fst (enumerate base))) by (rewrite fst_enumerate; apply seq_NoDup).
  revert N. generalize (enumerate base). induction l as [|x t IH]; simpl; intros N; [constructor|].
  inversion N; subst. destruct (Nat.eqb (snd x) 0); simpl; auto.
  constructor; auto. intros I. apply H1. apply in_map_iff in I. destruct I as (y & E & Hy).
  apply filter_In in Hy. rewrite <- E. apply in_map. apply Hy.
Qed.

Theorem empty_rows_iff mrxmr (u : t4) (w : t4w) i :
  In i (empty_rows mrxmr u w) <->
  i < List.length u /\
  forall s1 j s2, (mrxmr = false \/ s1 = 0) -> cell4 u i s1 j s2 = 0.
Proof.
  unfold empty_rows. rewrite empties_of_in. unfold rows_pruning_base at 1. rewrite map_length.
  split; intros [H Z]; split; auto; apply (rows_base_zero_iff mrxmr u i H); exact Z.
Qed.

Theorem empty_columns_iff mrxmr ncols (u : t4) (w : t4w) j :
  In j (empty_columns mrxmr ncols u w) <->
  j < ncols /\
  forall i s1 s2, (mrxmr = false \/ s2 = 0) -> cell4 u i s1 j s2 = 0.
Proof.
  unfold empty_columns. rewrite empties_of_in. unfold columns_pruning_base at 1.
  rewrite map_length, seq_length.
  split; intros [H Z]; split; auto; apply (columns_base_zero_iff mrxmr ncols u j H); exact Z.
Qed.

Theorem empty_strand_rows_iff (u : list (list nat)) w i :
  In i (empty_strand_rows u w) <->
  i < List.length u /\ forall s, nth s (nth i u []) 0 = 0.
Proof.
  unfold empty_strand_rows. rewrite empties_of_in. unfold strand_pruning_base at 1.
  rewrite map_length.
  split; intros [H Z]; split; auto; apply (strand_base_zero_iff u i H); exact Z.
Qed.

(* weights play no part *)
Theorem empty_unweighted mrxmr ncols (u : t4) (w w' : t4w) (us : list (list nat)) ws ws' :
  empty_rows mrxmr u w = empty_rows mrxmr u w' /\
  empty_columns mrxmr ncols u w = empty_columns mrxmr ncols u w' /\
  empty_strand_rows us ws = empty_strand_rows us ws'.
Proof. repeat split. Qed.

(* --- the named consequences -------------------------------------------------------------------- *)
Theorem positive_cell_not_pruned mrxmr ncols (u : t4) w i j :
  0 < cell4 u i 0 j 0 ->
  ~ In i (empty_rows mrxmr u w) /\ ~ In j (empty_columns mrxmr ncols u w).
Proof.
  intros P. split; intros H.
  - apply empty_rows_iff in H. destruct H as [_ H]. specialize (H 0 j 0 (or_intror eq_refl)). lia.
  - apply empty_columns_iff in H. destruct H as [_ H]. specialize (H i 0 0 (or_intror eq_refl)). lia.
Qed.

Theorem no_eligible_pruned mrxmr ncols (u : t4) w :
  (forall i, i < List.length u -> (forall s1 j s2, cell4 u i s1 j s2 = 0) -> In i (empty_rows mrxmr u w)) /\
  (forall j, j < ncols -> (forall i s1 s2, cell4 u i s1 j s2 = 0) -> In j (empty_columns mrxmr ncols u w)).
Proof.
  split.
  - intros i Hi Z. apply empty_rows_iff. split; auto.
  - intros j Hj Z. apply empty_columns_iff. split; auto.
Qed.

(* an item that was answered (state 1 = not selected) but never selected is NOT empty,
   unless both dimensions are multiple response *)
Theorem mr_unselected_nonempty ncols (u : t4) w i j s :
  (0 < cell4 u i 1 j s -> ~ In i (empty_rows false u w)) /\
  (0 < cell4 u i s j 1 -> ~ In j (empty_columns false ncols u w)).
Proof.
  split; intros P H.
  - apply empty_rows_iff in H. destruct H as [_ H]. specialize (H 1 j s (or_introl eq_refl)). lia.
  - apply empty_columns_iff in H. destruct H as [_ H]. specialize (H i s 1 (or_introl eq_refl)). lia.
Qed.

Theorem mrxmr_selected_only ncols (u : t4) w :
  (forall i, i < List.length u ->
     (In i (empty_rows true u w) <-> forall j s2, cell4 u i 0 j s2 = 0)) /\
  (forall j, j < ncols ->
     (In j (empty_columns true ncols u w) <-> forall i s1, cell4 u i s1 j 0 = 0)).
Proof.
  split.
  - intros i Hi. rewrite empty_rows_iff. split.
    + intros [_ H] j s2. apply H. auto.
    + intros H. split; auto. intros s1 j s2 [E|E]; [discriminate|]. subst. apply H.
  - intros j Hj. rewrite empty_columns_iff. split.
    + intros [_ H] i s1. apply H. auto.
    + intros H. split; auto. intros i s1 s2 [E|E]; [discriminate|]. subst. apply H.
Qed.

(* --- composed: rows of a slice ------------------------------------------------------------------- *)
From CC Require Import Model.Collator.
From Coq Require Import ZArith.

Theorem rows_visible d o mrxmr (u : t4) w psub order i :
  NoDup (d_ids d) -> values_fit d o -> List.length u = List.length (d_elems d) ->
  display_order d o (empty_rows mrxmr u w) psub = Ok order ->
  (In (Z.of_nat i) order <->
   i < List.length (d_elems d)
   /\ ~ In i (hidden_idxs d)
   /\ ~ (d_prune d = true /\
         forall s1 j s2, (mrxmr = false \/ s1 = 0) -> cell4 u i s1 j s2 = 0)).
Proof.
  intros N F L E. rewrite (display_visible_iff d o _ psub order i N F E).
  rewrite empty_rows_iff, L. tauto.
Qed.

Theorem columns_visible d o mrxmr (u : t4) w psub order j :
  NoDup (d_ids d) -> values_fit d o ->
  display_order d o (empty_columns mrxmr (List.length (d_elems d)) u w) psub = Ok order ->
  (In (Z.of_nat j) order <->
   j < List.length (d_elems d)
   /\ ~ In j (hidden_idxs d)
   /\ ~ (d_prune d = true /\
         forall i s1 s2, (mrxmr = false \/ s2 = 0) -> cell4 u i s1 j s2 = 0)).
Proof.
  intros N F E. rewrite (display_visible_iff d o _ psub order j N F E).
  rewrite empty_columns_iff. tauto.
Qed.

Theorem strand_rows_visible d o (u : list (list nat)) w order i :
  NoDup (d_ids d) -> values_fit d o -> List.length u = List.length (d_elems d) ->
  display_order d o (empty_strand_rows u w) false = Ok order ->
  (In (Z.of_nat i) order <->
   i < List.length (d_elems d)
   /\ ~ In i (hidden_idxs d)
   /\ ~ (d_prune d = true /\ forall s, nth s (nth i u []) 0 = 0)).
Proof.
  intros N F L E. rewrite (display_visible_iff d o _ false order i N F E).
  rewrite empty_strand_rows_iff, L. tauto.
Qed.

(* subtotals of the rows: all of them, or none when the columns prune and are all empty *)
Theorem row_subtotals_visible d o empties mrxmr ncols (u : t4) w col_prune order z :
  NoDup (d_ids d) -> values_fit d o -> (z < 0)%Z ->
  display_order d o empties
    (prune_subtotals col_prune (empty_columns mrxmr ncols u w) ncols) = Ok order ->
  (In z order <->
   (- Z.of_nat (List.length (subtotals d)) <= z)%Z
   /\ ~ (col_prune = true /\ forall j, j < ncols -> In j (empty_columns mrxmr ncols u w))).
Proof.
  intros N F Hz E. rewrite (display_subtotal_iff d o empties _ order z N F Hz E).
  assert (A := all_empty_iff (empty_columns mrxmr ncols u w) ncols
                 (empties_of_nodup _)).
  assert (B : forall i, In i (empty_columns mrxmr ncols u w) -> i < ncols).
  { intros i Hi. apply empty_columns_iff in Hi. apply Hi. }
  specialize (A B).
  destruct (prune_subtotals col_prune (empty_columns mrxmr ncols u w) ncols) eqn:P.
  - apply prune_subtotals_iff in P. destruct P as [P1 P2]. assert (P3 := proj1 A P2).
    split; [intros [X _]; discriminate|]. intros [_ X]. exfalso. apply X. auto.
  - split; [|intros [X _]; auto]. intros [_ X]. split; auto.
    intros [C1 C2]. assert (C3 := proj2 A C2).
    assert (prune_subtotals col_prune (empty_columns mrxmr ncols u w) ncols = true)
      by (apply prune_subtotals_iff; auto).
    congruence.
Qed.
