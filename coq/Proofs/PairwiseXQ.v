(* Generic facts about the extended rationals needed by the pairwise-test proofs
   (negation through subtraction, x*|x| and division; monotonicity of the comparison). *)
From Coq Require Import QArith Qabs ZArith List Bool Lia Setoid Morphisms Lqa.
From CC Require Import Base.XQ.
Open Scope Q_scope.

Lemma qzero_opp p : qzero (- p) = qzero p.
Proof.
  destruct (qzero p) eqn:E.
  - apply qzero_true in E. apply qzero_true. lra.
  - apply qzero_false in E. apply qzero_false. intros H. apply E. lra.
Qed.

Lemma qneg_opp p : ~ p == 0 -> qneg (- p) = negb (qneg p).
Proof.
  intros H. destruct (qneg p) eqn:E; simpl.
  - apply qneg_true in E. apply qneg_false. lra.
  - apply qneg_false in E. apply qneg_true.
    destruct (Qlt_le_dec 0 p) as [L|L]; [lra|]. exfalso. apply H. lra.
Qed.

Lemma xneg_involutive a : xneg (xneg a) =x= a.
Proof. destruct a as [p|[|]|]; simpl; auto. ring. Qed.

Lemma xsub_antisym a b : xsub b a =x= xneg (xsub a b).
Proof.
  destruct a as [p|[|]|], b as [q|[|]|]; simpl; auto. ring.
Qed.

Lemma xmul_xabs_neg d : xmul (xneg d) (xabs (xneg d)) =x= xneg (xmul d (xabs d)).
Proof.
  destruct d as [q|[|]|]; [|simpl; auto..].
  unfold xneg, xabs, xmul, xeq. rewrite Qabs_opp. ring.
Qed.

Lemma xdiv_xneg_l a b : xdiv (xneg a) b =x= xneg (xdiv a b).
Proof.
  destruct a as [p|s|], b as [q|t|]; simpl; auto.
  - rewrite qzero_opp. destruct (qzero q) eqn:Eq.
    + destruct (qzero p) eqn:Ep; simpl; auto.
      apply qzero_false in Ep. rewrite (qneg_opp p Ep). reflexivity.
    + simpl. apply qzero_false in Eq. field. exact Eq.
  - ring.
  - destruct s, (qneg q); reflexivity.
Qed.

Lemma xabs_xneg a : xabs (xneg a) =x= xabs a.
Proof. destruct a as [q|[|]|]; [|simpl; auto..]. unfold xneg, xabs, xeq. apply Qabs_opp. Qed.

#[global] Instance xltb_Proper : Proper (xeq ==> xeq ==> eq) xltb.
Proof.
  intros [p|s|] [q|t|] H1 [p'|s'|] [q'|t'|] H2; simpl in *; try tauto; subst; auto.
  destruct (Qlt_le_dec p p') as [L|L], (Qlt_le_dec q q') as [L'|L']; auto; exfalso.
  - rewrite H1, H2 in L. apply (Qlt_not_le _ _ L L').
  - rewrite <- H1, <- H2 in L'. apply (Qlt_not_le _ _ L' L).
Qed.

Lemma xltb_fin p q : xltb (Fin p) (Fin q) = true <-> p < q.
Proof.
  simpl. destruct (Qlt_le_dec p q) as [L|L]; split; auto; try discriminate.
  intros H. exfalso. apply (Qlt_not_le _ _ H L).
Qed.

Lemma xltb_fin_false p q : xltb (Fin p) (Fin q) = false <-> q <= p.
Proof.
  simpl. destruct (Qlt_le_dec p q) as [L|L]; split; auto; try discriminate.
  intros H. exfalso. apply (Qlt_not_le _ _ L H).
Qed.

(* x < a and a <= b  =>  x < b   (NaN compares false) *)
Lemma xltb_mono_r x a b : a <= b -> xltb x (Fin a) = true -> xltb x (Fin b) = true.
Proof.
  intros H. destruct x as [p|s|]; simpl; auto.
  destruct (Qlt_le_dec p a) as [L|L]; [|discriminate]. intros _.
  destruct (Qlt_le_dec p b) as [L'|L']; auto. exfalso. lra.
Qed.

Lemma xdiv_fin' p q : ~ q == 0 -> xdiv (Fin p) (Fin q) = Fin (p / q).
Proof. apply xdiv_fin. Qed.

Lemma xsgn_neg_iff a : xltb a (Fin 0) = true <-> xsgn a = Some (-1)%Z.
Proof.
  destruct a as [p|[|]|]; simpl; split; try discriminate; auto.
  - destruct (Qlt_le_dec p 0) as [L|L]; [|discriminate]. intros _.
    assert (Z : qzero p = false) by (apply qzero_false; lra).
    assert (N : qneg p = true) by (apply qneg_true; exact L).
    rewrite Z, N. reflexivity.
  - destruct (qzero p) eqn:Z; [discriminate|]. destruct (qneg p) eqn:N; [|discriminate].
    intros _. apply qneg_true in N. destruct (Qlt_le_dec p 0); auto. lra.
Qed.
