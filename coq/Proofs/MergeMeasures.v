(* Proofs/MergeMeasures.v -- MERGE EQUIVALENCE for the measure BLOCKS of the model and for the
   measures derived from counts and bases.

   Part 1 (any matrices): if the four first-order quantities of a subtotal row agree with the
   merged row (counts, row / column / table bases), then so do the row / column / table
   proportions, their variances (the three-term formula with no negative term == the body
   formula), the squared standard errors and the signed-square z-score of the cell.
   Part 2: the hypotheses of part 1 are theorems for the tabulation of a survey and its
   recoding (Proofs/MergeSurvey.v), which gives the end-to-end statements used by Props/C04.v.
   Part 3: rules for differences and the categorical-date rule, NaN measures. *)
From Coq Require Import QArith ZArith List Bool Lia Arith Setoid Morphisms.
From CC Require Import Base.XQ Base.ListX Spec.Survey Spec.Merge Model.CubeCounts Model.Subtotals
     Model.Proportions Model.Variance Model.Zscore
     Proofs.CubeCountsProofs Proofs.ProportionsProofs Proofs.VarianceProofs Proofs.PairwiseXQ
     Proofs.MergeSum Proofs.MergeSurvey.
Import ListNotations.
Local Close Scope Q_scope.
Local Open Scope nat_scope.

(* ------------------------------------------------------------------------------------ *)
(** * congruences *)

#[global] Instance xsq_Proper : Proper (xeq ==> xeq) xsq.
Proof. intros a b H. unfold xsq. rewrite H. reflexivity. Qed.

#[global] Instance calc_var_Proper :
  Proper (xeq ==> xeq ==> xeq ==> xeq ==> xeq ==> xeq) calc_var.
Proof.
  intros p p' Hp t t' Ht a a' Ha i i' Hi n n' Hn. unfold calc_var.
  rewrite Hp, Ht, Ha, Hi, Hn. reflexivity.
Qed.

#[global] Instance var_cell_Proper : Proper (xeq ==> xeq ==> xeq ==> xeq ==> xeq) var_cell.
Proof.
  intros p p' Hp t t' Ht a a' Ha n n' Hn. unfold var_cell.
  rewrite Hp, Ht, Ha, Hn. reflexivity.
Qed.

#[global] Instance z_zabs_Proper : Proper (xeq ==> xeq ==> xeq ==> xeq ==> xeq) z_zabs.
Proof.
  intros c c' Hc r r' Hr k k' Hk t t' Ht. unfold z_zabs, z_resid, z_variance, z_expected.
  assert (Hv : xdiv (xmul (xmul (xmul r k) (xsub t r)) (xsub t k)) (xmul (xmul t t) t)
               =x= xdiv (xmul (xmul (xmul r' k') (xsub t' r')) (xsub t' k')) (xmul (xmul t' t') t'))
    by (rewrite Hr, Hk, Ht; reflexivity).
  rewrite (xltb_Proper _ _ Hv (Fin 0) (Fin 0) (xeq_refl _)).
  destruct (xltb _ (Fin 0)); [reflexivity|].
  rewrite Hv, Hc, Hr, Hk, Ht. reflexivity.
Qed.

(* ------------------------------------------------------------------------------------ *)
(** * Part 1: the inserted-row blocks of the model, cell by cell *)

Section RowBlocks.
  Variable nr nc : nat.
  Variable rsubs csubs : list subtotal.
  Variable kk : nat.
  Hypothesis Hkk : kk < length rsubs.
  Let s := nth kk rsubs nosub.

  Lemma count_blocks_rows counts dn j : j < nc ->
    mnth (b_rows (count_blocks nr nc rsubs csubs counts dn)) kk j = subrow_cell counts dn s j.
  Proof. intros Hj. unfold count_blocks, sum_blocks; simpl. rewrite tab2_mnth by assumption. reflexivity. Qed.

  Lemma row_base_blocks_rows rb j : j < nc ->
    mnth (b_rows (row_base_blocks nr nc rsubs csubs rb)) kk j = subrow_cell rb true s j.
  Proof. intros Hj. unfold row_base_blocks; simpl. rewrite tab2_mnth by assumption. reflexivity. Qed.

  Lemma col_base_blocks_rows cb j : j < nc ->
    mnth (b_rows (col_base_blocks nr nc rsubs csubs cb)) kk j = mnth cb 0 j.
  Proof. intros Hj. unfold col_base_blocks; simpl. rewrite tab2_mnth by assumption. reflexivity. Qed.

  Lemma table_base_blocks_rows tb j : j < nc ->
    mnth (b_rows (table_base_blocks nr nc rsubs csubs tb)) kk j = mnth tb 0 j.
  Proof. intros Hj. unfold table_base_blocks; simpl. rewrite tab2_mnth by assumption. reflexivity. Qed.
End RowBlocks.

(* base cells of the same block builders (used for the merged table) *)
Lemma count_blocks_base nr nc rsubs csubs counts dn : b_base (count_blocks nr nc rsubs csubs counts dn) = counts.
Proof. reflexivity. Qed.
Lemma row_base_blocks_base nr nc rsubs csubs rb : b_base (row_base_blocks nr nc rsubs csubs rb) = rb.
Proof. reflexivity. Qed.
Lemma col_base_blocks_base nr nc rsubs csubs cb : b_base (col_base_blocks nr nc rsubs csubs cb) = cb.
Proof. reflexivity. Qed.
Lemma table_base_blocks_base nr nc rsubs csubs tb : b_base (table_base_blocks nr nc rsubs csubs tb) = tb.
Proof. reflexivity. Qed.

Section DerivedRow.
  (* original table: nr x nc with subtotals rsubs / csubs; merged table: nr' x nc with any
     insertions rsubs' / csubs'; [kk] = the subtotal under study, [mrow] = the merged row *)
  Variables nr nc nr' : nat.
  Variables rsubs csubs rsubs' csubs' : list subtotal.
  Variable kk mrow j : nat.
  Variables counts rb cb tb counts' rb' cb' tb' : mat.
  Variables dn dn' rd cd rd' cd' : bool.
  Hypothesis Hkk : kk < length rsubs.
  Hypothesis Hj : j < nc.
  Hypothesis Hm : mrow < nr'.
  Let s := nth kk rsubs nosub.
  Hypothesis Hsub : s_sub s = [].
  (* the four first-order agreements *)
  Hypothesis Hcnt : forall b, subrow_cell counts b s j =x= mnth counts' mrow j.
  Hypothesis Hrb : subrow_cell rb true s j =x= mnth rb' mrow j.
  Hypothesis Hcb : mnth cb 0 j =x= mnth cb' mrow j.
  Hypothesis Htb : mnth tb 0 j =x= mnth tb' mrow j.

  Lemma has_subs_s : has_subs s = false.
  Proof. unfold has_subs. rewrite Hsub. reflexivity. Qed.

  Let CB := count_blocks nr nc rsubs csubs counts dn.
  Let CB' := count_blocks nr' nc rsubs' csubs' counts' dn'.

  (* --- proportions --- *)
  Theorem derived_row_proportions :
    mnth (b_rows (row_proportions nr nc rsubs csubs counts dn rd cd rb)) kk j
    =x= mnth (b_base (row_proportions nr' nc rsubs' csubs' counts' dn' rd' cd' rb')) mrow j.
  Proof.
    unfold row_proportions.
    rewrite (props_rows nr nc rsubs csubs _ _ rb counts rd cd kk j Hkk Hj). cbv zeta.
    fold s. rewrite has_subs_s, andb_false_r.
    rewrite (props_base nr' nc rsubs' csubs' _ _ rb' counts' rd' cd' mrow j Hm Hj).
    rewrite (count_blocks_rows nr nc rsubs csubs kk Hkk counts dn j Hj),
            (row_base_blocks_rows nr nc rsubs csubs kk Hkk rb j Hj).
    rewrite count_blocks_base, row_base_blocks_base. fold s. rewrite (Hcnt dn), Hrb. reflexivity.
  Qed.

  Theorem derived_column_proportions :
    mnth (b_rows (col_proportions nr nc rsubs csubs counts dn rd cd cb)) kk j
    =x= mnth (b_base (col_proportions nr' nc rsubs' csubs' counts' dn' rd' cd' cb')) mrow j.
  Proof.
    unfold col_proportions.
    rewrite (props_rows nr nc rsubs csubs _ _ cb counts rd cd kk j Hkk Hj). cbv zeta.
    fold s. rewrite has_subs_s, andb_false_r.
    rewrite (props_base nr' nc rsubs' csubs' _ _ cb' counts' rd' cd' mrow j Hm Hj).
    rewrite (count_blocks_rows nr nc rsubs csubs kk Hkk counts dn j Hj),
            (col_base_blocks_rows nr nc rsubs csubs kk Hkk cb j Hj).
    rewrite count_blocks_base, col_base_blocks_base. fold s. rewrite (Hcnt dn), Hcb. reflexivity.
  Qed.

  Theorem derived_table_proportions :
    mnth (b_rows (table_proportions nr nc rsubs csubs counts dn tb)) kk j
    =x= mnth (b_base (table_proportions nr' nc rsubs' csubs' counts' dn' tb')) mrow j.
  Proof.
    unfold table_proportions, div_blocks. cbn [b_rows b_base].
    rewrite (tab2_mnth _ _ _ kk j Hkk Hj), (tab2_mnth _ _ _ mrow j Hm Hj).
    rewrite (count_blocks_rows nr nc rsubs csubs kk Hkk counts dn j Hj),
            (table_base_blocks_rows nr nc rsubs csubs kk Hkk tb j Hj).
    rewrite count_blocks_base, table_base_blocks_base. fold s. rewrite (Hcnt dn), Htb. reflexivity.
  Qed.

  (* --- variances: three-term formula with no negative term vs. the body formula --- *)
  Section Var.
    (* P, T: proportion and weighted-base blocks of one direction (row / column / table) *)
    Variables P T P' T' : blocks.
    Hypothesis HP : mnth (b_rows P) kk j =x= mnth (b_base P') mrow j.
    Hypothesis HT : mnth (b_rows T) kk j =x= mnth (b_base T') mrow j.

    Theorem derived_variance :
      mnth (b_rows (variance_blocks counts nr nc rsubs csubs P T)) kk j
      =x= mnth (b_base (variance_blocks counts' nr' nc rsubs' csubs' P' T')) mrow j.
    Proof.
      destruct (var_blocks_pointwise counts nr nc rsubs csubs P T) as [_ [_ [Hrows _]]].
      destruct (var_blocks_pointwise counts' nr' nc rsubs' csubs' P' T') as [Hbase _].
      rewrite (Hrows kk j Hkk Hj), (Hbase mrow j Hm Hj).
      destruct (pos_neg_rows counts nr nc rsubs csubs kk j Hkk Hj) as [-> ->].
      destruct (pos_neg_base counts' nr' nc rsubs' csubs' mrow j Hm Hj) as [-> ->].
      fold s. rewrite Hsub. unfold sum_rows at 2. simpl map. simpl xsum.
      rewrite HP, HT.
      rewrite <- (subrow_cell_nosub counts false s j Hsub), (Hcnt false). reflexivity.
    Qed.

    (* squared standard error = variance / base *)
    Theorem derived_stderr_sq :
      stderr_sq (mnth (b_rows (variance_blocks counts nr nc rsubs csubs P T)) kk j) (mnth (b_rows T) kk j)
      =x= stderr_sq (mnth (b_base (variance_blocks counts' nr' nc rsubs' csubs' P' T')) mrow j)
                    (mnth (b_base T') mrow j).
    Proof. unfold stderr_sq. rewrite derived_variance, HT. reflexivity. Qed.
  End Var.

  (* --- z-score of the cell (signed square), from its count and three bases --- *)
  Theorem derived_zscore_cell :
    z_zabs (mnth (b_rows CB) kk j)
           (mnth (b_rows (row_base_blocks nr nc rsubs csubs rb)) kk j)
           (mnth (b_rows (col_base_blocks nr nc rsubs csubs cb)) kk j)
           (mnth (b_rows (table_base_blocks nr nc rsubs csubs tb)) kk j)
    =x= z_zabs (mnth (b_base CB') mrow j) (mnth rb' mrow j) (mnth cb' mrow j) (mnth tb' mrow j).
  Proof.
    unfold CB, CB'.
    rewrite (count_blocks_rows nr nc rsubs csubs kk Hkk counts dn j Hj),
            (row_base_blocks_rows nr nc rsubs csubs kk Hkk rb j Hj),
            (col_base_blocks_rows nr nc rsubs csubs kk Hkk cb j Hj),
            (table_base_blocks_rows nr nc rsubs csubs kk Hkk tb j Hj).
    rewrite count_blocks_base. fold s. rewrite (Hcnt dn), Hrb, Hcb, Htb. reflexivity.
  Qed.

  (* --- ANY measure that is a function of the cell's count and three bases --- *)
  Theorem derived_any (f : xq -> xq -> xq -> xq -> xq) :
    Proper (xeq ==> xeq ==> xeq ==> xeq ==> xeq) f ->
    f (subrow_cell counts dn s j) (subrow_cell rb true s j) (mnth cb 0 j) (mnth tb 0 j)
    =x= f (mnth counts' mrow j) (mnth rb' mrow j) (mnth cb' mrow j) (mnth tb' mrow j).
  Proof. intros Hf. apply Hf; [apply Hcnt| exact Hrb| exact Hcb| exact Htb]. Qed.
End DerivedRow.

(* variance of a subtotal without subtrahends is p(1-p) whenever p = count / base *)
Theorem variance_no_subtrahends (p Nt Np : Q) : ~ (Nt == 0)%Q -> (p == Np / Nt)%Q ->
  var_cell (Fin p) (Fin Nt) (Fin Np) (Fin 0) =x= Fin (p * (1 - p))%Q.
Proof. exact (var_no_negatives p Nt Np). Qed.

(* ------------------------------------------------------------------------------------ *)
(** * Part 2: end to end for a survey (row subtotal) *)

Section RowSurvey.
  Variable S : survey.
  Variable tv : tvar.
  Variables vr vc : nat.
  Variable kc : kind.
  Variables ms mc : list bool.
  Variable k : nat.
  Variables rsubs csubs rsubs' csubs' : list subtotal.
  Variable kk : nat.
  Variables dn dn' rd cd rd' cd' : bool.
  Hypothesis Ht : t_ok tv.
  Hypothesis Hc : cat_or_mr kc.
  Hypothesis Hk : k < t_n tv.
  Hypothesis Hvar : vc <> vr.
  Hypothesis Htv : tv_other tv vr.
  Hypothesis Hkk : kk < length rsubs.
  Let s := nth kk rsubs nosub.
  Hypothesis Hsub : s_sub s = [].
  Hypothesis Hoffs : Forall (fun i => i < n_valid ms) (s_add s).
  Hypothesis Hnd : NoDup (s_add s).
  Hypothesis Hfresh : fresh_for vr ms S.
  Hypothesis Hpos : 0 < n_valid ms.

  Let nr := nval ms.
  Let nc := nval mc.
  Let nr' := Datatypes.S nr.
  Let ms' := merged_flags ms.
  Let S' := merged_rows_survey S vr ms s.
  Let V := slice_of tv vr KCat ms vc kc mc S k.
  Let V' := slice_of tv vr KCat ms' vc kc mc S' k.
  Let sl := length mrv.

  (* the base blocks of the original and of the merged table *)
  Definition o_counts := tab2 nr nc (counts_of V CCat (kcls kc)).
  Definition o_rb := tab2 nr nc (row_bases_of V nc sl CCat (kcls kc)).
  Definition o_cb := tab2 nr nc (column_bases_of V nr sl CCat (kcls kc)).
  Definition o_tb := tab2 nr nc (table_bases_of V nr nc sl sl CCat (kcls kc)).
  Definition m_counts := tab2 nr' nc (counts_of V' CCat (kcls kc)).
  Definition m_rb := tab2 nr' nc (row_bases_of V' nc sl CCat (kcls kc)).
  Definition m_cb := tab2 nr' nc (column_bases_of V' nr' sl CCat (kcls kc)).
  Definition m_tb := tab2 nr' nc (table_bases_of V' nr' nc sl sl CCat (kcls kc)).

  Lemma nrlt : nr < nr'. Proof. unfold nr'. lia. Qed.
  Lemma nval_ms' : nval ms' = nr'. Proof. apply n_valid_merged. Qed.

  Section Cell.
    Variable j : nat.
    Hypothesis Hj : j < nc.

    Lemma A_counts b : subrow_cell o_counts b s j =x= mnth m_counts nr j.
    Proof.
      unfold o_counts, m_counts. rewrite (tab2_mnth nr' nc _ nr j nrlt Hj).
      apply (merge_counts_row S tv vr vc kc ms mc k s Ht Hc Hk Hvar Htv Hsub Hoffs Hnd Hfresh b j Hj).
    Qed.
    Lemma A_rb : subrow_cell o_rb true s j =x= mnth m_rb nr j.
    Proof.
      unfold o_rb, m_rb. rewrite (tab2_mnth nr' nc _ nr j nrlt Hj).
      apply (merge_row_bases_row S tv vr vc kc ms mc k s Ht Hc Hk Hvar Htv Hsub Hoffs Hnd Hfresh true j Hj).
    Qed.
    Lemma A_cb : mnth o_cb 0 j =x= mnth m_cb nr j.
    Proof.
      unfold o_cb, m_cb. rewrite (tab2_mnth nr' nc _ nr j nrlt Hj). rewrite <- nval_ms'.
      apply (merge_column_bases_row S tv vr vc kc ms mc k s Ht Hc Hk Hvar Htv Hoffs Hfresh j Hpos Hj).
    Qed.
    Lemma A_tb : mnth o_tb 0 j =x= mnth m_tb nr j.
    Proof.
      unfold o_tb, m_tb. rewrite (tab2_mnth nr' nc _ nr j nrlt Hj). rewrite <- nval_ms'.
      apply (merge_table_bases_row S tv vr vc kc ms mc k s Ht Hc Hk Hvar Htv Hoffs Hfresh j Hpos Hj).
    Qed.

    (* counts and the three weighted bases, as blocks of the model *)
    Theorem merge_block_counts :
      mnth (b_rows (count_blocks nr nc rsubs csubs o_counts dn)) kk j =x= mnth m_counts nr j.
    Proof. rewrite (count_blocks_rows nr nc rsubs csubs kk Hkk o_counts dn j Hj). apply A_counts. Qed.
    Theorem merge_block_row_bases :
      mnth (b_rows (row_base_blocks nr nc rsubs csubs o_rb)) kk j =x= mnth m_rb nr j.
    Proof. rewrite (row_base_blocks_rows nr nc rsubs csubs kk Hkk o_rb j Hj). apply A_rb. Qed.
    Theorem merge_block_column_bases :
      mnth (b_rows (col_base_blocks nr nc rsubs csubs o_cb)) kk j =x= mnth m_cb nr j.
    Proof. rewrite (col_base_blocks_rows nr nc rsubs csubs kk Hkk o_cb j Hj). apply A_cb. Qed.
    Theorem merge_block_table_bases :
      mnth (b_rows (table_base_blocks nr nc rsubs csubs o_tb)) kk j =x= mnth m_tb nr j.
    Proof. rewrite (table_base_blocks_rows nr nc rsubs csubs kk Hkk o_tb j Hj). apply A_tb. Qed.

    (* proportions *)
    Theorem merge_row_proportions :
      mnth (b_rows (row_proportions nr nc rsubs csubs o_counts dn rd cd o_rb)) kk j
      =x= mnth (b_base (row_proportions nr' nc rsubs' csubs' m_counts dn' rd' cd' m_rb)) nr j.
    Proof.
      apply (derived_row_proportions nr nc nr' rsubs csubs rsubs' csubs' kk nr j
               o_counts o_rb m_counts m_rb dn dn' rd cd rd' cd' Hkk Hj nrlt Hsub A_counts A_rb).
    Qed.
    Theorem merge_column_proportions :
      mnth (b_rows (col_proportions nr nc rsubs csubs o_counts dn rd cd o_cb)) kk j
      =x= mnth (b_base (col_proportions nr' nc rsubs' csubs' m_counts dn' rd' cd' m_cb)) nr j.
    Proof.
      apply (derived_column_proportions nr nc nr' rsubs csubs rsubs' csubs' kk nr j
               o_counts o_cb m_counts m_cb dn dn' rd cd rd' cd' Hkk Hj nrlt Hsub A_counts A_cb).
    Qed.
    Theorem merge_table_proportions :
      mnth (b_rows (table_proportions nr nc rsubs csubs o_counts dn o_tb)) kk j
      =x= mnth (b_base (table_proportions nr' nc rsubs' csubs' m_counts dn' m_tb)) nr j.
    Proof.
      apply (derived_table_proportions nr nc nr' rsubs csubs rsubs' csubs' kk nr j
               o_counts o_tb m_counts m_tb dn dn' Hkk Hj nrlt A_counts A_tb).
    Qed.

    (* variances and squared standard errors, three directions *)
    Let Pr := row_proportions nr nc rsubs csubs o_counts dn rd cd o_rb.
    Let Pr' := row_proportions nr' nc rsubs' csubs' m_counts dn' rd' cd' m_rb.
    Let Tr := row_base_blocks nr nc rsubs csubs o_rb.
    Let Tr' := row_base_blocks nr' nc rsubs' csubs' m_rb.
    Let Pc := col_proportions nr nc rsubs csubs o_counts dn rd cd o_cb.
    Let Pc' := col_proportions nr' nc rsubs' csubs' m_counts dn' rd' cd' m_cb.
    Let Tc := col_base_blocks nr nc rsubs csubs o_cb.
    Let Tc' := col_base_blocks nr' nc rsubs' csubs' m_cb.
    Let Pt := table_proportions nr nc rsubs csubs o_counts dn o_tb.
    Let Pt' := table_proportions nr' nc rsubs' csubs' m_counts dn' m_tb.
    Let Tt := table_base_blocks nr nc rsubs csubs o_tb.
    Let Tt' := table_base_blocks nr' nc rsubs' csubs' m_tb.

    Theorem merge_row_variance :
      mnth (b_rows (variance_blocks o_counts nr nc rsubs csubs Pr Tr)) kk j
      =x= mnth (b_base (variance_blocks m_counts nr' nc rsubs' csubs' Pr' Tr')) nr j.
    Proof.
      apply (derived_variance nr nc nr' rsubs csubs rsubs' csubs' kk nr j o_counts m_counts
               Hkk Hj nrlt Hsub A_counts Pr Tr Pr' Tr' merge_row_proportions merge_block_row_bases).
    Qed.
    Theorem merge_column_variance :
      mnth (b_rows (variance_blocks o_counts nr nc rsubs csubs Pc Tc)) kk j
      =x= mnth (b_base (variance_blocks m_counts nr' nc rsubs' csubs' Pc' Tc')) nr j.
    Proof.
      apply (derived_variance nr nc nr' rsubs csubs rsubs' csubs' kk nr j o_counts m_counts
               Hkk Hj nrlt Hsub A_counts Pc Tc Pc' Tc' merge_column_proportions merge_block_column_bases).
    Qed.
    Theorem merge_table_variance :
      mnth (b_rows (variance_blocks o_counts nr nc rsubs csubs Pt Tt)) kk j
      =x= mnth (b_base (variance_blocks m_counts nr' nc rsubs' csubs' Pt' Tt')) nr j.
    Proof.
      apply (derived_variance nr nc nr' rsubs csubs rsubs' csubs' kk nr j o_counts m_counts
               Hkk Hj nrlt Hsub A_counts Pt Tt Pt' Tt' merge_table_proportions merge_block_table_bases).
    Qed.

    Theorem merge_row_stderr_sq :
      stderr_sq (mnth (b_rows (variance_blocks o_counts nr nc rsubs csubs Pr Tr)) kk j) (mnth (b_rows Tr) kk j)
      =x= stderr_sq (mnth (b_base (variance_blocks m_counts nr' nc rsubs' csubs' Pr' Tr')) nr j) (mnth (b_base Tr') nr j).
    Proof. unfold stderr_sq. rewrite merge_row_variance. unfold Tr at 1. rewrite merge_block_row_bases. reflexivity. Qed.
    Theorem merge_column_stderr_sq :
      stderr_sq (mnth (b_rows (variance_blocks o_counts nr nc rsubs csubs Pc Tc)) kk j) (mnth (b_rows Tc) kk j)
      =x= stderr_sq (mnth (b_base (variance_blocks m_counts nr' nc rsubs' csubs' Pc' Tc')) nr j) (mnth (b_base Tc') nr j).
    Proof. unfold stderr_sq. rewrite merge_column_variance. unfold Tc at 1. rewrite merge_block_column_bases. reflexivity. Qed.
    Theorem merge_table_stderr_sq :
      stderr_sq (mnth (b_rows (variance_blocks o_counts nr nc rsubs csubs Pt Tt)) kk j) (mnth (b_rows Tt) kk j)
      =x= stderr_sq (mnth (b_base (variance_blocks m_counts nr' nc rsubs' csubs' Pt' Tt')) nr j) (mnth (b_base Tt') nr j).
    Proof. unfold stderr_sq. rewrite merge_table_variance. unfold Tt at 1. rewrite merge_block_table_bases. reflexivity. Qed.

    (* residual z-score of the cell: z*|z| from the cell's count and its three bases *)
    Theorem merge_zscore_cell :
      z_zabs (mnth (b_rows (count_blocks nr nc rsubs csubs o_counts dn)) kk j)
             (mnth (b_rows Tr) kk j) (mnth (b_rows Tc) kk j) (mnth (b_rows Tt) kk j)
      =x= z_zabs (mnth m_counts nr j) (mnth m_rb nr j) (mnth m_cb nr j) (mnth m_tb nr j).
    Proof.
      unfold Tr, Tc, Tt.
      rewrite merge_block_counts, merge_block_row_bases, merge_block_column_bases, merge_block_table_bases.
      reflexivity.
    Qed.

    (* every measure that is a (congruent) function of the cell's count and three bases *)
    Theorem merge_any_cell_measure (f : xq -> xq -> xq -> xq -> xq) :
      Proper (xeq ==> xeq ==> xeq ==> xeq ==> xeq) f ->
      f (mnth (b_rows (count_blocks nr nc rsubs csubs o_counts dn)) kk j)
        (mnth (b_rows Tr) kk j) (mnth (b_rows Tc) kk j) (mnth (b_rows Tt) kk j)
      =x= f (mnth m_counts nr j) (mnth m_rb nr j) (mnth m_cb nr j) (mnth m_tb nr j).
    Proof.
      intros Hf. unfold Tr, Tc, Tt.
      apply Hf; [apply merge_block_counts| apply merge_block_row_bases
                 | apply merge_block_column_bases| apply merge_block_table_bases].
    Qed.
  End Cell.
End RowSurvey.

(* ------------------------------------------------------------------------------------ *)
(** * Part 3: differences, the categorical-date rule *)

Section Differences.
  Variable nr nc : nat.
  Variable rsubs csubs : list subtotal.

  (* own-direction base of a difference is NaN: row bases of a row difference ... *)
  Theorem diff_row_base_nan rb kk j : kk < length rsubs -> j < nc ->
    has_subs (nth kk rsubs nosub) = true ->
    mnth (b_rows (row_base_blocks nr nc rsubs csubs rb)) kk j = NaN.
  Proof.
    intros Hk Hj Hd. rewrite (row_base_blocks_rows nr nc rsubs csubs kk Hk rb j Hj).
    unfold subrow_cell. rewrite Hd. reflexivity.
  Qed.

  (* ... column bases of a column difference *)
  Theorem diff_col_base_nan cb i l : i < nr -> l < length csubs ->
    has_subs (nth l csubs nosub) = true ->
    mnth (b_cols (col_base_blocks nr nc rsubs csubs cb)) i l = NaN.
  Proof.
    intros Hi Hl Hd. unfold col_base_blocks; simpl. rewrite tab2_mnth by assumption.
    unfold subcol_cell. rewrite Hd. reflexivity.
  Qed.

  (* own-direction proportion of a difference is NaN (not on a categorical-date dimension) *)
  Theorem diff_row_proportion_nan counts dn cd rb kk j : kk < length rsubs -> j < nc ->
    has_subs (nth kk rsubs nosub) = true ->
    mnth (b_rows (row_proportions nr nc rsubs csubs counts dn false cd rb)) kk j = NaN.
  Proof.
    intros Hk Hj Hd. unfold row_proportions.
    rewrite (props_rows nr nc rsubs csubs _ _ rb counts false cd kk j Hk Hj). cbv zeta. simpl andb. cbv iota.
    rewrite (diff_row_base_nan rb kk j Hk Hj Hd). apply xdiv_nan_r.
  Qed.

  Theorem diff_col_proportion_nan counts dn rd cb i l : i < nr -> l < length csubs ->
    has_subs (nth l csubs nosub) = true ->
    mnth (b_cols (col_proportions nr nc rsubs csubs counts dn rd false cb)) i l = NaN.
  Proof.
    intros Hi Hl Hd. unfold col_proportions.
    rewrite (props_cols nr nc rsubs csubs _ _ cb counts rd false i l Hi Hl). cbv zeta. simpl andb. cbv iota.
    rewrite (diff_col_base_nan cb i l Hi Hl Hd). apply xdiv_nan_r.
  Qed.

  (* categorical-date dimension: a one-minus-one difference is the difference of the two
     percentages; several terms on either side give NaN *)
  Theorem cat_date_row_one_minus_one counts dn cd rb kk j a b : kk < length rsubs -> j < nc ->
    nth kk rsubs nosub = mkSub [a] [b] ->
    mnth (b_rows (row_proportions nr nc rsubs csubs counts dn true cd rb)) kk j
    =x= xsub (xdiv (mnth counts a j) (mnth rb a j)) (xdiv (mnth counts b j) (mnth rb b j)).
  Proof.
    intros Hk Hj Hs. unfold row_proportions.
    rewrite (props_rows nr nc rsubs csubs _ _ rb counts true cd kk j Hk Hj). cbv zeta.
    rewrite Hs. simpl. unfold sum_rows. simpl. rewrite !xadd_0_r. reflexivity.
  Qed.

  Theorem cat_date_col_one_minus_one counts dn rd cb i l a b : i < nr -> l < length csubs ->
    nth l csubs nosub = mkSub [a] [b] ->
    mnth (b_cols (col_proportions nr nc rsubs csubs counts dn rd true cb)) i l
    =x= xsub (xdiv (mnth counts i a) (mnth cb i a)) (xdiv (mnth counts i b) (mnth cb i b)).
  Proof.
    intros Hi Hl Hs. unfold col_proportions.
    rewrite (props_cols nr nc rsubs csubs _ _ cb counts rd true i l Hi Hl). cbv zeta.
    rewrite Hs. simpl. apply wave_one_minus_one.
  Qed.

  Theorem cat_date_row_multi_term_nan counts dn cd rb kk j : kk < length rsubs -> j < nc ->
    has_subs (nth kk rsubs nosub) = true -> multiple_terms (nth kk rsubs nosub) = true ->
    mnth (b_rows (row_proportions nr nc rsubs csubs counts dn true cd rb)) kk j = NaN.
  Proof.
    intros Hk Hj Hd Hm. unfold row_proportions.
    rewrite (props_rows nr nc rsubs csubs _ _ rb counts true cd kk j Hk Hj). cbv zeta.
    rewrite Hd, Hm. reflexivity.
  Qed.

  Theorem cat_date_col_multi_term_nan counts dn rd cb i l : i < nr -> l < length csubs ->
    has_subs (nth l csubs nosub) = true -> multiple_terms (nth l csubs nosub) = true ->
    mnth (b_cols (col_proportions nr nc rsubs csubs counts dn rd true cb)) i l = NaN.
  Proof.
    intros Hi Hl Hd Hm. unfold col_proportions.
    rewrite (props_cols nr nc rsubs csubs _ _ cb counts rd true i l Hi Hl). cbv zeta.
    rewrite Hd, Hm. reflexivity.
  Qed.

  (* the count of a difference when the response carries valid counts *)
  Theorem diff_count_nan_with_valid_counts counts kk j : kk < length rsubs -> j < nc ->
    has_subs (nth kk rsubs nosub) = true ->
    mnth (b_rows (count_blocks nr nc rsubs csubs counts true)) kk j = NaN.
  Proof.
    intros Hk Hj Hd. rewrite (count_blocks_rows nr nc rsubs csubs kk Hk counts true j Hj).
    unfold subrow_cell. rewrite Hd. reflexivity.
  Qed.

  (* difference x difference is NaN in the counts and in every base *)
  Theorem diff_x_diff_count_nan counts dn kk l : kk < length rsubs -> l < length csubs ->
    has_subs (nth kk rsubs nosub) = true -> has_subs (nth l csubs nosub) = true ->
    mnth (b_inter (count_blocks nr nc rsubs csubs counts dn)) kk l = NaN.
  Proof.
    intros Hk Hl Hr Hc. unfold count_blocks, sum_blocks; simpl. rewrite tab2_mnth by assumption.
    apply intersection_diff_x_diff; assumption.
  Qed.
End Differences.

(* the multi-term rule on a STRAND: NaN; its table proportion otherwise count / table base *)
Theorem strand_cat_date_multi_term_nan counts bases s d :
  has_subs s = true -> s_add s <> [] -> multiple_terms s = true ->
  strand_wave_value counts bases true s d = NaN.
Proof.
  intros Hd Ha Hm. unfold strand_wave_value. rewrite Hd, Hm.
  destruct (s_add s); [congruence| reflexivity].
Qed.

Theorem strand_cat_date_one_minus_one counts bases a b d :
  strand_wave_value counts bases true (mkSub [a] [b]) d
  =x= xsub (xdiv (vnth counts a) (vnth bases a)) (xdiv (vnth counts b) (vnth bases b)).
Proof.
  unfold strand_wave_value, vsum_idx. simpl. rewrite !xadd_0_r. reflexivity.
Qed.
