(* Proofs/MinBaseMaskProofs.v -- the minimum-base masks of Model/MinBaseMask.v (C02):
   every cell of a strand / slice mask is the STRICT comparison of the UNWEIGHTED base of that
   cell with the threshold; the weighted measure of the response never enters. *)
From Coq Require Import QArith ZArith List Bool Lia Arith.
From CC Require Import Base.XQ Base.ListX Model.CubeCounts Model.MinBaseMask Proofs.CubeCountsBases.
Import ListNotations.
Local Close Scope Q_scope.
Local Open Scope nat_scope.

Definition bnth (l : list bool) (i : nat) : bool := nth i l false.
Definition bmnth (m : list (list bool)) (i j : nat) : bool := bnth (nth i m []) j.

Lemma mask_vec_nth bases size i :
  bnth (mask_vec bases size) i = mask_cell (vnth bases i) size.
Proof.
  unfold bnth, mask_vec, vnth. revert i.
  induction bases as [|b t IH]; intros [|i]; simpl; try reflexivity. apply IH.
Qed.

Lemma mask_vec_length bases size : length (mask_vec bases size) = length bases.
Proof. unfold mask_vec. apply map_length. Qed.

Lemma mask_mat_nth bases size i j :
  bmnth (mask_mat bases size) i j = mask_cell (mnth bases i j) size.
Proof.
  unfold bmnth, mask_mat, mnth.
  destruct (lt_dec i (length bases)) as [L|L].
  - rewrite (nth_indep _ [] ((fun r => mask_vec r size) [])) by (rewrite map_length; exact L).
    rewrite (map_nth (fun r => mask_vec r size)). apply mask_vec_nth.
  - rewrite !nth_overflow by (try rewrite map_length; lia).
    unfold bnth, vnth. destruct j; reflexivity.
Qed.

(* boundary: a base equal to the threshold is NOT masked; one below is *)
Lemma mask_cell_boundary b : mask_cell (Fin b) (Fin b) = false.
Proof.
  destruct (mask_cell (Fin b) (Fin b)) eqn:E; [|reflexivity].
  apply mask_cell_fin in E. exfalso. exact (Qlt_irrefl _ E).
Qed.

Lemma mask_cell_mono b s s' :
  (s <= s')%Q -> mask_cell (Fin b) (Fin s) = true -> mask_cell (Fin b) (Fin s') = true.
Proof.
  intros L H. apply mask_cell_fin. apply mask_cell_fin in H.
  exact (Qlt_le_trans _ _ _ H L).
Qed.

(* ---- strands -------------------------------------------------------------------------- *)
Theorem strand_mask_cell ds p ca0 k st size m i :
  strand_counts ds (unweighted_counts_payload p) ca0 k = Some st ->
  strand_mask ds p ca0 k size = Some m ->
  length m = length (st_bases st) /\ bnth m i = mask_cell (vnth (st_bases st) i) size.
Proof.
  intros Hs Hm. unfold strand_mask in Hm. rewrite Hs in Hm. inversion Hm; subst.
  split; [apply mask_vec_length|apply mask_vec_nth].
Qed.

Theorem strand_mask_below_threshold ds p ca0 k st m i b s :
  strand_counts ds (unweighted_counts_payload p) ca0 k = Some st ->
  strand_mask ds p ca0 k (Fin s) = Some m ->
  vnth (st_bases st) i = Fin b ->
  (bnth m i = true <-> (b < s)%Q).
Proof.
  intros Hs Hm Hb. destruct (strand_mask_cell _ _ _ _ _ _ _ i Hs Hm) as [_ E].
  rewrite E, Hb. apply mask_cell_fin.
Qed.

(* the weighted measure (count / valid_count_weighted) is irrelevant *)
Theorem strand_mask_ignores_weights ds p p' ca0 k size :
  p_counts p = p_counts p' -> p_vcu p = p_vcu p' ->
  strand_mask ds p ca0 k size = strand_mask ds p' ca0 k size.
Proof.
  intros H1 H2. unfold strand_mask, unweighted_counts_payload. rewrite H1, H2. reflexivity.
Qed.

(* ---- slices --------------------------------------------------------------------------- *)
Theorem slice_mask_cell ds p k so size m i j :
  slice_counts ds (unweighted_counts_payload p) k = Some so ->
  slice_mask ds p k size = Some m ->
  bmnth (km_row m) i j = mask_cell (mnth (so_row_bases so) i j) size /\
  bmnth (km_column m) i j = mask_cell (mnth (so_column_bases so) i j) size /\
  bmnth (km_table m) i j = mask_cell (mnth (so_table_bases so) i j) size.
Proof.
  intros Hs Hm. unfold slice_mask in Hm. rewrite Hs in Hm. inversion Hm; subst. simpl.
  repeat split; apply mask_mat_nth.
Qed.

Theorem slice_mask_below_threshold ds p k so m i j s :
  slice_counts ds (unweighted_counts_payload p) k = Some so ->
  slice_mask ds p k (Fin s) = Some m ->
  (forall b, mnth (so_row_bases so) i j = Fin b -> (bmnth (km_row m) i j = true <-> (b < s)%Q)) /\
  (forall b, mnth (so_column_bases so) i j = Fin b -> (bmnth (km_column m) i j = true <-> (b < s)%Q)) /\
  (forall b, mnth (so_table_bases so) i j = Fin b -> (bmnth (km_table m) i j = true <-> (b < s)%Q)).
Proof.
  intros Hs Hm. destruct (slice_mask_cell _ _ _ _ _ _ i j Hs Hm) as [E1 [E2 E3]].
  repeat split; intros; try (rewrite E1 in *); try (rewrite E2 in *); try (rewrite E3 in *);
    match goal with H : mnth _ _ _ = Fin _ |- _ => rewrite H in * end;
    apply mask_cell_fin; assumption.
Qed.

Theorem slice_mask_ignores_weights ds p p' k size :
  p_counts p = p_counts p' -> p_vcu p = p_vcu p' ->
  slice_mask ds p k size = slice_mask ds p' k size.
Proof.
  intros H1 H2. unfold slice_mask, unweighted_counts_payload. rewrite H1, H2. reflexivity.
Qed.
