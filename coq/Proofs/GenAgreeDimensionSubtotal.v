(* GenAgreeDimensionSubtotal: the members of _Subtotal that resolve element references, as generated from
   src/cr/cube/dimension.py (Gen/DimensionSrc.v), ARE the definitions of Model/SubtotalIds.v the theorems of
   C04 are about - for ALL insertion dicts whose term lists are lists of identifiers (int / str / None) and
   whose "kwargs" (when present) is a dict, and all Elements objects whose element ids are identifiers.

     positive_abs d / negative_abs d   the term lists the code reads out of an insertion dict d
                                       (`kwargs.positive or args`, `kwargs.negative`), [None] when they are
                                       not lists of identifiers
     insdict_of j                      the insertion dict j as the model's record [insdict] *)
From Coq Require Import List ZArith String Bool Lia Arith.
From CC Require Import Base.XQ Base.Ident Base.PyList Base.PyDict Model.DimType Model.Subtotals Model.SubtotalIds
  Model.PyDimension Gen.DimensionSrc Proofs.GenAgreeDimensionLib.
Import ListNotations.
Local Close Scope Q_scope.
Local Open Scope Z_scope.

(* --- abstraction ------------------------------------------------------------------------------------ *)
Fixpoint idents_abs (l : list jv) : option (list ident) :=
  match l with
  | [] => Some []
  | v :: t => match ident_of_jv v, idents_abs t with
              | Some i, Some r => Some (i :: r)
              | _, _ => None
              end
  end.
Definition terms_abs (v : jv) : option (list ident) :=
  match v with JList l => idents_abs l | _ => None end.

Definition positive_abs (d : jdict) : option (list ident) :=
  match jd_get_default d (JStr "kwargs") (JDict []) with
  | JDict kw =>
      let p := jd_get_default kw (JStr "positive") JNone in
      terms_abs (if jv_truthy p then p else jd_get_default d (JStr "args") (JList []))
  | _ => None
  end.
Definition negative_abs (d : jdict) : option (list ident) :=
  match jd_get_default d (JStr "kwargs") (JDict []) with
  | JDict kw => terms_abs (jd_get_default kw (JStr "negative") (JList []))
  | _ => None
  end.

Definition fn_subtotal (d : jdict) : bool := jv_eqb (jd_get_default d (JStr "function") JNone) (JStr "subtotal").
Definition hide_true (d : jdict) : bool := jv_is_true (jd_get_default d (JStr "hide") JNone).
Definition has_key (d : jdict) (k : string) : bool := jv_in (JStr k) (jd_keys d).

(* the record of Model/SubtotalIds.v; the term lists of a dict that fails one of the earlier tests of the
   gauntlet are not looked at (neither by the code) *)
Definition insdict_of (j : jv) : option insdict :=
  match j with
  | JDict d =>
      let mk := mkInsDict true (fn_subtotal d) (hide_true d) (has_key d "anchor") (has_key d "name") in
      if fn_subtotal d && negb (hide_true d) && (has_key d "anchor" && has_key d "name") then
        match positive_abs d, negative_abs d with
        | Some pos, Some neg => Some (mk pos [] neg)
        | _, _ => None
        end
      else Some (mk [] [] [])
  | _ => Some (mkInsDict false false false false false [] [] [])
  end.

Lemma idents_abs_inv l r : idents_abs l = Some r -> l = map jv_of_ident r.
Proof.
  revert r. induction l as [|v t IH]; intros r H; simpl in H.
  - inversion H. reflexivity.
  - destruct (ident_of_jv v) as [i|] eqn:Ei; [|discriminate].
    destruct (idents_abs t) as [r'|]; [|discriminate]. inversion H; subst. simpl.
    rewrite (jv_of_ident_of_jv _ _ Ei), (IH r' eq_refl). reflexivity.
Qed.

Lemma terms_abs_inv v r : terms_abs v = Some r -> v = JList (map jv_of_ident r).
Proof. destruct v; simpl; try discriminate. intros H. rewrite (idents_abs_inv _ _ H). reflexivity. Qed.

Lemma filter_idents (ids pos : list ident) :
  filter (fun x => jv_in x (map jv_of_ident ids)) (map jv_of_ident pos)
  = map jv_of_ident (kept_ids ids pos).
Proof.
  unfold kept_ids. induction pos as [|a t IH]; simpl; [reflexivity|].
  rewrite jv_in_idents. destruct (Ident.py_in a ids); simpl; rewrite IH; reflexivity.
Qed.

Lemma pj_get_dict d k dflt : pj_get (JDict d) (JStr k) dflt = Ok (jd_get_default d (JStr k) dflt).
Proof. reflexivity. Qed.

(* --- _Subtotal.addend_ids / subtrahend_ids ------------------------------------------------------------ *)
Lemma gen__Subtotal_addend_ids :
  match src__Subtotal_addend_ids with
  | Some f => forall d els ids pos, wf_elems els ids -> positive_abs d = Some pos ->
      f (mkPySubtotal (JDict d) els) = Ok (map jv_of_ident (kept_ids ids pos))
  | None => True end.
Proof.
  unfold src__Subtotal_addend_ids.
  first [exact I | idtac].
  all: dep gen_Elements_element_ids src_Elements_element_ids.
  all: gen_open; msimpl.
  all: match goal with Hp : positive_abs _ = Some _ |- _ => unfold positive_abs in Hp end.
  all: rewrite !pj_get_dict; msimpl.
  all: destruct (jd_get_default d (JStr "kwargs") (JDict [])) as [| | | | |?|kw]; try discriminate.
  all: rewrite pj_get_dict; msimpl.
  all: match goal with Hp : terms_abs (if ?c then _ else _) = Some _ |- _ => destruct c; msimpl end.
  all: match goal with Hp : terms_abs _ = Some _ |- _ => rewrite (terms_abs_inv _ _ Hp) end.
  all: unfold pj_iter; msimpl; rewrite bind_ret.
  all: rewrite (py_compM_filter _ (fun x => jv_in x (map jv_of_ident ids)));
    [rewrite filter_idents; reflexivity |
     intros x _; rewrite (H els ids) by assumption; msimpl; unfold jv_in;
     destruct (PyList.py_in jv_eqb x (map jv_of_ident ids)); reflexivity].
Qed.

Lemma gen__Subtotal_subtrahend_ids :
  match src__Subtotal_subtrahend_ids with
  | Some f => forall d els ids neg, wf_elems els ids -> negative_abs d = Some neg ->
      f (mkPySubtotal (JDict d) els) = Ok (map jv_of_ident (kept_ids ids neg))
  | None => True end.
Proof.
  unfold src__Subtotal_subtrahend_ids.
  first [exact I | idtac].
  all: dep gen_Elements_element_ids src_Elements_element_ids.
  all: gen_open; msimpl.
  all: match goal with Hp : negative_abs _ = Some _ |- _ => unfold negative_abs in Hp end.
  all: rewrite !pj_get_dict; msimpl.
  all: destruct (jd_get_default d (JStr "kwargs") (JDict [])) as [| | | | |?|kw]; try discriminate.
  all: rewrite pj_get_dict; msimpl.
  all: match goal with Hp : terms_abs _ = Some _ |- _ => rewrite (terms_abs_inv _ _ Hp) end.
  all: unfold pj_iter; msimpl; rewrite bind_ret.
  all: rewrite (py_compM_filter _ (fun x => jv_in x (map jv_of_ident ids)));
    [rewrite filter_idents; reflexivity |
     intros x _; rewrite (H els ids) by assumption; msimpl; unfold jv_in;
     destruct (PyList.py_in jv_eqb x (map jv_of_ident ids)); reflexivity].
Qed.

(* --- the offsets: idx for idx, el in enumerate(valid_elements) if el.element_id in <kept ids> ------------ *)
Lemma idxs_of_combine (ids kept : list ident) s :
  map fst (filter (fun p : nat * ident => Ident.py_in (snd p) kept) (combine (seq s (List.length ids)) ids))
  = filter (fun i => Ident.py_in (nth (i - s) ids INone) kept) (seq s (List.length ids)).
Proof.
  revert s. induction ids as [|a t IH]; intros s; [reflexivity|].
  cbn [List.length seq combine filter snd]. rewrite Nat.sub_diag. change (nth 0 (a :: t) INone) with a.
  assert (E : filter (fun i => Ident.py_in (nth (i - s) (a :: t) INone) kept) (seq (S s) (List.length t))
              = filter (fun i => Ident.py_in (nth (i - S s) t INone) kept) (seq (S s) (List.length t))).
  { apply filter_ext_in. intros i Hi. apply in_seq in Hi.
    replace (i - s)%nat with (S (i - S s)) by lia. reflexivity. }
  rewrite E, <- IH. destruct (Ident.py_in a kept); reflexivity.
Qed.

Lemma idxs_of_enum (ids kept : list ident) :
  idxs_of ids kept
  = map fst (filter (fun p : nat * ident => Ident.py_in (snd p) kept) (combine (seq 0 (List.length ids)) ids)).
Proof.
  rewrite idxs_of_combine. unfold idxs_of. apply filter_ext. intros i. rewrite Nat.sub_0_r. reflexivity.
Qed.

Lemma py_compM_enum_idxs (F : Z * pyelement -> res (option Z)) els ids kept :
  wf_elems els ids ->
  (forall i e id, wf_elem e id -> F (i, e) = Ok (if Ident.py_in id kept then Some i else None)) ->
  py_compM F (py_enumerate els) = Ok (map Z.of_nat (idxs_of ids kept)).
Proof.
  intros Hw HF. rewrite idxs_of_enum. unfold py_enumerate. rewrite py_range_len.
  generalize 0%nat as s. induction Hw as [|e id es is He _ IH]; intros s; [reflexivity|].
  cbn [List.length seq map combine py_compM filter snd]. rewrite (HF _ e id He). msimpl.
  rewrite (IH (S s)). msimpl. destruct (Ident.py_in id kept); reflexivity.
Qed.

Lemma gen__Subtotal_addend_idxs :
  match src__Subtotal_addend_idxs with
  | Some f => forall d els ids pos, wf_elems els ids -> positive_abs d = Some pos ->
      f (mkPySubtotal (JDict d) els) = Ok (map Z.of_nat (resolve ids pos))
  | None => True end.
Proof.
  unfold src__Subtotal_addend_idxs.
  first [exact I | idtac].
  all: dep gen__Subtotal_addend_ids src__Subtotal_addend_ids.
  all: dep gen_Element_element_id src_Element_element_id.
  all: gen_open; msimpl.
  all: rewrite (H d els ids pos) by assumption; msimpl; rewrite bind_ret.
  all: unfold resolve; apply py_compM_enum_idxs; [assumption|].
  all: intros i e id He; rewrite (H0 e id He); msimpl; rewrite jv_in_idents'; destruct (Ident.py_in id (kept_ids ids pos)); reflexivity.
Qed.

Lemma gen__Subtotal_subtrahend_idxs :
  match src__Subtotal_subtrahend_idxs with
  | Some f => forall d els ids neg, wf_elems els ids -> negative_abs d = Some neg ->
      f (mkPySubtotal (JDict d) els) = Ok (map Z.of_nat (resolve ids neg))
  | None => True end.
Proof.
  unfold src__Subtotal_subtrahend_idxs.
  first [exact I | idtac].
  all: dep gen_Element_element_id src_Element_element_id.
  all: dep gen__Subtotal_subtrahend_ids src__Subtotal_subtrahend_ids.
  all: gen_open; msimpl.
  all: rewrite bind_ret.
  all: unfold resolve; apply py_compM_enum_idxs; [assumption|].
  all: intros i e id He; rewrite (H e id He); msimpl.
  all: rewrite (H0 d els ids neg) by assumption; msimpl; rewrite jv_in_idents'; destruct (Ident.py_in id (kept_ids ids neg)); reflexivity.
Qed.

Lemma gen__Subtotal_is_difference :
  match src__Subtotal_is_difference with
  | Some f => forall d els ids neg, wf_elems els ids -> negative_abs d = Some neg ->
      f (mkPySubtotal (JDict d) els) = Ok (negb (is_nil (kept_ids ids neg)))
  | None => True end.
Proof.
  unfold src__Subtotal_is_difference.
  first [exact I | idtac].
  all: dep gen__Subtotal_subtrahend_ids src__Subtotal_subtrahend_ids.
  all: gen_open; msimpl.
  all: rewrite (H d els ids neg) by assumption; msimpl.
  all: destruct (kept_ids ids neg); reflexivity.
Qed.

(* --- _Subtotals._element_ids / _iter_valid_subtotal_dicts ---------------------------------------------- *)
Lemma gen__Subtotals__element_ids :
  match src__Subtotals__element_ids with
  | Some f => forall js els fv ids, wf_elems els ids ->
      f (mkPySubtotals js els fv) = Ok (map jv_of_ident ids)
  | None => True end.
Proof.
  unfold src__Subtotals__element_ids.
  first [exact I | idtac].
  all: dep gen_Elements_element_ids src_Elements_element_ids.
  all: gen_open; msimpl.
  all: rewrite (H els ids) by assumption; msimpl.
  all: unfold pl_frozenset; rewrite forallb_hashable_idents; reflexivity.
Qed.

Lemma py_truthy_filter {A} (p : A -> bool) l : py_truthy (filter p l) = existsb p l.
Proof. induction l as [|x t IH]; simpl; [reflexivity|]. destruct (p x); simpl; auto. Qed.

Lemma existsb_py_in_sym (a b : list ident) :
  existsb (fun x => Ident.py_in x b) a = existsb (fun y => Ident.py_in y a) b.
Proof.
  destruct (existsb (fun x => Ident.py_in x b) a) eqn:E1; symmetry.
  - apply existsb_exists in E1. destruct E1 as (x & Hx & Hb). apply Ident.py_in_In in Hb.
    apply existsb_exists. exists x. split; [exact Hb | apply Ident.py_in_In; exact Hx].
  - destruct (existsb (fun y => Ident.py_in y a) b) eqn:E2; [|reflexivity].
    apply existsb_exists in E2. destruct E2 as (y & Hy & Ha). apply Ident.py_in_In in Ha.
    assert (existsb (fun x => Ident.py_in x b) a = true)
      by (apply existsb_exists; exists y; split; [exact Ha | apply Ident.py_in_In; exact Hy]).
    congruence.
Qed.

Lemma intersection_truthy (ids terms : list ident) :
  py_truthy (filter (fun x => jv_in x (map jv_of_ident terms)) (map jv_of_ident ids))
  = existsb (fun x => Ident.py_in x ids) terms.
Proof.
  rewrite py_truthy_filter, existsb_py_in_sym.
  induction ids as [|a t IH]; simpl; [reflexivity|]. rewrite jv_in_idents, IH. reflexivity.
Qed.

Lemma jv_truthy_idents l : jv_truthy (JList (map jv_of_ident l)) = negb (is_nil l).
Proof. destruct l; reflexivity. Qed.

Definition valid_jv (ids : list ident) (j : jv) : bool :=
  match insdict_of j with Some a => valid_subtotal ids a | None => false end.

Lemma valid_jv_dict ids d :
  valid_jv ids (JDict d)
  = fn_subtotal d && negb (hide_true d) && (has_key d "anchor" && has_key d "name")
    && match positive_abs d, negative_abs d with
       | Some pos, Some neg =>
           negb (is_nil pos && is_nil neg) && existsb (fun x => Ident.py_in x ids) (pos ++ neg)
       | _, _ => false
       end.
Proof.
  unfold valid_jv, insdict_of.
  destruct (fn_subtotal d), (hide_true d), (has_key d "anchor"), (has_key d "name"); cbn [andb negb];
    try reflexivity.
  destruct (positive_abs d) as [pos|]; [|reflexivity]. destruct (negative_abs d) as [neg|]; [|reflexivity].
  unfold valid_subtotal, positive_terms, negative_terms.
  cbn [i_is_dict i_fn_subtotal i_hide_true i_has_anchor i_has_name i_kw_positive i_args i_negative andb negb].
  destruct pos; reflexivity.
Qed.

Lemma insdict_of_dict_gate d :
  insdict_of (JDict d) <> None ->
  fn_subtotal d && negb (hide_true d) && (has_key d "anchor" && has_key d "name") = true ->
  exists pos neg, positive_abs d = Some pos /\ negative_abs d = Some neg.
Proof.
  unfold insdict_of. intros H G. rewrite G in H.
  destruct (positive_abs d) as [pos|]; [|congruence]. destruct (negative_abs d) as [neg|]; [|congruence].
  eauto.
Qed.

Lemma gen__Subtotals__iter_valid_subtotal_dicts :
  match src__Subtotals__iter_valid_subtotal_dicts with
  | Some f => forall jsv js els fv ids, wf_elems els ids -> pj_iter jsv = Ok js ->
      Forall (fun j => insdict_of j <> None) js ->
      f (mkPySubtotals jsv els fv) = Ok (filter (valid_jv ids) js)
  | None => True end.
Proof.
  unfold src__Subtotals__iter_valid_subtotal_dicts.
  first [exact I | idtac].
  all: dep gen__Subtotals__element_ids src__Subtotals__element_ids.
  all: gen_open; msimpl.
  all: match goal with Hi : pj_iter _ = Ok _ |- _ => rewrite Hi end; msimpl; rewrite bind_ret.
  all: match goal with |- py_foldM ?F _ _ = Ok (filter ?p _) => apply (py_foldM_filter F p js []) end.
  all: intros y j Hj.
  all: match goal with HF : Forall _ _ |- _ => rewrite Forall_forall in HF; specialize (HF j Hj) end.
  all: destruct j as [| | | | | |d]; try reflexivity.
  all: rewrite valid_jv_dict.
  all: cbn [jv_is_dict negb]; rewrite ?pj_get_dict; msimpl.
  all: change (jv_eqb (jd_get_default d (JStr "function") JNone) (JStr "subtotal")) with (fn_subtotal d).
  all: match goal with Hn : insdict_of (JDict ?dd) <> None |- _ => pose proof (insdict_of_dict_gate dd Hn) as G end.
  all: destruct (fn_subtotal d); cbn [negb andb] in *; [|reflexivity].
  all: change (jv_is_true (jd_get_default d (JStr "hide") JNone)) with (hide_true d).
  all: destruct (hide_true d); cbn [negb andb] in *; [reflexivity|].
  all: unfold pj_keys; msimpl; cbn [forallb].
  all: change (jv_in (JStr "anchor") (jd_keys d)) with (has_key d "anchor").
  all: change (jv_in (JStr "name") (jd_keys d)) with (has_key d "name").
  all: rewrite andb_true_r.
  all: destruct (has_key d "anchor" && has_key d "name"); cbn [negb andb] in *; [|reflexivity].
  all: destruct (G eq_refl) as (pos & neg & Ep & En); rewrite Ep, En.
  all: unfold positive_abs, negative_abs in Ep, En.
  all: destruct (jd_get_default d (JStr "kwargs") (JDict [])) as [| | | | |?|kw]; try discriminate.
  all: rewrite ?pj_get_dict; msimpl.
  all: rewrite (terms_abs_inv _ _ En).
  all: match type of Ep with terms_abs (if ?c then _ else _) = Some _ => destruct c; msimpl end.
  all: rewrite (terms_abs_inv _ _ Ep).
  all: rewrite !jv_truthy_idents.
  all: match goal with |- context [jv_truthy (if ?c then ?a else ?b)] =>
         replace (jv_truthy (if c then a else b)) with (negb (is_nil pos && is_nil neg))
           by (destruct pos, neg; reflexivity) end.
  all: destruct (is_nil pos && is_nil neg); cbn [negb andb]; [reflexivity|].
  all: rewrite (H jsv els fv ids) by assumption; msimpl.
  all: unfold pj_add, pl_intersection, pj_iter; msimpl.
  all: rewrite <- map_app, forallb_hashable_idents; msimpl; rewrite intersection_truthy.
  all: destruct (existsb (fun x => Ident.py_in x ids) (pos ++ neg)); reflexivity.
Qed.
