(* Proofs/ScaleOrientCongr.v -- entry-wise congruence of the two orientations of Model/ScaleOrient.v:
   the statistic of vector i of one block equals the statistic of vector i' of another block as soon
   as the two vectors (counts, bases, comparable counts, means, margin) agree cell by cell up to =x=.
   Used by C10 (rows of the transposed block = columns of the block) and by C04 (inserted vector =
   the merged category's vector). *)
From Coq Require Import QArith ZArith List Bool Lia Arith Setoid Morphisms.
From CC Require Import Base.XQ Base.ListX Model.Scale Model.ScaleOrient Proofs.ScaleCongr.
Import ListNotations.
Local Close Scope Q_scope.
Local Open Scope nat_scope.

#[global] Instance xsq_Proper_scale : Proper (xeq ==> xeq) xsq.
Proof. intros a b H. apply xsq_xeq. exact H. Qed.

Lemma mrow_tab2 n m f i : i < n -> mrow (tab2 n m f) i = tab m (f i).
Proof. intros H. unfold mrow, tab2. rewrite (tab_nth n _ [] i H). reflexivity. Qed.

Lemma mcol_tab2 n m f j : j < m -> mcol (tab2 n m f) j = tab n (fun i => f i j).
Proof.
  intros H. unfold mcol, tab2, tab. rewrite map_map. apply map_ext. intros i.
  apply (tab_vnth m (f i) j H).
Qed.

Lemma tab2_mnth_out n m f i j : n <= i \/ m <= j -> mnth (tab2 n m f) i j = NaN.
Proof.
  intros H. destruct (Nat.lt_ge_cases i n) as [Hi|Hi].
  - destruct H as [H|H]; [lia|]. unfold mnth. fold (mrow (tab2 n m f) i). rewrite mrow_tab2 by exact Hi.
    unfold vnth. apply nth_overflow. rewrite tab_length. exact H.
  - unfold mnth. rewrite (nth_overflow (tab2 n m f) []) by (unfold tab2; rewrite tab_length; exact Hi).
    destruct j; reflexivity.
Qed.

Lemma tab_ext_in {A} n (f g : nat -> A) : (forall i, i < n -> f i = g i) -> tab n f = tab n g.
Proof. intros H. unfold tab. apply map_ext_in. intros i Hi. apply in_seq in Hi. apply H. lia. Qed.

Lemma valued_pos_lt vals i : In i (valued_pos vals) -> i < length vals.
Proof. unfold valued_pos, valued_idxs. intros H. apply filter_In in H. destruct H as [H _]. apply in_seq in H. lia. Qed.

(* ---- ROWS orientation: vector i of (counts, bases) against vector i' of (counts', bases') ---------- *)
Section RowsEntry.
  Variables n n' m : nat.
  Variable vals : list xq.
  Variables i i' : nat.
  Hypothesis Hi : i < n.
  Hypothesis Hi' : i' < n'.

  Lemma rows_mean_entry c b c' b' :
    (forall j, j < m -> mnth c i j =x= mnth c' i' j) -> (forall j, j < m -> mnth b i j =x= mnth b' i' j) ->
    vnth (rows_mean_block n m vals c b) i =x= vnth (rows_mean_block n' m vals c' b') i'.
  Proof.
    intros Hc Hb. unfold rows_mean_block. rewrite !tab_vnth by assumption.
    apply wmean_vxeq. unfold rows_props. rewrite (mrow_tab2 n m _ i Hi), (mrow_tab2 n' m _ i' Hi').
    apply vxeq_tab. intros j Hj. rewrite (Hc j Hj), (Hb j Hj). reflexivity.
  Qed.

  Lemma rows_var_entry cc cc' means means' : length vals = m ->
    (forall j, j < m -> mnth cc i j =x= mnth cc' i' j) -> vnth means i =x= vnth means' i' ->
    vnth (rows_var_block n vals cc means) i =x= vnth (rows_var_block n' vals cc' means') i'.
  Proof.
    intros Hv Hc Hm. unfold rows_var_block. rewrite !tab_vnth by assumption.
    apply sqrt_arg_xeq_compat. apply xdiv_Proper.
    - apply nansum_vxeq. apply vxeq_map. intros j Hj. apply valued_pos_lt in Hj. rewrite Hv in Hj.
      rewrite (Hc j Hj), Hm. reflexivity.
    - apply xsum_vxeq. apply vxeq_map. intros j Hj. apply valued_pos_lt in Hj. rewrite Hv in Hj.
      apply (Hc j Hj).
  Qed.

  Lemma rows_stderr_entry vars vars' b b' :
    vnth vars i =x= vnth vars' i' -> mnth b i 0 =x= mnth b' i' 0 ->
    vnth (rows_stderr_block n vars b) i =x= vnth (rows_stderr_block n' vars' b') i'.
  Proof.
    intros Hv Hb. unfold rows_stderr_block. rewrite !tab_vnth by assumption.
    rewrite Hv. apply xdiv_Proper; [reflexivity|]. apply sqrt_arg_xeq_compat. exact Hb.
  Qed.

  Lemma rows_median_entry ord cc cc' : Forall (fun j => j < m) ord ->
    (forall j, j < m -> mnth cc i j =x= mnth cc' i' j) ->
    vnth (rows_median_block n vals ord cc) i = vnth (rows_median_block n' vals ord cc') i'.
  Proof.
    intros Ho Hc. unfold rows_median_block. rewrite !tab_vnth by assumption.
    apply weighted_median_vxeq. apply vxeq_map. intros j Hj. rewrite Forall_forall in Ho. apply Hc, Ho, Hj.
  Qed.
End RowsEntry.

(* ---- COLUMNS orientation: vector j of an n x m block against vector j' of an n x m' block ---------- *)
Section ColumnsEntry.
  Variables n m m' : nat.
  Variable vals : list xq.
  Variables j j' : nat.
  Hypothesis Hj : j < m.
  Hypothesis Hj' : j' < m'.

  Lemma columns_mean_entry c b c' b' :
    (forall i, i < n -> mnth c i j =x= mnth c' i j') -> (forall i, i < n -> mnth b i j =x= mnth b' i j') ->
    vnth (columns_mean_block n m vals c b) j =x= vnth (columns_mean_block n m' vals c' b') j'.
  Proof.
    intros Hc Hb. unfold columns_mean_block. rewrite !tab_vnth by assumption.
    apply wmean_vxeq. unfold columns_props. rewrite (mcol_tab2 n m _ j Hj), (mcol_tab2 n m' _ j' Hj').
    apply vxeq_tab. intros i Hi. rewrite (Hc i Hi), (Hb i Hi). reflexivity.
  Qed.

  Lemma columns_var_entry cc cc' means means' : length vals = n ->
    (forall i, i < n -> mnth cc i j =x= mnth cc' i j') -> vnth means j =x= vnth means' j' ->
    vnth (columns_var_block m vals cc means) j =x= vnth (columns_var_block m' vals cc' means') j'.
  Proof.
    intros Hv Hc Hm. unfold columns_var_block. rewrite !tab_vnth by assumption.
    apply sqrt_arg_xeq_compat. apply xdiv_Proper.
    - apply nansum_vxeq. apply vxeq_map. intros i Hi. apply valued_pos_lt in Hi. rewrite Hv in Hi.
      rewrite (Hc i Hi), Hm. reflexivity.
    - apply xsum_vxeq. apply vxeq_map. intros i Hi. apply valued_pos_lt in Hi. rewrite Hv in Hi.
      apply (Hc i Hi).
  Qed.

  Lemma columns_stderr_entry vars vars' b b' :
    vnth vars j =x= vnth vars' j' -> mnth b 0 j =x= mnth b' 0 j' ->
    vnth (columns_stderr_block m vars b) j =x= vnth (columns_stderr_block m' vars' b') j'.
  Proof.
    intros Hv Hb. unfold columns_stderr_block. rewrite !tab_vnth by assumption.
    rewrite Hv. apply xdiv_Proper; [reflexivity|]. apply sqrt_arg_xeq_compat. exact Hb.
  Qed.

  Lemma columns_median_entry ord cc cc' : Forall (fun i => i < n) ord ->
    (forall i, i < n -> mnth cc i j =x= mnth cc' i j') ->
    vnth (columns_median_block m vals ord cc) j = vnth (columns_median_block m' vals ord cc') j'.
  Proof.
    intros Ho Hc. unfold columns_median_block. rewrite !tab_vnth by assumption.
    apply weighted_median_vxeq. apply vxeq_map. intros i Hi. rewrite Forall_forall in Ho. apply Hc, Ho, Hi.
  Qed.
End ColumnsEntry.
