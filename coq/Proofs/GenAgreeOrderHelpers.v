(* Proofs/GenAgreeOrderHelpers.v -- the order-helper terms harness/translate/x_assemble.py reads from
   src/cr/cube/matrix/assembler.py and src/cr/cube/stripe/assembler.py (Gen/OrderHelperSrc.v, meaning:
   Base/OrderExp.v, environments: Proofs/GenAgreeOrderTac.v) denote, for ALL dimensions, order requests,
   measures objects, pruning masks and id translations, the definitions of Model/SortKeys.v /
   Model/OrderOrient.v / Model/Collator.v the theorems of C08, C10, C05, C07, C09 are about:

     every concrete helper class `_display_order`   = [partition_order] for the method the class stands for,
        with the sort values [rows_values] / [columns_values] / [strand_values] of that method: which block
        of which measure, which row / column, found through which id list, ValueError -> payload order,
        KeyError / NotImplementedError escape; the subtotal pruning of a row helper looks at the COLUMNS
        dimension and the column mask and vice versa
     _BaseOrderHelper.row_display_order             = [slice_row_order]     (Model/OrderOrient.v)
     _BaseOrderHelper.column_display_order          = [slice_column_order]
     stripe _BaseOrderHelper.display_order          = [strand_order]

   i.e. which helper class (hence which collator, which key) serves which COLLATION_METHOD / "type" keyword
   is [method_of], for every keyword string.  SIGNED_INDEXES format only.

   The proofs recognise the SHAPES the translator produces ([DISPLAY], [PRUNE], [TRYSBV], [ANCH], [MEAS],
   ..): the tie is syntactic up to inlining - a rewrite of the source that the translator maps to the same
   term re-proves, one that changes a block index, an axis, a dimension, a guard, the caught exception or
   the order of the conditional does not. *)
From Coq Require Import List ZArith Bool Lia Arith String QArith.
From CC Require Import Base.XQ Base.SortX Base.AsmExp Base.OrderExp Spec.OrderSpec Model.Collator
  Model.SortKeys Model.OrderOrient Gen.OrderHelperSrc Gen.SortTablesSrc
  Proofs.GenAgreeSortTables Proofs.GenAgreeOrderTac.
Import ListNotations.
Local Close Scope Q_scope.
Local Open Scope string_scope.
Local Open Scope nat_scope.

(* ------------------------------------------------------------------------------------ *)
(** * the shapes *)

Definition other (d : hdim) : hdim := match d with DRows => DCols | DCols => DRows end.
Definition mask_name (d : hdim) : string :=
  match d with DRows => "rows_pruning_mask" | DCols => "columns_pruning_mask" end.

(* _empty_row_idxs / _empty_column_idxs *)
Definition EMP (d : hdim) : hexp := HTuple (HWhere0 (HMeasuresAttr (mask_name d))).
(* _prune_subtotals of a helper that orders the dimension opposite to d *)
Definition PRUNE (d : hdim) : hexp := HIf (HPruneFlag d) (HLenEq (EMP d) (HElementIds d)) (HBool false).
(* _BaseOrderHelper._display_order *)
Definition DISPLAY (C O : hexp) : hexp :=
  HIf C (HArray (HFilter O (XAnd (XNot XIsStr) (XCmp CGe 0%Z)))) (HArray O).
(* _RowOrderHelper._order / _ColumnOrderHelper._order / stripe _OrderHelper._display_order *)
Definition ANCH (d : hdim) (emp : hexp) : hexp :=
  HIf (HMethodIs d "EXPLICIT_ORDER") (HCollate3 CExplicit (HDim d) emp HFormat)
      (HCollate3 CPayload (HDim d) emp HFormat).
(* _BaseSort*ByValueHelper._order *)
Definition TRYSBV (d : hdim) (EV SV emp : hexp) : hexp :=
  HTry (HCollate5 CSortByValue (HDim d) EV SV emp HFormat) EValueError
       (HCollate3 CPayload (HDim d) emp HFormat).
(* _BaseOrderHelper._measure .blocks *)
Definition MEAS (d : hdim) : hexp :=
  HBlocks (HIf (HIsNone (HTableGet "matrix" (HSpec d "measure"))) (HRaiseE ENotImplementedError)
               (HGetattr (HTableGet "matrix" (HSpec d "measure")))).
(* _SortRowsByMarginalHelper._marginal .blocks *)
Definition MARG : hexp :=
  HBlocks (HIf (HIsNone (HTableGet "marginal" (HSpec DRows "marginal"))) (HRaiseE ENotImplementedError)
               (HGetattr (HTableGet "marginal" (HSpec DRows "marginal")))).
(* stripe _SortByMeasureHelper._measure .blocks *)
Definition SMEAS : hexp :=
  HBlocks (HIf (HIsNone (HTableGet "strand" (HSpec DRows "measure_keyname"))) (HRaiseE EValueError)
               (HGetattr (HTableGet "strand" (HSpec DRows "measure_keyname")))).
(* <ids of d'>.index(<d'>.translate_element_id(<d>.order_spec.<fld>)) *)
Definition IDXT (d d' : hdim) (fld : string) : hexp :=
  HIndexOf (HElementIds d') (HTranslate d' (HSpec d fld)).
(* <insertion ids of d'>.index(<d>.order_spec.insertion_id) *)
Definition IDXI (d d' : hdim) : hexp := HIndexOf (HInsertionIds d') (HSpec d "insertion_id").
(* np.array(<d>.element_labels), np.array(<d>.subtotal_labels) *)
Definition LAB (d : hdim) : hexp := HArray (HElementLabels d).
Definition SLAB (d : hdim) : hexp := HArray (HSubtotalLabels d).
(* stripe _empty_row_idxs *)
Definition SEMP : hexp := HTuple (HPositionsEq0 (HMeasuresAttr "pruning_base")).

(* one evaluation step *)
Lemma heval_column E a j :
  heval' E (HColumn a j)
  = hbind ident (heval' E a) (fun v => hbind ident (heval' E j) (fun w =>
      match v, w with
      | HVMat nr nc m, HVNat k =>
          if k <? nc then HOk (HVVals (map (fun r => KNum (nth k r NaN)) m)) else HRaise EIndexError
      | _, _ => HRaise ETypeError
      end)).
Proof. reflexivity. Qed.
Lemma heval_row E a i :
  heval' E (HRow a i)
  = hbind ident (heval' E a) (fun v => hbind ident (heval' E i) (fun w =>
      match v, w with
      | HVMat nr nc m, HVNat k =>
          if k <? nr then HOk (HVVals (map KNum (nth k m []))) else HRaise EIndexError
      | _, _ => HRaise ETypeError
      end)).
Proof. reflexivity. Qed.
Lemma heval_item E a k :
  heval' E (HItem a k)
  = hbind ident (heval' E a) (fun v => match v with
                                 | HVSeq l => match nth_error l k with
                                              | Some x => HOk x | None => HRaise EIndexError end
                                 | _ => HRaise ETypeError end).
Proof. reflexivity. Qed.

Lemma bind_assoc {A B C} (r : res A) (f : A -> res B) (g : B -> res C) :
  bind (bind r f) g = bind r (fun x => bind (f x) g).
Proof. destruct r; reflexivity. Qed.

Lemma matrix_measure_err env kw c : matrix_measure env kw = Err c -> c <> EValueError.
Proof.
  unfold matrix_measure. destruct kw as [k|]; [|intros H; inversion H; discriminate].
  destruct (negb (smem k measure_enum)); [discriminate|].
  destruct (find_kw matrix_table k); [discriminate|]. intros H; inversion H; discriminate.
Qed.

(* "the measure, then the index, then the two vectors" *)
Lemma vals_measure_index (E : henv ident) EV SV (MR : res (option mblocks)) (IX : option (option nat))
      (g1 g2 : mblocks -> nat -> list sval) :
  (forall c, MR = Err c -> c <> EValueError) ->
  match MR with
  | Err c => heval' E EV = HRaise c
  | Ok None => heval' E EV = HRaise EValueError
  | Ok (Some b) =>
      match IX with
      | None => heval' E EV = HRaise EKeyError
      | Some None => heval' E EV = HRaise EValueError
      | Some (Some j) =>
          exists ev esv, heval' E EV = HOk (HVVals ev) /\ heval' E SV = HOk (HVVals esv) /\
                         map sval_of ev = g1 b j /\ map sval_of esv = g2 b j
      end
  end ->
  vals_eval E EV SV
    (bind MR (fun ob => match ob with
                        | None => Ok None
                        | Some b => with_index IX (fun j => (g1 b j, g2 b j))
                        end)).
Proof.
  intros Hc H. destruct MR as [[b|]|c]; cbn [bind].
  - destruct IX as [[j|]|]; cbn [with_index vals_eval].
    + exact H.
    + left. exact H.
    + split; [discriminate|]. left. exact H.
  - left. exact H.
  - split; [apply Hc; reflexivity|]. left. exact H.
Qed.

(* ------------------------------------------------------------------------------------ *)
(** * a slice *)

Section Slice.
Variables cm me ma t1 t2 : list (string * string).
Variables rows cols : dimension.
Variables rreq creq : order_req.
Variables rmask cmask : list bool.
Variables rl cl : list string * list string.
Variable tr : hdim -> ident -> ident.
Variable env : menv.
Variable marg : venv.
Hypothesis T1 : lookup_agrees t1 matrix_table.
Hypothesis T2 : lookup_agrees t2 marginal_table.
Hypothesis ME : same_members (map snd me) measure_enum.
Hypothesis MA : same_members (map snd ma) marginal_enum.
Hypothesis NA : names_apart env marg.

Notation E := (henv_slice cm me ma t1 t2 rows cols rreq creq rmask cmask rl cl tr env marg).
Notation dimof := (sl_dim rows cols).
Notation reqof := (sl_req rreq creq).
Notation maskof := (fun d : hdim => match d with DRows => rmask | DCols => cmask end).
Notation n_ := (sl_n rows).
Notation m_ := (sl_m rows).
Notation p_ := (sl_p cols).
Notation q_ := (sl_q cols).

Lemma emp_eval (d : hdim) : heval' E (EMP d) = HOk (HVNats (where_mask (maskof d))).
Proof. destruct d; reflexivity. Qed.

Lemma prune_eval' (d : hdim) :
  heval' E (PRUNE d)
  = HOk (HVBool (prune_subtotals (d_prune (dimof d)) (where_mask (maskof d)) (List.length (d_ids (dimof d))))).
Proof. unfold prune_subtotals. destruct d; cbn; destruct (d_prune _); reflexivity. Qed.

Lemma meas_eval (d : hdim) :
  heval' E (MEAS d)
  = match matrix_measure env (o_measure (reqof d)) with
    | Err c => HRaise c
    | Ok None => HRaise EValueError
    | Ok (Some b) => HOk (mblocks_val n_ m_ p_ q_ b)
    end.
Proof.
  unfold MEAS, matrix_measure.
  cbn [heval hbind h_spec h_table h_blocks henv_slice spec_of String.eqb Ascii.eqb Bool.eqb].
  destruct (o_measure (reqof d)) as [k|]; cbn [spec_enum hbind]; [|reflexivity].
  rewrite (ME k). destruct (smem k measure_enum); cbn [negb hbind]; [|reflexivity].
  rewrite (T1 k). destruct (find_kw matrix_table k) as [r|] eqn:F; cbn [option_map hbind]; [|reflexivity].
  unfold sl_blocks. destruct (env (kw_prop r)) as [b|]; [reflexivity|].
  destruct NA as [N1 _]. rewrite (N1 k r F). reflexivity.
Qed.

Lemma idxt_eval (d d' : hdim) (fld : string) (raw : option ident) :
  spec_of me ma (reqof d) fld = spec_id raw ->
  heval' E (IDXT d d' fld)
  = match option_map (fun x => find_index x (d_ids (dimof d'))) (option_map (tr d') raw) with
    | None => HRaise EKeyError
    | Some None => HRaise EValueError
    | Some (Some j) => HOk (HVNat j)
    end.
Proof.
  intros Hs. unfold IDXT. cbn [heval hbind h_spec h_ids h_translate henv_slice]. rewrite Hs.
  destruct raw as [x|]; cbn [spec_id hbind option_map]; [|reflexivity].
  rewrite find_index_eq. destruct (find_index _ _); reflexivity.
Qed.

Lemma idxi_eval (d d' : hdim) :
  heval' E (IDXI d d')
  = match option_map (fun x => find_ins x (map fst (subtotals (dimof d')))) (o_insertion_id (reqof d)) with
    | None => HRaise EKeyError
    | Some None => HRaise EValueError
    | Some (Some j) => HOk (HVNat j)
    end.
Proof.
  unfold IDXI. cbn [heval hbind h_spec h_ins_ids henv_slice spec_of String.eqb Ascii.eqb Bool.eqb].
  destruct (o_insertion_id (reqof d)) as [x|]; cbn [spec_id hbind option_map]; [|reflexivity].
  unfold find_ins. destruct x as [z| |]; try reflexivity.
Qed.

(* the vectors of a block: column j of blocks[bi][bj] / row i of it *)
Definition blk (bi bj : nat) (b : mblocks) : list (list xq) :=
  match bi, bj with
  | 0, 0 => mb_base b | 0, _ => mb_scols b | _, 0 => mb_srows b | _, _ => mb_inter b
  end.
Definition blk_nr (bi : nat) : nat := match bi with 0 => n_ | _ => m_ end.
Definition blk_nc (bj : nat) : nat := match bj with 0 => p_ | _ => q_ end.

Lemma item_item_meas d bi bj b :
  bi < 2 -> bj < 2 ->
  heval' E (MEAS d) = HOk (mblocks_val n_ m_ p_ q_ b) ->
  heval' E (HItem (HItem (MEAS d) bi) bj) = HOk (HVMat (blk_nr bi) (blk_nc bj) (blk bi bj b)).
Proof.
  intros Hi Hj H. rewrite !heval_item, H. unfold mblocks_val. cbn [hbind].
  destruct bi as [|[|bi]]; [| |lia]; destruct bj as [|[|bj]]; try lia; reflexivity.
Qed.

(* a sort keyed on COLUMN j of two blocks of the measure of dimension d (j found by IX) *)
Lemma column_vals d (bi1 bj1 bi2 bj2 : nat) (IXE : hexp) (IX : option (option nat)) :
  bi1 < 2 -> bj1 < 2 -> bi2 < 2 -> bj2 < 2 ->
  heval' E IXE = match IX with
                 | None => HRaise EKeyError | Some None => HRaise EValueError
                 | Some (Some j) => HOk (HVNat j) end ->
  (forall j, IX = Some (Some j) -> j < blk_nc bj1 /\ j < blk_nc bj2) ->
  vals_eval E (HColumn (HItem (HItem (MEAS d) bi1) bj1) IXE) (HColumn (HItem (HItem (MEAS d) bi2) bj2) IXE)
    (bind (matrix_measure env (o_measure (reqof d)))
          (fun ob => match ob with
                     | None => Ok None
                     | Some b => with_index IX (fun j => (column_of (blk bi1 bj1 b) j, column_of (blk bi2 bj2 b) j))
                     end)).
Proof.
  intros B1 B2 B3 B4 HI HL. apply vals_measure_index; [apply matrix_measure_err|].
  pose proof (meas_eval d) as HM.
  destruct (matrix_measure env (o_measure (reqof d))) as [[b|]|c].
  - destruct IX as [[j|]|].
    + destruct (HL j eq_refl) as [L1 L2]. apply Nat.ltb_lt in L1, L2.
      exists (map (fun r => KNum (nth j r NaN)) (blk bi1 bj1 b)).
      exists (map (fun r => KNum (nth j r NaN)) (blk bi2 bj2 b)).
      split; [|split; [|split]].
      * rewrite heval_column.
        rewrite (item_item_meas d bi1 bj1 b B1 B2 HM). rewrite HI. cbn [hbind]. rewrite L1. reflexivity.
      * rewrite heval_column.
        rewrite (item_item_meas d bi2 bj2 b B3 B4 HM). rewrite HI. cbn [hbind]. rewrite L2. reflexivity.
      * unfold column_of. rewrite map_map. reflexivity.
      * unfold column_of. rewrite map_map. reflexivity.
    + rewrite heval_column.
      rewrite (item_item_meas d bi1 bj1 b B1 B2 HM). rewrite HI. reflexivity.
    + rewrite heval_column.
      rewrite (item_item_meas d bi1 bj1 b B1 B2 HM). rewrite HI. reflexivity.
  - rewrite heval_column, !heval_item, HM. reflexivity.
  - rewrite heval_column, !heval_item, HM. reflexivity.
Qed.

(* the same keyed on ROW i *)
Lemma row_vals d (bi1 bj1 bi2 bj2 : nat) (IXE : hexp) (IX : option (option nat)) :
  bi1 < 2 -> bj1 < 2 -> bi2 < 2 -> bj2 < 2 ->
  heval' E IXE = match IX with
                 | None => HRaise EKeyError | Some None => HRaise EValueError
                 | Some (Some j) => HOk (HVNat j) end ->
  (forall j, IX = Some (Some j) -> j < blk_nr bi1 /\ j < blk_nr bi2) ->
  vals_eval E (HRow (HItem (HItem (MEAS d) bi1) bj1) IXE) (HRow (HItem (HItem (MEAS d) bi2) bj2) IXE)
    (bind (matrix_measure env (o_measure (reqof d)))
          (fun ob => match ob with
                     | None => Ok None
                     | Some b => with_index IX (fun i => (row_of (blk bi1 bj1 b) i, row_of (blk bi2 bj2 b) i))
                     end)).
Proof.
  intros B1 B2 B3 B4 HI HL. apply vals_measure_index; [apply matrix_measure_err|].
  pose proof (meas_eval d) as HM.
  destruct (matrix_measure env (o_measure (reqof d))) as [[b|]|c].
  - destruct IX as [[j|]|].
    + destruct (HL j eq_refl) as [L1 L2]. apply Nat.ltb_lt in L1, L2.
      exists (map KNum (nth j (blk bi1 bj1 b) [])). exists (map KNum (nth j (blk bi2 bj2 b) [])).
      split; [|split; [|split]].
      * rewrite heval_row.
        rewrite (item_item_meas d bi1 bj1 b B1 B2 HM). rewrite HI. cbn [hbind]. rewrite L1. reflexivity.
      * rewrite heval_row.
        rewrite (item_item_meas d bi2 bj2 b B3 B4 HM). rewrite HI. cbn [hbind]. rewrite L2. reflexivity.
      * unfold row_of. rewrite map_map. reflexivity.
      * unfold row_of. rewrite map_map. reflexivity.
    + rewrite heval_row.
      rewrite (item_item_meas d bi1 bj1 b B1 B2 HM). rewrite HI. reflexivity.
    + rewrite heval_row.
      rewrite (item_item_meas d bi1 bj1 b B1 B2 HM). rewrite HI. reflexivity.
  - rewrite heval_row, !heval_item, HM. reflexivity.
  - rewrite heval_row, !heval_item, HM. reflexivity.
Qed.

Lemma label_vals (d : hdim) :
  vals_eval E (LAB d) (SLAB d)
            (Ok (Some (map VStr (fst (sl_lab rl cl d)), map VStr (snd (sl_lab rl cl d))))).
Proof.
  cbn [vals_eval]. exists (map KStr (fst (sl_lab rl cl d))). exists (map KStr (snd (sl_lab rl cl d))).
  unfold LAB, SLAB. cbn [heval hbind h_labels h_sublabels henv_slice]. rewrite !omap_strs, !map_sval_KStr.
  repeat split; reflexivity.
Qed.

(* helper._display_order of a sort-by-value helper of dimension d *)
Lemma sbv_display_eval (d : hdim) EV SV (o : order_req) (m : method) (f : found) :
  is_value_method m = true ->
  o_spec o = o_spec (reqof d) ->
  vals_eval E EV SV f ->
  heval' E (DISPLAY (PRUNE (other d)) (TRYSBV d EV SV (EMP d)))
  = to_hres (partition_order (dimof d) o m f (where_mask (maskof d))
               (prune_subtotals (d_prune (dimof (other d))) (where_mask (maskof (other d)))
                                (List.length (d_ids (dimof (other d)))))).
Proof.
  intros Hm Ho Hv. unfold partition_order, display_order. rewrite <- bind_assoc.
  apply display_wrap; [apply prune_eval'|].
  apply (try_sbv E d EV SV (EMP d) (where_mask (maskof d)) (dimof d) o m f Hm eq_refl).
  - intros ev sv. rewrite Ho. reflexivity.
  - reflexivity.
  - apply emp_eval.
  - exact Hv.
Qed.

(* helper._display_order of _RowOrderHelper / _ColumnOrderHelper *)
Lemma anch_display_eval (d : hdim) :
  heval' E (DISPLAY (PRUNE (other d)) (ANCH d (EMP d)))
  = to_hres (display_order (dimof d)
               (ByAnchor (if String.eqb (cm_of cm (o_type (reqof d))) "EXPLICIT_ORDER"
                          then OExplicit (o_explicit (reqof d)) else OPayload))
               (where_mask (maskof d))
               (prune_subtotals (d_prune (dimof (other d))) (where_mask (maskof (other d)))
                                (List.length (d_ids (dimof (other d)))))).
Proof.
  unfold display_order. apply display_wrap; [apply prune_eval'|].
  unfold ANCH. cbn [heval hbind h_method henv_slice]. rewrite emp_eval. cbn [hbind h_format h_collate henv_slice].
  destruct (String.eqb (cm_of cm (o_type (reqof d))) "EXPLICIT_ORDER"); destruct d; reflexivity.
Qed.

(* ---- the row helpers ------------------------------------------------------------------ *)
Notation ro := (cook_rows (tr DCols) (d_array cols) rreq).
Notation co := (cook_cols (tr DRows) creq).
Notation rows_found m := (rows_values ro (opposing_of cols) env marg (fst rl) (snd rl) m).
Notation cols_found m := (columns_values co (opposing_of rows) env (fst cl) (snd cl) m).
Notation rows_result m :=
  (to_hres (partition_order rows ro m (rows_found m) (where_mask rmask)
              (prune_subtotals (d_prune cols) (where_mask cmask) (List.length (d_ids cols))))).
Notation cols_result m :=
  (to_hres (partition_order cols co m (cols_found m) (where_mask cmask)
              (prune_subtotals (d_prune rows) (where_mask rmask) (List.length (d_ids rows))))).

Lemma rows_base_column :
  heval' E (DISPLAY (PRUNE DCols)
             (TRYSBV DRows (HColumn (HItem (HItem (MEAS DRows) 0) 0) (IDXT DRows DCols "element_id"))
                           (HColumn (HItem (HItem (MEAS DRows) 1) 0) (IDXT DRows DCols "element_id"))
                           (EMP DRows)))
  = rows_result MOppElement.
Proof.
  apply (sbv_display_eval DRows _ _ ro MOppElement); [reflexivity|reflexivity|].
  apply (column_vals DRows 0 0 1 0 _
           (option_map (fun x => find_index x (d_ids cols)) (option_map (tr DCols) (o_element_id rreq))));
    try lia.
  - apply (idxt_eval DRows DCols "element_id" (o_element_id rreq)). reflexivity.
  - intros j H. destruct (option_map (tr DCols) (o_element_id rreq)) as [x|]; [|discriminate].
    cbn [option_map] in H. inversion H as [H']. apply find_index_lt in H'. split; exact H'.
Qed.

Lemma rows_derived_column :
  d_array cols = true ->
  heval' E (DISPLAY (PRUNE DCols)
             (TRYSBV DRows (HColumn (HItem (HItem (MEAS DRows) 0) 0) (IDXT DRows DCols "insertion_id"))
                           (HColumn (HItem (HItem (MEAS DRows) 1) 0) (IDXT DRows DCols "insertion_id"))
                           (EMP DRows)))
  = rows_result MOppInsertion.
Proof.
  intros Ha. apply (sbv_display_eval DRows _ _ ro MOppInsertion); [reflexivity|reflexivity|].
  unfold rows_values. cbn [opposing_of p_array p_ids]. rewrite Ha.
  cbn [cook_rows with_ids o_insertion_id o_measure]. rewrite ?Ha.
  apply (column_vals DRows 0 0 1 0 _
           (option_map (fun x => find_index x (d_ids cols)) (option_map (tr DCols) (o_insertion_id rreq))));
    try lia.
  - apply (idxt_eval DRows DCols "insertion_id" (o_insertion_id rreq)). reflexivity.
  - intros j H. destruct (option_map (tr DCols) (o_insertion_id rreq)) as [x|]; [|discriminate].
    cbn [option_map] in H. inversion H as [H']. apply find_index_lt in H'. split; exact H'.
Qed.

Lemma find_ins_lt x ids j : find_ins x ids = Some j -> j < List.length ids.
Proof. unfold find_ins. destruct x; try discriminate. apply find_indexZ_lt. Qed.

Lemma rows_inserted_column :
  d_array cols = false ->
  heval' E (DISPLAY (PRUNE DCols)
             (TRYSBV DRows (HColumn (HItem (HItem (MEAS DRows) 0) 1) (IDXI DRows DCols))
                           (HColumn (HItem (HItem (MEAS DRows) 1) 1) (IDXI DRows DCols))
                           (EMP DRows)))
  = rows_result MOppInsertion.
Proof.
  intros Ha. apply (sbv_display_eval DRows _ _ ro MOppInsertion); [reflexivity|reflexivity|].
  unfold rows_values. cbn [opposing_of p_array p_ins_ids]. rewrite Ha.
  cbn [cook_rows with_ids o_insertion_id o_measure]. rewrite ?Ha.
  apply (column_vals DRows 0 1 1 1 _
           (option_map (fun x => find_ins x (map fst (subtotals cols))) (o_insertion_id rreq))); try lia.
  - apply (idxi_eval DRows DCols).
  - intros j H. destruct (o_insertion_id rreq) as [x|]; [|discriminate].
    cbn [option_map] in H. inversion H as [H']. apply find_ins_lt in H'. rewrite map_length in H'.
    split; exact H'.
Qed.

Lemma rows_label :
  heval' E (DISPLAY (PRUNE DCols) (TRYSBV DRows (LAB DRows) (SLAB DRows) (EMP DRows))) = rows_result MLabel.
Proof.
  apply (sbv_display_eval DRows _ _ ro MLabel); [reflexivity|reflexivity|]. apply (label_vals DRows).
Qed.

Lemma marg_eval :
  heval' E MARG
  = match o_marginal rreq with
    | None => HRaise EKeyError
    | Some k =>
        if negb (smem k marginal_enum) then HRaise EValueError
        else match find_kw marginal_table k with
             | None => HRaise ENotImplementedError
             | Some r => match marg (kw_prop r) with
                         | Some v => HOk (vblocks_val v)
                         | None => HRaise EValueError
                         end
             end
    end.
Proof.
  unfold MARG.
  cbn [heval hbind h_spec h_table h_blocks henv_slice spec_of String.eqb Ascii.eqb Bool.eqb sl_req].
  destruct (o_marginal rreq) as [k|]; cbn [spec_enum hbind]; [|reflexivity].
  rewrite (MA k). destruct (smem k marginal_enum); cbn [negb hbind]; [|reflexivity].
  rewrite (T2 k). destruct (find_kw marginal_table k) as [r|] eqn:F; cbn [option_map hbind]; [|reflexivity].
  unfold sl_blocks. destruct NA as [_ N2]. rewrite (N2 k r F). destruct (marg (kw_prop r)); reflexivity.
Qed.

Lemma rows_marginal :
  heval' E (DISPLAY (PRUNE DCols) (TRYSBV DRows (HItem MARG 0) (HItem MARG 1) (EMP DRows)))
  = rows_result MMarginal.
Proof.
  apply (sbv_display_eval DRows _ _ ro MMarginal); [reflexivity|reflexivity|].
  unfold rows_values. cbn [cook_rows with_ids o_marginal].
  pose proof marg_eval as HM. unfold vals_eval.
  destruct (o_marginal rreq) as [k|].
  - destruct (negb (smem k marginal_enum)).
    + left. rewrite heval_item, HM. reflexivity.
    + destruct (find_kw marginal_table k) as [r|].
      * destruct (marg (kw_prop r)) as [[base subs]|].
        -- exists (map KNum base). exists (map KNum subs).
           rewrite !heval_item, HM. unfold vblocks_val. cbn [hbind nth_error fst snd].
           rewrite !map_sval_KNum. repeat split; reflexivity.
        -- left. rewrite heval_item, HM. reflexivity.
      * split; [discriminate|]. left. rewrite heval_item, HM. reflexivity.
  - split; [discriminate|]. left. rewrite heval_item, HM. reflexivity.
Qed.

(* ---- the column helpers --------------------------------------------------------------- *)
Lemma cols_label :
  heval' E (DISPLAY (PRUNE DRows) (TRYSBV DCols (LAB DCols) (SLAB DCols) (EMP DCols))) = cols_result MLabel.
Proof.
  apply (sbv_display_eval DCols _ _ co MLabel); [reflexivity|reflexivity|]. apply (label_vals DCols).
Qed.

Lemma cols_base_row :
  heval' E (DISPLAY (PRUNE DRows)
             (TRYSBV DCols (HRow (HItem (HItem (MEAS DCols) 0) 0) (IDXT DCols DRows "element_id"))
                           (HRow (HItem (HItem (MEAS DCols) 0) 1) (IDXT DCols DRows "element_id"))
                           (EMP DCols)))
  = cols_result MOppElement.
Proof.
  apply (sbv_display_eval DCols _ _ co MOppElement); [reflexivity|reflexivity|].
  apply (row_vals DCols 0 0 0 1 _
           (option_map (fun x => find_index x (d_ids rows)) (option_map (tr DRows) (o_element_id creq))));
    try lia.
  - apply (idxt_eval DCols DRows "element_id" (o_element_id creq)). reflexivity.
  - intros j H. destruct (option_map (tr DRows) (o_element_id creq)) as [x|]; [|discriminate].
    cbn [option_map] in H. inversion H as [H']. apply find_index_lt in H'. split; exact H'.
Qed.

Lemma cols_inserted_row :
  heval' E (DISPLAY (PRUNE DRows)
             (TRYSBV DCols (HRow (HItem (HItem (MEAS DCols) 1) 0) (IDXI DCols DRows))
                           (HRow (HItem (HItem (MEAS DCols) 1) 1) (IDXI DCols DRows))
                           (EMP DCols)))
  = cols_result MOppInsertion.
Proof.
  apply (sbv_display_eval DCols _ _ co MOppInsertion); [reflexivity|reflexivity|].
  apply (row_vals DCols 1 0 1 1 _
           (option_map (fun x => find_ins x (map fst (subtotals rows))) (o_insertion_id creq))); try lia.
  - apply (idxi_eval DCols DRows).
  - intros j H. destruct (o_insertion_id creq) as [x|]; [|discriminate].
    cbn [option_map] in H. inversion H as [H']. apply find_ins_lt in H'. rewrite map_length in H'.
    split; exact H'.
Qed.

End Slice.

(* ------------------------------------------------------------------------------------ *)
(** * the generated terms: helper classes of matrix/assembler.py *)

(* what the model computes for the ROWS of a slice with method m / for its COLUMNS *)
Definition rows_model (rows cols : dimension) (rreq : order_req) (rmask cmask : list bool)
           (rl : list string * list string) (tr : hdim -> ident -> ident) (env : menv) (marg : venv)
           (m : method) : res (list Z) :=
  let o := cook_rows (tr DCols) (d_array cols) rreq in
  partition_order rows o m (rows_values o (opposing_of cols) env marg (fst rl) (snd rl) m)
                  (where_mask rmask)
                  (prune_subtotals (d_prune cols) (where_mask cmask) (List.length (d_ids cols))).
Definition cols_model (rows cols : dimension) (creq : order_req) (rmask cmask : list bool)
           (cl : list string * list string) (tr : hdim -> ident -> ident) (env : menv)
           (m : method) : res (list Z) :=
  let o := cook_cols (tr DRows) creq in
  partition_order cols o m (columns_values o (opposing_of rows) env (fst cl) (snd cl) m)
                  (where_mask cmask)
                  (prune_subtotals (d_prune rows) (where_mask rmask) (List.length (d_ids rows))).

(* a helper class of the ROWS / of the COLUMNS stands for method m (when [pre] holds of the two dimensions) *)
Definition rows_class (src : option hexp) (m : method) (pre : dimension -> dimension -> Prop) : Prop :=
  with_tables (fun cm me ma t1 t2 _ =>
    match src with
    | Some e => forall rows cols rreq creq rmask cmask rl cl tr env marg,
        names_apart env marg -> pre rows cols ->
        heval' (henv_slice cm me ma t1 t2 rows cols rreq creq rmask cmask rl cl tr env marg) e
        = to_hres (rows_model rows cols rreq rmask cmask rl tr env marg m)
    | None => True
    end).
Definition cols_class (src : option hexp) (m : method) : Prop :=
  with_tables (fun cm me ma t1 t2 _ =>
    match src with
    | Some e => forall rows cols rreq creq rmask cmask rl cl tr env marg,
        names_apart env marg ->
        heval' (henv_slice cm me ma t1 t2 rows cols rreq creq rmask cmask rl cl tr env marg) e
        = to_hres (cols_model rows cols creq rmask cmask cl tr env m)
    | None => True
    end).
Definition any_dims (rows cols : dimension) : Prop := True.

Ltac tables_setup :=
  unfold with_tables, tbl_COLLATION_METHOD, tbl_MEASURE, tbl_MARGINAL, tbl_matrix_sort_measures,
    tbl_marginal_sort_marginals, tbl_strand_sort_measures;
  cbv beta iota;
  lazymatch goal with
  | |- True => exact I
  | _ =>
      pose proof gen_matrix_sort_measures as T1; unfold tbl_matrix_sort_measures in T1;
      pose proof gen_marginal_sort_marginals as T2; unfold tbl_marginal_sort_marginals in T2;
      pose proof gen_strand_sort_measures as T3; unfold tbl_strand_sort_measures in T3;
      pose proof gen_MEASURE_values as ME; unfold tbl_MEASURE in ME;
      pose proof gen_MARGINAL_values as MA; unfold tbl_MARGINAL in MA
  end.

Ltac class_by lem :=
  tables_setup;
  lazymatch goal with
  | |- True => exact I
  | _ => intros; unfold rows_model, cols_model; apply lem; assumption
  end.

Lemma gen_matrix_SortRowsByBaseColumnHelper :
  rows_class ord_matrix__SortRowsByBaseColumnHelper__display_order MOppElement any_dims.
Proof. unfold rows_class, ord_matrix__SortRowsByBaseColumnHelper__display_order. class_by rows_base_column. Qed.
Lemma gen_matrix_SortRowsByDerivedColumnHelper :
  rows_class ord_matrix__SortRowsByDerivedColumnHelper__display_order MOppInsertion
             (fun _ cols => d_array cols = true).
Proof. unfold rows_class, ord_matrix__SortRowsByDerivedColumnHelper__display_order. class_by rows_derived_column. Qed.

Lemma gen_matrix_SortRowsByInsertedColumnHelper :
  rows_class ord_matrix__SortRowsByInsertedColumnHelper__display_order MOppInsertion
             (fun _ cols => d_array cols = false).
Proof. unfold rows_class, ord_matrix__SortRowsByInsertedColumnHelper__display_order. class_by rows_inserted_column. Qed.

Lemma gen_matrix_SortRowsByLabelHelper :
  rows_class ord_matrix__SortRowsByLabelHelper__display_order MLabel any_dims.
Proof. unfold rows_class, ord_matrix__SortRowsByLabelHelper__display_order. class_by rows_label. Qed.

Lemma gen_matrix_SortRowsByMarginalHelper :
  rows_class ord_matrix__SortRowsByMarginalHelper__display_order MMarginal any_dims.
Proof. unfold rows_class, ord_matrix__SortRowsByMarginalHelper__display_order. class_by rows_marginal. Qed.

Lemma gen_matrix_SortColumnsByLabelHelper :
  cols_class ord_matrix__SortColumnsByLabelHelper__display_order MLabel.
Proof. unfold cols_class, ord_matrix__SortColumnsByLabelHelper__display_order. class_by cols_label. Qed.

Lemma gen_matrix_SortColumnsByBaseRowHelper :
  cols_class ord_matrix__SortColumnsByBaseRowHelper__display_order MOppElement.
Proof. unfold cols_class, ord_matrix__SortColumnsByBaseRowHelper__display_order. class_by cols_base_row. Qed.

Lemma gen_matrix_SortColumnsByInsertedRowHelper :
  cols_class ord_matrix__SortColumnsByInsertedRowHelper__display_order MOppInsertion.
Proof. unfold cols_class, ord_matrix__SortColumnsByInsertedRowHelper__display_order. class_by cols_inserted_row. Qed.

(* _RowOrderHelper / _ColumnOrderHelper: the explicit-order collator exactly for EXPLICIT_ORDER, else the
   payload-order collator; no sort values *)
Definition anchored_of (cm : list (string * string)) (o : order_req) : ordering :=
  ByAnchor (if String.eqb (cm_of cm (o_type o)) "EXPLICIT_ORDER" then OExplicit (o_explicit o) else OPayload).

Lemma gen_matrix_RowOrderHelper :
  with_tables (fun cm me ma t1 t2 _ =>
    match ord_matrix__RowOrderHelper__display_order with
    | Some e => forall rows cols rreq creq rmask cmask rl cl tr env marg,
        heval' (henv_slice cm me ma t1 t2 rows cols rreq creq rmask cmask rl cl tr env marg) e
        = to_hres (display_order rows (anchored_of cm rreq) (where_mask rmask)
                     (prune_subtotals (d_prune cols) (where_mask cmask) (List.length (d_ids cols))))
    | None => True
    end).
Proof.
  unfold ord_matrix__RowOrderHelper__display_order. tables_setup;
  lazymatch goal with
  | |- True => exact I
  | _ => intros; unfold anchored_of; apply (anch_display_eval _ _ _ _ _ _ _ _ _ _ _ _ _ _ _ _ DRows)
  end.
Qed.

Lemma gen_matrix_ColumnOrderHelper :
  with_tables (fun cm me ma t1 t2 _ =>
    match ord_matrix__ColumnOrderHelper__display_order with
    | Some e => forall rows cols rreq creq rmask cmask rl cl tr env marg,
        heval' (henv_slice cm me ma t1 t2 rows cols rreq creq rmask cmask rl cl tr env marg) e
        = to_hres (display_order cols (anchored_of cm creq) (where_mask cmask)
                     (prune_subtotals (d_prune rows) (where_mask rmask) (List.length (d_ids rows))))
    | None => True
    end).
Proof.
  unfold ord_matrix__ColumnOrderHelper__display_order. tables_setup;
  lazymatch goal with
  | |- True => exact I
  | _ => intros; unfold anchored_of; apply (anch_display_eval _ _ _ _ _ _ _ _ _ _ _ _ _ _ _ _ DCols)
  end.
Qed.

(* ------------------------------------------------------------------------------------ *)
(** * the factories: which class serves which "type" keyword *)

(* _OrderSpec.collation_method over the COLLATION_METHOD table read from enums.py, keyword by keyword
   (the chain of [method_of]) *)
Definition cm_spec (cm : list (string * string)) : Prop :=
  forall k, cm_of cm (Some k) =
    if String.eqb k "explicit" then "EXPLICIT_ORDER"
    else if String.eqb k "label" then "LABEL"
    else if String.eqb k "opposing_element" then "OPPOSING_ELEMENT"
    else if String.eqb k "opposing_insertion" then "OPPOSING_INSERTION"
    else if String.eqb k "marginal" then "MARGINAL"
    else if String.eqb k "univariate_measure" then "UNIVARIATE_MEASURE"
    else "PAYLOAD_ORDER".

Lemma cm_of_other cm k :
  (forall p, In p cm -> snd p = k -> fst p = "PAYLOAD_ORDER") -> cm_of cm (Some k) = "PAYLOAD_ORDER".
Proof.
  unfold cm_of. induction cm as [|p t IH]; intros H; cbn [find]; [reflexivity|].
  destruct (String.eqb (snd p) k) eqn:E.
  - apply String.eqb_eq in E. apply H; [left; reflexivity|exact E].
  - apply IH. intros p' I. apply H. right. exact I.
Qed.

Lemma gen_cm_spec :
  match tbl_COLLATION_METHOD with Some cm => cm_spec cm | None => True end.
Proof.
  unfold tbl_COLLATION_METHOD.
  lazymatch goal with
  | |- True => exact I
  | _ =>
      intros k;
      destruct (String.eqb k "explicit") eqn:E1; [apply String.eqb_eq in E1; subst k; vm_compute; reflexivity|];
      destruct (String.eqb k "label") eqn:E2; [apply String.eqb_eq in E2; subst k; vm_compute; reflexivity|];
      destruct (String.eqb k "opposing_element") eqn:E3;
        [apply String.eqb_eq in E3; subst k; vm_compute; reflexivity|];
      destruct (String.eqb k "opposing_insertion") eqn:E4;
        [apply String.eqb_eq in E4; subst k; vm_compute; reflexivity|];
      destruct (String.eqb k "marginal") eqn:E5; [apply String.eqb_eq in E5; subst k; vm_compute; reflexivity|];
      destruct (String.eqb k "univariate_measure") eqn:E6;
        [apply String.eqb_eq in E6; subst k; vm_compute; reflexivity|];
      apply cm_of_other; intros p I Hk; cbn [In] in I;
      repeat (destruct I as [<-|I]; [cbn [fst snd] in Hk |- *; try reflexivity; subst k; discriminate|]);
      destruct I
  end.
Qed.

Lemma heval_if_method E d mem a b :
  heval' E (HIf (HMethodIs d mem) a b)
  = if String.eqb (h_method _ E d) mem then heval' E a else heval' E b.
Proof. cbn [heval hbind]. destruct (String.eqb (h_method _ E d) mem); reflexivity. Qed.

Lemma heval_if_method_array E d mem d' a b :
  heval' E (HIf (HAnd (HMethodIs d mem) (HInArrayTypes d')) a b)
  = if String.eqb (h_method _ E d) mem && h_array _ E d' then heval' E a else heval' E b.
Proof.
  cbn [heval hbind]. destruct (String.eqb (h_method _ E d) mem); cbn [hbind andb]; [|reflexivity].
  destruct (h_array _ E d'); reflexivity.
Qed.

Ltac dispatch_steps Hcm :=
  repeat first
    [ rewrite heval_if_method; cbn [h_method henv_slice henv_strand sl_req]; rewrite Hcm;
      cbn [String.eqb Ascii.eqb Bool.eqb]
    | rewrite heval_if_method_array; cbn [h_method h_array henv_slice henv_strand sl_req sl_dim]; rewrite Hcm;
      cbn [String.eqb Ascii.eqb Bool.eqb andb] ].


Section Factories.
Variables cm me ma t1 t2 : list (string * string).
Hypothesis CMH : cm_spec cm.
Hypothesis T1 : lookup_agrees t1 matrix_table.
Hypothesis T2 : lookup_agrees t2 marginal_table.
Hypothesis ME : same_members (map snd me) measure_enum.
Hypothesis MA : same_members (map snd ma) marginal_enum.


Ltac leaf_anch Hk d :=
  etransitivity; [apply (anch_display_eval _ _ _ _ _ _ _ _ _ _ _ _ _ _ _ _ d)|];
  cbn [sl_req sl_dim other]; rewrite Hk; reflexivity.
Ltac leaf_class lem := unfold any_dims; first [apply lem; assumption | apply lem; auto].

Ltac rows_insertion_leaf Hk :=
  match goal with
  | |- context [d_array ?cols] =>
      let AR := fresh "AR" in
      assert (AR : d_array cols = true \/ d_array cols = false) by (destruct (d_array cols); auto);
      match goal with |- _ = ?R => let rhs := fresh "rhs" in let HR := fresh "HR" in
        remember R as rhs eqn:HR;
        destruct AR as [AR|AR]; repeat (progress (dispatch_steps Hk; rewrite ?AR; cbn [andb])); subst rhs;
        [leaf_class rows_derived_column|leaf_class rows_inserted_column]
      end
  end.

Ltac row_factory_script :=
  let rows := fresh "rows" in let cols := fresh "cols" in let rreq := fresh "rreq" in
  intros rows cols rreq creq rmask cmask rl cl tr env marg NA;
  unfold slice_row_order, rows_order, sl_sd;
  cbn [sd_rows sd_cols sd_row_req sd_row_empties sd_col_empties sd_row_labels cook_rows with_ids o_type];
  let k := fresh "k" in let OT := fresh "OT" in let Hk := fresh "Hk" in
  destruct (o_type rreq) as [k|] eqn:OT;
  [ pose proof (CMH k) as Hk; rewrite <- OT in Hk at 1; unfold method_of;
    destruct (String.eqb k "explicit"); [dispatch_steps Hk; leaf_anch Hk DRows|];
    destruct (String.eqb k "label"); [dispatch_steps Hk; leaf_class rows_label|];
    destruct (String.eqb k "opposing_element"); [dispatch_steps Hk; leaf_class rows_base_column|];
    destruct (String.eqb k "opposing_insertion"); [rows_insertion_leaf Hk|];
    destruct (String.eqb k "marginal"); [dispatch_steps Hk; leaf_class rows_marginal|];
    destruct (String.eqb k "univariate_measure"); dispatch_steps Hk; leaf_anch Hk DRows
  | assert (Hk : cm_of cm (o_type rreq) = "PAYLOAD_ORDER") by (rewrite OT; reflexivity);
    unfold method_of; dispatch_steps Hk; leaf_anch Hk DRows ].

Lemma row_factory_aux :
    match ord_matrix_row_display_order with
    | Some e => forall rows cols rreq creq rmask cmask rl cl tr env marg,
        names_apart env marg ->
        heval' (henv_slice cm me ma t1 t2 rows cols rreq creq rmask cmask rl cl tr env marg) e
        = to_hres (slice_row_order
                     (sl_sd rows cols rreq creq rmask cmask rl cl tr) env marg)
    | None => True
    end.
Proof.
  unfold ord_matrix_row_display_order.
  lazymatch goal with
  | |- True => exact I
  | _ => row_factory_script
  end.
Qed.

Ltac column_factory_script :=
  let rows := fresh "rows" in let cols := fresh "cols" in let creq := fresh "creq" in
  intros rows cols rreq creq rmask cmask rl cl tr env marg NA;
  unfold slice_column_order, columns_order, sl_sd;
  cbn [sd_rows sd_cols sd_col_req sd_row_empties sd_col_empties sd_col_labels cook_cols with_ids o_type];
  let k := fresh "k" in let OT := fresh "OT" in let Hk := fresh "Hk" in
  destruct (o_type creq) as [k|] eqn:OT;
  [ pose proof (CMH k) as Hk; rewrite <- OT in Hk at 1; unfold method_of;
    destruct (String.eqb k "explicit"); [dispatch_steps Hk; leaf_anch Hk DCols|];
    destruct (String.eqb k "label"); [dispatch_steps Hk; leaf_class cols_label|];
    destruct (String.eqb k "opposing_element"); [dispatch_steps Hk; leaf_class cols_base_row|];
    destruct (String.eqb k "opposing_insertion"); [dispatch_steps Hk; leaf_class cols_inserted_row|];
    destruct (String.eqb k "marginal"); [dispatch_steps Hk; leaf_anch Hk DCols|];
    destruct (String.eqb k "univariate_measure"); dispatch_steps Hk; leaf_anch Hk DCols
  | assert (Hk : cm_of cm (o_type creq) = "PAYLOAD_ORDER") by (rewrite OT; reflexivity);
    unfold method_of; dispatch_steps Hk; leaf_anch Hk DCols ].

Lemma column_factory_aux :
    match ord_matrix_column_display_order with
    | Some e => forall rows cols rreq creq rmask cmask rl cl tr env marg,
        names_apart env marg ->
        heval' (henv_slice cm me ma t1 t2 rows cols rreq creq rmask cmask rl cl tr env marg) e
        = to_hres (slice_column_order (sl_sd rows cols rreq creq rmask cmask rl cl tr) env)
    | None => True
    end.
Proof.
  unfold ord_matrix_column_display_order.
  lazymatch goal with
  | |- True => exact I
  | _ => column_factory_script
  end.
Qed.
End Factories.

Ltac factory_by aux :=
  pose proof gen_cm_spec as CMH; unfold tbl_COLLATION_METHOD in CMH;
  tables_setup;
  lazymatch goal with
  | |- True => exact I
  | _ => apply aux; assumption
  end.

(* _BaseOrderHelper.row_display_order: the signed row order of a slice IS [slice_row_order] *)
Lemma gen_matrix_row_display_order :
  with_tables (fun cm me ma t1 t2 _ =>
    match ord_matrix_row_display_order with
    | Some e => forall rows cols rreq creq rmask cmask rl cl tr env marg,
        names_apart env marg ->
        heval' (henv_slice cm me ma t1 t2 rows cols rreq creq rmask cmask rl cl tr env marg) e
        = to_hres (slice_row_order (sl_sd rows cols rreq creq rmask cmask rl cl tr) env marg)
    | None => True
    end).
Proof. factory_by row_factory_aux. Qed.

(* _BaseOrderHelper.column_display_order: the signed column order IS [slice_column_order] *)
Lemma gen_matrix_column_display_order :
  with_tables (fun cm me ma t1 t2 _ =>
    match ord_matrix_column_display_order with
    | Some e => forall rows cols rreq creq rmask cmask rl cl tr env marg,
        names_apart env marg ->
        heval' (henv_slice cm me ma t1 t2 rows cols rreq creq rmask cmask rl cl tr env marg) e
        = to_hres (slice_column_order (sl_sd rows cols rreq creq rmask cmask rl cl tr) env)
    | None => True
    end).
Proof. factory_by column_factory_aux. Qed.
