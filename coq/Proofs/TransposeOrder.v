(* Proofs/TransposeOrder.v -- C10 for the signed display orders: the row order of B x A is the column
   order of A x B.

   The two order helpers of matrix/assembler.py are written separately (_RowOrderHelper /
   _ColumnOrderHelper, the _SortRowsBy.. / _SortColumnsBy.. families); Model/SortKeys.v models them as [rows_order] /
   [columns_order] with [rows_values] / [columns_values], Model/OrderOrient.v puts them on a slice.

   (a) anchored collators (payload / explicit order, and every `type` that falls back to them): the
       order does not depend on which side the dimension is on - no hypothesis on the measures.
   (b) sort by value (label, opposing element, opposing insertion): equal whenever the key is the
       transposed key ([key_T]); the rows-only kinds are excluded by hypothesis: a `marginal` sort
       (columns have none) and an opposing-insertion sort against an ARRAY dimension (rows sort by the
       derived element, columns have no such helper).
   (c) [key_T] holds for every measure keyword but `col_index`, with the direction of the keyword
       mirrored, as soon as the measures object of B x A is property-wise the transposed twin. *)
From Coq Require Import List ZArith String Bool Lia Arith QArith.
From CC Require Import Base.XQ Base.SortX Spec.OrderSpec Model.Collator Model.SortKeys Model.OrderOrient.
Import ListNotations.
Local Close Scope Q_scope.
Local Open Scope nat_scope.
Local Open Scope string_scope.

(* ---- the dispatch ---------------------------------------------------------------------------- *)
Lemma method_of_columns t :
  method_of PColumns t = match method_of PRows t with MMarginal => MPayload | x => x end.
Proof.
  destruct t as [k|]; [|reflexivity]. unfold method_of.
  destruct (String.eqb k "explicit"); [reflexivity|].
  destruct (String.eqb k "label"); [reflexivity|].
  destruct (String.eqb k "opposing_element"); [reflexivity|].
  destruct (String.eqb k "opposing_insertion"); [reflexivity|].
  destruct (String.eqb k "marginal"); [reflexivity|].
  destruct (String.eqb k "univariate_measure"); reflexivity.
Qed.

Lemma method_of_rows_not_univariate t : method_of PRows t <> MUnivariate.
Proof.
  destruct t as [k|]; [|discriminate]. unfold method_of.
  destruct (String.eqb k "explicit"); [discriminate|].
  destruct (String.eqb k "label"); [discriminate|].
  destruct (String.eqb k "opposing_element"); [discriminate|].
  destruct (String.eqb k "opposing_insertion"); [discriminate|].
  destruct (String.eqb k "marginal"); [discriminate|].
  destruct (String.eqb k "univariate_measure"); discriminate.
Qed.

(* ---- (a) anchored collators ----------------------------------------------------------------- *)
Theorem anchored_order_T d o opp opp' env env' marg labels sublabels labels' sublabels' empties psub :
  is_value_method (method_of PRows (o_type o)) = false ->
  rows_order d o opp env marg labels sublabels empties psub
  = columns_order d o opp' env' labels' sublabels' empties psub.
Proof.
  intros H. unfold rows_order, columns_order. cbv zeta. rewrite method_of_columns.
  destruct (method_of PRows (o_type o)); simpl in H; try discriminate; reflexivity.
Qed.

(* ---- the transposed key ------------------------------------------------------------------------ *)
Lemma nth_map_seq {A} (f : nat -> A) n i d : i < n -> nth i (map f (seq 0 n)) d = f i.
Proof.
  intros H. rewrite (nth_indep _ d (f 0)) by (rewrite map_length, seq_length; exact H).
  rewrite map_nth, seq_nth by exact H. reflexivity.
Qed.

Lemma map_nth_seq_xq (l : list xq) : map (fun i => nth i l NaN) (seq 0 (List.length l)) = l.
Proof.
  induction l as [|x t IH]; simpl; [reflexivity|]. f_equal. rewrite <- seq_shift, map_map. exact IH.
Qed.

Lemma column_of_mtr n p M j : j < n -> mb_rect n p M -> column_of (mtr n p M) j = row_of M j.
Proof.
  intros Hj [HL HF]. unfold column_of, mtr, row_of. rewrite map_map.
  assert (E : List.length (nth j M []) = p).
  { rewrite Forall_forall in HF. apply HF. apply nth_In. lia. }
  rewrite <- (map_nth_seq_xq (nth j M [])). rewrite E, map_map.
  apply map_ext. intros jj. rewrite (nth_map_seq _ n j NaN Hj). reflexivity.
Qed.

Lemma find_index_lt x ids j : find_index x ids = Some j -> j < List.length ids.
Proof.
  revert j. induction ids as [|y t IH]; intros j H; simpl in H; [discriminate|].
  destruct (ident_eqb y x).
  - inversion H. simpl. lia.
  - destruct (find_index x t) as [j'|]; [|discriminate]. inversion H. simpl.
    specialize (IH j' eq_refl). lia.
Qed.

Lemma find_indexZ_lt x ids j : find_indexZ x ids = Some j -> j < List.length ids.
Proof.
  revert j. induction ids as [|y t IH]; intros j H; simpl in H; [discriminate|].
  destruct (Z.eqb y x).
  - inversion H. simpl. lia.
  - destruct (find_indexZ x t) as [j'|]; [|discriminate]. inversion H. simpl.
    specialize (IH j' eq_refl). lia.
Qed.

Lemma find_ins_lt x ids j : find_ins x ids = Some j -> j < List.length ids.
Proof. destruct x; simpl; try discriminate. apply find_indexZ_lt. Qed.

(* ---- (b) sort by value ------------------------------------------------------------------------- *)
Section ValueSort.
  (* A x B: n base rows (dimension A = [opp]), m row subtotals, p base columns (dimension B = the
     sorted one), q column subtotals *)
  Variables n m p q : nat.
  Variable o : order_req.                  (* B's order request as written for A x B *)
  Variable kw' : option string.            (* the measure keyword as written for B x A *)
  Variable opp : opposing.                 (* dimension A *)
  Variables env env' : menv.               (* measures of A x B, of B x A *)
  Variable marg : venv.
  Variables labels sublabels : list string.
  Hypothesis Hn : List.length (p_ids opp) = n.
  Hypothesis Hm : List.length (p_ins_ids opp) = m.
  Hypothesis Hkey : key_T n m p q (matrix_measure env' kw') (matrix_measure env (o_measure o)).

  Lemma values_T mth :
    mth <> MMarginal -> (mth = MOppInsertion -> p_array opp = false) ->
    rows_values (with_measure o kw') opp env' marg labels sublabels mth
    = columns_values o opp env labels sublabels mth.
  Proof.
    intros Hmg Harr. destruct mth; try reflexivity; try (exfalso; apply Hmg; reflexivity).
    - (* opposing element *)
      unfold rows_values, columns_values. simpl o_measure. simpl o_element_id.
      unfold key_T in Hkey.
      destruct (matrix_measure env (o_measure o)) as [[b|]|c]; [destruct Hkey as [W ->]| rewrite Hkey| rewrite Hkey];
        try reflexivity.
      simpl. destruct (o_element_id o) as [x|]; [|reflexivity]. simpl.
      destruct (find_index x (p_ids opp)) as [j|] eqn:F; [|reflexivity]. simpl.
      pose proof (find_index_lt _ _ _ F) as Lj. rewrite Hn in Lj.
      destruct W as (W1 & W2 & W3 & W4). cbn [mb_T mb_base mb_srows mb_scols mb_inter].
      rewrite (column_of_mtr n p _ j Lj W1), (column_of_mtr n q _ j Lj W2). reflexivity.
    - (* opposing insertion *)
      unfold rows_values, columns_values. simpl o_measure. simpl o_insertion_id.
      rewrite (Harr eq_refl). unfold key_T in Hkey.
      destruct (matrix_measure env (o_measure o)) as [[b|]|c]; [destruct Hkey as [W ->]| rewrite Hkey| rewrite Hkey];
        try reflexivity.
      simpl. destruct (o_insertion_id o) as [x|]; [|reflexivity]. simpl.
      destruct (find_ins x (p_ins_ids opp)) as [k|] eqn:F; [|reflexivity]. simpl.
      pose proof (find_ins_lt _ _ _ F) as Lk. rewrite Hm in Lk.
      destruct W as (W1 & W2 & W3 & W4). cbn [mb_T mb_base mb_srows mb_scols mb_inter].
      rewrite (column_of_mtr m p _ k Lk W3), (column_of_mtr m q _ k Lk W4). reflexivity.
  Qed.

  Theorem value_order_T d empties psub :
    method_of PRows (o_type o) <> MMarginal ->
    (method_of PRows (o_type o) = MOppInsertion -> p_array opp = false) ->
    rows_order d (with_measure o kw') opp env' marg labels sublabels empties psub
    = columns_order d o opp env labels sublabels empties psub.
  Proof.
    intros Hmg Harr. unfold rows_order, columns_order. cbv zeta. simpl o_type.
    rewrite method_of_columns.
    destruct (method_of PRows (o_type o)) eqn:E; try (exfalso; apply Hmg; reflexivity);
      unfold partition_order;
      try (rewrite <- (values_T _ Hmg Harr)); reflexivity.
  Qed.
End ValueSort.

(* ---- (c) the key IS the transposed key when the measures are ---------------------------------- *)
Lemma mirror_in_none_self k : mirror_in mirror_pairs k = None -> mirror_kw k = k.
Proof. intros H. unfold mirror_kw. rewrite H. reflexivity. Qed.

(* every row of the keyword table whose keyword has no mirror names a direction-free property, or is
   the column index *)
Lemma unmirrored_rows_direction_free :
  forallb (fun r => match mirror_in mirror_pairs (kw_name r) with
                    | Some _ => true
                    | None => String.eqb (kw_name r) "col_index"
                              || String.eqb (mirror_prop (kw_prop r)) (kw_prop r)
                    end) matrix_table = true.
Proof. vm_compute. reflexivity. Qed.

Lemma find_kw_In tbl k r : find_kw tbl k = Some r -> In r tbl /\ kw_name r = k.
Proof.
  unfold find_kw. intros H. apply find_some in H. destruct H as [H1 H2].
  apply String.eqb_eq in H2. split; assumption.
Qed.

Section MirrorKey.
  Variables n m p q : nat.
  Variables env env' : menv.
  Hypothesis Henv : forall prop, prop <> "column_index" -> env' prop = env_T n m p q env prop.
  Hypothesis Hwf : forall prop b, env prop = Some b -> mb_wf n m p q b.

  Lemma key_of_props pr pr' :
    pr' <> "column_index" -> mirror_prop pr' = pr ->
    key_T n m p q (Ok (env' pr')) (Ok (env pr)).
  Proof.
    intros H1 H2. rewrite (Henv pr' H1). unfold env_T. rewrite H2. unfold key_T.
    destruct (env pr) as [b|] eqn:E; simpl; [|reflexivity]. split; [apply (Hwf pr b E)| reflexivity].
  Qed.

  Theorem matrix_measure_mirror kw :
    kw <> Some "col_index" ->
    key_T n m p q (matrix_measure env' (option_map mirror_kw kw)) (matrix_measure env kw).
  Proof.
    intros Hk. destruct kw as [k|]; [|reflexivity]. simpl option_map.
    destruct (mirror_in mirror_pairs k) as [k'|] eqn:M.
    - (* one of the fourteen directional keywords *)
      unfold mirror_kw. rewrite M. unfold mirror_pairs in M. simpl in M.
      repeat match type of M with
             | (if String.eqb k ?a then _ else _) = Some _ =>
                 let E := fresh "E" in
                 destruct (String.eqb k a) eqn:E;
                 [ apply String.eqb_eq in E; subst k; inversion M; subst k'; clear M;
                   apply key_of_props; [discriminate| vm_compute; reflexivity]
                 | ]
             end.
      discriminate M.
    - (* no mirror: the same keyword on both sides *)
      rewrite (mirror_in_none_self k M). unfold matrix_measure.
      destruct (negb (smem k measure_enum)); [reflexivity|].
      destruct (find_kw matrix_table k) as [r|] eqn:F; [|reflexivity].
      destruct (find_kw_In _ _ _ F) as [Hin Hname].
      pose proof unmirrored_rows_direction_free as G. rewrite forallb_forall in G.
      specialize (G r Hin). rewrite Hname, M in G.
      apply orb_true_iff in G. destruct G as [G|G]; apply String.eqb_eq in G.
      + exfalso. apply Hk. rewrite G. reflexivity.
      + apply key_of_props; [|exact G].
        (* the only row with property column_index is the keyword col_index *)
        intros Ep. assert (K : k = "col_index").
        { clear -Hin Hname Ep. unfold matrix_table in Hin. simpl in Hin.
          repeat (destruct Hin as [<-|Hin]; [simpl in *; try discriminate Ep; symmetry; exact Hname|]).
          destruct Hin. }
        apply Hk. rewrite K. reflexivity.
  Qed.
End MirrorKey.

(* ---- the slice ----------------------------------------------------------------------------------- *)
(* the ROW order of B x A is the COLUMN order of A x B: dimensions, order requests (measure keyword
   mirrored), empty-vector lists and labels exchanged, the measures object property-wise transposed *)
Theorem slice_order_T sd env env' marg p q :
  let n := List.length (d_ids (sd_rows sd)) in
  let m := List.length (subtotals (sd_rows sd)) in
  let t := o_type (sd_col_req sd) in
  method_of PRows t <> MMarginal ->
  (method_of PRows t = MOppInsertion -> d_array (sd_rows sd) = false) ->
  o_measure (sd_col_req sd) <> Some "col_index" ->
  (forall prop, prop <> "column_index" -> env' prop = env_T n m p q env prop) ->
  (forall prop b, env prop = Some b -> mb_wf n m p q b) ->
  slice_row_order (dims_T sd) env' marg = slice_column_order sd env.
Proof.
  cbv zeta. intros Hmg Harr Hk Henv Hwf. unfold slice_row_order, slice_column_order, dims_T.
  cbn [sd_rows sd_cols sd_row_req sd_col_req sd_row_empties sd_col_empties sd_row_labels sd_col_labels].
  unfold mirror_req.
  apply (value_order_T (List.length (d_ids (sd_rows sd))) (List.length (subtotals (sd_rows sd))) p q).
  - reflexivity.
  - unfold opposing_of. simpl. apply map_length.
  - apply (matrix_measure_mirror _ _ p q env env' Henv Hwf). exact Hk.
  - exact Hmg.
  - exact Harr.
Qed.

(* and the COLUMN order of B x A is the ROW order of A x B, under the mirrored hypotheses *)
Theorem slice_order_T_columns sd env env' marg p q :
  let n := List.length (d_ids (sd_cols sd)) in
  let m := List.length (subtotals (sd_cols sd)) in
  let t := o_type (sd_row_req sd) in
  method_of PRows t <> MMarginal ->
  (method_of PRows t = MOppInsertion -> d_array (sd_cols sd) = false) ->
  option_map mirror_kw (o_measure (sd_row_req sd)) <> Some "col_index" ->
  (forall prop, prop <> "column_index" -> env prop = env_T n m p q env' prop) ->
  (forall prop b, env' prop = Some b -> mb_wf n m p q b) ->
  (forall k, o_measure (sd_row_req sd) = Some k -> mirror_kw (mirror_kw k) = k) ->
  slice_column_order (dims_T sd) env' = slice_row_order sd env marg.
Proof.
  cbv zeta. intros Hmg Harr Hk Henv Hwf Hinv. symmetry.
  unfold slice_row_order, slice_column_order, dims_T.
  cbn [sd_rows sd_cols sd_row_req sd_col_req sd_row_empties sd_col_empties sd_row_labels sd_col_labels].
  assert (E : sd_row_req sd = with_measure (mirror_req (sd_row_req sd))
                                (option_map mirror_kw (o_measure (mirror_req (sd_row_req sd))))).
  { unfold mirror_req, with_measure. simpl. destruct (sd_row_req sd) as [t ms mg e i s x]. simpl in *.
    f_equal. destruct ms as [k|]; [|reflexivity]. simpl. rewrite (Hinv k eq_refl). reflexivity. }
  rewrite E at 1.
  apply (value_order_T (List.length (d_ids (sd_cols sd))) (List.length (subtotals (sd_cols sd))) p q).
  - reflexivity.
  - unfold opposing_of. simpl. apply map_length.
  - apply (matrix_measure_mirror _ _ p q env' env Henv Hwf). exact Hk.
  - exact Hmg.
  - exact Harr.
Qed.
