(* Proofs/ComposePublicChainDefs.v -- the COMPOSITION of the source translators, part 3: the measure chain,
   definitions and tactics (no link lemma is used here; ComposePublicChain{Counts,Bases}.v, ComposePublicChain.v,
   ComposePublicChain2-4.v use one family of GenAgree lemmas each, so that a composed theorem depends on the
   links of ITS chain only).

   For an arbitrary context C (sizes, subtotals, cube-measure arrays), the generated block terms of
       weighted_counts, row / column / table_weighted_bases, row / column / table_proportions
   -- each evaluated in the environment in which the blocks of the measures it mentions are again the
   evaluations of THEIR generated terms -- are the blocks of the model structures of Model/Proportions.v
   applied to the cube-measure arrays of C:
       [count_blocks] / [row_base_blocks] / [col_base_blocks] / [table_base_blocks] /
       [row_proportions] / [col_proportions] / [table_proportions].
   Every step is a GenAgree lemma of Proofs/GenAgreeProportions.v / GenAgreeBaseBlocks.v used as it is
   (the bridge never unfolds a generated term).  [need b P] is P guarded by the availability of the
   generated terms named in b ([None] => True, like the GenAgree lemmas). *)
From Coq Require Import QArith ZArith List Bool Lia Arith String.
From CC Require Import Base.XQ Base.ListX Base.WiringExp Model.Subtotals Model.Proportions
     Proofs.ComposePublicSem Proofs.ComposePublicLinks.
From CC Require Base.MeasureExp Base.BasesExp Proofs.GenAgreeMeasTac Proofs.GenAgreeBasesTac.
Import ListNotations.
Local Close Scope Q_scope.
Local Open Scope string_scope.
Local Open Scope nat_scope.

(* bridge over one generated term: [G] is its GenAgree lemma (a match on the term) *)
Ltac bridge G c :=
  generalize G;
  let e := fresh "e" in
  let E := fresh "E" in
  destruct c as [e|] eqn:E;
  [ let H := fresh "G" in intro H
  | intros _; cbn [need is_some andb]; exact I ].

Ltac needed := cbn [need is_some andb].

(* ------------------------------------------------------------------------------------ *)
(** * the model structures of a context *)

Section Model.
  Variable C : pctx.
  Let nr := c_nr C.
  Let nc := c_nc C.
  Let rsubs := c_rsubs C.
  Let csubs := c_csubs C.
  Let cm := c_cubem C.

  Definition m_counts : mat := cm "weighted_cube_counts" "counts".
  Definition m_rb : mat := cm "weighted_cube_counts" "row_bases".
  Definition m_cb : mat := cm "weighted_cube_counts" "column_bases".
  Definition m_tb : mat := cm "weighted_cube_counts" "table_bases".
  Definition m_dn : bool := c_cubeflag C "weighted_cube_counts" "diff_nans".

  Definition B_counts : blocks := count_blocks nr nc rsubs csubs m_counts m_dn.
  Definition B_rowb : blocks := row_base_blocks nr nc rsubs csubs m_rb.
  Definition B_colb : blocks := col_base_blocks nr nc rsubs csubs m_cb.
  Definition B_tabb : blocks := table_base_blocks nr nc rsubs csubs m_tb.
  Definition B_rowp : blocks :=
    row_proportions nr nc rsubs csubs m_counts m_dn (c_rd C) (c_cd C) m_rb.
  Definition B_colp : blocks :=
    col_proportions nr nc rsubs csubs m_counts m_dn (c_rd C) (c_cd C) m_cb.
  Definition B_tabp : blocks := table_proportions nr nc rsubs csubs m_counts m_dn m_tb.

  (* the first-order arrays are nr x nc *)
  Definition cube_tab (a : string) : Prop := is_tab nr nc (cm "weighted_cube_counts" a).
End Model.

Ltac tab_cases :=
  let bi := fresh "bi" in let bj := fresh "bj" in let Hi := fresh "Hi" in let Hj := fresh "Hj" in
  intros bi bj Hi Hj;
  destruct bi as [|[|bi]]; [| |exfalso; lia];
  (destruct bj as [|[|bj]]; [| |exfalso; lia]);
  cbn [GenAgreeMeasTac.pick brows bcols].

Lemma tabular_counts C : cube_tab C "counts" -> tabular C (B_counts C).
Proof. intros H. tab_cases; first [exact H | apply is_tab_tab2]. Qed.
Lemma tabular_rowb C : cube_tab C "row_bases" -> tabular C (B_rowb C).
Proof. intros H. tab_cases; first [exact H | apply is_tab_tab2]. Qed.
Lemma tabular_colb C : cube_tab C "column_bases" -> tabular C (B_colb C).
Proof. intros H. tab_cases; first [exact H | apply is_tab_tab2]. Qed.
Lemma tabular_tabb C : cube_tab C "table_bases" -> tabular C (B_tabb C).
Proof. intros H. tab_cases; first [exact H | apply is_tab_tab2]. Qed.
Lemma tabular_rowp C : tabular C (B_rowp C).
Proof. tab_cases; apply is_tab_tab2. Qed.
Lemma tabular_colp C : tabular C (B_colp C).
Proof. tab_cases; apply is_tab_tab2. Qed.
Lemma tabular_tabp C : tabular C (B_tabp C).
Proof. tab_cases; apply is_tab_tab2. Qed.

(* one block of a [realizes] goal: lookup of the measure, of the block's term, evaluation *)
Ltac block_by E evl G tabl :=
  eapply gen_blk_step;
  [ reflexivity
  | cbn [pick4 otm otb]; rewrite E; reflexivity
  | apply evl; [ G | apply tabl; lia ] ].

(* `x[0]`, `x[:, 0]` on the base arrays: the dimensions are not empty *)
Definition nonempty (C : pctx) : Prop := 0 < c_nr C /\ 0 < c_nc C.

Definition first_order_ok (C : pctx) : Prop :=
  cube_tab C "counts" /\ cube_tab C "row_bases" /\ cube_tab C "column_bases" /\
  cube_tab C "table_bases" /\ nonempty C.

(* an availability guard made of earlier guards: case analysis on the earlier theorem *)
Ltac use_need H b :=
  generalize H; unfold need at 1; destruct b; [|intros _; cbn [need andb]; exact I].

