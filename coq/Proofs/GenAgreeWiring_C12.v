(* GOLDEN obligations of the wiring translator for C12 (generated ONCE by tools/gen_wiring_props.py,
   then committed): what each public member of cubepart.py that C12 relies on IS, as a term of
   Base/WiringExp.v.  Gen/WiringSrc.v is regenerated from /repo on every check; an edit of the
   public layer that changes one of these members breaks the lemma below (reflexivity). *)
From Coq Require Import List ZArith String.
From CC Require Import Base.WiringExp Gen.WiringSrc.
Import ListNotations.
Local Open Scope string_scope.

(* _Slice.pvals *)
Lemma gen_wiring_Slice_pvals :
  wsrc_Slice_pvals = Some (w_matrix_of "pvalues").
Proof. reflexivity. Qed.

(* _Slice.residual_test_stats *)
Lemma gen_wiring_Slice_residual_test_stats :
  wsrc_Slice_residual_test_stats = Some (WCall (WAttr (WGlobal "np") "stack") [WList [WSelf "pvals";
      WSelf "zscores"]] []).
Proof. reflexivity. Qed.

(* _Slice.zscores *)
Lemma gen_wiring_Slice_zscores :
  wsrc_Slice_zscores = Some (w_matrix_of "zscores").
Proof. reflexivity. Qed.

(* SecondOrderMeasures.pvalues *)
Lemma gen_wiring_SecondOrderMeasures_pvalues :
  wsrc_SecondOrderMeasures_pvalues = Some (WCall (WGlobal "_Pvalues") [WSelf "_dimensions"; WVar
      "self"; WSelf "_cube_measures"] []).
Proof. reflexivity. Qed.

(* SecondOrderMeasures.zscores *)
Lemma gen_wiring_SecondOrderMeasures_zscores :
  wsrc_SecondOrderMeasures_zscores = Some (WCall (WGlobal "_Zscores") [WSelf "_dimensions"; WVar
      "self"; WSelf "_cube_measures"] []).
Proof. reflexivity. Qed.
