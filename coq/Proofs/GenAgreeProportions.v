(* Proofs/GenAgreeProportions.v -- GenAgree for C03: what matrix/measure.py SAYS NOW for
     SecondOrderMeasures.weighted_counts / row_proportions / column_proportions / table_proportions
     (the four blocks of each, read through the wiring of the collection class) and
     stripe/measure.py for StripeMeasures.table_proportions.base_values
   denotes the definitions of Model/Proportions.v the theorems of Props/C03.v are about:
   [count_blocks], [props_of] on the blocks of the weighted counts and of the row / column
   weighted bases (with the categorical-date wave rule of WaveDiffSubtotal on the cube-measure's
   row_bases / column_bases and counts), [div_blocks] for the table proportions,
   [strand_props_base].  See GenAgreeMeasTac.v. *)
From Coq Require Import QArith ZArith List Bool Lia Arith String.
From CC Require Import Base.XQ Base.ListX Base.MeasureExp
     Model.Subtotals Model.Proportions Model.Variance
     Gen.MeasureSrc Gen.StripeMeasureSrc Proofs.GenAgreeMeasTac.
Import ListNotations.
Local Close Scope Q_scope.
Local Open Scope string_scope.
Local Open Scope nat_scope.

Ltac unf_props :=
  cbv [row_proportions col_proportions table_proportions props_of div_blocks count_blocks
       table_base_blocks blocks_of b_base b_cols b_rows b_inter].

(* the blocks of the weighted counts: SumSubtotals with the cube-measure's own diff_nans flag
   in both directions *)
Definition counts_model nr nc rsubs csubs (cubem : string -> string -> list (list xq))
           (cubeflag : string -> string -> bool) : blocks :=
  count_blocks nr nc rsubs csubs (cubem "weighted_cube_counts" "counts")
               (cubeflag "weighted_cube_counts" "diff_nans").

Ltac gen_counts := gen_meas_with ltac:(cbv [counts_model count_blocks]).

Lemma gen_WeightedCounts_blocks_00 :
  match src_WeightedCounts_blocks_00 with
  | Some e => forall nr nc rsubs csubs rd cd blk cubem cubeflag flag,
      holds_mat (menv_mat nr nc rsubs csubs rd cd blk cubem cubeflag flag) e DR DC
        (mnth (b_base (counts_model nr nc rsubs csubs cubem cubeflag)))
  | None => True
  end.
Proof. gen_counts. Qed.

Lemma gen_WeightedCounts_blocks_01 :
  match src_WeightedCounts_blocks_01 with
  | Some e => forall nr nc rsubs csubs rd cd blk cubem cubeflag flag,
      holds_mat (menv_mat nr nc rsubs csubs rd cd blk cubem cubeflag flag) e DR DCS
        (mnth (b_cols (counts_model nr nc rsubs csubs cubem cubeflag)))
  | None => True
  end.
Proof. gen_counts. Qed.

Lemma gen_WeightedCounts_blocks_10 :
  match src_WeightedCounts_blocks_10 with
  | Some e => forall nr nc rsubs csubs rd cd blk cubem cubeflag flag,
      holds_mat (menv_mat nr nc rsubs csubs rd cd blk cubem cubeflag flag) e DRS DC
        (mnth (b_rows (counts_model nr nc rsubs csubs cubem cubeflag)))
  | None => True
  end.
Proof. gen_counts. Qed.

Lemma gen_WeightedCounts_blocks_11 :
  match src_WeightedCounts_blocks_11 with
  | Some e => forall nr nc rsubs csubs rd cd blk cubem cubeflag flag,
      holds_mat (menv_mat nr nc rsubs csubs rd cd blk cubem cubeflag flag) e DRS DCS
        (mnth (b_inter (counts_model nr nc rsubs csubs cubem cubeflag)))
  | None => True
  end.
Proof. gen_counts. Qed.

(* ------------------------------------------------------------------------------------ *)
(** * row / column proportions: [props_of] *)

(* what C03_proportion_def is about, on the blocks the collection hands over BY NAME *)
Definition row_props_model nr nc rsubs csubs rd cd
           (blk : string -> nat -> nat -> list (list xq))
           (cubem : string -> string -> list (list xq)) : blocks :=
  props_of nr nc rsubs csubs (blocks_of (blk "weighted_counts")) (blocks_of (blk "row_weighted_bases"))
           (cubem "weighted_cube_counts" "row_bases") (cubem "weighted_cube_counts" "counts") rd cd.
Definition col_props_model nr nc rsubs csubs rd cd
           (blk : string -> nat -> nat -> list (list xq))
           (cubem : string -> string -> list (list xq)) : blocks :=
  props_of nr nc rsubs csubs (blocks_of (blk "weighted_counts")) (blocks_of (blk "column_weighted_bases"))
           (cubem "weighted_cube_counts" "column_bases") (cubem "weighted_cube_counts" "counts") rd cd.
Definition table_props_model nr nc rsubs csubs
           (blk : string -> nat -> nat -> list (list xq)) : blocks :=
  div_blocks nr nc rsubs csubs (blocks_of (blk "weighted_counts")) (blocks_of (blk "table_weighted_bases")).

Ltac gen_props := gen_meas_with ltac:(cbv [row_props_model col_props_model table_props_model]; unf_props).

Lemma gen_RowProportions_blocks_00 :
  match src_RowProportions_blocks_00 with
  | Some e => forall nr nc rsubs csubs rd cd blk cubem cubeflag flag,
      holds_mat (menv_mat nr nc rsubs csubs rd cd blk cubem cubeflag flag) e DR DC
        (mnth (b_base (row_props_model nr nc rsubs csubs rd cd blk cubem)))
  | None => True
  end.
Proof. gen_props. Qed.

Lemma gen_RowProportions_blocks_01 :
  match src_RowProportions_blocks_01 with
  | Some e => forall nr nc rsubs csubs rd cd blk cubem cubeflag flag,
      holds_mat (menv_mat nr nc rsubs csubs rd cd blk cubem cubeflag flag) e DR DCS
        (mnth (b_cols (row_props_model nr nc rsubs csubs rd cd blk cubem)))
  | None => True
  end.
Proof. gen_props. Qed.

Lemma gen_RowProportions_blocks_10 :
  match src_RowProportions_blocks_10 with
  | Some e => forall nr nc rsubs csubs rd cd blk cubem cubeflag flag,
      holds_mat (menv_mat nr nc rsubs csubs rd cd blk cubem cubeflag flag) e DRS DC
        (mnth (b_rows (row_props_model nr nc rsubs csubs rd cd blk cubem)))
  | None => True
  end.
Proof. gen_props. Qed.

Lemma gen_RowProportions_blocks_11 :
  match src_RowProportions_blocks_11 with
  | Some e => forall nr nc rsubs csubs rd cd blk cubem cubeflag flag,
      holds_mat (menv_mat nr nc rsubs csubs rd cd blk cubem cubeflag flag) e DRS DCS
        (mnth (b_inter (row_props_model nr nc rsubs csubs rd cd blk cubem)))
  | None => True
  end.
Proof. gen_props. Qed.

Lemma gen_ColumnProportions_blocks_00 :
  match src_ColumnProportions_blocks_00 with
  | Some e => forall nr nc rsubs csubs rd cd blk cubem cubeflag flag,
      holds_mat (menv_mat nr nc rsubs csubs rd cd blk cubem cubeflag flag) e DR DC
        (mnth (b_base (col_props_model nr nc rsubs csubs rd cd blk cubem)))
  | None => True
  end.
Proof. gen_props. Qed.

Lemma gen_ColumnProportions_blocks_01 :
  match src_ColumnProportions_blocks_01 with
  | Some e => forall nr nc rsubs csubs rd cd blk cubem cubeflag flag,
      holds_mat (menv_mat nr nc rsubs csubs rd cd blk cubem cubeflag flag) e DR DCS
        (mnth (b_cols (col_props_model nr nc rsubs csubs rd cd blk cubem)))
  | None => True
  end.
Proof. gen_props. Qed.

Lemma gen_ColumnProportions_blocks_10 :
  match src_ColumnProportions_blocks_10 with
  | Some e => forall nr nc rsubs csubs rd cd blk cubem cubeflag flag,
      holds_mat (menv_mat nr nc rsubs csubs rd cd blk cubem cubeflag flag) e DRS DC
        (mnth (b_rows (col_props_model nr nc rsubs csubs rd cd blk cubem)))
  | None => True
  end.
Proof. gen_props. Qed.

Lemma gen_ColumnProportions_blocks_11 :
  match src_ColumnProportions_blocks_11 with
  | Some e => forall nr nc rsubs csubs rd cd blk cubem cubeflag flag,
      holds_mat (menv_mat nr nc rsubs csubs rd cd blk cubem cubeflag flag) e DRS DCS
        (mnth (b_inter (col_props_model nr nc rsubs csubs rd cd blk cubem)))
  | None => True
  end.
Proof. gen_props. Qed.

Lemma gen_TableProportions_blocks_00 :
  match src_TableProportions_blocks_00 with
  | Some e => forall nr nc rsubs csubs rd cd blk cubem cubeflag flag,
      holds_mat (menv_mat nr nc rsubs csubs rd cd blk cubem cubeflag flag) e DR DC
        (mnth (b_base (table_props_model nr nc rsubs csubs blk)))
  | None => True
  end.
Proof. gen_props. Qed.

Lemma gen_TableProportions_blocks_01 :
  match src_TableProportions_blocks_01 with
  | Some e => forall nr nc rsubs csubs rd cd blk cubem cubeflag flag,
      holds_mat (menv_mat nr nc rsubs csubs rd cd blk cubem cubeflag flag) e DR DCS
        (mnth (b_cols (table_props_model nr nc rsubs csubs blk)))
  | None => True
  end.
Proof. gen_props. Qed.

Lemma gen_TableProportions_blocks_10 :
  match src_TableProportions_blocks_10 with
  | Some e => forall nr nc rsubs csubs rd cd blk cubem cubeflag flag,
      holds_mat (menv_mat nr nc rsubs csubs rd cd blk cubem cubeflag flag) e DRS DC
        (mnth (b_rows (table_props_model nr nc rsubs csubs blk)))
  | None => True
  end.
Proof. gen_props. Qed.

Lemma gen_TableProportions_blocks_11 :
  match src_TableProportions_blocks_11 with
  | Some e => forall nr nc rsubs csubs rd cd blk cubem cubeflag flag,
      holds_mat (menv_mat nr nc rsubs csubs rd cd blk cubem cubeflag flag) e DRS DCS
        (mnth (b_inter (table_props_model nr nc rsubs csubs blk)))
  | None => True
  end.
Proof. gen_props. Qed.

(* ------------------------------------------------------------------------------------ *)
(** * strand: base values = weighted counts / the cube-measure's per-row bases *)

Definition strand_cube (bases : list xq) (c a : string) : mval :=
  if String.eqb c "weighted_cube_counts" && String.eqb a "bases" then VVec DR (vnth bases)
  else VErr.

Lemma gen_stripe_TableProportions_base_values :
  match ssrc_TableProportions_base_values with
  | Some e => forall subs rd vblk bases,
      holds_vec (senv_std (List.length (vblk "weighted_counts" 0)) subs rd vblk (strand_cube bases)) e DR
        (vnth (strand_props_base (vblk "weighted_counts" 0) bases))
  | None => True
  end.
Proof. gen_meas_core ltac:(cbv [strand_cube andb String.eqb Ascii.eqb Bool.eqb]) ltac:(unfold strand_props_base). Qed.

(* subtotal values (when the cube-measure's table_base is not None): the weighted counts'
   subtotal values over the scalar table base, through the categorical-date wave rule
   [strand_wave_value] on the cube-measure's per-row bases and counts *)
Definition strand_cube_sub (bases : list xq) (tb : xq) (c a : string) : mval :=
  if String.eqb c "weighted_cube_counts" && String.eqb a "table_base" then VScal tb
  else strand_cube bases c a.
Definition strand_cubel (counts bases : list xq) (c a : string) : list xq :=
  if String.eqb c "weighted_cube_counts" && String.eqb a "bases" then bases
  else if String.eqb c "weighted_cube_counts" && String.eqb a "counts" then counts
  else [].

Lemma gen_stripe_TableProportions_subtotal_values :
  match ssrc_TableProportions_subtotal_values with
  | Some e => forall n subs rd vblk counts bases tb,
      holds_vec (senv_full n subs rd vblk (strand_cube_sub bases tb) (strand_cubel counts bases)) e DRS
        (fun k => strand_wave_value counts bases rd (nth k subs nosub)
                    (xdiv (vnth (vblk "weighted_counts" 1) k) tb))
  | None => True
  end.
Proof.
  gen_meas_core ltac:(cbv [strand_cube_sub strand_cube strand_cubel andb String.eqb Ascii.eqb Bool.eqb])
                ltac:(idtac).
Qed.
