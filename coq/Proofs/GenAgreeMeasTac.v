(* Proofs/GenAgreeMeasTac.v -- the second GenAgree tie (DESIGN 2.4 (a), measures): standard
   environments, statement shapes and the generic tactic.  The lemmas are in
     GenAgreeProportions.v (C03)   GenAgreeVariance.v (C11)   GenAgreeZscore.v (C12)
     GenAgreeShare.v (C15)         GenAgreeIndex.v (C16)      GenAgreePopulation.v (C17)
   -- one file per property, so that a change of meaning in matrix/measure.py, stripe/measure.py
   or cubepart.py breaks the obligations of the property it concerns.

   Gen/MeasureSrc.v, Gen/StripeMeasureSrc.v, Gen/PartMeasureSrc.v are REWRITTEN FROM THE SOURCE
   on every check by harness/translate/measures.py: one [option mexp] per (class, member) -- per
   block for a `blocks` member -- read through the wiring of SecondOrderMeasures /
   StripeMeasures.  Statement shape, for ALL input blocks, sizes, subtotal lists:

       match src_<Class>_<member> with
       | Some e => forall blk cubem nr nc rsubs csubs ..,
                     agrees_mat E (meval E e) <row tag> <column tag>
                                (fun i j => mnth (<block> (<the model's definition>)) i j)
       | None => True                      (translator could not read it: correspondence only)
       end

   where E = [menv_std ..] interprets the leaves by the universally quantified [blk] (the blocks
   of the other second-order measures, by NAME), [cubem] (the cube-measure arrays, by name) and
   the subtotal strategies by Model/Subtotals.v, Model/Proportions.v, Model/Variance.v.
   All proved by ONE tactic [gen_meas]: evaluate [meval] symbolically (only the evaluator's own
   constants are unfolded), read the model's [tab2] cells with [tab2_mnth], compare. *)
From Coq Require Import QArith ZArith List Bool Lia Arith String.
From CC Require Import Base.XQ Base.ListX Base.MeasureExp
     Model.Subtotals Model.Proportions Model.Variance Model.Zscore.
Import ListNotations.
Local Close Scope Q_scope.
Local Open Scope string_scope.
Local Open Scope nat_scope.

(* ------------------------------------------------------------------------------------ *)
(** * the standard environment of a slice *)

Definition blocks_of (b : nat -> nat -> list (list xq)) : blocks :=
  mkBlocks (b 0 0) (b 0 1) (b 1 0) (b 1 1).

Definition pick (b : blocks) (bi bj : nat) : list (list xq) :=
  match bi, bj with
  | 0, 0 => b_base b
  | 0, _ => b_cols b
  | _, 0 => b_rows b
  | _, _ => b_inter b
  end.

Definition dsize (nr nc nrs ncs : nat) (d : dim) : nat :=
  match d with D1 => 1 | DR => nr | DC => nc | DRS => nrs | DCS => ncs end.

(* <Strategy>.blocks(cubem c a, dimensions, ..)[bi][bj] : Model/Subtotals.v, Model/Variance.v *)
Definition strat_std (cubem : string -> string -> list (list xq)) (nr nc : nat)
           (rsubs csubs : list subtotal)
           (tag : nat) (dcn drn : bool) (c a : string) (bi bj i j : nat) : xq :=
  mnth (pick (match tag with
              | 0 => sum_blocks (cubem c a) nr nc rsubs csubs dcn drn
              | 1 => pos_blocks (cubem c a) nr nc rsubs csubs
              | _ => neg_blocks (cubem c a) nr nc rsubs csubs
              end) bi bj) i j.

(* WaveDiffSubtotal.subtotal_columns / _rows : Model/Proportions.v *)
Definition wave_std (cubem : string -> string -> list (list xq)) (rsubs csubs : list subtotal)
           (rd cd : bool) (ax : axis) (bc ba cc ca : string) (f : nat -> nat -> xq)
           (i j : nat) : xq :=
  match ax with
  | AxCols => wave_col_cell (cubem bc ba) (cubem cc ca) cd (nth j csubs nosub) (f i j) i
  | AxRows => wave_row_cell (cubem bc ba) (cubem cc ca) rd (nth i rsubs nosub) (f i j) j
  end.

(* self._dimensions[-d].dimension_type == DT.<t>: only "is categorical date" is interpreted *)
Definition dimtype_std (rd cd : bool) (d : nat) (t : string) : bool :=
  if String.eqb t "CAT_DATE" then match d with 2 => rd | 1 => cd | _ => false end else false.

(* difference subtotals of dimension -d (2 = rows, 1 = columns; a strand's only dimension is 1) *)
Definition isdiff_std (rsubs csubs : list subtotal) (d k : nat) : bool :=
  match d with
  | 2 => has_subs (nth k rsubs nosub)
  | 1 => has_subs (nth k csubs nosub)
  | _ => false
  end.
Definition nodiff_std (rsubs csubs : list subtotal) (d : nat) : bool :=
  match d with
  | 2 => negb (existsb has_subs rsubs)
  | 1 => negb (existsb has_subs csubs)
  | _ => true
  end.

Lemma existsb_false_nth {A} (f : A -> bool) (l : list A) (d : A) (k : nat) :
  existsb f l = false -> k < List.length l -> f (nth k l d) = false.
Proof.
  revert k. induction l as [|a t IH]; intros k H Hk; simpl in *; [lia|].
  apply orb_false_iff in H. destruct H as [Ha Ht].
  destruct k as [|k]; [exact Ha|]. apply IH; [exact Ht|lia].
Qed.

Definition no_prop (_ : string) : mval := VErr.
Definition no_vblock (_ : string) (_ : nat) : list xq := [].
Definition no_scalar (_ : string) : xq := NaN.
Definition no_vstrat (_ : nat) (_ : nat -> xq) (_ : nat) : xq := NaN.
Definition no_vwave (_ _ _ _ : string) (_ : nat -> xq) (_ : nat) : xq := NaN.

(* cube-measure arrays of the base shape (rows x columns) *)
Definition cube_mat (cubem : string -> string -> list (list xq)) (c a : string) : mval :=
  VMat DR DC (mnth (cubem c a)).

Definition menv_std (nr nc : nat) (rsubs csubs : list subtotal) (rd cd : bool)
           (blk : string -> nat -> nat -> list (list xq))
           (cubem : string -> string -> list (list xq))
           (cubev : string -> string -> mval)
           (cubeflag : string -> string -> bool) (flag : string -> bool) : menv :=
  mkMenv (dsize nr nc (List.length rsubs) (List.length csubs))
         no_scalar no_scalar no_prop blk no_vblock cubev cubeflag flag (dimtype_std rd cd)
         (isdiff_std rsubs csubs) (nodiff_std rsubs csubs) rank_lt2
         (strat_std cubem nr nc rsubs csubs) (wave_std cubem rsubs csubs rd cd)
         no_vstrat no_vwave.

(* the usual case: every cube-measure array has the base shape *)
Definition menv_mat nr nc rsubs csubs rd cd blk cubem cubeflag flag : menv :=
  menv_std nr nc rsubs csubs rd cd blk cubem (cube_mat cubem) cubeflag flag.

(* statement shapes *)
Definition holds_mat (E : menv) (e : mexp) (dr dc : dim) (g : nat -> nat -> xq) : Prop :=
  agrees_mat E (meval E e) dr dc g.
Definition holds_mat_sq (E : menv) (e : mexp) (dr dc : dim) (g : nat -> nat -> xq) : Prop :=
  agrees_mat E (meval_sq E e) dr dc g.
Definition holds_vec (E : menv) (e : mexp) (d : dim) (g : nat -> xq) : Prop :=
  agrees_vec E (meval E e) d g.
Definition holds_vec_sq (E : menv) (e : mexp) (d : dim) (g : nat -> xq) : Prop :=
  agrees_vec E (meval_sq E e) d g.

(* ------------------------------------------------------------------------------------ *)
(** * the standard environment of a strand *)

Definition vstrat_std (subs : list subtotal) (tag : nat) (f : nat -> xq) (k : nat) : xq :=
  let s := nth k subs nosub in
  match tag with
  | 0 => xsub (xsum (map f (s_add s))) (xsum (map f (s_sub s)))
  | 1 => xsum (map f (s_add s))
  | _ => xsum (map f (s_sub s))
  end.

Definition no_block (_ : string) (_ _ : nat) : list (list xq) := [].
Definition no_strat (_ : nat) (_ _ : bool) (_ _ : string) (_ _ _ _ : nat) : xq := NaN.
Definition no_wave (_ : axis) (_ _ _ _ : string) (_ : nat -> nat -> xq) (_ _ : nat) : xq := NaN.
Definition no_cubeflag (_ _ : string) : bool := false.
Definition no_flag (_ : string) : bool := false.

(* WaveDiffSubtotals.subtotal_values(cube bc.ba, cube cc.ca, default, rows_dimension):
   Model/Proportions.v [strand_wave_value] on the cube-measure's 1-D arrays *)
Definition vwave_std (cubel : string -> string -> list xq) (subs : list subtotal) (rd : bool)
           (bc ba cc ca : string) (f : nat -> xq) (k : nat) : xq :=
  strand_wave_value (cubel cc ca) (cubel bc ba) rd (nth k subs nosub) (f k).
Definition no_cubel (_ _ : string) : list xq := [].

Definition senv_full (n : nat) (subs : list subtotal) (rd : bool)
           (vblk : string -> nat -> list xq) (cubev : string -> string -> mval)
           (cubel : string -> string -> list xq) : menv :=
  mkMenv (dsize n 0 (List.length subs) 0)
         no_scalar no_scalar no_prop no_block vblk cubev no_cubeflag no_flag (dimtype_std false rd)
         (isdiff_std [] subs) (nodiff_std [] subs) (fun _ => false)
         no_strat no_wave (vstrat_std subs) (vwave_std cubel subs rd).
Definition senv_std (n : nat) (subs : list subtotal) (rd : bool)
           (vblk : string -> nat -> list xq) (cubev : string -> string -> mval) : menv :=
  senv_full n subs rd vblk cubev no_cubel.

(* ------------------------------------------------------------------------------------ *)
(** * the environment of a partition (cubepart.py): constants, scalars, public arrays *)

Definition penv_std (nr nc : nat) (name scal : string -> xq) (prop : string -> mval) : menv :=
  mkMenv (dsize nr nc 0 0)
         name scal prop no_block no_vblock (fun _ _ => VErr) no_cubeflag no_flag
         (fun _ _ => false) (fun _ _ => false) (fun _ => true) (fun _ => false)
         no_strat no_wave no_vstrat no_vwave.

(* ------------------------------------------------------------------------------------ *)
(** * the generic tactic *)

Ltac meas_eval :=
  cbv [meval meval_sq ceval bin vmap vif bdim bix dim_eqb rdim cdim strat_tag strat_dcn strat_drn
       bflag_val all_eq oor oand onot xpow agrees_mat agrees_vec agrees_scal
       e_size e_name e_scalar e_prop e_block e_vblock e_cube e_cubeflag e_flag e_dimtype
       e_isdiff e_nodiff e_ranklt2 isdiff_std nodiff_std vwave_std senv_full no_cubel
       e_strat e_wave e_vstrat e_vwave
       holds_mat holds_mat_sq holds_vec holds_vec_sq menv_mat
       menv_std senv_std penv_std dsize strat_std wave_std vstrat_std dimtype_std cube_mat pick
       no_prop no_vblock no_scalar no_vstrat no_vwave no_block no_strat no_wave no_cubeflag
       no_flag andb String.eqb Ascii.eqb Bool.eqb].

Lemma vnth_map (g : xq -> xq) (l : list xq) i : i < List.length l -> vnth (map g l) i = g (vnth l i).
Proof.
  intros H. unfold vnth. rewrite (nth_indep _ NaN (g NaN)) by (rewrite map_length; exact H).
  apply map_nth.
Qed.

Ltac read_tab2 :=
  repeat (first [ rewrite tab2_mnth by assumption
                | rewrite tab_vnth by assumption
                | rewrite vnth_map by assumption ]; cbv beta).

Ltac unfold_srcs :=
  repeat match goal with
         | |- context [match ?s with Some _ => _ | None => _ end] => is_const s; unfold s
         end.

(* [pre]: unfold lemma-specific environment components (then [meval] is evaluated again);
   [unf]: unfold the model definitions the right-hand side is made of *)
Ltac gen_meas_core pre unf :=
  unfold_srcs;
  lazymatch goal with
  | |- True => exact I
  | _ =>
      intros; meas_eval; pre; meas_eval;
      lazymatch goal with
      | |- _ /\ _ /\ _ => split; [reflexivity|split; [reflexivity|]]
      | |- _ /\ _ => split; [reflexivity|]
      | |- _ = _ => idtac
      end;
      intros; unf; read_tab2;
      repeat lazymatch goal with
             | |- context [if ?b then _ else _] => is_var b; destruct b
             end;
      reflexivity
  end.

Ltac gen_meas_with unf := gen_meas_core idtac unf.
Ltac gen_meas := gen_meas_with idtac.
