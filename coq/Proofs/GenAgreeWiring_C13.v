(* GOLDEN obligations of the wiring translator for C13 (generated ONCE by tools/gen_wiring_props.py,
   then committed): what each public member of cubepart.py that C13 relies on IS, as a term of
   Base/WiringExp.v.  Gen/WiringSrc.v is regenerated from /repo on every check; an edit of the
   public layer that changes one of these members breaks the lemma below (reflexivity). *)
From Coq Require Import List ZArith String.
From CC Require Import Base.WiringExp Gen.WiringSrc.
Import ListNotations.
Local Open Scope string_scope.

(* CubePartition._alpha *)
Lemma gen_wiring_CubePartition__alpha :
  wsrc_CubePartition__alpha = Some (WIndex (WSelf "_alpha_values") [WInt (0)%Z]).
Proof. reflexivity. Qed.

(* CubePartition._alpha_alt *)
Lemma gen_wiring_CubePartition__alpha_alt :
  wsrc_CubePartition__alpha_alt = Some (WIndex (WSelf "_alpha_values") [WInt (1)%Z]).
Proof. reflexivity. Qed.

(* CubePartition._only_larger *)
Lemma gen_wiring_CubePartition__only_larger :
  wsrc_CubePartition__only_larger = Some (WIf (WCmp "is" (WCall (WAttr (WCall (WAttr (WSelf
      "_transforms_dict") "get") [WStr "pairwise_indices"; WDict []] []) "get") [WStr "only_larger";
      WTrue] []) (WFalse)) (WFalse) (WTrue)).
Proof. reflexivity. Qed.

(* _Slice.columns_squared_base *)
Lemma gen_wiring_Slice_columns_squared_base :
  wsrc_Slice_columns_squared_base = Some (WIf (WUn "not" (WAttr (WAttr (WSelf "_measures")
      "columns_squared_base") "is_defined")) (WNone) (w_marginal_of "columns_squared_base")).
Proof. reflexivity. Qed.

(* _Slice.columns_scale_mean_pairwise_indices *)
Lemma gen_wiring_Slice_columns_scale_mean_pairwise_indices :
  wsrc_Slice_columns_scale_mean_pairwise_indices = Some (WCall (WAttr (WGlobal "PairwiseSignificance")
      "scale_mean_pairwise_indices") [WVar "self"; WSelf "_alpha"; WSelf "_only_larger"] []).
Proof. reflexivity. Qed.

(* _Slice.columns_scale_mean_pairwise_indices_alt *)
Lemma gen_wiring_Slice_columns_scale_mean_pairwise_indices_alt :
  wsrc_Slice_columns_scale_mean_pairwise_indices_alt = Some (WIf (WCmp "is" (WSelf "_alpha_alt")
      (WNone)) (WNone) (WCall (WAttr (WGlobal "PairwiseSignificance") "scale_mean_pairwise_indices")
      [WVar "self"; WSelf "_alpha_alt"; WSelf "_only_larger"] [])).
Proof. reflexivity. Qed.

(* _Slice._indices_matrix *)
Lemma gen_wiring_Slice__indices_matrix :
  wsrc_Slice__indices_matrix = Some (WIf (WCmp "==" (WCall (WGlobal "len") [WVar "column_vectors"] [])
      (WInt (0)%Z)) (WCall (WAttr (WGlobal "np") "empty") [WTuple [WCall (WGlobal "len") [WSelf
      "_row_order_signed_indexes"] []; WInt (0)%Z]] [("dtype", WGlobal "object")]) (WAttr (WCall
      (WAttr (WGlobal "np") "array") [WVar "column_vectors"] []) "T")).
Proof. reflexivity. Qed.

(* _Slice._pairwise_means_indices *)
Lemma gen_wiring_Slice__pairwise_means_indices :
  wsrc_Slice__pairwise_means_indices = Some (WCall (WSelf "_indices_matrix") [WComp "list" (WCall
      (WSelf "_pairwise_indices") [WCall (WSelf "_pairwise_significance_means_p_vals") [WVar "col"]
      []; WCall (WSelf "_pairwise_significance_means_t_stats") [WVar "col"] []; WVar "alpha"; WVar
      "only_larger"; WVar "col"] []) [(["col"], WCall (WGlobal "range") [WCall (WGlobal "len")
      [WSelf "_column_order_signed_indexes"] []] [], [])]] []).
Proof. reflexivity. Qed.

(* _Slice._pairwise_significance_p_vals *)
Lemma gen_wiring_Slice__pairwise_significance_p_vals :
  wsrc_Slice__pairwise_significance_p_vals = Some (WIf (WSelf "_cube_has_overlaps") (WCall (WSelf
      "_assemble_matrix") [WAttr (WCall (WAttr (WSelf "_measures") "pairwise_p_vals_for_subvar")
      [WIndex (WSelf "_column_order_signed_indexes") [WVar "column_idx"]] []) "blocks"] []) (WCall
      (WSelf "_assemble_matrix") [WAttr (WCall (WAttr (WSelf "_measures") "pairwise_p_vals") [WIndex
      (WSelf "_column_order_signed_indexes") [WVar "column_idx"]] []) "blocks"] [])).
Proof. reflexivity. Qed.

(* _Slice._pairwise_significance_t_stats *)
Lemma gen_wiring_Slice__pairwise_significance_t_stats :
  wsrc_Slice__pairwise_significance_t_stats = Some (WIf (WSelf "_cube_has_overlaps") (WCall (WSelf
      "_assemble_matrix") [WAttr (WCall (WAttr (WSelf "_measures") "pairwise_t_stats_for_subvar")
      [WIndex (WSelf "_column_order_signed_indexes") [WVar "column_idx"]] []) "blocks"] []) (WCall
      (WSelf "_assemble_matrix") [WAttr (WCall (WAttr (WSelf "_measures") "pairwise_t_stats")
      [WIndex (WSelf "_column_order_signed_indexes") [WVar "column_idx"]] []) "blocks"] [])).
Proof. reflexivity. Qed.

(* _Slice._pairwise_significance_means_p_vals *)
Lemma gen_wiring_Slice__pairwise_significance_means_p_vals :
  wsrc_Slice__pairwise_significance_means_p_vals = Some (WCall (WSelf "_assemble_matrix") [WAttr
      (WCall (WAttr (WSelf "_measures") "pairwise_significance_means_p_vals") [WIndex (WSelf
      "_column_order_signed_indexes") [WVar "column_idx"]] []) "blocks"] []).
Proof. reflexivity. Qed.

(* _Slice._pairwise_significance_means_t_stats *)
Lemma gen_wiring_Slice__pairwise_significance_means_t_stats :
  wsrc_Slice__pairwise_significance_means_t_stats = Some (WCall (WSelf "_assemble_matrix") [WAttr
      (WCall (WAttr (WSelf "_measures") "pairwise_significance_means_t_stats") [WIndex (WSelf
      "_column_order_signed_indexes") [WVar "column_idx"]] []) "blocks"] []).
Proof. reflexivity. Qed.

(* _Slice.pairwise_indices *)
Lemma gen_wiring_Slice_pairwise_indices :
  wsrc_Slice_pairwise_indices = Some (WCall (WSelf "_indices_matrix") [WComp "list" (WCall (WSelf
      "_pairwise_indices") [WCall (WSelf "_pairwise_significance_p_vals") [WVar "col"] []; WCall
      (WSelf "_pairwise_significance_t_stats") [WVar "col"] []; WSelf "_alpha"; WSelf
      "_only_larger"; WVar "col"] []) [(["col"], WCall (WGlobal "range") [WCall (WGlobal "len")
      [WSelf "_column_order_signed_indexes"] []] [], [])]] []).
Proof. reflexivity. Qed.

(* _Slice.pairwise_indices_alt *)
Lemma gen_wiring_Slice_pairwise_indices_alt :
  wsrc_Slice_pairwise_indices_alt = Some (WIf (WCmp "is" (WSelf "_alpha_alt") (WNone)) (WNone) (WCall
      (WSelf "_indices_matrix") [WComp "list" (WCall (WSelf "_pairwise_indices") [WCall (WSelf
      "_pairwise_significance_p_vals") [WVar "col"] []; WCall (WSelf
      "_pairwise_significance_t_stats") [WVar "col"] []; WSelf "_alpha_alt"; WSelf "_only_larger";
      WVar "col"] []) [(["col"], WCall (WGlobal "range") [WCall (WGlobal "len") [WSelf
      "_column_order_signed_indexes"] []] [], [])]] [])).
Proof. reflexivity. Qed.

(* _Slice.pairwise_means_indices *)
Lemma gen_wiring_Slice_pairwise_means_indices :
  wsrc_Slice_pairwise_means_indices = Some (WTryValueError (WCall (WSelf "_pairwise_means_indices")
      [WSelf "_alpha"; WSelf "_only_larger"] []) "").
Proof. reflexivity. Qed.

(* _Slice.pairwise_means_indices_alt *)
Lemma gen_wiring_Slice_pairwise_means_indices_alt :
  wsrc_Slice_pairwise_means_indices_alt = Some (WIf (WCmp "is" (WSelf "_alpha_alt") (WNone)) (WNone)
      (WTryValueError (WCall (WSelf "_pairwise_means_indices") [WSelf "_alpha_alt"; WSelf
      "_only_larger"] []) "")).
Proof. reflexivity. Qed.

(* _Slice.pairwise_significance_p_vals *)
Lemma gen_wiring_Slice_pairwise_significance_p_vals :
  wsrc_Slice_pairwise_significance_p_vals = Some (WCall (WSelf "_pairwise_significance_p_vals") [WVar
      "column_idx"] []).
Proof. reflexivity. Qed.

(* _Slice.pairwise_significance_t_stats *)
Lemma gen_wiring_Slice_pairwise_significance_t_stats :
  wsrc_Slice_pairwise_significance_t_stats = Some (WCall (WSelf "_pairwise_significance_t_stats")
      [WVar "column_idx"] []).
Proof. reflexivity. Qed.

(* _Slice.pairwise_significance_means_p_vals *)
Lemma gen_wiring_Slice_pairwise_significance_means_p_vals :
  wsrc_Slice_pairwise_significance_means_p_vals = Some (WTryValueError (WCall (WSelf
      "_pairwise_significance_means_p_vals") [WVar "column_idx"] []) "").
Proof. reflexivity. Qed.

(* _Slice.pairwise_significance_means_t_stats *)
Lemma gen_wiring_Slice_pairwise_significance_means_t_stats :
  wsrc_Slice_pairwise_significance_means_t_stats = Some (WTryValueError (WCall (WSelf
      "_pairwise_significance_means_t_stats") [WVar "column_idx"] []) "").
Proof. reflexivity. Qed.

(* _Slice.pairwise_significance_tests *)
Lemma gen_wiring_Slice_pairwise_significance_tests :
  wsrc_Slice_pairwise_significance_tests = Some (WCall (WGlobal "tuple") [WComp "gen" (WIndex (WAttr
      (WCall (WGlobal "PairwiseSignificance") [WVar "self"] []) "values") [WVar "column_idx"])
      [(["column_idx"], WCall (WGlobal "range") [WCall (WGlobal "len") [WSelf "column_labels"] []]
      [], [])]] []).
Proof. reflexivity. Qed.

(* _Slice.summary_pairwise_indices *)
Lemma gen_wiring_Slice_summary_pairwise_indices :
  wsrc_Slice_summary_pairwise_indices = Some (WAttr (WCall (WGlobal "PairwiseSignificance") [WVar
      "self"; WSelf "_alpha"; WSelf "_only_larger"] []) "summary_pairwise_indices").
Proof. reflexivity. Qed.

(* _Slice._cube_has_overlaps *)
Lemma gen_wiring_Slice__cube_has_overlaps :
  wsrc_Slice__cube_has_overlaps = Some (WBoolOp "and" [WCmp "==" (WAttr (WIndex (WSelf "_dimensions")
      [WInt (-1)%Z]) "dimension_type") (WAttr (WGlobal "DT") "MR"); WCmp "is not" (WAttr (WSelf
      "_cube") "overlaps") (WNone); WCmp "is not" (WAttr (WSelf "_cube") "valid_overlaps")
      (WNone)]).
Proof. reflexivity. Qed.

(* SecondOrderMeasures.column_squared_bases *)
Lemma gen_wiring_SecondOrderMeasures_column_squared_bases :
  wsrc_SecondOrderMeasures_column_squared_bases = Some (WCall (WGlobal "_ColumnSquaredBases") [WSelf
      "_dimensions"; WVar "self"; WSelf "_cube_measures"] []).
Proof. reflexivity. Qed.

(* SecondOrderMeasures.columns_squared_base *)
Lemma gen_wiring_SecondOrderMeasures_columns_squared_base :
  wsrc_SecondOrderMeasures_columns_squared_base = Some (WCall (WGlobal "_MarginSquaredBase") [WSelf
      "_dimensions"; WVar "self"; WSelf "_cube_measures"; WAttr (WGlobal "MO") "COLUMNS"] []).
Proof. reflexivity. Qed.

(* SecondOrderMeasures.pairwise_p_vals_for_subvar *)
Lemma gen_wiring_SecondOrderMeasures_pairwise_p_vals_for_subvar :
  wsrc_SecondOrderMeasures_pairwise_p_vals_for_subvar = Some (WCall (WGlobal
      "_PairwiseSigPValsForSubvar") [WSelf "_dimensions"; WVar "self"; WSelf "_cube_measures"; WVar
      "subvar_idx"] []).
Proof. reflexivity. Qed.

(* SecondOrderMeasures.pairwise_t_stats_for_subvar *)
Lemma gen_wiring_SecondOrderMeasures_pairwise_t_stats_for_subvar :
  wsrc_SecondOrderMeasures_pairwise_t_stats_for_subvar = Some (WCall (WGlobal
      "_PairwiseSigTStatsForSubvar") [WSelf "_dimensions"; WVar "self"; WSelf "_cube_measures"; WVar
      "subvar_idx"] []).
Proof. reflexivity. Qed.

(* SecondOrderMeasures.pairwise_p_vals *)
Lemma gen_wiring_SecondOrderMeasures_pairwise_p_vals :
  wsrc_SecondOrderMeasures_pairwise_p_vals = Some (WCall (WGlobal "_PairwiseSigPvals") [WSelf
      "_dimensions"; WVar "self"; WSelf "_cube_measures"; WVar "column_idx"] []).
Proof. reflexivity. Qed.

(* SecondOrderMeasures.pairwise_t_stats *)
Lemma gen_wiring_SecondOrderMeasures_pairwise_t_stats :
  wsrc_SecondOrderMeasures_pairwise_t_stats = Some (WCall (WGlobal "_PairwiseSigTstats") [WSelf
      "_dimensions"; WVar "self"; WSelf "_cube_measures"; WVar "column_idx"] []).
Proof. reflexivity. Qed.

(* SecondOrderMeasures.pairwise_significance_means_p_vals *)
Lemma gen_wiring_SecondOrderMeasures_pairwise_significance_means_p_vals :
  wsrc_SecondOrderMeasures_pairwise_significance_means_p_vals = Some (WCall (WGlobal
      "_PairwiseMeansSigPVals") [WSelf "_dimensions"; WVar "self"; WSelf "_cube_measures"; WVar
      "column_idx"] []).
Proof. reflexivity. Qed.

(* SecondOrderMeasures.pairwise_significance_means_t_stats *)
Lemma gen_wiring_SecondOrderMeasures_pairwise_significance_means_t_stats :
  wsrc_SecondOrderMeasures_pairwise_significance_means_t_stats = Some (WCall (WGlobal
      "_PairwiseMeansSigTStats") [WSelf "_dimensions"; WVar "self"; WSelf "_cube_measures"; WVar
      "column_idx"] []).
Proof. reflexivity. Qed.

(* BaseSecondOrderMeasure._weighted_squared_cube_counts *)
Lemma gen_wiring_BaseSecondOrderMeasure__weighted_squared_cube_counts :
  wsrc_BaseSecondOrderMeasure__weighted_squared_cube_counts = Some (WAttr (WSelf "_cube_measures")
      "weighted_squared_cube_counts").
Proof. reflexivity. Qed.

(* MatrixCubeMeasures.cube_overlaps *)
Lemma gen_wiring_MatrixCubeMeasures_cube_overlaps :
  wsrc_MatrixCubeMeasures_cube_overlaps = Some (WCall (WAttr (WGlobal "_BaseCubeOverlaps") "factory")
      [WSelf "_cube"; WSelf "_dimensions"; WSelf "_slice_idx"] []).
Proof. reflexivity. Qed.

(* MatrixCubeMeasures.weighted_squared_cube_counts *)
Lemma gen_wiring_MatrixCubeMeasures_weighted_squared_cube_counts :
  wsrc_MatrixCubeMeasures_weighted_squared_cube_counts = Some (WIf (WCmp "is" (WAttr (WSelf "_cube")
      "weighted_squared_counts") (WNone)) (WNone) (WCall (WAttr (WGlobal "_BaseCubeCounts")
      "factory") [WAttr (WSelf "_cube") "weighted_squared_counts"; WFalse; WSelf "_cube"; WSelf
      "_dimensions"; WSelf "_slice_idx"] [])).
Proof. reflexivity. Qed.
