(* GenAgreeDimTypeComposeLabels (C05 / C10): Dimension.element_labels / element_aliases of EVERY dimension in terms
   of what the response and the transforms say: per valid element of the (re-arranged) type definition
   [element_label] of ITS transforms and its definition, resp. [element_alias] of its definition
   (Model/DimValues.v).  Composition of Proofs/GenAgreeDimTypeLabels.v with Proofs/GenAgreeDimTypeOrder.v. *)
From Coq Require Import List ZArith String Bool Lia Arith.
From CC Require Import Base.XQ Base.PyList Base.PyDict Model.DimType Model.PyDimension Model.PyDimType
  Model.DimValues Gen.DimensionSrc Gen.DimTypeSrc Proofs.GenAgreeDimensionLib Proofs.GenAgreeDimTypeLib
  Proofs.GenAgreeDimTypeElems Proofs.GenAgreeDimTypeOrder Proofs.GenAgreeDimTypeLabels.
From CC Require Base.Ident.
Import ListNotations.
Local Close Scope Q_scope.
Local Open Scope Z_scope.
Local Open Scope string_scope.

(* C05 / C10: Dimension.element_labels / element_aliases of every dimension.  [ax'] = the element transforms
   (for MR_SUBVAR: {**hidden, **elements}); the label of a valid element is [element_label] of ITS transforms -
   all_xforms.get(id, all_xforms.get(str(id), {})), [xform_of] - and its definition *)
Definition pair_label (ax : jdict) (di : jv * ident) (l : jv) : Prop :=
  exists e xf, fst di = JDict e /\ xform_of ax (snd di) = JDict xf /\ element_label xf e = Some l.
Definition pair_alias (di : jv * ident) (l : jv) : Prop :=
  exists e, fst di = JDict e /\ element_alias e = Some l.

(*@ C05 *)
Lemma gen_dimtype_Dimension_element_labels_all :
  match src_Dimension_element_labels, src_Dimension_valid_elements, src_Elements__hidden_transforms with
  | Some f, Some _, Some h => forall t dd tr ty defs rids ids o ax hid labels, dim_reads' t dd tr ty defs rids ids o ax ->
      (dtype_eqb t TMrSubvar = true ->
       h (JList (reorder rids defs o)) (jd_get_default tr (JStr "insertions") (JList [])) = Ok hid) ->
      Forall2 (pair_label (if dtype_eqb t TMrSubvar then jd_update hid ax else ax))
              (valid_pairs (reorder rids defs o) (reorder rids ids o)) labels ->
      f (mkPyDimension t (JDict dd) (JDict tr)) = Ok labels
  | _, _, _ => True end.
Proof.
  generalize gen_dimtype_Dimension_element_labels gen_dimtype_Dimension_valid_elements.
  destruct src_Dimension_element_labels as [f|]; [|intros _ _; exact I].
  destruct src_Dimension_valid_elements as [g|]; [|intros _ _; destruct src_Elements__hidden_transforms; exact I].
  destruct src_Elements__hidden_transforms as [h|]; [|intros _ _; exact I].
  intros G1 G2 t dd tr ty defs rids ids o ax hid labels Hr Hh HL.
  pose proof (reorder_forall2 (wf_def t) rids defs ids o (dr_ids' _ _ _ _ _ _ _ _ _ Hr)) as Hw.
  apply (G1 _ _ labels (G2 t dd tr ty defs rids ids o ax hid Hr Hh)).
  unfold all_elems.
  generalize (valid_of_elements t (if dtype_eqb t TMrSubvar then jd_update hid ax else ax) _ _ 0%nat (Forall2_len _ _ _ Hw)).
  revert HL. generalize (valid_pairs (reorder rids defs o) (reorder rids ids o)).
  generalize (valid_of (elements_from t (if dtype_eqb t TMrSubvar then jd_update hid ax else ax) 0
                                     (reorder rids defs o) (reorder rids ids o))).
  intros els dis HL HE. revert labels HL.
  induction HE as [|el di els dis [E1 E2] _ IH]; intros labels HL; inversion HL; subst; constructor; [|apply IH; assumption].
  match goal with H : pair_label _ _ _ |- _ => destruct H as (e & xf & Ee & Ex & El) end.
  unfold el_label. rewrite E1, E2, Ee. cbn [xf_element_transforms_dict]. rewrite Ex. exact El.
Qed.

(*@ C05 *)
Lemma gen_dimtype_Dimension_element_aliases_all :
  match src_Dimension_element_aliases, src_Dimension_valid_elements, src_Elements__hidden_transforms with
  | Some f, Some _, Some h => forall t dd tr ty defs rids ids o ax hid aliases, dim_reads' t dd tr ty defs rids ids o ax ->
      (dtype_eqb t TMrSubvar = true ->
       h (JList (reorder rids defs o)) (jd_get_default tr (JStr "insertions") (JList [])) = Ok hid) ->
      Forall2 pair_alias (valid_pairs (reorder rids defs o) (reorder rids ids o)) aliases ->
      f (mkPyDimension t (JDict dd) (JDict tr)) = Ok aliases
  | _, _, _ => True end.
Proof.
  generalize gen_dimtype_Dimension_element_aliases gen_dimtype_Dimension_valid_elements.
  destruct src_Dimension_element_aliases as [f|]; [|intros _ _; exact I].
  destruct src_Dimension_valid_elements as [g|]; [|intros _ _; destruct src_Elements__hidden_transforms; exact I].
  destruct src_Elements__hidden_transforms as [h|]; [|intros _ _; exact I].
  intros G1 G2 t dd tr ty defs rids ids o ax hid aliases Hr Hh HL.
  pose proof (reorder_forall2 (wf_def t) rids defs ids o (dr_ids' _ _ _ _ _ _ _ _ _ Hr)) as Hw.
  apply (G1 _ _ aliases (G2 t dd tr ty defs rids ids o ax hid Hr Hh)).
  unfold all_elems.
  generalize (valid_of_elements t (if dtype_eqb t TMrSubvar then jd_update hid ax else ax) _ _ 0%nat (Forall2_len _ _ _ Hw)).
  revert HL. generalize (valid_pairs (reorder rids defs o) (reorder rids ids o)).
  generalize (valid_of (elements_from t (if dtype_eqb t TMrSubvar then jd_update hid ax else ax) 0
                                     (reorder rids defs o) (reorder rids ids o))).
  intros els dis HL HE. revert aliases HL.
  induction HE as [|el di els dis [E1 _] _ IH]; intros aliases HL; inversion HL; subst; constructor; [|apply IH; assumption].
  match goal with H : pair_alias _ _ |- _ => destruct H as (e & Ee & El) end.
  unfold el_alias. rewrite E1, Ee. exact El.
Qed.
