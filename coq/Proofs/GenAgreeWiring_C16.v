(* GOLDEN obligations of the wiring translator for C16 (generated ONCE by tools/gen_wiring_props.py,
   then committed): what each public member of cubepart.py that C16 relies on IS, as a term of
   Base/WiringExp.v.  Gen/WiringSrc.v is regenerated from /repo on every check; an edit of the
   public layer that changes one of these members breaks the lemma below (reflexivity). *)
From Coq Require Import List ZArith String.
From CC Require Import Base.WiringExp Gen.WiringSrc.
Import ListNotations.
Local Open Scope string_scope.

(* _Slice.column_index *)
Lemma gen_wiring_Slice_column_index :
  wsrc_Slice_column_index = Some (w_matrix_of "column_index").
Proof. reflexivity. Qed.
