(* GOLDEN obligations of the wiring translator for C16 (generated ONCE by tools/gen_wiring_props.py,
   then committed): what each public member of cubepart.py that C16 relies on IS, as a term of
   Base/WiringExp.v.  Gen/WiringSrc.v is regenerated from /repo on every check; an edit of the
   public layer that changes one of these members breaks the lemma below (reflexivity). *)
From Coq Require Import List ZArith String.
From CC Require Import Base.WiringExp Gen.WiringSrc.
Import ListNotations.
Local Open Scope string_scope.

(* _Slice.column_index *)
Lemma gen_wiring_Slice_column_index :
  wsrc_Slice_column_index = Some (w_matrix_of "column_index").
Proof. reflexivity. Qed.

(* SecondOrderMeasures.column_index *)
Lemma gen_wiring_SecondOrderMeasures_column_index :
  wsrc_SecondOrderMeasures_column_index = Some (WCall (WGlobal "_ColumnIndex") [WSelf "_dimensions";
      WVar "self"; WSelf "_cube_measures"] []).
Proof. reflexivity. Qed.

(* MatrixCubeMeasures.unconditional_cube_counts *)
Lemma gen_wiring_MatrixCubeMeasures_unconditional_cube_counts :
  wsrc_MatrixCubeMeasures_unconditional_cube_counts = Some (WCall (WAttr (WGlobal
      "_BaseUnconditionalCubeCounts") "factory") [WSelf "_cube"; WSelf "_dimensions"; WIf (WCmp ">"
      (WAttr (WSelf "_cube") "ndim") (WInt (2)%Z)) (WIndex (WAttr (WAttr (WIndex (WAttr (WSelf
      "_cube") "dimensions") [WInt (0)%Z]) "valid_elements") "element_idxs") [WSelf "_slice_idx"])
      (WSelf "_slice_idx")] []).
Proof. reflexivity. Qed.
