(* Proofs/MergeIds.v -- the id resolution of Model/SubtotalIds.v has SET semantics:
   offset i is an addend iff the id of the i-th valid element is listed; the offsets come out
   ascending and duplicate-free whatever the order / multiplicity of the listed ids; an id
   that is not (or no longer) a valid element contributes nothing.  The validity gauntlet is
   characterised, and a subtotal that passes it has at least one term. *)
From Coq Require Import QArith ZArith List Bool Lia Arith Sorted.
From CC Require Import Base.XQ Base.ListX Base.Ident Spec.Survey Model.Subtotals Model.SubtotalIds.
Import ListNotations.
Local Close Scope Q_scope.
Local Open Scope nat_scope.

Lemma kept_ids_py_in ids terms a :
  py_in a (kept_ids ids terms) = py_in a terms && py_in a ids.
Proof.
  unfold kept_ids.
  destruct (py_in a (filter (fun a0 => py_in a0 ids) terms)) eqn:E.
  - apply py_in_In in E. apply filter_In in E. destruct E as [E1 E2].
    apply py_in_In in E1. rewrite E1, E2. reflexivity.
  - destruct (py_in a terms) eqn:E1, (py_in a ids) eqn:E2; try reflexivity.
    exfalso. apply py_in_false in E. apply E. apply filter_In. split; [apply py_in_In; exact E1| exact E2].
Qed.

Lemma nth_ids_py_in ids i : i < length ids -> py_in (nth i ids INone) ids = true.
Proof. intros H. apply py_in_In. apply nth_In. exact H. Qed.

(* the two-step resolution of the code is one membership test *)
Lemma resolve_eq ids terms :
  resolve ids terms = filter (fun i => py_in (nth i ids INone) terms) (seq 0 (length ids)).
Proof.
  unfold resolve, idxs_of. apply filter_ext_in. intros i Hi. apply in_seq in Hi.
  rewrite kept_ids_py_in, nth_ids_py_in by lia. apply andb_true_r.
Qed.

Theorem resolve_In ids terms i :
  In i (resolve ids terms) <-> i < length ids /\ In (nth i ids INone) terms.
Proof.
  rewrite resolve_eq, filter_In, in_seq, py_in_In. split; intros [H1 H2]; split; auto; lia.
Qed.

Theorem resolve_sorted ids terms : StronglySorted lt (resolve ids terms).
Proof. rewrite resolve_eq. apply filter_seq_sorted. Qed.

Theorem resolve_NoDup ids terms : NoDup (resolve ids terms).
Proof. rewrite resolve_eq. apply NoDup_filter. apply seq_NoDup. Qed.

Theorem resolve_bound ids terms : Forall (fun i => i < length ids) (resolve ids terms).
Proof. apply Forall_forall. intros i Hi. apply resolve_In in Hi. tauto. Qed.

(* set semantics: only WHICH ids are listed matters (order, repetitions do not) *)
Theorem resolve_set ids t1 t2 :
  (forall x, In x ids -> (In x t1 <-> In x t2)) -> resolve ids t1 = resolve ids t2.
Proof.
  intros H. rewrite !resolve_eq. apply filter_ext_in. intros i Hi. apply in_seq in Hi.
  assert (Hin : In (nth i ids INone) ids) by (apply nth_In; lia).
  specialize (H _ Hin).
  destruct (py_in (nth i ids INone) t1) eqn:E1, (py_in (nth i ids INone) t2) eqn:E2; try reflexivity.
  - apply py_in_In in E1. apply H in E1. apply py_in_In in E1. congruence.
  - apply py_in_In in E2. apply H in E2. apply py_in_In in E2. congruence.
Qed.

Corollary resolve_duplicate ids x t : resolve ids (x :: x :: t) = resolve ids (x :: t).
Proof. apply resolve_set. intros y _. simpl. tauto. Qed.

(* a stale / missing / unknown id contributes nothing *)
Corollary resolve_stale ids x t : ~ In x ids -> resolve ids (x :: t) = resolve ids t.
Proof.
  intros Hx. apply resolve_set. intros y Hy. simpl. split; [|tauto].
  intros [->|H]; [tauto| exact H].
Qed.

Corollary resolve_nil ids : resolve ids [] = [].
Proof.
  rewrite resolve_eq. induction (seq 0 (length ids)) as [|a t IH]; simpl; auto.
Qed.

(* a subtotal is a difference iff it has at least one subtrahend offset *)
Theorem is_difference_has_subs ids d :
  is_difference ids d = has_subs (subtotal_of ids d).
Proof.
  unfold is_difference, has_subs, subtotal_of. simpl.
  destruct (kept_ids ids (negative_terms d)) as [|a t] eqn:E; simpl.
  - assert (resolve ids (negative_terms d) = []) as ->; [|reflexivity].
    unfold resolve. rewrite E. unfold idxs_of.
    induction (seq 0 (length ids)) as [|x l IH]; simpl; auto.
  - assert (Ha : In a (kept_ids ids (negative_terms d))) by (rewrite E; left; reflexivity).
    unfold kept_ids in Ha. apply filter_In in Ha. destruct Ha as [Ha1 Ha2].
    apply py_in_In in Ha2. destruct (In_nth _ _ INone Ha2) as [i [Hi Hn]].
    assert (In i (resolve ids (negative_terms d))) as Hin.
    { apply resolve_In. split; [exact Hi|]. rewrite Hn. exact Ha1. }
    destruct (resolve ids (negative_terms d)); [destruct Hin| reflexivity].
Qed.

(* the gauntlet *)
Theorem valid_subtotal_spec ids d :
  valid_subtotal ids d = true <->
  i_is_dict d = true /\ i_fn_subtotal d = true /\ i_hide_true d = false /\
  i_has_anchor d = true /\ i_has_name d = true /\
  exists x, In x (positive_terms d ++ negative_terms d) /\ In x ids.
Proof.
  unfold valid_subtotal. rewrite !andb_true_iff, !negb_true_iff, existsb_exists. split.
  - intros [[[[[H1 H2] H3] [H4 H5]] H6] [x [Hx Hi]]]. apply py_in_In in Hi.
    repeat split; auto. exists x. tauto.
  - intros [H1 [H2 [H3 [H4 [H5 [x [Hx Hi]]]]]]]. repeat split; auto.
    + destruct (positive_terms d); [|reflexivity]. destruct (negative_terms d); [destruct Hx| reflexivity].
    + exists x. split; [exact Hx| apply py_in_In; exact Hi].
Qed.

(* a subtotal that passes the gauntlet has at least one addend or subtrahend offset *)
Theorem valid_subtotal_has_term ids d :
  valid_subtotal ids d = true ->
  s_add (subtotal_of ids d) <> [] \/ s_sub (subtotal_of ids d) <> [].
Proof.
  intros H. apply valid_subtotal_spec in H.
  destruct H as [_ [_ [_ [_ [_ [x [Hx Hi]]]]]]].
  destruct (In_nth _ _ INone Hi) as [i [Hlt Hn]].
  apply in_app_or in Hx. destruct Hx as [Hx|Hx].
  - left. simpl. intros E.
    assert (In i (resolve ids (positive_terms d))) as Hp
      by (apply resolve_In; split; [exact Hlt| rewrite Hn; exact Hx]).
    rewrite E in Hp. destruct Hp.
  - right. simpl. intros E.
    assert (In i (resolve ids (negative_terms d))) as Hp
      by (apply resolve_In; split; [exact Hlt| rewrite Hn; exact Hx]).
    rewrite E in Hp. destruct Hp.
Qed.

(* hence at least one valid element: the "row 0" / "column 0" the base blocks read exists *)
Corollary valid_subtotal_nonempty_dimension ids d : valid_subtotal ids d = true -> 0 < length ids.
Proof.
  intros H. apply valid_subtotal_spec in H.
  destruct H as [_ [_ [_ [_ [_ [x [_ Hi]]]]]]]. destruct ids; [destruct Hi| simpl; lia].
Qed.

(* the subtotals of a dimension are the valid dicts, in definition order *)
Theorem subtotals_of_length ids ds :
  length (subtotals_of ids ds) = length (filter (valid_subtotal ids) ds).
Proof. unfold subtotals_of. apply map_length. Qed.

Theorem differences_of_spec ids ds k :
  k < length (subtotals_of ids ds) ->
  nth k (differences_of ids ds) false = has_subs (nth k (subtotals_of ids ds) (mkSub [] [])).
Proof.
  intros Hk. unfold differences_of, subtotals_of in *. rewrite map_length in Hk.
  set (l := filter (valid_subtotal ids) ds) in *.
  set (d0 := mkInsDict false false false false false [] [] []).
  rewrite (nth_indep _ false (is_difference ids d0)) by (rewrite map_length; exact Hk).
  rewrite (nth_indep _ (mkSub [] []) (subtotal_of ids d0)) by (rewrite map_length; exact Hk).
  rewrite !map_nth. apply is_difference_has_subs.
Qed.

(* ------------------------------------------------------------------------------------ *)
(** * the sum over resolved offsets is the sum over the elements whose id is listed *)

Lemma xsum_filter_seq n (p : nat -> bool) (g : nat -> Q) :
  xsum (map (fun i => Fin (g i)) (filter p (seq 0 n))) =x= Fin (qsumn n (fun i => ind (p i) * g i)%Q).
Proof.
  induction n as [|n IH].
  - simpl. reflexivity.
  - rewrite seq_S, filter_app, map_app, xsum_app, IH.
    pose proof (qsumn_S n (fun i => ind (p i) * g i)%Q) as E. cbv beta in E.
    set (a := qsumn n (fun i => (ind (p i) * g i)%Q)) in *.
    set (b := qsumn (S n) (fun i => (ind (p i) * g i)%Q)) in *.
    cbn [seq Nat.add filter]. destruct (p n) eqn:Ep; rewrite ?Ep in E; cbn [map xsum fold_right xadd xeq ind] in *; rewrite E; ring.
Qed.

(* listed (ids, terms, i) = 1 if the i-th valid element's id is among the terms, else 0 *)
Definition listed (ids terms : list ident) (i : nat) : Q := ind (py_in (nth i ids INone) terms).

Lemma xsum_resolve ids terms (f : nat -> xq) (g : nat -> Q) :
  (forall i, i < length ids -> f i = Fin (g i)) ->
  xsum (map f (resolve ids terms)) =x= Fin (qsumn (length ids) (fun i => listed ids terms i * g i)%Q).
Proof.
  intros H. rewrite resolve_eq.
  rewrite (map_ext_in f (fun i => Fin (g i))).
  - apply xsum_filter_seq.
  - intros i Hi. apply filter_In in Hi. destruct Hi as [Hi _]. apply in_seq in Hi. apply H. lia.
Qed.
