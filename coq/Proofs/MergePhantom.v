(* Proofs/MergePhantom.v -- an insertion whose kwargs.negative lists ONLY ids that are not valid
   elements (deleted categories, categories flagged missing, wrongly typed ids) subtracts
   nothing: it is not a difference, and it is THE SAME subtotal as the insertion with the
   negative list removed -- so every measure of the model (each is a function of the subtotal
   and the base blocks) and the merge-equivalence theorems apply to it unchanged (C04). *)
From Coq Require Import List Bool Arith Lia.
From CC Require Import Base.Ident Model.Subtotals Model.SubtotalIds Proofs.MergeIds.
Import ListNotations.
Local Open Scope nat_scope.

(* a difference iff SOME listed negative id is the id of a valid element *)
Theorem is_difference_iff ids d :
  is_difference ids d = true <-> exists x, In x (negative_terms d) /\ In x ids.
Proof.
  unfold is_difference, kept_ids. split.
  - intros H. destruct (filter (fun a => py_in a ids) (negative_terms d)) as [|a t] eqn:E;
      [discriminate|].
    assert (Ha : In a (filter (fun a => py_in a ids) (negative_terms d))) by (rewrite E; left; reflexivity).
    apply filter_In in Ha. destruct Ha as [H1 H2]. apply py_in_In in H2. exists a. tauto.
  - intros [x [H1 H2]].
    assert (Hx : In x (filter (fun a => py_in a ids) (negative_terms d))).
    { apply filter_In. split; [exact H1|apply py_in_In; exact H2]. }
    destruct (filter (fun a => py_in a ids) (negative_terms d)); [destruct Hx|reflexivity].
Qed.

Lemma resolve_all_stale ids terms : (forall x, In x terms -> ~ In x ids) -> resolve ids terms = [].
Proof.
  intros H. destruct (resolve ids terms) as [|i t] eqn:E; [reflexivity|].
  assert (Hi : In i (resolve ids terms)) by (rewrite E; left; reflexivity).
  apply resolve_In in Hi. destruct Hi as [Hlt Hin].
  exfalso. apply (H _ Hin). apply nth_In. exact Hlt.
Qed.

(* the insertion with its negative list removed *)
Definition without_negative (d : insdict) : insdict :=
  mkInsDict (i_is_dict d) (i_fn_subtotal d) (i_hide_true d) (i_has_anchor d) (i_has_name d)
            (i_kw_positive d) (i_args d) [].

Theorem phantom_negative_is_plain ids d :
  (forall x, In x (negative_terms d) -> ~ In x ids) ->
  is_difference ids d = false /\
  s_sub (subtotal_of ids d) = [] /\
  subtotal_of ids d = subtotal_of ids (without_negative d).
Proof.
  intros H. split; [|split].
  - destruct (is_difference ids d) eqn:E; [|reflexivity].
    apply is_difference_iff in E. destruct E as [x [H1 H2]]. exfalso. exact (H x H1 H2).
  - simpl. apply resolve_all_stale. exact H.
  - unfold subtotal_of, without_negative, positive_terms, negative_terms. simpl.
    rewrite (resolve_all_stale ids (i_negative d) H). rewrite resolve_nil. reflexivity.
Qed.

(* it passes the gauntlet exactly when the plain insertion does *)
Theorem phantom_negative_valid ids d :
  (forall x, In x (negative_terms d) -> ~ In x ids) ->
  valid_subtotal ids d = valid_subtotal ids (without_negative d).
Proof.
  intros H.
  destruct (valid_subtotal ids d) eqn:E1, (valid_subtotal ids (without_negative d)) eqn:E2; try reflexivity.
  - apply valid_subtotal_spec in E1. destruct E1 as [A [B [C [D [E [x [Hx Hi]]]]]]].
    assert (valid_subtotal ids (without_negative d) = true); [|congruence].
    apply valid_subtotal_spec. simpl. repeat split; auto.
    exists x. split; [|exact Hi]. apply in_app_or in Hx. destruct Hx as [Hx|Hx].
    + apply in_or_app. left. exact Hx.
    + exfalso. exact (H x Hx Hi).
  - apply valid_subtotal_spec in E2. simpl in E2. destruct E2 as [A [B [C [D [E [x [Hx Hi]]]]]]].
    assert (valid_subtotal ids d = true); [|congruence].
    apply valid_subtotal_spec. repeat split; auto.
    exists x. split; [|exact Hi]. apply in_app_or in Hx. destruct Hx as [Hx|Hx].
    + apply in_or_app. left. exact Hx.
    + destruct Hx.
Qed.
