(* Proofs/ComposePublicCells.v -- the COMPOSITION of the source translators: what a display cell is.
   The hypotheses about the cube and the display ([survey_display]), the vocabulary of the cell statements
   ([cells_spec], [base_cells_spec], [count_cell_spec], [ratio_cell_spec], [merge_row_ok], [row_subtotal]) and the
   generic steps from a member's [member_spec] to its cells.  No link lemma is used here. *)
From Coq Require Import QArith ZArith List Bool Lia Arith String Setoid Morphisms.
From CC Require Import Base.XQ Base.ListX Base.WiringExp Spec.Survey Spec.Merge
     Model.Subtotals Model.Proportions Model.CubeCounts
     Proofs.CubeCountsProofs Proofs.ComposeBase Proofs.ComposeProportions Proofs.ComposePayload
     Proofs.MergeSurvey Proofs.MergeMeasures
     Proofs.ComposePublicSem Proofs.ComposePublicLinks Proofs.ComposePublicChainDefs Proofs.ComposePublicSlice.
From CC Require Proofs.AssembleProofs.
Import ListNotations.
Local Close Scope Q_scope.
Local Open Scope string_scope.
Local Open Scope nat_scope.

(* [ratio_spec] respects =x= *)
Lemma ratio_spec_xeq x y c b : x =x= y -> ratio_spec y c b -> ratio_spec x c b.
Proof.
  unfold ratio_spec. destruct x as [p|s|], y as [q|t|]; simpl; intros E H; try contradiction; try exact H.
  destruct H as (H1 & H2 & H3 & H4). split; [exact H1|]. split; [rewrite E; exact H2|].
  split; rewrite E; assumption.
Qed.

Lemma nval_lt_merged (mr : list bool) : nval mr < nval (merged_flags mr).
Proof. change (nval (merged_flags mr)) with (n_valid (merged_flags mr)). rewrite n_valid_merged. unfold nval, n_valid. lia. Qed.

(* the hypotheses about the cube and the display (a conjunction, spelled out in Props/C03.v) *)
Definition survey_display (S : survey) (tv : tvar) vr kr mr vc kc mc (k : nat)
           (rsubs csubs : list subtotal) (ro co : list Z) (so : slice_out) : Prop :=
  t_ok tv /\ cat_or_mr kr /\ cat_or_mr kc /\ k < t_n tv /\ wf_survey S /\
  0 < nval mr /\ 0 < nval mc /\
  slice_counts (cube_dims tv kr mr kc mc) (survey_payload tv vr kr mr vc kc mc S) k = Some so /\
  display_ok mr mc rsubs csubs ro co.

(* a row subtotal that is a merge of categories of the (categorical) rows variable vr *)
Definition merge_row_ok (S : survey) (tv : tvar) (vr vc : nat) (mr : list bool) (s : subtotal) : Prop :=
  vc <> vr /\ tv_other tv vr /\ fresh_for vr mr S /\
  s_sub s = [] /\ Forall (fun a => a < n_valid mr) (s_add s) /\ NoDup (s_add s).

Definition row_subtotal (rsubs : list subtotal) (ro : list Z) (i : nat) : subtotal :=
  nth (Z.to_nat (rsel ro i + Z.of_nat (List.length rsubs))) rsubs nosub.

Section Cells.
  Variable S : survey.
  Variable tv : tvar.
  Variable vr : nat.
  Variable kr : kind.
  Variable mr : list bool.
  Variable vc : nat.
  Variable kc : kind.
  Variable mc : list bool.
  Variable k : nat.
  Variables rsubs csubs : list subtotal.
  Variables dn rd cd : bool.
  Variable flag : string -> bool.
  Variables ro co : list Z.
  Variable so : slice_out.
  Hypothesis D : survey_display S tv vr kr mr vc kc mc k rsubs csubs ro co so.

  Let Ht : t_ok tv := proj1 D.
  Let Hr : cat_or_mr kr := proj1 (proj2 D).
  Let Hc : cat_or_mr kc := proj1 (proj2 (proj2 D)).
  Let Hk : k < t_n tv := proj1 (proj2 (proj2 (proj2 D))).
  Let Hwf : wf_survey S := proj1 (proj2 (proj2 (proj2 (proj2 D)))).
  Let Hnr : 0 < nval mr := proj1 (proj2 (proj2 (proj2 (proj2 (proj2 D))))).
  Let Hnc : 0 < nval mc := proj1 (proj2 (proj2 (proj2 (proj2 (proj2 (proj2 D)))))).
  Let Hso := proj1 (proj2 (proj2 (proj2 (proj2 (proj2 (proj2 (proj2 D))))))).
  Let Hd : display_ok mr mc rsubs csubs ro co := proj2 (proj2 (proj2 (proj2 (proj2 (proj2 (proj2 (proj2 D))))))).

  Notation C := (Cs mr mc rsubs csubs dn rd cd flag ro co so).

  Lemma C_first_order : first_order_ok C.
  Proof. exact (Cs_first_order S tv vr kr mr vc kc mc k rsubs csubs dn rd cd flag ro co so Ht Hr Hc Hk Hso Hnr Hnc). Qed.
  Lemma C_counts_tab : cube_tab C "counts".
  Proof. exact (proj1 C_first_order). Qed.

  (* ---- reading a display cell of a member that realizes the model structure B ---- *)
  Section Member.
    Variable p : string.
    Variable h : xq -> xq.
    Variable B : blocks.
    Hypothesis M : member_spec C p h B.

    Lemma member_shape : pshape (public_slice C p) = Some (List.length ro, List.length co).
    Proof. exact (proj1 M). Qed.

    Lemma member_base i j : i < List.length ro -> j < List.length co ->
      (0 <= rsel ro i)%Z -> (0 <= csel co j)%Z ->
      pcell (public_slice C p) i j = h (mnth (b_base B) (Z.to_nat (rsel ro i)) (Z.to_nat (csel co j))).
    Proof.
      intros Hi Hj H1 H2. rewrite (proj2 M i j Hi Hj). f_equal. apply signed_cell_base; assumption.
    Qed.

    Lemma member_srow i j : i < List.length ro -> j < List.length co ->
      (rsel ro i < 0)%Z -> (0 <= csel co j)%Z ->
      pcell (public_slice C p) i j
      = h (mnth (b_rows B) (Z.to_nat (rsel ro i + Z.of_nat (List.length rsubs))) (Z.to_nat (csel co j))).
    Proof.
      intros Hi Hj H1 H2. rewrite (proj2 M i j Hi Hj). f_equal. apply signed_cell_srow; assumption.
    Qed.
  End Member.

End Cells.

(* the blocks of the table of the merged survey, as Proofs/MergeMeasures.v names them *)
Lemma nval_merged (mr : list bool) : nval (merged_flags mr) = Datatypes.S (nval mr).
Proof. exact (n_valid_merged mr). Qed.
Lemma merged_t_counts S tv vr vc kc mr mc k rsubs ro i :
  t_counts (merged_rows_survey S vr mr (row_subtotal rsubs ro i)) tv vr KCat (merged_flags mr) vc kc mc k
  = MergeMeasures.m_counts S tv vr vc kc mr mc k rsubs (Z.to_nat (rsel ro i + Z.of_nat (List.length rsubs))).
Proof. unfold t_counts, MergeMeasures.m_counts. rewrite nval_merged. reflexivity. Qed.
Lemma merged_t_rb S tv vr vc kc mr mc k rsubs ro i :
  t_rb (merged_rows_survey S vr mr (row_subtotal rsubs ro i)) tv vr KCat (merged_flags mr) vc kc mc k
  = MergeMeasures.m_rb S tv vr vc kc mr mc k rsubs (Z.to_nat (rsel ro i + Z.of_nat (List.length rsubs))).
Proof. unfold t_rb, MergeMeasures.m_rb. rewrite nval_merged. reflexivity. Qed.
Lemma merged_t_cb S tv vr vc kc mr mc k rsubs ro i :
  t_cb (merged_rows_survey S vr mr (row_subtotal rsubs ro i)) tv vr KCat (merged_flags mr) vc kc mc k
  = MergeMeasures.m_cb S tv vr vc kc mr mc k rsubs (Z.to_nat (rsel ro i + Z.of_nat (List.length rsubs))).
Proof. unfold t_cb, MergeMeasures.m_cb. rewrite nval_merged. reflexivity. Qed.
Lemma merged_t_tb S tv vr vc kc mr mc k rsubs ro i :
  t_tb (merged_rows_survey S vr mr (row_subtotal rsubs ro i)) tv vr KCat (merged_flags mr) vc kc mc k
  = MergeMeasures.m_tb S tv vr vc kc mr mc k rsubs (Z.to_nat (rsel ro i + Z.of_nat (List.length rsubs))).
Proof. unfold t_tb, MergeMeasures.m_tb. rewrite nval_merged. reflexivity. Qed.

(* ------------------------------------------------------------------------------------ *)
(** * what a display cell is *)

(* the three bases: weighted respondents eligible for ... *)
Definition wfun : Type :=
  tvar -> nat -> nat -> kind -> list bool -> nat -> kind -> list bool -> survey -> nat -> nat -> Q.

Section CellSpecs.
  Variable S : survey.
  Variable tv : tvar.
  Variable vr : nat.
  Variable kr : kind.
  Variable mr : list bool.
  Variable vc : nat.
  Variable kc : kind.
  Variable mc : list bool.
  Variable k : nat.
  Variable rsubs : list subtotal.
  Variables ro co : list Z.
  Variables i j : nat.

  (* the merged survey / flags / row of the subtotal shown in display row i *)
  Let s := row_subtotal rsubs ro i.
  Let S' := merged_rows_survey S vr mr s.
  Let mr' := merged_flags mr.
  Let c := Z.to_nat (csel co j).

  (* a count cell in a base column: a base row / a subtotal row that merges categories *)
  Definition count_cell_spec (x : xq) : Prop :=
    ((0 <= rsel ro i)%Z ->
       x =x= Fin (w_cell tv k vr kr mr vc kc mc S (Z.to_nat (rsel ro i)) c)) /\
    ((rsel ro i < 0)%Z -> kr = KCat -> merge_row_ok S tv vr vc mr s ->
       x =x= Fin (w_cell tv k vr KCat mr' vc kc mc S' (nval mr) c)).

  (* a proportion cell with the base [wb] *)
  Definition ratio_cell_spec (wb : wfun) (x : xq) : Prop :=
    ((0 <= rsel ro i)%Z ->
       ratio_spec x (w_cell tv k vr kr mr vc kc mc S (Z.to_nat (rsel ro i)) c)
                    (wb tv k vr kr mr vc kc mc S (Z.to_nat (rsel ro i)) c)) /\
    ((rsel ro i < 0)%Z -> kr = KCat -> merge_row_ok S tv vr vc mr s ->
       ratio_spec x (w_cell tv k vr KCat mr' vc kc mc S' (nval mr) c)
                    (wb tv k vr KCat mr' vc kc mc S' (nval mr) c)).
End CellSpecs.

(* a member's value: its shape, and every display cell of a BASE column *)
Definition cells_spec (P : pval) (ro co : list Z) (spec : nat -> nat -> xq -> Prop) : Prop :=
  pshape P = Some (List.length ro, List.length co) /\
  forall i j, i < List.length ro -> j < List.length co -> (0 <= csel co j)%Z -> spec i j (pcell P i j).
(* ... of a member that is 100 times another quantity *)
Definition pct_cells_spec (P : pval) (ro co : list Z) (spec : nat -> nat -> xq -> Prop) : Prop :=
  cells_spec P ro co (fun i j y => exists x, y = xmul x (Fin 100%Q) /\ spec i j x).

Section MemberCells.
  Variable S : survey.
  Variable tv : tvar.
  Variable vr : nat.
  Variable kr : kind.
  Variable mr : list bool.
  Variable vc : nat.
  Variable kc : kind.
  Variable mc : list bool.
  Variable k : nat.
  Variables rsubs csubs : list subtotal.
  Variables dn rd cd : bool.
  Variable flag : string -> bool.
  Variables ro co : list Z.
  Variable so : slice_out.
  Notation C := (Cs mr mc rsubs csubs dn rd cd flag ro co so).

  (* a member with cells h(model block cell), given what the base / subtotal-row block cells are *)
  Lemma cells_of_member p h B (spec : nat -> nat -> xq -> Prop) :
    member_spec C p h B ->
    (forall i j, i < List.length ro -> j < List.length co -> (0 <= rsel ro i)%Z -> (0 <= csel co j)%Z ->
       spec i j (h (mnth (b_base B) (Z.to_nat (rsel ro i)) (Z.to_nat (csel co j))))) ->
    (forall i j, i < List.length ro -> j < List.length co -> (rsel ro i < 0)%Z -> (0 <= csel co j)%Z ->
       spec i j (h (mnth (b_rows B) (Z.to_nat (rsel ro i + Z.of_nat (List.length rsubs)))
                         (Z.to_nat (csel co j))))) ->
    cells_spec (public_slice C p) ro co spec.
  Proof.
    intros M Hb Hs. split; [exact (member_shape mr mc rsubs csubs dn rd cd flag ro co so p h B M)|].
    intros i j Hi Hj Hc0.
    destruct (Z.leb_spec 0 (rsel ro i)) as [Hr0|Hr0].
    - rewrite (member_base mr mc rsubs csubs dn rd cd flag ro co so p h B M i j Hi Hj Hr0 Hc0). apply Hb; assumption.
    - rewrite (member_srow mr mc rsubs csubs dn rd cd flag ro co so p h B M i j Hi Hj Hr0 Hc0). apply Hs; assumption.
  Qed.

End MemberCells.

(* ------------------------------------------------------------------------------------ *)
(** * members stated on BASE cells only (C11, C12, C16, C02) *)

(* shape, and every display cell that shows base row r = ro[i] and base column c = co[j] *)
Definition base_cells_spec (P : pval) (ro co : list Z) (spec : nat -> nat -> xq -> Prop) : Prop :=
  pshape P = Some (List.length ro, List.length co) /\
  forall i j, i < List.length ro -> j < List.length co -> (0 <= rsel ro i)%Z -> (0 <= csel co j)%Z ->
    spec (Z.to_nat (rsel ro i)) (Z.to_nat (csel co j)) (pcell P i j).

Section BaseCells.
  Variable S : survey.
  Variable tv : tvar.
  Variable vr : nat.
  Variable kr : kind.
  Variable mr : list bool.
  Variable vc : nat.
  Variable kc : kind.
  Variable mc : list bool.
  Variable k : nat.
  Variables rsubs csubs : list subtotal.
  Variables dn rd cd : bool.
  Variable flag : string -> bool.
  Variables ro co : list Z.
  Variable so : slice_out.
  Hypothesis D : survey_display S tv vr kr mr vc kc mc k rsubs csubs ro co so.
  Notation C := (Cs mr mc rsubs csubs dn rd cd flag ro co so).
  Let Hd : display_ok mr mc rsubs csubs ro co := proj2 (proj2 (proj2 (proj2 (proj2 (proj2 (proj2 (proj2 D))))))).

  Lemma base_cells_of_member p h B (spec : nat -> nat -> xq -> Prop) :
    member_spec C p h B ->
    (forall r c, r < nval mr -> c < nval mc -> spec r c (h (mnth (b_base B) r c))) ->
    base_cells_spec (public_slice C p) ro co spec.
  Proof.
    intros M Hb. split; [exact (member_shape mr mc rsubs csubs dn rd cd flag ro co so p h B M)|].
    intros i j Hi Hj Hr0 Hc0.
    rewrite (member_base mr mc rsubs csubs dn rd cd flag ro co so p h B M i j Hi Hj Hr0 Hc0).
    apply Hb.
    - exact (rsel_base mr mc rsubs csubs ro co i Hd Hi Hr0).
    - exact (csel_base mr mc rsubs csubs ro co j Hd Hj Hc0).
  Qed.
End BaseCells.
