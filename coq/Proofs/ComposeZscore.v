(* Proofs/ComposeZscore.v -- C12 END TO END.

   The model's residual z-score (signed square z*|z|, Model/Zscore.v) of a base cell, computed
   from the blocks the model extracts from the tabulation of a survey, in terms of RESPONDENTS:
   with  c = w(row i and column j),  r = w(row i, eligible for column j),
         k = w(eligible for row i, column j),  t = w(eligible for both)
   -- where 0 <= r <= t and 0 <= k <= t are DERIVED (wsum monotonicity), so a cell is either on
   the boundary (r or k equal to 0 or t: zero variance) or strictly inside, and inside

        z*|z| (i, j) = (c - e)|c - e| / (e (1 - r/t)(1 - k/t)),   e = r k / t,

   with the sign of c - e.  For a 2 x 2 categorical table with non-zero margins, z^2 of every
   cell is Pearson's chi-square  N (ad - bc)^2 / (R1 R2 K1 K2)  of the four respondent counts;
   the table is defective (every cell NaN) exactly when ad = bc, and then chi-square is 0. *)
From Coq Require Import QArith Qabs ZArith List Bool Lia Arith Setoid Morphisms Lqa.
From CC Require Import Base.XQ Base.ListX Spec.Survey Model.CubeCounts Model.Zscore
     Proofs.CubeCountsProofs Proofs.PairwiseXQ Proofs.ZscoreProofs Proofs.ComposeBase.
Import ListNotations.
Local Close Scope Q_scope.
Local Open Scope nat_scope.

#[global] Instance compose_z_zabs_Proper : Proper (xeq ==> xeq ==> xeq ==> xeq ==> xeq) z_zabs.
Proof.
  intros c c' Hc r r' Hr k k' Hk t t' Ht. unfold z_zabs, z_resid, z_variance, z_expected.
  assert (Hv : xdiv (xmul (xmul (xmul r k) (xsub t r)) (xsub t k)) (xmul (xmul t t) t)
               =x= xdiv (xmul (xmul (xmul r' k') (xsub t' r')) (xsub t' k')) (xmul (xmul t' t') t'))
    by (rewrite Hr, Hk, Ht; reflexivity).
  rewrite (xltb_Proper _ _ Hv (Fin 0) (Fin 0) (xeq_refl _)).
  destruct (xltb _ (Fin 0)); [reflexivity|].
  rewrite Hv, Hc, Hr, Hk, Ht. reflexivity.
Qed.

#[global] Instance compose_z_sq_Proper : Proper (xeq ==> xeq ==> xeq ==> xeq ==> xeq) z_sq.
Proof. intros c c' Hc r r' Hr k k' Hk t t' Ht. unfold z_sq. rewrite Hc, Hr, Hk, Ht. reflexivity. Qed.

Lemma xeqb_fin_neq x y p q : x =x= Fin p -> y =x= Fin q -> ~ (p == q)%Q -> xeqb x y = false.
Proof.
  destruct x as [p'| |], y as [q'| |]; simpl; intros Hx Hy Hn; try contradiction.
  destruct (Qeq_bool p' q') eqn:E; [|reflexivity]. apply Qeq_bool_iff in E.
  exfalso. apply Hn. rewrite <- Hx, <- Hy. exact E.
Qed.

Lemma xeqb_fin_true x p q : x =x= Fin p -> xeqb x (Fin q) = true -> (p == q)%Q.
Proof.
  destruct x as [p'| |]; simpl; intros Hx E; try contradiction; try discriminate.
  apply Qeq_bool_iff in E. rewrite <- Hx. exact E.
Qed.

Lemma xeqb_fin_eq x p q : x =x= Fin p -> (p == q)%Q -> xeqb x (Fin q) = true.
Proof.
  destruct x as [p'| |]; simpl; intros Hx E; try contradiction.
  apply Qeq_bool_iff. rewrite Hx. exact E.
Qed.

(* ------------------------------------------------------------------------------------ *)
(** * the z-score block of the analysis of a survey *)

Section Analysis.
  Variable S : survey.
  Variable tv : tvar.
  Variables vr : nat.
  Variable kr : kind.
  Variable mr : list bool.
  Variable vc : nat.
  Variable kc : kind.
  Variable mc : list bool.
  Variable k : nat.

  Notation nr := (nval mr).
  Notation nc := (nval mc).
  Notation C := (t_counts S tv vr kr mr vc kc mc k).
  Notation RB := (t_rb S tv vr kr mr vc kc mc k).
  Notation CB := (t_cb S tv vr kr mr vc kc mc k).
  Notation TB := (t_tb S tv vr kr mr vc kc mc k).

  (* _Zscores on the base block: counts and table / row / column weighted bases *)
  Definition s_zscores : mat := zscores_block C C TB RB CB.

  Hypothesis Ht : t_ok tv.
  Hypothesis Hr : cat_or_mr kr.
  Hypothesis Hc : cat_or_mr kc.
  Hypothesis Hk : k < t_n tv.

  Notation wc := (w_cell tv k vr kr mr vc kc mc S).
  Notation wr := (w_rowbase tv k vr kr mr vc kc mc S).
  Notation wk := (w_colbase tv k vr kr mr vc kc mc S).
  Notation wt := (w_tabbase tv k vr kr mr vc kc mc S).

  Lemma C_nrows : nrows C = nr. Proof. apply tab2_nrows. Qed.
  Lemma C_ncols : 0 < nr -> ncols C = nc. Proof. apply tab2_ncols. Qed.

  (* the cell's statistic is a function of the four respondent counts *)
  Theorem z_cell_survey i j : i < nr -> j < nc ->
    z_zabs (mnth C i j) (mnth RB i j) (mnth CB i j) (mnth TB i j)
    =x= z_zabs (Fin (wc i j)) (Fin (wr i j)) (Fin (wk i j)) (Fin (wt i j)).
  Proof.
    intros Hi Hj.
    rewrite (t_counts_cell S tv vr kr mr vc kc mc k Ht Hr Hc Hk i j Hi Hj),
            (t_rb_cell S tv vr kr mr vc kc mc k Ht Hr Hc Hk i j Hi Hj),
            (t_cb_cell S tv vr kr mr vc kc mc k Ht Hr Hc Hk i j Hi Hj),
            (t_tb_cell S tv vr kr mr vc kc mc k Ht Hr Hc Hk i j Hi Hj). reflexivity.
  Qed.

  (* in a non-defective table that passes the all-equal guards, the block cell is that value *)
  Lemma s_zscores_cell i j :
    defective C = false -> mall_eq TB RB = false -> mall_eq TB CB = false ->
    i < nr -> j < nc ->
    mnth s_zscores i j = z_zabs (mnth C i j) (mnth RB i j) (mnth CB i j) (mnth TB i j).
  Proof.
    intros Hd G1 G2 Hi Hj. unfold s_zscores. apply zscores_block_cell; try assumption.
    - rewrite C_nrows. exact Hi.
    - rewrite (C_ncols (Nat.le_lt_trans _ _ _ (Nat.le_0_l i) Hi)). exact Hj.
  Qed.

  (* ---- z_formula at the survey level -------------------------------------------------- *)
  Theorem z_formula_survey i j :
    defective C = false -> mall_eq TB RB = false -> mall_eq TB CB = false ->
    i < nr -> j < nc ->
    (0 < wr i j)%Q -> (wr i j < wt i j)%Q -> (0 < wk i j)%Q -> (wk i j < wt i j)%Q ->
    let e := (wr i j * wk i j / wt i j)%Q in
    mnth s_zscores i j =x=
    Fin ((wc i j - e) * Qabs (wc i j - e) / (e * (1 - wr i j / wt i j) * (1 - wk i j / wt i j)))%Q.
  Proof.
    intros Hd G1 G2 Hi Hj P1 P2 P3 P4 e.
    rewrite (s_zscores_cell i j Hd G1 G2 Hi Hj), (z_cell_survey i j Hi Hj).
    apply z_formula; assumption.
  Qed.

  Theorem z_sign_survey i j :
    defective C = false -> mall_eq TB RB = false -> mall_eq TB CB = false ->
    i < nr -> j < nc ->
    (0 < wr i j)%Q -> (wr i j < wt i j)%Q -> (0 < wk i j)%Q -> (wk i j < wt i j)%Q ->
    let e := (wr i j * wk i j / wt i j)%Q in
    exists z2, mnth s_zscores i j = Fin z2 /\
      ((0 < z2)%Q <-> (e < wc i j)%Q) /\ ((z2 < 0)%Q <-> (wc i j < e)%Q) /\ ((z2 == 0)%Q <-> (wc i j == e)%Q).
  Proof.
    intros Hd G1 G2 Hi Hj P1 P2 P3 P4 e.
    destruct (z_sign (wc i j) (wr i j) (wk i j) (wt i j) P1 P2 P3 P4) as [z2 [E [Hp [Hn Hz]]]].
    pose proof (z_cell_survey i j Hi Hj) as Hx. rewrite E in Hx.
    rewrite (s_zscores_cell i j Hd G1 G2 Hi Hj).
    destruct (z_zabs (mnth C i j) (mnth RB i j) (mnth CB i j) (mnth TB i j)) as [z| |];
      simpl in Hx; try contradiction.
    exists z. split; [reflexivity|]. fold e in Hp, Hn, Hz. rewrite Hx. repeat split; tauto.
  Qed.

  (* ---- the strict hypotheses are exactly "not on the boundary": derived from the survey -- *)
  Hypothesis Hwf : wf_survey S.

  Theorem z_interior_or_boundary i j :
    ((0 < wr i j)%Q /\ (wr i j < wt i j)%Q /\ (0 < wk i j)%Q /\ (wk i j < wt i j)%Q)
    \/ (wr i j == 0)%Q \/ (wr i j == wt i j)%Q \/ (wk i j == 0)%Q \/ (wk i j == wt i j)%Q.
  Proof.
    pose proof (w_rowbase_nonneg S tv k vr kr mr vc kc mc Hwf i j) as R0.
    pose proof (w_colbase_nonneg S tv k vr kr mr vc kc mc Hwf i j) as K0.
    pose proof (w_rowbase_le_tabbase S tv k vr kr mr vc kc mc Hwf i j) as R1.
    pose proof (w_colbase_le_tabbase S tv k vr kr mr vc kc mc Hwf i j) as K1.
    destruct (Qlt_le_dec 0 (wr i j)) as [A|A]; [|right; left; lra].
    destruct (Qlt_le_dec (wr i j) (wt i j)) as [B|B]; [|right; right; left; lra].
    destruct (Qlt_le_dec 0 (wk i j)) as [A'|A']; [|right; right; right; left; lra].
    destruct (Qlt_le_dec (wk i j) (wt i j)) as [B'|B']; [|right; right; right; right; lra].
    left. tauto.
  Qed.

  (* the code's variance r k (t-r)(t-k)/t^3 is never negative on a survey: the only NaN that
     np.sqrt could produce does not occur *)
  Theorem z_variance_nonneg i j : ~ (wt i j == 0)%Q -> (0 <= qvar (wr i j) (wk i j) (wt i j))%Q.
  Proof.
    intros Hnz.
    pose proof (w_rowbase_nonneg S tv k vr kr mr vc kc mc Hwf i j) as R0.
    pose proof (w_colbase_nonneg S tv k vr kr mr vc kc mc Hwf i j) as K0.
    pose proof (w_rowbase_le_tabbase S tv k vr kr mr vc kc mc Hwf i j) as R1.
    pose proof (w_colbase_le_tabbase S tv k vr kr mr vc kc mc Hwf i j) as K1.
    pose proof (w_tabbase_nonneg S tv k vr kr mr vc kc mc Hwf i j) as T0.
    assert (Tp : (0 < wt i j)%Q).
    { destruct (Qlt_le_dec 0 (wt i j)) as [L|L]; auto. exfalso. apply Hnz. apply Qle_antisym; assumption. }
    unfold qvar. apply Qle_shift_div_l.
    - repeat apply Qmult_lt_0_compat; assumption.
    - rewrite Qmult_0_l. repeat apply Qmult_le_0_compat; try assumption; lra.
  Qed.
End Analysis.

(* ------------------------------------------------------------------------------------ *)
(** * 2 x 2 categorical tables: z^2 is Pearson's chi-square of the four respondent counts *)

Section Chi2.
  Variable S : survey.
  Variable tv : tvar.
  Variables vr vc : nat.
  Variables mr mc : list bool.
  Variable k : nat.
  Hypothesis Ht : t_ok tv.
  Hypothesis Hk : k < t_n tv.
  Hypothesis Hnr : nval mr = 2.
  Hypothesis Hnc : nval mc = 2.
  Let Hcat : cat_or_mr KCat := or_introl eq_refl.

  Notation C := (t_counts S tv vr KCat mr vc KCat mc k).
  Notation RB := (t_rb S tv vr KCat mr vc KCat mc k).
  Notation CB := (t_cb S tv vr KCat mr vc KCat mc k).
  Notation TB := (t_tb S tv vr KCat mr vc KCat mc k).
  Notation wc := (w_cell tv k vr KCat mr vc KCat mc S).
  Notation wr := (w_rowbase tv k vr KCat mr vc KCat mc S).
  Notation wk := (w_colbase tv k vr KCat mr vc KCat mc S).
  Notation wt := (w_tabbase tv k vr KCat mr vc KCat mc S).

  (* the four cells *)
  Let a := wc 0 0.
  Let b := wc 0 1.
  Let c := wc 1 0.
  Let d := wc 1 1.

  Lemma chi_rowbase i j : (wr i j == wc i 0 + wc i 1)%Q.
  Proof.
    rewrite <- (cells_sum_to_rowbase S tv k vr KCat mr vc mc i j). rewrite Hnc.
    rewrite qsumn_2. ring.
  Qed.
  Lemma chi_colbase i j : (wk i j == wc 0 j + wc 1 j)%Q.
  Proof.
    rewrite <- (cells_sum_to_colbase S tv k vr mr vc KCat mc i j). rewrite Hnr.
    rewrite qsumn_2. ring.
  Qed.
  Lemma chi_tabbase i j : (wt i j == a + b + c + d)%Q.
  Proof.
    rewrite <- (cells_sum_to_tabbase S tv k vr vc mr mc i j). rewrite Hnr, Hnc.
    rewrite qsumn_2. rewrite !qsumn_2. unfold a, b, c, d. ring.
  Qed.

  Definition chi2_of (a b c d : Q) : Q :=
    ((a + b + c + d) * ((a * d - b * c) * (a * d - b * c)) / ((a + b) * (c + d) * (a + c) * (b + d)))%Q.

  Hypothesis M1 : (0 < a + b)%Q.
  Hypothesis M2 : (0 < c + d)%Q.
  Hypothesis M3 : (0 < a + c)%Q.
  Hypothesis M4 : (0 < b + d)%Q.

  Lemma lt2_cases i : i < 2 -> i = 0 \/ i = 1.
  Proof. lia. Qed.

  (* z^2 of every cell, from the model's own count and base blocks of the tabulated survey *)
  Theorem chi2_cell_survey i j : i < 2 -> j < 2 ->
    z_sq (mnth C i j) (mnth RB i j) (mnth CB i j) (mnth TB i j) =x= Fin (chi2_of a b c d).
  Proof.
    intros Hi Hj.
    assert (Hi' : i < nval mr) by (rewrite Hnr; exact Hi).
    assert (Hj' : j < nval mc) by (rewrite Hnc; exact Hj).
    rewrite (t_counts_cell S tv vr KCat mr vc KCat mc k Ht Hcat Hcat Hk i j Hi' Hj'),
            (t_rb_cell S tv vr KCat mr vc KCat mc k Ht Hcat Hcat Hk i j Hi' Hj'),
            (t_cb_cell S tv vr KCat mr vc KCat mc k Ht Hcat Hcat Hk i j Hi' Hj'),
            (t_tb_cell S tv vr KCat mr vc KCat mc k Ht Hcat Hcat Hk i j Hi' Hj').
    assert (Er : Fin (wr i j) =x= Fin (wc i 0 + wc i 1)) by (simpl; apply chi_rowbase).
    assert (Ek : Fin (wk i j) =x= Fin (wc 0 j + wc 1 j)) by (simpl; apply chi_colbase).
    assert (Et : Fin (wt i j) =x= Fin (a + b + c + d)) by (simpl; apply chi_tabbase).
    rewrite Er, Ek, Et.
    destruct (z_2x2_chi2 a b c d M1 M2 M3 M4) as [Z00 [Z01 [Z10 Z11]]].
    destruct (lt2_cases i Hi) as [-> | ->], (lt2_cases j Hj) as [-> | ->]; fold a b c d.
    - exact Z00.
    - exact Z01.
    - exact Z10.
    - exact Z11.
  Qed.

  (* the guards of the code hold on such a table ... *)
  Lemma chi_nrows (M : mat) f : M = tab2 (nval mr) (nval mc) f -> nrows M = 2 /\ ncols M = 2.
  Proof.
    intros ->. split; [rewrite tab2_nrows; exact Hnr|]. rewrite tab2_ncols by lia. exact Hnc.
  Qed.

  Lemma chi_guard_rows : mall_eq TB RB = false.
  Proof.
    destruct (mall_eq TB RB) eqn:E; [|reflexivity]. exfalso.
    destruct (chi_nrows TB _ eq_refl) as [N1 N2].
    pose proof (proj1 (mall_eq_true TB RB) E 0 0) as H. rewrite N1, N2 in H.
    specialize (H ltac:(lia) ltac:(lia)).
    assert (H0 : 0 < nval mr) by lia. assert (H0' : 0 < nval mc) by lia.
    rewrite (xeqb_fin_neq _ _ (wt 0 0) (wr 0 0)
               (t_tb_cell S tv vr KCat mr vc KCat mc k Ht Hcat Hcat Hk 0 0 H0 H0')
               (t_rb_cell S tv vr KCat mr vc KCat mc k Ht Hcat Hcat Hk 0 0 H0 H0')) in H; [discriminate|].
    rewrite chi_tabbase, chi_rowbase. fold a b. lra.
  Qed.
  Lemma chi_guard_cols : mall_eq TB CB = false.
  Proof.
    destruct (mall_eq TB CB) eqn:E; [|reflexivity]. exfalso.
    destruct (chi_nrows TB _ eq_refl) as [N1 N2].
    pose proof (proj1 (mall_eq_true TB CB) E 0 0) as H. rewrite N1, N2 in H.
    specialize (H ltac:(lia) ltac:(lia)).
    assert (H0 : 0 < nval mr) by lia. assert (H0' : 0 < nval mc) by lia.
    rewrite (xeqb_fin_neq _ _ (wt 0 0) (wk 0 0)
               (t_tb_cell S tv vr KCat mr vc KCat mc k Ht Hcat Hcat Hk 0 0 H0 H0')
               (t_cb_cell S tv vr KCat mr vc KCat mc k Ht Hcat Hcat Hk 0 0 H0 H0')) in H; [discriminate|].
    rewrite chi_tabbase, chi_colbase. fold a c. lra.
  Qed.

  (* ... and the table is defective exactly when ad = bc *)
  Lemma chi_minor : minor C 0 1 0 1 =x= Fin (a * d - b * c).
  Proof.
    unfold minor.
    assert (H0 : 0 < nval mr) by lia. assert (H1 : 1 < nval mr) by lia.
    assert (H0' : 0 < nval mc) by lia. assert (H1' : 1 < nval mc) by lia.
    rewrite (t_counts_cell S tv vr KCat mr vc KCat mc k Ht Hcat Hcat Hk 0 0 H0 H0'),
            (t_counts_cell S tv vr KCat mr vc KCat mc k Ht Hcat Hcat Hk 1 1 H1 H1'),
            (t_counts_cell S tv vr KCat mr vc KCat mc k Ht Hcat Hcat Hk 0 1 H0 H1'),
            (t_counts_cell S tv vr KCat mr vc KCat mc k Ht Hcat Hcat Hk 1 0 H1 H0').
    fold a b c d. simpl. ring.
  Qed.

  Lemma chi_not_defective : ~ (a * d == b * c)%Q -> defective C = false.
  Proof.
    intros Hn. destruct (defective C) eqn:E; [|reflexivity]. exfalso.
    destruct (chi_nrows C _ eq_refl) as [N1 N2].
    unfold defective in E. rewrite N1, N2 in E. simpl in E.
    unfold rank_lt2 in E. rewrite N1, N2 in E.
    rewrite forallb_forall in E. specialize (E 0 ltac:(simpl; auto)).
    rewrite forallb_forall in E. specialize (E 1 ltac:(simpl; auto)).
    rewrite forallb_forall in E. specialize (E 0 ltac:(simpl; auto)).
    rewrite forallb_forall in E. specialize (E 1 ltac:(simpl; auto)).
    apply (xeqb_fin_true _ _ _ chi_minor) in E. apply Hn. lra.
  Qed.

  (* chi-square on the model's z-score block: every cell, hypotheses on respondents only *)
  Theorem chi2_block_survey i j : i < 2 -> j < 2 -> ~ (a * d == b * c)%Q ->
    xabs (mnth (s_zscores S tv vr KCat mr vc KCat mc k) i j) =x= Fin (chi2_of a b c d).
  Proof.
    intros Hi Hj Hn.
    assert (Hi' : i < nval mr) by (rewrite Hnr; exact Hi).
    assert (Hj' : j < nval mc) by (rewrite Hnc; exact Hj).
    rewrite (s_zscores_cell S tv vr KCat mr vc KCat mc k i j (chi_not_defective Hn)
               chi_guard_rows chi_guard_cols Hi' Hj').
    apply (chi2_cell_survey i j Hi Hj).
  Qed.

  (* independence in the sample (ad = bc): the code reports NaN everywhere, chi-square is 0 *)
  Theorem chi2_degenerate_survey i j : i < 2 -> j < 2 -> (a * d == b * c)%Q ->
    mnth (s_zscores S tv vr KCat mr vc KCat mc k) i j = NaN /\ (chi2_of a b c d == 0)%Q.
  Proof.
    intros Hi Hj He. split.
    - unfold s_zscores. destruct (chi_nrows C _ eq_refl) as [N1 N2].
      apply zscores_block_defective; [| rewrite N1; exact Hi | rewrite N2; exact Hj].
      unfold defective. rewrite N1, N2. simpl. unfold rank_lt2. rewrite N1, N2.
      assert (Hm : forall i i' j j', i < 2 -> i' < 2 -> j < 2 -> j' < 2 ->
                xeqb (minor C i i' j j') (Fin 0) = true).
      { intros p p' q q' Hp Hp' Hq Hq'. unfold minor.
        assert (L : forall u v, u < 2 -> v < 2 -> mnth C u v =x= Fin (wc u v)).
        { intros u v Hu Hv. apply (t_counts_cell S tv vr KCat mr vc KCat mc k Ht Hcat Hcat Hk u v);
            [rewrite Hnr| rewrite Hnc]; assumption. }
        apply (xeqb_fin_eq _ (wc p q * wc p' q' - wc p q' * wc p' q)%Q).
        - rewrite (L p q Hp Hq), (L p' q' Hp' Hq'), (L p q' Hp Hq'), (L p' q Hp' Hq). simpl. ring.
        - destruct (lt2_cases p Hp) as [-> | ->], (lt2_cases p' Hp') as [-> | ->],
                   (lt2_cases q Hq) as [-> | ->], (lt2_cases q' Hq') as [-> | ->];
            fold a b c d; lra. }
      apply forallb_forall. intros p Hp. apply in_seq in Hp.
      apply forallb_forall. intros p' Hp'. apply in_seq in Hp'.
      apply forallb_forall. intros q Hq. apply in_seq in Hq.
      apply forallb_forall. intros q' Hq'. apply in_seq in Hq'.
      apply Hm; lia.
    - unfold chi2_of. setoid_replace (a * d - b * c)%Q with 0%Q by lra. unfold Qdiv. ring.
  Qed.
End Chi2.
