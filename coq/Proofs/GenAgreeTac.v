(* Proofs/GenAgreeTac.v -- the GenAgree tie (DESIGN 2.4 (a)): environments, statement shapes and
   the generic tactic.  The lemmas are in GenAgreeCounts.v (C01), GenAgreeBases.v (C02),
   GenAgreeBaseline.v (C16), GenAgreePruning.v (C09), GenAgreeTables.v -- one file per property so
   that a change of meaning in the source breaks the obligations of the property it concerns.


   Gen/CubeCountsSrc.v, Gen/StripeCountsSrc.v, Gen/Tables.v are REWRITTEN FROM THE SOURCE on
   every check by harness/translate/translate.py: one [option texp] per (class, method) of
   matrix/cubemeasure.py and stripe/cubemeasure.py, inheritance flattened.  This file proves,
   for every (class, method) that has a canonical definition in Model/CubeCounts.v, that the
   meaning ([Base/Tensor.v : teval]) of what the source says is that canonical definition:
   for ALL tensors, ALL sizes, every in-range cell, with the result shape.  Statement shape

       match src_<Class>_<method> with
       | Some e => forall V sizes, agrees<rank> (teval <env> e) <sizes> <canonical definition>
       | None => True                       (translator could not read it: correspondence only)
       end

   all proved by the ONE tactic [gen_agree] (evaluate [teval] symbolically, normalise the
   dimension tests, compare nested sums up to exchange of the order of summation).  A change
   of meaning in the source (other plane, other axis, other margin, a dropped [:, None]) makes
   the corresponding lemma fail => `make Props/C0x.vo` fails => the check reports a broken
   obligation and searches for a failing input through the correspondence.

   The dispatch lemmas ([gen_dispatch_*]) go through the factory's own dict / conditional chain
   as read from the source, so "which class handles which pair" is part of the statement. *)
From Coq Require Import QArith ZArith List Bool Lia Arith String.
From CC Require Import Base.XQ Base.ListX Base.Tensor Model.CubeCounts
     Gen.CubeCountsSrc Gen.StripeCountsSrc Gen.Tables.
Import ListNotations.
Local Close Scope Q_scope.
Local Open Scope string_scope.
Local Open Scope nat_scope.

(* ------------------------------------------------------------------------------------ *)
(** * environments *)

(* one attribute [name] holding the tensor V of shape shp; d |-> valid offsets of _dimensions[-d] *)
Definition env1 (name : string) (shp : list nat) (V : tensor) (vr vc : list nat) : tenv :=
  mkEnv (fun s => if String.eqb s name then TVal shp V else TErr)
        (fun d => match d with 2 => vr | 1 => vc | _ => [] end).
Definition envC shp V := env1 "_counts" shp V [] [].
Definition envW := env1 "_counts_with_missings".

(* the shape of [self._counts] handed to the class of a (rows, columns) pair *)
Definition shape_of (rc cc : cls) (nr nc sr sc : nat) : list nat :=
  match rc, cc with
  | CMr, CMr => [nr; sr; nc; sc]
  | CMr, _ => [nr; sr; nc]
  | _, CMr => [nr; nc; sc]
  | _, _ => [nr; nc]
  end.
Definition shape_mr (rmr cmr : bool) (nr nc sr sc : nat) : list nat :=
  match rmr, cmr with
  | true, true => [nr; sr; nc; sc]
  | true, false => [nr; sr; nc]
  | false, true => [nr; nc; sc]
  | false, false => [nr; nc]
  end.

Definition agrees_opt1 (r : tres) (n : nat) (o : option (nat -> xq)) : Prop :=
  match o with Some g => agrees1 r n g | None => agrees_none r end.
Definition agrees_opt0 (r : tres) (o : option xq) : Prop :=
  match o with Some g => agrees0 r g | None => agrees_none r end.

Lemma xsumn_N : xsumn = xsumN.
Proof. reflexivity. Qed.

(* ------------------------------------------------------------------------------------ *)
(** * the generic tactic *)

Ltac red_teval :=
  cbv -[xsumN xsumn xdiv xeq xsum map nth List.length Nat.min Nat.sub Nat.eqb bidx bdim bok
        lt is_zero xeqb andb orb];
  cbn [andb orb].

Ltac norm_dims :=
  rewrite ?Nat.eqb_refl, ?bok_same, ?bok_1_r, ?bok_1_l, ?bdim_same, ?bdim_1_r, ?bdim_1_l,
          ?orb_true_r, ?orb_true_l, ?andb_true_r, ?andb_true_l.

(* equality of nested sums / quotients of nested sums up to the order of summation *)
Ltac sum_eq :=
  first
    [ reflexivity
    | apply xdiv_Proper; sum_eq
    | apply xsumN_ext; intros; sum_eq
    | etransitivity; [apply xsumN_swap|]; apply xsumN_ext; intros; sum_eq
    | etransitivity; [apply xsumN_ext; intros; apply xsumN_swap|];
      etransitivity; [apply xsumN_swap|]; apply xsumN_ext; intros; sum_eq ].

Ltac gen_agree :=
  lazymatch goal with
  | |- match ?s with Some _ => _ | None => _ end => unfold s
  end;
  lazymatch goal with
  | |- True => exact I
  | _ =>
      intros; rewrite ?xsumn_N;
      repeat (progress (red_teval; norm_dims));
      lazymatch goal with
      | |- _ = _ => reflexivity
      | |- _ /\ _ =>
          split; [reflexivity|];
          intros; rewrite ?xsum_map_nth, ?bidx_1; rewrite ?bidx_lt by assumption;
          red_teval; sum_eq
      end
  end.

(* ------------------------------------------------------------------------------------ *)
(** * the factory dispatch, as read from the source *)

(* the method [m] of class [c] in the generated table satisfies P ([None]: unavailable; a
   class or method MISSING from the table is a failure, not a pass) *)
Definition meth (tbl : list (string * list (string * option texp))) (c m : string)
           (P : texp -> Prop) : Prop :=
  match assoc c tbl with
  | Some ms => match assoc m ms with
               | Some (Some e) => P e
               | Some None => True
               | None => False
               end
  | None => False
  end.

Definition tag (c : cls) : string :=
  match c with CMr => "MR" | CArr => "ARR" | CCat => "CAT" end.

Ltac dispatch_red :=
  cbv [meth assoc dict_pick cond_pick dcond_holds String.eqb Ascii.eqb Bool.eqb fst snd andb tag
       src_methods ssrc_methods].

Ltac dispatch9 D l1 l2 l3 l4 l5 l6 l7 l8 l9 :=
  unfold D;
  lazymatch goal with
  | |- True => exact I
  | _ => intros rc cc; destruct rc, cc; dispatch_red;
         first [exact l1 | exact l2 | exact l3 | exact l4 | exact l5 | exact l6 | exact l7
               | exact l8 | exact l9]
  end.

(* pass-through and baseline dispatch: the conditional chain on MR-ness *)
Ltac dispatch4 D l1 l2 l3 l4 :=
  unfold D;
  lazymatch goal with
  | |- True => exact I
  | _ => intros rmr cmr; destruct rmr, cmr; dispatch_red;
         first [exact l1 | exact l2 | exact l3 | exact l4]
  end.

Definition envS shp V := env1 "_counts" shp V [] [].


(* the type strings: "MR" / "ARR" / "CAT" of a dimension type, against [cls_of] *)
Definition dt_name (k : dkind) : string :=
  match k with
  | DCat => "CAT" | DMrSubvar => "MR_SUBVAR" | DMrCat => "MR_CAT"
  | DCaSubvar => "CA_SUBVAR" | DNumArr => "NUM_ARRAY"
  end.
(* every dimension type whose cube-measure class is "CAT": what [DCat] stands for *)
Definition cat_like : list string :=
  ["CAT"; "CAT_DATE"; "LOGICAL"; "CA_CAT"; "DATETIME"; "TEXT"; "BINNED_NUMERIC"].

(* what the factories hand to the constructors: the measure's array cut by _slice_idx_expr *)
Definition binds_to (b : option (list (string * fsrc))) (attr : string) (x : fsrc) : Prop :=
  match b with Some l => assoc attr l = Some x | None => True end.

(* the stripe factory: which class, and whether counts is cut with [slice_idx].
   [strand_counts] uses class CCat and the cut tensor iff ca_as_0th, else [cls_of] of the rows
   dimension and the whole tensor.  (A CA-subvariable rows dimension occurs in a strand only
   as "CA as 0th".) *)
Definition stcond_holds (ca0 : bool) (k : dkind) (c : stcond) : bool :=
  match c with
  | StCaAs0th => ca0
  | StDimIs m => match assoc m (match tbl_DT_members with Some l => l | None => [] end) with
                 | Some n => String.eqb (dt_name k) n
                 | None => false
                 end
  end.
Fixpoint stripe_pick (ca0 : bool) (k : dkind) (rs : list (stcond * (string * bool)))
         (dflt : string * bool) : string * bool :=
  match rs with
  | [] => dflt
  | (c, x) :: r => if stcond_holds ca0 k c then x else stripe_pick ca0 k r dflt
  end.
Definition stripe_class_name (c : cls) : string :=
  match c with CCat => "_CatCubeCounts" | CMr => "_MrCubeCounts" | CArr => "_NumArrCubeCounts" end.

