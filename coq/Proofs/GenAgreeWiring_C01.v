(* GOLDEN obligations of the wiring translator for C01 (generated ONCE by tools/gen_wiring_props.py,
   then committed): what each public member of cubepart.py that C01 relies on IS, as a term of
   Base/WiringExp.v.  Gen/WiringSrc.v is regenerated from /repo on every check; an edit of the
   public layer that changes one of these members breaks the lemma below (reflexivity). *)
From Coq Require Import List ZArith String.
From CC Require Import Base.WiringExp Gen.WiringSrc.
Import ListNotations.
Local Open Scope string_scope.

(* CubePartition.ndim *)
Lemma gen_wiring_CubePartition_ndim :
  wsrc_CubePartition_ndim = Some (WCall (WGlobal "len") [WSelf "_dimensions"] []).
Proof. reflexivity. Qed.

(* CubePartition.shape *)
Lemma gen_wiring_CubePartition_shape :
  wsrc_CubePartition_shape = Some (WRaise "NotImplementedError").
Proof. reflexivity. Qed.

(* CubePartition._available_measures *)
Lemma gen_wiring_CubePartition__available_measures :
  wsrc_CubePartition__available_measures = Some (WCall (WGlobal "sorted") [WCall (WGlobal "list")
      [WAttr (WSelf "_cube") "available_measures"] []] [("key", WLambda ["el"] (WAttr (WVar "el")
      "name"))]).
Proof. reflexivity. Qed.

(* CubePartition._default_contents *)
Lemma gen_wiring_CubePartition__default_contents :
  wsrc_CubePartition__default_contents = Some (WCall (WGlobal "getattr") [WVar "self"; WIndex (WDict
      [(WAttr (WGlobal "CM") "COUNT", WStr "counts"); (WAttr (WGlobal "CM") "MEAN", WStr "means");
      (WAttr (WGlobal "CM") "SUM", WStr "sums")]) [WIndex (WSelf "_available_measures") [WInt
      (0)%Z]]] []).
Proof. reflexivity. Qed.

(* _Slice.counts *)
Lemma gen_wiring_Slice_counts :
  wsrc_Slice_counts = Some (w_matrix_of "weighted_counts").
Proof. reflexivity. Qed.

(* _Slice.is_empty *)
Lemma gen_wiring_Slice_is_empty :
  wsrc_Slice_is_empty = Some (WCall (WGlobal "any") [WComp "gen" (WCmp "==" (WVar "s") (WInt (0)%Z))
      [(["s"], WSelf "shape", [])]] []).
Proof. reflexivity. Qed.

(* _Slice.means *)
Lemma gen_wiring_Slice_means :
  wsrc_Slice_means = Some (WTryValueError (w_matrix_of "means") "").
Proof. reflexivity. Qed.

(* _Slice.medians *)
Lemma gen_wiring_Slice_medians :
  wsrc_Slice_medians = Some (WTryValueError (w_matrix_of "medians") "").
Proof. reflexivity. Qed.

(* _Slice.shape *)
Lemma gen_wiring_Slice_shape :
  wsrc_Slice_shape = Some (WAttr (WSelf "counts") "shape").
Proof. reflexivity. Qed.

(* _Slice.stddev *)
Lemma gen_wiring_Slice_stddev :
  wsrc_Slice_stddev = Some (WTryValueError (w_matrix_of "stddev") "").
Proof. reflexivity. Qed.

(* _Slice.sums *)
Lemma gen_wiring_Slice_sums :
  wsrc_Slice_sums = Some (WTryValueError (w_matrix_of "sums") "").
Proof. reflexivity. Qed.

(* _Slice.unweighted_counts *)
Lemma gen_wiring_Slice_unweighted_counts :
  wsrc_Slice_unweighted_counts = Some (w_matrix_of "unweighted_counts").
Proof. reflexivity. Qed.

(* _Strand.weighted_counts *)
Lemma gen_wiring_Strand_weighted_counts :
  wsrc_Strand_weighted_counts = Some (w_vector_of "weighted_counts").
Proof. reflexivity. Qed.

(* _Strand.is_empty *)
Lemma gen_wiring_Strand_is_empty :
  wsrc_Strand_is_empty = Some (WCall (WGlobal "any") [WComp "gen" (WCmp "==" (WVar "s") (WInt (0)%Z))
      [(["s"], WSelf "shape", [])]] []).
Proof. reflexivity. Qed.

(* _Strand.means *)
Lemma gen_wiring_Strand_means :
  wsrc_Strand_means = Some (WTryValueError (w_vector_of "means") "").
Proof. reflexivity. Qed.

(* _Strand.medians *)
Lemma gen_wiring_Strand_medians :
  wsrc_Strand_medians = Some (WTryValueError (w_vector_of "medians") "").
Proof. reflexivity. Qed.

(* _Strand.shape *)
Lemma gen_wiring_Strand_shape :
  wsrc_Strand_shape = Some (WTuple [WSelf "row_count"]).
Proof. reflexivity. Qed.

(* _Strand.stddev *)
Lemma gen_wiring_Strand_stddev :
  wsrc_Strand_stddev = Some (WTryValueError (w_vector_of "stddev") "").
Proof. reflexivity. Qed.

(* _Strand.sums *)
Lemma gen_wiring_Strand_sums :
  wsrc_Strand_sums = Some (WTryValueError (w_vector_of "sums") "").
Proof. reflexivity. Qed.

(* _Strand.unweighted_counts *)
Lemma gen_wiring_Strand_unweighted_counts :
  wsrc_Strand_unweighted_counts = Some (w_vector_of "unweighted_counts").
Proof. reflexivity. Qed.

(* _Nub.is_empty *)
Lemma gen_wiring_Nub_is_empty :
  wsrc_Nub_is_empty = Some (WIf (WCmp "<=" (WSelf "unweighted_count") (WInt (0)%Z)) (WTrue) (WCall
      (WAttr (WGlobal "math") "isnan") [WSelf "unweighted_count"] [])).
Proof. reflexivity. Qed.

(* _Nub.means *)
Lemma gen_wiring_Nub_means :
  wsrc_Nub_means = Some (WAttr (WSelf "_scalar") "means").
Proof. reflexivity. Qed.

(* _Nub.unweighted_count *)
Lemma gen_wiring_Nub_unweighted_count :
  wsrc_Nub_unweighted_count = Some (WAttr (WSelf "_cube") "unweighted_counts").
Proof. reflexivity. Qed.

(* _Nub._scalar *)
Lemma gen_wiring_Nub__scalar :
  wsrc_Nub__scalar = Some (WCall (WGlobal "MeansScalar") [WAttr (WSelf "_cube") "means"; WAttr (WSelf
      "_cube") "unweighted_counts"] []).
Proof. reflexivity. Qed.

(* SecondOrderMeasures.means *)
Lemma gen_wiring_SecondOrderMeasures_means :
  wsrc_SecondOrderMeasures_means = Some (WCall (WGlobal "_Means") [WSelf "_dimensions"; WVar "self";
      WSelf "_cube_measures"] []).
Proof. reflexivity. Qed.

(* SecondOrderMeasures.medians *)
Lemma gen_wiring_SecondOrderMeasures_medians :
  wsrc_SecondOrderMeasures_medians = Some (WCall (WGlobal "_Medians") [WSelf "_dimensions"; WVar
      "self"; WSelf "_cube_measures"] []).
Proof. reflexivity. Qed.

(* SecondOrderMeasures.sums *)
Lemma gen_wiring_SecondOrderMeasures_sums :
  wsrc_SecondOrderMeasures_sums = Some (WCall (WGlobal "_Sums") [WSelf "_dimensions"; WVar "self";
      WSelf "_cube_measures"] []).
Proof. reflexivity. Qed.

(* SecondOrderMeasures.stddev *)
Lemma gen_wiring_SecondOrderMeasures_stddev :
  wsrc_SecondOrderMeasures_stddev = Some (WCall (WGlobal "_StdDev") [WSelf "_dimensions"; WVar "self";
      WSelf "_cube_measures"] []).
Proof. reflexivity. Qed.

(* SecondOrderMeasures.unweighted_counts *)
Lemma gen_wiring_SecondOrderMeasures_unweighted_counts :
  wsrc_SecondOrderMeasures_unweighted_counts = Some (WCall (WGlobal "_UnweightedCounts") [WSelf
      "_dimensions"; WVar "self"; WSelf "_cube_measures"] []).
Proof. reflexivity. Qed.

(* SecondOrderMeasures.weighted_counts *)
Lemma gen_wiring_SecondOrderMeasures_weighted_counts :
  wsrc_SecondOrderMeasures_weighted_counts = Some (WCall (WGlobal "_WeightedCounts") [WSelf
      "_dimensions"; WVar "self"; WSelf "_cube_measures"] []).
Proof. reflexivity. Qed.

(* BaseSecondOrderMeasure._unweighted_cube_counts *)
Lemma gen_wiring_BaseSecondOrderMeasure__unweighted_cube_counts :
  wsrc_BaseSecondOrderMeasure__unweighted_cube_counts = Some (WAttr (WSelf "_cube_measures")
      "unweighted_cube_counts").
Proof. reflexivity. Qed.

(* BaseSecondOrderMeasure._weighted_cube_counts *)
Lemma gen_wiring_BaseSecondOrderMeasure__weighted_cube_counts :
  wsrc_BaseSecondOrderMeasure__weighted_cube_counts = Some (WAttr (WSelf "_cube_measures")
      "weighted_cube_counts").
Proof. reflexivity. Qed.

(* MatrixCubeMeasures.cube_means *)
Lemma gen_wiring_MatrixCubeMeasures_cube_means :
  wsrc_MatrixCubeMeasures_cube_means = Some (WCall (WAttr (WGlobal "_BaseCubeMeans") "factory") [WSelf
      "_cube"; WSelf "_dimensions"; WSelf "_slice_idx"] []).
Proof. reflexivity. Qed.

(* MatrixCubeMeasures.cube_medians *)
Lemma gen_wiring_MatrixCubeMeasures_cube_medians :
  wsrc_MatrixCubeMeasures_cube_medians = Some (WCall (WAttr (WGlobal "_BaseCubeMedians") "factory")
      [WSelf "_cube"; WSelf "_dimensions"; WSelf "_slice_idx"] []).
Proof. reflexivity. Qed.

(* MatrixCubeMeasures.cube_sum *)
Lemma gen_wiring_MatrixCubeMeasures_cube_sum :
  wsrc_MatrixCubeMeasures_cube_sum = Some (WCall (WAttr (WGlobal "_BaseCubeSums") "factory") [WSelf
      "_cube"; WSelf "_dimensions"; WSelf "_slice_idx"] []).
Proof. reflexivity. Qed.

(* MatrixCubeMeasures.cube_stddev *)
Lemma gen_wiring_MatrixCubeMeasures_cube_stddev :
  wsrc_MatrixCubeMeasures_cube_stddev = Some (WCall (WAttr (WGlobal "_BaseCubeStdDev") "factory")
      [WSelf "_cube"; WSelf "_dimensions"; WSelf "_slice_idx"] []).
Proof. reflexivity. Qed.

(* MatrixCubeMeasures.unweighted_cube_counts *)
Lemma gen_wiring_MatrixCubeMeasures_unweighted_cube_counts :
  wsrc_MatrixCubeMeasures_unweighted_cube_counts = Some (WCall (WAttr (WGlobal "_BaseCubeCounts")
      "factory") [WIf (WCmp "is not" (WAttr (WSelf "_cube") "unweighted_valid_counts") (WNone))
      (WAttr (WSelf "_cube") "unweighted_valid_counts") (WAttr (WSelf "_cube") "unweighted_counts");
      WIf (WCmp "is not" (WAttr (WSelf "_cube") "unweighted_valid_counts") (WNone)) (WTrue)
      (WFalse); WSelf "_cube"; WSelf "_dimensions"; WSelf "_slice_idx"] []).
Proof. reflexivity. Qed.

(* MatrixCubeMeasures.weighted_cube_counts *)
Lemma gen_wiring_MatrixCubeMeasures_weighted_cube_counts :
  wsrc_MatrixCubeMeasures_weighted_cube_counts = Some (WCall (WAttr (WGlobal "_BaseCubeCounts")
      "factory") [WIf (WCmp "is not" (WAttr (WSelf "_cube") "weighted_valid_counts") (WNone)) (WAttr
      (WSelf "_cube") "weighted_valid_counts") (WAttr (WSelf "_cube") "counts"); WIf (WCmp "is not"
      (WAttr (WSelf "_cube") "weighted_valid_counts") (WNone)) (WTrue) (WFalse); WSelf "_cube";
      WSelf "_dimensions"; WSelf "_slice_idx"] []).
Proof. reflexivity. Qed.

(* StripeMeasures.means *)
Lemma gen_wiring_StripeMeasures_means :
  wsrc_StripeMeasures_means = Some (WCall (WGlobal "_Means") [WSelf "_rows_dimension"; WVar "self";
      WSelf "_cube_measures"] []).
Proof. reflexivity. Qed.

(* StripeMeasures.medians *)
Lemma gen_wiring_StripeMeasures_medians :
  wsrc_StripeMeasures_medians = Some (WCall (WGlobal "_Medians") [WSelf "_rows_dimension"; WVar
      "self"; WSelf "_cube_measures"] []).
Proof. reflexivity. Qed.

(* StripeMeasures.stddev *)
Lemma gen_wiring_StripeMeasures_stddev :
  wsrc_StripeMeasures_stddev = Some (WCall (WGlobal "_StdDev") [WSelf "_rows_dimension"; WVar "self";
      WSelf "_cube_measures"] []).
Proof. reflexivity. Qed.

(* StripeMeasures.sums *)
Lemma gen_wiring_StripeMeasures_sums :
  wsrc_StripeMeasures_sums = Some (WCall (WGlobal "_Sums") [WSelf "_rows_dimension"; WVar "self";
      WSelf "_cube_measures"] []).
Proof. reflexivity. Qed.

(* StripeMeasures.unweighted_counts *)
Lemma gen_wiring_StripeMeasures_unweighted_counts :
  wsrc_StripeMeasures_unweighted_counts = Some (WCall (WGlobal "_UnweightedCounts") [WSelf
      "_rows_dimension"; WVar "self"; WSelf "_cube_measures"] []).
Proof. reflexivity. Qed.

(* StripeMeasures.weighted_counts *)
Lemma gen_wiring_StripeMeasures_weighted_counts :
  wsrc_StripeMeasures_weighted_counts = Some (WCall (WGlobal "_WeightedCounts") [WSelf
      "_rows_dimension"; WVar "self"; WSelf "_cube_measures"] []).
Proof. reflexivity. Qed.

(* StripeBaseSecondOrderMeasure._unweighted_cube_counts *)
Lemma gen_wiring_StripeBaseSecondOrderMeasure__unweighted_cube_counts :
  wsrc_StripeBaseSecondOrderMeasure__unweighted_cube_counts = Some (WAttr (WSelf "_cube_measures")
      "unweighted_cube_counts").
Proof. reflexivity. Qed.

(* StripeBaseSecondOrderMeasure._weighted_cube_counts *)
Lemma gen_wiring_StripeBaseSecondOrderMeasure__weighted_cube_counts :
  wsrc_StripeBaseSecondOrderMeasure__weighted_cube_counts = Some (WAttr (WSelf "_cube_measures")
      "weighted_cube_counts").
Proof. reflexivity. Qed.

(* StripeCubeMeasures.cube_means *)
Lemma gen_wiring_StripeCubeMeasures_cube_means :
  wsrc_StripeCubeMeasures_cube_means = Some (WCall (WAttr (WGlobal "_BaseCubeMeans") "factory") [WSelf
      "_cube"; WSelf "_rows_dimension"] []).
Proof. reflexivity. Qed.

(* StripeCubeMeasures.cube_medians *)
Lemma gen_wiring_StripeCubeMeasures_cube_medians :
  wsrc_StripeCubeMeasures_cube_medians = Some (WCall (WAttr (WGlobal "_BaseCubeMedians") "factory")
      [WSelf "_cube"; WSelf "_rows_dimension"] []).
Proof. reflexivity. Qed.

(* StripeCubeMeasures.cube_stddev *)
Lemma gen_wiring_StripeCubeMeasures_cube_stddev :
  wsrc_StripeCubeMeasures_cube_stddev = Some (WCall (WAttr (WGlobal "_BaseCubeStdDev") "factory")
      [WSelf "_cube"; WSelf "_rows_dimension"] []).
Proof. reflexivity. Qed.

(* StripeCubeMeasures.cube_sum *)
Lemma gen_wiring_StripeCubeMeasures_cube_sum :
  wsrc_StripeCubeMeasures_cube_sum = Some (WCall (WAttr (WGlobal "_BaseCubeSums") "factory") [WSelf
      "_cube"; WSelf "_rows_dimension"] []).
Proof. reflexivity. Qed.

(* StripeCubeMeasures.unweighted_cube_counts *)
Lemma gen_wiring_StripeCubeMeasures_unweighted_cube_counts :
  wsrc_StripeCubeMeasures_unweighted_cube_counts = Some (WCall (WAttr (WGlobal "_BaseCubeCounts")
      "factory") [WIf (WCmp "is not" (WAttr (WSelf "_cube") "unweighted_valid_counts") (WNone))
      (WAttr (WSelf "_cube") "unweighted_valid_counts") (WAttr (WSelf "_cube") "unweighted_counts");
      WSelf "_rows_dimension"; WSelf "_ca_as_0th"; WSelf "_slice_idx"] []).
Proof. reflexivity. Qed.

(* StripeCubeMeasures.weighted_cube_counts *)
Lemma gen_wiring_StripeCubeMeasures_weighted_cube_counts :
  wsrc_StripeCubeMeasures_weighted_cube_counts = Some (WCall (WAttr (WGlobal "_BaseCubeCounts")
      "factory") [WIf (WCmp "is not" (WAttr (WSelf "_cube") "weighted_valid_counts") (WNone)) (WAttr
      (WSelf "_cube") "weighted_valid_counts") (WAttr (WSelf "_cube") "counts"); WSelf
      "_rows_dimension"; WSelf "_ca_as_0th"; WSelf "_slice_idx"] []).
Proof. reflexivity. Qed.
