(* GOLDEN obligations of the wiring translator for C01 (generated ONCE by tools/gen_wiring_props.py,
   then committed): what each public member of cubepart.py that C01 relies on IS, as a term of
   Base/WiringExp.v.  Gen/WiringSrc.v is regenerated from /repo on every check; an edit of the
   public layer that changes one of these members breaks the lemma below (reflexivity). *)
From Coq Require Import List ZArith String.
From CC Require Import Base.WiringExp Gen.WiringSrc.
Import ListNotations.
Local Open Scope string_scope.

(* CubePartition.ndim *)
Lemma gen_wiring_CubePartition_ndim :
  wsrc_CubePartition_ndim = Some (WCall (WGlobal "len") [WSelf "_dimensions"] []).
Proof. reflexivity. Qed.

(* CubePartition.shape *)
Lemma gen_wiring_CubePartition_shape :
  wsrc_CubePartition_shape = Some (WRaise "NotImplementedError").
Proof. reflexivity. Qed.

(* CubePartition._available_measures *)
Lemma gen_wiring_CubePartition__available_measures :
  wsrc_CubePartition__available_measures = Some (WCall (WGlobal "sorted") [WCall (WGlobal "list")
      [WAttr (WSelf "_cube") "available_measures"] []] [("key", WLambda ["el"] (WAttr (WVar "el")
      "name"))]).
Proof. reflexivity. Qed.

(* CubePartition._default_contents *)
Lemma gen_wiring_CubePartition__default_contents :
  wsrc_CubePartition__default_contents = Some (WCall (WGlobal "getattr") [WVar "self"; WIndex (WDict
      [(WAttr (WGlobal "CM") "COUNT", WStr "counts"); (WAttr (WGlobal "CM") "MEAN", WStr "means");
      (WAttr (WGlobal "CM") "SUM", WStr "sums")]) [WIndex (WSelf "_available_measures") [WInt
      (0)%Z]]] []).
Proof. reflexivity. Qed.

(* _Slice.counts *)
Lemma gen_wiring_Slice_counts :
  wsrc_Slice_counts = Some (w_matrix_of "weighted_counts").
Proof. reflexivity. Qed.

(* _Slice.is_empty *)
Lemma gen_wiring_Slice_is_empty :
  wsrc_Slice_is_empty = Some (WCall (WGlobal "any") [WComp "gen" (WCmp "==" (WVar "s") (WInt (0)%Z))
      [(["s"], WSelf "shape", [])]] []).
Proof. reflexivity. Qed.

(* _Slice.means *)
Lemma gen_wiring_Slice_means :
  wsrc_Slice_means = Some (WTryValueError (w_matrix_of "means") "").
Proof. reflexivity. Qed.

(* _Slice.medians *)
Lemma gen_wiring_Slice_medians :
  wsrc_Slice_medians = Some (WTryValueError (w_matrix_of "medians") "").
Proof. reflexivity. Qed.

(* _Slice.shape *)
Lemma gen_wiring_Slice_shape :
  wsrc_Slice_shape = Some (WAttr (WSelf "counts") "shape").
Proof. reflexivity. Qed.

(* _Slice.stddev *)
Lemma gen_wiring_Slice_stddev :
  wsrc_Slice_stddev = Some (WTryValueError (w_matrix_of "stddev") "").
Proof. reflexivity. Qed.

(* _Slice.sums *)
Lemma gen_wiring_Slice_sums :
  wsrc_Slice_sums = Some (WTryValueError (w_matrix_of "sums") "").
Proof. reflexivity. Qed.

(* _Slice.unweighted_counts *)
Lemma gen_wiring_Slice_unweighted_counts :
  wsrc_Slice_unweighted_counts = Some (w_matrix_of "unweighted_counts").
Proof. reflexivity. Qed.

(* _Strand.weighted_counts *)
Lemma gen_wiring_Strand_weighted_counts :
  wsrc_Strand_weighted_counts = Some (w_vector_of "weighted_counts").
Proof. reflexivity. Qed.

(* _Strand.is_empty *)
Lemma gen_wiring_Strand_is_empty :
  wsrc_Strand_is_empty = Some (WCall (WGlobal "any") [WComp "gen" (WCmp "==" (WVar "s") (WInt (0)%Z))
      [(["s"], WSelf "shape", [])]] []).
Proof. reflexivity. Qed.

(* _Strand.means *)
Lemma gen_wiring_Strand_means :
  wsrc_Strand_means = Some (WTryValueError (w_vector_of "means") "").
Proof. reflexivity. Qed.

(* _Strand.medians *)
Lemma gen_wiring_Strand_medians :
  wsrc_Strand_medians = Some (WTryValueError (w_vector_of "medians") "").
Proof. reflexivity. Qed.

(* _Strand.shape *)
Lemma gen_wiring_Strand_shape :
  wsrc_Strand_shape = Some (WTuple [WSelf "row_count"]).
Proof. reflexivity. Qed.

(* _Strand.stddev *)
Lemma gen_wiring_Strand_stddev :
  wsrc_Strand_stddev = Some (WTryValueError (w_vector_of "stddev") "").
Proof. reflexivity. Qed.

(* _Strand.sums *)
Lemma gen_wiring_Strand_sums :
  wsrc_Strand_sums = Some (WTryValueError (w_vector_of "sums") "").
Proof. reflexivity. Qed.

(* _Strand.unweighted_counts *)
Lemma gen_wiring_Strand_unweighted_counts :
  wsrc_Strand_unweighted_counts = Some (w_vector_of "unweighted_counts").
Proof. reflexivity. Qed.

(* _Nub.is_empty *)
Lemma gen_wiring_Nub_is_empty :
  wsrc_Nub_is_empty = Some (WIf (WCmp "<=" (WSelf "unweighted_count") (WInt (0)%Z)) (WTrue) (WCall
      (WAttr (WGlobal "math") "isnan") [WSelf "unweighted_count"] [])).
Proof. reflexivity. Qed.

(* _Nub.means *)
Lemma gen_wiring_Nub_means :
  wsrc_Nub_means = Some (WAttr (WSelf "_scalar") "means").
Proof. reflexivity. Qed.

(* _Nub.unweighted_count *)
Lemma gen_wiring_Nub_unweighted_count :
  wsrc_Nub_unweighted_count = Some (WAttr (WSelf "_cube") "unweighted_counts").
Proof. reflexivity. Qed.

(* _Nub._scalar *)
Lemma gen_wiring_Nub__scalar :
  wsrc_Nub__scalar = Some (WCall (WGlobal "MeansScalar") [WAttr (WSelf "_cube") "means"; WAttr (WSelf
      "_cube") "unweighted_counts"] []).
Proof. reflexivity. Qed.
