(* Proofs/DimTypeProofs.v -- the type-resolution rule of Model/DimType.v: when exactly a
   dimension is taken for a multiple-response selection axis (and its sub-variables dimension
   for MR items), and that a categorical array is never one. *)
From Coq Require Import ZArith List Bool Arith Lia.
From CC Require Import Base.Render Model.CubeCounts Model.DimType.
Import ListNotations.
Local Open Scope nat_scope.

Lemma dtype_eqb_eq a b : dtype_eqb a b = true <-> a = b.
Proof.
  unfold dtype_eqb. rewrite Nat.eqb_eq. split; [|intros ->; reflexivity].
  destruct a, b; simpl; intros H; try reflexivity; discriminate H.
Qed.

Lemma zlist_eqb_eq a b : zlist_eqb a b = true <-> a = b.
Proof.
  revert b. induction a as [|x a IH]; intros [|y b]; simpl; split; intros H;
    try reflexivity; try discriminate H.
  - apply andb_true_iff in H. destruct H as [H1 H2]. apply Z.eqb_eq in H1. apply IH in H2.
    subst. reflexivity.
  - injection H as -> ->. rewrite Z.eqb_refl. simpl. apply IH. reflexivity.
Qed.

(* a dimension is the selection axis of a multiple response EXACTLY when it is categorical,
   belongs to an array (has subreferences), one of its categories is flagged selected and the
   category ids are 1, 0, -1 in this order *)
Theorem mr_cat_iff d :
  dimension_type d = TMrCat <->
  exists cats, rd_type d = RCategorical cats /\ rd_subrefs d = true /\
               existsb rc_selected cats = true /\ map rc_id cats = [1%Z; 0%Z; (-1)%Z].
Proof.
  unfold dimension_type. destruct (rd_type d) as [cats|sub b].
  - destruct (rd_subrefs d) eqn:Es; destruct (is_logical cats) eqn:El; unfold is_logical in El.
    + split; [intros _|reflexivity]. apply andb_true_iff in El. destruct El as [E1 E2].
      exists cats. repeat split; try assumption. apply zlist_eqb_eq. exact E2.
    + split; [discriminate|]. intros [c [E [_ [E1 E2]]]]. injection E as <-.
      rewrite E1 in El. simpl in El. unfold selection_ids in El. rewrite E2 in El. discriminate El.
    + split; [discriminate|]. intros [c [_ [E _]]]. discriminate E.
    + split; [destruct (existsb rc_date cats); discriminate|]. intros [c [_ [E _]]]. discriminate E.
  - split; [destruct sub; discriminate|]. intros [c [E _]]. discriminate E.
Qed.

(* ... in particular ids 1, 0, -1 WITHOUT a selected flag do not make a selection axis, nor
   does a selected flag on any other ids / order *)
Theorem not_selection_without_flag d cats :
  rd_type d = RCategorical cats -> existsb rc_selected cats = false ->
  dimension_type d <> TMrCat /\ dimension_type d <> TLogical.
Proof.
  intros E H. unfold dimension_type, is_logical. rewrite E, H. simpl.
  destruct (rd_subrefs d); [|destruct (existsb rc_date cats)]; split; discriminate.
Qed.

Theorem not_selection_other_ids d cats :
  rd_type d = RCategorical cats -> map rc_id cats <> [1%Z; 0%Z; (-1)%Z] ->
  dimension_type d <> TMrCat /\ dimension_type d <> TLogical.
Proof.
  intros E H. unfold dimension_type, is_logical, selection_ids. rewrite E.
  destruct (zlist_eqb (map rc_id cats) [1%Z; 0%Z; (-1)%Z]) eqn:Z.
  - apply zlist_eqb_eq in Z. contradiction.
  - rewrite andb_false_r. destruct (rd_subrefs d); [|destruct (existsb rc_date cats)]; split; discriminate.
Qed.

(* the categories dimension of an array whose categories are no selection stays CA_CAT *)
Theorem array_categories_stay d cats :
  rd_type d = RCategorical cats -> rd_subrefs d = true -> is_logical cats = false ->
  dimension_type d = TCaCat.
Proof. intros E Es El. unfold dimension_type. rewrite E, Es, El. reflexivity. Qed.

(* no dimension dict is MR_SUBVAR on its own *)
Lemma dimension_type_not_mr_subvar d : dimension_type d <> TMrSubvar.
Proof.
  unfold dimension_type. destruct (rd_type d) as [cats|[] b]; try discriminate.
  destruct (rd_subrefs d), (is_logical cats), (existsb rc_date cats); discriminate.
Qed.

Lemma resolve_nth ds p :
  p < length ds -> nth p (resolve ds) TCat = resolve_at ds p (nth p ds dflt_rdim).
Proof.
  intros Hp. unfold resolve.
  rewrite (nth_indep _ TCat (resolve_at ds (length ds) (nth (length ds) ds dflt_rdim)))
    by (rewrite map_length, seq_length; exact Hp).
  rewrite (map_nth (fun p => resolve_at ds p (nth p ds dflt_rdim)) (seq 0 (length ds)) (length ds) p).
  rewrite seq_nth by exact Hp. reflexivity.
Qed.

(* a sub-variables dimension becomes MR items exactly when another dimension with its alias
   is a selection axis (and its elements carry values) *)
Theorem mr_subvar_iff ds p :
  p < length ds ->
  (nth p (resolve ds) TCat = TMrSubvar <->
   dimension_type (nth p ds dflt_rdim) = TCaSubvar /\ has_values (nth p ds dflt_rdim) = true /\
   exists q, q < length ds /\ q <> p /\
             rd_alias (nth q ds dflt_rdim) = rd_alias (nth p ds dflt_rdim) /\
             dimension_type (nth q ds dflt_rdim) = TMrCat).
Proof.
  intros Hp. unfold resolve.
  rewrite (nth_indep _ TCat (resolve_at ds (length ds) (nth (length ds) ds dflt_rdim)))
    by (rewrite map_length, seq_length; exact Hp).
  rewrite (map_nth (fun p => resolve_at ds p (nth p ds dflt_rdim)) (seq 0 (length ds)) (length ds) p).
  rewrite seq_nth by exact Hp. simpl.
  set (d := nth p ds dflt_rdim). unfold resolve_at, promoted.
  destruct (dimension_type d) eqn:Et; try (split; [discriminate | intros [H _]; discriminate H]);
    [|exfalso; exact (dimension_type_not_mr_subvar d Et)].
  destruct (has_values d) eqn:Ev; simpl.
  - destruct (existsb _ (seq 0 (length ds))) eqn:Ex.
    + split; [intros _|reflexivity]. split; [reflexivity|]. split; [reflexivity|].
      apply existsb_exists in Ex. destruct Ex as [q [Hq Hc]]. apply in_seq in Hq.
      apply andb_true_iff in Hc. destruct Hc as [Hc H3]. apply andb_true_iff in Hc. destruct Hc as [H1 H2].
      exists q. rewrite (nth_indep ds d dflt_rdim) in H2, H3 by lia.
      repeat split.
      * lia.
      * apply negb_true_iff, Nat.eqb_neq in H1. exact H1.
      * apply Nat.eqb_eq. exact H2.
      * apply dtype_eqb_eq. exact H3.
    + split; [discriminate|]. intros [_ [_ [q [Hq [Hne [Ha Hm]]]]]]. exfalso.
      assert (X : existsb (fun q => negb (q =? p) && (rd_alias (nth q ds d) =? rd_alias d)
                                    && dtype_eqb (dimension_type (nth q ds d)) TMrCat)
                          (seq 0 (length ds)) = true).
      { apply existsb_exists. exists q. split; [apply in_seq; lia|].
        rewrite (nth_indep ds d dflt_rdim) by lia. rewrite Ha, Hm.
        apply Nat.eqb_neq in Hne. rewrite Hne, Nat.eqb_refl. reflexivity. }
      rewrite X in Ex. discriminate Ex.
  - split; [discriminate|]. intros [_ [H _]]. discriminate H.
Qed.

(* only sub-variables dimensions change: every other dimension keeps the type its own dict has *)
Theorem resolve_keeps_other_types ds p :
  p < length ds -> dimension_type (nth p ds dflt_rdim) <> TCaSubvar ->
  nth p (resolve ds) TCat = dimension_type (nth p ds dflt_rdim).
Proof.
  intros Hp Hn. unfold resolve.
  rewrite (nth_indep _ TCat (resolve_at ds (length ds) (nth (length ds) ds dflt_rdim)))
    by (rewrite map_length, seq_length; exact Hp).
  rewrite (map_nth (fun p => resolve_at ds p (nth p ds dflt_rdim)) (seq 0 (length ds)) (length ds) p).
  rewrite seq_nth by exact Hp. simpl. unfold resolve_at.
  destruct (dimension_type (nth p ds dflt_rdim)); try reflexivity. contradiction.
Qed.

(* A CATEGORICAL ARRAY IS NEVER COLLAPSED: the (sub-variables, categories) pair of an array whose
   categories are no selection -- no selected flag, or ids other than 1, 0, -1 in this order --
   resolves to (CA_SUBVAR, CA_CAT) next to any dimensions of other aliases, so Model/CubeCounts.v
   (and the code) keep both axes *)
Theorem categorical_array_is_never_collapsed pre post a b cats :
  is_logical cats = false ->
  (forall d, In d (pre ++ post) -> rd_alias d <> a) ->
  let ds := pre ++ [mkRDim a true (REnum SVariable b); mkRDim a true (RCategorical cats)] ++ post in
  nth (length pre) (resolve ds) TCat = TCaSubvar /\
  nth (S (length pre)) (resolve ds) TCat = TCaCat.
Proof.
  intros El Ha ds.
  assert (Ld : length ds = length pre + 2 + length post)
    by (unfold ds; rewrite !app_length; simpl; lia).
  assert (N0 : nth (length pre) ds dflt_rdim = mkRDim a true (REnum SVariable b)).
  { unfold ds. rewrite app_nth2 by lia. rewrite Nat.sub_diag. reflexivity. }
  assert (N1 : nth (S (length pre)) ds dflt_rdim = mkRDim a true (RCategorical cats)).
  { unfold ds. rewrite app_nth2 by lia. replace (S (length pre) - length pre) with 1 by lia. reflexivity. }
  split.
  - destruct (nth (length pre) (resolve ds) TCat) eqn:E; try reflexivity;
      try (rewrite resolve_nth in E by lia; rewrite N0 in E; unfold resolve_at in E; simpl in E;
           destruct (promoted ds (length pre) _); discriminate E).
    + exfalso. apply mr_subvar_iff in E; [|lia].
      destruct E as [_ [_ [q [Hq [Hne [Hal Hm]]]]]]. rewrite N0 in Hal. simpl in Hal.
      destruct (Nat.lt_ge_cases q (length pre)) as [L|L].
      * apply (Ha (nth q ds dflt_rdim)); [|exact Hal].
        unfold ds. rewrite app_nth1 by exact L. apply in_or_app. left. apply nth_In. exact L.
      * destruct (Nat.eq_dec q (S (length pre))) as [->|Hq1].
        -- rewrite N1 in Hm. unfold dimension_type in Hm. simpl in Hm. rewrite El in Hm. discriminate Hm.
        -- assert (L2 : length pre + 2 <= q) by lia.
           apply (Ha (nth q ds dflt_rdim)); [|exact Hal].
           unfold ds. rewrite app_nth2 by lia. rewrite app_nth2 by (simpl; lia). simpl length.
           apply in_or_app. right. apply nth_In. lia.
  - rewrite resolve_keeps_other_types by (try lia; rewrite N1; unfold dimension_type; simpl; rewrite El; discriminate).
    rewrite N1. unfold dimension_type. simpl. rewrite El. reflexivity.
Qed.

(* ... and the pair a multiple response sends resolves to (MR_SUBVAR, MR_CAT) *)
Theorem multiple_response_pair pre post a cats :
  is_logical cats = true ->
  let ds := pre ++ [mkRDim a true (REnum SVariable true); mkRDim a true (RCategorical cats)] ++ post in
  nth (length pre) (resolve ds) TCat = TMrSubvar /\
  nth (S (length pre)) (resolve ds) TCat = TMrCat.
Proof.
  intros El ds.
  assert (Ld : length ds = length pre + 2 + length post)
    by (unfold ds; rewrite !app_length; simpl; lia).
  assert (N0 : nth (length pre) ds dflt_rdim = mkRDim a true (REnum SVariable true)).
  { unfold ds. rewrite app_nth2 by lia. rewrite Nat.sub_diag. reflexivity. }
  assert (N1 : nth (S (length pre)) ds dflt_rdim = mkRDim a true (RCategorical cats)).
  { unfold ds. rewrite app_nth2 by lia. replace (S (length pre) - length pre) with 1 by lia. reflexivity. }
  assert (T1 : dimension_type (mkRDim a true (RCategorical cats)) = TMrCat)
    by (unfold dimension_type; simpl; rewrite El; reflexivity).
  split.
  - apply mr_subvar_iff; [lia|]. rewrite N0. split; [reflexivity|]. split; [reflexivity|].
    exists (S (length pre)). rewrite N1. repeat split; try lia. exact T1.
  - rewrite resolve_keeps_other_types by (try lia; rewrite N1, T1; discriminate).
    rewrite N1. exact T1.
Qed.

(* what Model/CubeCounts.v makes of the types: only MR_SUBVAR / MR_CAT / CA_SUBVAR / NUM_ARRAY are
   special, LOGICAL / CAT_DATE / CA_CAT / DATETIME / TEXT / BINNED_NUMERIC count like CAT *)
Theorem dkind_of_cat_like t :
  t <> TMrSubvar -> t <> TMrCat -> t <> TCaSubvar -> t <> TNumArr -> dkind_of t = DCat.
Proof. destruct t; intros; try reflexivity; contradiction. Qed.
