(* GenAgreeDimTypeKind: Dimensions.dimension_type as generated from src/cr/cube/dimension.py (Gen/DimTypeSrc.v)
   IS [dimension_type] of Model/DimType.v - the rule the C01 theorems (mr_cat_iff, array_categories_stay,
   categorical_array_is_never_collapsed ..) are about - for EVERY dimension dict that reads as a model [rdim]:

     rdim_abs dd rd     dd["type"] is a dict ty with [type_abs ty (rd_type rd)], and references.subreferences is
                        truthy exactly when [rd_subrefs rd]
     type_abs ty rt     class "categorical": ty.get("categories", []) is a list of dicts whose "id" is an int,
                        [rc_selected] = cat.get("selected") is truthy, [rc_date] = "date" in cat;
                        class "enum": ty["subtype"]["class"] is one of the five known subclasses
   An unknown class / subclass raises NotImplementedError. *)
From Coq Require Import List ZArith String Bool Lia Arith.
From CC Require Import Base.XQ Base.Ident Base.PyList Base.PyDict Model.DimType Model.PyDimension Model.PyDimType
  Model.DimValues Gen.DimensionSrc Gen.DimTypeSrc Proofs.GenAgreeDimensionLib Proofs.GenAgreeDimTypeLib.
Import ListNotations.
Local Close Scope Q_scope.
Local Open Scope Z_scope.
Local Open Scope string_scope.

Definition cat_abs (cat : jv) (rc : rcat) : Prop :=
  exists c, cat = JDict c /\ jget c "id" = Some (JInt (rc_id rc)) /\
            rc_selected rc = jv_truthy (jd_get_default c (JStr "selected") JNone) /\
            rc_date rc = match jget c "date" with Some _ => true | None => false end.

Definition esub_name (s : esub) : string :=
  match s with
  | SVariable => "variable" | SDatetime => "datetime" | SNumeric => "numeric" | SText => "text"
  | SNumArr => "num_arr"
  end.

Inductive type_abs (ty : jdict) : rtype -> Prop :=
| TA_categorical cats rcats :
    jget ty "class" = Some (JStr "categorical") ->
    jd_get_default ty (JStr "categories") (JList []) = JList cats ->
    Forall2 cat_abs cats rcats -> type_abs ty (RCategorical rcats)
| TA_enum st sub b :
    jget ty "class" = Some (JStr "enum") ->
    jget ty "subtype" = Some (JDict st) -> jget st "class" = Some (JStr (esub_name sub)) ->
    type_abs ty (REnum sub b).

Definition refs_abs (dd : jdict) (subrefs : bool) : Prop :=
  match jget dd "references" with
  | None => subrefs = false
  | Some (JDict refs) => subrefs = jv_truthy (jd_get_default refs (JStr "subreferences") JNone)
  | Some _ => False
  end.

Definition rdim_abs (dd : jdict) (rd : rdim) : Prop :=
  exists ty, jget dd "type" = Some (JDict ty) /\ type_abs ty (rd_type rd) /\ refs_abs dd (rd_subrefs rd).

(* any(f(x) for x in xs) *)
Lemma py_anyM_ok {A} (f : A -> res bool) (g : A -> bool) l :
  (forall x, In x l -> f x = Ok (g x)) -> py_anyM f l = Ok (existsb g l).
Proof.
  induction l as [|x t IH]; intros H; simpl; auto.
  rewrite H by (simpl; auto). simpl. destruct (g x); simpl; auto. apply IH. intros; apply H; simpl; auto.
Qed.

Lemma py_anyM_forall2 {A C} (f : A -> res bool) (R : A -> C -> Prop) (g : C -> bool) l l' :
  Forall2 R l l' -> (forall x y, R x y -> f x = Ok (g y)) -> py_anyM f l = Ok (existsb g l').
Proof.
  intros HR H. induction HR as [|x y xs ys Hxy _ IH]; [reflexivity|].
  cbn [py_anyM existsb]. rewrite (H x y Hxy). cbn [Collator.bind]. destruct (g y); [reflexivity|exact IH].
Qed.

(* [cat.get("id") for cat in cats] == [1, 0, -1] *)
Lemma ids_eqb (zs ws : list Z) : jv_eqb (JList (map JInt zs)) (JList (map JInt ws)) = zlist_eqb zs ws.
Proof.
  cbn [jv_eqb]. revert ws. induction zs as [|z t IH]; intros [|w u]; cbn [map zlist_eqb]; try reflexivity.
  cbn [jv_eqb]. rewrite IH. reflexivity.
Qed.

Ltac str_eqb :=
  repeat match goal with |- context [jv_eqb (JStr ?a) (JStr ?b)] =>
           change (jv_eqb (JStr a) (JStr b)) with (String.eqb a b) end;
  cbn [String.eqb Ascii.eqb Bool.eqb].

(*@ C01 *)
Lemma gen_dimtype_Dimensions_dimension_type :
  match src_Dimensions_dimension_type with
  | Some f => forall X dd rd, rdim_abs dd rd -> f X (JDict dd) = Ok (DimType.dimension_type rd)
  | None => True end.
Proof.
  unfold src_Dimensions_dimension_type.
  first [exact I | idtac].
  all: intros X dd rd (ty & Hty & Ht & Hr); cbv beta iota.
  all: rewrite !pj_getitem_jget, Hty; dsimpl; rewrite !pj_getitem_jget.
  all: unfold DimType.dimension_type; destruct Ht as [cats rcats Hc Hcats HF | st sub b Hc Hst Hsub]; rewrite Hc; dsimpl;
    str_eqb;
    [ (* class "categorical" *)
      rewrite pj_get_dict, Hcats; dsimpl; unfold pj_iter; dsimpl;
      rewrite (py_anyM_forall2 _ _ rc_selected _ _ HF)
        by (intros x y (c & -> & _ & Hs & _); rewrite pj_get_dict, Hs; reflexivity);
      dsimpl;
      assert (Hids : py_compM (fun l_cat : jv => bind (pj_get l_cat (JStr "id") JNone) (fun t8 : jv => Ok (Some t8))) cats
                     = Ok (map JInt (map rc_id rcats)))
        by (rewrite map_map; apply (py_compM_forall2 _ _ _ _ _ HF); intros x y (c & -> & Hi & _);
            rewrite pj_get_dict, jget_default, Hi; reflexivity);
      unfold is_logical, selection_ids; unfold refs_abs in Hr;
      destruct (existsb rc_selected rcats); dsimpl; cbn [andb]; rewrite ?Hids; dsimpl;
      change (JList (map (fun x_ : Z => JInt x_) [1; 0; -1])) with (JList (map JInt [1; 0; -1]));
      rewrite ?ids_eqb;
      rewrite pj_get_dict, jget_default;
      destruct (jget dd "references") as [[| | | | | |refs]|]; try contradiction; dsimpl;
      rewrite pj_get_dict, Hr; dsimpl; cbn [jd_get_default jd_get py_dict_get jv_truthy];
      repeat match goal with |- context [if ?c then _ else _] =>
               lazymatch c with existsb _ _ => fail | _ => destruct c; dsimpl end end; try reflexivity;
      rewrite (py_anyM_forall2 _ _ rc_date _ _ HF)
        by (intros x y (c & -> & _ & _ & Hd); rewrite pj_contains_dict, Hd; reflexivity);
      dsimpl; destruct (existsb rc_date rcats); reflexivity
    | (* class "enum" *)
      rewrite Hst; dsimpl; rewrite pj_getitem_jget, Hsub; dsimpl; destruct sub; reflexivity ].
Qed.

(* an unknown class is refused *)
(*@ C01 *)
Lemma gen_dimtype_Dimensions_dimension_type_unknown :
  match src_Dimensions_dimension_type with
  | Some f => forall X dd ty c, jget dd "type" = Some (JDict ty) -> jget ty "class" = Some (JStr c) ->
      c <> "categorical" -> c <> "enum" -> f X (JDict dd) = Err NotImplementedError
  | None => True end.
Proof.
  unfold src_Dimensions_dimension_type.
  first [exact I | idtac].
  all: intros X dd ty c Hty Hc N1 N2; cbv beta iota.
  all: rewrite !pj_getitem_jget, Hty; dsimpl; rewrite !pj_getitem_jget, Hc; dsimpl.
  all: str_eqb.
  all: destruct (String.eqb c "categorical") eqn:E1; [apply String.eqb_eq in E1; contradiction|].
  all: destruct (String.eqb c "enum") eqn:E2; [apply String.eqb_eq in E2; contradiction|].
  all: reflexivity.
Qed.
