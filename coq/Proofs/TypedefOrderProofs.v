(* Proofs/TypedefOrderProofs.v -- lemmas about Model/TypedefOrder.v (type.order of a dimension's
   type definition): Element.index is the payload position, the valid offsets handed to
   Cube._valid_idxs are those of the re-arranged missing flags, each output row reads the payload
   position of the element shown there, payload position p carries the p-th known code of the
   list. *)
From Coq Require Import ZArith List Bool Arith Lia.
From CC Require Import Base.ListX Spec.Survey Model.CubeCounts Model.TypedefOrder.
Import ListNotations.
Local Open Scope nat_scope.

(* numbering from an arbitrary start (for the inductions) *)
Definition num_from (s : nat) (l : list edef) : list element :=
  map (fun pe => mkElement (snd pe) (fst pe)) (combine (seq s (length l)) l).

Lemma number_elements_num l : number_elements l = num_from 0 l.
Proof. reflexivity. Qed.

Lemma num_from_cons s x t : num_from s (x :: t) = mkElement x s :: num_from (S s) t.
Proof. reflexivity. Qed.

Lemma num_from_length s l : length (num_from s l) = length l.
Proof.
  unfold num_from. rewrite map_length, combine_length, seq_length. apply Nat.min_id.
Qed.

Lemma num_from_defs s l : map el_def (num_from s l) = l.
Proof.
  revert s. induction l as [|x t IH]; intros s; [reflexivity|].
  rewrite num_from_cons. simpl. rewrite IH. reflexivity.
Qed.

Lemma num_from_In s l e : In e (num_from s l) ->
  s <= el_index e /\ nth_error l (el_index e - s) = Some (el_def e).
Proof.
  revert s. induction l as [|x t IH]; intros s H; [destruct H|].
  rewrite num_from_cons in H. destruct H as [H|H].
  - subst e. simpl. rewrite Nat.sub_diag. split; [lia|reflexivity].
  - apply IH in H. destruct H as [L N]. split; [lia|].
    replace (el_index e - s) with (S (el_index e - S s)) by lia. exact N.
Qed.

(* Element.index IS the payload position: the element numbered p has the p-th re-arranged
   definition *)
Lemma element_index_is_payload_position defs order e :
  In e (elements_of defs order) ->
  nth_error (ordered_defs defs order) (el_index e) = Some (el_def e).
Proof.
  intros H. unfold elements_of in H. rewrite number_elements_num in H.
  apply num_from_In in H. destruct H as [_ H]. rewrite Nat.sub_0_r in H. exact H.
Qed.

Lemma elements_defs defs order : map el_def (elements_of defs order) = ordered_defs defs order.
Proof. unfold elements_of. rewrite number_elements_num. apply num_from_defs. Qed.

(* the valid offsets *)
Lemma valid_idxs_from s l :
  map el_index (filter el_valid (num_from s l)) =
  filter (fun k => negb (nth (k - s) (map ed_missing l) true)) (seq s (length l)).
Proof.
  revert s. induction l as [|x t IH]; intros s; [reflexivity|].
  rewrite num_from_cons.
  change (length (x :: t)) with (S (length t)).
  change (seq s (S (length t))) with (s :: seq (S s) (length t)).
  change (map ed_missing (x :: t)) with (ed_missing x :: map ed_missing t).
  cbn [filter].
  assert (E : filter (fun k => negb (nth (k - s) (ed_missing x :: map ed_missing t) true))
                     (seq (S s) (length t)) =
              filter (fun k => negb (nth (k - S s) (map ed_missing t) true)) (seq (S s) (length t))).
  { apply filter_ext_in. intros k Hk. apply in_seq in Hk.
    replace (k - s) with (S (k - S s)) by lia. reflexivity. }
  rewrite E, <- IH. rewrite Nat.sub_diag. cbn [nth].
  unfold el_valid at 1. cbn [el_def].
  destruct (negb (ed_missing x)); reflexivity.
Qed.

Lemma element_idxs_dvalid k defs order :
  element_idxs defs order = dvalid (dim_of_typedef k defs order).
Proof.
  unfold element_idxs, valid_elements, elements_of, dvalid, dim_of_typedef, valid_idxs.
  cbn [dmiss]. rewrite number_elements_num, valid_idxs_from, map_length.
  apply filter_ext. intros a. rewrite Nat.sub_0_r. reflexivity.
Qed.

Lemma nvalid_valid_elements k defs order :
  nvalid (dim_of_typedef k defs order) = length (valid_elements defs order).
Proof.
  unfold nvalid. rewrite <- (element_idxs_dvalid k). unfold element_idxs. apply map_length.
Qed.

(* each output row is the payload position of the element shown there *)
Lemma row_reads_shown_element k defs order r :
  r < nvalid (dim_of_typedef k defs order) ->
  exists e,
    nth_error (valid_elements defs order) r = Some e
    /\ nth r (dvalid (dim_of_typedef k defs order)) 0 = el_index e
    /\ nth_error (ordered_defs defs order) (nth r (dvalid (dim_of_typedef k defs order)) 0)
       = Some (el_def e)
    /\ ed_missing (el_def e) = false.
Proof.
  intros Hr. rewrite (nvalid_valid_elements k) in Hr.
  destruct (nth_error (valid_elements defs order) r) as [e|] eqn:E;
    [|apply nth_error_None in E; lia].
  exists e. split; [reflexivity|].
  assert (Hin : In e (valid_elements defs order)) by (eapply nth_error_In; exact E).
  unfold valid_elements in Hin. apply filter_In in Hin. destruct Hin as [Hin Hv].
  assert (Hidx : nth r (dvalid (dim_of_typedef k defs order)) 0 = el_index e).
  { rewrite <- (element_idxs_dvalid k). unfold element_idxs.
    apply nth_error_nth with (d := 0). rewrite nth_error_map, E. reflexivity. }
  split; [exact Hidx|]. split.
  - rewrite Hidx. apply element_index_is_payload_position. exact Hin.
  - unfold el_valid in Hv. apply negb_true_iff in Hv. exact Hv.
Qed.

(* the ids along the payload axis *)
Lemma codemap_get_id defs c e : codemap_get defs c = Some e -> ed_id e = c.
Proof.
  induction defs as [|x t IH]; [discriminate|]. simpl.
  destruct (codemap_get t c) as [y|] eqn:G.
  - intros H. inversion H; subst. apply IH. reflexivity.
  - destruct (Z.eqb (ed_id x) c) eqn:Q; [|discriminate].
    intros H. inversion H; subst. apply Z.eqb_eq. exact Q.
Qed.

Lemma codemap_get_In defs c e : codemap_get defs c = Some e -> In e defs.
Proof.
  induction defs as [|x t IH]; [discriminate|]. simpl.
  destruct (codemap_get t c) as [y|] eqn:G.
  - intros H. inversion H; subst. right. apply IH. reflexivity.
  - destruct (Z.eqb (ed_id x) c); [|discriminate]. intros H. inversion H. left. reflexivity.
Qed.

Lemma codemap_get_defined defs e : In e defs -> exists e', codemap_get defs (ed_id e) = Some e'.
Proof.
  induction defs as [|x t IH]; [intros []|]. intros [H|H]; simpl.
  - subst x. destruct (codemap_get t (ed_id e)) as [y|]; [eauto|].
    rewrite Z.eqb_refl. eauto.
  - destruct (IH H) as [e' E]. rewrite E. eauto.
Qed.

Lemma ordered_ids defs o : map ed_id (ordered_defs defs (Some o)) = known_codes defs o.
Proof.
  unfold ordered_defs, known_codes. induction o as [|c t IH]; [reflexivity|].
  cbn [flat_map filter]. destruct (codemap_get defs c) as [e|] eqn:G.
  - cbn [app map]. rewrite (codemap_get_id _ _ _ G), IH. reflexivity.
  - exact IH.
Qed.

Lemma ordered_defs_from_catalogue defs order e :
  In e (ordered_defs defs order) -> In e defs.
Proof.
  destruct order as [o|]; [|exact (fun H => H)]. unfold ordered_defs.
  intros H. apply in_flat_map in H. destruct H as [c [_ H]].
  destruct (codemap_get defs c) as [x|] eqn:G; [|destruct H].
  destruct H as [H|[]]. subst x. eapply codemap_get_In. exact G.
Qed.

(* np.ix_ over dimensions that come from type definitions *)
Definition tdim := (dkind * list edef * option (list Z))%type.
Definition dim_of (t : tdim) : dimd := dim_of_typedef (fst (fst t)) (snd (fst t)) (snd t).
Definition idxs_of (t : tdim) : list nat := element_idxs (snd (fst t)) (snd t).

Lemma take_valid_typedefs (ts : list tdim) (T : tensor) idx :
  take_valid (map dim_of ts) T idx = T (remap (map idxs_of ts) idx).
Proof.
  unfold take_valid. f_equal. f_equal. rewrite map_map. apply map_ext.
  intros [[k defs] order]. unfold dim_of, idxs_of. cbn [fst snd].
  symmetry. apply element_idxs_dvalid.
Qed.
