(* Proofs/ComposePayloadStrand.v -- the payload glue for 1-D cubes: [strand_counts] on the flat
   payload of a survey yields the count / base vectors of Proofs/ComposeStrand.v. *)
From Coq Require Import QArith ZArith List Bool Lia Arith.
From CC Require Import Base.XQ Base.ListX Spec.Survey Model.CubeCounts Proofs.CubeCountsProofs
     Proofs.ComposeBase Proofs.ComposePayload Proofs.ComposeStrand.
Import ListNotations.
Local Close Scope Q_scope.
Local Open Scope nat_scope.

Definition strand_payload (v : nat) (kd : kind) (ms : list bool) (S : survey) : list xq :=
  flatten (raw_shape (dims_of kd ms)) (raw_of [(v, kd)] S).

Lemma tab_ext {A} n (f g : nat -> A) : (forall i, i < n -> f i = g i) -> tab n f = tab n g.
Proof. intros H. unfold tab. apply map_ext_in. intros i Hi. apply in_seq in Hi. apply H. lia. Qed.

Ltac inb1 :=
  cbn [map remap in_boundsb dsize dvalid dmiss nth length];
  repeat (apply andb_true_intro; split);
  first [ reflexivity | apply valid_ltb; assumption | apply mrsel_ltb; lia ].

Theorem strand_counts_of_survey_cat S v ms :
  exists st, strand_counts (dims_of KCat ms) (strand_payload v KCat ms S) false 0 = Some st /\
    st_counts st = st_cat_counts S v ms /\ st_bases st = st_cat_bases S v ms.
Proof.
  eexists. split; [reflexivity|]. cbn [st_counts st_bases]. unfold st_cat_counts, st_cat_bases.
  split; apply tab_ext; intros i Hi; cbn [cls_of dk stripe_counts stripe_bases];
    unfold sc_bases, sc_table_base, sc_counts;
    cellread.
Qed.

Theorem strand_counts_of_survey_mr S v ms :
  exists st, strand_counts (dims_of KMr ms) (strand_payload v KMr ms S) false 0 = Some st /\
    st_counts st = st_mr_counts S v ms /\ st_bases st = st_mr_bases S v ms.
Proof.
  eexists. split; [reflexivity|]. cbn [st_counts st_bases]. unfold st_mr_counts, st_mr_bases.
  split; apply tab_ext; intros i Hi; cbn [cls_of dk stripe_counts stripe_bases];
    unfold sm_bases, sm_counts;
    cellread.
Qed.

From CC Require Import Model.Subtotals Model.Proportions.

Theorem strand_cat_from_payload S v ms :
  exists st, strand_counts (dims_of KCat ms) (strand_payload v KCat ms S) false 0 = Some st /\
     st_counts st = st_cat_counts S v ms /\ st_bases st = st_cat_bases S v ms /\
     st_cat_props S v ms = strand_props_base (st_counts st) (st_bases st).
Proof.
  destruct (strand_counts_of_survey_cat S v ms) as [st [E [Ec Eb]]].
  exists st. repeat split; try assumption. unfold st_cat_props. rewrite Ec, Eb. reflexivity.
Qed.

Theorem strand_mr_from_payload S v ms :
  exists st, strand_counts (dims_of KMr ms) (strand_payload v KMr ms S) false 0 = Some st /\
     st_counts st = st_mr_counts S v ms /\ st_bases st = st_mr_bases S v ms /\
     st_mr_props S v ms = strand_props_base (st_counts st) (st_bases st).
Proof.
  destruct (strand_counts_of_survey_mr S v ms) as [st [E [Ec Eb]]].
  exists st. repeat split; try assumption. unfold st_mr_props. rewrite Ec, Eb. reflexivity.
Qed.
