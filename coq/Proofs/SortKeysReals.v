(* C08: the square root keeps the weak order of non-negative reals - so a list sorted on variances is
   sorted on standard deviations (sqrt_le_1 of the standard library's real numbers). *)
From Coq Require Import List Sorting Reals.
From CC Require Import Base.SortX.
Import ListNotations.
Local Open Scope R_scope.

Lemma sqrt_sorted_ascending (l : list R) :
  Forall (fun v => 0 <= v) l -> StronglySorted Rle l -> StronglySorted Rle (map sqrt l).
Proof.
  intros P S. induction S as [|x t St IH Hx]; simpl; constructor.
  - apply IH. inversion P; assumption.
  - inversion P as [|? ? Px Pt]; subst. rewrite Forall_forall in *.
    intros y Hy. apply in_map_iff in Hy. destruct Hy as (v & <- & Hv).
    apply sqrt_le_1; auto.
Qed.

Lemma sqrt_sorted_descending (l : list R) :
  Forall (fun v => 0 <= v) l -> StronglySorted Rge l -> StronglySorted Rge (map sqrt l).
Proof.
  intros P S. induction S as [|x t St IH Hx]; simpl; constructor.
  - apply IH. inversion P; assumption.
  - inversion P as [|? ? Px Pt]; subst. rewrite Forall_forall in *.
    intros y Hy. apply in_map_iff in Hy. destruct Hy as (v & <- & Hv).
    apply Rle_ge. apply sqrt_le_1; auto. apply Rge_le. auto.
Qed.

(* multiplication by a non-negative constant (Z_975, population * fraction) *)
Lemma scale_sorted_ascending (c : R) (l : list R) :
  0 <= c -> StronglySorted Rle l -> StronglySorted Rle (map (fun v => c * v) l).
Proof.
  intros Hc S. induction S as [|x t St IH Hx]; simpl; constructor; auto.
  rewrite Forall_forall in *. intros y Hy. apply in_map_iff in Hy. destruct Hy as (v & <- & Hv).
  apply Rmult_le_compat_l; auto.
Qed.
