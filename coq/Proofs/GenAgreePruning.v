(* Proofs/GenAgreePruning.v -- GenAgree for C09: what the source says for
     rows_pruning_mask / columns_pruning_mask of the nine _XxYCubeCounts classes
     (_BaseCubeCounts: "np.sum(self.row_bases, axis=1) == 0" etc. with the class's own bases,
      and the MR overrides of _rows_pruning_base / _columns_pruning_base), through the
     factory's dict, and for the stripe .pruning_base,
   is the emptiness criterion of Model/OrderPruning.v that C09 is stated with:

     row i is empty     iff  forall s1 j s2, (MRxMR = false \/ s1 = 0) -> u[i][s1][j][s2] = 0
     column j is empty  iff  forall i s1 s2, (MRxMR = false \/ s2 = 0) -> u[i][s1][j][s2] = 0
     strand row i empty iff  forall s, u[i][s] = 0

   for ALL sizes.  [u] is the canonical 4-axis form of the unweighted counts of
   Model/OrderPruning.v (a non-MR dimension has the single selection state 0); [emb] lays it out
   as the class's own [self._counts]; [fits] says u has no cell outside the slice's shape.
   (Proofs/OrderPruning.v: rows_base_zero_iff / columns_base_zero_iff / strand_base_zero_iff
   show that this criterion is [nth i (rows_pruning_base mrxmr u) 0 = 0] etc.)

   The source's base is NOT the model's base cell by cell (e.g. CAT x CAT sums the broadcast
   row bases: ncols times the row total) -- only its zero set is, which is what the mask uses. *)
From Coq Require Import QArith ZArith List Bool Lia Arith String Morphisms Setoid.
From CC Require Import Base.XQ Base.ListX Base.Tensor Model.CubeCounts Model.OrderPruning
     Gen.CubeCountsSrc Gen.StripeCountsSrc Gen.Tables Proofs.GenAgreeTac.
Import ListNotations.
Local Close Scope Q_scope.
Local Open Scope string_scope.
Local Open Scope nat_scope.

(* ------------------------------------------------------------------------------------ *)
(** * sums of natural numbers inside xq *)

Fixpoint nsum (n : nat) (g : nat -> nat) : nat :=
  match n with 0 => 0 | S k => nsum k g + g k end.

Lemma nsum_zero_iff n g : nsum n g = 0 <-> forall k, k < n -> g k = 0.
Proof.
  induction n as [|n IH]; simpl.
  - split; [intros _ k Hk; lia|reflexivity].
  - split.
    + intros H k Hk. assert (nsum n g = 0 /\ g n = 0) as [H1 H2] by lia.
      destruct (Nat.eq_dec k n) as [->|]; [exact H2|]. apply IH; [exact H1|lia].
    + intros H. assert (nsum n g = 0) by (apply IH; intros k Hk; apply H; lia).
      assert (g n = 0) by (apply H; lia). lia.
Qed.

Lemma xofnat_add a b : xadd (xofnat a) (xofnat b) =x= xofnat (a + b).
Proof.
  unfold xofnat. simpl. rewrite Nat2Z.inj_add, inject_Z_plus. reflexivity.
Qed.

Lemma xsumN_ofnat n g : xsumN n (fun k => xofnat (g k)) =x= xofnat (nsum n g).
Proof.
  induction n as [|n IH].
  - unfold xsumN, tab. simpl. reflexivity.
  - rewrite xsumN_S, IH. simpl. apply xofnat_add.
Qed.

#[global] Instance xsumN_Proper : Proper (eq ==> pointwise_relation nat xeq ==> xeq) xsumN.
Proof. intros n m -> f g H. apply xsumN_ext. intros i _. apply H. Qed.

#[global] Instance xsumN_Proper_eq : Proper (eq ==> pointwise_relation nat eq ==> eq) xsumN.
Proof.
  intros n m -> f g H. unfold xsumN, tab. f_equal. apply map_ext. intros a. apply H.
Qed.

#[global] Instance is_zero_Proper : Proper (xeq ==> eq) is_zero.
Proof.
  intros [p|s|] [q|t|] H; simpl in H; try contradiction; unfold is_zero; simpl.
  - destruct (Qeq_bool p 0) eqn:E1, (Qeq_bool q 0) eqn:E2; try reflexivity.
    + apply Qeq_bool_iff in E1. rewrite H in E1. apply Qeq_bool_iff in E1. congruence.
    + apply Qeq_bool_iff in E2. rewrite <- H in E2. apply Qeq_bool_iff in E2. congruence.
  - reflexivity.
  - reflexivity.
Qed.

Lemma is_zero_ofnat m : is_zero (xofnat m) = Fin 1 <-> m = 0.
Proof.
  unfold is_zero, xofnat. simpl. destruct m as [|m].
  - split; reflexivity.
  - split; [|discriminate]. intros H. exfalso.
    destruct (Qeq_bool (inject_Z (Z.of_nat (S m))) 0) eqn:E.
    + apply Qeq_bool_iff in E. unfold Qeq in E. simpl in E. lia.
    + discriminate.
Qed.

(* ------------------------------------------------------------------------------------ *)
(** * the unweighted counts u[i][s1][j][s2] as the class's own [self._counts] *)

Definition emb (rc cc : cls) (u : t4) : tensor := fun idx =>
  match rc, cc with
  | CMr, CMr => match idx with [i; s; j; t] => xofnat (cell4 u i s j t) | _ => NaN end
  | CMr, _ => match idx with [i; s; j] => xofnat (cell4 u i s j 0) | _ => NaN end
  | _, CMr => match idx with [i; j; t] => xofnat (cell4 u i 0 j t) | _ => NaN end
  | _, _ => match idx with [i; j] => xofnat (cell4 u i 0 j 0) | _ => NaN end
  end.

(* u has no (non-zero) cell outside nr x sr x nc x sc *)
Definition fits (u : t4) (nr sr nc sc : nat) : Prop :=
  forall i s j t, cell4 u i s j t <> 0 -> i < nr /\ s < sr /\ j < nc /\ t < sc.
Definition sel_len (c : cls) (s : nat) : nat := match c with CMr => s | _ => 1 end.
Definition is_mm (rc cc : cls) : bool := match rc, cc with CMr, CMr => true | _, _ => false end.

Definition rows_mask_agrees (rc cc : cls) (e : texp) : Prop :=
  forall u nr nc sr sc, fits u nr (sel_len rc sr) nc (sel_len cc sc) ->
    match teval (envC (shape_of rc cc nr nc sr sc) (emb rc cc u)) e with
    | TVal shp f =>
        shp = [nr] /\
        forall i, i < nr ->
          (f [i] = Fin 1 <->
           forall s1 j s2, (is_mm rc cc = false \/ s1 = 0) -> cell4 u i s1 j s2 = 0)
    | _ => False
    end.
Definition columns_mask_agrees (rc cc : cls) (e : texp) : Prop :=
  forall u nr nc sr sc, fits u nr (sel_len rc sr) nc (sel_len cc sc) ->
    match teval (envC (shape_of rc cc nr nc sr sc) (emb rc cc u)) e with
    | TVal shp f =>
        shp = [nc] /\
        forall j, j < nc ->
          (f [j] = Fin 1 <->
           forall i s1 s2, (is_mm rc cc = false \/ s2 = 0) -> cell4 u i s1 j s2 = 0)
    | _ => False
    end.

(* ------------------------------------------------------------------------------------ *)
(** * the generic tactic for masks *)

Ltac red_prune :=
  cbv -[xsumN xsumn xdiv xeq xsum map nth List.length Nat.min Nat.sub Nat.eqb bidx bdim bok
        lt is_zero xeqb andb orb cell4 xofnat fits nsum];
  cbn [andb orb].

(* "all the cells the source sums are zero" <-> "all the cells the model names are zero" *)
Ltac prune_logic Hfit :=
  let H := fresh "H" in
  split; intros H;
  [ let a := fresh "a" in let b := fresh "b" in let c := fresh "c" in
    let Hm := fresh "Hm" in let E := fresh "E" in
    intros a b c Hm;
    lazymatch goal with
    | |- ?cell = 0 =>
        destruct (Nat.eq_dec cell 0) as [E|E]; [exact E|]; exfalso;
        let B1 := fresh "B" in let B2 := fresh "B" in let B3 := fresh "B" in let B4 := fresh "B" in
        destruct (Hfit _ _ _ _ E) as (B1 & B2 & B3 & B4);
        repeat match goal with
               | B : ?x < 1 |- _ => assert (x = 0) by lia; subst x; clear B
               end;
        destruct Hm as [Hm|Hm]; [try discriminate|try subst];
        apply E; eapply H; eassumption
    end
  | intros; apply H; first [left; reflexivity | right; reflexivity] ].

Ltac gen_prune :=
  lazymatch goal with
  | |- match ?s with Some _ => _ | None => _ end => unfold s
  end;
  lazymatch goal with
  | |- True => exact I
  | _ =>
      let u := fresh "u" in let Hfit := fresh "Hfit" in
      intros u nr nc sr sc Hfit; cbv [fits sel_len] in Hfit;
      repeat (progress (red_prune; norm_dims));
      split; [reflexivity|];
      let i := fresh "i" in let Hi := fresh "Hi" in
      intros i Hi;
      rewrite ?bidx_lt by assumption; repeat setoid_rewrite bidx_1;
      red_prune;
      repeat setoid_rewrite xsumN_ofnat; rewrite is_zero_ofnat;
      repeat setoid_rewrite nsum_zero_iff;
      prune_logic Hfit
  end.

(* ------------------------------------------------------------------------------------ *)
(** * matrix/cubemeasure.py: rows_pruning_mask / columns_pruning_mask of the nine classes *)

Lemma gen_CatXCatCubeCounts_rows_pruning_mask :
  match src_CatXCatCubeCounts_rows_pruning_mask with
  | Some e => rows_mask_agrees CCat CCat e
  | None => True
  end.
Proof. gen_prune. Qed.

Lemma gen_CatXCatCubeCounts_columns_pruning_mask :
  match src_CatXCatCubeCounts_columns_pruning_mask with
  | Some e => columns_mask_agrees CCat CCat e
  | None => True
  end.
Proof. gen_prune. Qed.

Lemma gen_CatXMrCubeCounts_rows_pruning_mask :
  match src_CatXMrCubeCounts_rows_pruning_mask with
  | Some e => rows_mask_agrees CCat CMr e
  | None => True
  end.
Proof. gen_prune. Qed.

Lemma gen_CatXMrCubeCounts_columns_pruning_mask :
  match src_CatXMrCubeCounts_columns_pruning_mask with
  | Some e => columns_mask_agrees CCat CMr e
  | None => True
  end.
Proof. gen_prune. Qed.

Lemma gen_CatXArrCubeCounts_rows_pruning_mask :
  match src_CatXArrCubeCounts_rows_pruning_mask with
  | Some e => rows_mask_agrees CCat CArr e
  | None => True
  end.
Proof. gen_prune. Qed.

Lemma gen_CatXArrCubeCounts_columns_pruning_mask :
  match src_CatXArrCubeCounts_columns_pruning_mask with
  | Some e => columns_mask_agrees CCat CArr e
  | None => True
  end.
Proof. gen_prune. Qed.

Lemma gen_MrXCatCubeCounts_rows_pruning_mask :
  match src_MrXCatCubeCounts_rows_pruning_mask with
  | Some e => rows_mask_agrees CMr CCat e
  | None => True
  end.
Proof. gen_prune. Qed.

Lemma gen_MrXCatCubeCounts_columns_pruning_mask :
  match src_MrXCatCubeCounts_columns_pruning_mask with
  | Some e => columns_mask_agrees CMr CCat e
  | None => True
  end.
Proof. gen_prune. Qed.

Lemma gen_MrXMrCubeCounts_rows_pruning_mask :
  match src_MrXMrCubeCounts_rows_pruning_mask with
  | Some e => rows_mask_agrees CMr CMr e
  | None => True
  end.
Proof. gen_prune. Qed.

Lemma gen_MrXMrCubeCounts_columns_pruning_mask :
  match src_MrXMrCubeCounts_columns_pruning_mask with
  | Some e => columns_mask_agrees CMr CMr e
  | None => True
  end.
Proof. gen_prune. Qed.

Lemma gen_MrXArrCubeCounts_rows_pruning_mask :
  match src_MrXArrCubeCounts_rows_pruning_mask with
  | Some e => rows_mask_agrees CMr CArr e
  | None => True
  end.
Proof. gen_prune. Qed.

Lemma gen_MrXArrCubeCounts_columns_pruning_mask :
  match src_MrXArrCubeCounts_columns_pruning_mask with
  | Some e => columns_mask_agrees CMr CArr e
  | None => True
  end.
Proof. gen_prune. Qed.

Lemma gen_ArrXCatCubeCounts_rows_pruning_mask :
  match src_ArrXCatCubeCounts_rows_pruning_mask with
  | Some e => rows_mask_agrees CArr CCat e
  | None => True
  end.
Proof. gen_prune. Qed.

Lemma gen_ArrXCatCubeCounts_columns_pruning_mask :
  match src_ArrXCatCubeCounts_columns_pruning_mask with
  | Some e => columns_mask_agrees CArr CCat e
  | None => True
  end.
Proof. gen_prune. Qed.

Lemma gen_ArrXMrCubeCounts_rows_pruning_mask :
  match src_ArrXMrCubeCounts_rows_pruning_mask with
  | Some e => rows_mask_agrees CArr CMr e
  | None => True
  end.
Proof. gen_prune. Qed.

Lemma gen_ArrXMrCubeCounts_columns_pruning_mask :
  match src_ArrXMrCubeCounts_columns_pruning_mask with
  | Some e => columns_mask_agrees CArr CMr e
  | None => True
  end.
Proof. gen_prune. Qed.

Lemma gen_ArrXArrCubeCounts_rows_pruning_mask :
  match src_ArrXArrCubeCounts_rows_pruning_mask with
  | Some e => rows_mask_agrees CArr CArr e
  | None => True
  end.
Proof. gen_prune. Qed.

Lemma gen_ArrXArrCubeCounts_columns_pruning_mask :
  match src_ArrXArrCubeCounts_columns_pruning_mask with
  | Some e => columns_mask_agrees CArr CArr e
  | None => True
  end.
Proof. gen_prune. Qed.

(* through the factory's dict *)
Lemma gen_dispatch_rows_pruning_mask :
  match src_CubeCounts_dispatch with
  | Some D => forall rc cc,
      meth src_methods (dict_pick (tag rc, tag cc) (fst D) (snd D)) "rows_pruning_mask"
           (rows_mask_agrees rc cc)
  | None => True
  end.
Proof.
  dispatch9 src_CubeCounts_dispatch
    gen_CatXCatCubeCounts_rows_pruning_mask gen_CatXMrCubeCounts_rows_pruning_mask
    gen_CatXArrCubeCounts_rows_pruning_mask gen_MrXCatCubeCounts_rows_pruning_mask
    gen_MrXMrCubeCounts_rows_pruning_mask gen_MrXArrCubeCounts_rows_pruning_mask
    gen_ArrXCatCubeCounts_rows_pruning_mask gen_ArrXMrCubeCounts_rows_pruning_mask
    gen_ArrXArrCubeCounts_rows_pruning_mask.
Qed.

Lemma gen_dispatch_columns_pruning_mask :
  match src_CubeCounts_dispatch with
  | Some D => forall rc cc,
      meth src_methods (dict_pick (tag rc, tag cc) (fst D) (snd D)) "columns_pruning_mask"
           (columns_mask_agrees rc cc)
  | None => True
  end.
Proof.
  dispatch9 src_CubeCounts_dispatch
    gen_CatXCatCubeCounts_columns_pruning_mask gen_CatXMrCubeCounts_columns_pruning_mask
    gen_CatXArrCubeCounts_columns_pruning_mask gen_MrXCatCubeCounts_columns_pruning_mask
    gen_MrXMrCubeCounts_columns_pruning_mask gen_MrXArrCubeCounts_columns_pruning_mask
    gen_ArrXCatCubeCounts_columns_pruning_mask gen_ArrXMrCubeCounts_columns_pruning_mask
    gen_ArrXArrCubeCounts_columns_pruning_mask.
Qed.

(* ------------------------------------------------------------------------------------ *)
(** * stripe/cubemeasure.py: .pruning_base of the three classes
      us[i][s] = unweighted counts of a strand (s: selection state of an MR item; only 0 for
      the others); a row is pruned where the base is 0 *)

Definition cell2 (us : list (list nat)) (i s : nat) : nat := nth s (nth i us []) 0.
Definition emb1 (c : cls) (us : list (list nat)) : tensor := fun idx =>
  match c with
  | CMr => match idx with [i; s] => xofnat (cell2 us i s) | _ => NaN end
  | _ => match idx with [i] => xofnat (cell2 us i 0) | _ => NaN end
  end.
Definition fits1 (us : list (list nat)) (n s : nat) : Prop :=
  forall i t, cell2 us i t <> 0 -> i < n /\ t < s.
Definition stripe_shape (c : cls) (n s : nat) : list nat :=
  match c with CMr => [n; s] | _ => [n] end.

Definition strand_base_agrees (c : cls) (e : texp) : Prop :=
  forall us n s, fits1 us n (sel_len c s) ->
    match teval (envS (stripe_shape c n s) (emb1 c us)) e with
    | TVal shp f =>
        shp = [n] /\
        forall i, i < n -> (is_zero (f [i]) = Fin 1 <-> forall t, cell2 us i t = 0)
    | _ => False
    end.

Ltac red_prune1 :=
  cbv -[xsumN xsumn xdiv xeq xsum map nth List.length Nat.min Nat.sub Nat.eqb bidx bdim bok
        lt is_zero xeqb andb orb cell2 xofnat fits1 nsum];
  cbn [andb orb].

Ltac gen_prune1 :=
  lazymatch goal with
  | |- match ?s with Some _ => _ | None => _ end => unfold s
  end;
  lazymatch goal with
  | |- True => exact I
  | _ =>
      let us := fresh "us" in let Hfit := fresh "Hfit" in
      intros us n s Hfit; cbv [fits1 sel_len] in Hfit;
      repeat (progress (red_prune1; norm_dims));
      split; [reflexivity|];
      let i := fresh "i" in let Hi := fresh "Hi" in
      intros i Hi;
      rewrite ?bidx_lt by assumption; repeat setoid_rewrite bidx_1;
      red_prune1;
      repeat setoid_rewrite xsumN_ofnat; rewrite is_zero_ofnat;
      repeat setoid_rewrite nsum_zero_iff;
      let H := fresh "H" in
      split; intros H;
      [ let t := fresh "t" in let E := fresh "E" in
        intros t;
        lazymatch goal with
        | |- ?cell = 0 =>
            destruct (Nat.eq_dec cell 0) as [E|E]; [exact E|]; exfalso;
            let B1 := fresh "B" in let B2 := fresh "B" in
            destruct (Hfit _ _ E) as (B1 & B2);
            repeat match goal with
                   | B : ?x < 1 |- _ => assert (x = 0) by lia; subst x; clear B
                   end;
            apply E; first [exact H | eapply H; eassumption]
        end
      | intros; apply H ]
  end.

Lemma gen_stripe_CatCubeCounts_pruning_base :
  match ssrc_CatCubeCounts_pruning_base with
  | Some e => strand_base_agrees CCat e
  | None => True
  end.
Proof. gen_prune1. Qed.

Lemma gen_stripe_MrCubeCounts_pruning_base :
  match ssrc_MrCubeCounts_pruning_base with
  | Some e => strand_base_agrees CMr e
  | None => True
  end.
Proof. gen_prune1. Qed.

Lemma gen_stripe_NumArrCubeCounts_pruning_base :
  match ssrc_NumArrCubeCounts_pruning_base with
  | Some e => strand_base_agrees CArr e
  | None => True
  end.
Proof. gen_prune1. Qed.
