(* C08: the sort-by-value collator - the value-sorted body and subtotal groups, the NaN
   buckets, the fixed groups. *)
From Coq Require Import List Sorting Permutation ZArith String Bool Lia Arith QArith
  OrderedTypeEx Lqa.
From CC Require Import Base.XQ Base.SortX Spec.OrderSpec Model.Collator
  Proofs.OrderCollate Proofs.OrderExplicit Proofs.OrderIds Proofs.OrderVisible.
Import ListNotations.
Local Close Scope Q_scope.
Local Open Scope nat_scope.

(* --- the order on sort values ----------------------------------------------------------------- *)
Lemma num_leb_total a b : num_leb a b = true \/ num_leb b a = true.
Proof.
  destruct a as [p|[|]|], b as [q|[|]|]; simpl; auto.
  rewrite !Qle_bool_iff. destruct (Qlt_le_dec p q) as [H|H]; auto.
  left. apply Qlt_le_weak. exact H.
Qed.

Lemma num_leb_trans a b c : num_leb a b = true -> num_leb b c = true -> num_leb a c = true.
Proof.
  destruct a as [p|[|]|], b as [q|[|]|], c as [r|[|]|]; simpl; auto; try discriminate.
  rewrite !Qle_bool_iff. apply Qle_trans.
Qed.

Lemma string_leb_iff a b : String.leb a b = true <-> a = b \/ String_as_OT.lt a b.
Proof.
  unfold String.leb. fold (String_as_OT.cmp a b).
  destruct (String_as_OT.cmp a b) eqn:E.
  - apply String_as_OT.cmp_eq in E. tauto.
  - apply String_as_OT.cmp_lt in E. tauto.
  - split; [discriminate|]. intros H. exfalso.
    rewrite String_as_OT.cmp_antisym in E.
    destruct (String_as_OT.cmp b a) eqn:E'; try discriminate.
    apply String_as_OT.cmp_lt in E'. destruct H as [H|H].
    + subst. apply (String_as_OT.lt_not_eq _ _ E'). reflexivity.
    + apply (String_as_OT.lt_not_eq _ _ (String_as_OT.lt_trans _ _ _ H E')). reflexivity.
Qed.

Lemma string_leb_trans a b c :
  String.leb a b = true -> String.leb b c = true -> String.leb a c = true.
Proof.
  rewrite !string_leb_iff. intros [->|H1] [->|H2]; auto.
  right. eapply String_as_OT.lt_trans; eauto.
Qed.

Lemma sval_leb_total a b : sval_leb a b = true \/ sval_leb b a = true.
Proof.
  destruct a, b; simpl; auto.
  - apply num_leb_total.
  - apply String.leb_total.
Qed.

Lemma sval_leb_trans a b c : sval_leb a b = true -> sval_leb b c = true -> sval_leb a c = true.
Proof.
  destruct a, b, c; simpl; auto; try discriminate.
  - apply num_leb_trans.
  - apply string_leb_trans.
Qed.

Lemma vkey_leb_total a b : vkey_leb a b = true \/ vkey_leb b a = true.
Proof.
  unfold vkey_leb.
  destruct (sval_leb (fst a) (fst b)) eqn:AB, (sval_leb (fst b) (fst a)) eqn:BA; auto.
  - rewrite !Z.leb_le. lia.
  - destruct (sval_leb_total (fst a) (fst b)); congruence.
Qed.

Lemma vkey_leb_trans a b c : vkey_leb a b = true -> vkey_leb b c = true -> vkey_leb a c = true.
Proof.
  unfold vkey_leb. intros H1 H2.
  destruct (sval_leb (fst a) (fst b)) eqn:AB; [|discriminate].
  destruct (sval_leb (fst b) (fst c)) eqn:BC; [|discriminate].
  rewrite (sval_leb_trans _ _ _ AB BC).
  destruct (sval_leb (fst c) (fst a)) eqn:CA; auto.
  rewrite (sval_leb_trans _ _ _ BC CA) in H1. rewrite (sval_leb_trans _ _ _ CA AB) in H2.
  rewrite Z.leb_le in *. lia.
Qed.

Lemma vkey_dir_leb_total desc a b : vkey_dir_leb desc a b = true \/ vkey_dir_leb desc b a = true.
Proof. unfold vkey_dir_leb. destruct desc; apply vkey_leb_total. Qed.

Lemma vkey_dir_leb_trans desc a b c :
  vkey_dir_leb desc a b = true -> vkey_dir_leb desc b c = true -> vkey_dir_leb desc a c = true.
Proof.
  unfold vkey_dir_leb. destruct desc; intros H1 H2.
  - eapply vkey_leb_trans; eauto.
  - eapply vkey_leb_trans; eauto.
Qed.

(* what the tuple order means: by value; equal values by index *)
Lemma vkey_leb_spec a b :
  vkey_leb a b = true <->
  sval_leb (fst a) (fst b) = true /\
  (sval_leb (fst b) (fst a) = true -> (snd a <= snd b)%Z).
Proof.
  unfold vkey_leb.
  destruct (sval_leb (fst a) (fst b)), (sval_leb (fst b) (fst a)); rewrite ?Z.leb_le;
    intuition discriminate.
Qed.

(* "x comes before y" in a value-sorted group: descending = larger value first, equal
   values larger index first; ascending = smaller value first, equal values smaller index
   first *)
Definition before_ok (desc : bool) (x y : vkey) : Prop :=
  if desc
  then sval_leb (fst y) (fst x) = true /\ (sval_leb (fst x) (fst y) = true -> (snd y <= snd x)%Z)
  else sval_leb (fst x) (fst y) = true /\ (sval_leb (fst y) (fst x) = true -> (snd x <= snd y)%Z).

Lemma vkey_dir_leb_spec desc x y : vkey_dir_leb desc x y = true <-> before_ok desc x y.
Proof. unfold vkey_dir_leb, before_ok. destruct desc; apply vkey_leb_spec. Qed.

Theorem sort_vkeys_sorted desc l : StronglySorted (before_ok desc) (sort_vkeys desc l).
Proof.
  unfold sort_vkeys.
  assert (H := isort_sorted (vkey_dir_leb desc) l (vkey_dir_leb_total desc) (vkey_dir_leb_trans desc)).
  eapply SS_impl_in; [|exact H]. intros x y _ _ L. apply vkey_dir_leb_spec. exact L.
Qed.

Theorem sort_vkeys_perm desc l : Permutation (sort_vkeys desc l) l.
Proof. apply isort_perm. Qed.

(* whatever algorithm sorted the (value, idx) tuples: with pairwise distinct indexes there
   is only one sorted arrangement *)
Lemma NoDup_map_inj_in {A B} (f : A -> B) l a b :
  NoDup (map f l) -> In a l -> In b l -> f a = f b -> a = b.
Proof.
  induction l as [|x t IH]; simpl; intros N Ha Hb E; [destruct Ha|].
  inversion N; subst. destruct Ha as [->|Ha], Hb as [->|Hb]; auto.
  - exfalso. apply H1. rewrite E. apply in_map, Hb.
  - exfalso. apply H1. rewrite <- E. apply in_map, Ha.
Qed.

Theorem sorted_vkeys_unique desc (l s : list vkey) :
  NoDup (map snd l) -> Permutation s l -> StronglySorted (before_ok desc) s ->
  s = sort_vkeys desc l.
Proof.
  intros N P S. apply (sorted_perm_unique_local (before_ok desc)); auto.
  - apply sort_vkeys_sorted.
  - rewrite P. apply Permutation_sym, sort_vkeys_perm.
  - intros a b Ha Hb H1 H2.
    assert (N' : NoDup (map snd s)).
    { eapply Permutation_NoDup; [|exact N]. apply Permutation_map, Permutation_sym, P. }
    apply (NoDup_map_inj_in snd s a b N' Ha Hb).
    unfold before_ok in *. destruct desc; destruct H1 as [A1 A2], H2 as [B1 B2];
      specialize (A2 B1); specialize (B2 A1); lia.
Qed.

(* --- body ---------------------------------------------------------------------------------------- *)
(* the sorted part of the body: a permutation of the (value, index) pairs of the base
   elements that are neither fixed nor NaN-valued, sorted in the requested direction *)
Theorem body_sorted desc (vals : list sval) fixed :
  let body := sort_vkeys desc (body_keys vals fixed) in
  Permutation body (body_keys vals fixed) /\ StronglySorted (before_ok desc) body.
Proof. split; [apply sort_vkeys_perm|apply sort_vkeys_sorted]. Qed.

Lemma body_keys_in (vals : list sval) fixed v z :
  In (v, z) (body_keys vals fixed) <->
  exists i, z = Z.of_nat i /\ i < List.length vals /\ nth i vals (VNum NaN) = v
            /\ ~ In i fixed /\ sval_nan v = false.
Proof.
  unfold body_keys. rewrite in_map_iff. split.
  - intros ([i v'] & E & H). simpl in E. inversion E; subst. apply filter_In in H.
    destruct H as [H F]. simpl in F. apply andb_true_iff in F. destruct F as [F1 F2].
    apply negb_true_iff in F1, F2.
    apply (in_enumerate_iff _ _ _ (VNum NaN)) in H. destruct H as [H1 H2].
    exists i. repeat split; auto. intros I. apply nmem_In in I. congruence.
  - intros (i & -> & L & <- & NF & NN). exists (i, nth i vals (VNum NaN)). split; auto.
    apply filter_In. split; [apply nth_in_enumerate; exact L|]. simpl.
    rewrite NN. destruct (nmem i fixed) eqn:E; auto. apply nmem_In in E. contradiction.
Qed.

Lemma body_keys_idx_nodup (vals : list sval) fixed : NoDup (map snd (body_keys vals fixed)).
Proof.
  unfold body_keys. rewrite map_map. simpl.
  rewrite <- (map_map fst Z.of_nat).
  apply FinFun.Injective_map_NoDup; [intros a b; apply Nat2Z.inj|].
  apply NoDup_map_filter. rewrite fst_enumerate. apply seq_NoDup.
Qed.

(* pointwise reading: earlier in the body = not smaller (descending) / not larger (ascending) *)
Theorem body_monotone desc (vals : list sval) fixed p q d :
  let body := sort_vkeys desc (body_keys vals fixed) in
  p < q -> q < List.length body ->
  before_ok desc (nth p body d) (nth q body d).
Proof. intros body Hpq Hq. apply SS_nth; auto. apply sort_vkeys_sorted. Qed.

(* NaN-valued elements: in payload order *)
Theorem body_nans_sorted (vals : list sval) fixed : StronglySorted Z.lt (body_nans vals fixed).
Proof.
  unfold body_nans.
  apply (SS_map Z.lt _ (fun x y : nat * sval => fst x < fst y)); [intros; simpl; lia|].
  apply SS_filter. rewrite enumerate_enum_from. apply enum_from_sorted.
Qed.

Theorem body_nans_in (vals : list sval) fixed i :
  In (Z.of_nat i) (body_nans vals fixed) <->
  i < List.length vals /\ ~ In i fixed /\ sval_nan (nth i vals (VNum NaN)) = true.
Proof.
  unfold body_nans. rewrite in_map_iff. split.
  - intros ([k v] & E & H). simpl in E. apply Nat2Z.inj in E. subst. apply filter_In in H.
    destruct H as [H F]. simpl in F. apply andb_true_iff in F. destruct F as [F1 F2].
    apply negb_true_iff in F1.
    apply (in_enumerate_iff _ _ _ (VNum NaN)) in H. destruct H as [H1 H2]. subst.
    repeat split; auto. intros I. apply nmem_In in I. congruence.
  - intros (L & NF & NN). exists (i, nth i vals (VNum NaN)). split; auto.
    apply filter_In. split; [apply nth_in_enumerate; exact L|]. simpl. rewrite NN.
    destruct (nmem i fixed) eqn:E; auto. apply nmem_In in E. contradiction.
Qed.

(* --- subtotal group ------------------------------------------------------------------------------- *)
Theorem subtotals_sorted desc (svals : list sval) :
  let grp := sort_vkeys desc (subtotal_keys svals) in
  Permutation grp (subtotal_keys svals) /\ StronglySorted (before_ok desc) grp.
Proof. split; [apply sort_vkeys_perm|apply sort_vkeys_sorted]. Qed.

Lemma combine_neg_sorted {B} (bs : list B) n :
  StronglySorted (fun x y : B * Z => (snd x < snd y)%Z) (combine bs (neg_idxs n)).
Proof.
  unfold neg_idxs.
  assert (S : StronglySorted Z.lt (map (fun i : nat => (Z.of_nat i - Z.of_nat n)%Z) (seq 0 n))).
  { apply (SS_map Z.lt _ lt); [intros; lia|]. apply seq_sorted. }
  revert bs. induction S as [|z t St IH Hz]; intros bs.
  - destruct bs; constructor.
  - destruct bs as [|b bs]; [constructor|]. simpl. constructor; auto.
    rewrite Forall_forall in *. intros [b' z'] H. apply in_combine_r in H. simpl. auto.
Qed.

Theorem subtotal_nans_sorted (svals : list sval) : StronglySorted Z.lt (subtotal_nans svals).
Proof.
  unfold subtotal_nans.
  apply (SS_map Z.lt _ (fun x y : sval * Z => (snd x < snd y)%Z)); auto.
  apply SS_filter. apply combine_neg_sorted.
Qed.

(* --- fixed groups ---------------------------------------------------------------------------------- *)
Fixpoint first_index (i : ident) (ids : list ident) : option nat :=
  match ids with
  | [] => None
  | x :: t => if ident_eqb x i then Some 0 else option_map S (first_index i t)
  end.

Lemma first_index_spec i ids k :
  first_index i ids = Some k -> k < List.length ids /\ nth k ids INone = i.
Proof.
  revert k. induction ids as [|x t IH]; simpl; intros k H; [discriminate|].
  destruct (ident_eqb x i) eqn:E.
  - inversion H; subst. apply ident_eqb_eq in E. split; [lia|auto].
  - destruct (first_index i t) as [k'|]; [|discriminate]. inversion H; subst.
    destruct (IH k' eq_refl). split; [lia|auto].
Qed.

Lemma first_index_none i ids : first_index i ids = None <-> ~ In i ids.
Proof.
  induction ids as [|x t IH]; simpl; [tauto|].
  destruct (ident_eqb x i) eqn:E.
  - apply ident_eqb_eq in E. split; [discriminate|]. intros H. exfalso. apply H. auto.
  - apply ident_eqb_neq in E. destruct (first_index i t) eqn:F; simpl.
    + split; [discriminate|]. intros H. exfalso.
      assert (H0 : ~ In i t) by (intros X; apply H; auto).
      apply IH in H0. discriminate.
    + split; auto. intros _ [H|H]; [contradiction|].
      assert (X : ~ In i t) by (apply IH; reflexivity). contradiction.
Qed.

Lemma idx_by_id_fold i (l : list (nat * ident)) acc :
  fold_left (fun acc (ke : nat * ident) => if ident_eqb (snd ke) i then Some (fst ke) else acc) l acc
  = match fold_left (fun acc (ke : nat * ident) => if ident_eqb (snd ke) i then Some (fst ke) else acc) l None with
    | Some k => Some k
    | None => acc
    end.
Proof.
  revert acc. induction l as [|x t IH]; intros acc; simpl; auto.
  rewrite IH. rewrite (IH (if ident_eqb (snd x) i then Some (fst x) else None)).
  destruct (fold_left _ t None); auto. destruct (ident_eqb (snd x) i); auto.
Qed.

(* with distinct element ids the dict {id: idx} finds THE element with that id *)
Lemma idx_fold_first i (t : list ident) : forall s, NoDup t ->
  fold_left (fun acc (ke : nat * ident) => if ident_eqb (snd ke) i then Some (fst ke) else acc)
            (combine (seq s (List.length t)) t) None
  = option_map (fun k => s + k) (first_index i t).
Proof.
  induction t as [|x u IH]; intros s N; simpl; auto.
  inversion N; subst. rewrite idx_by_id_fold. rewrite (IH (S s)) by assumption.
  destruct (ident_eqb x i) eqn:E.
  - apply ident_eqb_eq in E. subst.
    assert (F : first_index i u = None) by (apply first_index_none; assumption).
    rewrite F. simpl. f_equal. lia.
  - destruct (first_index i u); simpl; auto; f_equal; lia.
Qed.

Lemma idx_by_id_first ids i : NoDup ids -> idx_by_id ids i = first_index i ids.
Proof.
  intros N. unfold idx_by_id, enumerate. rewrite idx_fold_first by exact N.
  destruct (first_index i ids); reflexivity.
Qed.

(* the fixed group: the listed ids in listed order, each as the payload index of the
   element that has this id; ids of no element are dropped *)
Theorem fixed_listed ids listed :
  NoDup ids ->
  fixed_idxs ids listed
  = flat_map (fun i => match first_index i ids with Some k => [k] | None => [] end) listed.
Proof.
  intros N. unfold fixed_idxs. apply flat_map_ext. intros i. rewrite idx_by_id_first by exact N.
  reflexivity.
Qed.

(* --- shape ------------------------------------------------------------------------------------------- *)
Theorem sbv_shape d s vals svals empties :
  sbv_display d s vals svals empties =
  let ids := d_ids d in
  let top := fixed_idxs ids (s_top s) in
  let bottom := fixed_idxs ids (s_bottom s) in
  let subs := map snd (sort_vkeys (s_desc s) (subtotal_keys svals)) ++ subtotal_nans svals in
  displayed (collator_hidden d empties)
    ((if s_desc s then subs else [])
     ++ map Z.of_nat top
     ++ (map snd (sort_vkeys (s_desc s) (body_keys vals (top ++ bottom)))
         ++ body_nans vals (top ++ bottom))
     ++ map Z.of_nat bottom
     ++ (if s_desc s then [] else subs)).
Proof.
  unfold sbv_display, sbv_segments, body_idxs, subtotal_idxs. cbv zeta. simpl.
  rewrite app_nil_r. reflexivity.
Qed.

(* fallback: an unresolvable sort key gives exactly the anchored payload order *)
Theorem sbv_fallback d s empties psub :
  display_order d (ByValue s None) empties psub = display_order d (ByAnchor OPayload) empties psub
  /\ display_order_bogus d (ByValue s None) empties psub
     = display_order_bogus d (ByAnchor OPayload) empties psub.
Proof. split; reflexivity. Qed.

(* --- surrogate sort keys -------------------------------------------------------------------------------- *)
Local Open Scope Q_scope.
(* sorting on the variance instead of the standard deviation (its non-negative root):
   same comparisons *)
Theorem sq_le_iff (a b : Q) : 0 <= a -> 0 <= b -> (a <= b <-> a * a <= b * b).
Proof. intros Ha Hb. split; intros H; nra. Qed.

(* sorting on the standard error instead of the margin of error (a positive multiple), or on
   the proportion instead of the population count: same comparisons *)
Theorem scale_le_iff (c a b : Q) : 0 < c -> (a <= b <-> c * a <= c * b).
Proof. intros Hc. split; intros H; nra. Qed.
