(* C08: the sort-by-value collator - the value-sorted body and subtotal groups, the NaN
   buckets, the fixed groups. *)
From Coq Require Import List Sorting Permutation ZArith String Bool Lia Arith QArith
  OrderedTypeEx Lqa.
From CC Require Import Base.XQ Base.SortX Spec.OrderSpec Model.Collator
  Proofs.OrderCollate Proofs.OrderExplicit Proofs.OrderIds Proofs.OrderVisible Proofs.SbvDedup.
Import ListNotations.
Local Close Scope Q_scope.
Local Open Scope nat_scope.

(* --- the order on sort values ----------------------------------------------------------------- *)
Lemma num_leb_total a b : num_leb a b = true \/ num_leb b a = true.
Proof.
  destruct a as [p|[|]|], b as [q|[|]|]; simpl; auto.
  rewrite !Qle_bool_iff. destruct (Qlt_le_dec p q) as [H|H]; auto.
  left. apply Qlt_le_weak. exact H.
Qed.

Lemma num_leb_trans a b c : num_leb a b = true -> num_leb b c = true -> num_leb a c = true.
Proof.
  destruct a as [p|[|]|], b as [q|[|]|], c as [r|[|]|]; simpl; auto; try discriminate.
  rewrite !Qle_bool_iff. apply Qle_trans.
Qed.

Lemma string_leb_iff a b : String.leb a b = true <-> a = b \/ String_as_OT.lt a b.
Proof.
  unfold String.leb. fold (String_as_OT.cmp a b).
  destruct (String_as_OT.cmp a b) eqn:E.
  - apply String_as_OT.cmp_eq in E. tauto.
  - apply String_as_OT.cmp_lt in E. tauto.
  - split; [discriminate|]. intros H. exfalso.
    rewrite String_as_OT.cmp_antisym in E.
    destruct (String_as_OT.cmp b a) eqn:E'; try discriminate.
    apply String_as_OT.cmp_lt in E'. destruct H as [H|H].
    + subst. apply (String_as_OT.lt_not_eq _ _ E'). reflexivity.
    + apply (String_as_OT.lt_not_eq _ _ (String_as_OT.lt_trans _ _ _ H E')). reflexivity.
Qed.

Lemma string_leb_trans a b c :
  String.leb a b = true -> String.leb b c = true -> String.leb a c = true.
Proof.
  rewrite !string_leb_iff. intros [->|H1] [->|H2]; auto.
  right. eapply String_as_OT.lt_trans; eauto.
Qed.

Lemma sval_leb_total a b : sval_leb a b = true \/ sval_leb b a = true.
Proof.
  destruct a, b; simpl; auto.
  - apply num_leb_total.
  - apply String.leb_total.
Qed.

Lemma sval_leb_trans a b c : sval_leb a b = true -> sval_leb b c = true -> sval_leb a c = true.
Proof.
  destruct a, b, c; simpl; auto; try discriminate.
  - apply num_leb_trans.
  - apply string_leb_trans.
Qed.

Lemma vkey_leb_total a b : vkey_leb a b = true \/ vkey_leb b a = true.
Proof.
  unfold vkey_leb.
  destruct (sval_leb (fst a) (fst b)) eqn:AB, (sval_leb (fst b) (fst a)) eqn:BA; auto.
  - rewrite !Z.leb_le. lia.
  - destruct (sval_leb_total (fst a) (fst b)); congruence.
Qed.

Lemma vkey_leb_trans a b c : vkey_leb a b = true -> vkey_leb b c = true -> vkey_leb a c = true.
Proof.
  unfold vkey_leb. intros H1 H2.
  destruct (sval_leb (fst a) (fst b)) eqn:AB; [|discriminate].
  destruct (sval_leb (fst b) (fst c)) eqn:BC; [|discriminate].
  rewrite (sval_leb_trans _ _ _ AB BC).
  destruct (sval_leb (fst c) (fst a)) eqn:CA; auto.
  rewrite (sval_leb_trans _ _ _ BC CA) in H1. rewrite (sval_leb_trans _ _ _ CA AB) in H2.
  rewrite Z.leb_le in *. lia.
Qed.

Lemma vkey_dir_leb_total desc a b : vkey_dir_leb desc a b = true \/ vkey_dir_leb desc b a = true.
Proof. unfold vkey_dir_leb. destruct desc; apply vkey_leb_total. Qed.

Lemma vkey_dir_leb_trans desc a b c :
  vkey_dir_leb desc a b = true -> vkey_dir_leb desc b c = true -> vkey_dir_leb desc a c = true.
Proof.
  unfold vkey_dir_leb. destruct desc; intros H1 H2.
  - eapply vkey_leb_trans; eauto.
  - eapply vkey_leb_trans; eauto.
Qed.

(* what the tuple order means: by value; equal values by index *)
Lemma vkey_leb_spec a b :
  vkey_leb a b = true <->
  sval_leb (fst a) (fst b) = true /\
  (sval_leb (fst b) (fst a) = true -> (snd a <= snd b)%Z).
Proof.
  unfold vkey_leb.
  destruct (sval_leb (fst a) (fst b)), (sval_leb (fst b) (fst a)); rewrite ?Z.leb_le;
    intuition discriminate.
Qed.

(* "x comes before y" in a value-sorted group: descending = larger value first, equal
   values larger index first; ascending = smaller value first, equal values smaller index
   first *)
Definition before_ok (desc : bool) (x y : vkey) : Prop :=
  if desc
  then sval_leb (fst y) (fst x) = true /\ (sval_leb (fst x) (fst y) = true -> (snd y <= snd x)%Z)
  else sval_leb (fst x) (fst y) = true /\ (sval_leb (fst y) (fst x) = true -> (snd x <= snd y)%Z).

Lemma vkey_dir_leb_spec desc x y : vkey_dir_leb desc x y = true <-> before_ok desc x y.
Proof. unfold vkey_dir_leb, before_ok. destruct desc; apply vkey_leb_spec. Qed.

Theorem sort_vkeys_sorted desc l : StronglySorted (before_ok desc) (sort_vkeys desc l).
Proof.
  unfold sort_vkeys.
  assert (H := isort_sorted (vkey_dir_leb desc) l (vkey_dir_leb_total desc) (vkey_dir_leb_trans desc)).
  eapply SS_impl_in; [|exact H]. intros x y _ _ L. apply vkey_dir_leb_spec. exact L.
Qed.

Theorem sort_vkeys_perm desc l : Permutation (sort_vkeys desc l) l.
Proof. apply isort_perm. Qed.

(* whatever algorithm sorted the (value, idx) tuples: with pairwise distinct indexes there
   is only one sorted arrangement *)
Lemma NoDup_map_inj_in {A B} (f : A -> B) l a b :
  NoDup (map f l) -> In a l -> In b l -> f a = f b -> a = b.
Proof.
  induction l as [|x t IH]; simpl; intros N Ha Hb E; [destruct Ha|].
  inversion N; subst. destruct Ha as [->|Ha], Hb as [->|Hb]; auto.
  - exfalso. apply H1. rewrite E. apply in_map, Hb.
  - exfalso. apply H1. rewrite <- E. apply in_map, Ha.
Qed.

Theorem sorted_vkeys_unique desc (l s : list vkey) :
  NoDup (map snd l) -> Permutation s l -> StronglySorted (before_ok desc) s ->
  s = sort_vkeys desc l.
Proof.
  intros N P S. apply (sorted_perm_unique_local (before_ok desc)); auto.
  - apply sort_vkeys_sorted.
  - rewrite P. apply Permutation_sym, sort_vkeys_perm.
  - intros a b Ha Hb H1 H2.
    assert (N' : NoDup (map snd s)).
    { eapply Permutation_NoDup; [|exact N]. apply Permutation_map, Permutation_sym, P. }
    apply (NoDup_map_inj_in snd s a b N' Ha Hb).
    unfold before_ok in *. destruct desc; destruct H1 as [A1 A2], H2 as [B1 B2];
      specialize (A2 B1); specialize (B2 A1); lia.
Qed.

(* --- body ---------------------------------------------------------------------------------------- *)
(* the sorted part of the body: a permutation of the (value, index) pairs of the base
   elements that are neither fixed nor NaN-valued, sorted in the requested direction *)
Theorem body_sorted desc (vals : list sval) fixed :
  let body := sort_vkeys desc (body_keys vals fixed) in
  Permutation body (body_keys vals fixed) /\ StronglySorted (before_ok desc) body.
Proof. split; [apply sort_vkeys_perm|apply sort_vkeys_sorted]. Qed.

Lemma body_keys_in (vals : list sval) fixed v z :
  In (v, z) (body_keys vals fixed) <->
  exists i, z = Z.of_nat i /\ i < List.length vals /\ nth i vals (VNum NaN) = v
            /\ ~ In i fixed /\ sval_nan v = false.
Proof.
  unfold body_keys. rewrite in_map_iff. split.
  - intros ([i v'] & E & H). simpl in E. inversion E; subst. apply filter_In in H.
    destruct H as [H F]. simpl in F. apply andb_true_iff in F. destruct F as [F1 F2].
    apply negb_true_iff in F1, F2.
    apply (in_enumerate_iff _ _ _ (VNum NaN)) in H. destruct H as [H1 H2].
    exists i. repeat split; auto. intros I. apply nmem_In in I. congruence.
  - intros (i & -> & L & <- & NF & NN). exists (i, nth i vals (VNum NaN)). split; auto.
    apply filter_In. split; [apply nth_in_enumerate; exact L|]. simpl.
    rewrite NN. destruct (nmem i fixed) eqn:E; auto. apply nmem_In in E. contradiction.
Qed.

Lemma body_keys_idx_nodup (vals : list sval) fixed : NoDup (map snd (body_keys vals fixed)).
Proof.
  unfold body_keys. rewrite map_map. simpl.
  rewrite <- (map_map fst Z.of_nat).
  apply FinFun.Injective_map_NoDup; [intros a b; apply Nat2Z.inj|].
  apply NoDup_map_filter. rewrite fst_enumerate. apply seq_NoDup.
Qed.

(* pointwise reading: earlier in the body = not smaller (descending) / not larger (ascending) *)
Theorem body_monotone desc (vals : list sval) fixed p q d :
  let body := sort_vkeys desc (body_keys vals fixed) in
  p < q -> q < List.length body ->
  before_ok desc (nth p body d) (nth q body d).
Proof. intros body Hpq Hq. apply SS_nth; auto. apply sort_vkeys_sorted. Qed.

(* NaN-valued elements: in payload order *)
Theorem body_nans_sorted (vals : list sval) fixed : StronglySorted Z.lt (body_nans vals fixed).
Proof.
  unfold body_nans.
  apply (SS_map Z.lt _ (fun x y : nat * sval => fst x < fst y)); [intros; simpl; lia|].
  apply SS_filter. rewrite enumerate_enum_from. apply enum_from_sorted.
Qed.

Theorem body_nans_in (vals : list sval) fixed i :
  In (Z.of_nat i) (body_nans vals fixed) <->
  i < List.length vals /\ ~ In i fixed /\ sval_nan (nth i vals (VNum NaN)) = true.
Proof.
  unfold body_nans. rewrite in_map_iff. split.
  - intros ([k v] & E & H). simpl in E. apply Nat2Z.inj in E. subst. apply filter_In in H.
    destruct H as [H F]. simpl in F. apply andb_true_iff in F. destruct F as [F1 F2].
    apply negb_true_iff in F1.
    apply (in_enumerate_iff _ _ _ (VNum NaN)) in H. destruct H as [H1 H2]. subst.
    repeat split; auto. intros I. apply nmem_In in I. congruence.
  - intros (L & NF & NN). exists (i, nth i vals (VNum NaN)). split; auto.
    apply filter_In. split; [apply nth_in_enumerate; exact L|]. simpl. rewrite NN.
    destruct (nmem i fixed) eqn:E; auto. apply nmem_In in E. contradiction.
Qed.

(* --- subtotal group ------------------------------------------------------------------------------- *)
Theorem subtotals_sorted desc (svals : list sval) :
  let grp := sort_vkeys desc (subtotal_keys svals) in
  Permutation grp (subtotal_keys svals) /\ StronglySorted (before_ok desc) grp.
Proof. split; [apply sort_vkeys_perm|apply sort_vkeys_sorted]. Qed.

Lemma combine_neg_sorted {B} (bs : list B) n :
  StronglySorted (fun x y : B * Z => (snd x < snd y)%Z) (combine bs (neg_idxs n)).
Proof.
  unfold neg_idxs.
  assert (S : StronglySorted Z.lt (map (fun i : nat => (Z.of_nat i - Z.of_nat n)%Z) (seq 0 n))).
  { apply (SS_map Z.lt _ lt); [intros; lia|]. apply seq_sorted. }
  revert bs. induction S as [|z t St IH Hz]; intros bs.
  - destruct bs; constructor.
  - destruct bs as [|b bs]; [constructor|]. simpl. constructor; auto.
    rewrite Forall_forall in *. intros [b' z'] H. apply in_combine_r in H. simpl. auto.
Qed.

Theorem subtotal_nans_sorted (svals : list sval) : StronglySorted Z.lt (subtotal_nans svals).
Proof.
  unfold subtotal_nans.
  apply (SS_map Z.lt _ (fun x y : sval * Z => (snd x < snd y)%Z)); auto.
  apply SS_filter. apply combine_neg_sorted.
Qed.

(* --- fixed groups ---------------------------------------------------------------------------------- *)
Fixpoint first_index (i : ident) (ids : list ident) : option nat :=
  match ids with
  | [] => None
  | x :: t => if ident_eqb x i then Some 0 else option_map S (first_index i t)
  end.

Lemma first_index_spec i ids k :
  first_index i ids = Some k -> k < List.length ids /\ nth k ids INone = i.
Proof.
  revert k. induction ids as [|x t IH]; simpl; intros k H; [discriminate|].
  destruct (ident_eqb x i) eqn:E.
  - inversion H; subst. apply ident_eqb_eq in E. split; [lia|auto].
  - destruct (first_index i t) as [k'|]; [|discriminate]. inversion H; subst.
    destruct (IH k' eq_refl). split; [lia|auto].
Qed.

Lemma first_index_none i ids : first_index i ids = None <-> ~ In i ids.
Proof.
  induction ids as [|x t IH]; simpl; [tauto|].
  destruct (ident_eqb x i) eqn:E.
  - apply ident_eqb_eq in E. split; [discriminate|]. intros H. exfalso. apply H. auto.
  - apply ident_eqb_neq in E. destruct (first_index i t) eqn:F; simpl.
    + split; [discriminate|]. intros H. exfalso.
      assert (H0 : ~ In i t) by (intros X; apply H; auto).
      apply IH in H0. discriminate.
    + split; auto. intros _ [H|H]; [contradiction|].
      assert (X : ~ In i t) by (apply IH; reflexivity). contradiction.
Qed.

Lemma idx_by_id_fold i (l : list (nat * ident)) acc :
  fold_left (fun acc (ke : nat * ident) => if ident_eqb (snd ke) i then Some (fst ke) else acc) l acc
  = match fold_left (fun acc (ke : nat * ident) => if ident_eqb (snd ke) i then Some (fst ke) else acc) l None with
    | Some k => Some k
    | None => acc
    end.
Proof.
  revert acc. induction l as [|x t IH]; intros acc; simpl; auto.
  rewrite IH. rewrite (IH (if ident_eqb (snd x) i then Some (fst x) else None)).
  destruct (fold_left _ t None); auto. destruct (ident_eqb (snd x) i); auto.
Qed.

(* with distinct element ids the dict {id: idx} finds THE element with that id *)
Lemma idx_fold_first i (t : list ident) : forall s, NoDup t ->
  fold_left (fun acc (ke : nat * ident) => if ident_eqb (snd ke) i then Some (fst ke) else acc)
            (combine (seq s (List.length t)) t) None
  = option_map (fun k => s + k) (first_index i t).
Proof.
  induction t as [|x u IH]; intros s N; simpl; auto.
  inversion N; subst. rewrite idx_by_id_fold. rewrite (IH (S s)) by assumption.
  destruct (ident_eqb x i) eqn:E.
  - apply ident_eqb_eq in E. subst.
    assert (F : first_index i u = None) by (apply first_index_none; assumption).
    rewrite F. simpl. f_equal. lia.
  - destruct (first_index i u); simpl; auto; f_equal; lia.
Qed.

Lemma idx_by_id_first ids i : NoDup ids -> idx_by_id ids i = first_index i ids.
Proof.
  intros N. unfold idx_by_id, enumerate. rewrite idx_fold_first by exact N.
  destruct (first_index i ids); reflexivity.
Qed.

(* the fixed group: the listed ids in listed order, each as the payload index of the
   element that has this id; ids of no element are dropped *)
Theorem fixed_listed ids listed :
  NoDup ids ->
  fixed_idxs ids listed
  = flat_map (fun i => match first_index i ids with Some k => [k] | None => [] end) listed.
Proof.
  intros N. unfold fixed_idxs. apply flat_map_ext. intros i. rewrite idx_by_id_first by exact N.
  reflexivity.
Qed.

(* the {id: idx} dict: the element found has the id asked for, so two ids never share an index
   (whether or not the element ids are distinct) *)
Lemma idx_by_id_nth ids i k : idx_by_id ids i = Some k -> nth k ids INone = i.
Proof.
  unfold idx_by_id.
  assert (G : forall (l : list (nat * ident)) acc,
             fold_left (fun acc (ke : nat * ident) => if ident_eqb (snd ke) i then Some (fst ke) else acc) l acc
             = Some k -> acc = Some k \/ In (k, i) l).
  { induction l as [|x t IH]; simpl; intros acc H; auto.
    apply IH in H. destruct H as [H|H]; auto.
    destruct (ident_eqb (snd x) i) eqn:E; auto. inversion H; subst. right. left.
    apply ident_eqb_eq in E. destruct x. simpl in *. subst. reflexivity. }
  intros H. apply G in H. destruct H as [H|H]; [discriminate|].
  apply (enumerate_nth _ _ _ INone H).
Qed.

Local Arguments fixed_idxs : simpl never.

Lemma fixed_idxs_cons ids i r :
  fixed_idxs ids (i :: r)
  = (match idx_by_id ids i with Some k => [k] | None => [] end) ++ fixed_idxs ids r.
Proof. reflexivity. Qed.

Lemma fixed_idxs_app ids a b : fixed_idxs ids (a ++ b) = fixed_idxs ids a ++ fixed_idxs ids b.
Proof. unfold fixed_idxs. apply flat_map_app. Qed.

Lemma fixed_idxs_in_iff ids listed k :
  In k (fixed_idxs ids listed) <-> exists i, In i listed /\ idx_by_id ids i = Some k.
Proof.
  unfold fixed_idxs. rewrite in_flat_map. split.
  - intros (i & Hi & H). exists i. split; auto.
    destruct (idx_by_id ids i); [|destruct H]. destruct H as [<-|[]]. reflexivity.
  - intros (i & Hi & E). exists i. split; auto. rewrite E. left. reflexivity.
Qed.

(* a fixed group only holds indexes of elements whose id is listed *)
Lemma fixed_idxs_listed ids listed k :
  In k (fixed_idxs ids listed) -> k < List.length ids /\ In (nth k ids INone) listed.
Proof.
  intros H. apply fixed_idxs_in_iff in H. destruct H as (i & Hi & E). split.
  - apply (idx_by_id_bound _ _ _ E).
  - rewrite (idx_by_id_nth _ _ _ E). exact Hi.
Qed.

(* --- no group lists an index twice ----------------------------------------------------------------- *)
Lemma NoDup_map_of_nat (l : list nat) : NoDup l -> NoDup (map Z.of_nat l).
Proof.
  induction 1 as [|x t Hx Ht IH]; simpl; constructor; auto.
  intros I. apply in_map_iff in I. destruct I as (y & E & Hy). apply Nat2Z.inj in E. subst. auto.
Qed.

Lemma NoDup_map_fst_of_nat {B} (l : list (nat * B)) :
  NoDup (map fst l) -> NoDup (map (fun e : nat * B => Z.of_nat (fst e)) l).
Proof.
  intros N. apply NoDup_map_of_nat in N. rewrite map_map in N. exact N.
Qed.

Lemma NoDup_map_partition {A B} (f : A -> B) (p q : A -> bool) l :
  (forall x, q x = negb (p x)) ->
  NoDup (map f l) ->
  NoDup (map f (filter p l) ++ map f (filter q l)).
Proof.
  intros Q. induction l as [|x t IH]; simpl; intros N; [constructor|].
  inversion N as [|? ? Hx Ht]; subst. specialize (IH Ht).
  assert (Hnot : ~ In (f x) (map f (filter p t) ++ map f (filter q t))).
  { intros I. apply Hx. apply in_app_or in I.
    destruct I as [I|I]; apply in_map_iff in I; destruct I as (y & E & Hy);
      apply filter_In in Hy; rewrite <- E; apply in_map; apply Hy. }
  rewrite (Q x). destruct (p x); simpl.
  - constructor; assumption.
  - eapply Permutation_NoDup; [apply Permutation_middle|]. constructor; assumption.
Qed.

Lemma fst_enumerate_nodup {A} (l : list A) : NoDup (map fst (enumerate l)).
Proof. rewrite fst_enumerate. apply seq_NoDup. Qed.

Lemma subtotal_idxs_nodup desc (svals : list sval) : NoDup (subtotal_idxs desc svals).
Proof.
  unfold subtotal_idxs, subtotal_keys, subtotal_nans.
  set (c := combine svals (neg_idxs (List.length svals))).
  assert (S : map snd c = neg_idxs (List.length svals))
    by (apply map_snd_combine; rewrite neg_idxs_length; reflexivity).
  assert (ND : NoDup (map snd c)) by (rewrite S; apply neg_idxs_nodup).
  eapply Permutation_NoDup.
  - apply Permutation_app_tail. apply Permutation_map. apply Permutation_sym.
    apply (isort_perm (vkey_dir_leb desc)).
  - apply (NoDup_map_partition snd (fun k : vkey => negb (sval_nan (fst k)))
                                (fun k : vkey => sval_nan (fst k)) c); [|exact ND].
    intros x. rewrite negb_involutive. reflexivity.
Qed.

Lemma body_idxs_nodup desc (vals : list sval) fixed : NoDup (body_idxs desc vals fixed).
Proof.
  unfold body_idxs, body_keys, body_nans.
  set (f := fun kv : nat * sval => Z.of_nat (fst kv)).
  set (l := filter (fun kv : nat * sval => negb (nmem (fst kv) fixed)) (enumerate vals)).
  assert (ND : NoDup (map f l)).
  { unfold f, l. apply NoDup_map_fst_of_nat.
    apply NoDup_map_filter. apply fst_enumerate_nodup. }
  assert (X := NoDup_map_partition f (fun kv : nat * sval => negb (sval_nan (snd kv)))
                                  (fun kv : nat * sval => sval_nan (snd kv)) l
                                  (fun x => eq_sym (negb_involutive _)) ND).
  unfold l in X. rewrite !filter_filter in X.
  eapply Permutation_NoDup; [|exact X].
  apply Permutation_app_tail.
  eapply Permutation_trans.
  2:{ apply Permutation_map. apply Permutation_sym. apply (isort_perm (vkey_dir_leb desc)). }
  rewrite map_map. unfold f. simpl. apply Permutation_refl.
Qed.

Lemma body_idxs_nonneg desc (vals : list sval) fixed z :
  In z (body_idxs desc vals fixed) -> (0 <= z)%Z.
Proof.
  unfold body_idxs. intros H. apply in_app_or in H. destruct H as [H|H].
  - apply sort_vkeys_in in H. unfold body_keys in H. rewrite map_map in H.
    apply in_map_iff in H. destruct H as (x & E & _). simpl in E. lia.
  - unfold body_nans in H. apply in_map_iff in H. destruct H as (x & E & _). lia.
Qed.

(* the body only depends on WHICH indexes are fixed *)
Lemma body_idxs_ext desc (vals : list sval) f f' :
  (forall k, In k f <-> In k f') -> body_idxs desc vals f = body_idxs desc vals f'.
Proof.
  intros H.
  assert (E : forall k, nmem k f = nmem k f').
  { intros k. destruct (nmem k f) eqn:A, (nmem k f') eqn:B; auto.
    - apply nmem_In, H, nmem_In in A. congruence.
    - apply nmem_In, H, nmem_In in B. congruence. }
  unfold body_idxs, body_keys, body_nans.
  rewrite (filter_ext (fun kv : nat * sval => negb (nmem (fst kv) f) && negb (sval_nan (snd kv)))
                      (fun kv : nat * sval => negb (nmem (fst kv) f') && negb (sval_nan (snd kv))))
    by (intros kv; rewrite E; reflexivity).
  rewrite (filter_ext (fun kv : nat * sval => negb (nmem (fst kv) f) && sval_nan (snd kv))
                      (fun kv : nat * sval => negb (nmem (fst kv) f') && sval_nan (snd kv)))
    by (intros kv; rewrite E; reflexivity).
  reflexivity.
Qed.

(* --- the display order: plain concatenation, then first mentions -------------------------------------- *)
(* what the collator builds before tuple(dict.fromkeys(...)) *)
Definition sbv_plain (d : dimension) (s : sortspec) (vals svals : list sval) (empties : list nat)
  : list Z :=
  displayed (collator_hidden d empties) (List.concat (sbv_segments (d_ids d) s vals svals)).

Theorem sbv_display_first_mentions d s vals svals empties :
  sbv_display d s vals svals empties = first_mentions (sbv_plain d s vals svals empties).
Proof. reflexivity. Qed.

(* the fixed lists as they take effect: an id counts where it is FIRST mentioned - once inside a
   list, and an id of fixed.top is ignored in fixed.bottom *)
Definition fixed_normal (s : sortspec) : sortspec :=
  mkSort (s_desc s) (dedup_first (s_top s))
         (filter (fun i => negb (imem i (s_top s))) (dedup_first (s_bottom s))).

(* no element of the dimension is named twice in fixed.top ++ fixed.bottom (ids of no element
   may repeat - they are dropped anyway) *)
Definition fixed_once (ids : list ident) (s : sortspec) : Prop :=
  NoDup (filter (fun i => imem i ids) (s_top s ++ s_bottom s)).

Lemma fixed_idxs_nodup ids listed :
  NoDup (filter (fun i => imem i ids) listed) -> NoDup (fixed_idxs ids listed).
Proof.
  induction listed as [|i r IH]; cbn [filter]; intros F; [constructor|].
  rewrite fixed_idxs_cons.
  destruct (idx_by_id ids i) as [k|] eqn:E; cbn [app].
  - assert (M : imem i ids = true).
    { apply imem_In. rewrite <- (idx_by_id_nth _ _ _ E). apply nth_In.
      apply (idx_by_id_bound _ _ _ E). }
    rewrite M in F. inversion F as [|? ? Hi Hr]; subst.
    constructor; [|apply IH; exact Hr].
    intros I. apply fixed_idxs_listed in I. destruct I as [_ J].
    rewrite (idx_by_id_nth _ _ _ E) in J.
    apply Hi. apply filter_In. split; [exact J|exact M].
  - apply IH. destruct (imem i ids); [inversion F; assumption|exact F].
Qed.

Lemma in_map_of_nat k l : In (Z.of_nat k) (map Z.of_nat l) <-> In k l.
Proof.
  rewrite in_map_iff. split.
  - intros (x & E & H). apply Nat2Z.inj in E. subst. exact H.
  - intros H. exists k. auto.
Qed.

(* dropping the later mentions of an id drops the later mentions of its index *)
Lemma fixed_drop_id ids i k L :
  idx_by_id ids i = Some k ->
  filter (zneqb (Z.of_nat k)) (map Z.of_nat (fixed_idxs ids L))
  = map Z.of_nat (fixed_idxs ids (filter (fun j => negb (ident_eqb j i)) L)).
Proof.
  intros E. induction L as [|j L IH]; [reflexivity|].
  rewrite fixed_idxs_cons, map_app, filter_app, IH. simpl.
  destruct (ident_eqb j i) eqn:J; simpl.
  - apply ident_eqb_eq in J. subst j. rewrite E. simpl.
    assert (Z : zneqb (Z.of_nat k) (Z.of_nat k) = false).
    { unfold zneqb. rewrite Z.eqb_refl. reflexivity. }
    rewrite Z. reflexivity.
  - rewrite fixed_idxs_cons, map_app. f_equal.
    destruct (idx_by_id ids j) as [k'|] eqn:E'; [|reflexivity]. simpl.
    assert (Z : zneqb (Z.of_nat k) (Z.of_nat k') = true).
    { apply zneqb_true. intros X. apply Nat2Z.inj in X. subst k'.
      apply ident_eqb_neq in J. apply J.
      rewrite <- (idx_by_id_nth _ _ _ E'). apply (idx_by_id_nth _ _ _ E). }
    rewrite Z. reflexivity.
Qed.

Lemma fixed_drop_stale ids i L :
  idx_by_id ids i = None ->
  fixed_idxs ids (filter (fun j => negb (ident_eqb j i)) L) = fixed_idxs ids L.
Proof.
  intros E. induction L as [|j L IH]; [reflexivity|]. simpl.
  destruct (ident_eqb j i) eqn:J; simpl.
  - apply ident_eqb_eq in J. subst j. rewrite fixed_idxs_cons, E. exact IH.
  - rewrite !fixed_idxs_cons, IH. reflexivity.
Qed.

(* inside one list: the indexes, each at its first mention = the indexes of the ids, each at its
   first mention *)
Theorem fixed_first_mentions ids L :
  first_mentions (map Z.of_nat (fixed_idxs ids L)) = map Z.of_nat (fixed_idxs ids (dedup_first L)).
Proof.
  induction L as [|i L IH]; [reflexivity|].
  cbn [dedup_first]. rewrite !fixed_idxs_cons.
  destruct (idx_by_id ids i) as [k|] eqn:E.
  - cbn [app map]. rewrite first_mentions_cons, IH. f_equal. apply fixed_drop_id. exact E.
  - cbn [app]. rewrite IH. rewrite fixed_drop_stale by exact E. reflexivity.
Qed.

(* across the lists: an index that fixed.top holds is dropped from fixed.bottom = an id that
   fixed.top names is dropped from fixed.bottom *)
Theorem fixed_bottom_minus_top ids top L :
  filter (znotin (map Z.of_nat (fixed_idxs ids top))) (map Z.of_nat (fixed_idxs ids L))
  = map Z.of_nat (fixed_idxs ids (filter (fun i => negb (imem i top)) L)).
Proof.
  induction L as [|j L IH]; [reflexivity|].
  rewrite fixed_idxs_cons, map_app, filter_app, IH.
  destruct (idx_by_id ids j) as [k|] eqn:E.
  - assert (Q : znotin (map Z.of_nat (fixed_idxs ids top)) (Z.of_nat k) = negb (imem j top)).
    { destruct (imem j top) eqn:M; simpl.
      - apply imem_In in M. unfold znotin. apply negb_false_iff. apply zmem_In.
        apply in_map_of_nat. apply fixed_idxs_in_iff. exists j. auto.
      - apply znotin_true. intros I. apply in_map_of_nat in I.
        apply fixed_idxs_listed in I. destruct I as [_ I].
        rewrite (idx_by_id_nth _ _ _ E) in I. apply imem_In in I. congruence. }
    simpl. rewrite Q. destruct (imem j top); simpl; [reflexivity|].
    rewrite fixed_idxs_cons, E. reflexivity.
  - simpl. destruct (imem j top); simpl; [reflexivity|]. rewrite fixed_idxs_cons, E. reflexivity.
Qed.

(* the same indexes are fixed *)
Lemma fixed_normal_members ids s k :
  In k (fixed_idxs ids (s_top (fixed_normal s)) ++ fixed_idxs ids (s_bottom (fixed_normal s)))
  <-> In k (fixed_idxs ids (s_top s) ++ fixed_idxs ids (s_bottom s)).
Proof.
  unfold fixed_normal. cbn [s_top s_bottom]. rewrite !in_app_iff.
  rewrite <- !in_map_of_nat.
  rewrite <- fixed_bottom_minus_top, <- !fixed_first_mentions.
  rewrite filter_In, !first_mentions_in, znotin_true.
  destruct (in_dec Z.eq_dec (Z.of_nat k) (map Z.of_nat (fixed_idxs ids (s_top s)))); tauto.
Qed.

Lemma dedup_first_in l i : In i (dedup_first l) <-> In i l.
Proof.
  induction l as [|x t IH]; [tauto|]. cbn [dedup_first In]. rewrite filter_In, IH. cbv beta.
  destruct (ident_eqb i x) eqn:E.
  - apply ident_eqb_eq in E. subst. tauto.
  - apply ident_eqb_neq in E. simpl. split.
    + intros [H|[H _]]; auto.
    + intros [H|H]; [congruence|]. right. split; auto.
Qed.

Lemma dedup_first_nodup l : NoDup (dedup_first l).
Proof.
  induction l as [|x t IH]; [constructor|]. cbn [dedup_first]. constructor.
  - intros I. apply filter_In in I. destruct I as [_ I]. rewrite ident_eqb_refl in I. discriminate.
  - apply NoDup_filter_any. exact IH.
Qed.

(* the normalised lists name no id twice *)
Theorem fixed_normal_once ids s : fixed_once ids (fixed_normal s).
Proof.
  unfold fixed_once, fixed_normal. cbn [s_top s_bottom]. apply NoDup_filter_any.
  apply NoDup_app_disj.
  - apply dedup_first_nodup.
  - apply NoDup_filter_any. apply dedup_first_nodup.
  - intros i Ht Hb. apply filter_In in Hb. destruct Hb as [_ Hb].
    apply (proj1 (dedup_first_in _ _)) in Ht. apply (proj2 (imem_In _ _)) in Ht.
    cbv beta in Hb. rewrite Ht in Hb. discriminate.
Qed.

(* five groups: duplicate-free negative ones outside, duplicate-free body in the middle that shares
   nothing with the two fixed groups *)
Lemma first_mentions_five (S1 T B Bt S2 : list Z) :
  NoDup S1 -> NoDup B -> NoDup S2 ->
  (forall z, In z S1 -> (z < 0)%Z) -> (forall z, In z S2 -> (z < 0)%Z) ->
  (forall z, In z S2 -> ~ In z S1) ->
  (forall z, In z T -> (0 <= z)%Z) -> (forall z, In z Bt -> (0 <= z)%Z) ->
  (forall z, In z B -> (0 <= z)%Z /\ ~ In z T /\ ~ In z Bt) ->
  first_mentions (S1 ++ T ++ B ++ Bt ++ S2)
  = S1 ++ first_mentions T ++ B ++ filter (znotin T) (first_mentions Bt) ++ S2.
Proof.
  intros N1 NB N2 H1 H2 D12 HT HBt HB.
  rewrite first_mentions_app_disjoint.
  2:{ intros z Hz I. assert (Neg := H1 z I). rewrite !in_app_iff in Hz.
      destruct Hz as [Hz|[Hz|[Hz|Hz]]].
      - apply HT in Hz. lia.
      - apply HB in Hz. lia.
      - apply HBt in Hz. lia.
      - exact (D12 z Hz I). }
  rewrite (first_mentions_id S1 N1). f_equal.
  rewrite first_mentions_app. f_equal.
  rewrite first_mentions_app_disjoint.
  2:{ intros z Hz I. apply HB in I. rewrite in_app_iff in Hz. destruct Hz as [Hz|Hz].
      - tauto.
      - apply H2 in Hz. lia. }
  rewrite first_mentions_app_disjoint.
  2:{ intros z Hz I. apply HBt in I. apply H2 in Hz. lia. }
  rewrite (first_mentions_id B NB), (first_mentions_id S2 N2).
  rewrite !filter_app. f_equal; [|f_equal].
  - apply filter_all_true. intros z Hz. apply znotin_true. apply HB in Hz. tauto.
  - apply filter_all_true. intros z Hz. apply znotin_true. intros I.
    apply HT in I. apply H2 in Hz. lia.
Qed.

(* de-duplicating the concatenation = concatenating for the normalised fixed lists *)
Theorem sbv_segments_first_mentions ids s vals svals :
  first_mentions (List.concat (sbv_segments ids s vals svals))
  = List.concat (sbv_segments ids (fixed_normal s) vals svals).
Proof.
  unfold sbv_segments. cbv zeta. cbn [List.concat]. rewrite !app_nil_r.
  assert (D : s_desc (fixed_normal s) = s_desc s) by reflexivity. rewrite D.
  set (top := fixed_idxs ids (s_top s)). set (bottom := fixed_idxs ids (s_bottom s)).
  set (subs := subtotal_idxs (s_desc s) svals).
  rewrite (body_idxs_ext (s_desc s) vals _ (top ++ bottom) (fixed_normal_members ids s)).
  rewrite first_mentions_five.
  - unfold top, bottom. rewrite !fixed_first_mentions, fixed_bottom_minus_top. reflexivity.
  - destruct (s_desc s); [apply subtotal_idxs_nodup|constructor].
  - apply body_idxs_nodup.
  - destruct (s_desc s); [constructor|apply subtotal_idxs_nodup].
  - intros z Hz. destruct (s_desc s); [|destruct Hz]. apply subtotal_idxs_in in Hz. lia.
  - intros z Hz. destruct (s_desc s); [destruct Hz|]. apply subtotal_idxs_in in Hz. lia.
  - intros z Hz. destruct (s_desc s); [destruct Hz|]. intros [].
  - intros z Hz. apply in_map_iff in Hz. destruct Hz as (k & <- & _). lia.
  - intros z Hz. apply in_map_iff in Hz. destruct Hz as (k & <- & _). lia.
  - intros z Hz. assert (P := body_idxs_nonneg _ _ _ _ Hz). split; [exact P|].
    rewrite <- (Z2Nat.id z P) in Hz |- *. apply body_idxs_in in Hz. destruct Hz as [_ Hz].
    rewrite in_app_iff in Hz. rewrite !in_map_of_nat. tauto.
Qed.

(* THE SHAPE, for any fixed lists: the display order is the plain concatenation for the fixed
   lists in which every id stands where it is first mentioned *)
Theorem sbv_display_normal d s vals svals empties :
  sbv_display d s vals svals empties = sbv_plain d (fixed_normal s) vals svals empties.
Proof.
  unfold sbv_display, sbv_plain, displayed.
  rewrite first_mentions_filter, sbv_segments_first_mentions. reflexivity.
Qed.

(* ... and when no element is named twice there is nothing to drop *)
Lemma sbv_concat_perm ids s vals svals :
  Permutation (List.concat (sbv_segments ids s vals svals))
              (subtotal_idxs (s_desc s) svals
               ++ map Z.of_nat (fixed_idxs ids (s_top s) ++ fixed_idxs ids (s_bottom s))
               ++ body_idxs (s_desc s) vals (fixed_idxs ids (s_top s) ++ fixed_idxs ids (s_bottom s))).
Proof.
  unfold sbv_segments. cbv zeta. simpl. rewrite app_nil_r. rewrite map_app.
  set (S := subtotal_idxs (s_desc s) svals).
  set (T := map Z.of_nat (fixed_idxs ids (s_top s))).
  set (Bt := map Z.of_nat (fixed_idxs ids (s_bottom s))).
  set (Bd := body_idxs (s_desc s) vals _).
  assert (P : Permutation (T ++ Bd ++ Bt) ((T ++ Bt) ++ Bd)).
  { rewrite <- app_assoc. apply Permutation_app_head. apply Permutation_app_comm. }
  destruct (s_desc s); simpl.
  - rewrite app_nil_r. apply Permutation_app_head. exact P.
  - eapply Permutation_trans.
    + replace (T ++ Bd ++ Bt ++ S) with ((T ++ Bd ++ Bt) ++ S) by (rewrite <- !app_assoc; reflexivity).
      apply Permutation_app_comm.
    + apply Permutation_app_head. exact P.
Qed.

Theorem sbv_plain_nodup d s vals svals empties :
  fixed_once (d_ids d) s -> NoDup (sbv_plain d s vals svals empties).
Proof.
  intros F. unfold sbv_plain, displayed. apply NoDup_filter_any.
  eapply Permutation_NoDup; [apply Permutation_sym, sbv_concat_perm|].
  assert (NF : NoDup (fixed_idxs (d_ids d) (s_top s) ++ fixed_idxs (d_ids d) (s_bottom s))).
  { rewrite <- fixed_idxs_app. apply fixed_idxs_nodup. exact F. }
  apply NoDup_app_disj.
  - apply subtotal_idxs_nodup.
  - apply NoDup_app_disj.
    + apply NoDup_map_of_nat. exact NF.
    + apply body_idxs_nodup.
    + intros z Hf Hb. apply in_map_iff in Hf. destruct Hf as (k & <- & Hk).
      apply body_idxs_in in Hb. destruct Hb as [_ Hb]. contradiction.
  - intros z Hs Ho. apply subtotal_idxs_in in Hs. apply in_app_or in Ho. destruct Ho as [Ho|Ho].
    + apply in_map_iff in Ho. destruct Ho as (k & <- & _). lia.
    + apply body_idxs_nonneg in Ho. lia.
Qed.

Theorem sbv_display_fixed_once d s vals svals empties :
  fixed_once (d_ids d) s ->
  sbv_display d s vals svals empties = sbv_plain d s vals svals empties.
Proof.
  intros F. rewrite sbv_display_first_mentions. apply first_mentions_id.
  apply sbv_plain_nodup. exact F.
Qed.

Theorem sbv_display_nodup d s vals svals empties : NoDup (sbv_display d s vals svals empties).
Proof. rewrite sbv_display_first_mentions. apply first_mentions_nodup. Qed.

(* --- shape ------------------------------------------------------------------------------------------- *)
Lemma sbv_plain_shape d s vals svals empties :
  sbv_plain d s vals svals empties =
  let ids := d_ids d in
  let top := fixed_idxs ids (s_top s) in
  let bottom := fixed_idxs ids (s_bottom s) in
  let subs := map snd (sort_vkeys (s_desc s) (subtotal_keys svals)) ++ subtotal_nans svals in
  displayed (collator_hidden d empties)
    ((if s_desc s then subs else [])
     ++ map Z.of_nat top
     ++ (map snd (sort_vkeys (s_desc s) (body_keys vals (top ++ bottom)))
         ++ body_nans vals (top ++ bottom))
     ++ map Z.of_nat bottom
     ++ (if s_desc s then [] else subs)).
Proof.
  unfold sbv_plain, sbv_segments, body_idxs, subtotal_idxs. cbv zeta. simpl.
  rewrite app_nil_r. reflexivity.
Qed.

(* no element of the dimension named twice in the fixed lists: the concatenation as it stands *)
Theorem sbv_shape_fixed_once d s vals svals empties :
  fixed_once (d_ids d) s ->
  sbv_display d s vals svals empties =
  let ids := d_ids d in
  let top := fixed_idxs ids (s_top s) in
  let bottom := fixed_idxs ids (s_bottom s) in
  let subs := map snd (sort_vkeys (s_desc s) (subtotal_keys svals)) ++ subtotal_nans svals in
  displayed (collator_hidden d empties)
    ((if s_desc s then subs else [])
     ++ map Z.of_nat top
     ++ (map snd (sort_vkeys (s_desc s) (body_keys vals (top ++ bottom)))
         ++ body_nans vals (top ++ bottom))
     ++ map Z.of_nat bottom
     ++ (if s_desc s then [] else subs)).
Proof. intros F. rewrite (sbv_display_fixed_once _ _ _ _ _ F). apply sbv_plain_shape. Qed.

(* any fixed lists: the fixed groups are those of [fixed_normal s] (first mention wins, inside a list
   and across top then bottom); the body leaves out every element that s names in a fixed list *)
Theorem sbv_shape d s vals svals empties :
  sbv_display d s vals svals empties =
  let ids := d_ids d in
  let top := fixed_idxs ids (s_top (fixed_normal s)) in
  let bottom := fixed_idxs ids (s_bottom (fixed_normal s)) in
  let fixed := fixed_idxs ids (s_top s) ++ fixed_idxs ids (s_bottom s) in
  let subs := map snd (sort_vkeys (s_desc s) (subtotal_keys svals)) ++ subtotal_nans svals in
  displayed (collator_hidden d empties)
    ((if s_desc s then subs else [])
     ++ map Z.of_nat top
     ++ (map snd (sort_vkeys (s_desc s) (body_keys vals fixed)) ++ body_nans vals fixed)
     ++ map Z.of_nat bottom
     ++ (if s_desc s then [] else subs)).
Proof.
  rewrite sbv_display_normal, sbv_plain_shape. cbv zeta.
  assert (D : s_desc (fixed_normal s) = s_desc s) by reflexivity. rewrite D.
  assert (B := body_idxs_ext (s_desc s) vals _ _ (fixed_normal_members (d_ids d) s)).
  unfold body_idxs in B. rewrite B. reflexivity.
Qed.

(* fallback: an unresolvable sort key gives exactly the anchored payload order *)
Theorem sbv_fallback d s empties psub :
  display_order d (ByValue s None) empties psub = display_order d (ByAnchor OPayload) empties psub
  /\ display_order_bogus d (ByValue s None) empties psub
     = display_order_bogus d (ByAnchor OPayload) empties psub.
Proof. split; reflexivity. Qed.

(* --- surrogate sort keys -------------------------------------------------------------------------------- *)
Local Open Scope Q_scope.
(* sorting on the variance instead of the standard deviation (its non-negative root):
   same comparisons *)
Theorem sq_le_iff (a b : Q) : 0 <= a -> 0 <= b -> (a <= b <-> a * a <= b * b).
Proof. intros Ha Hb. split; intros H; nra. Qed.

(* sorting on the standard error instead of the margin of error (a positive multiple), or on
   the proportion instead of the population count: same comparisons *)
Theorem scale_le_iff (c a b : Q) : 0 < c -> (a <= b <-> c * a <= c * b).
Proof. intros Hc. split; intros H; nra. Qed.
