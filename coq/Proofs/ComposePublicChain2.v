(* Proofs/ComposePublicChain2.v -- the COMPOSITION of the source translators, part 3b: the measure chain,
   continued: proportion variances (level 2: on the EVALUATED proportions and bases), standard errors
   (level 3: on the EVALUATED variances and bases; a radical measure, carried as its signed square).
   Bridges: Proofs/GenAgreeVariance.v.  See ComposePublicChain.v. *)
From Coq Require Import QArith ZArith List Bool Lia Arith String.
From CC Require Import Base.XQ Base.ListX Base.WiringExp Model.Subtotals Model.Proportions Model.Variance
     Proofs.ComposePublicSem Proofs.ComposePublicLinks Proofs.ComposePublicChain.
From CC Require Base.MeasureExp Gen.MeasureSrc Proofs.GenAgreeMeasTac Proofs.GenAgreeVariance.
Import ListNotations.
Local Close Scope Q_scope.
Local Open Scope string_scope.
Local Open Scope nat_scope.

Import CC.Gen.MeasureSrc.

(* ------------------------------------------------------------------------------------ *)
(** * the model structures *)

Section Model.
  Variable C : pctx.
  Let nr := c_nr C.
  Let nc := c_nc C.
  Let rsubs := c_rsubs C.
  Let csubs := c_csubs C.

  Definition B_rowv : blocks := variance_blocks (m_counts C) nr nc rsubs csubs (B_rowp C) (B_rowb C).
  Definition B_colv : blocks := variance_blocks (m_counts C) nr nc rsubs csubs (B_colp C) (B_colb C).
  Definition B_tabv : blocks := variance_blocks (m_counts C) nr nc rsubs csubs (B_tabp C) (B_tabb C).

  (* a block structure computed cell by cell from two others *)
  Definition map2_blocks (f : xq -> xq -> xq) (V T : blocks) : blocks :=
    {| b_base := tab2 nr nc (fun i j => f (mnth (b_base V) i j) (mnth (b_base T) i j));
       b_cols := tab2 nr (List.length csubs) (fun i j => f (mnth (b_cols V) i j) (mnth (b_cols T) i j));
       b_rows := tab2 (List.length rsubs) nc (fun i j => f (mnth (b_rows V) i j) (mnth (b_rows T) i j));
       b_inter := tab2 (List.length rsubs) (List.length csubs)
                       (fun i j => f (mnth (b_inter V) i j) (mnth (b_inter T) i j)) |}.

  (* the SIGNED SQUARE of np.sqrt(variance / base) *)
  Definition se_cell (v t : xq) : xq := MeasureExp.sqrt_guard (stderr_sq v t).
  Definition B_rowse : blocks := map2_blocks se_cell B_rowv (B_rowb C).
  Definition B_colse : blocks := map2_blocks se_cell B_colv (B_colb C).
  Definition B_tabse : blocks := map2_blocks se_cell B_tabv (B_tabb C).
End Model.

Lemma tabular_var C P T : tabular C (variance_blocks (m_counts C) (c_nr C) (c_nc C) (c_rsubs C) (c_csubs C) P T).
Proof. tab_cases; apply is_tab_tab2. Qed.
Lemma tabular_map2 C f V T : tabular C (map2_blocks C f V T).
Proof. tab_cases; apply is_tab_tab2. Qed.

Lemma pick_map2 C f V T bi bj : bi < 2 -> bj < 2 ->
  GenAgreeMeasTac.pick (map2_blocks C f V T) bi bj =
  tab2 (brows C bi) (bcols C bj)
       (fun i j => f (mnth (GenAgreeMeasTac.pick V bi bj) i j) (mnth (GenAgreeMeasTac.pick T bi bj) i j)).
Proof.
  intros Hi Hj. destruct bi as [|[|bi]]; [| |exfalso; lia]; (destruct bj as [|[|bj]]; [| |exfalso; lia]); reflexivity.
Qed.

(* ------------------------------------------------------------------------------------ *)
(** * level 2: variances *)

Definition terms_row_variances : bool :=
  terms_row_proportions &&
  is_some src_RowProportionVariances_blocks_00 && is_some src_RowProportionVariances_blocks_01 &&
  is_some src_RowProportionVariances_blocks_10 && is_some src_RowProportionVariances_blocks_11.
Definition terms_column_variances : bool :=
  terms_column_proportions &&
  is_some src_ColumnProportionVariances_blocks_00 && is_some src_ColumnProportionVariances_blocks_01 &&
  is_some src_ColumnProportionVariances_blocks_10 && is_some src_ColumnProportionVariances_blocks_11.
Definition terms_table_variances : bool :=
  terms_table_proportions &&
  is_some src_TableProportionVariances_blocks_00 && is_some src_TableProportionVariances_blocks_01 &&
  is_some src_TableProportionVariances_blocks_10 && is_some src_TableProportionVariances_blocks_11.

Lemma var_model_chain f C p b P T :
  realizes f C p P -> realizes f C b T ->
  GenAgreeVariance.var_model (c_nr C) (c_nc C) (c_rsubs C) (c_csubs C) (blk_at f C) (c_cubem C) p b
  = variance_blocks (m_counts C) (c_nr C) (c_nc C) (c_rsubs C) (c_csubs C) P T.
Proof.
  intros Rp Rb. unfold GenAgreeVariance.var_model.
  rewrite (realizes_blocks_of _ _ _ _ Rp), (realizes_blocks_of _ _ _ _ Rb). reflexivity.
Qed.

(* the availability of the bases follows from the one of the proportions *)
Lemma terms_row_props_bases : terms_row_proportions = true -> terms_row_weighted_bases = true.
Proof. unfold terms_row_proportions. intros H. repeat (apply andb_prop in H; destruct H as [H ?]). assumption. Qed.
Lemma terms_col_props_bases : terms_column_proportions = true -> terms_column_weighted_bases = true.
Proof. unfold terms_column_proportions. intros H. repeat (apply andb_prop in H; destruct H as [H ?]). assumption. Qed.
Lemma terms_tab_props_bases : terms_table_proportions = true -> terms_table_weighted_bases = true.
Proof. unfold terms_table_proportions. intros H. repeat (apply andb_prop in H; destruct H as [H ?]). assumption. Qed.

Lemma need_true (b : bool) (P : Prop) : b = true -> need b P -> P.
Proof. intros ->. exact (fun H => H). Qed.

(* [use_need] keeping the fact that the guard holds *)
Ltac use_need_eq H b Hb :=
  generalize H; unfold need at 1; destruct b eqn:Hb; [|intros _; cbn [need andb]; exact I].

Theorem realizes_row_variances :
  need terms_row_variances
  (forall f C, first_order_ok C -> realizes (S (S (S f))) C "row_proportion_variances" (B_rowv C)).
Proof.
  unfold terms_row_variances.
  use_need_eq realizes_row_proportions terms_row_proportions Hb. intros Rp.
  pose proof (need_true _ _ (terms_row_props_bases Hb) realizes_row_weighted_bases) as Rb.
  bridge GenAgreeVariance.gen_RowProportionVariances_blocks_00 src_RowProportionVariances_blocks_00.
  bridge GenAgreeVariance.gen_RowProportionVariances_blocks_01 src_RowProportionVariances_blocks_01.
  bridge GenAgreeVariance.gen_RowProportionVariances_blocks_10 src_RowProportionVariances_blocks_10.
  bridge GenAgreeVariance.gen_RowProportionVariances_blocks_11 src_RowProportionVariances_blocks_11.
  needed. intros f C H1. pose proof H1 as (Hc & Hrb & Hcb & Htb & Hne).
  pose proof (var_model_chain (S (S f)) C "row_proportions" "row_weighted_bases" _ _
                (Rp f C H1) (Rb (S f) C Hrb Hne)) as M.
  pose proof (tabular_var C (B_rowp C) (B_rowb C)) as T. four_blocks.
  - block_by E eval_block_mat ltac:(fold (B_rowv C); unfold B_rowv; rewrite <- M; apply G) T.
  - block_by E0 eval_block_mat ltac:(fold (B_rowv C); unfold B_rowv; rewrite <- M; apply G0) T.
  - block_by E1 eval_block_mat ltac:(fold (B_rowv C); unfold B_rowv; rewrite <- M; apply G1) T.
  - block_by E2 eval_block_mat ltac:(fold (B_rowv C); unfold B_rowv; rewrite <- M; apply G2) T.
Qed.

Theorem realizes_column_variances :
  need terms_column_variances
  (forall f C, first_order_ok C -> realizes (S (S (S f))) C "column_proportion_variances" (B_colv C)).
Proof.
  unfold terms_column_variances.
  use_need_eq realizes_column_proportions terms_column_proportions Hb. intros Rp.
  pose proof (need_true _ _ (terms_col_props_bases Hb) realizes_column_weighted_bases) as Rb.
  bridge GenAgreeVariance.gen_ColumnProportionVariances_blocks_00 src_ColumnProportionVariances_blocks_00.
  bridge GenAgreeVariance.gen_ColumnProportionVariances_blocks_01 src_ColumnProportionVariances_blocks_01.
  bridge GenAgreeVariance.gen_ColumnProportionVariances_blocks_10 src_ColumnProportionVariances_blocks_10.
  bridge GenAgreeVariance.gen_ColumnProportionVariances_blocks_11 src_ColumnProportionVariances_blocks_11.
  needed. intros f C H1. pose proof H1 as (Hc & Hrb & Hcb & Htb & Hne).
  pose proof (var_model_chain (S (S f)) C "column_proportions" "column_weighted_bases" _ _
                (Rp f C H1) (Rb (S f) C Hcb Hne)) as M.
  pose proof (tabular_var C (B_colp C) (B_colb C)) as T. four_blocks.
  - block_by E eval_block_mat ltac:(unfold B_colv; rewrite <- M; apply G) T.
  - block_by E0 eval_block_mat ltac:(unfold B_colv; rewrite <- M; apply G0) T.
  - block_by E1 eval_block_mat ltac:(unfold B_colv; rewrite <- M; apply G1) T.
  - block_by E2 eval_block_mat ltac:(unfold B_colv; rewrite <- M; apply G2) T.
Qed.

Theorem realizes_table_variances :
  need terms_table_variances
  (forall f C, first_order_ok C -> realizes (S (S (S f))) C "table_proportion_variances" (B_tabv C)).
Proof.
  unfold terms_table_variances.
  use_need_eq realizes_table_proportions terms_table_proportions Hb. intros Rp.
  pose proof (need_true _ _ (terms_tab_props_bases Hb) realizes_table_weighted_bases) as Rb.
  bridge GenAgreeVariance.gen_TableProportionVariances_blocks_00 src_TableProportionVariances_blocks_00.
  bridge GenAgreeVariance.gen_TableProportionVariances_blocks_01 src_TableProportionVariances_blocks_01.
  bridge GenAgreeVariance.gen_TableProportionVariances_blocks_10 src_TableProportionVariances_blocks_10.
  bridge GenAgreeVariance.gen_TableProportionVariances_blocks_11 src_TableProportionVariances_blocks_11.
  needed. intros f C H1. pose proof H1 as (Hc & Hrb & Hcb & Htb & Hne).
  pose proof (var_model_chain (S (S f)) C "table_proportions" "table_weighted_bases" _ _
                (Rp f C H1) (Rb (S f) C Htb Hne)) as M.
  pose proof (tabular_var C (B_tabp C) (B_tabb C)) as T. four_blocks.
  - block_by E eval_block_mat ltac:(unfold B_tabv; rewrite <- M; apply G) T.
  - block_by E0 eval_block_mat ltac:(unfold B_tabv; rewrite <- M; apply G0) T.
  - block_by E1 eval_block_mat ltac:(unfold B_tabv; rewrite <- M; apply G1) T.
  - block_by E2 eval_block_mat ltac:(unfold B_tabv; rewrite <- M; apply G2) T.
Qed.

(* ------------------------------------------------------------------------------------ *)
(** * level 3: standard errors (signed squares) *)

Definition terms_row_std_err : bool :=
  terms_row_variances &&
  is_some src_RowStandardError_blocks_00 && is_some src_RowStandardError_blocks_01 &&
  is_some src_RowStandardError_blocks_10 && is_some src_RowStandardError_blocks_11.
Definition terms_column_std_err : bool :=
  terms_column_variances &&
  is_some src_ColumnStandardError_blocks_00 && is_some src_ColumnStandardError_blocks_01 &&
  is_some src_ColumnStandardError_blocks_10 && is_some src_ColumnStandardError_blocks_11.
Definition terms_table_std_err : bool :=
  terms_table_variances &&
  is_some src_TableStandardError_blocks_00 && is_some src_TableStandardError_blocks_01 &&
  is_some src_TableStandardError_blocks_10 && is_some src_TableStandardError_blocks_11.

Lemma terms_row_var_props : terms_row_variances = true -> terms_row_proportions = true.
Proof. unfold terms_row_variances. intros H. repeat (apply andb_prop in H; destruct H as [H ?]). assumption. Qed.
Lemma terms_col_var_props : terms_column_variances = true -> terms_column_proportions = true.
Proof. unfold terms_column_variances. intros H. repeat (apply andb_prop in H; destruct H as [H ?]). assumption. Qed.
Lemma terms_tab_var_props : terms_table_variances = true -> terms_table_proportions = true.
Proof. unfold terms_table_variances. intros H. repeat (apply andb_prop in H; destruct H as [H ?]). assumption. Qed.

(* the block the standard-error lemma names, on the evaluated variances and bases *)
Lemma se_block_chain f C v b V T bi bj :
  realizes f C v V -> realizes f C b T -> bi < 2 -> bj < 2 ->
  tab2 (brows C bi) (bcols C bj) (GenAgreeVariance.se_model (blk_at f C) v b bi bj)
  = GenAgreeMeasTac.pick (map2_blocks C se_cell V T) bi bj.
Proof.
  intros Rv Rb Hi Hj. rewrite (pick_map2 C se_cell V T bi bj Hi Hj).
  apply tab2_ext_lt. intros i j _ _. unfold GenAgreeVariance.se_model, se_cell.
  rewrite (realizes_blk _ _ _ _ bi bj Rv Hi Hj), (realizes_blk _ _ _ _ bi bj Rb Hi Hj). reflexivity.
Qed.

(* one block of a standard error *)
Ltac se_block E G Rv Rb :=
  eapply gen_blk_step;
  [ reflexivity
  | cbn [pick4 otm otb]; rewrite E; reflexivity
  | lazymatch goal with
    | |- eval_block ?C ?blk KMatSq (TM ?e) = Some (brows _ ?bi, bcols _ ?bj, _) =>
        rewrite (eval_block_matsq_fn C blk e bi bj _ (G _ _ _ _ _ _ blk _ _ _))
    end;
    rewrite (se_block_chain _ _ _ _ _ _ _ _ Rv Rb) by lia; reflexivity ].

Theorem realizes_row_std_err :
  need terms_row_std_err
  (forall f C, first_order_ok C -> realizes (S (S (S (S f)))) C "row_std_err" (B_rowse C)).
Proof.
  unfold terms_row_std_err.
  use_need_eq realizes_row_variances terms_row_variances Hb. intros Rv.
  pose proof (need_true _ _ (terms_row_props_bases (terms_row_var_props Hb)) realizes_row_weighted_bases) as Rb.
  bridge GenAgreeVariance.gen_RowStandardError_blocks_00 src_RowStandardError_blocks_00.
  bridge GenAgreeVariance.gen_RowStandardError_blocks_01 src_RowStandardError_blocks_01.
  bridge GenAgreeVariance.gen_RowStandardError_blocks_10 src_RowStandardError_blocks_10.
  bridge GenAgreeVariance.gen_RowStandardError_blocks_11 src_RowStandardError_blocks_11.
  needed. intros f C H1. pose proof H1 as (Hc & Hrb & Hcb & Htb & Hne).
  pose proof (Rv f C H1) as RV. pose proof (Rb (S (S f)) C Hrb Hne) as RB.
  four_blocks.
  - se_block E G RV RB.
  - se_block E0 G0 RV RB.
  - se_block E1 G1 RV RB.
  - se_block E2 G2 RV RB.
Qed.

Theorem realizes_column_std_err :
  need terms_column_std_err
  (forall f C, first_order_ok C -> realizes (S (S (S (S f)))) C "column_std_err" (B_colse C)).
Proof.
  unfold terms_column_std_err.
  use_need_eq realizes_column_variances terms_column_variances Hb. intros Rv.
  pose proof (need_true _ _ (terms_col_props_bases (terms_col_var_props Hb)) realizes_column_weighted_bases) as Rb.
  bridge GenAgreeVariance.gen_ColumnStandardError_blocks_00 src_ColumnStandardError_blocks_00.
  bridge GenAgreeVariance.gen_ColumnStandardError_blocks_01 src_ColumnStandardError_blocks_01.
  bridge GenAgreeVariance.gen_ColumnStandardError_blocks_10 src_ColumnStandardError_blocks_10.
  bridge GenAgreeVariance.gen_ColumnStandardError_blocks_11 src_ColumnStandardError_blocks_11.
  needed. intros f C H1. pose proof H1 as (Hc & Hrb & Hcb & Htb & Hne).
  pose proof (Rv f C H1) as RV. pose proof (Rb (S (S f)) C Hcb Hne) as RB.
  four_blocks.
  - se_block E G RV RB.
  - se_block E0 G0 RV RB.
  - se_block E1 G1 RV RB.
  - se_block E2 G2 RV RB.
Qed.

Theorem realizes_table_std_err :
  need terms_table_std_err
  (forall f C, first_order_ok C -> realizes (S (S (S (S f)))) C "table_std_err" (B_tabse C)).
Proof.
  unfold terms_table_std_err.
  use_need_eq realizes_table_variances terms_table_variances Hb. intros Rv.
  pose proof (need_true _ _ (terms_tab_props_bases (terms_tab_var_props Hb)) realizes_table_weighted_bases) as Rb.
  bridge GenAgreeVariance.gen_TableStandardError_blocks_00 src_TableStandardError_blocks_00.
  bridge GenAgreeVariance.gen_TableStandardError_blocks_01 src_TableStandardError_blocks_01.
  bridge GenAgreeVariance.gen_TableStandardError_blocks_10 src_TableStandardError_blocks_10.
  bridge GenAgreeVariance.gen_TableStandardError_blocks_11 src_TableStandardError_blocks_11.
  needed. intros f C H1. pose proof H1 as (Hc & Hrb & Hcb & Htb & Hne).
  pose proof (Rv f C H1) as RV. pose proof (Rb (S (S f)) C Htb Hne) as RB.
  four_blocks.
  - se_block E G RV RB.
  - se_block E0 G0 RV RB.
  - se_block E1 G1 RV RB.
  - se_block E2 G2 RV RB.
Qed.
