(* C15 under display transforms (hide / explicit order / prune).  The share-of-sum blocks of
   Model/Share.v are computed from ALL base rows / columns; the partition then selects and
   reorders them with one signed order vector per dimension (Model/Assemble.v: assemble_vec /
   assemble, i.e. np.concatenate(blocks)[order] and np.block(blocks)[np.ix_(rows, cols)]).
   Hence whatever the order vectors are - whichever base elements they leave out (hidden,
   pruned) - a displayed cell is its sum divided by the total over ALL base rows / columns. *)
From Coq Require Import QArith ZArith List Bool Lia Arith.
From CC Require Import Base.XQ Base.ListX Model.Subtotals Model.Share Model.Assemble
  Proofs.ShareProofs Proofs.AssembleProofs.
Import ListNotations.
Local Close Scope Q_scope.
Local Close Scope Z_scope.
Local Open Scope nat_scope.

(* --- strand -------------------------------------------------------------------------------- *)
(* _Strand.share_sum = np.concatenate([base_values, subtotal_values])[row_order] *)
Definition strand_share_displayed (sums : list xq) (subs : list subtotal) (order : list Z) : list xq :=
  assemble_vec NaN (stripe_share_base sums) (stripe_share_subtotals sums subs) order.

Lemma stripe_share_base_length sums : length (stripe_share_base sums) = length sums.
Proof. unfold stripe_share_base. apply map_length. Qed.

Lemma stripe_share_subtotals_length sums subs : length (stripe_share_subtotals sums subs) = length subs.
Proof. unfold stripe_share_subtotals, stripe_sum_subtotals. apply map_length. Qed.

(* a displayed BASE row: its sum over the total of ALL base rows (in [sums]), displayed or not *)
Theorem strand_share_displayed_base sums subs order k :
  k < length order ->
  (0 <= nth k order 0 < Z.of_nat (length sums))%Z ->
  nth k (strand_share_displayed sums subs order) NaN
  = xdiv (vnth sums (Z.to_nat (nth k order 0%Z))) (nansum sums).
Proof.
  intros Hk R. unfold strand_share_displayed.
  rewrite assemble_vec_nth; [|exact Hk|].
  - unfold vec_cell. destruct (Z.leb 0 (nth k order 0%Z)) eqn:E; [|apply Z.leb_gt in E; lia].
    apply (stripe_share_nth sums). lia.
  - unfold in_range. rewrite stripe_share_base_length. lia.
Qed.

(* a displayed SUBTOTAL row: the (signed) sum of the shares of ALL its addends - each over the
   total of all base rows - whether those addends are themselves displayed or not *)
Theorem strand_share_displayed_subtotal sums subs order k :
  k < length order ->
  (- Z.of_nat (length subs) <= nth k order 0 < 0)%Z ->
  nth k (strand_share_displayed sums subs order) NaN
  = stripe_sum_subtotal (stripe_share_base sums)
      (nth (Z.to_nat (nth k order 0%Z + Z.of_nat (length subs))) subs (mkSub [] [])).
Proof.
  intros Hk R. unfold strand_share_displayed.
  rewrite assemble_vec_nth; [|exact Hk|].
  - unfold vec_cell. destruct (Z.leb 0 (nth k order 0%Z)) eqn:E; [apply Z.leb_le in E; lia|].
    rewrite stripe_share_subtotals_length.
    unfold stripe_share_subtotals, stripe_sum_subtotals.
    set (p := Z.to_nat (nth k order 0%Z + Z.of_nat (length subs))).
    assert (Hp : p < length subs) by (unfold p; lia).
    rewrite (nth_indep _ NaN (stripe_sum_subtotal (stripe_share_base sums) (mkSub [] [])))
      by (rewrite map_length; exact Hp).
    apply map_nth.
  - unfold in_range. rewrite stripe_share_subtotals_length. lia.
Qed.

(* --- slice --------------------------------------------------------------------------------- *)
Definition ablocks (B : Subtotals.blocks) : Assemble.blocks xq :=
  Assemble.mkBlocks (Subtotals.b_base B) (Subtotals.b_cols B) (Subtotals.b_rows B)
                    (Subtotals.b_inter B).

(* _Slice.<x>_share_sum = np.block(blocks)[np.ix_(row_order, column_order)] *)
Definition slice_share_displayed (nr nrs nc ncs : nat) (B : Subtotals.blocks) (ro co : list Z)
  : list (list xq) :=
  assemble NaN nr nrs nc ncs (ablocks B) ro co.

Lemma rect_tab2 n p f : rect n p (tab2 n p f).
Proof.
  split; [apply tab_length|].
  unfold tab2, tab. apply Forall_forall. intros r Hr. apply in_map_iff in Hr.
  destruct Hr as (i & <- & _). rewrite map_length, seq_length. reflexivity.
Qed.

Lemma wf_col_share sums nr nc rsubs csubs :
  wf_blocks nr (length rsubs) nc (length csubs) (ablocks (col_share sums nr nc rsubs csubs)).
Proof. repeat split; simpl; try apply tab_length; apply rect_tab2. Qed.

Lemma wf_row_share sums nr nc rsubs csubs :
  wf_blocks nr (length rsubs) nc (length csubs) (ablocks (row_share sums nr nc rsubs csubs)).
Proof. repeat split; simpl; try apply tab_length; apply rect_tab2. Qed.

Lemma wf_total_share sums nr nc rsubs csubs :
  wf_blocks nr (length rsubs) nc (length csubs) (ablocks (total_share sums nr nc rsubs csubs)).
Proof. repeat split; simpl; try apply tab_length; apply rect_tab2. Qed.

Lemma gnth_mnth (M : mat) i j : gnth NaN M i j = mnth M i j.
Proof. reflexivity. Qed.

Section Displayed.
  Variables (sums : mat) (nr nc : nat) (rsubs csubs : list subtotal) (ro co : list Z) (k l : nat).
  Let r := nth k ro 0%Z.
  Let c := nth l co 0%Z.
  Hypothesis Hk : k < length ro.
  Hypothesis Hl : l < length co.

  (* base cell (r, c >= 0): column share over ALL base rows, row share over ALL base columns,
     total share over the whole base table - whatever [ro] / [co] leave out *)
  Theorem slice_share_displayed_base :
    (0 <= r < Z.of_nat nr)%Z -> (0 <= c < Z.of_nat nc)%Z ->
    gnth NaN (slice_share_displayed nr (length rsubs) nc (length csubs)
                (col_share sums nr nc rsubs csubs) ro co) k l
      = xdiv (mnth sums (Z.to_nat r) (Z.to_nat c)) (col_total sums nr (Z.to_nat c))
    /\ gnth NaN (slice_share_displayed nr (length rsubs) nc (length csubs)
                (row_share sums nr nc rsubs csubs) ro co) k l
      = xdiv (mnth sums (Z.to_nat r) (Z.to_nat c)) (row_total sums nc (Z.to_nat r))
    /\ gnth NaN (slice_share_displayed nr (length rsubs) nc (length csubs)
                (total_share sums nr nc rsubs csubs) ro co) k l
      = xdiv (mnth sums (Z.to_nat r) (Z.to_nat c)) (table_total sums nr nc).
  Proof.
    intros Rr Rc. unfold slice_share_displayed.
    assert (Ir : in_range (length rsubs) nr (nth k ro 0%Z)) by (unfold in_range; fold r; lia).
    assert (Ic : in_range (length csubs) nc (nth l co 0%Z)) by (unfold in_range; fold c; lia).
    assert (Er : Z.leb 0 r = true) by (apply Z.leb_le; lia).
    assert (Ec : Z.leb 0 c = true) by (apply Z.leb_le; lia).
    rewrite (assemble_cell NaN _ _ _ _ _ ro co k l (wf_col_share sums nr nc rsubs csubs) Hk Hl Ir Ic).
    rewrite (assemble_cell NaN _ _ _ _ _ ro co k l (wf_row_share sums nr nc rsubs csubs) Hk Hl Ir Ic).
    rewrite (assemble_cell NaN _ _ _ _ _ ro co k l (wf_total_share sums nr nc rsubs csubs) Hk Hl Ir Ic).
    unfold block_cell. fold r c. rewrite Er, Ec. simpl Assemble.b_base.
    rewrite !gnth_mnth.
    split; [|split].
    - apply (col_share_base sums nr nc rsubs csubs); lia.
    - apply (row_share_base sums nr nc rsubs csubs); lia.
    - apply (proj1 (total_share_all sums nr nc rsubs csubs)); lia.
  Qed.

  (* inserted row at a base column: its column share is over ALL base rows of that column *)
  Theorem slice_col_share_displayed_subtotal_row :
    (- Z.of_nat (length rsubs) <= r < 0)%Z -> (0 <= c < Z.of_nat nc)%Z ->
    gnth NaN (slice_share_displayed nr (length rsubs) nc (length csubs)
                (col_share sums nr nc rsubs csubs) ro co) k l
      = xdiv (mnth (Subtotals.b_rows (sb sums nr nc rsubs csubs))
                   (Z.to_nat (r + Z.of_nat (length rsubs))) (Z.to_nat c))
             (col_total sums nr (Z.to_nat c)).
  Proof.
    intros Rr Rc. unfold slice_share_displayed.
    assert (Ir : in_range (length rsubs) nr (nth k ro 0%Z)) by (unfold in_range; fold r; lia).
    assert (Ic : in_range (length csubs) nc (nth l co 0%Z)) by (unfold in_range; fold c; lia).
    assert (Er : Z.leb 0 r = false) by (apply Z.leb_gt; lia).
    assert (Ec : Z.leb 0 c = true) by (apply Z.leb_le; lia).
    rewrite (assemble_cell NaN _ _ _ _ _ ro co k l (wf_col_share sums nr nc rsubs csubs) Hk Hl Ir Ic).
    unfold block_cell. fold r c. rewrite Er, Ec. simpl Assemble.b_srows.
    rewrite gnth_mnth.
    apply (col_share_rows sums nr nc rsubs csubs); lia.
  Qed.
End Displayed.
