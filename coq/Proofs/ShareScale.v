(* Proofs/ShareScale.v - the share of sum of a strand does not depend on the UNIT the summed variable
   is recorded in: multiplying every sum by one positive factor changes no share (C15; the input class
   "every sum scaled by 10^-12 .. 10^9" of the C15 check, added after seeded change C15-11). *)
From Coq Require Import QArith ZArith List Bool Lia Arith Setoid Morphisms.
From CC Require Import Base.XQ Base.ListX Model.Subtotals Model.Share Proofs.ShareProofs.
Import ListNotations.
Local Open Scope Q_scope.

Definition xscale (k : Q) (a : xq) : xq := xmul (Fin k) a.

Lemma scale_fin_or_nan k a : fin_or_nan a -> fin_or_nan (xscale k a).
Proof. intros H; destruct a; simpl in *; tauto. Qed.

Lemma Forall_scale k l : Forall fin_or_nan l -> Forall fin_or_nan (map (xscale k) l).
Proof. induction 1; simpl; constructor; auto using scale_fin_or_nan. Qed.

Lemma qnansum_scale k l : Forall fin_or_nan l -> qnansum (map (xscale k) l) == k * qnansum l.
Proof.
  induction 1 as [|a t Ha Ht IH]; simpl.
  - ring.
  - destruct a as [p| |]; simpl in *; [rewrite IH; ring | contradiction | exact IH].
Qed.

Lemma qzero_iff q : qzero q = true <-> q == 0.
Proof. unfold qzero. apply Qeq_bool_iff. Qed.

Lemma qzero_mul k q : 0 < k -> qzero (k * q) = qzero q.
Proof.
  intros Hk. destruct (qzero q) eqn:E.
  - apply qzero_iff. apply qzero_iff in E. rewrite E. ring.
  - destruct (qzero (k * q)) eqn:E2; auto.
    apply qzero_iff in E2. exfalso.
    assert (Hq : q == 0).
    { destruct (Qmult_integral _ _ E2) as [H|H]; auto. rewrite H in Hk. exact (False_ind _ (Qlt_irrefl _ Hk)). }
    apply qzero_iff in Hq. congruence.
Qed.

Lemma qneg_mul k q : 0 < k -> qneg (k * q) = qneg q.
Proof.
  intros Hk. unfold qneg.
  destruct (Qlt_le_dec (k * q) 0) as [H|H]; destruct (Qlt_le_dec q 0) as [H'|H']; auto; exfalso.
  - assert (0 <= k * q) by (apply Qmult_le_0_compat; auto using Qlt_le_weak).
    exact (Qlt_not_le _ _ H H0).
  - assert (k * q < 0).
    { setoid_replace 0 with (k * 0) by ring. apply Qmult_lt_l; auto. }
    exact (Qlt_not_le _ _ H0 H).
Qed.

(* one cell: (k x) / (k t) = x / t, including the x/0 = +-inf and 0/0 = NaN cases *)
Lemma xdiv_scale k x t t' : 0 < k -> fin_or_nan x -> t' == k * t ->
  xdiv (xscale k x) (Fin t') =x= xdiv x (Fin t).
Proof.
  intros Hk Hx Ht. destruct x as [p| |]; simpl in *; try tauto.
  assert (Ez : qzero t' = qzero t).
  { rewrite <- (qzero_mul k t Hk). unfold qzero. apply eq_true_iff_eq.
    rewrite !Qeq_bool_iff. rewrite Ht. tauto. }
  rewrite Ez. destruct (qzero t) eqn:E.
  - rewrite (qzero_mul k p Hk). destruct (qzero p); simpl; auto.
    rewrite (qneg_mul k p Hk). reflexivity.
  - simpl. rewrite Ht. field. split.
    + intros H. apply qzero_iff in H. congruence.
    + intros H. rewrite H in Hk. exact (Qlt_irrefl _ Hk).
Qed.

Lemma map_div_scale k l T T' : 0 < k -> Forall fin_or_nan l -> T' == k * T -> forall i,
  nth i (map (fun x => xdiv (xscale k x) (Fin T')) l) NaN =x= nth i (map (fun x => xdiv x (Fin T)) l) NaN.
Proof.
  intros Hk Hl HT. induction Hl as [|a t Ha Ht IH]; intros i.
  - destruct i; simpl; auto.
  - destruct i as [|i]; simpl.
    + exact (xdiv_scale k a T T' Hk Ha HT).
    + exact (IH i).
Qed.

Theorem stripe_share_scale_invariant k sums i : 0 < k -> Forall fin_or_nan sums ->
  vnth (stripe_share_base (map (xscale k) sums)) i =x= vnth (stripe_share_base sums) i.
Proof.
  intros Hk Hs. unfold stripe_share_base, vnth.
  rewrite (nansum_fin _ (Forall_scale k sums Hs)), (nansum_fin _ Hs), map_map.
  exact (map_div_scale k sums (qnansum sums) _ Hk Hs (qnansum_scale k sums Hs) i).
Qed.
