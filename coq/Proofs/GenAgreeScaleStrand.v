(* Proofs/GenAgreeScaleStrand.v -- GenAgree tie of stripe/measure.py::_ScaledCounts to the strand
   functions of Model/Scale.v (property C14).  A result that is `None` in Python is [VNone]; np.sqrt
   through root values ([VRS x]: the root of x, x = stddev^2 / stderr^2).

     _has_numeric_value / _numeric_values / _weighted_counts     the mask ~isnan(values) and the two selections
     _total_weighted_count = [strand_total],  _total_scaled_count
     scale_mean            = [strand_scale_mean]   (None: no category has a value / the valued total is 0)
     _scale_variance       = [strand_scale_var]
     scale_stddev          = root of [strand_scale_stddev_sq]
     scale_stderr          = root of [strand_scale_stderr_sq]
   scale_median (np.repeat + np.median) is translated but has no lemma here: it stays tied by the
   correspondence of harness/props/c14.py. *)
From Coq Require Import QArith ZArith List Bool Lia Arith String ZifyBool Setoid Morphisms.
From CC Require Import Base.XQ Base.ListX Base.VecExp Model.Scale
     Proofs.GenAgreeVecTac Proofs.GenAgreeScaleTac Gen.StripeScaleSrc.
Import ListNotations.
Local Close Scope Q_scope.
Local Open Scope string_scope.
Local Open Scope nat_scope.

Definition opt_val (o : option xq) : vval := match o with None => VNone | Some x => VS x end.
Definition opt_root (o : option xq) : vval := match o with None => VNone | Some x => VRS x end.

Definition env_strand (vals counts : list xq) (srt : list xq -> list nat) : venv :=
  mkVenv no_var (alist [("_rows_dimension.numeric_values", VV vals); ("_weighted_cube_counts.counts", VV counts)])
         no_get no_call srt.

Lemma scaled_pairs (vp : list (xq * xq)) :
  map2 xmul (map snd vp) (map fst vp) = map (fun vc => xmul (snd vc) (fst vc)) vp.
Proof. induction vp as [|[v c] t IH]; [reflexivity|]. cbn [map fst snd]. rewrite map2_cons, IH. reflexivity. Qed.

(* evaluate, then speak about the model's [valued_pairs] *)
Ltac strand_eval Hlen :=
  unfold env_strand; veval_simp;
  match type of Hlen with List.length ?counts = List.length ?vals =>
    rewrite ?(mask_take_vals_fst vals counts Hlen), ?(mask_take_counts_snd vals counts Hlen) end;
  vsplit.

Lemma gen_stripe_ScaledCounts__has_numeric_value :
  match vssrc_ScaledCounts__has_numeric_value with
  | Some e => forall vals counts srt,
      veval (env_strand vals counts srt) e = VBV (map negb (map is_nan vals))
  | None => True
  end.
Proof. unfold_vsrcs; try exact I. all: intros; unfold env_strand; veval_simp; reflexivity. Qed.

Lemma gen_stripe_ScaledCounts__numeric_values :
  match vssrc_ScaledCounts__numeric_values with
  | Some e => forall vals counts srt, List.length counts = List.length vals ->
      veval (env_strand vals counts srt) e = VV (map fst (valued_pairs vals counts))
  | None => True
  end.
Proof. unfold_vsrcs; try exact I. all: intros vals counts srt Hlen; strand_eval Hlen; reflexivity. Qed.

Lemma gen_stripe_ScaledCounts__weighted_counts :
  match vssrc_ScaledCounts__weighted_counts with
  | Some e => forall vals counts srt, List.length counts = List.length vals ->
      veval (env_strand vals counts srt) e = VV (map snd (valued_pairs vals counts))
  | None => True
  end.
Proof. unfold_vsrcs; try exact I. all: intros vals counts srt Hlen; strand_eval Hlen; reflexivity. Qed.

Lemma gen_stripe_ScaledCounts__total_weighted_count :
  match vssrc_ScaledCounts__total_weighted_count with
  | Some e => forall vals counts srt, List.length counts = List.length vals ->
      veval (env_strand vals counts srt) e = VS (strand_total counts vals)
  | None => True
  end.
Proof. unfold_vsrcs; try exact I. all: intros vals counts srt Hlen; strand_eval Hlen; reflexivity. Qed.

Lemma gen_stripe_ScaledCounts__total_scaled_count :
  match vssrc_ScaledCounts__total_scaled_count with
  | Some e => forall vals counts srt, List.length counts = List.length vals ->
      veval (env_strand vals counts srt) e
      = VS (xsum (map (fun vc => xmul (snd vc) (fst vc)) (valued_pairs vals counts)))
  | None => True
  end.
Proof.
  unfold_vsrcs; try exact I.
  all: intros vals counts srt Hlen; strand_eval Hlen; rewrite scaled_pairs; reflexivity.
Qed.

(* case analysis the model makes: no valued category / valued total == 0 / otherwise *)
Ltac strand_cases vals counts :=
  unfold strand_scale_stddev_sq, strand_scale_stderr_sq, strand_scale_var, strand_scale_mean, strand_total in *;
  destruct (valued_pairs vals counts) as [|p vp] eqn:Evp;
  [ cbn [map List.length] in *; try (exfalso; lia); try reflexivity
  | cbn [List.length map] in *; try (exfalso; lia) ].

(* `total == 0` decided by [vsplit]: use it in the model's test *)
Ltac strand_zero :=
  change (zq 0) with (Fin 0%Q) in *;
  repeat match goal with H : xeqb _ (Fin 0%Q) = _ |- _ => rewrite H in *; clear H end.

Lemma gen_stripe_ScaledCounts_scale_mean :
  match vssrc_ScaledCounts_scale_mean with
  | Some e => forall vals counts srt, List.length counts = List.length vals ->
      veval (env_strand vals counts srt) e = opt_val (strand_scale_mean counts vals)
  | None => True
  end.
Proof.
  unfold_vsrcs; try exact I.
  all: intros vals counts srt Hlen; strand_eval Hlen; rewrite ?scaled_pairs.
  all: strand_cases vals counts.
  all: strand_zero.
  all: reflexivity.
Qed.

Lemma gen_stripe_ScaledCounts__scale_variance :
  match vssrc_ScaledCounts__scale_variance with
  | Some e => forall vals counts srt, List.length counts = List.length vals ->
      veval (env_strand vals counts srt) e = opt_val (strand_scale_var counts vals)
  | None => True
  end.
Proof.
  unfold_vsrcs; try exact I.
  all: intros vals counts srt Hlen; strand_eval Hlen; rewrite ?scaled_pairs, ?var_numerator_pairs.
  all: strand_cases vals counts.
  all: strand_zero.
  all: reflexivity.
Qed.

Lemma gen_stripe_ScaledCounts_scale_stddev :
  match vssrc_ScaledCounts_scale_stddev with
  | Some e => forall vals counts srt, List.length counts = List.length vals ->
      veval (env_strand vals counts srt) e = opt_root (strand_scale_stddev_sq counts vals)
  | None => True
  end.
Proof.
  unfold_vsrcs; try exact I.
  all: intros vals counts srt Hlen; strand_eval Hlen; rewrite ?scaled_pairs, ?var_numerator_pairs.
  all: strand_cases vals counts.
  all: strand_zero.
  all: reflexivity.
Qed.

Lemma gen_stripe_ScaledCounts_scale_stderr :
  match vssrc_ScaledCounts_scale_stderr with
  | Some e => forall vals counts srt, List.length counts = List.length vals ->
      veval (env_strand vals counts srt) e = opt_root (strand_scale_stderr_sq counts vals)
  | None => True
  end.
Proof.
  unfold_vsrcs; try exact I.
  all: intros vals counts srt Hlen; strand_eval Hlen; rewrite ?scaled_pairs, ?var_numerator_pairs.
  all: strand_cases vals counts.
  all: strand_zero.
  all: reflexivity.
Qed.
