(* C07: ids of the insertions of the variable's view that come without one.

   _Subtotals._position_crosswalk (model: [crosswalk_order] / [crosswalk_id] of Model/Collator.v,
   as repaired by 5a1cca2c - every insertion is filed under the NORMALISED anchor) numbers an
   id-less view insertion by its 1-based rank among the subtotals of the specification's payload
   display order ([anchored_order] over [payload_base], anchors read with [spec_place]).

   Well-formedness the proof needs: every valid element id is an int ([int_ids]) - the ids of a
   categorical dimension, the only dimensions that have subtotals in the model ([subtotals] is
   [] when [d_array]).  With a STRING element id "x" the code would file a (meaningless) anchor
   "x" after that element while the collator raises ValueError on it and the specification puts it
   at the bottom.  [NoDup ids] is not used by the proof; it is kept in the statement because the
   model reads the FIRST rank of a position while the code's dict keeps the LAST one, which is the
   same only when no group is listed twice. *)
From Coq Require Import List ZArith String Ascii Bool Lia Arith.
From CC Require Base.Ident.
From CC Require Import Spec.OrderSpec Model.Collator Proofs.OrderCollate Proofs.OrderExplicit
  Proofs.OrderIds.
Import ListNotations.
Local Open Scope nat_scope.

Definition int_ids (ids : list ident) : Prop := forall i, In i ids -> exists z, i = IInt z.

(* --- generic list facts --------------------------------------------------------------------- *)
Lemma combine_map {A B C D} (f : A -> C) (g : B -> D) (a : list A) (b : list B) :
  combine (map f a) (map g b) = map (fun p => (f (fst p), g (snd p))) (combine a b).
Proof.
  revert b. induction a as [|x t IH]; intros [|y b]; simpl; auto. f_equal. apply IH.
Qed.

Lemma filter_map_swap {A B} (p : B -> bool) (h : A -> B) l :
  filter p (map h l) = map h (filter (fun x => p (h x)) l).
Proof.
  induction l as [|x t IH]; simpl; auto. destruct (p (h x)); simpl; rewrite IH; reflexivity.
Qed.

Lemma filter_flat_map {A B} (p : B -> bool) (g : A -> list B) l :
  filter p (flat_map g l) = flat_map (fun x => filter p (g x)) l.
Proof. induction l as [|x t IH]; simpl; auto. rewrite filter_app, IH. reflexivity. Qed.

Lemma filter_all {A} (p : A -> bool) l : (forall x, In x l -> p x = true) -> filter p l = l.
Proof.
  induction l as [|x t IH]; simpl; intros H; auto.
  rewrite (H x) by auto. f_equal. apply IH. intros y Hy. apply H. auto.
Qed.

Lemma filter_none {A} (p : A -> bool) l : (forall x, In x l -> p x = false) -> filter p l = [].
Proof.
  induction l as [|x t IH]; simpl; intros H; auto.
  rewrite (H x) by auto. apply IH. intros y Hy. apply H. auto.
Qed.

Lemma flat_map_ext_in' {A B} (f g : A -> list B) l :
  (forall x, In x l -> f x = g x) -> flat_map f l = flat_map g l.
Proof.
  induction l as [|x t IH]; simpl; intros H; auto.
  rewrite (H x) by auto. f_equal. apply IH. intros y Hy. apply H. auto.
Qed.

(* --- str(int) is injective -------------------------------------------------------------------- *)
Lemma py_str_Z_inj a b : py_str_Z a = py_str_Z b -> a = b.
Proof.
  intros H.
  assert (E : Some a = Some b).
  { rewrite <- (Ident.parse_int_dec a), <- (Ident.parse_int_dec b).
    unfold Ident.dec. unfold py_str_Z in H. rewrite H. reflexivity. }
  congruence.
Qed.

Lemma py_str_Z_eqb a b : String.eqb (py_str_Z a) (py_str_Z b) = Z.eqb a b.
Proof.
  destruct (Z.eqb a b) eqn:E.
  - apply Z.eqb_eq in E. subst. apply String.eqb_refl.
  - apply String.eqb_neq. intros H. apply py_str_Z_inj in H. apply Z.eqb_neq in E. contradiction.
Qed.

(* --- the three tests of the crosswalk, by name ---------------------------------------------- *)
Definition cw_key (ids : list ident) (d : insertion) : option string :=
  match norm_anchor ids (i_anchor d) with
  | NTop | NBottom => None
  | NAt z => if imem (IInt z) ids then Some (py_str_Z z) else None
  | NOther s => if imem (IStr s) ids then Some s else None
  end.
Definition cw_top (ids : list ident) (d : insertion) : bool :=
  match norm_anchor ids (i_anchor d) with NTop => true | _ => false end.
Definition cw_last (ids : list ident) (d : insertion) : bool :=
  match norm_anchor ids (i_anchor d) with
  | NTop => false
  | NBottom => true
  | _ => match cw_key ids d with Some _ => false | None => true end
  end.
Definition cw_after (ids : list ident) (e : ident) (d : insertion) : bool :=
  match cw_key ids d with Some s => String.eqb s (py_str e) | None => false end.

Lemma crosswalk_order_eq ids ds :
  crosswalk_order ids ds
  = map fst (filter (fun kd => cw_top ids (snd kd)) (enumerate ds)
             ++ flat_map (fun e => filter (fun kd => cw_after ids e (snd kd)) (enumerate ds)) ids
             ++ filter (fun kd => cw_last ids (snd kd)) (enumerate ds)).
Proof. reflexivity. Qed.

(* --- the specification's place of an insertion ------------------------------------------------ *)
Definition splace (ids : list ident) (d : insertion) : place :=
  match spec_place ids (i_anchor d) with Some p => p | None => PBottom end.

Lemma splace_norm ids d : splace ids d = place_of_nanchor (norm_anchor ids (i_anchor d)).
Proof.
  unfold splace. pose proof (norm_anchor_spec ids (i_anchor d)) as H.
  destruct (norm_anchor ids (i_anchor d)); rewrite H; reflexivity.
Qed.

Lemma norm_at_mem ids raw z : norm_anchor ids raw = NAt z -> imem (IInt z) ids = true.
Proof.
  assert (I : forall y, norm_int ids y = NAt z -> imem (IInt z) ids = true).
  { intros y. unfold norm_int. destruct (imem (IInt y) ids) eqn:E; intros H; inversion H.
    subst. exact E. }
  destruct raw as [y|s|]; simpl; try discriminate.
  - apply I.
  - destruct (py_int s) as [y|]; [apply I|].
    destruct (String.eqb (lower s) "top"); try discriminate.
    destruct (String.eqb (lower s) "bottom"); discriminate.
Qed.

(* membership test of the specification, on an insertion *)
Definition sp_at (ids : list ident) (p : place) (d : insertion) : bool :=
  place_eqb (effective ids (splace ids d)) p.

Lemma int_ids_no_str ids s : int_ids ids -> imem (IStr s) ids = false.
Proof.
  intros W. apply imem_false. intros H. destruct (W _ H) as [z E]. discriminate.
Qed.

Lemma cw_top_spec ids d : cw_top ids d = sp_at ids PTop d.
Proof.
  unfold cw_top, sp_at. rewrite splace_norm.
  destruct (norm_anchor ids (i_anchor d)) as [| |z|s] eqn:E; simpl; auto.
  rewrite (norm_at_mem _ _ _ E). reflexivity.
Qed.

Lemma cw_last_spec ids d : int_ids ids -> cw_last ids d = sp_at ids PBottom d.
Proof.
  intros W. unfold cw_last, cw_key, sp_at. rewrite splace_norm.
  destruct (norm_anchor ids (i_anchor d)) as [| |z|s] eqn:E; simpl; auto.
  - rewrite (norm_at_mem _ _ _ E). reflexivity.
  - rewrite (int_ids_no_str ids s W). reflexivity.
Qed.

Lemma cw_after_spec ids e d : int_ids ids -> In e ids -> cw_after ids e d = sp_at ids (PAfter e) d.
Proof.
  intros W He. destruct (W _ He) as [y ->].
  unfold cw_after, cw_key, sp_at. rewrite splace_norm.
  destruct (norm_anchor ids (i_anchor d)) as [| |z|s] eqn:E; simpl; auto.
  - rewrite (norm_at_mem _ _ _ E). simpl. apply py_str_Z_eqb.
  - rewrite (int_ids_no_str ids s W). reflexivity.
Qed.

Lemma sp_at_before ids e d : sp_at ids (PBefore e) d = false.
Proof.
  unfold sp_at. rewrite splace_norm.
  destruct (norm_anchor ids (i_anchor d)) as [| |z|s]; simpl; auto.
  destruct (imem (IInt z) ids); reflexivity.
Qed.

(* --- the specification's groups over the insertions ------------------------------------------- *)
Definition shift (n k : nat) : Z := (Z.of_nat k - Z.of_nat n)%Z.

Definition spec_floats (ids : list ident) (ds : list insertion) : list flt :=
  combine (neg_idxs (List.length ds)) (spec_places ids ds).

Lemma spec_floats_eq ids ds :
  spec_floats ids ds
  = map (fun kd : nat * insertion => (shift (List.length ds) (fst kd), splace ids (snd kd)))
        (enumerate ds).
Proof.
  unfold spec_floats, neg_idxs, spec_places, enumerate.
  rewrite (combine_map (fun i => (Z.of_nat i - Z.of_nat (List.length ds))%Z)
                       (fun d => match spec_place ids (i_anchor d) with Some p => p | None => PBottom end)).
  reflexivity.
Qed.

Lemma group_eq ids ds p :
  group ids (spec_floats ids ds) p
  = map (fun kd : nat * insertion => shift (List.length ds) (fst kd))
        (filter (fun kd => sp_at ids p (snd kd)) (enumerate ds)).
Proof.
  unfold group. rewrite spec_floats_eq, filter_map_swap, map_map. reflexivity.
Qed.

Lemma group_neg ids ds p z : In z (group ids (spec_floats ids ds) p) -> (z <? 0)%Z = true.
Proof.
  rewrite group_eq. intros H. apply in_map_iff in H. destruct H as (kd & <- & H).
  apply filter_In in H. destruct H as [H _]. apply in_enumerate_bound in H.
  apply Z.ltb_lt. unfold shift. lia.
Qed.

(* the subtotals of the specification's payload display order, in order *)
Lemma spec_order_subtotals ids ds :
  int_ids ids ->
  filter (fun z => Z.ltb z 0) (anchored_order (payload_base ids) (spec_floats ids ds))
  = map (shift (List.length ds)) (crosswalk_order ids ds).
Proof.
  intros W. unfold anchored_order, payload_base.
  rewrite snd_enumerate.
  set (fl := spec_floats ids ds).
  rewrite !filter_app, filter_flat_map.
  rewrite (filter_all _ (group ids fl PTop)) by (apply group_neg).
  rewrite (filter_all _ (group ids fl PBottom)) by (apply group_neg).
  rewrite (flat_map_ext_in' _ (fun e : bel => group ids fl (PAfter (snd e)))).
  2:{ intros e _. rewrite !filter_app.
      rewrite (filter_all _ (group ids fl (PAfter (snd e)))) by (apply group_neg).
      assert (B : group ids fl (PBefore (snd e)) = []).
      { unfold fl. rewrite group_eq. rewrite filter_none; [reflexivity|].
        intros kd _. apply sp_at_before. }
      rewrite B. simpl.
      destruct (Z.ltb (Z.of_nat (fst e)) 0) eqn:E; [apply Z.ltb_lt in E; lia|reflexivity]. }
  assert (F : flat_map (fun e : bel => group ids fl (PAfter (snd e))) (enumerate ids)
              = flat_map (fun i => group ids fl (PAfter i)) ids).
  { rewrite <- (snd_enumerate ids) at 2. rewrite flat_map_map'. reflexivity. }
  rewrite F. clear F.
  rewrite crosswalk_order_eq, map_map, !map_app, map_flat_map.
  unfold fl. rewrite !group_eq.
  f_equal; [|f_equal].
  - f_equal. apply filter_ext. intros kd. symmetry. apply cw_top_spec.
  - apply flat_map_ext_in'. intros e He. rewrite group_eq. f_equal.
    apply filter_ext. intros kd. symmetry. apply cw_after_spec; assumption.
  - f_equal. apply filter_ext. intros kd. symmetry. apply cw_last_spec. exact W.
Qed.

(* --- ranks ------------------------------------------------------------------------------------ *)
Lemma index_of_shift n k l : index_of (shift n k) (map (shift n) l) = index_nat k l.
Proof.
  induction l as [|x t IH]; simpl; auto.
  destruct (Nat.eqb x k) eqn:E.
  - apply Nat.eqb_eq in E. subst. rewrite Z.eqb_refl. reflexivity.
  - apply Nat.eqb_neq in E.
    destruct (Z.eqb (shift n x) (shift n k)) eqn:E'.
    + apply Z.eqb_eq in E'. unfold shift in E'. lia.
    + rewrite IH. reflexivity.
Qed.

Lemma index_nat_in k l : In k l -> exists r, index_nat k l = Some r.
Proof.
  induction l as [|x t IH]; simpl; intros H; [contradiction|].
  destruct (Nat.eqb x k) eqn:E; [eexists; reflexivity|].
  destruct H as [H|H]; [subst; rewrite Nat.eqb_refl in E; discriminate|].
  destruct (IH H) as [r ->]. eexists. reflexivity.
Qed.

(* every insertion is ranked: it is in exactly the bucket its normalised anchor names *)
Lemma crosswalk_complete ids ds kd : In kd (enumerate ds) -> In (fst kd) (crosswalk_order ids ds).
Proof.
  intros H. rewrite crosswalk_order_eq. apply in_map. rewrite !in_app_iff.
  destruct (norm_anchor ids (i_anchor (snd kd))) as [| |z|s] eqn:E.
  - left. apply filter_In. split; auto. unfold cw_top. rewrite E. reflexivity.
  - right. right. apply filter_In. split; auto. unfold cw_last. rewrite E. reflexivity.
  - right. left. apply in_flat_map. exists (IInt z). pose proof (norm_at_mem _ _ _ E) as M.
    split; [apply imem_In; exact M|].
    apply filter_In. split; auto. unfold cw_after, cw_key. rewrite E, M. apply String.eqb_refl.
  - destruct (imem (IStr s) ids) eqn:M.
    + right. left. apply in_flat_map. exists (IStr s). split; [apply imem_In; exact M|].
      apply filter_In. split; auto. unfold cw_after, cw_key. rewrite E, M. apply String.eqb_refl.
    + right. right. apply filter_In. split; auto. unfold cw_last, cw_key. rewrite E, M. reflexivity.
Qed.

(* --- the theorem -------------------------------------------------------------------------------- *)
Theorem ids_view ids ds :
  NoDup ids -> int_ids ids ->
  map (fun p => Some (fst p)) (with_ids true ids ds) = spec_ids_of true ids ds.
Proof.
  intros _ W. unfold with_ids, spec_ids_of. cbv zeta. rewrite map_map.
  apply map_ext_in. intros [k d] Hin. cbn [fst snd].
  destruct (i_id d) as [z|]; [reflexivity|]. cbn [fst].
  unfold rank_in_order, crosswalk_id.
  fold (spec_floats ids ds). fold (shift (List.length ds) k).
  rewrite (spec_order_subtotals ids ds W), index_of_shift.
  destruct (index_nat_in k (crosswalk_order ids ds) (crosswalk_complete ids ds (k, d) Hin)) as [r ->].
  reflexivity.
Qed.

(* the same, rank by rank: the id of the k-th (id-less) view insertion is its 1-based rank among the
   subtotals of the specification's payload display order *)
Corollary ids_view_rank ids ds k d0 :
  NoDup ids -> int_ids ids -> k < List.length ds -> i_id (nth k ds d0) = None ->
  rank_in_order (List.length ds) k
                (anchored_order (payload_base ids) (spec_floats ids ds))
  = Some (nth k (map fst (with_ids true ids ds)) 0%Z).
Proof.
  intros N W Hk Hid.
  pose proof (ids_view ids ds N W) as H.
  apply (f_equal (fun l => nth k l None)) in H.
  unfold spec_ids_of in H. cbv zeta in H.
  rewrite (nth_map_enumerate _ ds k d0 None Hk) in H. cbn [fst snd] in H. rewrite Hid in H.
  fold (spec_floats ids ds) in H. rewrite <- H.
  rewrite <- map_map.
  rewrite (nth_indep _ None (Some 0%Z)) by (rewrite !map_length; unfold with_ids; rewrite map_length, enumerate_length; exact Hk).
  rewrite (map_nth Some). reflexivity.
Qed.

(* the former witness of finding C07-crosswalk-raw-anchors: anchors "Top", 3, "2" over the ids 1 2 3
   used to be numbered 2, 1, 3 (the spellings "Top" and "2" were ranked as bottom) *)
Lemma ids_view_former_witness :
  let ids := [IInt 1%Z; IInt 2%Z; IInt 3%Z] in
  let ds := [mkIns None (IStr "Top") true false [IInt 1%Z];
             mkIns None (IInt 3%Z) true false [IInt 1%Z];
             mkIns None (IStr "2") true false [IInt 1%Z]] in
  NoDup ids /\ int_ids ids /\
  map fst (with_ids true ids ds) = [1; 3; 2]%Z /\
  spec_ids_of true ids ds = [Some 1; Some 3; Some 2]%Z /\
  anchored_order (payload_base ids) (spec_floats ids ds) = [-3; 0; 1; -1; 2; -2]%Z.
Proof.
  cbv zeta. split; [|split].
  - repeat constructor; simpl; intuition discriminate.
  - intros i H. simpl in H. destruct H as [<-|[<-|[<-|[]]]]; eexists; reflexivity.
  - vm_compute. repeat split.
Qed.
