(* Proofs/GenAgreeBasesTac.v -- the fourth GenAgree tie (round 3, workstream `bases`): standard
   environments, and the tactics for terms of Base/BasesExp.v.  The lemmas are in
     GenAgreeBaseBlocks.v (C02: the four blocks of the seven 2-D base measures)
     GenAgreeMargins.v    (C02: marginals, table values, strand bases, minimum-base masks)
     GenAgreePass.v       (C01: unweighted counts and the pass-through numeric measures)

   Gen/BasesSrc.v, Gen/StripeBasesSrc.v, Gen/MaskSrc.v are REWRITTEN FROM THE SOURCE on every check
   by harness/translate/x_bases.py.  Statement shape, for ALL sizes, subtotal lists, inputs:

       match src_<Wiring>_<member> with
       | Some e => forall nr nc rsubs csubs cubem .., <index hypotheses the source needs> ->
                     bagrees_mat (beval E e) <rows> <columns> (mnth (<block> (<the model's definition>)))
       | None => True
       end

   where E = [benv_std ..] reads a cube-measure array of the base shape from [cubem] BY NAME
   (1-D / scalar / None cube-measure attributes from [cubev]), the blocks of other second-order
   measures from [blk] BY NAME, and gives a recorded SumSubtotals call the meaning [strat_std]
   (Proofs/GenAgreeMeasTac.v) -- which C04_gen_SumSubtotals proves matrix/subtotals.py denotes.
   NUMERIC shapes: the evaluator's  n =? m  tests are decided by [Nat.eqb_refl] / case analysis,
   integer indexing needs  0 < nr / 0 < nc  hypotheses exactly where the source indexes. *)
From Coq Require Import QArith ZArith List Bool Lia Arith String.
From CC Require Import Base.XQ Base.ListX Base.BasesExp
     Model.Subtotals Model.Proportions Model.BaseBlocks Proofs.GenAgreeMeasTac.
Import ListNotations.
Local Close Scope Q_scope.
Local Open Scope string_scope.
Local Open Scope nat_scope.

(* ------------------------------------------------------------------------------------ *)
(** * the standard environment of a slice *)

(* one / two cube-measure attributes that are not base-shaped matrices *)
Definition cv0 : string -> string -> option bval := fun _ _ => None.
Definition cv1 (c a : string) (v : bval) : string -> string -> option bval :=
  fun c' a' => if String.eqb c' c && String.eqb a' a then Some v else None.

Definition cube_std (nr nc : nat) (cubem : string -> string -> list (list xq))
           (cubev : string -> string -> option bval) (c a : string) : bval :=
  match cubev c a with Some v => v | None => WMat nr nc (mnth (cubem c a)) end.

(* the blocks of another 2-D second-order measure, by name, with the shape of the block *)
Definition blk_std (nr nc nrs ncs : nat) (blk : string -> nat -> nat -> list (list xq))
           (m : string) (bi bj : nat) : bval :=
  match blk_rows nr nrs bi, blk_rows nc ncs bj with
  | Some R, Some C => WMat R C (mnth (blk m bi bj))
  | _, _ => WErr
  end.

Definition no_mblk (_ : string) (_ : nat) : bval := WErr.
Definition no_blk (_ : string) (_ _ : nat) : list (list xq) := [].
Definition no_mflag (_ _ : string) : bool := false.
Definition no_arg (_ : string) : bval := WErr.
Definition no_dimtype (_ : nat) : string := "".

Definition benv_std (nr nc : nat) (rsubs csubs : list subtotal)
           (cubem : string -> string -> list (list xq))
           (cubev : string -> string -> option bval)
           (cubeflag : string -> string -> bool)
           (blk : string -> nat -> nat -> list (list xq))
           (mblk : string -> nat -> bval)
           (mflag : string -> string -> bool) : benv :=
  mkBenv nr nc (List.length rsubs) (List.length csubs)
         (cube_std nr nc cubem cubev) cubeflag
         (blk_std nr nc (List.length rsubs) (List.length csubs) blk) mblk mflag
         (fun _ => WErr) WErr no_arg no_dimtype []
         (strat_std cubem nr nc rsubs csubs 0)
         (fun _ _ => NaN).

(* the same with the dimension types of the slice by name ([dt 0] rows, [dt 1] columns) and the
   frozensets of enums.DIMENSION_TYPE (Gen/Tables.v [tbl_DT_sets]) *)
Definition benv_dims (nr nc : nat) (rsubs csubs : list subtotal)
           (cubem : string -> string -> list (list xq))
           (cubeflag : string -> string -> bool)
           (dt : nat -> string) (sets : list (string * list string)) : benv :=
  mkBenv nr nc (List.length rsubs) (List.length csubs)
         (cube_std nr nc cubem cv0) cubeflag
         (blk_std nr nc (List.length rsubs) (List.length csubs) no_blk) no_mblk no_mflag
         (fun _ => WErr) WErr no_arg dt sets
         (strat_std cubem nr nc rsubs csubs 0)
         (fun _ _ => NaN).
(* DT.ARRAY_TYPES: a dimension of sub-variables (no sum across its elements) *)
Definition is_array_type (t : string) : bool := in_set t ["CA_SUBVAR"; "MR_SUBVAR"; "NUM_ARRAY"].

(* scalar.py: the constructor arguments by parameter name *)
Definition benv_args (arg : string -> bval) : benv :=
  mkBenv 0 0 0 0 (fun _ _ => WErr) (fun _ _ => false) (fun _ _ _ => WErr) no_mblk no_mflag
         (fun _ => WErr) WErr arg no_dimtype [] (fun _ _ _ _ _ _ _ _ => NaN) (fun _ _ => NaN).

(* a strand: n base rows, the cube-measure attributes by name, stripe SumSubtotals = [vstrat_std] *)
Definition benv_strand (n : nat) (subs : list subtotal) (cube : string -> string -> bval) : benv :=
  mkBenv n 0 (List.length subs) 0 cube (fun _ _ => false) (fun _ _ _ => WErr) no_mblk no_mflag
         (fun _ => WErr) WErr no_arg no_dimtype [] (fun _ _ _ _ _ _ _ _ => NaN) (vstrat_std subs 0).

(* min_base_size_mask.py: the slice's public arrays by name (nr x nc, insertions included), the size *)
Definition benv_mask (nr nc : nat) (attr : string -> list (list xq)) (size : xq) : benv :=
  mkBenv nr nc 0 0 (fun _ _ => WErr) (fun _ _ => false) (fun _ _ _ => WErr) no_mblk no_mflag
         (fun a => WMat nr nc (mnth (attr a))) (WScal size) no_arg no_dimtype []
         (fun _ _ _ _ _ _ _ _ => NaN) (fun _ _ => NaN).

(* ------------------------------------------------------------------------------------ *)
(** * tactics *)

Ltac bases_eval :=
  cbv [beval heval neval bceval index_val broadcast_val bbin cmp_val bc_ok bc_ix blk_rows flag_val
       list_eqb bagrees_mat bagrees_vec bagrees_scal nth_error
       g_nr g_nc g_nrs g_ncs g_cube g_cubeflag g_block g_mblock g_mflag g_slice g_size g_sum2 g_vsum
       g_arg g_dimtype g_dtsets str_assoc no_arg no_dimtype benv_dims benv_args
       benv_std benv_strand benv_mask cube_std blk_std cv0 cv1 no_mblk no_blk no_mflag
       andb orb negb String.eqb Ascii.eqb Bool.eqb].

(* decide the evaluator's arithmetic tests: equal terms, 0 < n from a hypothesis, else case analysis *)
Ltac bases_tests :=
  repeat (cbv beta iota;
          match goal with
          | |- context [Nat.eqb ?a ?a] => rewrite (Nat.eqb_refl a)
          | H : 0 < ?n |- context [Nat.ltb 0 ?n] => rewrite (proj2 (Nat.ltb_lt 0 n) H)
          | |- context [if Nat.eqb ?a ?b then _ else _] => destruct (Nat.eqb_spec a b)
          | |- context [if Nat.ltb ?a ?b then _ else _] => destruct (Nat.ltb_spec a b)
          end);
  cbv beta iota.

(* an index  (if 1 =? n then j else 0)  that survived: j < n = 1 *)
Ltac zero_index :=
  repeat match goal with
         | H : ?j < ?n, E : 1 = ?n |- _ =>
             is_var j; assert (j = 0) by (rewrite <- E in H; lia); subst j
         end.

Ltac bases_cells unf :=
  lazymatch goal with
  | |- False => exfalso; lia
  | |- _ /\ _ /\ _ =>
      split; [try reflexivity; lia|split; [try reflexivity; lia|]];
      intros; try (exfalso; lia); zero_index; unf; read_tab2; try reflexivity
  | |- _ /\ _ =>
      split; [try reflexivity; lia|];
      intros; try (exfalso; lia); zero_index; unf; read_tab2; try reflexivity
  | |- _ = _ => unf; read_tab2; try reflexivity
  | |- True => exact I
  end.

(* [unf]: unfold the model definitions the right-hand side is made of *)
Ltac gen_bases_with unf :=
  unfold_srcs;
  lazymatch goal with
  | |- True => exact I
  | _ => intros; bases_eval; bases_tests; bases_cells unf
  end.

Ltac unf_base_blocks :=
  cbv [row_base_blocks col_base_blocks table_base_blocks row_ubase_blocks col_ubase_blocks
       b_base b_cols b_rows b_inter strat_std pick sum_blocks nosub].

(* reading a value in the concrete examples of Props/C02.v, Props/C01.v *)
Definition bshape_of (v : bval) : list nat :=
  match v with WVec n _ => [n] | WMat r c _ => [r; c] | _ => [] end.
Definition bcell (v : bval) (i j : nat) : xq :=
  match v with WMat _ _ f => f i j | WVec _ f => f j | WScal x => x | _ => NaN end.
Definition is_err (v : bval) : bool := match v with WErr => true | _ => false end.
