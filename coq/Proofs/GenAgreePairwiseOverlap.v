(* Proofs/GenAgreePairwiseOverlap.v -- GenAgree for C13, overlapping multiple-response columns: what
   matrix/measure.py SAYS NOW for
     _PairwiseSignificaneBetweenSubvariablesHelper(column_proportions, selected_bases, valid_bases,
                                                   row_idx, idx_a, idx_b).t_stats / ._df / .p_vals
     SecondOrderMeasures.pairwise_t_stats_for_subvar(idx) -> _PairwiseSigTStatsForSubvar.t_stats
     SecondOrderMeasures.pairwise_p_vals_for_subvar(idx)  -> _PairwiseSigPValsForSubvar.p_vals
   (the nested comprehension that constructs the helper for every (row, subvariable) with the base
   block of the column proportions and the cube's overlap tensors, the helper inlined)
   denotes [ov_tblock] / [ov_df] of Model/Pairwise.v and [ov_pblock] of Model/PairwiseP.v:
     idx_a = idx_b: t = 0, p = 0 ([ov_p_self]);  otherwise, with S. / N. the selected / valid counts
     read at [row, a, a], [row, b, b], [row, a, b]:  df = Na + Nb - Nab,
     t = (cp[row, b] - cp[row, a]) / sqrt(1/df (pa(1-pa) + pb(1-pb) + 2 pa pb - 2 pab)),
     p = 2 (1 - cdf(|t|, df - 2)) for every function cdf.
   _PairwiseSigTStatsForSubvar._hs_t_stats / _PairwiseSigPValsForSubvar._hs_p_vals (the two nested loops
   with .append over the INSERTED rows: the helper on the inserted-rows block of the column proportions
   and on OverlapSubtotals.blocks(<overlap tensor>, .., diff_cols_nan=True)[1][0]; the empty-block guard)
   denote ov_tblock / ov_pblock on those blocks.
   See GenAgreePairTac.v. *)
From Coq Require Import QArith Qabs ZArith List Bool Lia Arith String.
From CC Require Import Base.XQ Base.ListX Base.MeasureExp Base.PairExp Model.Pairwise Model.PairwiseP
     Gen.PairwiseSrc Proofs.GenAgreePairTac.
Import ListNotations.
Local Close Scope Q_scope.
Local Open Scope string_scope.
Local Open Scope nat_scope.

(* a 3-D array rows x columns x columns *)
Definition sq3 (A : list (list (list xq))) (nr nc : nat) : Prop :=
  List.length A = nr /\
  forall i, i < nr -> nrows (nth i A []) = nc /\
                      forall j, j < nc -> List.length (nth j (nth i A []) []) = nc.

Definition hix (row a b : Z) (s : string) : Z :=
  if String.eqb s "row_idx" then row
  else if String.eqb s "idx_a" then a
  else if String.eqb s "idx_b" then b else 0%Z.
Definition hcube (CP : list (list xq)) (c a : string) : mval :=
  if String.eqb c "arg" && String.eqb a "column_proportions" then VMat DR DC (mnth CP) else VErr.
Definition no_pblk (_ : string) (_ _ : nat) : list (list xq) := [].
Definition no_pflag (_ : string) : bool := false.
Definition no_pcube (_ _ : string) : mval := VErr.

(* the helper by itself: constructor arguments by position *)
Definition penv_helper (nr nc : nat) (row a b : Z) (CP : list (list xq))
           (c3 : string -> string -> list (list (list xq))) (cdf : xq -> xq -> xq) : penv :=
  mkPenv (psize nr nc 0 0) (hix row a b) no_loop no_pblk no_pblock (hcube CP) no_pslice c3
         no_pflag cdf no_ncdf no_pscal no_ovrows.

(* the ...ForSubvar measures: blocks by name, the cube's 3-D overlap tensors by name *)
Definition penv_ov (nr nc nrs ncs : nat) (sel : Z) (blk : string -> nat -> nat -> list (list xq))
           (c3 ovr : string -> string -> list (list (list xq))) (cdf : xq -> xq -> xq) : penv :=
  mkPenv (psize nr nc nrs ncs) (sel_ix sel) no_loop blk no_pblock no_pcube no_pslice c3
         no_pflag cdf no_ncdf no_pscal ovr.

Ltac ov_eval0 :=
  cbv [penv_helper penv_ov hix hcube no_pblk no_pflag no_pcube]; pair_eval0.
Ltac ov_eval :=
  cbv [penv_helper penv_ov hix hcube no_pblk no_pflag no_pcube]; pair_eval.

Lemma Zeqb_nat a b : (Z.of_nat a =? Z.of_nat b)%Z = Nat.eqb b a.
Proof.
  destruct (Nat.eqb_spec b a) as [E|E].
  - subst. apply Z.eqb_refl.
  - apply Z.eqb_neq. lia.
Qed.

(* facts about the cell (i, a, b) of the two tensors, then evaluation of every index *)
Ltac ov_facts S N nr nc i a b HSs HNs Hi Ha Hb :=
  let HS1 := fresh "HS1" in let HS2 := fresh "HS2" in let HN1 := fresh "HN1" in let HN2 := fresh "HN2" in
  let HS3 := fresh "HS3" in let HS4 := fresh "HS4" in let HN3 := fresh "HN3" in let HN4 := fresh "HN4" in
  let HS5 := fresh "HS5" in let HS6 := fresh "HS6" in let HN5 := fresh "HN5" in let HN6 := fresh "HN6" in
  pose proof HSs as [HS1 HS2]; pose proof HNs as [HN1 HN2];
  destruct (HS2 i Hi) as [HS3 HS4]; destruct (HN2 i Hi) as [HN3 HN4];
  pose proof (HS4 a Ha) as HS5; pose proof (HS4 b Hb) as HS6;
  pose proof (HN4 a Ha) as HN5; pose proof (HN4 b Hb) as HN6;
  repeat (progress (rewrite ?HS1, ?HN1, ?HS3, ?HN3, ?HS5, ?HS6, ?HN5, ?HN6;
                    rewrite ?nidx_nat by assumption; ov_eval0));
  ov_eval.

Ltac ov_model_t :=
  unfold ov_tabs, ov_se2, ov_df, ssq; rewrite xdiv_sqrt_guard; reflexivity.

Lemma gen_OverlapHelper_t_stats :
  match src_OverlapHelper_t_stats with
  | Some e => forall nr nc i a b CP c3 cdf,
      shaped CP nr nc -> sq3 (c3 "arg" "selected_bases") nr nc -> sq3 (c3 "arg" "valid_bases") nr nc ->
      i < nr -> a < nc -> b < nc ->
      pagrees_scal (pev true (penv_helper nr nc (Z.of_nat i) (Z.of_nat a) (Z.of_nat b) CP c3 cdf) e)
                   (mnth (ov_tblock a CP (c3 "arg" "selected_bases") (c3 "arg" "valid_bases")) i b)
  | None => True
  end.
Proof.
  punfold_srcs;
  lazymatch goal with
  | |- True => exact I
  | _ =>
      intros nr nc i a b CP c3 cdf [HCr HCc] HSs HNs Hi Ha Hb; shape_use;
      ov_eval0; rewrite ?Zeqb_nat;
      unfold ov_tblock; rewrite HCr, HCc; rewrite tab2_mnth by assumption;
      destruct (Nat.eqb b a) eqn:Eab;
      [ reflexivity
      | ov_facts (c3 "arg" "selected_bases") (c3 "arg" "valid_bases") nr nc i a b HSs HNs Hi Ha Hb;
        ov_model_t ]
  end.
Qed.

Lemma gen_OverlapHelper__df :
  match src_OverlapHelper__df with
  | Some e => forall nr nc i a b CP c3 cdf,
      sq3 (c3 "arg" "valid_bases") nr nc -> i < nr -> a < nc -> b < nc ->
      pagrees_scal (pev false (penv_helper nr nc (Z.of_nat i) (Z.of_nat a) (Z.of_nat b) CP c3 cdf) e)
                   (let n := nth i (c3 "arg" "valid_bases") [] in
                    ov_df (mnth n a a) (mnth n b b) (mnth n a b))
  | None => True
  end.
Proof.
  punfold_srcs;
  lazymatch goal with
  | |- True => exact I
  | _ =>
      intros nr nc i a b CP c3 cdf HNs Hi Ha Hb;
      ov_eval0;
      ov_facts (c3 "arg" "valid_bases") (c3 "arg" "valid_bases") nr nc i a b HNs HNs Hi Ha Hb;
      reflexivity
  end.
Qed.

Ltac ov_model_p :=
  unfold pval_x, ov_tblock, ov_dfblock;
  lazymatch goal with
  | HCr : nrows ?CP = _, HCc : ncols ?CP = _ |- _ => rewrite HCr, HCc
  end;
  rewrite !tab2_mnth by assumption;
  lazymatch goal with
  | Eab : Nat.eqb _ _ = false |- _ => rewrite Eab
  end;
  unfold ov_tabs, ov_se2, ov_df, ssq; rewrite xdiv_sqrt_guard; reflexivity.

Lemma gen_OverlapHelper_p_vals :
  match src_OverlapHelper_p_vals with
  | Some e => forall nr nc i a b CP c3 cdf,
      shaped CP nr nc -> sq3 (c3 "arg" "selected_bases") nr nc -> sq3 (c3 "arg" "valid_bases") nr nc ->
      i < nr -> a < nc -> b < nc ->
      pagrees_scal (pev false (penv_helper nr nc (Z.of_nat i) (Z.of_nat a) (Z.of_nat b) CP c3 cdf) e)
                   (mnth (ov_pblock cdf a CP (c3 "arg" "selected_bases") (c3 "arg" "valid_bases")) i b)
  | None => True
  end.
Proof.
  punfold_srcs;
  lazymatch goal with
  | |- True => exact I
  | _ =>
      intros nr nc i a b CP c3 cdf [HCr HCc] HSs HNs Hi Ha Hb; shape_use;
      ov_eval0; rewrite ?Zeqb_nat;
      unfold ov_pblock; rewrite HCr, HCc; rewrite tab2_mnth by assumption;
      destruct (Nat.eqb b a) eqn:Eab;
      [ reflexivity
      | ov_facts (c3 "arg" "selected_bases") (c3 "arg" "valid_bases") nr nc i a b HSs HNs Hi Ha Hb;
        ov_model_p ]
  end.
Qed.

(* ---- the comprehension ---------------------------------------------------------------- *)
Lemma ptab2_agrees sq E c a body (g : nat -> nat -> xq) :
  List.length (pe_cube3 E c a) = pe_size E DR ->
  (0 < pe_size E DR -> nrows (nth 0 (pe_cube3 E c a) []) = pe_size E DC) ->
  (forall i j, i < pe_size E DR -> j < pe_size E DC ->
               pagrees_scal (pev sq (with_loop E i j) body) (g i j)) ->
  pagrees_mat E (pev sq E (PTab2 c a body)) DR DC g.
Proof.
  intros H1 H2 H3. cbn [pev]. rewrite H1, Nat.eqb_refl.
  assert (Hc : Nat.eqb (pe_size E DR) 0 || Nat.eqb (nrows (nth 0 (pe_cube3 E c a) [])) (pe_size E DC) = true).
  { destruct (pe_size E DR) eqn:En; [reflexivity|]. rewrite H2 by lia. rewrite Nat.eqb_refl. reflexivity. }
  rewrite Hc. cbn [andb].
  assert (Hall : forallb (fun i => forallb (fun j => is_scal (pev sq (with_loop E i j) body))
                                           (seq 0 (pe_size E DC))) (seq 0 (pe_size E DR)) = true).
  { apply forallb_forall. intros i Hi. apply forallb_forall. intros j Hj.
    apply in_seq in Hi. apply in_seq in Hj.
    specialize (H3 i j ltac:(lia) ltac:(lia)).
    destruct (pev sq (with_loop E i j) body); simpl in H3; try contradiction. reflexivity. }
  rewrite Hall. cbn [pagrees_mat]. split; [reflexivity|split; [reflexivity|]].
  intros i j Hi Hj. specialize (H3 i j Hi Hj).
  destruct (pev sq (with_loop E i j) body); simpl in H3; try contradiction. exact H3.
Qed.

Definition ov_shaped (blk : string -> nat -> nat -> list (list xq))
           (c3 : string -> string -> list (list (list xq))) (nr nc : nat) : Prop :=
  shaped (blk "column_proportions" 0 0) nr nc /\
  sq3 (c3 "cube_overlaps" "selected_bases") nr nc /\ sq3 (c3 "cube_overlaps" "valid_bases") nr nc.

Lemma sq3_first A nr nc : sq3 A nr nc -> 0 < nr -> nrows (nth 0 A []) = nc.
Proof. intros [_ H] Hn. exact (proj1 (H 0 Hn)). Qed.

Lemma gen_PairwiseSigTStatsForSubvar_t_stats :
  match src_PairwiseSigTStatsForSubvar_t_stats with
  | Some e => forall nr nc nrs ncs a blk c3 ovr cdf,
      ov_shaped blk c3 nr nc -> a < nc ->
      pagrees_mat (penv_ov nr nc nrs ncs (Z.of_nat a) blk c3 ovr cdf)
                  (pev true (penv_ov nr nc nrs ncs (Z.of_nat a) blk c3 ovr cdf) e) DR DC
                  (mnth (ov_tblock a (blk "column_proportions" 0 0)
                                   (c3 "cube_overlaps" "selected_bases") (c3 "cube_overlaps" "valid_bases")))
  | None => True
  end.
Proof.
  punfold_srcs;
  lazymatch goal with
  | |- True => exact I
  | _ =>
      intros nr nc nrs ncs a blk c3 ovr cdf [[HCr HCc] [HSs HNs]] Ha;
      apply ptab2_agrees;
      [ exact (proj1 HNs)
      | intros Hpos; exact (sq3_first _ _ _ HNs Hpos)
      | intros i b Hi Hb; cbv [penv_ov pe_size psize] in Hi, Hb; shape_use;
        ov_eval0; rewrite ?Zeqb_nat;
        unfold ov_tblock; rewrite HCr, HCc; rewrite tab2_mnth by assumption;
        destruct (Nat.eqb b a) eqn:Eab;
        [ reflexivity
        | ov_facts (c3 "cube_overlaps" "selected_bases") (c3 "cube_overlaps" "valid_bases")
                   nr nc i a b HSs HNs Hi Ha Hb;
          ov_model_t ] ]
  end.
Qed.

Lemma gen_PairwiseSigPValsForSubvar_p_vals :
  match src_PairwiseSigPValsForSubvar_p_vals with
  | Some e => forall nr nc nrs ncs a blk c3 ovr cdf,
      ov_shaped blk c3 nr nc -> a < nc ->
      pagrees_mat (penv_ov nr nc nrs ncs (Z.of_nat a) blk c3 ovr cdf)
                  (pev false (penv_ov nr nc nrs ncs (Z.of_nat a) blk c3 ovr cdf) e) DR DC
                  (mnth (ov_pblock cdf a (blk "column_proportions" 0 0)
                                   (c3 "cube_overlaps" "selected_bases") (c3 "cube_overlaps" "valid_bases")))
  | None => True
  end.
Proof.
  punfold_srcs;
  lazymatch goal with
  | |- True => exact I
  | _ =>
      intros nr nc nrs ncs a blk c3 ovr cdf [[HCr HCc] [HSs HNs]] Ha;
      apply ptab2_agrees;
      [ exact (proj1 HNs)
      | intros Hpos; exact (sq3_first _ _ _ HNs Hpos)
      | intros i b Hi Hb; cbv [penv_ov pe_size psize] in Hi, Hb; shape_use;
        ov_eval0; rewrite ?Zeqb_nat;
        unfold ov_pblock; rewrite HCr, HCc; rewrite tab2_mnth by assumption;
        destruct (Nat.eqb b a) eqn:Eab;
        [ reflexivity
        | ov_facts (c3 "cube_overlaps" "selected_bases") (c3 "cube_overlaps" "valid_bases")
                   nr nc i a b HSs HNs Hi Ha Hb;
          ov_model_p ] ]
  end.
Qed.

(* ---- the inserted rows ------------------------------------------------------------------------------ *)
Lemma ptabr_agrees sq E r c a body rt ct f0 (g : nat -> nat -> xq) :
  pev true E r = VMat rt ct f0 ->
  nrows (nth 0 (pe_cube3 E c a) []) = pe_size E DC ->
  (forall i j, i < pe_size E rt -> j < pe_size E DC ->
               pagrees_scal (pev sq (with_loop E i j) body) (g i j)) ->
  pagrees_mat E (pev sq E (PTabR r c a body)) rt DC g.
Proof.
  intros Hr H2 H3. cbn [pev]. rewrite Hr, H2, Nat.eqb_refl.
  assert (Hall : forallb (fun i => forallb (fun j => is_scal (pev sq (with_loop E i j) body))
                                           (seq 0 (pe_size E DC))) (seq 0 (pe_size E rt)) = true).
  { apply forallb_forall. intros i Hi. apply forallb_forall. intros j Hj.
    apply in_seq in Hi. apply in_seq in Hj.
    specialize (H3 i j ltac:(lia) ltac:(lia)).
    destruct (pev sq (with_loop E i j) body); simpl in H3; try contradiction. reflexivity. }
  rewrite Hall. cbn [pagrees_mat]. split; [reflexivity|split; [reflexivity|]].
  intros i j Hi Hj. specialize (H3 i j Hi Hj).
  destruct (pev sq (with_loop E i j) body); simpl in H3; try contradiction. exact H3.
Qed.

(* the inserted-rows blocks: column proportions [1][0] and the two overlap tensors' rows blocks *)
Definition hs_shaped (blk : string -> nat -> nat -> list (list xq))
           (ovr : string -> string -> list (list (list xq))) (nrs nc : nat) : Prop :=
  shaped (blk "column_proportions" 1 0) nrs nc /\
  sq3 (ovr "cube_overlaps" "selected_bases") nrs nc /\ sq3 (ovr "cube_overlaps" "valid_bases") nrs nc.

Ltac hs_cells cell_model :=
  lazymatch goal with
  | |- pagrees_mat ?E (pev ?sq ?E (PIf ?c (PZeroRows ?ts) ?tab)) _ _ _ =>
      change (pev sq E (PIf c (PZeroRows ts) tab))
        with (match pcev E c with
              | Some true => pev sq E (PZeroRows ts)
              | Some false => pev sq E tab
              | None => VErr
              end);
      change (pev sq E (PZeroRows ts))
        with (match pev true E ts with
              | VMat _ cc _ => if Nat.eqb (pe_size E DRS) 0 then VMat DRS cc (fun _ _ => Fin 0%Q) else VErr
              | _ => VErr
              end)
  end.

Lemma gen_PairwiseSigTStatsForSubvar__hs_t_stats :
  match src_PairwiseSigTStatsForSubvar__hs_t_stats with
  | Some e => forall nr nc nrs ncs a blk c3 ovr cdf,
      ov_shaped blk c3 nr nc -> 0 < nr -> hs_shaped blk ovr nrs nc -> a < nc ->
      pagrees_mat (penv_ov nr nc nrs ncs (Z.of_nat a) blk c3 ovr cdf)
                  (pev true (penv_ov nr nc nrs ncs (Z.of_nat a) blk c3 ovr cdf) e) DRS DC
                  (mnth (ov_tblock a (blk "column_proportions" 1 0)
                                   (ovr "cube_overlaps" "selected_bases") (ovr "cube_overlaps" "valid_bases")))
  | None => True
  end.
Proof.
  pose proof gen_PairwiseSigTStatsForSubvar_t_stats as Ht.
  unfold src_PairwiseSigTStatsForSubvar_t_stats in Ht.
  punfold_srcs;
  lazymatch goal with
  | |- True => exact I
  | _ =>
      intros nr nc nrs ncs a blk c3 ovr cdf Hov Hnr [[HCr HCc] [HSs HNs]] Ha;
      specialize (Ht nr nc nrs ncs a blk c3 ovr cdf Hov Ha);
      hs_cells idtac;
      replace (pcev (penv_ov nr nc nrs ncs (Z.of_nat a) blk c3 ovr cdf)
                    (CSizeZero (PBlock "column_proportions" 1 0)))
        with (Some (Nat.eqb (nrs * nc) 0)) by reflexivity;
      destruct (Nat.eqb (nrs * nc) 0) eqn:Hz;
      [ (* no inserted rows *)
        unfold pagrees_mat in Ht;
        lazymatch type of Ht with
        | match ?v with _ => _ end => destruct v as [| | |r c f]; try contradiction
        end;
        destruct Ht as [_ [-> _]];
        assert (Hn0 : nrs = 0) by (apply Nat.eqb_eq in Hz; destruct nrs; [reflexivity|simpl in Hz; lia]);
        cbv [penv_ov pe_size psize pagrees_mat]; rewrite Hn0; cbv [Nat.eqb];
        split; [reflexivity|split; [reflexivity|intros i j Hi; lia]]
      | apply (ptabr_agrees true _ _ _ _ _ DRS DC (fun i j => ssq (mnth (blk "column_proportions" 1 0) i j)));
        [ reflexivity
        | destruct Hov as [_ [_ HN0]]; exact (sq3_first _ _ _ HN0 Hnr)
        | intros i b Hi Hb; cbv [penv_ov pe_size psize] in Hi, Hb; shape_use;
          ov_eval0; rewrite ?Zeqb_nat;
          unfold ov_tblock; rewrite HCr, HCc; rewrite tab2_mnth by assumption;
          destruct (Nat.eqb b a) eqn:Eab;
          [ reflexivity
          | ov_facts (ovr "cube_overlaps" "selected_bases") (ovr "cube_overlaps" "valid_bases")
                     nrs nc i a b HSs HNs Hi Ha Hb;
            ov_model_t ] ] ]
  end.
Qed.

Lemma gen_PairwiseSigPValsForSubvar__hs_p_vals :
  match src_PairwiseSigPValsForSubvar__hs_p_vals with
  | Some e => forall nr nc nrs ncs a blk c3 ovr cdf,
      ov_shaped blk c3 nr nc -> 0 < nr -> hs_shaped blk ovr nrs nc -> a < nc ->
      pagrees_mat (penv_ov nr nc nrs ncs (Z.of_nat a) blk c3 ovr cdf)
                  (pev false (penv_ov nr nc nrs ncs (Z.of_nat a) blk c3 ovr cdf) e) DRS DC
                  (mnth (ov_pblock cdf a (blk "column_proportions" 1 0)
                                   (ovr "cube_overlaps" "selected_bases") (ovr "cube_overlaps" "valid_bases")))
  | None => True
  end.
Proof.
  pose proof gen_PairwiseSigTStatsForSubvar_t_stats as Ht.
  unfold src_PairwiseSigTStatsForSubvar_t_stats in Ht.
  punfold_srcs;
  lazymatch goal with
  | |- True => exact I
  | _ =>
      intros nr nc nrs ncs a blk c3 ovr cdf Hov Hnr [[HCr HCc] [HSs HNs]] Ha;
      specialize (Ht nr nc nrs ncs a blk c3 ovr cdf Hov Ha);
      hs_cells idtac;
      replace (pcev (penv_ov nr nc nrs ncs (Z.of_nat a) blk c3 ovr cdf)
                    (CSizeZero (PBlock "column_proportions" 1 0)))
        with (Some (Nat.eqb (nrs * nc) 0)) by reflexivity;
      destruct (Nat.eqb (nrs * nc) 0) eqn:Hz;
      [ unfold pagrees_mat in Ht;
        lazymatch type of Ht with
        | match ?v with _ => _ end => destruct v as [| | |r c f]; try contradiction
        end;
        destruct Ht as [_ [-> _]];
        assert (Hn0 : nrs = 0) by (apply Nat.eqb_eq in Hz; destruct nrs; [reflexivity|simpl in Hz; lia]);
        cbv [penv_ov pe_size psize pagrees_mat]; rewrite Hn0; cbv [Nat.eqb];
        split; [reflexivity|split; [reflexivity|intros i j Hi; lia]]
      | apply (ptabr_agrees false _ _ _ _ _ DRS DC (fun i j => ssq (mnth (blk "column_proportions" 1 0) i j)));
        [ reflexivity
        | destruct Hov as [_ [_ HN0]]; exact (sq3_first _ _ _ HN0 Hnr)
        | intros i b Hi Hb; cbv [penv_ov pe_size psize] in Hi, Hb; shape_use;
          ov_eval0; rewrite ?Zeqb_nat;
          unfold ov_pblock; rewrite HCr, HCc; rewrite tab2_mnth by assumption;
          destruct (Nat.eqb b a) eqn:Eab;
          [ reflexivity
          | ov_facts (ovr "cube_overlaps" "selected_bases") (ovr "cube_overlaps" "valid_bases")
                     nrs nc i a b HSs HNs Hi Ha Hb;
            ov_model_p ] ] ]
  end.
Qed.
