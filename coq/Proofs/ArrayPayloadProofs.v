(* Proofs/ArrayPayloadProofs.v -- from the FLAT PAYLOAD of a cube with a categorical array to
   the slice tensor of Proofs/ArrayCountsProofs.v.

   [ca_payload l ..] is the response of the cube query laid out as l: the row-major flattening
   of [ca_tabulate l] in the all-dimensions shape (missing items / categories and the full MR
   selection axis included).  [slice_counts] is the function of Model/CubeCounts.v the
   correspondence checks evaluate on the JSON payload (reshape -> Cube._valid_idxs ->
   dimension order -> _slice_idx_expr -> count class).  For every survey, each of the eight
   layouts, X categorical or MR and every partition k

        slice_counts (lay_dims l ..) (ca_payload l ..) k = Some so

   and every cell of so_counts / so_row_bases / so_column_bases / so_table_bases is the class
   extractor applied to [ca_slice l .. S k] -- the tensor the survey-level theorems are about. *)
From Coq Require Import QArith ZArith List Bool Lia Arith.
From CC Require Import Base.XQ Base.ListX Spec.Survey Spec.SurveyArray Model.CubeCounts
     Proofs.CubeCountsProofs Proofs.ArrayCountsProofs.
Import ListNotations.
Local Close Scope Q_scope.
Local Open Scope nat_scope.

Definition ca_payload (l : ca_layout) v mi mc w kw mw (S : survey) : list xq :=
  flatten (raw_shape (lay_dims l mi mc kw mw)) (ca_raw l v w kw S).

(* ---- reshaping the flattening of a tensor reads the tensor ------------------------------- *)
Lemma arr_permute_id (l : list nat) : permute (seq 0 (length l)) l = l.
Proof.
  unfold permute. pose proof (tab_nth_map (fun x : nat => x) l 0) as H. unfold tab in H.
  rewrite H. apply map_id.
Qed.

Lemma arr_remap_length vs idx : length vs = length idx -> length (remap vs idx) = length idx.
Proof.
  revert idx. induction vs as [|v t IH]; intros [|i idx] H; simpl in *; try discriminate; [reflexivity|].
  f_equal. apply IH. lia.
Qed.

Lemma arr_payload_read ds (T : tensor) idx :
  existsb is_numarr ds = false -> length idx = length ds ->
  in_boundsb (map dsize ds) (remap (map dvalid ds) idx) = true ->
  take_valid_ord ds (of_flat (raw_shape ds) (flatten (raw_shape ds) T)) idx = take_valid ds T idx.
Proof.
  intros Hn Hl Hb. unfold take_valid_ord, take_valid, raw_shape, dimension_order.
  rewrite Hn, andb_false_r.
  assert (L1 : length (map dsize ds) = length ds) by apply map_length.
  assert (L2 : length (remap (map dvalid ds) idx) = length ds).
  { rewrite arr_remap_length; [exact Hl| rewrite map_length; symmetry; exact Hl]. }
  rewrite <- L1 at 1 2. rewrite arr_permute_id.
  rewrite <- L2 at 1. rewrite arr_permute_id.
  apply of_flat_flatten. exact Hb.
Qed.

Lemma arr_valid_ltb ms i : i < nval ms -> (nth i (valid_idxs ms) 0 <? length ms) = true.
Proof.
  intros H. apply Nat.ltb_lt.
  assert (Hin : In (nth i (valid_idxs ms) 0) (valid_idxs ms)) by (apply nth_In; exact H).
  apply valid_idxs_In in Hin. tauto.
Qed.

Lemma arr_mrsel_ltb s : s < 2 -> (nth s (valid_idxs mr_cat_missing) 0 <? 3) = true.
Proof. intros H. destruct s as [|[|s]]; [reflexivity| reflexivity| lia]. Qed.

(* ---- two tensors that agree on the in-range indices of a class pair give the same outputs -- *)
Definition agree_on (rc cc : cls) (nr nc : nat) (V1 V2 : tensor) : Prop :=
  match rc, cc with
  | CMr, CMr => forall i s j t, i < nr -> s < 2 -> j < nc -> t < 2 -> V1 [i; s; j; t] = V2 [i; s; j; t]
  | CMr, _ => forall i s j, i < nr -> s < 2 -> j < nc -> V1 [i; s; j] = V2 [i; s; j]
  | _, CMr => forall i j t, i < nr -> j < nc -> t < 2 -> V1 [i; j; t] = V2 [i; j; t]
  | _, _ => forall i j, i < nr -> j < nc -> V1 [i; j] = V2 [i; j]
  end.
(* length of the valid selection axis handed to the extractors *)
Definition sel_len (c : cls) : nat := match c with CMr => 2 | _ => 0 end.

Lemma xsumn_ext_lt n f g : (forall k, k < n -> f k = g k) -> xsumn n f = xsumn n g.
Proof.
  intros H. unfold xsumn, tab. f_equal. apply map_ext_in. intros k Hk. apply in_seq in Hk.
  apply H. lia.
Qed.

Ltac agree_tac H :=
  repeat (first [ apply H; try assumption; try lia
                | apply xsumn_ext_lt; intros ]).

Lemma counts_of_agree rc cc nr nc V1 V2 i j :
  agree_on rc cc nr nc V1 V2 -> i < nr -> j < nc ->
  counts_of V1 rc cc i j = counts_of V2 rc cc i j.
Proof. intros H Hi Hj. destruct rc, cc; simpl in *; agree_tac H. Qed.

Lemma row_bases_of_agree rc cc nr nc V1 V2 i j :
  agree_on rc cc nr nc V1 V2 -> i < nr -> j < nc ->
  row_bases_of V1 nc (sel_len cc) rc cc i j = row_bases_of V2 nc (sel_len cc) rc cc i j.
Proof.
  intros H Hi Hj. destruct rc, cc; simpl in *;
    unfold cc_row_bases, cc_rows_base, cm_row_bases, mc_row_bases, mc_rows_base, mm_row_bases,
      ac_rows_base, am_row_bases, ca_counts, ma_counts, aa_counts; agree_tac H.
Qed.

Lemma column_bases_of_agree rc cc nr nc V1 V2 i j :
  agree_on rc cc nr nc V1 V2 -> i < nr -> j < nc ->
  column_bases_of V1 nr (sel_len rc) rc cc i j = column_bases_of V2 nr (sel_len rc) rc cc i j.
Proof.
  intros H Hi Hj. destruct rc, cc; simpl in *;
    unfold cc_column_bases, cc_columns_base, cm_column_bases, cm_columns_base, mc_column_bases,
      mm_column_bases, ca_columns_base, ma_column_bases, ac_counts, am_counts, aa_counts; agree_tac H.
Qed.

Lemma table_bases_of_agree rc cc nr nc V1 V2 i j :
  agree_on rc cc nr nc V1 V2 -> i < nr -> j < nc ->
  table_bases_of V1 nr nc (sel_len rc) (sel_len cc) rc cc i j
  = table_bases_of V2 nr nc (sel_len rc) (sel_len cc) rc cc i j.
Proof.
  intros H Hi Hj. destruct rc, cc; simpl in *;
    unfold cc_table_bases, cc_table_base, cm_table_bases, cm_columns_table_base, mc_table_bases,
      mc_rows_table_base, mm_table_bases, ac_rows_base, am_row_bases, ca_columns_base,
      ma_column_bases, aa_counts; agree_tac H.
Qed.

(* ---- the slice tensor read from the payload agrees with [ca_slice] ------------------------ *)
Lemma lay_no_numarr l mi mc kw mw : cat_or_mr kw -> existsb is_numarr (lay_dims l mi mc kw mw) = false.
Proof. intros [-> | ->]; destruct l; reflexivity. Qed.

Lemma lay_sel_lens l mi mc kw mw si :
  cat_or_mr kw -> slice_info_of (lay_dims l mi mc kw mw) = Some si ->
  si_sr si = sel_len (lay_rcls l kw) /\ si_sc si = sel_len (lay_ccls l kw).
Proof.
  intros [-> | ->] H; destruct l; simpl in H; inversion H; subst si; split; reflexivity.
Qed.

Ltac in_bounds_tac :=
  simpl; unfold dvalid, dsize, dS, dC; simpl;
  rewrite ?arr_valid_ltb by assumption; rewrite ?arr_mrsel_ltb by assumption;
  repeat match goal with
         | H : ?t < 2 |- _ => destruct t as [|[|?]]; try (exfalso; lia); clear H
         end;
  reflexivity.

Lemma lay_ndim l mi mc kw mw : cat_or_mr kw ->
  length (apparent (lay_dims l mi mc kw mw)) = if lay_has_x l then 3 else 2.
Proof. intros [-> | ->]; destruct l; reflexivity. Qed.

Lemma payload_slice_agrees l v mi mc w kw mw S k si :
  cat_or_mr kw -> k < lay_nt l mi mc mw ->
  slice_info_of (lay_dims l mi mc kw mw) = Some si ->
  agree_on (lay_rcls l kw) (lay_ccls l kw) (lay_nr l mi mc mw) (lay_nc l mi mc mw)
           (slice_tensor (lay_dims l mi mc kw mw) (ca_payload l v mi mc w kw mw S) si k)
           (ca_slice l v mi mc w kw mw S k).
Proof.
  intros Hw Hk Hsi.
  destruct (lay_slice_info l mi mc kw mw Hw) as [si' [Hsi' [Hnd [Htm _]]]].
  rewrite Hsi in Hsi'. inversion Hsi'; subst si'. clear Hsi'.
  unfold slice_tensor, ca_slice, ca_payload. rewrite Hnd, Htm, (lay_ndim l mi mc kw mw Hw).
  pose proof (lay_no_numarr l mi mc kw mw Hw) as Hna.
  destruct Hw as [E | E]; subst kw; destruct l;
    cbn [lay_has_x lay_table_mr lay_rcls lay_ccls kcls agree_on lay_nr lay_nc lay_nt] in *;
    unfold slice_at; cbn [Nat.ltb Nat.leb]; intros;
    (apply arr_payload_read; [exact Hna| reflexivity| in_bounds_tac]).
Qed.

(* ---- the theorem ------------------------------------------------------------------------- *)
Theorem ca_slice_counts_of_payload l v mi mc w kw mw S k :
  cat_or_mr kw -> k < lay_nt l mi mc mw ->
  let ds := lay_dims l mi mc kw mw in
  let V := ca_slice l v mi mc w kw mw S k in
  let rc := lay_rcls l kw in
  let cc := lay_ccls l kw in
  let nr := lay_nr l mi mc mw in
  let nc := lay_nc l mi mc mw in
  exists so, slice_counts ds (ca_payload l v mi mc w kw mw S) k = Some so /\
    forall i j, i < nr -> j < nc ->
      mnth (so_counts so) i j = counts_of V rc cc i j /\
      mnth (so_row_bases so) i j = row_bases_of V nc (sel_len cc) rc cc i j /\
      mnth (so_column_bases so) i j = column_bases_of V nr (sel_len rc) rc cc i j /\
      mnth (so_table_bases so) i j = table_bases_of V nr nc (sel_len rc) (sel_len cc) rc cc i j.
Proof.
  intros Hw Hk ds V rc cc nr nc.
  destruct (lay_slice_info l mi mc kw mw Hw) as [si [Hsi [_ [_ [Hr [Hc [Hnr [Hnc _]]]]]]]].
  destruct (lay_sel_lens l mi mc kw mw si Hw Hsi) as [Hsr Hsc].
  pose proof (payload_slice_agrees l v mi mc w kw mw S k si Hw Hk Hsi) as A.
  unfold slice_counts. fold ds. unfold ds at 1. rewrite Hsi. eexists. split; [reflexivity|].
  intros i j Hi Hj. cbv zeta. simpl so_counts. simpl so_row_bases. simpl so_column_bases.
  simpl so_table_bases. rewrite Hr, Hc, Hnr, Hnc, Hsr, Hsc. fold rc cc nr nc.
  rewrite !tab2_mnth by assumption.
  repeat split.
  - apply (counts_of_agree rc cc nr nc _ _ i j A Hi Hj).
  - apply (row_bases_of_agree rc cc nr nc _ _ i j A Hi Hj).
  - apply (column_bases_of_agree rc cc nr nc _ _ i j A Hi Hj).
  - apply (table_bases_of_agree rc cc nr nc _ _ i j A Hi Hj).
Qed.

(* ------------------------------------------------------------------------------------ *)
(** * Composed: flat payload of the survey -> slice_counts -> respondent-level meaning *)
From CC Require Import Proofs.CubeCountsBases Proofs.ArrayBasesProofs.

(* the array alone / under a table variable, rows = items (ARR x CAT) *)
Theorem arr_rows_from_payload S l v w kw mi mc mw k :
  cat_or_mr kw -> k < lay_nt l mi mc mw -> rows_items l ->
  exists so, slice_counts (lay_dims l mi mc kw mw) (ca_payload l v mi mc w kw mw S) k = Some so /\
    forall i c, i < nval mi -> c < nval mc ->
      mnth (so_counts so) i c =x=
        Fin (wsum S (fun r => lay_pop l kw mw (ans r w) k && in_arr mi mc (ans r v) i c)) /\
      mnth (so_row_bases so) i c =x=
        Fin (wsum S (fun r => lay_pop l kw mw (ans r w) k && ok_arr mi mc (ans r v) i)) /\
      mnth (so_column_bases so) i c =x=
        Fin (wsum S (fun r => lay_pop l kw mw (ans r w) k && in_arr mi mc (ans r v) i c)) /\
      mnth (so_table_bases so) i c =x=
        Fin (wsum S (fun r => lay_pop l kw mw (ans r w) k && ok_arr mi mc (ans r v) i)).
Proof.
  intros Hw Hk Hl.
  destruct (ca_slice_counts_of_payload l v mi mc w kw mw S k Hw Hk) as [so [E H]].
  exists so. split; [exact E|]. intros i c Hi Hc.
  assert (Hnr : lay_nr l mi mc mw = nval mi) by (destruct Hl as [-> | ->]; reflexivity).
  assert (Hnc : lay_nc l mi mc mw = nval mc) by (destruct Hl as [-> | ->]; reflexivity).
  assert (Hrc : lay_rcls l kw = CArr) by (destruct Hl as [-> | ->]; reflexivity).
  assert (Hcc : lay_ccls l kw = CCat) by (destruct Hl as [-> | ->]; reflexivity).
  rewrite Hnr, Hnc, Hrc, Hcc in H.
  destruct (H i c Hi Hc) as [A [B [C D]]]. rewrite A, B, C, D.
  destruct (arr_rows_bases S l v w kw mi mc mw k Hw Hk (sel_len CArr) (sel_len CCat) i c Hl Hi Hc)
    as [Rb [Cb Tb]].
  split; [exact (arr_rows_counts S l v w kw mi mc mw k Hw Hk i c Hl Hi Hc)|].
  split; [exact Rb|]. split; [exact Cb| exact Tb].
Qed.

(* rows = categories, columns = items (CAT x ARR) *)
Theorem arr_cols_from_payload S l v w kw mi mc mw k :
  cat_or_mr kw -> k < lay_nt l mi mc mw -> cols_items l ->
  exists so, slice_counts (lay_dims l mi mc kw mw) (ca_payload l v mi mc w kw mw S) k = Some so /\
    forall c i, c < nval mc -> i < nval mi ->
      mnth (so_counts so) c i =x=
        Fin (wsum S (fun r => lay_pop l kw mw (ans r w) k && in_arr mi mc (ans r v) i c)) /\
      mnth (so_row_bases so) c i =x=
        Fin (wsum S (fun r => lay_pop l kw mw (ans r w) k && in_arr mi mc (ans r v) i c)) /\
      mnth (so_column_bases so) c i =x=
        Fin (wsum S (fun r => lay_pop l kw mw (ans r w) k && ok_arr mi mc (ans r v) i)) /\
      mnth (so_table_bases so) c i =x=
        Fin (wsum S (fun r => lay_pop l kw mw (ans r w) k && ok_arr mi mc (ans r v) i)).
Proof.
  intros Hw Hk Hl.
  destruct (ca_slice_counts_of_payload l v mi mc w kw mw S k Hw Hk) as [so [E H]].
  exists so. split; [exact E|]. intros c i Hc Hi.
  assert (Hnr : lay_nr l mi mc mw = nval mc) by (destruct Hl as [-> | ->]; reflexivity).
  assert (Hnc : lay_nc l mi mc mw = nval mi) by (destruct Hl as [-> | ->]; reflexivity).
  assert (Hrc : lay_rcls l kw = CCat) by (destruct Hl as [-> | ->]; reflexivity).
  assert (Hcc : lay_ccls l kw = CArr) by (destruct Hl as [-> | ->]; reflexivity).
  rewrite Hnr, Hnc, Hrc, Hcc in H.
  destruct (H c i Hc Hi) as [A [B [C D]]]. rewrite A, B, C, D.
  destruct (arr_cols_bases S l v w kw mi mc mw k Hw Hk (sel_len CCat) (sel_len CArr) c i Hl Hc Hi)
    as [Rb [Cb Tb]].
  split; [exact (arr_cols_counts S l v w kw mi mc mw k Hw Hk c i Hl Hc Hi)|].
  split; [exact Rb|]. split; [exact Cb| exact Tb].
Qed.

(* categories x items x X: the table of category k, ARR x CAT / ARR x MR *)
Theorem csx_from_payload S v w kw mi mc mw k :
  cat_or_mr kw -> k < nval mc ->
  exists so, slice_counts (lay_dims L_CSX mi mc kw mw) (ca_payload L_CSX v mi mc w kw mw S) k = Some so /\
    forall i j, i < nval mi -> j < nval mw ->
      mnth (so_counts so) i j =x=
        Fin (wsum S (fun r => in_arr mi mc (ans r v) i k && in_el kw mw (ans r w) j)) /\
      mnth (so_row_bases so) i j =x=
        Fin (wsum S (fun r => in_arr mi mc (ans r v) i k && ok_el kw mw (ans r w) j)) /\
      mnth (so_column_bases so) i j =x=
        Fin (wsum S (fun r => in_arr mi mc (ans r v) i k && in_el kw mw (ans r w) j)) /\
      mnth (so_table_bases so) i j =x=
        Fin (wsum S (fun r => in_arr mi mc (ans r v) i k && ok_el kw mw (ans r w) j)).
Proof.
  intros Hw Hk.
  destruct (ca_slice_counts_of_payload L_CSX v mi mc w kw mw S k Hw Hk) as [so [E H]].
  exists so. split; [exact E|]. intros i j Hi Hj.
  destruct (H i j Hi Hj) as [A [B [C D]]]. rewrite A, B, C, D.
  pose proof (csx_counts S v w kw mi mc mw k Hw Hk i j Hi Hj) as Cn.
  destruct (csx_bases S v w kw mi mc mw k Hw Hk i j Hi Hj) as [Rb [Cb Tb]].
  destruct Hw as [-> | ->]; (split; [exact Cn|]; split; [exact Rb|]; split; [exact Cb| exact Tb]).
Qed.

(* categories x X x items: CAT x ARR / MR x ARR *)
Theorem cxs_from_payload S v w kw mi mc mw k :
  cat_or_mr kw -> k < nval mc ->
  exists so, slice_counts (lay_dims L_CXS mi mc kw mw) (ca_payload L_CXS v mi mc w kw mw S) k = Some so /\
    forall i j, i < nval mw -> j < nval mi ->
      mnth (so_counts so) i j =x=
        Fin (wsum S (fun r => in_arr mi mc (ans r v) j k && in_el kw mw (ans r w) i)) /\
      mnth (so_row_bases so) i j =x=
        Fin (wsum S (fun r => in_arr mi mc (ans r v) j k && in_el kw mw (ans r w) i)) /\
      mnth (so_column_bases so) i j =x=
        Fin (wsum S (fun r => in_arr mi mc (ans r v) j k && ok_el kw mw (ans r w) i)) /\
      mnth (so_table_bases so) i j =x=
        Fin (wsum S (fun r => in_arr mi mc (ans r v) j k && ok_el kw mw (ans r w) i)).
Proof.
  intros Hw Hk.
  destruct (ca_slice_counts_of_payload L_CXS v mi mc w kw mw S k Hw Hk) as [so [E H]].
  exists so. split; [exact E|]. intros i j Hi Hj.
  destruct (H i j Hi Hj) as [A [B [C D]]]. rewrite A, B, C, D.
  pose proof (cxs_counts S v w kw mi mc mw k Hw Hk i j Hi Hj) as Cn.
  destruct (cxs_bases S v w kw mi mc mw k Hw Hk i j Hi Hj) as [Rb [Cb Tb]].
  destruct Hw as [-> | ->]; (split; [exact Cn|]; split; [exact Rb|]; split; [exact Cb| exact Tb]).
Qed.

(* items x categories x X: the table of item k, CAT x CAT / CAT x MR *)
Theorem scx_from_payload S v w kw mi mc mw k :
  cat_or_mr kw -> k < nval mi ->
  exists so, slice_counts (lay_dims L_SCX mi mc kw mw) (ca_payload L_SCX v mi mc w kw mw S) k = Some so /\
    forall c j, c < nval mc -> j < nval mw ->
      mnth (so_counts so) c j =x=
        Fin (wsum S (fun r => in_arr mi mc (ans r v) k c && in_el kw mw (ans r w) j)) /\
      mnth (so_row_bases so) c j =x=
        Fin (wsum S (fun r => in_arr mi mc (ans r v) k c && ok_el kw mw (ans r w) j)) /\
      mnth (so_column_bases so) c j =x=
        Fin (wsum S (fun r => ok_arr mi mc (ans r v) k && in_el kw mw (ans r w) j)) /\
      mnth (so_table_bases so) c j =x=
        Fin (wsum S (fun r => ok_arr mi mc (ans r v) k && ok_el kw mw (ans r w) j)).
Proof.
  intros Hw Hk.
  destruct (ca_slice_counts_of_payload L_SCX v mi mc w kw mw S k Hw Hk) as [so [E H]].
  exists so. split; [exact E|]. intros c j Hc Hj.
  destruct (H c j Hc Hj) as [A [B [C D]]]. rewrite A, B, C, D.
  pose proof (scx_counts S v w kw mi mc mw k Hw Hk c j Hc Hj) as Cn.
  destruct (scx_bases S v w kw mi mc mw k c j Hw Hk Hc Hj) as [Rb [Cb Tb]].
  destruct Hw as [-> | ->]; (split; [exact Cn|]; split; [exact Rb|]; split; [exact Cb| exact Tb]).
Qed.

(* items x X x categories: the table of item k, CAT x CAT / MR x CAT *)
Theorem sxc_from_payload S v w kw mi mc mw k :
  cat_or_mr kw -> k < nval mi ->
  exists so, slice_counts (lay_dims L_SXC mi mc kw mw) (ca_payload L_SXC v mi mc w kw mw S) k = Some so /\
    forall j c, j < nval mw -> c < nval mc ->
      mnth (so_counts so) j c =x=
        Fin (wsum S (fun r => in_el kw mw (ans r w) j && in_arr mi mc (ans r v) k c)) /\
      mnth (so_row_bases so) j c =x=
        Fin (wsum S (fun r => in_el kw mw (ans r w) j && ok_arr mi mc (ans r v) k)) /\
      mnth (so_column_bases so) j c =x=
        Fin (wsum S (fun r => ok_el kw mw (ans r w) j && in_arr mi mc (ans r v) k c)) /\
      mnth (so_table_bases so) j c =x=
        Fin (wsum S (fun r => ok_el kw mw (ans r w) j && ok_arr mi mc (ans r v) k)).
Proof.
  intros Hw Hk.
  destruct (ca_slice_counts_of_payload L_SXC v mi mc w kw mw S k Hw Hk) as [so [E H]].
  exists so. split; [exact E|]. intros j c Hj Hc.
  destruct (H j c Hj Hc) as [A [B [C D]]]. rewrite A, B, C, D.
  pose proof (sxc_counts S v w kw mi mc mw k Hw Hk j c Hj Hc) as Cn.
  destruct (sxc_bases S v w kw mi mc mw k j c Hw Hk Hj Hc) as [Rb [Cb Tb]].
  destruct Hw as [-> | ->]; (split; [exact Cn|]; split; [exact Rb|]; split; [exact Cb| exact Tb]).
Qed.
