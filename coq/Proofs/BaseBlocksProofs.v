(* Proofs/BaseBlocksProofs.v -- what the blocks of the base measures MEAN (C02).

   The four blocks of the row / column / table bases ([row_base_blocks], [col_base_blocks],
   [table_base_blocks] of Model/Proportions.v; [row_ubase_blocks], [col_ubase_blocks] and the margin
   blocks of Model/BaseBlocks.v) are what matrix/measure.py computes (Proofs/GenAgreeBaseBlocks.v).
   Here: what a USER may read off them, for every base matrix over xq.

     * the column base of a cell in a subtotal ROW is the column base of the column it sits in
       (bases do not add across the direction they are constant in);
     * the column base of a cell in a subtotal COLUMN without subtrahends is the SUM of the column
       bases of its addend columns (= the base of the merged category: C04_merge_col_column_bases);
       with subtrahends (a difference) it is NaN;
     * an intersection has the column base of its subtotal column;
     * mirror image for the row bases; every inserted cell of the table bases is the table base;
     * the unweighted variants (which read the cube measure's 1-D margin) are the same blocks as
       soon as that margin is the collapsed 2-D base -- which Model/CubeCounts.v's margins are
       (C02_margins_are_collapsed_bases);
     * the subtotal part of a 1-D margin is the sum of the margin over the addends, NaN for a
       difference. *)
From Coq Require Import QArith ZArith List Bool Lia Arith Setoid Morphisms.
From CC Require Import Base.XQ Base.ListX Model.CubeCounts Model.Subtotals Model.Proportions
     Model.BaseBlocks Proofs.CubeCountsBases Proofs.MergeSum Proofs.MergeSurvey.
Import ListNotations.
Local Close Scope Q_scope.
Local Open Scope nat_scope.

Lemma has_subs_true s : s_sub s <> [] -> has_subs s = true.
Proof. unfold has_subs. destruct (s_sub s); [congruence|reflexivity]. Qed.

Section Meaning.
  Variables nr nc : nat.
  Variables rsubs csubs : list subtotal.
  Let nrs := length rsubs.
  Let ncs := length csubs.
  Let rsub k := nth k rsubs nosub.
  Let csub l := nth l csubs nosub.

  (* ---- column bases ------------------------------------------------------------------ *)
  Section Col.
    Variable cb : mat.
    Let B := col_base_blocks nr nc rsubs csubs cb.
    (* the column base does not depend on the row (rows dimension categorical) *)
    Definition col_constant : Prop := forall i j, i < nr -> mnth cb i j = mnth cb 0 j.

    Theorem col_base_subtotal_row k j i :
      col_constant -> k < nrs -> j < nc -> i < nr ->
      mnth (b_rows B) k j = mnth cb i j.
    Proof.
      intros Hc Hk Hj Hi. unfold B, col_base_blocks. simpl b_rows.
      rewrite tab2_mnth by assumption. symmetry. apply Hc. exact Hi.
    Qed.

    Theorem col_base_subtotal_col_sum i l :
      i < nr -> l < ncs -> s_sub (csub l) = [] ->
      mnth (b_cols B) i l =x= xsum (map (fun j => mnth cb i j) (s_add (csub l))).
    Proof.
      intros Hi Hl Hs. unfold B, col_base_blocks. simpl b_cols.
      rewrite tab2_mnth by assumption. apply (subcol_cell_nosub cb true (csub l) i Hs).
    Qed.

    Theorem col_base_subtotal_col_diff i l :
      i < nr -> l < ncs -> s_sub (csub l) <> [] -> mnth (b_cols B) i l = NaN.
    Proof.
      intros Hi Hl Hs. unfold B, col_base_blocks. simpl b_cols.
      rewrite tab2_mnth by assumption. unfold subcol_cell.
      fold (csub l). rewrite (has_subs_true _ Hs). reflexivity.
    Qed.

    Theorem col_base_intersection k l i :
      col_constant -> k < nrs -> l < ncs -> i < nr ->
      mnth (b_inter B) k l = mnth (b_cols B) i l.
    Proof.
      intros Hc Hk Hl Hi. unfold B, col_base_blocks. simpl b_inter. simpl b_cols.
      rewrite !tab2_mnth by assumption. unfold subcol_cell, sum_cols.
      destruct (true && has_subs (nth l csubs nosub)); [reflexivity|].
      f_equal; f_equal; apply map_ext; intros j; symmetry; apply Hc; exact Hi.
    Qed.
  End Col.

  (* ---- row bases --------------------------------------------------------------------- *)
  Section Row.
    Variable rb : mat.
    Let B := row_base_blocks nr nc rsubs csubs rb.
    Definition row_constant : Prop := forall i j, j < nc -> mnth rb i j = mnth rb i 0.

    Theorem row_base_subtotal_col i l j :
      row_constant -> i < nr -> l < ncs -> j < nc ->
      mnth (b_cols B) i l = mnth rb i j.
    Proof.
      intros Hc Hi Hl Hj. unfold B, row_base_blocks. simpl b_cols.
      rewrite tab2_mnth by assumption. symmetry. apply Hc. exact Hj.
    Qed.

    Theorem row_base_subtotal_row_sum k j :
      k < nrs -> j < nc -> s_sub (rsub k) = [] ->
      mnth (b_rows B) k j =x= xsum (map (fun i => mnth rb i j) (s_add (rsub k))).
    Proof.
      intros Hk Hj Hs. unfold B, row_base_blocks. simpl b_rows.
      rewrite tab2_mnth by assumption. apply (subrow_cell_nosub rb true (rsub k) j Hs).
    Qed.

    Theorem row_base_subtotal_row_diff k j :
      k < nrs -> j < nc -> s_sub (rsub k) <> [] -> mnth (b_rows B) k j = NaN.
    Proof.
      intros Hk Hj Hs. unfold B, row_base_blocks. simpl b_rows.
      rewrite tab2_mnth by assumption. unfold subrow_cell.
      fold (rsub k). rewrite (has_subs_true _ Hs). reflexivity.
    Qed.

    Theorem row_base_intersection k l j :
      row_constant -> k < nrs -> l < ncs -> j < nc ->
      mnth (b_inter B) k l = mnth (b_rows B) k j.
    Proof.
      intros Hc Hk Hl Hj. unfold B, row_base_blocks. simpl b_inter. simpl b_rows.
      rewrite !tab2_mnth by assumption. unfold subrow_cell, sum_rows.
      destruct (true && has_subs (nth k rsubs nosub)); [reflexivity|].
      f_equal; f_equal; apply map_ext; intros i; symmetry; apply Hc; exact Hj.
    Qed.
  End Row.

  (* ---- table bases ------------------------------------------------------------------- *)
  Section Tab.
    Variable tb : mat.
    Let B := table_base_blocks nr nc rsubs csubs tb.

    (* what the code does: the first column / the first row / the first cell is repeated *)
    Theorem table_base_inserted i j k l :
      i < nr -> j < nc -> k < nrs -> l < ncs ->
      mnth (b_cols B) i l = mnth tb i 0 /\ mnth (b_rows B) k j = mnth tb 0 j /\
      mnth (b_inter B) k l = mnth tb 0 0.
    Proof.
      intros Hi Hj Hk Hl. unfold B, table_base_blocks. simpl.
      rewrite !tab2_mnth by assumption. repeat split.
    Qed.

    (* a table base that is one number (both dimensions categorical): every inserted cell has it *)
    Theorem table_base_constant x i j k l :
      (forall i j, i < nr -> j < nc -> mnth tb i j = x) ->
      i < nr -> j < nc -> k < nrs -> l < ncs ->
      mnth (b_cols B) i l = x /\ mnth (b_rows B) k j = x /\ mnth (b_inter B) k l = x.
    Proof.
      intros H Hi Hj Hk Hl.
      destruct (table_base_inserted i j k l Hi Hj Hk Hl) as [E1 [E2 E3]].
      rewrite E1, E2, E3. repeat split; apply H; lia.
    Qed.
  End Tab.

  (* ---- the unweighted variants ---------------------------------------------------------- *)
  Theorem col_ubase_is_col_base cb columns_base :
    (0 < nrs -> forall j, j < nc -> vnth columns_base j = mnth cb 0 j) ->
    let U := col_ubase_blocks nr nc rsubs csubs cb columns_base in
    let B := col_base_blocks nr nc rsubs csubs cb in
    b_base U = b_base B /\ b_cols U = b_cols B /\ b_inter U = b_inter B /\
    forall k j, k < nrs -> j < nc -> mnth (b_rows U) k j = mnth (b_rows B) k j.
  Proof.
    intros H U B. repeat split. intros k j Hk Hj.
    unfold U, B, col_ubase_blocks, col_base_blocks. simpl b_rows.
    rewrite !tab2_mnth by assumption. apply H; [fold nrs; lia|exact Hj].
  Qed.

  Theorem row_ubase_is_row_base rb rows_base :
    (0 < ncs -> forall i, i < nr -> vnth rows_base i = mnth rb i 0) ->
    let U := row_ubase_blocks nr nc rsubs csubs rb rows_base in
    let B := row_base_blocks nr nc rsubs csubs rb in
    b_base U = b_base B /\ b_rows U = b_rows B /\ b_inter U = b_inter B /\
    forall i l, i < nr -> l < ncs -> mnth (b_cols U) i l = mnth (b_cols B) i l.
  Proof.
    intros H U B. repeat split. intros i l Hi Hl.
    unfold U, B, row_ubase_blocks, row_base_blocks. simpl b_cols.
    rewrite !tab2_mnth by assumption. apply H; [fold ncs; lia|exact Hi].
  Qed.

  (* ---- 1-D margins -------------------------------------------------------------------- *)
  (* the base part of the rows margin is column 0 of the row bases; its subtotal part adds the
     margin over the addends of the row subtotal, and is NaN for a difference *)
  Theorem rows_margin_subtotal rb k :
    let M := rows_margin_blocks nr rsubs (row_base_blocks nr nc rsubs csubs rb) in
    k < nrs -> 0 < nc -> Forall (fun i => i < nr) (s_add (rsub k)) ->
    (forall i, i < nr -> vnth (fst M) i = mnth rb i 0) /\
    (s_sub (rsub k) = [] -> vnth (snd M) k =x= vsum_idx (fst M) (s_add (rsub k))) /\
    (s_sub (rsub k) <> [] -> vnth (snd M) k = NaN).
  Proof.
    intros M Hk Hc Hin. unfold M, rows_margin_blocks. simpl fst. simpl snd.
    split; [intros i Hi; rewrite tab_vnth by exact Hi; reflexivity|].
    rewrite tab_vnth by exact Hk. unfold row_base_blocks. simpl b_rows. simpl b_base.
    rewrite tab2_mnth by assumption. fold (rsub k). split; intros Hs.
    - rewrite (subrow_cell_nosub rb true (rsub k) 0 Hs). unfold sum_rows, vsum_idx.
      apply xsum_map_xeq. intros i Hi. rewrite Forall_forall in Hin.
      rewrite tab_vnth by (apply Hin; exact Hi). reflexivity.
    - unfold subrow_cell. rewrite (has_subs_true _ Hs). reflexivity.
  Qed.

  Theorem cols_margin_subtotal cb l :
    let M := cols_margin_blocks nc csubs (col_base_blocks nr nc rsubs csubs cb) in
    l < ncs -> 0 < nr -> Forall (fun j => j < nc) (s_add (csub l)) ->
    (forall j, j < nc -> vnth (fst M) j = mnth cb 0 j) /\
    (s_sub (csub l) = [] -> vnth (snd M) l =x= vsum_idx (fst M) (s_add (csub l))) /\
    (s_sub (csub l) <> [] -> vnth (snd M) l = NaN).
  Proof.
    intros M Hl Hr Hin. unfold M, cols_margin_blocks. simpl fst. simpl snd.
    split; [intros j Hj; rewrite tab_vnth by exact Hj; reflexivity|].
    rewrite tab_vnth by exact Hl. unfold col_base_blocks. simpl b_cols. simpl b_base.
    rewrite tab2_mnth by assumption. fold (csub l). split; intros Hs.
    - rewrite (subcol_cell_nosub cb true (csub l) 0 Hs). unfold sum_cols, vsum_idx.
      apply xsum_map_xeq. intros j Hj. rewrite Forall_forall in Hin.
      rewrite tab_vnth by (apply Hin; exact Hj). reflexivity.
    - unfold subcol_cell. rewrite (has_subs_true _ Hs). reflexivity.
  Qed.
End Meaning.

(* ---- Model/CubeCounts.v's bases satisfy the hypotheses above ------------------------------ *)
(* rows categorical: the column base does not depend on the row, and the 1-D columns margin (which
   then exists) is row 0 of the 2-D column bases -- what [col_ubase_is_col_base] needs *)
Theorem model_col_constant V nr nc sr cc :
  col_constant nr (tab2 nr nc (column_bases_of V nr sr CCat cc)).
Proof.
  intros i j Hi. destruct (Nat.lt_ge_cases j nc) as [Hj|Hj].
  - rewrite !tab2_mnth by lia. destruct cc; reflexivity.
  - unfold mnth, tab2. rewrite !(tab_nth nr _ [] _) by lia. unfold vnth.
    rewrite !nth_overflow by (rewrite tab_length; exact Hj). reflexivity.
Qed.

Theorem model_row_constant V nr nc sc rc :
  row_constant nc (tab2 nr nc (row_bases_of V nc sc rc CCat)).
Proof.
  intros i j Hj. destruct (Nat.lt_ge_cases i nr) as [Hi|Hi].
  - rewrite !tab2_mnth by lia. destruct rc; reflexivity.
  - unfold mnth, tab2. rewrite !(nth_overflow _ []) by (rewrite tab_length; exact Hi).
    unfold vnth. destruct j; reflexivity.
Qed.

Theorem model_columns_base_is_row0 V nr nc sr rc cc f j :
  0 < nr -> j < nc -> columns_base_of V nr rc cc = Some f ->
  vnth (tab nc f) j = mnth (tab2 nr nc (column_bases_of V nr sr rc cc)) 0 j.
Proof.
  intros Hr Hj H. rewrite tab_vnth by exact Hj. rewrite tab2_mnth by assumption.
  apply (columns_base_collapse V nr sr rc cc f 0 j H).
Qed.

Theorem model_rows_base_is_col0 V nr nc sc rc cc f i :
  i < nr -> 0 < nc -> rows_base_of V nc rc cc = Some f ->
  vnth (tab nr f) i = mnth (tab2 nr nc (row_bases_of V nc sc rc cc)) i 0.
Proof.
  intros Hi Hc H. rewrite tab_vnth by exact Hi. rewrite tab2_mnth by assumption.
  apply (rows_base_collapse V nc sc rc cc f i 0 H).
Qed.
