(* Proofs/GenAgreeOverlapBases.v -- GenAgree for C13: WHICH PLANES of cube.overlaps / cube.valid_overlaps
   feed the overlap-corrected pairwise test.  What matrix/cubemeasure.py SAYS NOW for
     _CatXMrOverlaps.selected_bases / .valid_bases,  _MrXMrOverlaps.selected_bases / .valid_bases
       (Gen/CubeCountsSrc.v, first translator, [texp] of Base/Tensor.v; np.tile of a 2-D matrix read by
        Base/TensorTile.v)                                      denotes Model/OverlapBases.v
     _BaseCubeOverlaps.factory (Gen/PairwiseSrc.v, x_pairwise.py): the class is _MrXMrOverlaps exactly
       when both dimensions of the SLICE are MR, else _CatXMrOverlaps; the constructor gets
       cube.overlaps and cube.valid_overlaps, EACH cut by cls._slice_idx_expr(cube, slice_idx) - whose own
       reading (C01: [gen_slice_idx_expr]) is [slice_at]: the whole tensor below three dimensions, plane
       [k] of a 3-D cube, plane [k, 0] when the table dimension is MR; both guards (`is None`: ValueError)
       are on those two measures.
   See GenAgreeTac.v. *)
From Coq Require Import QArith ZArith List Bool Lia Arith String.
From CC Require Import Base.XQ Base.ListX Base.Tensor Base.TensorTile Model.CubeCounts Model.OverlapBases
     Gen.CubeCountsSrc Gen.StripeCountsSrc Gen.Tables Gen.PairwiseSrc Proofs.GenAgreeTac.
Import ListNotations.
Local Close Scope Q_scope.
Local Open Scope string_scope.
Local Open Scope nat_scope.

(* self._overlaps = O, self._valid_overlaps = V, both of shape shp *)
Definition env_ov (shp : list nat) (O V : tensor) : tenv :=
  mkEnv (fun s => if String.eqb s "_overlaps" then TVal shp O
                  else if String.eqb s "_valid_overlaps" then TVal shp V else TErr)
        (fun _ => []).

Definition ov_shape (rows_mr : bool) (nr ns sel : nat) : list nat :=
  if rows_mr then [nr; sel; ns; sel; ns] else [nr; ns; sel; ns].

Lemma gen_CatXMrOverlaps_selected_bases :
  match src_CatXMrOverlaps_selected_bases with
  | Some e => forall O V nr ns sel,
      agrees3 (teval_tile (env_ov (ov_shape false nr ns sel) O V) e) nr ns ns (selected_of O nr sel false)
  | None => True
  end.
Proof. gen_agree. Qed.

Lemma gen_CatXMrOverlaps_valid_bases :
  match src_CatXMrOverlaps_valid_bases with
  | Some e => forall O V nr ns sel,
      agrees3 (teval_tile (env_ov (ov_shape false nr ns sel) O V) e) nr ns ns (valid_of V nr sel false)
  | None => True
  end.
Proof. gen_agree. Qed.

Lemma gen_MrXMrOverlaps_selected_bases :
  match src_MrXMrOverlaps_selected_bases with
  | Some e => forall O V nr ns sel,
      agrees3 (teval_tile (env_ov (ov_shape true nr ns sel) O V) e) nr ns ns (selected_of O nr sel true)
  | None => True
  end.
Proof. gen_agree. Qed.

Lemma gen_MrXMrOverlaps_valid_bases :
  match src_MrXMrOverlaps_valid_bases with
  | Some e => forall O V nr ns sel,
      agrees3 (teval_tile (env_ov (ov_shape true nr ns sel) O V) e) nr ns ns (valid_of V nr sel true)
  | None => True
  end.
Proof. gen_agree. Qed.

(* ---- the factory ------------------------------------------------------------------------ *)
Lemma gen_overlaps_factory_binds :
  binds_to src_CubeOverlaps_binds "_overlaps" (FSliced (FCube "overlaps")) /\
  binds_to src_CubeOverlaps_binds "_valid_overlaps" (FSliced (FCube "valid_overlaps")) /\
  match src_CubeOverlaps_guards with
  | Some g => g = ["overlaps"; "valid_overlaps"]
  | None => True
  end.
Proof. repeat split; vm_compute; first [exact I | reflexivity]. Qed.

(* whichever class the factory picks for a (rows MR?, columns MR?) pair, its selected_bases /
   valid_bases are the model's for "both MR" resp. "not both MR" *)
Lemma gen_dispatch_overlaps_selected :
  match src_CubeOverlaps_dispatch with
  | Some D => forall rmr cmr,
      meth src_methods (cond_pick rmr cmr (fst D) (snd D)) "selected_bases"
        (fun e => forall O V nr ns sel,
           agrees3 (teval_tile (env_ov (ov_shape (rmr && cmr) nr ns sel) O V) e) nr ns ns
                   (selected_of O nr sel (rmr && cmr)))
  | None => True
  end.
Proof.
  dispatch4 src_CubeOverlaps_dispatch gen_CatXMrOverlaps_selected_bases gen_MrXMrOverlaps_selected_bases
            gen_CatXMrOverlaps_selected_bases gen_MrXMrOverlaps_selected_bases.
Qed.

Lemma gen_dispatch_overlaps_valid :
  match src_CubeOverlaps_dispatch with
  | Some D => forall rmr cmr,
      meth src_methods (cond_pick rmr cmr (fst D) (snd D)) "valid_bases"
        (fun e => forall O V nr ns sel,
           agrees3 (teval_tile (env_ov (ov_shape (rmr && cmr) nr ns sel) O V) e) nr ns ns
                   (valid_of V nr sel (rmr && cmr)))
  | None => True
  end.
Proof.
  dispatch4 src_CubeOverlaps_dispatch gen_CatXMrOverlaps_valid_bases gen_MrXMrOverlaps_valid_bases
            gen_CatXMrOverlaps_valid_bases gen_MrXMrOverlaps_valid_bases.
Qed.
