(* GOLDEN obligations of the wiring translator for C15 (generated ONCE by tools/gen_wiring_props.py,
   then committed): what each public member of cubepart.py that C15 relies on IS, as a term of
   Base/WiringExp.v.  Gen/WiringSrc.v is regenerated from /repo on every check; an edit of the
   public layer that changes one of these members breaks the lemma below (reflexivity). *)
From Coq Require Import List ZArith String.
From CC Require Import Base.WiringExp Gen.WiringSrc.
Import ListNotations.
Local Open Scope string_scope.

(* _Slice.column_share_sum *)
Lemma gen_wiring_Slice_column_share_sum :
  wsrc_Slice_column_share_sum = Some (WTryValueError (w_matrix_of "column_share_sum") "").
Proof. reflexivity. Qed.

(* _Slice.row_share_sum *)
Lemma gen_wiring_Slice_row_share_sum :
  wsrc_Slice_row_share_sum = Some (WTryValueError (w_matrix_of "row_share_sum") "").
Proof. reflexivity. Qed.

(* _Slice.total_share_sum *)
Lemma gen_wiring_Slice_total_share_sum :
  wsrc_Slice_total_share_sum = Some (WTryValueError (w_matrix_of "total_share_sum") "").
Proof. reflexivity. Qed.

(* _Strand.share_sum *)
Lemma gen_wiring_Strand_share_sum :
  wsrc_Strand_share_sum = Some (WTryValueError (w_vector_of "share_sum") "").
Proof. reflexivity. Qed.

(* SecondOrderMeasures.column_share_sum *)
Lemma gen_wiring_SecondOrderMeasures_column_share_sum :
  wsrc_SecondOrderMeasures_column_share_sum = Some (WCall (WGlobal "_ColumnShareSum") [WSelf
      "_dimensions"; WVar "self"; WSelf "_cube_measures"] []).
Proof. reflexivity. Qed.

(* SecondOrderMeasures.row_share_sum *)
Lemma gen_wiring_SecondOrderMeasures_row_share_sum :
  wsrc_SecondOrderMeasures_row_share_sum = Some (WCall (WGlobal "_RowShareSum") [WSelf "_dimensions";
      WVar "self"; WSelf "_cube_measures"] []).
Proof. reflexivity. Qed.

(* SecondOrderMeasures.total_share_sum *)
Lemma gen_wiring_SecondOrderMeasures_total_share_sum :
  wsrc_SecondOrderMeasures_total_share_sum = Some (WCall (WGlobal "_TotalShareSum") [WSelf
      "_dimensions"; WVar "self"; WSelf "_cube_measures"] []).
Proof. reflexivity. Qed.

(* StripeMeasures.share_sum *)
Lemma gen_wiring_StripeMeasures_share_sum :
  wsrc_StripeMeasures_share_sum = Some (WCall (WGlobal "_ShareSum") [WSelf "_rows_dimension"; WVar
      "self"; WSelf "_cube_measures"] []).
Proof. reflexivity. Qed.
