(* Proofs/GenAgreeScaleMean.v -- GenAgree tie of matrix/measure.py::_ScaleMean (and the helpers of
   _BaseMarginal / _BaseScaledCountMarginal it is built from) to Model/Scale.v (property C14).

   Gen/ScaleSrc.v holds what harness/translate/x_scale.py READ on this run.  Proved here, for EVERY
   block size, count / base blocks and numeric values:

     _opposing_numeric_values   ROWS: the COLUMNS dimension's values, COLUMNS: the ROWS dimension's
     is_defined                 = [any_value vals]
     _weighted_mean(p, values)  = [wmean p values]   (nansum(values * p) / sum(p[~isnan(values)]))
     _proportions               ROWS:    weighted_counts / row_weighted_bases    blocks [0][0], [1][0]
                                COLUMNS: weighted_counts / column_weighted_bases blocks [0][0], [0][1]
     blocks                     ROWS:    one [scale_mean_vec] per ROW    (np.apply_along_axis .. 1)
                                COLUMNS: one [scale_mean_vec] per COLUMN (np.apply_along_axis .. 0)
                                of the base block and of the subtotal block; `raise` when no category
                                of the opposing dimension has a numeric value.
   [scale_mean_vec counts bases vals] is the per-vector definition the theorems of Props/C14.v and
   the correspondence of harness/props/c14.py are about. *)
From Coq Require Import QArith ZArith List Bool Lia Arith String ZifyBool Setoid Morphisms.
From CC Require Import Base.XQ Base.ListX Base.VecExp Model.Scale
     Proofs.GenAgreeVecTac Proofs.GenAgreeScaleTac Gen.ScaleSrc.
Import ListNotations.
Local Close Scope Q_scope.
Local Open Scope string_scope.
Local Open Scope nat_scope.

Definition dims_attrs (rvals cvals : list xq) : list (string * vval) :=
  [("_dimensions[0].numeric_values", VV rvals); ("_dimensions[1].numeric_values", VV cvals)].

(* ROWS: weighted counts and row bases, base block [0][0] and subtotal ROWS [1][0] *)
Definition mean_attrs_rows nc C0 B0 C1 B1 : list (string * vval) :=
  [("_second_order_measures.weighted_counts.blocks[0][0]", VM nc C0);
   ("_second_order_measures.row_weighted_bases.blocks[0][0]", VM nc B0);
   ("_second_order_measures.weighted_counts.blocks[1][0]", VM nc C1);
   ("_second_order_measures.row_weighted_bases.blocks[1][0]", VM nc B1)].
(* COLUMNS: weighted counts and column bases, base block [0][0] and subtotal COLUMNS [0][1] *)
Definition mean_attrs_cols nc ncs C0 B0 C1 B1 : list (string * vval) :=
  [("_second_order_measures.weighted_counts.blocks[0][0]", VM nc C0);
   ("_second_order_measures.column_weighted_bases.blocks[0][0]", VM nc B0);
   ("_second_order_measures.weighted_counts.blocks[0][1]", VM ncs C1);
   ("_second_order_measures.column_weighted_bases.blocks[0][1]", VM ncs B1)].

Definition orient_name (rows : bool) : string := if rows then "MO.ROWS" else "MO.COLUMNS".

Ltac scale_env :=
  unfold env_scale, dims_attrs, mean_attrs_rows, mean_attrs_cols, orient_name, app.

(* ------------------------------------------------------------------------------------ *)

Lemma gen_ScaleMean__opposing_numeric_values :
  match vsrc_ScaleMean__opposing_numeric_values with
  | Some e => forall (rows : bool) rvals cvals rest srt,
      veval (env_scale (orient_name rows) (dims_attrs rvals cvals ++ rest) no_var srt) e
      = VV (if rows then cvals else rvals)
  | None => True
  end.
Proof.
  unfold_vsrcs; try exact I.
  all: intros [|] rvals cvals rest srt; scale_env; veval_simp; reflexivity.
Qed.

Lemma gen_ScaleMean_is_defined :
  match vsrc_ScaleMean_is_defined with
  | Some e => forall (rows : bool) rvals cvals rest srt,
      veval (env_scale (orient_name rows) (dims_attrs rvals cvals ++ rest) no_var srt) e
      = VB (any_value (if rows then cvals else rvals))
  | None => True
  end.
Proof.
  unfold_vsrcs; try exact I.
  all: intros [|] rvals cvals rest srt; scale_env; veval_simp;
    rewrite all_isnan_any_value, negb_involutive; reflexivity.
Qed.

Lemma gen_ScaleMean__weighted_mean :
  match vsrc_ScaleMean__weighted_mean with
  | Some e => forall props vals srt, List.length props = List.length vals ->
      veval (mkVenv (var2 "proportions" (VV props) "values" (VV vals)) no_var no_get no_call srt) e
      = VS (wmean props vals)
  | None => True
  end.
Proof.
  unfold_vsrcs; try exact I.
  all: intros props vals srt Hlen.
  all: veval_simp.
  all: vsplit.
  all: unfold wmean.
  all: rewrite mask_take_keep_valued by exact Hlen.
  all: reflexivity.
Qed.

(* the proportion blocks: cell by cell [pdiv] of every row *)
Lemma gen_ScaleMean__proportions_rows :
  match vsrc_ScaleMean__proportions with
  | Some e => forall nc C0 B0 C1 B1 rvals cvals srt,
      List.length C0 = List.length B0 -> List.length C1 = List.length B1 ->
      veval (env_scale "MO.ROWS" (dims_attrs rvals cvals ++ mean_attrs_rows nc C0 B0 C1 B1) no_var srt) e
      = VL [VM nc (map2 pdiv C0 B0); VM nc (map2 pdiv C1 B1)]
  | None => True
  end.
Proof.
  unfold_vsrcs; try exact I.
  all: intros nc C0 B0 C1 B1 rvals cvals srt H0 H1.
  all: scale_env.
  all: veval_simp.
  all: vsplit.
  all: reflexivity.
Qed.

Lemma gen_ScaleMean__proportions_columns :
  match vsrc_ScaleMean__proportions with
  | Some e => forall nc ncs C0 B0 C1 B1 rvals cvals srt,
      List.length C0 = List.length B0 -> List.length C1 = List.length B1 ->
      veval (env_scale "MO.COLUMNS" (dims_attrs rvals cvals ++ mean_attrs_cols nc ncs C0 B0 C1 B1) no_var srt) e
      = VL [VM nc (map2 pdiv C0 B0); VM ncs (map2 pdiv C1 B1)]
  | None => True
  end.
Proof.
  unfold_vsrcs; try exact I.
  all: intros nc ncs C0 B0 C1 B1 rvals cvals srt H0 H1.
  all: scale_env.
  all: veval_simp.
  all: vsplit.
  all: reflexivity.
Qed.

(* np.apply_along_axis(_weighted_mean, 1, proportion, values=..): one slice per ROW *)
Ltac mean_apply_rows nc :=
  repeat (erewrite v_apply_rows;
    [ | vnorm; lia
      | let r := fresh "r" in let Hr := fresh "Hr" in intros r Hr;
        let Hlen := fresh "Hlen" in
        match type of Hr with In _ (map2 _ ?C ?B) =>
          pose proof (map2_rows_length nc xdiv C B r ltac:(assumption) ltac:(assumption) Hr) as Hlen end;
        cbv beta; vrun; vsplit; rewrite mask_take_keep_valued by lia; reflexivity ]).

Lemma gen_ScaleMean_blocks_rows :
  match vsrc_ScaleMean_blocks with
  | Some e => forall nc C0 B0 C1 B1 rvals cvals srt,
      any_value cvals = true -> List.length cvals = nc ->
      wf_mat nc C0 -> wf_mat nc B0 -> List.length C0 = List.length B0 ->
      wf_mat nc C1 -> wf_mat nc B1 -> List.length C1 = List.length B1 ->
      veval (env_scale "MO.ROWS" (dims_attrs rvals cvals ++ mean_attrs_rows nc C0 B0 C1 B1) no_var srt) e
      = VL [VV (map2 (fun c b => scale_mean_vec c b cvals) C0 B0);
            VV (map2 (fun c b => scale_mean_vec c b cvals) C1 B1)]
  | None => True
  end.
Proof.
  unfold_vsrcs; try exact I.
  all: intros nc C0 B0 C1 B1 rvals cvals srt Hdef Hnc HC0 HB0 HL0 HC1 HB1 HL1.
  all: scale_env.
  all: veval_simp.
  all: rewrite all_isnan_any_value, Hdef.
  all: cbn [negb].
  all: vsplit;
    mean_apply_rows nc; vrun; rewrite ?map_map2;
    rewrite ?(map2_empty _ C0 B0) by lia; rewrite ?(map2_empty _ C1 B1) by lia; reflexivity.
Qed.

(* np.apply_along_axis(_weighted_mean, 0, proportion, values=..): one slice per COLUMN *)
Ltac mean_apply_cols nc nr :=
  repeat (erewrite v_apply_cols;
    [ | lia
      | let r := fresh "r" in let Hr := fresh "Hr" in intros r Hr;
        let Hlen := fresh "Hlen" in
        match type of Hr with In _ (cols_of _ ?P) =>
          assert (Hlen : List.length r = List.length P)
            by (let j := fresh "j" in let Hj := fresh "Hj" in let E := fresh "E" in
                apply in_cols_of in Hr; destruct Hr as [j [Hj E]]; rewrite E; apply mcol_length) end;
        vnorm;
        cbv beta; vrun; vsplit; rewrite mask_take_keep_valued by lia; reflexivity ]).

Lemma scale_mean_cols nc C B rvals :
  wf_mat nc C -> wf_mat nc B ->
  map (fun r => xdiv (nansum (map2 xmul rvals r)) (xsum (keep_valued rvals r)))
      (cols_of nc (map2 (map2 xdiv) C B))
  = tab nc (fun j => scale_mean_vec (mcol C j) (mcol B j) rvals).
Proof.
  intros HC HB. unfold cols_of. rewrite map_tab. apply tab_ext_lt. intros j Hj.
  rewrite (mcol_map2 xdiv nc C B j HC HB Hj). reflexivity.
Qed.

Lemma gen_ScaleMean_blocks_columns :
  match vsrc_ScaleMean_blocks with
  | Some e => forall nr nc ncs C0 B0 C1 B1 rvals cvals srt,
      any_value rvals = true -> List.length rvals = nr ->
      wf_mat nc C0 -> wf_mat nc B0 -> List.length C0 = nr -> List.length B0 = nr ->
      wf_mat ncs C1 -> wf_mat ncs B1 -> List.length C1 = nr -> List.length B1 = nr ->
      veval (env_scale "MO.COLUMNS" (dims_attrs rvals cvals ++ mean_attrs_cols nc ncs C0 B0 C1 B1) no_var srt) e
      = VL [VV (tab nc (fun j => scale_mean_vec (mcol C0 j) (mcol B0 j) rvals));
            VV (tab ncs (fun j => scale_mean_vec (mcol C1 j) (mcol B1 j) rvals))]
  | None => True
  end.
Proof.
  unfold_vsrcs; try exact I.
  all: intros nr nc ncs C0 B0 C1 B1 rvals cvals srt Hdef Hnr HC0 HB0 HL0 HL0' HC1 HB1 HL1 HL1'.
  all: scale_env.
  all: veval_simp.
  all: rewrite all_isnan_any_value, Hdef.
  all: cbn [negb].
  all: vsplit;
    mean_apply_cols nc nr; vrun; rewrite ?scale_mean_cols by assumption;
    rewrite ?(@tab_zero xq nc) by lia; rewrite ?(@tab_zero xq ncs) by lia; reflexivity.
Qed.

(* no category of the opposing dimension has a numeric value: ValueError *)
Lemma gen_ScaleMean_blocks_undefined :
  match vsrc_ScaleMean_blocks with
  | Some e => forall (rows : bool) rvals cvals rest srt,
      any_value (if rows then cvals else rvals) = false ->
      veval (env_scale (orient_name rows) (dims_attrs rvals cvals ++ rest) no_var srt) e = VErr
  | None => True
  end.
Proof.
  unfold_vsrcs; try exact I.
  all: intros [|] rvals cvals rest srt Hdef; scale_env; vstage1;
    (match goal with |- v_if ?c _ _ = _ => assert (E : c = VB true) end;
     [vrun; rewrite all_isnan_any_value, Hdef; reflexivity|rewrite E; reflexivity]).
Qed.

(* ------------------------------------------------------------------------------------ *)
(** * the wiring in SecondOrderMeasures: which class with which orientation a property constructs
      (`return _ScaleMean(self._dimensions, self, self._cube_measures, MO.ROWS)`, the constructor binding its
      arguments to _dimensions / _second_order_measures / _cube_measures / _orientation) *)

Definition wired (w : option (string * string)) (cls orient : string) : Prop :=
  match w with Some p => p = (cls, orient) | None => True end.

Lemma gen_wiring_scale_marginals :
  wired vsrc_wiring_rows_scale_mean "_ScaleMean" "MO.ROWS" /\
  wired vsrc_wiring_columns_scale_mean "_ScaleMean" "MO.COLUMNS" /\
  wired vsrc_wiring_rows_scale_mean_stddev "_ScaleMeanStddev" "MO.ROWS" /\
  wired vsrc_wiring_columns_scale_mean_stddev "_ScaleMeanStddev" "MO.COLUMNS" /\
  wired vsrc_wiring_rows_scale_mean_stderr "_ScaleMeanStderr" "MO.ROWS" /\
  wired vsrc_wiring_columns_scale_mean_stderr "_ScaleMeanStderr" "MO.COLUMNS" /\
  wired vsrc_wiring_rows_scale_median "_ScaleMedian" "MO.ROWS" /\
  wired vsrc_wiring_columns_scale_median "_ScaleMedian" "MO.COLUMNS".
Proof. repeat split; (exact I || reflexivity). Qed.
