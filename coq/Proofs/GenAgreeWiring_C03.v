(* GOLDEN obligations of the wiring translator for C03 (generated ONCE by tools/gen_wiring_props.py,
   then committed): what each public member of cubepart.py that C03 relies on IS, as a term of
   Base/WiringExp.v.  Gen/WiringSrc.v is regenerated from /repo on every check; an edit of the
   public layer that changes one of these members breaks the lemma below (reflexivity). *)
From Coq Require Import List ZArith String.
From CC Require Import Base.WiringExp Gen.WiringSrc.
Import ListNotations.
Local Open Scope string_scope.

(* _Slice.column_percentages *)
Lemma gen_wiring_Slice_column_percentages :
  wsrc_Slice_column_percentages = Some (WBin "*" (WSelf "column_proportions") (WInt (100)%Z)).
Proof. reflexivity. Qed.

(* _Slice.column_proportions *)
Lemma gen_wiring_Slice_column_proportions :
  wsrc_Slice_column_proportions = Some (w_matrix_of "column_proportions").
Proof. reflexivity. Qed.

(* _Slice.columns_margin_proportion *)
Lemma gen_wiring_Slice_columns_margin_proportion :
  wsrc_Slice_columns_margin_proportion = Some (WIf (WUn "not" (WAttr (WAttr (WSelf "_measures")
      "columns_table_proportion") "is_defined")) (WCall (WSelf "_assemble_matrix") [WCall (WAttr
      (WGlobal "SumSubtotals") "blocks") [WBin "/" (WSelf "columns_margin") (WSelf
      "table_weighted_bases"); WSelf "_dimensions"] []] []) (w_marginal_of
      "columns_table_proportion")).
Proof. reflexivity. Qed.

(* _Slice.row_percentages *)
Lemma gen_wiring_Slice_row_percentages :
  wsrc_Slice_row_percentages = Some (WBin "*" (WSelf "row_proportions") (WInt (100)%Z)).
Proof. reflexivity. Qed.

(* _Slice.row_proportions *)
Lemma gen_wiring_Slice_row_proportions :
  wsrc_Slice_row_proportions = Some (w_matrix_of "row_proportions").
Proof. reflexivity. Qed.

(* _Slice.rows_margin_proportion *)
Lemma gen_wiring_Slice_rows_margin_proportion :
  wsrc_Slice_rows_margin_proportion = Some (WIf (WUn "not" (WAttr (WAttr (WSelf "_measures")
      "rows_table_proportion") "is_defined")) (WCall (WSelf "_assemble_matrix") [WCall (WAttr
      (WGlobal "SumSubtotals") "blocks") [WBin "/" (WSelf "rows_margin") (WSelf
      "table_weighted_bases"); WSelf "_dimensions"] []] []) (w_marginal_of
      "rows_table_proportion")).
Proof. reflexivity. Qed.

(* _Slice.table_percentages *)
Lemma gen_wiring_Slice_table_percentages :
  wsrc_Slice_table_percentages = Some (WBin "*" (WSelf "table_proportions") (WInt (100)%Z)).
Proof. reflexivity. Qed.

(* _Slice.table_proportions *)
Lemma gen_wiring_Slice_table_proportions :
  wsrc_Slice_table_proportions = Some (w_matrix_of "table_proportions").
Proof. reflexivity. Qed.

(* _Strand.table_percentages *)
Lemma gen_wiring_Strand_table_percentages :
  wsrc_Strand_table_percentages = Some (WBin "*" (WSelf "table_proportions") (WInt (100)%Z)).
Proof. reflexivity. Qed.

(* _Strand.table_proportions *)
Lemma gen_wiring_Strand_table_proportions :
  wsrc_Strand_table_proportions = Some (w_vector_of "table_proportions").
Proof. reflexivity. Qed.

(* SecondOrderMeasures.column_comparable_counts *)
Lemma gen_wiring_SecondOrderMeasures_column_comparable_counts :
  wsrc_SecondOrderMeasures_column_comparable_counts = Some (WCall (WGlobal "_ColumnComparableCounts")
      [WSelf "_dimensions"; WVar "self"; WSelf "_cube_measures"] []).
Proof. reflexivity. Qed.

(* SecondOrderMeasures.column_proportions *)
Lemma gen_wiring_SecondOrderMeasures_column_proportions :
  wsrc_SecondOrderMeasures_column_proportions = Some (WCall (WGlobal "_ColumnProportions") [WSelf
      "_dimensions"; WVar "self"; WSelf "_cube_measures"] []).
Proof. reflexivity. Qed.

(* SecondOrderMeasures.columns_table_proportion *)
Lemma gen_wiring_SecondOrderMeasures_columns_table_proportion :
  wsrc_SecondOrderMeasures_columns_table_proportion = Some (WCall (WGlobal "_MarginTableProportion")
      [WSelf "_dimensions"; WVar "self"; WSelf "_cube_measures"; WAttr (WGlobal "MO") "COLUMNS"]
      []).
Proof. reflexivity. Qed.

(* SecondOrderMeasures.row_comparable_counts *)
Lemma gen_wiring_SecondOrderMeasures_row_comparable_counts :
  wsrc_SecondOrderMeasures_row_comparable_counts = Some (WCall (WGlobal "_RowComparableCounts") [WSelf
      "_dimensions"; WVar "self"; WSelf "_cube_measures"] []).
Proof. reflexivity. Qed.

(* SecondOrderMeasures.row_proportions *)
Lemma gen_wiring_SecondOrderMeasures_row_proportions :
  wsrc_SecondOrderMeasures_row_proportions = Some (WCall (WGlobal "_RowProportions") [WSelf
      "_dimensions"; WVar "self"; WSelf "_cube_measures"] []).
Proof. reflexivity. Qed.

(* SecondOrderMeasures.rows_table_proportion *)
Lemma gen_wiring_SecondOrderMeasures_rows_table_proportion :
  wsrc_SecondOrderMeasures_rows_table_proportion = Some (WCall (WGlobal "_MarginTableProportion")
      [WSelf "_dimensions"; WVar "self"; WSelf "_cube_measures"; WAttr (WGlobal "MO") "ROWS"] []).
Proof. reflexivity. Qed.

(* SecondOrderMeasures.table_proportions *)
Lemma gen_wiring_SecondOrderMeasures_table_proportions :
  wsrc_SecondOrderMeasures_table_proportions = Some (WCall (WGlobal "_TableProportions") [WSelf
      "_dimensions"; WVar "self"; WSelf "_cube_measures"] []).
Proof. reflexivity. Qed.

(* StripeMeasures.table_proportions *)
Lemma gen_wiring_StripeMeasures_table_proportions :
  wsrc_StripeMeasures_table_proportions = Some (WCall (WGlobal "_TableProportions") [WSelf
      "_rows_dimension"; WVar "self"; WSelf "_cube_measures"] []).
Proof. reflexivity. Qed.
