(* Proofs/GenAgreePairwiseCtl.v -- GenAgree for C13, control flow: what cubepart.py SAYS NOW for
     CubePartition._alpha_values      denotes [alpha_parse] of Model/Pairwise.v, for EVERY value of
                                      transforms.pairwise_indices.alpha (as far as the code
                                      distinguishes values: falsy / float / other / list of items);
     CubePartition._only_larger       denotes [only_larger_parse];
     _Slice.pairwise_indices(_alt), pairwise_means_indices(_alt)
                                      hand to the static method _pairwise_indices (whose own reading is
                                      C13_gen_pairwise_indices: [indices_col]), for every display
                                      column col, the p / t matrices OF THAT COLUMN from the
                                      column-proportion (resp. means) members, the PRIMARY (resp.
                                      secondary) alpha, the only_larger flag and col itself as the own
                                      position; the _alt members are None exactly when there is no
                                      secondary alpha.
   See Base/PairCtlExp.v, GenAgreePairTac.v. *)
From Coq Require Import QArith ZArith List Bool Lia Arith String.
From CC Require Import Base.XQ Base.ListX Base.PairCtlExp Model.Pairwise Model.PairwiseLegacy Gen.PairwiseSrc.
Import ListNotations.
Local Close Scope Q_scope.
Local Open Scope string_scope.
Local Open Scope nat_scope.

Ltac cunfold_srcs :=
  repeat match goal with
         | |- context [match ?s with Some _ => _ | None => _ end] => is_const s; unfold s
         end.

(* ---- alpha ---------------------------------------------------------------------------- *)
Definition j_of_item (x : aitem) : jitem :=
  match x with It_float q => JFloat q | It_other => JOther end.
Definition j_of_aval (v : aval) : jval :=
  match v with
  | Av_falsy => JFalsy
  | Av_float q => JFloatV q
  | Av_other => JOtherV
  | Av_list l => JList (map j_of_item l)
  end.
(* a float that is 0.0 is falsy: the model's Av_float is "a non-zero float by itself" *)
Definition aval_wf (v : aval) : Prop :=
  match v with Av_float q => ~ (q == 0)%Q | _ => True end.

Definition opt_qeq (a b : option Q) : Prop :=
  match a, b with
  | None, None => True
  | Some p, Some q => (p == q)%Q
  | _, _ => False
  end.
Definition res_agrees (r : jres) (a : aresult) : Prop :=
  match r, a with
  | JR_ok x alt, A_ok y alt' => (x == y)%Q /\ opt_qeq alt alt'
  | JR_raise e, A_type_error => e = "TypeError"
  | JR_raise e, A_value_error => e = "ValueError"
  | _, _ => False
  end.

Ltac ragree :=
  cbn; first [ reflexivity | split; [reflexivity | first [exact I | cbn; reflexivity]] ].

Lemma q_in01_in01 q : q_in01 q = in01 q.
Proof. reflexivity. Qed.

Ltac alpha_list2 a b :=
  cbn [j_of_aval map j_of_item jev jcev jterm_den jtruthy option_map negb
       firstn jloop jitem_den List.length Nat.eqb nth_error];
  change q_in01 with in01; cbn [alpha_parse firstn forallb item_ok item_q andb];
  try (destruct (in01 a)); try (destruct (in01 b));
  cbn [negb andb item_q jloop jcev jterm_den jitem_den option_map]; try (ragree; fail);
  destruct (Qlt_le_dec b a); ragree.

Lemma gen_CubePartition__alpha_values :
  match psrc_CubePartition__alpha_values with
  | Some e => forall v, aval_wf v -> res_agrees (jev (j_of_aval v) e) (alpha_parse v)
  | None => True
  end.
Proof.
  cunfold_srcs;
  lazymatch goal with
  | |- True => exact I
  | _ =>
      intros v Hwf; destruct v as [|q| |l];
      [ (* falsy *) ragree
      | (* a float *)
        cbn in Hwf; cbn [j_of_aval jev jcev jterm_den jtruthy option_map];
        assert (Hq : Qeq_bool q 0 = false)
          by (destruct (Qeq_bool q 0) eqn:E; [apply Qeq_bool_iff in E; contradiction|reflexivity]);
        rewrite Hq; cbn [negb]; rewrite q_in01_in01; cbn [alpha_parse];
        destruct (in01 q); ragree
      | (* another truthy value *) ragree
      | (* a list *)
        destruct l as [|x [|y t]];
        [ ragree
        | destruct x as [a|];
          cbn [j_of_aval map j_of_item jev jcev jterm_den jtruthy option_map negb
               firstn jloop jitem_den List.length Nat.eqb nth_error];
          rewrite ?q_in01_in01; cbn [alpha_parse firstn forallb item_ok item_q andb];
          [destruct (in01 a); ragree | ragree]
        | destruct x as [a|], y as [b|]; alpha_list2 a b ] ]
  end.
Qed.

(* ---- only_larger ------------------------------------------------------------------------ *)
Definition j_of_ol (v : olval) : jol :=
  match v with Ol_absent => JolAbsent | Ol_false => JolFalse | Ol_true => JolTrue | Ol_other => JolOther end.

Lemma gen_CubePartition__only_larger :
  match psrc_CubePartition__only_larger with
  | Some e => forall v, olev e (j_of_ol v) = only_larger_parse v
  | None => True
  end.
Proof.
  cunfold_srcs;
  lazymatch goal with
  | |- True => exact I
  | _ => intros v; destruct v; reflexivity
  end.
Qed.

(* ---- which arguments the index sets are computed from ------------------------------------- *)
Definition wenv_std (cols : nat) (mat : string -> nat -> list (list xq)) (scal : string -> option Q)
           (flag : string -> bool) : wenv :=
  mkWenv cols mat scal flag indices_col.

(* one vector of index sets per display column: column c against every other one *)
Definition idx_cols (cols : nat) (mat : string -> nat -> list (list xq)) (flag : string -> bool)
           (pv tv : string) (alpha : Q) : list (list (list nat)) :=
  tab cols (fun c => indices_col alpha (flag "_only_larger") c (mat pv c) (mat tv c)).

Ltac gen_w :=
  cunfold_srcs;
  lazymatch goal with
  | |- True => exact I
  | _ =>
      intros; cbv [wev wenv_std wsrc_scal wsrc_flag w_cols w_mat w_scal w_flag w_indices idx_cols];
      repeat lazymatch goal with
             | H : ?s = Some _ |- context [?s] => rewrite H
             | |- context [match ?s with Some _ => _ | None => _ end] => destruct s
             end;
      reflexivity
  end.

Lemma gen_Slice_pairwise_indices :
  match psrc_Slice_pairwise_indices with
  | Some e => forall cols mat scal flag a, scal "_alpha" = Some a ->
      wev (wenv_std cols mat scal flag) e =
      WR_cols (idx_cols cols mat flag "_pairwise_significance_p_vals" "_pairwise_significance_t_stats" a)
  | None => True
  end.
Proof. gen_w. Qed.

Lemma gen_Slice_pairwise_indices_alt :
  match psrc_Slice_pairwise_indices_alt with
  | Some e => forall cols mat scal flag,
      wev (wenv_std cols mat scal flag) e =
      match scal "_alpha_alt" with
      | None => WR_none
      | Some b => WR_cols (idx_cols cols mat flag "_pairwise_significance_p_vals"
                                    "_pairwise_significance_t_stats" b)
      end
  | None => True
  end.
Proof. gen_w. Qed.

Lemma gen_Slice_pairwise_means_indices :
  match psrc_Slice_pairwise_means_indices with
  | Some e => forall cols mat scal flag a, scal "_alpha" = Some a ->
      wev (wenv_std cols mat scal flag) e =
      WR_cols (idx_cols cols mat flag "_pairwise_significance_means_p_vals"
                        "_pairwise_significance_means_t_stats" a)
  | None => True
  end.
Proof. gen_w. Qed.

Lemma gen_Slice_pairwise_means_indices_alt :
  match psrc_Slice_pairwise_means_indices_alt with
  | Some e => forall cols mat scal flag,
      wev (wenv_std cols mat scal flag) e =
      match scal "_alpha_alt" with
      | None => WR_none
      | Some b => WR_cols (idx_cols cols mat flag "_pairwise_significance_means_p_vals"
                                    "_pairwise_significance_means_t_stats" b)
      end
  | None => True
  end.
Proof. gen_w. Qed.

(* ---- which measure, for which selected column ------------------------------------------------ *)
(* the matrices of display column c come from the measure asked for the SIGNED PAYLOAD index
   order[c] of that column (Model/Pairwise.v [display_set]: s := nth dc ord), assembled; columns that
   are MR with overlap measures take the ...for_subvar (overlap-corrected) measure *)
Definition routed (E : denv) (m_overlap m_plain : string) (c : nat) : option (list (list xq)) :=
  option_map (fun z => d_assemble E (d_blocks E (if d_member E "_cube_has_overlaps" then m_overlap else m_plain) z))
             (nth_error (d_order E) c).

Ltac gen_d :=
  cunfold_srcs;
  lazymatch goal with
  | |- True => exact I
  | _ =>
      intros E c; cbv [dev rcev dsel_val routed];
      repeat lazymatch goal with
             | |- context [if ?b then _ else _] => destruct b
             end;
      reflexivity
  end.

Lemma gen_Slice__pairwise_significance_t_stats :
  match psrc_Slice__pairwise_significance_t_stats with
  | Some e => forall E c, dev E e c = routed E "pairwise_t_stats_for_subvar" "pairwise_t_stats" c
  | None => True
  end.
Proof. gen_d. Qed.

Lemma gen_Slice__pairwise_significance_p_vals :
  match psrc_Slice__pairwise_significance_p_vals with
  | Some e => forall E c, dev E e c = routed E "pairwise_p_vals_for_subvar" "pairwise_p_vals" c
  | None => True
  end.
Proof. gen_d. Qed.

(* means: no overlap routing *)
Lemma gen_Slice__pairwise_significance_means_t_stats :
  match psrc_Slice__pairwise_significance_means_t_stats with
  | Some e => forall E c,
      dev E e c = routed E "pairwise_significance_means_t_stats" "pairwise_significance_means_t_stats" c
  | None => True
  end.
Proof. gen_d. Qed.

Lemma gen_Slice__pairwise_significance_means_p_vals :
  match psrc_Slice__pairwise_significance_means_p_vals with
  | Some e => forall E c,
      dev E e c = routed E "pairwise_significance_means_p_vals" "pairwise_significance_means_p_vals" c
  | None => True
  end.
Proof. gen_d. Qed.

(* the routing test: the COLUMNS dimension is MR and the cube carries both overlap measures *)
Lemma gen_Slice__cube_has_overlaps :
  match psrc_Slice__cube_has_overlaps with
  | Some c => forall E,
      rcev E c = d_dimtype E (-1)%Z "MR" && (d_cube_given E "overlaps" && d_cube_given E "valid_overlaps")
  | None => True
  end.
Proof.
  cunfold_srcs;
  lazymatch goal with
  | |- True => exact I
  | _ => intros E; reflexivity
  end.
Qed.

(* ---- _alpha / _alpha_alt: the primary alpha is the FIRST, the secondary the SECOND component of
   _alpha_values (which [alpha_parse] returns sorted: primary <= secondary) --------------------- *)
Lemma gen_CubePartition__alpha_projections :
  match psrc_CubePartition__alpha with
  | Some a => a = 0
  | None => True
  end /\
  match psrc_CubePartition__alpha_alt with
  | Some b => b = 1
  | None => True
  end.
Proof.
  cunfold_srcs; split; first [reflexivity | exact I].
Qed.

(* ---- measures/pairwise_significance.py PairwiseSignificance ------------------------------------ *)
(* every aggregate is, for each displayed column c in order, THAT member of the column object
   constructed with (the slice, c, the alpha, the only_larger flag) of the PairwiseSignificance object;
   the classmethod constructs that object from (slice_, alpha, only_larger) in this order *)
Definition col_args : list lwarg := [LSlice; LCol; LAlpha; LOnlyLarger].

Ltac gen_lw :=
  cunfold_srcs;
  lazymatch goal with
  | |- True => exact I
  | _ => intros A E; reflexivity
  end.

Lemma gen_PairwiseSignificance__scale_mean_pairwise_indices :
  match src_PairwiseSignificance__scale_mean_pairwise_indices with
  | Some w => forall A (E : lwenv A),
      lwev E w = Some (per_column (lw_ncols E) (lw_member E "scale_mean_pairwise_indices" col_args))
  | None => True
  end.
Proof. gen_lw. Qed.

Lemma gen_PairwiseSignificance_summary_pairwise_indices :
  match src_PairwiseSignificance_summary_pairwise_indices with
  | Some w => forall A (E : lwenv A),
      lwev E w = Some (per_column (lw_ncols E) (lw_member E "summary_pairwise_indices" col_args))
  | None => True
  end.
Proof. gen_lw. Qed.

Lemma gen_PairwiseSignificance_scale_mean_pairwise_indices :
  match src_PairwiseSignificance_scale_mean_pairwise_indices with
  | Some w => forall A (E : lwenv A),
      lwev E w = Some (per_column (lw_ncols E) (lw_member E "scale_mean_pairwise_indices" col_args))
  | None => True
  end.
Proof. gen_lw. Qed.
