(* Proofs/MergeSum.v -- the Sum / Nan strategies of Model/Subtotals.v:
     * a subtotal's value is (sum of the listed addends) - (sum of the listed subtrahends),
       with the set semantics of Proofs/MergeIds.v (rows, columns, strands);
     * the NaN overrides (diff_rows_nan / diff_cols_nan), NanSubtotals;
     * a row-subtotal x column-subtotal intersection is the same whether it is accumulated
       row-first (what the code does) or column-first -- for EVERY matrix over xq, NaN and
       infinite cells included. *)
From Coq Require Import QArith ZArith List Bool Lia Arith Setoid Morphisms.
From CC Require Import Base.XQ Base.ListX Base.Ident Spec.Survey Model.Subtotals Model.SubtotalIds
     Proofs.MergeIds.
Import ListNotations.
Local Close Scope Q_scope.
Local Open Scope nat_scope.

(* ------------------------------------------------------------------------------------ *)
(** * subtotal count = listed addends - listed subtrahends *)

Section Count.
  Variable ids : list ident.          (* ids of the valid elements of the subtotalled dimension *)
  Variable d : insdict.
  Let s := subtotal_of ids d.
  Let n := length ids.

  (* the value the property promises, for element values g 0 .. g (n-1) *)
  Definition signed_sum (g : nat -> Q) : Q :=
    (qsumn n (fun i => listed ids (positive_terms d) i * g i)
     - qsumn n (fun i => listed ids (negative_terms d) i * g i))%Q.

  Lemma xsub_fin_eq a b p q : a =x= Fin p -> b =x= Fin q -> xsub a b =x= Fin (p - q)%Q.
  Proof. intros Ha Hb. rewrite Ha, Hb. simpl. ring. Qed.

  (* inserted ROW of a matrix measure (SumSubtotals._subtotal_row) *)
  Theorem subtotal_row_value base (g : nat -> Q) j :
    (forall i, i < n -> mnth base i j = Fin (g i)) ->
    subrow_cell base false s j =x= Fin (signed_sum g).
  Proof.
    intros H. unfold subrow_cell. simpl andb. cbv iota. unfold sum_rows, signed_sum, s. simpl s_add. simpl s_sub.
    apply xsub_fin_eq; apply xsum_resolve; exact H.
  Qed.

  (* inserted COLUMN (SumSubtotals._subtotal_column) *)
  Theorem subtotal_column_value base (g : nat -> Q) i :
    (forall j, j < n -> mnth base i j = Fin (g j)) ->
    subcol_cell base false s i =x= Fin (signed_sum g).
  Proof.
    intros H. unfold subcol_cell. simpl andb. cbv iota. unfold sum_cols, signed_sum, s. simpl s_add. simpl s_sub.
    apply xsub_fin_eq; apply xsum_resolve; exact H.
  Qed.

  (* inserted row of a strand (stripe/insertion.py::SumSubtotals._subtotal_value) *)
  Theorem subtotal_strand_value v (g : nat -> Q) :
    (forall i, i < n -> vnth v i = Fin (g i)) ->
    stripe_sum_subtotal v s =x= Fin (signed_sum g).
  Proof.
    intros H. unfold stripe_sum_subtotal, vsum_idx, signed_sum, s. simpl s_add. simpl s_sub.
    apply xsub_fin_eq; apply xsum_resolve; exact H.
  Qed.

  (* with the NaN override (valid counts in the response; bases in their own direction) a
     difference is NaN, a subtotal without subtrahends is not affected *)
  Theorem subtotal_row_diff_nan base j :
    is_difference ids d = true -> subrow_cell base true s j = NaN.
  Proof. intros H. unfold subrow_cell. unfold s. rewrite <- is_difference_has_subs, H. reflexivity. Qed.

  Theorem subtotal_column_diff_nan base i :
    is_difference ids d = true -> subcol_cell base true s i = NaN.
  Proof. intros H. unfold subcol_cell. unfold s. rewrite <- is_difference_has_subs, H. reflexivity. Qed.

  Theorem subtotal_row_override_irrelevant base j b :
    is_difference ids d = false -> subrow_cell base b s j = subrow_cell base false s j.
  Proof.
    intros H. unfold subrow_cell. unfold s. rewrite <- is_difference_has_subs, H, andb_false_r. reflexivity.
  Qed.

  Theorem subtotal_column_override_irrelevant base i b :
    is_difference ids d = false -> subcol_cell base b s i = subcol_cell base false s i.
  Proof.
    intros H. unfold subcol_cell. unfold s. rewrite <- is_difference_has_subs, H, andb_false_r. reflexivity.
  Qed.
End Count.

(* a listed id that is not a valid element changes nothing; a repeated id counts once;
   the order of the listed ids is irrelevant *)
Theorem listed_stale ids x t i : ~ In x ids -> i < length ids -> listed ids (x :: t) i = listed ids t i.
Proof.
  intros Hx Hi. unfold listed. simpl.
  destruct (ident_eqb (nth i ids INone) x) eqn:E; [|reflexivity].
  apply ident_eqb_eq in E. exfalso. apply Hx. rewrite <- E. apply nth_In. exact Hi.
Qed.

Theorem listed_duplicate ids x t i : listed ids (x :: x :: t) i = listed ids (x :: t) i.
Proof. unfold listed. simpl. destruct (ident_eqb (nth i ids INone) x); reflexivity. Qed.

Theorem listed_set ids t1 t2 i : (forall x, In x t1 <-> In x t2) -> listed ids t1 i = listed ids t2 i.
Proof.
  intros H. unfold listed.
  destruct (py_in (nth i ids INone) t1) eqn:E1, (py_in (nth i ids INone) t2) eqn:E2; try reflexivity.
  - apply py_in_In in E1. apply H in E1. apply py_in_In in E1. congruence.
  - apply py_in_In in E2. apply H in E2. apply py_in_In in E2. congruence.
Qed.

(* each element is counted with coefficient +1, 0 or -1 ... or +1-1 when listed on both sides *)
Theorem listed_01 ids t i : listed ids t i = 1%Q \/ listed ids t i = 0%Q.
Proof. unfold listed. destruct (py_in (nth i ids INone) t); simpl; auto. Qed.

(* ------------------------------------------------------------------------------------ *)
(** * NanSubtotals: every inserted cell is NaN *)

Theorem nan_blocks_rows base nr nc rsubs csubs k j :
  k < length rsubs -> j < nc -> mnth (b_rows (nan_blocks base nr nc rsubs csubs)) k j = NaN.
Proof. intros. unfold nan_blocks; simpl. apply tab2_mnth; assumption. Qed.
Theorem nan_blocks_cols base nr nc rsubs csubs i l :
  i < nr -> l < length csubs -> mnth (b_cols (nan_blocks base nr nc rsubs csubs)) i l = NaN.
Proof. intros. unfold nan_blocks; simpl. apply tab2_mnth; assumption. Qed.
Theorem nan_blocks_inter base nr nc rsubs csubs k l :
  k < length rsubs -> l < length csubs -> mnth (b_inter (nan_blocks base nr nc rsubs csubs)) k l = NaN.
Proof. intros. unfold nan_blocks; simpl. apply tab2_mnth; assumption. Qed.
Theorem nan_blocks_base_untouched base nr nc rsubs csubs :
  b_base (nan_blocks base nr nc rsubs csubs) = base.
Proof. reflexivity. Qed.

(* ------------------------------------------------------------------------------------ *)
(** * intersections: row-first == column-first *)

Lemma xsum_map_xeq {A} (f g : A -> xq) l :
  (forall x, In x l -> f x =x= g x) -> xsum (map f l) =x= xsum (map g l).
Proof.
  induction l as [|a t IH]; intros H; simpl; [reflexivity|].
  rewrite (H a (or_introl eq_refl)), IH; [reflexivity|]. intros x Hx. apply H. right. exact Hx.
Qed.

Lemma xneg_xadd a b : xneg (xadd a b) =x= xadd (xneg a) (xneg b).
Proof.
  destruct a as [p|s|], b as [q|t|]; simpl; auto; try ring.
  destruct s, t; simpl; auto.
Qed.

Lemma xneg_zero : xneg (Fin 0) =x= Fin 0.
Proof. simpl. ring. Qed.

Lemma xadd_swap a b c d : xadd (xadd a b) (xadd c d) =x= xadd (xadd a c) (xadd b d).
Proof.
  rewrite <- (xadd_assoc a b (xadd c d)), (xadd_assoc b c d), (xadd_comm b c),
          <- (xadd_assoc c b d), (xadd_assoc a c (xadd b d)). reflexivity.
Qed.

Lemma xsum_map_add {A} (f g : A -> xq) l :
  xsum (map (fun x => xadd (f x) (g x)) l) =x= xadd (xsum (map f l)) (xsum (map g l)).
Proof.
  induction l as [|a t IH]; simpl; [ring|]. rewrite IH. apply xadd_swap.
Qed.

Lemma xsum_map_neg {A} (f : A -> xq) l :
  xsum (map (fun x => xneg (f x)) l) =x= xneg (xsum (map f l)).
Proof.
  induction l as [|a t IH]; simpl; [ring|]. rewrite IH. symmetry. apply xneg_xadd.
Qed.

Lemma xsum_map_zero {A} (l : list A) : xsum (map (fun _ => Fin 0) l) =x= Fin 0.
Proof.
  induction l as [|a t IH]; [reflexivity|].
  change (xadd (Fin 0) (xsum (map (fun _ : A => Fin 0) t)) =x= Fin 0).
  transitivity (xadd (Fin 0) (Fin 0)); [apply xadd_Proper; [reflexivity| exact IH]| simpl; ring].
Qed.

(* exchange of two finite sums *)
Lemma xsum_exchange {A B} (m : A -> B -> xq) (la : list A) (lb : list B) :
  xsum (map (fun a => xsum (map (fun b => m a b) lb)) la)
  =x= xsum (map (fun b => xsum (map (fun a => m a b) la)) lb).
Proof.
  induction la as [|a t IH].
  - change (Fin 0 =x= xsum (map (fun _ : B => Fin 0) lb)). symmetry. apply xsum_map_zero.
  - change (xadd (xsum (map (fun b => m a b) lb)) (xsum (map (fun a0 => xsum (map (fun b => m a0 b) lb)) t))
            =x= xsum (map (fun b => xadd (m a b) (xsum (map (fun a0 => m a0 b) t))) lb)).
    rewrite IH. symmetry. apply (xsum_map_add (fun b => m a b) (fun b => xsum (map (fun a0 => m a0 b) t)) lb).
Qed.

(* the signed sum of a subtotal over a family of values *)
Definition ssum (s : subtotal) (f : nat -> xq) : xq :=
  xsub (xsum (map f (s_add s))) (xsum (map f (s_sub s))).

Lemma ssum_xeq s f g : (forall x, f x =x= g x) -> ssum s f =x= ssum s g.
Proof.
  intros H. unfold ssum.
  rewrite (xsum_map_xeq f g (s_add s)) by (intros; apply H).
  rewrite (xsum_map_xeq f g (s_sub s)) by (intros; apply H). reflexivity.
Qed.

Lemma ssum_exchange rs cs (m : nat -> nat -> xq) :
  ssum cs (fun j => ssum rs (fun i => m i j)) =x= ssum rs (fun i => ssum cs (fun j => m i j)).
Proof.
  unfold ssum, xsub.
  (* left: push the outer sums through the inner differences *)
  rewrite (xsum_map_add (fun j => xsum (map (fun i => m i j) (s_add rs)))
                        (fun j => xneg (xsum (map (fun i => m i j) (s_sub rs)))) (s_add cs)).
  rewrite (xsum_map_add (fun j => xsum (map (fun i => m i j) (s_add rs)))
                        (fun j => xneg (xsum (map (fun i => m i j) (s_sub rs)))) (s_sub cs)).
  rewrite (xsum_map_neg (fun j => xsum (map (fun i => m i j) (s_sub rs))) (s_add cs)).
  rewrite (xsum_map_neg (fun j => xsum (map (fun i => m i j) (s_sub rs))) (s_sub cs)).
  (* right *)
  rewrite (xsum_map_add (fun i => xsum (map (fun j => m i j) (s_add cs)))
                        (fun i => xneg (xsum (map (fun j => m i j) (s_sub cs)))) (s_add rs)).
  rewrite (xsum_map_add (fun i => xsum (map (fun j => m i j) (s_add cs)))
                        (fun i => xneg (xsum (map (fun j => m i j) (s_sub cs)))) (s_sub rs)).
  rewrite (xsum_map_neg (fun i => xsum (map (fun j => m i j) (s_sub cs))) (s_add rs)).
  rewrite (xsum_map_neg (fun i => xsum (map (fun j => m i j) (s_sub cs))) (s_sub rs)).
  (* name the four corner sums, all written rows-outside *)
  rewrite (xsum_exchange (fun j i => m i j) (s_add cs) (s_add rs)).
  rewrite (xsum_exchange (fun j i => m i j) (s_add cs) (s_sub rs)).
  rewrite (xsum_exchange (fun j i => m i j) (s_sub cs) (s_add rs)).
  rewrite (xsum_exchange (fun j i => m i j) (s_sub cs) (s_sub rs)).
  set (pp := xsum (map (fun i => xsum (map (fun j => m i j) (s_add cs))) (s_add rs))).
  set (pn := xsum (map (fun i => xsum (map (fun j => m i j) (s_sub cs))) (s_add rs))).
  set (np := xsum (map (fun i => xsum (map (fun j => m i j) (s_add cs))) (s_sub rs))).
  set (nn := xsum (map (fun i => xsum (map (fun j => m i j) (s_sub cs))) (s_sub rs))).
  rewrite !xneg_xadd.
  assert (Hnn : xneg (xneg nn) =x= nn) by (destruct nn as [q|[|]|]; simpl; auto; ring).
  rewrite Hnn.
  (* (pp + -np) + (-pn + nn)  vs  (pp + -pn) + (-np + nn) *)
  apply xadd_swap.
Qed.

Section Inter.
  Variable base : mat.
  Variable dcn drn : bool.

  Definition inter_nan (rs cs : subtotal) : bool :=
    (has_subs cs && has_subs rs) || (has_subs cs && dcn) || (has_subs rs && drn).

  Lemma subrow_cell_plain rs j : drn && has_subs rs = false ->
    subrow_cell base drn rs j = ssum rs (fun i => mnth base i j).
  Proof. intros H. unfold subrow_cell. rewrite H. reflexivity. Qed.
  Lemma subcol_cell_plain cs i : dcn && has_subs cs = false ->
    subcol_cell base dcn cs i = ssum cs (fun j => mnth base i j).
  Proof. intros H. unfold subcol_cell. rewrite H. reflexivity. Qed.

  Theorem intersection_commutes rs cs :
    inter_cell base dcn drn rs cs =x= inter_cell_colfirst base dcn drn rs cs.
  Proof.
    unfold inter_cell, inter_cell_colfirst. fold (inter_nan rs cs).
    destruct (inter_nan rs cs) eqn:E; [reflexivity|].
    unfold inter_nan in E. apply orb_false_iff in E. destruct E as [E E3].
    apply orb_false_iff in E. destruct E as [E1 E2].
    assert (Hr : drn && has_subs rs = false) by (rewrite andb_comm; exact E3).
    assert (Hc : dcn && has_subs cs = false) by (rewrite andb_comm; exact E2).
    change (ssum cs (subrow_cell base drn rs) =x= ssum rs (subcol_cell base dcn cs)).
    rewrite (ssum_xeq cs _ (fun j => ssum rs (fun i => mnth base i j)))
      by (intros j; rewrite (subrow_cell_plain rs j Hr); reflexivity).
    rewrite (ssum_xeq rs (subcol_cell base dcn cs) (fun i => ssum cs (fun j => mnth base i j)))
      by (intros i; rewrite (subcol_cell_plain cs i Hc); reflexivity).
    apply ssum_exchange.
  Qed.

  (* the rule for differences at intersections *)
  Theorem intersection_diff_x_diff rs cs :
    has_subs rs = true -> has_subs cs = true -> inter_cell base dcn drn rs cs = NaN.
  Proof. intros Hr Hc. unfold inter_cell. rewrite Hr, Hc. reflexivity. Qed.

  (* an intersection of two subtotals without subtrahends is the plain double sum *)
  Theorem intersection_plain rs cs :
    has_subs rs = false -> has_subs cs = false ->
    inter_cell base dcn drn rs cs
    =x= xsum (map (fun j => xsum (map (fun i => mnth base i j) (s_add rs))) (s_add cs)).
  Proof.
    intros Hr Hc. unfold inter_cell. rewrite Hr, Hc. simpl.
    unfold has_subs in Hc. destruct (s_sub cs) eqn:Ec; [|discriminate]. simpl.
    assert (xsub (xsum (map (subrow_cell base drn rs) (s_add cs))) (Fin 0)
            =x= xsum (map (subrow_cell base drn rs) (s_add cs))) as ->.
    { unfold xsub. rewrite xneg_zero. apply xadd_0_r. }
    apply xsum_map_xeq. intros j _. unfold subrow_cell. rewrite Hr, andb_false_r.
    unfold has_subs in Hr. destruct (s_sub rs) eqn:Er; [|discriminate].
    unfold sum_rows. simpl. unfold xsub. rewrite xneg_zero. apply xadd_0_r.
  Qed.
End Inter.
