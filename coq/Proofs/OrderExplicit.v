(* C07: the explicit-order loop of ExplicitOrderCollator._element_order_descriptors
   (OrderedDict pop, duplicates, leftovers) computes [explicit_base]; and the top-level
   statement [anchored_display_spec] for both anchored collators. *)
From Coq Require Import List Sorting Permutation ZArith String Bool Lia Arith.
From CC Require Import Base.SortX Spec.OrderSpec Model.Collator Proofs.OrderCollate.
Import ListNotations.
Local Open Scope nat_scope.

Definition pick (rem : list bel) (i : ident) : list bel :=
  filter (fun e : bel => ident_eqb (snd e) i) rem.
Definition drop_id (i : ident) (rem : list bel) : list bel :=
  filter (fun e : bel => negb (ident_eqb (snd e) i)) rem.

Lemma filter_filter {A} (p q : A -> bool) l :
  filter p (filter q l) = filter (fun x => q x && p x) l.
Proof.
  induction l as [|x t IH]; simpl; auto.
  destruct (q x) eqn:Q; simpl; [destruct (p x)|]; rewrite IH; reflexivity.
Qed.

Lemma NoDup_map_filter {A B} (f : A -> B) (p : A -> bool) l :
  NoDup (map f l) -> NoDup (map f (filter p l)).
Proof.
  induction l as [|x t IH]; simpl; intros H; [constructor|].
  inversion H; subst. destruct (p x); simpl; auto.
  constructor; auto. intros I. apply H2.
  apply in_map_iff in I. destruct I as (y & E & Hy). apply filter_In in Hy.
  rewrite <- E. apply in_map. apply Hy.
Qed.

Lemma pop_id_none i (rem : list bel) : ~ In i (map snd rem) -> pop_id i rem = None.
Proof.
  induction rem as [|e t IH]; simpl; intros H; auto.
  destruct (ident_eqb (snd e) i) eqn:E.
  - apply ident_eqb_eq in E. exfalso. apply H. auto.
  - rewrite IH; auto.
Qed.

Lemma pop_id_some i (rem : list bel) :
  NoDup (map snd rem) -> In i (map snd rem) ->
  exists e, pop_id i rem = Some (e, drop_id i rem) /\ snd e = i /\ pick rem i = [e].
Proof.
  induction rem as [|e t IH]; simpl; intros N H; [destruct H|].
  inversion N; subst.
  destruct (ident_eqb (snd e) i) eqn:E.
  - apply ident_eqb_eq in E. exists e. simpl.
    assert (Hn : forall x : bel, In x t -> ident_eqb (snd x) i = false).
    { intros x Hx. apply ident_eqb_neq. intros Ex. apply H2. rewrite E, <- Ex. apply in_map, Hx. }
    repeat split; auto.
    + f_equal. f_equal. unfold drop_id. symmetry. apply filter_true_id.
      intros x Hx. rewrite Hn; auto.
    + f_equal. apply filter_false_nil. exact Hn.
  - destruct H as [H|H]; [apply ident_eqb_neq in E; contradiction|].
    destruct (IH H3 H) as (x & P & Sx & Px). exists x. rewrite P. simpl. auto.
Qed.

Lemma drop_id_perm i (rem : list bel) e :
  pick rem i = [e] -> Permutation rem (e :: drop_id i rem).
Proof.
  intros H.
  assert (P : Permutation
                (filter (fun x : bel => ident_eqb (snd x) i || negb (ident_eqb (snd x) i)) rem)
                (pick rem i ++ drop_id i rem)).
  { apply filter_or_perm. intros x _ A B. rewrite A in B. discriminate. }
  rewrite filter_true_id in P.
  - eapply Permutation_trans; [exact P|]. rewrite H. reflexivity.
  - intros x _. destruct (ident_eqb (snd x) i); reflexivity.
Qed.

Lemma explicit_loop_perm listed : forall rem : list bel,
  NoDup (map snd rem) -> Permutation (explicit_loop listed rem) rem.
Proof.
  induction listed as [|i r IH]; intros rem N; simpl; auto.
  destruct (imem i (map snd rem)) eqn:M.
  - apply imem_In in M. destruct (pop_id_some i rem N M) as (e & P & _ & Pk).
    rewrite P. rewrite (drop_id_perm i rem e Pk) at 2. constructor.
    apply IH. apply NoDup_map_filter. exact N.
  - apply imem_false in M. rewrite pop_id_none by exact M. apply IH. exact N.
Qed.

Lemma flat_map_drop {B} (g : ident -> list B) i l :
  g i = [] -> flat_map g (filter (fun j => negb (ident_eqb j i)) l) = flat_map g l.
Proof.
  intros H. induction l as [|j t IH]; simpl; auto.
  destruct (ident_eqb j i) eqn:E; simpl.
  - apply ident_eqb_eq in E. subst. rewrite H. exact IH.
  - rewrite IH. reflexivity.
Qed.

Lemma pick_drop_other i j (rem : list bel) : j <> i -> pick (drop_id i rem) j = pick rem j.
Proof.
  intros H. unfold pick, drop_id. rewrite filter_filter. apply filter_ext.
  intros x. destruct (ident_eqb (snd x) j) eqn:E; [|apply andb_false_r].
  apply ident_eqb_eq in E. rewrite E.
  assert (ident_eqb j i = false) as -> by (apply ident_eqb_neq; exact H). reflexivity.
Qed.

Lemma pick_drop_same i (rem : list bel) : pick (drop_id i rem) i = [].
Proof.
  unfold pick, drop_id. rewrite filter_filter. apply filter_false_nil.
  intros x _. destruct (ident_eqb (snd x) i); reflexivity.
Qed.

Lemma flat_map_pick_drop i (rem : list bel) l :
  flat_map (pick (drop_id i rem)) l
  = flat_map (pick rem) (filter (fun j => negb (ident_eqb j i)) l).
Proof.
  induction l as [|j t IH]; simpl; auto.
  destruct (ident_eqb j i) eqn:E; simpl.
  - apply ident_eqb_eq in E. subst. rewrite pick_drop_same. exact IH.
  - apply ident_eqb_neq in E. rewrite pick_drop_other by exact E. rewrite IH. reflexivity.
Qed.

Lemma imem_cons a i r : imem a (i :: r) = ident_eqb a i || imem a r.
Proof. reflexivity. Qed.

Lemma explicit_loop_spec_aux listed : forall known : list bel,
  NoDup (map snd known) ->
  explicit_loop listed known =
    flat_map (pick known) (dedup_first listed)
    ++ filter (fun e : bel => negb (imem (snd e) listed)) known.
Proof.
  induction listed as [|i r IH]; intros rem N.
  - simpl. symmetry. apply filter_true_id. auto.
  - cbn [explicit_loop dedup_first flat_map].
    destruct (imem i (map snd rem)) eqn:M.
    + apply imem_In in M. destruct (pop_id_some i rem N M) as (e & P & _ & Pk).
      rewrite P, Pk. simpl. f_equal.
      rewrite IH by (apply NoDup_map_filter; exact N).
      rewrite flat_map_pick_drop. f_equal.
      unfold drop_id. rewrite filter_filter. apply filter_ext. intros x.
      destruct (ident_eqb (snd x) i); reflexivity.
    + apply imem_false in M. rewrite pop_id_none by exact M.
      assert (Pk : pick rem i = []).
      { apply filter_false_nil. intros x Hx. apply ident_eqb_neq. intros E. apply M.
        rewrite <- E. apply in_map, Hx. }
      rewrite Pk. simpl. rewrite (flat_map_drop (pick rem) i _ Pk).
      rewrite IH by exact N. f_equal.
      apply filter_ext_in'. intros x Hx. cbn [imem existsb]. fold (imem (snd x) r).
      assert (ident_eqb (snd x) i = false) as ->; auto.
      apply ident_eqb_neq. intros E. apply M. rewrite <- E. apply in_map, Hx.
Qed.

Theorem explicit_loop_spec listed (known : list bel) :
  NoDup (map snd known) -> explicit_loop listed known = explicit_base known listed.
Proof. intros N. rewrite explicit_loop_spec_aux by exact N. reflexivity. Qed.

(* --- the floats are in increasing index order -------------------------------------------- *)
Lemma neg_idxs_length n : List.length (neg_idxs n) = n.
Proof. unfold neg_idxs. rewrite map_length, seq_length. reflexivity. Qed.

Lemma neg_idxs_in n z : In z (neg_idxs n) <-> (- Z.of_nat n <= z < 0)%Z.
Proof.
  unfold neg_idxs. rewrite in_map_iff. split.
  - intros (i & <- & Hi). apply in_seq in Hi. lia.
  - intros H. exists (Z.to_nat (z + Z.of_nat n)). split; [lia|]. apply in_seq. lia.
Qed.

Lemma seq_sorted s n : StronglySorted lt (seq s n).
Proof.
  revert s. induction n as [|n IH]; intros s; simpl; constructor; auto.
  apply Forall_forall. intros x Hx. apply in_seq in Hx. lia.
Qed.

Lemma neg_idxs_sorted n : StronglySorted Z.le (neg_idxs n).
Proof.
  unfold neg_idxs. apply (SS_map Z.le _ lt); [intros; lia|]. apply seq_sorted.
Qed.

Lemma combine_fst_sorted {B} (zs : list Z) (bs : list B) :
  StronglySorted Z.le zs ->
  StronglySorted (fun a b : Z * B => (fst a <= fst b)%Z) (combine zs bs).
Proof.
  intros S. revert bs. induction S as [|z t St IH Hz]; intros bs; simpl; [constructor|].
  destruct bs as [|b bs]; [constructor|]. constructor; auto.
  rewrite Forall_forall in *. intros [z' b'] H. apply in_combine_l in H. simpl. auto.
Qed.

Lemma insertion_floats_sorted anchors :
  StronglySorted (fun a b : flt => (fst a <= fst b)%Z) (insertion_floats anchors).
Proof. unfold insertion_floats. apply combine_fst_sorted. apply neg_idxs_sorted. Qed.

Lemma insertion_floats_neg anchors f : In f (insertion_floats anchors) -> (fst f < 0)%Z.
Proof.
  destruct f as [z p]. unfold insertion_floats. intros H. apply in_combine_l in H.
  apply neg_idxs_in in H. simpl. lia.
Qed.

Lemma derived_floats_sorted d :
  StronglySorted (fun a b : flt => (fst a <= fst b)%Z) (derived_floats d).
Proof.
  unfold derived_floats.
  apply (SS_map _ _ (fun x y : nat * elem => fst x < fst y)).
  - intros x y H. simpl. lia.
  - apply SS_filter. rewrite enumerate_enum_from. apply enum_from_sorted.
Qed.

Lemma derived_floats_nonneg d f : In f (derived_floats d) -> (0 <= fst f)%Z.
Proof.
  unfold derived_floats. intros H. apply in_map_iff in H. destruct H as (ke & <- & _).
  simpl. lia.
Qed.

Lemma floats_of_sorted d o anchors :
  StronglySorted (fun a b : flt => (fst a <= fst b)%Z) (floats_of d o anchors).
Proof.
  unfold floats_of. apply SS_app.
  - apply insertion_floats_sorted.
  - destruct o; [constructor|apply derived_floats_sorted].
  - intros a b Ha Hb. apply insertion_floats_neg in Ha.
    destruct o; [destruct Hb|]. apply derived_floats_nonneg in Hb. lia.
Qed.

(* --- base orders ------------------------------------------------------------------------- *)
(* what the base order MEANS (specification side) *)
Definition base_of (d : dimension) (o : order_kind) : list bel :=
  match o with
  | OPayload => payload_base (d_ids d)
  | OExplicit listed => explicit_base (known_elems d) listed
  end.

Lemma known_elems_ids_nodup d : NoDup (d_ids d) -> NoDup (map snd (known_elems d)).
Proof.
  unfold known_elems, d_ids. intros N. rewrite map_map. simpl.
  rewrite <- (map_map snd e_id).
  assert (H : NoDup (map (fun ke : nat * elem => e_id (snd ke)) (enumerate (d_elems d)))).
  { rewrite <- (map_map snd e_id), snd_enumerate. exact N. }
  rewrite map_map. apply NoDup_map_filter. exact H.
Qed.

Lemma desc_of_base d o : NoDup (d_ids d) -> desc_of d o = base_of d o.
Proof.
  intros N. destruct o; simpl; auto.
  unfold descriptors_explicit. apply explicit_loop_spec. apply known_elems_ids_nodup. exact N.
Qed.

Lemma desc_of_nodup d o : NoDup (d_ids d) -> NoDup (map snd (desc_of d o)).
Proof.
  intros N. destruct o; cbn [desc_of].
  - unfold descriptors_payload. rewrite snd_enumerate. exact N.
  - unfold descriptors_explicit.
    assert (K := known_elems_ids_nodup d N).
    eapply Permutation_NoDup; [|exact K].
    apply Permutation_map. apply Permutation_sym. apply explicit_loop_perm. exact K.
Qed.

Lemma filter_length_le {A} (p : A -> bool) l : List.length (filter p l) <= List.length l.
Proof. induction l as [|x t IH]; simpl; auto. destruct (p x); simpl; lia. Qed.

Lemma desc_of_length d o : NoDup (d_ids d) -> List.length (desc_of d o) <= List.length (d_elems d).
Proof.
  intros N. destruct o; cbn [desc_of].
  - unfold descriptors_payload, d_ids, bel. rewrite enumerate_length, map_length. lia.
  - unfold descriptors_explicit.
    rewrite (Permutation_length (explicit_loop_perm listed _ (known_elems_ids_nodup d N))).
    unfold known_elems. rewrite map_length.
    etransitivity; [apply filter_length_le|]. rewrite enumerate_length. lia.
Qed.

(* --- C07 main statement ------------------------------------------------------------------- *)
Theorem anchored_display_over_spec d o subs empties :
  NoDup (d_ids d) -> (Z.of_nat (List.length (d_elems d)) < MAXSIZE)%Z ->
  anchored_display_over d o subs empties =
    let anchors := anchors_of d subs in
    if existsb is_other anchors then Err ValueError
    else Ok (displayed (collator_hidden d empties)
                       (anchored_order (base_of d o) (floats_of d o anchors))).
Proof.
  intros N Small. unfold anchored_display_over. cbv zeta.
  destruct (existsb is_other (anchors_of d subs)); auto.
  f_equal. f_equal. rewrite <- (desc_of_base d o N).
  apply collate_anchored.
  - apply desc_of_nodup. exact N.
  - assert (L := desc_of_length d o N). lia.
  - apply floats_of_sorted.
Qed.

(* ... and for ANY sorted permutation of the sort keys the code builds (Python's sorted()) *)
Theorem any_sort_reads_anchored_order d o anchors (s : list key) :
  NoDup (d_ids d) -> (Z.of_nat (List.length (d_elems d)) < MAXSIZE)%Z ->
  Permutation s (base_keys (desc_of d o) ++ map (float_key (desc_of d o)) (floats_of d o anchors)) ->
  Sorted key_le s ->
  map kidx s = anchored_order (base_of d o) (floats_of d o anchors).
Proof.
  intros N Small P S. rewrite <- (desc_of_base d o N).
  apply sorted_keys_read_anchored_order; auto.
  - apply desc_of_nodup. exact N.
  - assert (L := desc_of_length d o N). lia.
  - apply floats_of_sorted.
  - apply Sorted_key_strong. exact S.
Qed.

(* --- anchor normalisation ------------------------------------------------------------------ *)
Theorem norm_anchor_spec ids raw :
  match norm_anchor ids raw with
  | NOther _ => spec_place ids raw = None
  | a => spec_place ids raw = Some (place_of_nanchor a)
  end.
Proof.
  destruct raw as [z|s|]; simpl; auto.
  - unfold norm_int. destruct (imem (IInt z) ids); reflexivity.
  - destruct (py_int s) as [z|].
    + unfold norm_int. destruct (imem (IInt z) ids); reflexivity.
    + destruct (String.eqb (lower s) "top"); auto.
      destruct (String.eqb (lower s) "bottom"); auto.
Qed.
