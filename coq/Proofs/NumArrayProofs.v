(* Proofs/NumArrayProofs.v -- numeric-array cubes: the valid tensor the code extracts
   (Cube._valid_idxs with Dimensions.dimension_order, Model/CubeCounts.v) reads, for array
   item i and the valid grouping elements gidx, exactly the cell the response carries at
   (raw grouping index, item) -- data[offset * n_items + item] -- for one or two grouping
   axes (2-D: array x categorical; 3-D: array x MR, array x cat x cat), alone (1-D), and
   for the 0-D nub; and NOT for three grouping axes (array x cat x MR ...), where the
   code used to reverse the grouping axes as well (repaired; [numarr_four_axes_former_witness]). *)
From Coq Require Import QArith ZArith List Bool Lia Arith.
From CC Require Import Base.XQ Base.ListX Spec.Survey Model.CubeCounts Model.NumArray
     Proofs.CubeCountsProofs.
Import ListNotations.
Local Close Scope Q_scope.
Local Open Scope nat_scope.

(* ------------------------------------------------------------------------------------ *)
(** * the array dimension *)

Lemma dvalid_numarr n : dvalid (numarr_dim n) = seq 0 n.
Proof. unfold dvalid, numarr_dim. simpl. apply valid_idxs_none_missing. Qed.

Lemma nvalid_numarr n : nvalid (numarr_dim n) = n.
Proof. unfold nvalid. rewrite dvalid_numarr. apply seq_length. Qed.

Lemma dsize_numarr n : dsize (numarr_dim n) = n.
Proof. unfold dsize, numarr_dim. simpl. apply repeat_length. Qed.

Lemma numarr_item n i : i < n -> nth i (dvalid (numarr_dim n)) 0 = i.
Proof. intros H. rewrite dvalid_numarr, seq_nth by exact H. reflexivity. Qed.

(* Dimensions.dimension_order of the cubes the code provides for: the array axis goes from
   the front to the back, the grouping axes keep their order *)
Lemma dimension_order_numarr n gs :
  gs <> [] ->
  dimension_order (numarr_dims n gs) = rotate_order (S (length gs)).
Proof.
  intros H. destruct gs as [|g gs]; [contradiction|].
  unfold dimension_order, numarr_dims, rotate_order. cbn [length].
  replace (2 <=? S (S (length gs))) with true by (symmetry; apply Nat.leb_le; lia).
  cbn [existsb]. unfold is_numarr at 1, numarr_dim. cbn [dk andb orb]. reflexivity.
Qed.

(* ------------------------------------------------------------------------------------ *)
(** * index arithmetic of a trailing axis *)

Lemma offset_snoc sh ix n i acc :
  length sh = length ix -> offset (sh ++ [n]) (ix ++ [i]) acc = offset sh ix acc * n + i.
Proof.
  revert ix acc. induction sh as [|m sh IH]; intros [|j ix] acc H; simpl in *; try discriminate H;
    [reflexivity|].
  injection H as H. apply IH. exact H.
Qed.

Lemma in_boundsb_snoc sh ix n i :
  in_boundsb sh ix = true -> i < n -> in_boundsb (sh ++ [n]) (ix ++ [i]) = true.
Proof.
  revert ix. induction sh as [|m sh IH]; intros [|j ix] H Hi; simpl in *; try discriminate H.
  - apply Nat.ltb_lt in Hi. rewrite Hi. reflexivity.
  - apply andb_true_iff in H. destruct H as [Hj H]. rewrite Hj. simpl. apply IH; assumption.
Qed.

(* every grouping index names a valid element of its dimension *)
Fixpoint valid_idx_ok (gs : list dimd) (gidx : list nat) : Prop :=
  match gs, gidx with
  | [], [] => True
  | g :: gs', j :: ix => j < nvalid g /\ valid_idx_ok gs' ix
  | _, _ => False
  end.

Lemma valid_idx_ok_length gs gidx : valid_idx_ok gs gidx -> length gidx = length gs.
Proof.
  revert gidx. induction gs as [|g gs IH]; intros [|j ix] H; simpl in *; try contradiction;
    [reflexivity|].
  destruct H as [_ H]. f_equal. apply IH. exact H.
Qed.

Lemma dvalid_lt g j : j < nvalid g -> nth j (dvalid g) 0 < dsize g.
Proof.
  intros H. unfold nvalid in H.
  assert (Hin : In (nth j (dvalid g) 0) (dvalid g)) by (apply nth_In; exact H).
  unfold dvalid in Hin. apply valid_idxs_In in Hin. unfold dsize. tauto.
Qed.

Lemma remap_in_bounds gs gidx :
  valid_idx_ok gs gidx -> in_boundsb (map dsize gs) (remap (map dvalid gs) gidx) = true.
Proof.
  revert gidx. induction gs as [|g gs IH]; intros [|j ix] H; simpl in *; try contradiction;
    [reflexivity|].
  destruct H as [Hj H]. apply andb_true_iff. split.
  - apply Nat.ltb_lt. apply dvalid_lt. exact Hj.
  - apply IH. exact H.
Qed.

(* ------------------------------------------------------------------------------------ *)
(** * the valid tensor reads the response's cell *)

(* with the rotation (the array axis moved to the back, nothing else) every number of
   grouping axes reads the response's cell: this is what a repaired dimension_order gives *)
Theorem rotate_order_reads n gs data i gidx :
  length gidx = length gs ->
  of_flat (permute (rotate_order (S (length gs))) (map dsize (numarr_dims n gs))) data
          (permute (rotate_order (S (length gs))) (remap (map dvalid (numarr_dims n gs)) (i :: gidx)))
  = numarr_cell n gs data (nth i (dvalid (numarr_dim n)) 0) (remap (map dvalid gs) gidx).
Proof.
  intros Hl. unfold numarr_cell, numarr_payload_shape, rotate_order, numarr_dims.
  simpl length. replace (S (length gs) - 1) with (length gs) by lia.
  unfold permute. rewrite !map_app. simpl. rewrite dsize_numarr.
  assert (P : forall (l : list nat) a,
            map (fun k => match k with 0 => a | S m => nth m l 0 end) (seq 1 (length l)) = l).
  { intros l a. rewrite <- seq_shift, map_map. simpl.
    clear. induction l as [|x l IH]; [reflexivity|].
    simpl. f_equal. rewrite <- seq_shift, map_map. exact IH. }
  assert (Lr : length (remap (map dvalid gs) gidx) = length gs).
  { clear -Hl. revert gidx Hl. induction gs as [|g gs IH]; intros [|j ix] H; simpl in *;
      try discriminate H; [reflexivity|]. f_equal. apply IH. injection H as H. exact H. }
  rewrite <- (map_length dsize gs) at 1. rewrite P.
  rewrite <- Lr at 1. rewrite P. reflexivity.
Qed.

Theorem numarr_valid_reads n gs data i gidx :
  gs <> [] -> length gidx = length gs ->
  numarr_valid n gs data (i :: gidx)
  = numarr_cell n gs data (nth i (dvalid (numarr_dim n)) 0) (remap (map dvalid gs) gidx).
Proof.
  intros Hg Hl. unfold numarr_valid, take_valid_ord, raw_shape.
  rewrite (dimension_order_numarr n gs Hg). apply rotate_order_reads. exact Hl.
Qed.

(* data[offset(grouping index) * n_items + item] *)
Theorem numarr_cell_offset n gs data i gidx :
  in_boundsb (map dsize gs) gidx = true -> i < n ->
  numarr_cell n gs data i gidx = nth (offset (map dsize gs) gidx 0 * n + i) data NaN.
Proof.
  intros Hb Hi. unfold numarr_cell, numarr_payload_shape, of_flat.
  rewrite (in_boundsb_snoc _ _ n i Hb Hi).
  rewrite (offset_snoc _ _ n i 0 (in_boundsb_length _ _ Hb)). reflexivity.
Qed.

Theorem numarr_valid_offset n gs data i gidx :
  gs <> [] -> valid_idx_ok gs gidx -> i < n ->
  numarr_valid n gs data (i :: gidx)
  = nth (offset (map dsize gs) (remap (map dvalid gs) gidx) 0 * n + i) data NaN.
Proof.
  intros Hg Hok Hi.
  rewrite (numarr_valid_reads n gs data i gidx Hg (valid_idx_ok_length _ _ Hok)).
  rewrite (numarr_item n i Hi).
  apply numarr_cell_offset; [apply remap_in_bounds; exact Hok | exact Hi].
Qed.

(* whatever per-cell statistic F (of the grouping cell and the array item) the response was
   laid out from, the output cell (item i, valid grouping elements gidx) is F of that cell *)
Theorem numarr_reports_cell_statistic n gs (F : tensor) i gidx :
  gs <> [] -> valid_idx_ok gs gidx -> i < n ->
  numarr_valid n gs (flatten (numarr_payload_shape n gs) F) (i :: gidx)
  = F (remap (map dvalid gs) gidx ++ [i]).
Proof.
  intros Hg Hok Hi.
  rewrite (numarr_valid_reads n gs _ i gidx Hg (valid_idx_ok_length _ _ Hok)).
  rewrite (numarr_item n i Hi). unfold numarr_cell.
  apply of_flat_flatten. unfold numarr_payload_shape.
  apply in_boundsb_snoc; [apply remap_in_bounds; exact Hok | exact Hi].
Qed.

(* 1-D: the array alone *)
Theorem numarr_alone n data i : i < n -> numarr_valid n [] data [i] = nth i data NaN.
Proof.
  intros Hi. unfold numarr_valid, take_valid_ord, raw_shape, numarr_dims.
  change (dimension_order [numarr_dim n]) with [0]. unfold permute. simpl.
  rewrite (numarr_item n i Hi), dsize_numarr. unfold of_flat. simpl.
  apply Nat.ltb_lt in Hi. rewrite Hi. reflexivity.
Qed.

(* 0-D: the nub reads the only cell *)
Theorem nub_reads data : nub_value data = nth 0 data NaN.
Proof. reflexivity. Qed.

(* ------------------------------------------------------------------------------------ *)
(** * partitions: what _Slice / _Strand hand out for a numeric-array cube *)

(* array x categorical-like grouping dimension: means/sums/stddev/medians AND the counts
   (valid counts) of cell (item i, j-th valid category) *)
Theorem numarr_by_cat_slice n g data i j :
  dk g = DCat -> i < n -> j < nvalid g ->
  option_map (fun m => mnth m i j) (slice_passthrough (numarr_dims n [g]) data 0)
    = Some (numarr_cell n [g] data i [nth j (dvalid g) 0])
  /\ option_map (fun so => mnth (so_counts so) i j) (slice_counts (numarr_dims n [g]) data 0)
    = Some (numarr_cell n [g] data i [nth j (dvalid g) 0]).
Proof.
  intros Hk Hi Hj.
  assert (HV : slice_tensor (numarr_dims n [g]) data
                 (mkSliceInfo 2 false (numarr_dim n) 0 0 g 0 0) 0 [i; j]
               = numarr_cell n [g] data i [nth j (dvalid g) 0]).
  { unfold slice_tensor, slice_at. simpl.
    change (take_valid_ord (numarr_dims n [g]) (of_flat (raw_shape (numarr_dims n [g])) data))
      with (numarr_valid n [g] data).
    rewrite (numarr_valid_reads n [g] data i [j]); [| discriminate | reflexivity].
    rewrite (numarr_item n i Hi). reflexivity. }
  destruct g as [k ms]. simpl in Hk. subst k.
  unfold slice_passthrough, slice_counts, slice_info_of, numarr_dims. simpl.
  rewrite !nvalid_numarr.
  split; simpl; f_equal; rewrite (tab2_mnth _ _ _ i j Hi Hj); exact HV.
Qed.

(* array x multiple response: the SELECTED plane of item j *)
Theorem numarr_by_mr_slice n ms data i j :
  let gs := [mkDim DMrSubvar ms; mkDim DMrCat mr_cat_missing] in
  i < n -> j < nvalid (mkDim DMrSubvar ms) ->
  option_map (fun m => mnth m i j) (slice_passthrough (numarr_dims n gs) data 0)
    = Some (numarr_cell n gs data i [nth j (valid_idxs ms) 0; 0])
  /\ option_map (fun so => mnth (so_counts so) i j) (slice_counts (numarr_dims n gs) data 0)
    = Some (numarr_cell n gs data i [nth j (valid_idxs ms) 0; 0]).
Proof.
  intros gs Hi Hj.
  assert (HV : slice_tensor (numarr_dims n gs) data
                 (mkSliceInfo 2 false (numarr_dim n) 0 0 (mkDim DMrSubvar ms) 2 3) 0 [i; j; 0]
               = numarr_cell n gs data i [nth j (valid_idxs ms) 0; 0]).
  { unfold slice_tensor, slice_at. simpl.
    change (take_valid_ord (numarr_dims n gs) (of_flat (raw_shape (numarr_dims n gs)) data))
      with (numarr_valid n gs data).
    rewrite (numarr_valid_reads n gs data i [j; 0]); [| unfold gs; discriminate | reflexivity].
    rewrite (numarr_item n i Hi). reflexivity. }
  unfold slice_passthrough, slice_counts, slice_info_of, numarr_dims, gs. simpl.
  rewrite !nvalid_numarr.
  split; simpl; f_equal; rewrite (tab2_mnth _ _ _ i j Hi Hj); exact HV.
Qed.

(* the array alone: a strand of its items *)
Theorem numarr_strand n data i :
  i < n ->
  option_map (fun st => vnth (st_counts st) i) (strand_counts (numarr_dims n []) data false 0)
    = Some (nth i data NaN).
Proof.
  intros Hi. unfold strand_counts, numarr_dims. simpl.
  rewrite nvalid_numarr. f_equal. rewrite (tab_vnth _ _ i Hi).
  apply (numarr_alone n data i Hi).
Qed.

(* ------------------------------------------------------------------------------------ *)
(** * three grouping axes (array x categorical x MR): the former witness of the repaired defect
      C01-numarr-four-axes (the code reversed ALL axes and read another cell) now reads the cell of
      the response, like every other shape *)

Theorem numarr_four_axes_former_witness :
  let n := 2 in
  let gs := [mkDim DCat [false; false]; mkDim DMrSubvar [false; false; false];
             mkDim DMrCat mr_cat_missing] in
  let data := map (fun k => Fin (inject_Z (Z.of_nat k))) (seq 0 36) in
  length gs = 3 /\ valid_idx_ok gs [1; 0; 0] /\
  numarr_valid n gs data (0 :: [1; 0; 0]) = numarr_cell n gs data 0 (remap (map dvalid gs) [1; 0; 0]).
Proof.
  cbv zeta. split; [reflexivity|]. split; [simpl; unfold nvalid; simpl; lia|].
  vm_compute. reflexivity.
Qed.


