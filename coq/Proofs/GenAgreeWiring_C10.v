(* GOLDEN obligations of the wiring translator for C10 (generated ONCE by tools/gen_wiring_props.py,
   then committed): what each public member of cubepart.py that C10 relies on IS, as a term of
   Base/WiringExp.v.  Gen/WiringSrc.v is regenerated from /repo on every check; an edit of the
   public layer that changes one of these members breaks the lemma below (reflexivity). *)
From Coq Require Import List ZArith String.
From CC Require Import Base.WiringExp Gen.WiringSrc.
Import ListNotations.
Local Open Scope string_scope.

(* CubePartition.dimension_types *)
Lemma gen_wiring_CubePartition_dimension_types :
  wsrc_CubePartition_dimension_types = Some (WCall (WGlobal "tuple") [WComp "gen" (WAttr (WVar "d")
      "dimension_type") [(["d"], WSelf "_dimensions", [])]] []).
Proof. reflexivity. Qed.

(* _Slice.column_aliases *)
Lemma gen_wiring_Slice_column_aliases :
  wsrc_Slice_column_aliases = Some (WIndex (WCall (WAttr (WGlobal "np") "array") [WBin "+" (WAttr
      (WIndex (WSelf "_dimensions") [WInt (1)%Z]) "element_aliases") (WAttr (WIndex (WSelf
      "_dimensions") [WInt (1)%Z]) "subtotal_aliases")] []) [WSelf "_column_order_signed_indexes"]).
Proof. reflexivity. Qed.

(* _Slice.column_codes *)
Lemma gen_wiring_Slice_column_codes :
  wsrc_Slice_column_codes = Some (WIndex (WCall (WAttr (WGlobal "np") "array") [WBin "+" (WAttr
      (WIndex (WSelf "_dimensions") [WInt (1)%Z]) "element_ids") (WAttr (WIndex (WSelf
      "_dimensions") [WInt (1)%Z]) "insertion_ids")] []) [WSelf "_column_order_signed_indexes"]).
Proof. reflexivity. Qed.

(* _Slice.column_labels *)
Lemma gen_wiring_Slice_column_labels :
  wsrc_Slice_column_labels = Some (WIndex (WCall (WAttr (WGlobal "np") "array") [WBin "+" (WAttr
      (WIndex (WSelf "_dimensions") [WInt (1)%Z]) "element_labels") (WAttr (WIndex (WSelf
      "_dimensions") [WInt (1)%Z]) "subtotal_labels")] []) [WSelf "_column_order_signed_indexes"]).
Proof. reflexivity. Qed.

(* _Slice.row_aliases *)
Lemma gen_wiring_Slice_row_aliases :
  wsrc_Slice_row_aliases = Some (WIndex (WCall (WAttr (WGlobal "np") "array") [WBin "+" (WAttr (WIndex
      (WSelf "_dimensions") [WInt (0)%Z]) "element_aliases") (WAttr (WIndex (WSelf "_dimensions")
      [WInt (0)%Z]) "subtotal_aliases")] []) [WSelf "_row_order_signed_indexes"]).
Proof. reflexivity. Qed.

(* _Slice.row_codes *)
Lemma gen_wiring_Slice_row_codes :
  wsrc_Slice_row_codes = Some (WIndex (WCall (WAttr (WGlobal "np") "array") [WBin "+" (WAttr (WIndex
      (WSelf "_dimensions") [WInt (0)%Z]) "element_ids") (WAttr (WIndex (WSelf "_dimensions") [WInt
      (0)%Z]) "insertion_ids")] []) [WSelf "_row_order_signed_indexes"]).
Proof. reflexivity. Qed.

(* _Slice.row_labels *)
Lemma gen_wiring_Slice_row_labels :
  wsrc_Slice_row_labels = Some (WIndex (WCall (WAttr (WGlobal "np") "array") [WBin "+" (WAttr (WIndex
      (WSelf "_dimensions") [WInt (0)%Z]) "element_labels") (WAttr (WIndex (WSelf "_dimensions")
      [WInt (0)%Z]) "subtotal_labels")] []) [WSelf "_row_order_signed_indexes"]).
Proof. reflexivity. Qed.

(* _Strand.row_aliases *)
Lemma gen_wiring_Strand_row_aliases :
  wsrc_Strand_row_aliases = Some (WIndex (WCall (WAttr (WGlobal "np") "array") [WBin "+" (WAttr (WSelf
      "_rows_dimension") "element_aliases") (WAttr (WSelf "_rows_dimension") "subtotal_aliases")]
      []) [WSelf "_row_order_signed_indexes"]).
Proof. reflexivity. Qed.

(* _Strand.row_codes *)
Lemma gen_wiring_Strand_row_codes :
  wsrc_Strand_row_codes = Some (WIndex (WCall (WAttr (WGlobal "np") "array") [WBin "+" (WAttr (WSelf
      "_rows_dimension") "element_ids") (WAttr (WSelf "_rows_dimension") "insertion_ids")] [])
      [WSelf "_row_order_signed_indexes"]).
Proof. reflexivity. Qed.

(* _Strand.row_labels *)
Lemma gen_wiring_Strand_row_labels :
  wsrc_Strand_row_labels = Some (WIndex (WCall (WAttr (WGlobal "np") "array") [WBin "+" (WAttr (WSelf
      "_rows_dimension") "element_labels") (WAttr (WSelf "_rows_dimension") "subtotal_labels")] [])
      [WSelf "_row_order_signed_indexes"]).
Proof. reflexivity. Qed.
