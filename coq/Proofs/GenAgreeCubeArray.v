(* GenAgreeCubeArray: the numpy of cube.py on shape + row-major data ([pyarr], Model/PyCube.v) against the
   tensors of Model/CubeCounts.v:  raw_cube_array[np.ix_ of the valid element indexes, taken in
   Dimensions.dimension_order]  reads  take_valid_ord ds (of_flat (raw_shape ds) payload)  - for every
   dimension list, payload and in-range index. *)
From Coq Require Import List ZArith QArith Bool Lia Arith.
From CC Require Import Base.XQ Base.ListX Base.PyList Base.PyJson Spec.Survey Model.CubeCounts Model.DimType
  Model.PyCube Proofs.CubeCountsProofs Proofs.GenAgreeCubeLib.
Import ListNotations.
Local Close Scope Q_scope.
Local Open Scope nat_scope.

Definition dflt_dimd : dimd := mkDim DCat [].

(* Cube._valid_idxs: component j = (the axis order_j varies along, the valid offsets of dimension order_j) *)
Definition valid_grid (ds : list dimd) : ixgrid :=
  map (fun i => (i, map Z.of_nat (dvalid (nth i ds dflt_dimd)))) (dimension_order ds).

(* an array result read as a tensor on the indexes of a shape *)
Definition reads (r : pres pyarr) (sh : list nat) (T : tensor) : Prop :=
  exists out, r = POk out /\ pa_shape out = sh /\
              forall idx, in_boundsb sh idx = true -> arr_get out idx = T idx.

(* --- Dimensions.dimension_order ------------------------------------------------------------------------ *)
Lemma dimension_order_length ds : length (dimension_order ds) = length ds.
Proof.
  unfold dimension_order. destruct ((2 <=? length ds) && existsb is_numarr ds) eqn:E.
  - apply andb_true_iff in E. destruct E as [E _]. apply Nat.leb_le in E.
    rewrite app_length, seq_length. simpl. lia.
  - apply seq_length.
Qed.

Lemma dimension_order_In ds i : In i (dimension_order ds) <-> i < length ds.
Proof.
  unfold dimension_order. destruct ((2 <=? length ds) && existsb is_numarr ds) eqn:E.
  - apply andb_true_iff in E. destruct E as [E _]. apply Nat.leb_le in E.
    rewrite in_app_iff, in_seq. simpl. lia.
  - rewrite in_seq. lia.
Qed.

(* --- small list facts -------------------------------------------------------------------------------------- *)
Lemma sequence_pres_ok {A B} (f : A -> pres B) (g : A -> B) l :
  (forall x, In x l -> f x = POk (g x)) -> sequence_pres (map f l) = POk (map g l).
Proof.
  induction l as [|x t IH]; intros H; simpl; auto.
  rewrite H by (simpl; auto). simpl. rewrite IH by (intros; apply H; simpl; auto). reflexivity.
Qed.

Lemma find_tagged {B} (F : nat -> B) order pos :
  In pos order ->
  find (fun c : nat * B => Nat.eqb (fst c) pos) (map (fun i => (i, F i)) order) = Some (pos, F pos).
Proof.
  induction order as [|i t IH]; intros H; simpl in *; [tauto|].
  destruct (Nat.eqb_spec i pos) as [->|N]; [reflexivity|].
  apply IH. destruct H; [contradiction|assumption].
Qed.

Lemma map_nth_seq {A B} (f : A -> B) (l : list A) d :
  map (fun i => f (nth i l d)) (seq 0 (length l)) = map f l.
Proof.
  induction l as [|x t IH]; simpl; auto. f_equal.
  rewrite <- seq_shift, map_map. exact IH.
Qed.

Lemma combine_map_same {A B C} (f : A -> B) (g : A -> C) l :
  combine (map f l) (map g l) = map (fun x => (f x, g x)) l.
Proof. induction l; simpl; auto. rewrite IHl. reflexivity. Qed.

Lemma py_index_of_nat n i : i < n -> py_index n (Z.of_nat i) = Some i.
Proof.
  intros H. unfold py_index.
  destruct (Z.leb_spec 0 (Z.of_nat i)); [|lia].
  destruct (Z.ltb_spec (Z.of_nat i) (Z.of_nat n)); [|lia]. rewrite Nat2Z.id. reflexivity.
Qed.

Lemma grid_offsets_of_nat size l :
  (forall x, In x l -> x < size) -> grid_offsets size (map Z.of_nat l) = POk l.
Proof.
  intros H. unfold grid_offsets.
  rewrite (pmapM_ok _ Z.to_nat).
  - rewrite map_map. f_equal. rewrite <- (map_id l) at 2. apply map_ext. intros; apply Nat2Z.id.
  - intros z Hz. apply in_map_iff in Hz. destruct Hz as [x [<- Hx]].
    rewrite (py_index_of_nat size x (H x Hx)), Nat2Z.id. reflexivity.
Qed.

Lemma dvalid_In_lt d x : In x (dvalid d) -> x < dsize d.
Proof. unfold dvalid, dsize. intros H. apply valid_idxs_In in H. tauto. Qed.

Lemma nth_remap ds idx i :
  length idx = length ds -> i < length ds ->
  nth i (remap (map dvalid ds) idx) 0 = nth (nth i idx 0) (dvalid (nth i ds dflt_dimd)) 0.
Proof.
  revert idx i. induction ds as [|d t IH]; intros [|x idx] i L Hi; simpl in *; try lia.
  destruct i as [|i]; [reflexivity|]. apply IH; lia.
Qed.

(* --- a[grid] ------------------------------------------------------------------------------------------------- *)
Theorem np_take_valid_grid ds data :
  reads (np_take_grid (mkArr (raw_shape ds) data) (valid_grid ds))
        (map nvalid ds) (take_valid_ord ds (of_flat (raw_shape ds) data)).
Proof.
  set (order := dimension_order ds).
  set (F := fun i => map Z.of_nat (dvalid (nth i ds dflt_dimd))).
  assert (Lo : length order = length ds) by apply dimension_order_length.
  assert (Ho : forall i, In i order <-> i < length ds) by apply dimension_order_In.
  unfold reads, np_take_grid, valid_grid, raw_shape, permute. fold order.
  change (map (fun i => (i, map Z.of_nat (dvalid (nth i ds dflt_dimd)))) order)
    with (map (fun i => (i, F i)) order).
  cbn [pa_shape]. rewrite !map_length. rewrite Nat.ltb_irrefl.
  rewrite Lo.
  rewrite (sequence_pres_ok _ F).
  2:{ intros pos Hp. apply in_seq in Hp. unfold grid_component.
      rewrite (find_tagged F order pos) by (apply Ho; lia). reflexivity. }
  rewrite combine_map_same.
  rewrite map_map.
  rewrite (sequence_pres_ok _ (fun i => dvalid (nth i ds dflt_dimd))).
  2:{ intros i Hi. cbn [fst snd]. unfold F. apply grid_offsets_of_nat.
      intros x Hx. apply dvalid_In_lt in Hx.
      rewrite (nth_indep _ 0 (dsize dflt_dimd)) by (rewrite map_length; apply Ho; exact Hi).
      rewrite map_nth. exact Hx. }
  cbn [pbind].
  assert (Esh : map (@length Z) (map F (seq 0 (length ds))) = map nvalid ds).
  { rewrite map_map. unfold F. rewrite <- (map_nth_seq nvalid ds dflt_dimd).
    apply map_ext. intros i. rewrite map_length. reflexivity. }
  rewrite Esh.
  rewrite (skipn_all2 (n := length ds)) by (rewrite map_length, Lo; lia). rewrite app_nil_r.
  eexists. split; [reflexivity|]. split; [reflexivity|].
  intros idx Hb. unfold arr_get at 1. cbn [pa_shape pa_data].
  rewrite (of_flat_flatten _ _ _ Hb).
  unfold take_valid_ord, arr_get. cbn [pa_shape pa_data]. f_equal.
  assert (Li : length idx = length ds).
  { apply in_boundsb_length in Hb. rewrite map_length in Hb. lia. }
  rewrite (skipn_all2 (n := length ds)) by lia. rewrite app_nil_r.
  rewrite combine_map_same, map_map. cbn [fst snd]. unfold permute. fold order.
  apply map_ext_in. intros i Hi. symmetry. apply nth_remap.
  - exact Li.
  - apply Ho. exact Hi.
Qed.
