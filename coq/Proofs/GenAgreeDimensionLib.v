(* GenAgreeDimensionLib: lemmas about the Python-semantics combinators (Base/PyList.v, Base/PyDict.v,
   Model/PyDimension.v) the generated text of Gen/DimensionSrc.v is built from, in the form the agreement
   proofs (GenAgreeDimension*.v) use them - every lemma about a loop / comprehension takes the generated
   closure as a VARIABLE with a pointwise hypothesis, so that renaming a local or introducing a temporary in
   the source re-proves - and the first members every other one reads: _build_element_id,
   Element.element_id, Elements.element_ids.

   [wf_elems els ids]: the Elements object [els] consists of elements whose dicts ARE dicts and whose
   element ids - the key _build_element_id picks for the dimension type - are the identifiers [ids]. *)
From Coq Require Import List ZArith String Bool Lia Arith.
From CC Require Import Base.XQ Base.Ident Base.PyList Base.PyDict Model.DimType Model.PyDimension
  Gen.DimensionSrc.
Import ListNotations.
Local Close Scope Q_scope.
Local Open Scope Z_scope.

(* --- tactics -------------------------------------------------------------------------------- *)
(* [dep lem src]: the member under proof reads member [src], whose agreement lemma is [lem] *)
Ltac dep lem src :=
  generalize lem; destruct src; [intro | intros _; exact I].
Ltac gen_open := cbv beta iota; intros.
(* a goal dispatch / numbered selector in a proof whose member is unavailable (no goal is left) *)
Ltac zero_ok := let n := numgoals in guard n = 0.
Ltac msimpl := cbn [Collator.bind of_option py_try py_try_step existsb Z.eqb Pos.eqb orb andb negb
                    st_subtotal_dict st_valid_elements ss_insertion_dicts ss_valid_elements ss_from_view
                    el_element_dict el_index el_element_transforms el_dim_type xf_element_transforms_dict
                    dm_dimension_type dm_dimension_dict dm_dimension_transforms_dict
                    os_dimension os_dimension_transforms_dict
                    sh_dimension_type sh_dimension_dict sh_dimension_transforms_dict].

(* --- the exception monad --------------------------------------------------------------------- *)
Lemma bind_ret {A} (r : res A) : bind r (fun x => Ok x) = r.
Proof. destruct r; reflexivity. Qed.

Lemma bind_assoc {A B C} (r : res A) (f : A -> res B) (g : B -> res C) :
  bind (bind r f) g = bind r (fun x => bind (f x) g).
Proof. destruct r; reflexivity. Qed.

Lemma bind_ext {A B} (r : res A) (f g : A -> res B) : (forall x, f x = g x) -> bind r f = bind r g.
Proof. intros H. destruct r; simpl; auto. Qed.

Definition opt_list {A} (o : option A) : list A := match o with Some y => [y] | None => [] end.

Lemma py_compM_ok {A B} (f : A -> res (option B)) (g : A -> option B) l :
  (forall x, In x l -> f x = Ok (g x)) -> py_compM f l = Ok (flat_map (fun x => opt_list (g x)) l).
Proof.
  induction l as [|x t IH]; intros H; simpl; auto.
  rewrite H by (simpl; auto). cbn [Collator.bind]. rewrite IH by (intros; apply H; simpl; auto).
  cbn [Collator.bind]. destruct (g x); reflexivity.
Qed.

Lemma flat_map_some {A B} (g : A -> B) l : flat_map (fun x => opt_list (Some (g x))) l = map g l.
Proof. induction l as [|x t IH]; simpl in *; [reflexivity|]. rewrite IH. reflexivity. Qed.

Lemma flat_map_filter {A} (p : A -> bool) l :
  flat_map (fun x => opt_list (if p x then Some x else None)) l = filter p l.
Proof. induction l as [|x t IH]; simpl; [reflexivity|]. rewrite IH. destruct (p x); reflexivity. Qed.

Lemma flat_map_filter_map {A B} (p : A -> bool) (g : A -> B) l :
  flat_map (fun x => opt_list (if p x then Some (g x) else None)) l = map g (filter p l).
Proof. induction l as [|x t IH]; simpl; [reflexivity|]. rewrite IH. destruct (p x); reflexivity. Qed.

(* [e for x in xs]: every item evaluates *)
Lemma py_compM_map {A B} (f : A -> res (option B)) (g : A -> B) l :
  (forall x, In x l -> f x = Ok (Some (g x))) -> py_compM f l = Ok (map g l).
Proof. intros H. rewrite (py_compM_ok f (fun x => Some (g x))) by exact H. rewrite flat_map_some. reflexivity. Qed.

(* [x for x in xs if p x] *)
Lemma py_compM_filter {A} (f : A -> res (option A)) (p : A -> bool) l :
  (forall x, In x l -> f x = Ok (if p x then Some x else None)) -> py_compM f l = Ok (filter p l).
Proof.
  intros H. rewrite (py_compM_ok f (fun x => if p x then Some x else None)) by exact H.
  rewrite flat_map_filter. reflexivity.
Qed.

Lemma py_compM_filter_map {A B} (f : A -> res (option B)) (p : A -> bool) (g : A -> B) l :
  (forall x, In x l -> f x = Ok (if p x then Some (g x) else None)) -> py_compM f l = Ok (map g (filter p l)).
Proof.
  intros H. rewrite (py_compM_ok f (fun x => if p x then Some (g x) else None)) by exact H.
  rewrite flat_map_filter_map. reflexivity.
Qed.

Lemma py_compM_forall2 {A B C} (f : A -> res (option B)) (R : A -> C -> Prop) (g : C -> B) l l' :
  Forall2 R l l' -> (forall x y, R x y -> f x = Ok (Some (g y))) -> py_compM f l = Ok (map g l').
Proof.
  intros HR H. induction HR as [|x y xs ys Hxy _ IH]; [reflexivity|].
  cbn [py_compM map]. rewrite (H x y Hxy). cbn [Collator.bind]. rewrite IH. reflexivity.
Qed.

(* a generator as a fold over the yield accumulator *)
Lemma py_foldM_filter {A} (f : list A -> A -> res (list A)) (p : A -> bool) l y0 :
  (forall y x, In x l -> f y x = Ok (if p x then y ++ [x] else y)) ->
  py_foldM f l y0 = Ok (y0 ++ filter p l).
Proof.
  revert y0. induction l as [|x t IH]; intros y0 H; simpl.
  - rewrite app_nil_r. reflexivity.
  - rewrite H by (simpl; auto). simpl. rewrite IH by (intros; apply H; simpl; auto).
    destruct (p x); simpl; [rewrite <- app_assoc|]; reflexivity.
Qed.

Lemma py_foldM_ok {S A} (f : S -> A -> res S) (g : S -> A -> S) l s :
  (forall s x, In x l -> f s x = Ok (g s x)) -> py_foldM f l s = Ok (fold_left g l s).
Proof.
  revert s. induction l as [|x t IH]; intros s H; simpl; auto.
  rewrite H by (simpl; auto). simpl. apply IH. intros; apply H; simpl; auto.
Qed.

Lemma py_allM_ok {A} (f : A -> res bool) (g : A -> bool) l :
  (forall x, In x l -> f x = Ok (g x)) -> py_allM f l = Ok (forallb g l).
Proof.
  induction l as [|x t IH]; intros H; simpl; auto.
  rewrite H by (simpl; auto). simpl. destruct (g x); simpl; auto. apply IH. intros; apply H; simpl; auto.
Qed.

(* --- JSON values ------------------------------------------------------------------------------- *)
Lemma jv_in_py_in x l : PyList.py_in jv_eqb x l = jv_in x l.
Proof. reflexivity. Qed.

Lemma jv_in_idents' x l : PyList.py_in jv_eqb (jv_of_ident x) (map jv_of_ident l) = Ident.py_in x l.
Proof. apply jv_in_idents. Qed.

Lemma jv_eqb_sym_ident a b : jv_eqb (jv_of_ident a) (jv_of_ident b) = jv_eqb (jv_of_ident b) (jv_of_ident a).
Proof. rewrite !jv_eqb_ident. destruct a, b; simpl; auto using Z.eqb_sym, String.eqb_sym. Qed.

Lemma forallb_hashable_idents l : forallb jv_hashable (map jv_of_ident l) = true.
Proof. induction l as [|x t IH]; simpl; auto. rewrite jv_hashable_ident. exact IH. Qed.

Lemma jv_eqb_str_l s v : jv_eqb (JStr s) v = match v with JStr t => String.eqb s t | _ => false end.
Proof. destruct v; reflexivity. Qed.


Lemma jd_get_set_str d k v k' :
  jd_get (jd_set d (JStr k) v) (JStr k') = if String.eqb k k' then Some v else jd_get d (JStr k').
Proof.
  unfold jd_get, jd_set. induction d as [|[k0 v0] t IH]; cbn [py_dict_set py_dict_get].
  - rewrite jv_eqb_str_l. reflexivity.
  - rewrite !jv_eqb_str_r. destruct k0; cbn [py_dict_get]; rewrite ?jv_eqb_str_r; try exact IH.
    destruct (String.eqb s k) eqn:E1; cbn [py_dict_get]; rewrite jv_eqb_str_r.
    + apply String.eqb_eq in E1. subst s. destruct (String.eqb k k'); reflexivity.
    + destruct (String.eqb s k') eqn:E2; [|exact IH].
      apply String.eqb_eq in E2. subst s. rewrite String.eqb_sym, E1. reflexivity.
Qed.


(* d["k"]: KeyError when the key is absent *)
Lemma pj_getitem_dict d k : pj_getitem (JDict d) (JStr k) = of_option KeyError (jd_get d (JStr k)).
Proof. reflexivity. Qed.

(* --- element ids --------------------------------------------------------------------------------- *)
(* the key of an element dict _build_element_id reads for a dimension type *)
Definition element_id_key (d : jdict) (t : dtype) : string :=
  if dtype_eqb t TDatetime && jd_mem d (JStr "datetime_value") then "datetime_value"
  else if dt_in t [TCaSubvar; TMrSubvar; TNumArr] && jd_mem d (JStr "subvar_alias") then "subvar_alias"
  else "id".

Definition wf_elem (e : pyelement) (i : ident) : Prop :=
  exists d, el_element_dict e = JDict d /\
            jd_get d (JStr (element_id_key d (el_dim_type e))) = Some (jv_of_ident i).
Definition wf_elems (els : pyelements) (ids : list ident) : Prop := Forall2 wf_elem els ids.

Lemma gen_fn__build_element_id :
  match src_fn__build_element_id with
  | Some f => forall d t,
      f (JDict d) t = of_option KeyError (jd_get d (JStr (element_id_key d t)))
  | None => True end.
Proof.
  unfold src_fn__build_element_id.
  first [exact I |
  destruct src_DT_ARRAY_TYPES as [arr|] eqn:Earr; [|exact I];
  gen_open;
  unfold src_DT_ARRAY_TYPES in Earr; inversion Earr; subst arr;
  unfold element_id_key, pj_contains, pj_getitem, dt_in; cbn [jv_hashable];
  change (PyList.py_in dtype_eqb t [DT_CA_SUBVAR; DT_MR_SUBVAR; DT_NUM_ARRAY])
    with (existsb (dtype_eqb t) [TCaSubvar; TMrSubvar; TNumArr]);
  unfold DT_DATETIME;
  destruct (dtype_eqb t TDatetime); cbn [andb bind];
  [destruct (jd_mem d (JStr "datetime_value")); cbn [bind]; [rewrite bind_ret; reflexivity|] |];
  (destruct (existsb (dtype_eqb t) [TCaSubvar; TMrSubvar; TNumArr]); cbn [andb bind];
   [destruct (jd_mem d (JStr "subvar_alias")); cbn [bind]|]; rewrite bind_ret; reflexivity)].
Qed.

Lemma gen_Element_element_id :
  match src_Element_element_id with
  | Some f => forall e i, wf_elem e i -> f e = Ok (jv_of_ident i)
  | None => True end.
Proof.
  unfold src_Element_element_id.
  first [exact I |
  dep gen_fn__build_element_id src_fn__build_element_id;
  gen_open;
  match goal with H : wf_elem _ _ |- _ => destruct H as (d & Hd & Hg) end;
  rewrite Hd, H, Hg; reflexivity].
Qed.

Lemma wf_elems_In els ids e : wf_elems els ids -> In e els -> exists i, wf_elem e i.
Proof.
  intros H. induction H as [|x i xs is Hx _ IH]; simpl; [tauto|].
  intros [->|Hin]; [exists i; exact Hx | auto].
Qed.

Lemma gen_Elements_element_ids :
  match src_Elements_element_ids with
  | Some f => forall els ids, wf_elems els ids -> f els = Ok (map jv_of_ident ids)
  | None => True end.
Proof.
  unfold src_Elements_element_ids.
  first [exact I |
  dep gen_Element_element_id src_Element_element_id;
  gen_open;
  rewrite bind_ret;
  match goal with Hw : wf_elems _ _ |- _ => apply (py_compM_forall2 _ _ _ _ _ Hw) end;
  intros x y Hxy; rewrite (H x y Hxy); reflexivity].
Qed.

Lemma wf_elems_length els ids : wf_elems els ids -> List.length els = List.length ids.
Proof. intros H. induction H; simpl; auto. Qed.
