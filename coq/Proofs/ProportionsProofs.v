(* Proofs about Model/Proportions.v – the lemma family behind property C03. *)
From Coq Require Import QArith ZArith List Bool Lia Arith Setoid Morphisms.
From CC Require Import Base.XQ Base.ListX Model.Subtotals Model.Proportions.
Import ListNotations.
Local Close Scope Q_scope.
Local Open Scope nat_scope.

(* ---- count over base: bounded, NaN exactly when the base is zero ------------------- *)
Lemma prop_bounds (c b : Q) : (0 <= c)%Q -> (c <= b)%Q ->
  match xdiv (Fin c) (Fin b) with
  | NaN => (b == 0)%Q
  | Fin p => (0 <= p)%Q /\ (p <= 1)%Q /\ ~ (b == 0)%Q
  | Inf _ => False
  end.
Proof.
  intros H0 Hcb. simpl. destruct (qzero b) eqn:Eb.
  - apply qzero_true in Eb.
    assert (Hc : (c == 0)%Q). { apply Qle_antisym; auto. rewrite <- Eb. exact Hcb. }
    apply qzero_true in Hc. rewrite Hc. apply qzero_true. apply qzero_true in Hc.
    apply qzero_true. exact Eb.
  - apply qzero_false in Eb.
    assert (Hb : (0 < b)%Q).
    { destruct (Qlt_le_dec 0 b) as [L|L]; auto. exfalso. apply Eb.
      apply Qle_antisym; auto. apply Qle_trans with c; auto. }
    split; [|split; [|exact Eb]].
    + apply Qle_shift_div_l; auto. rewrite Qmult_0_l. exact H0.
    + apply Qle_shift_div_r; auto. rewrite Qmult_1_l. exact Hcb.
Qed.

Lemma prop_nan_iff (c b : Q) : (0 <= c)%Q -> (c <= b)%Q ->
  (xdiv (Fin c) (Fin b) = NaN <-> (b == 0)%Q).
Proof.
  intros H0 Hcb. pose proof (prop_bounds c b H0 Hcb) as H.
  destruct (xdiv (Fin c) (Fin b)) eqn:E.
  - split; [discriminate|]. intros Hb. destruct H as [_ [_ Hn]]. contradiction.
  - contradiction.
  - split; auto.
Qed.

(* ---- proportions along a categorical dimension sum to one -------------------------- *)
Lemma props_sum_one (l : list Q) (b : Q) :
  (qsum l == b)%Q -> ~ (b == 0)%Q ->
  xsum (map (fun c => xdiv (Fin c) (Fin b)) l) =x= Fin 1.
Proof.
  intros Hs Hb.
  assert (E : forall l', exists s, xsum (map (fun c => xdiv (Fin c) (Fin b)) l') = Fin s
                                   /\ (s == qsum l' / b)%Q).
  { induction l' as [|c t IH].
    - exists 0%Q. split; [reflexivity|]. simpl. unfold Qdiv. rewrite Qmult_0_l. reflexivity.
    - destruct IH as [s [Hs1 Hs2]]. exists (c / b + s)%Q. split.
      + cbn [map xsum fold_right]. fold (xsum (map (fun c0 => xdiv (Fin c0) (Fin b)) t)).
        rewrite Hs1. rewrite xdiv_fin by exact Hb. reflexivity.
      + rewrite Hs2. simpl. unfold Qdiv. ring. }
  destruct (E l) as [s [Hs1 Hs2]]. rewrite Hs1. simpl. rewrite Hs2, Hs. field. exact Hb.
Qed.

(* ---- percentages --------------------------------------------------------------------- *)
Lemma pct_fin p : pct (Fin p) = Fin (p * 100).
Proof. reflexivity. Qed.
Lemma pct_nan : pct NaN = NaN.
Proof. reflexivity. Qed.

(* ---- pointwise definition of the proportion blocks ------------------------------------ *)
Section Pointwise.
  Variable nr nc : nat.
  Variable rsubs csubs : list subtotal.
  Variable cnt bb : blocks.
  Variable bases counts : mat.
  Variable rows_date cols_date : bool.
  Let P := props_of nr nc rsubs csubs cnt bb bases counts rows_date cols_date.

  Lemma props_base i j : i < nr -> j < nc ->
    mnth (b_base P) i j = xdiv (mnth (b_base cnt) i j) (mnth (b_base bb) i j).
  Proof. intros. unfold P, props_of, div_blocks; simpl. rewrite tab2_mnth; auto. Qed.

  Lemma props_inter k l : k < length rsubs -> l < length csubs ->
    mnth (b_inter P) k l = xdiv (mnth (b_inter cnt) k l) (mnth (b_inter bb) k l).
  Proof. intros. unfold P, props_of, div_blocks; simpl. rewrite tab2_mnth; auto. Qed.

  (* an inserted column: count over base, unless the columns dimension is categorical-date
     and the subtotal is a difference (then: difference of the two percentages for a
     one-minus-one difference, NaN for several terms on either side) *)
  Lemma props_cols i l : i < nr -> l < length csubs ->
    let s := nth l csubs nosub in
    mnth (b_cols P) i l =
      if cols_date && has_subs s then
        if multiple_terms s then NaN
        else xsub (xdiv (sum_cols counts i (s_add s)) (sum_cols bases i (s_add s)))
                  (xdiv (sum_cols counts i (s_sub s)) (sum_cols bases i (s_sub s)))
      else xdiv (mnth (b_cols cnt) i l) (mnth (b_cols bb) i l).
  Proof.
    intros Hi Hl s. unfold P, props_of; simpl. rewrite tab2_mnth by assumption.
    unfold wave_col_cell. fold s. unfold div_blocks; simpl. rewrite tab2_mnth by assumption.
    reflexivity.
  Qed.

  Lemma props_rows k j : k < length rsubs -> j < nc ->
    let s := nth k rsubs nosub in
    mnth (b_rows P) k j =
      if rows_date && has_subs s then
        if multiple_terms s then NaN
        else xsub (xdiv (sum_rows counts (s_add s) j) (sum_rows bases (s_add s) j))
                  (xdiv (sum_rows counts (s_sub s) j) (sum_rows bases (s_sub s) j))
      else xdiv (mnth (b_rows cnt) k j) (mnth (b_rows bb) k j).
  Proof.
    intros Hk Hj s. unfold P, props_of; simpl. rewrite tab2_mnth by assumption.
    unfold wave_row_cell. fold s. unfold div_blocks; simpl. rewrite tab2_mnth by assumption.
    reflexivity.
  Qed.
End Pointwise.

(* a one-minus-one difference on a categorical-date dimension really is the difference of
   the two cells' percentages *)
Lemma wave_one_minus_one bases counts a s i :
  xsub (xdiv (sum_cols counts i [a]) (sum_cols bases i [a]))
       (xdiv (sum_cols counts i [s]) (sum_cols bases i [s]))
  =x= xsub (xdiv (mnth counts i a) (mnth bases i a)) (xdiv (mnth counts i s) (mnth bases i s)).
Proof.
  unfold sum_cols. simpl. rewrite !xadd_0_r. reflexivity.
Qed.

(* strand *)
Lemma strand_props_base_nth counts bases i : i < length counts ->
  vnth (strand_props_base counts bases) i = xdiv (vnth counts i) (vnth bases i).
Proof. intros H. unfold strand_props_base. apply tab_vnth. exact H. Qed.
