(* Proofs/GenAgreeIndex.v -- GenAgree for C16: what matrix/measure.py SAYS NOW for
   _ColumnIndex._column_index  ( 100 * ((counts / column weighted base) / baseline) on the base
   blocks of SecondOrderMeasures.weighted_counts and column_weighted_bases and the
   unconditional cube counts' baseline ) and for the four blocks of
   SecondOrderMeasures.column_index (NanSubtotals) denotes [column_index_cell] of
   Model/CubeCounts.v, the definition C16_column_index is about.  The baseline is an array of
   shape (rows, 1) or (rows, columns) (MR columns): both are covered ([cmr]).
   See GenAgreeMeasTac.v. *)
From Coq Require Import QArith ZArith List Bool Lia Arith String.
From CC Require Import Base.XQ Base.ListX Base.MeasureExp
     Model.Subtotals Model.Proportions Model.Variance Model.CubeCounts
     Gen.MeasureSrc Proofs.GenAgreeMeasTac.
Import ListNotations.
Local Close Scope Q_scope.
Local Open Scope string_scope.
Local Open Scope nat_scope.

Definition index_cube (cmr : bool) (bl : nat -> nat -> xq) (c a : string) : mval :=
  if String.eqb c "unconditional_cube_counts" && String.eqb a "baseline"
  then (if cmr then VMat DR DC bl else VMat DR D1 bl)
  else VErr.

Definition index_model (blk : string -> nat -> nat -> list (list xq)) (cmr : bool)
           (bl : nat -> nat -> xq) (i j : nat) : xq :=
  column_index_cell (mnth (blk "weighted_counts" 0 0) i j)
                    (mnth (blk "column_weighted_bases" 0 0) i j)
                    (bl i (if cmr then j else 0)).

Ltac gen_index :=
  gen_meas_core ltac:(cbv [index_cube andb String.eqb Ascii.eqb Bool.eqb];
                      match goal with cmr : bool |- _ => destruct cmr end)
                ltac:(unfold nan_blocks; cbn [b_base b_cols b_rows b_inter];
                      unfold index_model, column_index_cell).

Lemma gen_ColumnIndex__column_index :
  match src_ColumnIndex__column_index with
  | Some e => forall nr nc rsubs csubs rd cd blk cubem cubeflag flag (cmr : bool) bl,
      holds_mat (menv_std nr nc rsubs csubs rd cd blk cubem (index_cube cmr bl) cubeflag flag) e DR DC
        (index_model blk cmr bl)
  | None => True
  end.
Proof. gen_index. Qed.

Lemma gen_ColumnIndex_blocks_00 :
  match src_ColumnIndex_blocks_00 with
  | Some e => forall nr nc rsubs csubs rd cd blk cubem cubeflag flag (cmr : bool) bl,
      holds_mat (menv_std nr nc rsubs csubs rd cd blk cubem (index_cube cmr bl) cubeflag flag) e DR DC
        (mnth (b_base (nan_blocks (tab2 nr nc (index_model blk cmr bl)) nr nc rsubs csubs)))
  | None => True
  end.
Proof. gen_index. Qed.

Lemma gen_ColumnIndex_blocks_01 :
  match src_ColumnIndex_blocks_01 with
  | Some e => forall nr nc rsubs csubs rd cd blk cubem cubeflag flag (cmr : bool) bl,
      holds_mat (menv_std nr nc rsubs csubs rd cd blk cubem (index_cube cmr bl) cubeflag flag) e DR DCS
        (mnth (b_cols (nan_blocks (tab2 nr nc (index_model blk cmr bl)) nr nc rsubs csubs)))
  | None => True
  end.
Proof. gen_index. Qed.

Lemma gen_ColumnIndex_blocks_10 :
  match src_ColumnIndex_blocks_10 with
  | Some e => forall nr nc rsubs csubs rd cd blk cubem cubeflag flag (cmr : bool) bl,
      holds_mat (menv_std nr nc rsubs csubs rd cd blk cubem (index_cube cmr bl) cubeflag flag) e DRS DC
        (mnth (b_rows (nan_blocks (tab2 nr nc (index_model blk cmr bl)) nr nc rsubs csubs)))
  | None => True
  end.
Proof. gen_index. Qed.

Lemma gen_ColumnIndex_blocks_11 :
  match src_ColumnIndex_blocks_11 with
  | Some e => forall nr nc rsubs csubs rd cd blk cubem cubeflag flag (cmr : bool) bl,
      holds_mat (menv_std nr nc rsubs csubs rd cd blk cubem (index_cube cmr bl) cubeflag flag) e DRS DCS
        (mnth (b_inter (nan_blocks (tab2 nr nc (index_model blk cmr bl)) nr nc rsubs csubs)))
  | None => True
  end.
Proof. gen_index. Qed.
