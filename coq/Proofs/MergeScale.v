(* Proofs/MergeScale.v -- C04: the scale statistics of a subtotal are those of the merged category.

   ROW subtotal kk (no subtrahends) of a slice with categorical rows and categorical or MR columns:
   the kk-th SUBTOTAL entry of rows_scale_mean / rows_scale_mean_stddev^2 / rows_scale_mean_stderr^2 /
   rows_scale_median (Model/ScaleOrient.v, ROWS orientation: counts / row bases over all base
   columns, the column-comparable counts, margin = the row's base, any numeric values of the columns)
   equals the BASE entry of the merged category in the table tabulated from the recoded survey.
   COLUMN subtotal l: the mirror with the COLUMNS orientation.

   The statistics are defined (Some) or undefined (None) together - that only depends on the numeric
   values.  Mean, std-dev^2, std-err^2 up to Qeq; the median is EQUAL.  No new assumption. *)
From Coq Require Import QArith ZArith List Bool Lia Arith Setoid Morphisms.
From CC Require Import Base.XQ Base.ListX Spec.Survey Spec.Merge Model.CubeCounts Model.Subtotals
     Model.Proportions Model.Scale Model.ScaleOrient
     Proofs.CubeCountsProofs Proofs.MergeSurvey Proofs.MergeMeasures Proofs.ComposeMerge
     Proofs.ScaleCongr Proofs.ScaleOrientCongr.
Import ListNotations.
Local Close Scope Q_scope.
Local Open Scope nat_scope.

(* subtotal entry k of marginal [a] against base entry i of marginal [b] *)
Definition sub_vs_base (R : xq -> xq -> Prop) (a b : marginal) (k i : nat) : Prop :=
  match a, b with
  | Some (_, v), Some (u, _) => R (vnth v k) (vnth u i)
  | None, None => True
  | _, _ => False
  end.

(* ==================================================================================== *)
(** * ROW subtotal *)
Section RowScale.
  Variable S : survey.
  Variable tv : tvar.
  Variables vr vc : nat.
  Variable kc : kind.
  Variables ms mc : list bool.
  Variable k : nat.
  Variables rsubs csubs rsubs' csubs' : list subtotal.
  Variable kk : nat.
  Variables dn dn' : bool.
  Hypothesis Ht : t_ok tv.
  Hypothesis Hc : cat_or_mr kc.
  Hypothesis Hk : k < t_n tv.
  Hypothesis Hvar : vc <> vr.
  Hypothesis Htv : tv_other tv vr.
  Hypothesis Hkk : kk < length rsubs.
  Let s := nth kk rsubs nosub.
  Hypothesis Hsub : s_sub s = [].
  Hypothesis Hoffs : Forall (fun i => i < n_valid ms) (s_add s).
  Hypothesis Hnd : NoDup (s_add s).
  Hypothesis Hfresh : fresh_for vr ms S.
  Hypothesis Hpos : 0 < n_valid ms.
  Variable vals : list xq.            (* numeric values of the columns dimension *)
  Variable mdef : bool.

  Let nr := nval ms.
  Let nc := nval mc.
  Let nr' := Datatypes.S nr.
  Notation OC := (o_counts S tv vr vc kc ms mc k).
  Notation ORB := (o_rb S tv vr vc kc ms mc k).
  Notation MC := (m_counts S tv vr vc kc ms mc k rsubs kk).
  Notation MRB := (m_rb S tv vr vc kc ms mc k rsubs kk).

  Let Hnr : nr < nr' := Nat.lt_succ_diag_r nr.

  Lemma cell_counts j : j < nc ->
    mnth (b_rows (count_blocks nr nc rsubs csubs OC dn)) kk j
    =x= mnth (b_base (count_blocks nr' nc rsubs' csubs' MC dn')) nr j.
  Proof.
    intros Hj. rewrite count_blocks_base.
    apply (merge_block_counts S tv vr vc kc ms mc k rsubs csubs kk dn Ht Hc Hk Hvar Htv Hkk Hsub Hoffs Hnd
             Hfresh Hpos j Hj).
  Qed.

  Lemma cell_row_bases j : j < nc ->
    mnth (b_rows (row_base_blocks nr nc rsubs csubs ORB)) kk j
    =x= mnth (b_base (row_base_blocks nr' nc rsubs' csubs' MRB)) nr j.
  Proof.
    intros Hj. rewrite row_base_blocks_base.
    apply (merge_block_row_bases S tv vr vc kc ms mc k rsubs csubs kk Ht Hc Hk Hvar Htv Hkk Hsub Hoffs Hnd
             Hfresh Hpos j Hj).
  Qed.

  (* the column-comparable counts: a plain subtotal is not overridden *)
  Lemma cell_comparable j : j < nc ->
    mnth (b_rows (column_comparable_counts nr nc rsubs csubs OC)) kk j
    =x= mnth (b_base (column_comparable_counts nr' nc rsubs' csubs' MC)) nr j.
  Proof.
    intros Hj. unfold column_comparable_counts, sum_blocks. cbn [b_rows b_base].
    rewrite (tab2_mnth _ _ _ kk j Hkk Hj).
    apply (A_counts S tv vr vc kc ms mc k rsubs kk Ht Hc Hk Hvar Htv Hkk Hsub Hoffs Hnd Hfresh Hpos j Hj true).
  Qed.

  (* the margin of the vector: its row base (column 0) *)
  Lemma cell_margin :
    mnth (b_rows (row_base_blocks nr nc rsubs csubs ORB)) kk 0
    =x= mnth (b_base (row_base_blocks nr' nc rsubs' csubs' MRB)) nr 0.
  Proof.
    destruct (Nat.eq_dec nc 0) as [E|E].
    - rewrite row_base_blocks_base. unfold row_base_blocks, m_rb. cbn [b_rows].
      fold nc. rewrite E. rewrite !tab2_mnth_out by (right; lia). reflexivity.
    - apply cell_row_bases. lia.
  Qed.

  Lemma mean_entry :
    vnth (snd (rows_scale_mean_blocks nr nc rsubs csubs OC dn ORB vals)) kk
    =x= vnth (fst (rows_scale_mean_blocks nr' nc rsubs' csubs' MC dn' MRB vals)) nr.
  Proof.
    unfold rows_scale_mean_blocks. cbn [fst snd].
    apply rows_mean_entry; [exact Hkk| exact Hnr| exact cell_counts| exact cell_row_bases].
  Qed.

  Lemma var_entry : length vals = nc ->
    vnth (snd (rows_scale_var_blocks nr nc rsubs csubs OC dn ORB vals)) kk
    =x= vnth (fst (rows_scale_var_blocks nr' nc rsubs' csubs' MC dn' MRB vals)) nr.
  Proof.
    intros Hv. unfold rows_scale_var_blocks. cbn [fst snd].
    apply (rows_var_entry (length rsubs) nr' nc vals kk nr Hkk Hnr); [exact Hv| exact cell_comparable| exact mean_entry].
  Qed.

  Theorem merge_rows_scale_mean :
    sub_vs_base xeq (rows_scale_mean nr nc rsubs csubs OC dn ORB vals)
                    (rows_scale_mean nr' nc rsubs' csubs' MC dn' MRB vals) kk nr.
  Proof.
    unfold rows_scale_mean, sub_vs_base. destruct (any_value vals); [|exact I].
    pose proof mean_entry as H.
    destruct (rows_scale_mean_blocks nr nc rsubs csubs OC dn ORB vals) as [u v].
    destruct (rows_scale_mean_blocks nr' nc rsubs' csubs' MC dn' MRB vals) as [u' v']. exact H.
  Qed.

  Theorem merge_rows_scale_stddev_sq : length vals = nc ->
    sub_vs_base xeq (rows_scale_stddev_sq nr nc rsubs csubs OC dn ORB vals)
                    (rows_scale_stddev_sq nr' nc rsubs' csubs' MC dn' MRB vals) kk nr.
  Proof.
    intros Hv. unfold rows_scale_stddev_sq, sub_vs_base. destruct (any_value vals); [|exact I].
    pose proof (var_entry Hv) as H.
    destruct (rows_scale_var_blocks nr nc rsubs csubs OC dn ORB vals) as [u v].
    destruct (rows_scale_var_blocks nr' nc rsubs' csubs' MC dn' MRB vals) as [u' v']. exact H.
  Qed.

  Theorem merge_rows_scale_stderr_sq : length vals = nc ->
    sub_vs_base xeq (rows_scale_stderr_sq nr nc rsubs csubs OC dn ORB vals mdef)
                    (rows_scale_stderr_sq nr' nc rsubs' csubs' MC dn' MRB vals mdef) kk nr.
  Proof.
    intros Hv. unfold rows_scale_stderr_sq, sub_vs_base. destruct (any_value vals && mdef); [|exact I].
    apply rows_stderr_entry; [exact Hkk| exact Hnr| exact (var_entry Hv)| exact cell_margin].
  Qed.

  Theorem merge_rows_scale_median ord : Forall (fun j => j < nc) ord ->
    sub_vs_base eq (rows_scale_median nr nc rsubs csubs OC vals ord)
                   (rows_scale_median nr' nc rsubs' csubs' MC vals ord) kk nr.
  Proof.
    intros Ho. unfold rows_scale_median, sub_vs_base. destruct (any_value vals); [|exact I].
    apply (rows_median_entry (length rsubs) nr' nc vals kk nr Hkk Hnr ord); [exact Ho| exact cell_comparable].
  Qed.
End RowScale.

(* ==================================================================================== *)
(** * COLUMN subtotal *)
Section ColScale.
  Variable S : survey.
  Variable tv : tvar.
  Variables vr vc : nat.
  Variable kr : kind.
  Variables mr ms : list bool.       (* rows flags; flags of the merged COLUMNS variable *)
  Variable k : nat.
  Variables rsubs csubs rsubs' csubs' : list subtotal.
  Variable l : nat.
  Variables dn dn' : bool.
  Hypothesis Ht : t_ok tv.
  Hypothesis Hr : cat_or_mr kr.
  Hypothesis Hk : k < t_n tv.
  Hypothesis Hvar : vr <> vc.
  Hypothesis Htv : tv_other tv vc.
  Hypothesis Hl : l < length csubs.
  Let s := nth l csubs nosub.
  Hypothesis Hsub : s_sub s = [].
  Hypothesis Hoffs : Forall (fun j => j < n_valid ms) (s_add s).
  Hypothesis Hnd : NoDup (s_add s).
  Hypothesis Hfresh : fresh_for vc ms S.
  Variable vals : list xq.            (* numeric values of the rows dimension *)
  Variable mdef : bool.

  Let nr := nval mr.
  Let nc := nval ms.
  Let nc' := Datatypes.S nc.
  Notation OC := (oc_counts S tv vr vc kr mr ms k).
  Notation OCB := (oc_cb S tv vr vc kr mr ms k).
  Notation MC := (mc_counts S tv vr vc kr mr ms k csubs l).
  Notation MCB := (mc_cb S tv vr vc kr mr ms k csubs l).

  Let Hnc : nc < nc' := Nat.lt_succ_diag_r nc.

  Lemma ccell_counts i : i < nr ->
    mnth (b_cols (count_blocks nr nc rsubs csubs OC dn)) i l
    =x= mnth (b_base (count_blocks nr nc' rsubs' csubs' MC dn')) i nc.
  Proof.
    intros Hi. rewrite count_blocks_base.
    apply (merge_col_block_counts S tv vr vc kr mr ms k rsubs csubs l dn Ht Hr Hk Hvar Htv Hl Hsub Hoffs Hnd
             Hfresh i Hi).
  Qed.

  Lemma ccell_col_bases i : i < nr ->
    mnth (b_cols (col_base_blocks nr nc rsubs csubs OCB)) i l
    =x= mnth (b_base (col_base_blocks nr nc' rsubs' csubs' MCB)) i nc.
  Proof.
    intros Hi. rewrite col_base_blocks_base.
    apply (merge_col_block_column_bases S tv vr vc kr mr ms k rsubs csubs l Ht Hr Hk Hvar Htv Hl Hsub Hoffs Hnd
             Hfresh i Hi).
  Qed.

  Lemma ccell_comparable i : i < nr ->
    mnth (b_cols (row_comparable_counts nr nc rsubs csubs OC)) i l
    =x= mnth (b_base (row_comparable_counts nr nc' rsubs' csubs' MC)) i nc.
  Proof.
    intros Hi. unfold row_comparable_counts, sum_blocks. cbn [b_cols b_base].
    rewrite (tab2_mnth _ _ _ i l Hi Hl).
    apply (Ac_counts S tv vr vc kr mr ms k csubs l Ht Hr Hk Hvar Htv Hsub Hoffs Hnd Hfresh i Hi true).
  Qed.

  Lemma ccell_margin :
    mnth (b_cols (col_base_blocks nr nc rsubs csubs OCB)) 0 l
    =x= mnth (b_base (col_base_blocks nr nc' rsubs' csubs' MCB)) 0 nc.
  Proof.
    destruct (Nat.eq_dec nr 0) as [E|E].
    - rewrite col_base_blocks_base. unfold col_base_blocks, mc_cb. cbn [b_cols].
      fold nr. rewrite E. rewrite !tab2_mnth_out by (left; lia). reflexivity.
    - apply ccell_col_bases. lia.
  Qed.

  Lemma cmean_entry :
    vnth (snd (columns_scale_mean_blocks nr nc rsubs csubs OC dn OCB vals)) l
    =x= vnth (fst (columns_scale_mean_blocks nr nc' rsubs' csubs' MC dn' MCB vals)) nc.
  Proof.
    unfold columns_scale_mean_blocks. cbn [fst snd].
    apply columns_mean_entry; [exact Hl| exact Hnc| exact ccell_counts| exact ccell_col_bases].
  Qed.

  Lemma cvar_entry : length vals = nr ->
    vnth (snd (columns_scale_var_blocks nr nc rsubs csubs OC dn OCB vals)) l
    =x= vnth (fst (columns_scale_var_blocks nr nc' rsubs' csubs' MC dn' MCB vals)) nc.
  Proof.
    intros Hv. unfold columns_scale_var_blocks. cbn [fst snd].
    apply (columns_var_entry nr (length csubs) nc' vals l nc Hl Hnc); [exact Hv| exact ccell_comparable| exact cmean_entry].
  Qed.

  Theorem merge_columns_scale_mean :
    sub_vs_base xeq (columns_scale_mean nr nc rsubs csubs OC dn OCB vals)
                    (columns_scale_mean nr nc' rsubs' csubs' MC dn' MCB vals) l nc.
  Proof.
    unfold columns_scale_mean, sub_vs_base. destruct (any_value vals); [|exact I].
    pose proof cmean_entry as H.
    destruct (columns_scale_mean_blocks nr nc rsubs csubs OC dn OCB vals) as [u v].
    destruct (columns_scale_mean_blocks nr nc' rsubs' csubs' MC dn' MCB vals) as [u' v']. exact H.
  Qed.

  Theorem merge_columns_scale_stddev_sq : length vals = nr ->
    sub_vs_base xeq (columns_scale_stddev_sq nr nc rsubs csubs OC dn OCB vals)
                    (columns_scale_stddev_sq nr nc' rsubs' csubs' MC dn' MCB vals) l nc.
  Proof.
    intros Hv. unfold columns_scale_stddev_sq, sub_vs_base. destruct (any_value vals); [|exact I].
    pose proof (cvar_entry Hv) as H.
    destruct (columns_scale_var_blocks nr nc rsubs csubs OC dn OCB vals) as [u v].
    destruct (columns_scale_var_blocks nr nc' rsubs' csubs' MC dn' MCB vals) as [u' v']. exact H.
  Qed.

  Theorem merge_columns_scale_stderr_sq : length vals = nr ->
    sub_vs_base xeq (columns_scale_stderr_sq nr nc rsubs csubs OC dn OCB vals mdef)
                    (columns_scale_stderr_sq nr nc' rsubs' csubs' MC dn' MCB vals mdef) l nc.
  Proof.
    intros Hv. unfold columns_scale_stderr_sq, sub_vs_base. destruct (any_value vals && mdef); [|exact I].
    apply columns_stderr_entry; [exact Hl| exact Hnc| exact (cvar_entry Hv)| exact ccell_margin].
  Qed.

  Theorem merge_columns_scale_median ord : Forall (fun i => i < nr) ord ->
    sub_vs_base eq (columns_scale_median nr nc rsubs csubs OC vals ord)
                   (columns_scale_median nr nc' rsubs' csubs' MC vals ord) l nc.
  Proof.
    intros Ho. unfold columns_scale_median, sub_vs_base. destruct (any_value vals); [|exact I].
    apply (columns_median_entry nr (length csubs) nc' vals l nc Hl Hnc ord); [exact Ho| exact ccell_comparable].
  Qed.
End ColScale.
