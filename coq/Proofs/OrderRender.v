(* The insertion-id ('ins_N') rendering of a display order names the same sequence as the signed
   one - for every collator, with or without subtotal pruning (property C07, last clause).
   Both renderings are produced by separately written code paths of the model
   ([display_order] / [display_order_bogus] of Model/Collator.v). *)
From Coq Require Import List ZArith Bool Lia Arith String.
From CC Require Import Base.SortX Spec.OrderSpec Model.Collator Proofs.OrderIds Proofs.OrderVisible.
Import ListNotations.
Local Open Scope nat_scope.

(* what a signed index is called in the insertion-id rendering *)
Definition render_entry (sids : list Z) (z : Z) : entry :=
  if Z.ltb z 0 then EIns (nth (Z.to_nat (Z.of_nat (List.length sids) + z)) sids 0%Z) else EBase z.

Lemma render_bogus_agrees' (sids : list Z) (order : list Z) :
  Forall (fun z => (- Z.of_nat (List.length sids) <= z)%Z) order ->
  render_bogus (order_mapping sids) order = Ok (map (render_entry sids) order).
Proof. exact (render_bogus_agrees sids order). Qed.

Lemma helper_order_bogus_bind d o empties :
  helper_order_bogus d o empties
  = bind (helper_order d o empties) (render_bogus (order_mapping (plain_bogus_ids d))).
Proof. destruct o as [k | s [[vals svals]|]]; reflexivity. Qed.

Lemma filter_render sids (l : list Z) :
  filter (fun e => negb (is_ins e)) (map (render_entry sids) l)
  = map (render_entry sids) (filter (fun z => Z.leb 0 z) l).
Proof.
  induction l as [|z t IH]; [reflexivity|].
  cbn [map filter].
  destruct (Z.leb 0 z) eqn:E'.
  - assert (Er : render_entry sids z = EBase z).
    { unfold render_entry. destruct (Z.ltb z 0) eqn:E; [|reflexivity].
      apply Z.ltb_lt in E. apply Z.leb_le in E'. lia. }
    rewrite Er. cbn [is_ins negb map]. rewrite Er, IH. reflexivity.
  - assert (Er : exists k, render_entry sids z = EIns k).
    { unfold render_entry. destruct (Z.ltb z 0) eqn:E; [eexists; reflexivity|].
      apply Z.ltb_ge in E. apply Z.leb_gt in E'. lia. }
    destruct Er as [k Er]. rewrite Er. cbn [is_ins negb]. exact IH.
Qed.

Theorem renderings_agree_display d o empties psub signed :
  NoDup (d_ids d) -> values_fit d o ->
  display_order d o empties psub = Ok signed ->
  display_order_bogus d o empties psub = Ok (map (render_entry (map fst (subtotals d))) signed).
Proof.
  intros N F. unfold display_order, display_order_bogus. rewrite helper_order_bogus_bind.
  unfold bind. destruct (helper_order d o empties) as [l|c] eqn:E; [|discriminate].
  intros H. inversion H; subst. clear H.
  assert (A : Forall (fun z => (- Z.of_nat (List.length (plain_bogus_ids d)) <= z)%Z) l).
  { apply Forall_forall. intros z Hz. unfold plain_bogus_ids. rewrite map_length.
    destruct (Z.ltb z 0) eqn:Ez.
    - apply Z.ltb_lt in Ez.
      apply (helper_subtotals_all_shown d o empties l z N F Ez E). exact Hz.
    - apply Z.ltb_ge in Ez. lia. }
  rewrite (render_bogus_agrees' _ _ A). unfold plain_bogus_ids.
  destruct psub; [rewrite filter_render|]; reflexivity.
Qed.

(* the former witness of the repaired defect: transform insertions listed in another order than
   the view's; the 'ins_N' rendering used to name B where the signed one names A *)
Lemma renderings_former_witness :
  let el := fun i => mkElem (IInt i) false DNone in
  let A := mkIns (Some 1%Z) (IInt 1%Z) true false [IInt 1%Z] in
  let B := mkIns (Some 2%Z) (IInt 2%Z) true false [IInt 1%Z] in
  let d := mkDim [el 1%Z; el 2%Z; el 3%Z] false [A; B] (Some [B; A]) [] false in
  anchored_display d OPayload [] = Ok [0; -1; 1; -2; 2]%Z /\
  anchored_display_bogus d OPayload [] = Ok [EBase 0; EIns 1; EBase 1; EIns 2; EBase 2]%Z.
Proof. cbv zeta. split; vm_compute; reflexivity. Qed.
