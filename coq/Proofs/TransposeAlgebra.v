(* Proofs/TransposeAlgebra.v -- the algebra C10 needs: (xq, xadd, Fin 0) is a commutative
   monoid up to =x= with xneg a homomorphism (NaN / infinities included), hence finite sums can
   be exchanged; nansum as a sum; forallb exchange; matrices and their transposes. *)
From Coq Require Import QArith ZArith List Bool Lia Arith Setoid Morphisms.
From CC Require Import Base.XQ Base.ListX Model.Subtotals Model.Transpose.
Import ListNotations.
Local Close Scope Q_scope.
Local Open Scope nat_scope.

(* ---- xadd / xneg / xsub ------------------------------------------------------------- *)
Lemma xneg_xadd a b : xneg (xadd a b) =x= xadd (xneg a) (xneg b).
Proof.
  destruct a as [p|[|]|], b as [q|[|]|]; simpl; auto; ring.
Qed.

Lemma xsub_0_r a : xsub a (Fin 0) =x= a.
Proof. destruct a; simpl; auto. ring. Qed.

Lemma xadd_swap a b c d : xadd (xadd a b) (xadd c d) =x= xadd (xadd a c) (xadd b d).
Proof.
  rewrite <- (xadd_assoc a b (xadd c d)).
  rewrite (xadd_assoc b c d).
  rewrite (xadd_comm b c).
  rewrite <- (xadd_assoc c b d).
  rewrite (xadd_assoc a c (xadd b d)).
  reflexivity.
Qed.

(* ---- sums over lists ------------------------------------------------------------------ *)
Lemma xsum_cons a l : xsum (a :: l) = xadd a (xsum l).
Proof. reflexivity. Qed.
Lemma xsum_nil : xsum [] = Fin 0.
Proof. reflexivity. Qed.
Ltac xs := cbn [map]; rewrite ?xsum_cons, ?xsum_nil.

Lemma xsum_map_ext_in {A} (f g : A -> xq) l :
  (forall x, In x l -> f x =x= g x) -> xsum (map f l) =x= xsum (map g l).
Proof.
  induction l as [|a t IH]; intros H; xs; [reflexivity|].
  rewrite (H a (or_introl eq_refl)). rewrite IH; [reflexivity|].
  intros x Hx. apply H. right. exact Hx.
Qed.

Lemma xsum_map_ext {A} (f g : A -> xq) l :
  (forall x, f x =x= g x) -> xsum (map f l) =x= xsum (map g l).
Proof. intros H. apply xsum_map_ext_in. intros x _. apply H. Qed.

Lemma xsum_zeros {A} (l : list A) : xsum (map (fun _ => Fin 0) l) =x= Fin 0.
Proof.
  induction l as [|a t IH]; xs; [reflexivity|]. rewrite IH. simpl. ring.
Qed.

Lemma xsum_map_add {A} (f g : A -> xq) l :
  xsum (map (fun x => xadd (f x) (g x)) l) =x= xadd (xsum (map f l)) (xsum (map g l)).
Proof.
  induction l as [|a t IH]; xs; [simpl; ring|].
  rewrite IH. apply xadd_swap.
Qed.

Lemma xsum_map_neg {A} (f : A -> xq) l :
  xsum (map (fun x => xneg (f x)) l) =x= xneg (xsum (map f l)).
Proof.
  induction l as [|a t IH]; xs; [simpl; ring|].
  rewrite IH. symmetry. apply xneg_xadd.
Qed.

Lemma xsum_map_sub {A} (f g : A -> xq) l :
  xsum (map (fun x => xsub (f x) (g x)) l) =x= xsub (xsum (map f l)) (xsum (map g l)).
Proof.
  unfold xsub. rewrite xsum_map_add. rewrite xsum_map_neg. reflexivity.
Qed.

(* exchange of two finite sums *)
Lemma xsum_exchange {A B} (f : A -> B -> xq) la lb :
  xsum (map (fun a => xsum (map (f a) lb)) la)
  =x= xsum (map (fun b => xsum (map (fun a => f a b) la)) lb).
Proof.
  induction la as [|a t IH]; xs.
  - symmetry. apply xsum_zeros.
  - rewrite IH. symmetry. apply (xsum_map_add (f a) (fun b => xsum (map (fun a0 => f a0 b) t))).
Qed.

Lemma xsumn_exchange n m (f : nat -> nat -> xq) :
  xsum (tab n (fun a => xsum (tab m (fun b => f a b))))
  =x= xsum (tab m (fun b => xsum (tab n (fun a => f a b)))).
Proof. unfold tab. apply (xsum_exchange f). Qed.

Lemma xsum_tab_ext n (f g : nat -> xq) :
  (forall i, i < n -> f i =x= g i) -> xsum (tab n f) =x= xsum (tab n g).
Proof.
  intros H. unfold tab. apply xsum_map_ext_in. intros x Hx. apply H.
  apply in_seq in Hx. lia.
Qed.

(* ---- nansum ------------------------------------------------------------------------------ *)
Definition nz (a : xq) : xq := if is_nan a then Fin 0 else a.

#[global] Instance nz_Proper : Proper (xeq ==> xeq) nz.
Proof.
  intros a b H. unfold nz. rewrite (is_nan_Proper a b H).
  destruct (is_nan b); [reflexivity | exact H].
Qed.

Lemma nansum_xsum l : nansum l =x= xsum (map nz l).
Proof.
  induction l as [|a t IH]; simpl; [reflexivity|].
  unfold nz at 1. destruct (is_nan a) eqn:E.
  - rewrite xadd_0_l. exact IH.
  - rewrite IH. reflexivity.
Qed.

Lemma nansum_tab_ext n (f g : nat -> xq) :
  (forall i, i < n -> f i =x= g i) -> nansum (tab n f) =x= nansum (tab n g).
Proof.
  intros H. rewrite !nansum_xsum. unfold tab. rewrite !map_map.
  apply xsum_map_ext_in. intros x Hx. apply in_seq in Hx.
  apply nz_Proper. apply H. lia.
Qed.

Lemma nansum_concat ll : nansum (concat ll) =x= xsum (map nansum ll).
Proof.
  induction ll as [|l t IH]; simpl; [reflexivity|].
  rewrite nansum_xsum. rewrite map_app. rewrite xsum_app.
  rewrite <- !nansum_xsum. rewrite IH. reflexivity.
Qed.

(* the grand total of a table does not depend on the order of traversal *)
Lemma nansum_concat_exchange n m (f : nat -> nat -> xq) :
  nansum (concat (tab n (fun i => tab m (fun j => f i j))))
  =x= nansum (concat (tab m (fun j => tab n (fun i => f i j)))).
Proof.
  rewrite !nansum_concat. unfold tab at 1 3. rewrite !map_map.
  transitivity (xsum (map (fun i => xsum (map (fun j => nz (f i j)) (seq 0 m))) (seq 0 n))).
  - apply xsum_map_ext. intros i. rewrite nansum_xsum. unfold tab. rewrite map_map. reflexivity.
  - rewrite (xsum_exchange (fun i j => nz (f i j))).
    apply xsum_map_ext. intros j. rewrite nansum_xsum. unfold tab. rewrite map_map. reflexivity.
Qed.

(* ---- forallb ---------------------------------------------------------------------------- *)
Lemma forallb_exchange {A B} (f : A -> B -> bool) la lb :
  forallb (fun a => forallb (f a) lb) la = forallb (fun b => forallb (fun a => f a b) la) lb.
Proof.
  apply eq_true_iff_eq. rewrite !forallb_forall. split; intros H x Hx.
  - rewrite forallb_forall. intros y Hy.
    specialize (H y Hy). rewrite forallb_forall in H. apply H. exact Hx.
  - rewrite forallb_forall. intros y Hy.
    specialize (H y Hy). rewrite forallb_forall in H. apply H. exact Hx.
Qed.

Lemma forallb_ext_in {A} (f g : A -> bool) l :
  (forall x, In x l -> f x = g x) -> forallb f l = forallb g l.
Proof.
  induction l as [|a t IH]; intros H; simpl; [reflexivity|].
  rewrite (H a (or_introl eq_refl)). rewrite IH; [reflexivity|].
  intros x Hx. apply H. right. exact Hx.
Qed.

#[global] Instance xeqb_Proper : Proper (xeq ==> xeq ==> eq) xeqb.
Proof.
  intros [p|s|] [q|t|] H1 [p'|s'|] [q'|t'|] H2; simpl in *; try tauto; subst; auto.
  destruct (Qeq_bool p p') eqn:E1, (Qeq_bool q q') eqn:E2; auto.
  - apply Qeq_bool_iff in E1. rewrite H1, H2 in E1. apply Qeq_bool_iff in E1. congruence.
  - apply Qeq_bool_iff in E2. rewrite <- H1, <- H2 in E2. apply Qeq_bool_iff in E2. congruence.
Qed.

#[global] Instance xltb_Proper : Proper (xeq ==> xeq ==> eq) xltb.
Proof.
  intros [p|s|] [q|t|] H1 [p'|s'|] [q'|t'|] H2; simpl in *; try tauto; subst; auto.
  destruct (Qlt_le_dec p p') as [L1|L1], (Qlt_le_dec q q') as [L2|L2]; auto.
  - rewrite H1, H2 in L1. exfalso. apply (Qlt_not_le _ _ L1 L2).
  - rewrite <- H1, <- H2 in L2. exfalso. apply (Qlt_not_le _ _ L2 L1).
Qed.

(* ---- matrices ----------------------------------------------------------------------------- *)
Lemma mtranspose_mnth nr nc m i j : i < nr -> j < nc -> mnth (mtranspose nr nc m) j i = mnth m i j.
Proof. intros Hi Hj. unfold mtranspose. rewrite tab2_mnth by assumption. reflexivity. Qed.

Lemma mnth_out_row (m : mat) i j : length m <= i -> mnth m i j = NaN.
Proof.
  intros H. unfold mnth, vnth. rewrite (nth_overflow m [] H). destruct j; reflexivity.
Qed.

Lemma mnth_out_col (m : mat) i j : length (nth i m []) <= j -> mnth m i j = NaN.
Proof. intros H. unfold mnth, vnth. apply nth_overflow. exact H. Qed.

Lemma mtranspose_shape nr nc m : shape (mtranspose nr nc m) nc nr.
Proof.
  split.
  - unfold mtranspose, tab2. apply tab_length.
  - intros i Hi. unfold mtranspose, tab2. rewrite (tab_nth nc _ [] i Hi). apply tab_length.
Qed.

(* on a well-shaped matrix the transpose agrees cell by cell, out-of-range cells included *)
Lemma mtranspose_MT nr nc m : shape m nr nc -> MT (mtranspose nr nc m) m.
Proof.
  intros [Hl Hr] i j.
  destruct (lt_dec i nr) as [Hi|Hi].
  - destruct (lt_dec j nc) as [Hj|Hj].
    + rewrite mtranspose_mnth by assumption. reflexivity.
    + rewrite (mnth_out_col m i j) by (rewrite Hr by exact Hi; lia).
      rewrite (mnth_out_row (mtranspose nr nc m) j i); [reflexivity|].
      destruct (mtranspose_shape nr nc m) as [Hl' _]. lia.
  - rewrite (mnth_out_row m i j) by lia.
    destruct (lt_dec j nc) as [Hj|Hj].
    + rewrite (mnth_out_col (mtranspose nr nc m) j i); [reflexivity|].
      destruct (mtranspose_shape nr nc m) as [_ Hr']. rewrite Hr' by exact Hj. lia.
    + rewrite (mnth_out_row (mtranspose nr nc m) j i); [reflexivity|].
      destruct (mtranspose_shape nr nc m) as [Hl' _]. lia.
Qed.

Lemma MT_sym mT m : MT mT m -> MT m mT.
Proof. intros H i j. symmetry. apply H. Qed.

Lemma tab2_shape nr nc f : shape (tab2 nr nc f) nr nc.
Proof.
  split; [apply tab_length|]. intros i Hi. unfold tab2. rewrite (tab_nth nr _ [] i Hi). apply tab_length.
Qed.

(* row j of the transpose is column j of the matrix (as lists) *)
Lemma mrow_mtranspose nr nc m j : length m = nr -> j < nc -> mrow (mtranspose nr nc m) j = mcol m j.
Proof.
  intros Hl Hj. unfold mrow, mtranspose, tab2. rewrite (tab_nth nc _ [] j Hj).
  apply (nth_ext _ _ NaN NaN).
  - rewrite tab_length. unfold mcol. rewrite map_length. auto.
  - intros i Hi. rewrite tab_length in Hi. rewrite (tab_nth nr _ NaN i Hi).
    symmetry. apply mcol_vnth. lia.
Qed.

Lemma mcol_mtranspose nr nc m i : shape m nr nc -> i < nr -> mcol (mtranspose nr nc m) i = mrow m i.
Proof.
  intros [Hl Hr] Hi. unfold mrow.
  apply (nth_ext _ _ NaN NaN).
  - unfold mcol. rewrite map_length. destruct (mtranspose_shape nr nc m) as [H1 _]. rewrite H1.
    symmetry. apply Hr. exact Hi.
  - intros j Hj. unfold mcol in Hj. rewrite map_length in Hj.
    destruct (mtranspose_shape nr nc m) as [H1 _]. rewrite H1 in Hj.
    change (nth j (mcol (mtranspose nr nc m) i) NaN) with (vnth (mcol (mtranspose nr nc m) i) j).
    rewrite mcol_vnth by lia. rewrite mtranspose_mnth by assumption. reflexivity.
Qed.
