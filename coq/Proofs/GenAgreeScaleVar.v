(* Proofs/GenAgreeScaleVar.v -- GenAgree tie of matrix/measure.py::_ScaleMeanStddev and _ScaleMeanStderr
   to Model/Scale.v (property C14).  Square roots through root values: np.sqrt(a) is [VRV (map root_arg a)],
   i.e. the lemmas speak about stddev^2 and stderr^2 ([root_arg] = Model/Scale.v's [sqrt_arg]).

     _counts                        ROWS: column_comparable_counts blocks [0][0], [1][0];
                                    COLUMNS: row_comparable_counts blocks [0][0], [0][1]
     _rows_weighted_mean_stddev(counts, values, scale_mean)
                                    one [sqrt_arg (scale_var row values mean_i)] per ROW; np.array([]) for no rows
     _columns_weighted_mean_stddev  one [sqrt_arg (scale_var column values mean_j)] per COLUMN (the separately
                                    written, transposed computation); np.array([]) for no columns
     blocks                         the function of the orientation, zipped over [_counts] and the blocks of
                                    rows_scale_mean / columns_scale_mean; `raise` when undefined
     _ScaleMeanStderr.is_defined    stddev.is_defined and margin.is_defined
     _ScaleMeanStderr.blocks        stddev block / np.sqrt(rows_weighted_base | columns_weighted_base block):
                                    [xdiv s (sqrt_arg m)] cell by cell = [scale_stderr_sq_vec]; `raise` when undefined *)
From Coq Require Import QArith ZArith List Bool Lia Arith String ZifyBool Setoid Morphisms.
From CC Require Import Base.XQ Base.ListX Base.VecExp Model.Scale
     Proofs.GenAgreeVecTac Proofs.GenAgreeScaleTac Proofs.GenAgreeScaleMean Gen.ScaleSrc.
Import ListNotations.
Local Close Scope Q_scope.
Local Open Scope string_scope.
Local Open Scope nat_scope.

Definition var3 n1 x1 n2 x2 n3 x3 (s : string) : vval :=
  if String.eqb s n1 then x1 else if String.eqb s n2 then x2 else if String.eqb s n3 then x3 else VErr.

(* np.array([]) when the block has no vector, otherwise the roots *)
Definition root_vec (empty : bool) (l : list xq) : vval := if empty then VV [] else VRV l.

Definition rows_var_vec (vals : list xq) (C : list (list xq)) (means : list xq) : list xq :=
  map2 (fun c mu => sqrt_arg (scale_var c vals mu)) C means.
Definition cols_var_vec (nc : nat) (vals : list xq) (C : list (list xq)) (means : list xq) : list xq :=
  tab nc (fun j => sqrt_arg (scale_var (mcol C j) vals (vnth means j))).

Definition var_attrs_rows nc C0 C1 means0 means1 : list (string * vval) :=
  [("_second_order_measures.column_comparable_counts.blocks[0][0]", VM nc C0);
   ("_second_order_measures.column_comparable_counts.blocks[1][0]", VM nc C1);
   ("_second_order_measures.rows_scale_mean.blocks", VL [VV means0; VV means1])].
Definition var_attrs_cols nc ncs C0 C1 means0 means1 : list (string * vval) :=
  [("_second_order_measures.row_comparable_counts.blocks[0][0]", VM nc C0);
   ("_second_order_measures.row_comparable_counts.blocks[0][1]", VM ncs C1);
   ("_second_order_measures.columns_scale_mean.blocks", VL [VV means0; VV means1])].

Ltac var_env := unfold var_attrs_rows, var_attrs_cols, var3; scale_env.

(* ------------------------------------------------------------------------------------ *)

Lemma gen_ScaleMeanStddev_is_defined :
  match vsrc_ScaleMeanStddev_is_defined with
  | Some e => forall (rows : bool) rvals cvals rest srt,
      veval (env_scale (orient_name rows) (dims_attrs rvals cvals ++ rest) no_var srt) e
      = VB (any_value (if rows then cvals else rvals))
  | None => True
  end.
Proof.
  unfold_vsrcs; try exact I.
  all: intros [|] rvals cvals rest srt; scale_env; veval_simp;
    rewrite all_isnan_any_value, negb_involutive; reflexivity.
Qed.

Lemma gen_ScaleMeanStddev__counts_rows :
  match vsrc_ScaleMeanStddev__counts with
  | Some e => forall nc C0 C1 means0 means1 rvals cvals srt,
      veval (env_scale "MO.ROWS" (dims_attrs rvals cvals ++ var_attrs_rows nc C0 C1 means0 means1) no_var srt) e
      = VL [VM nc C0; VM nc C1]
  | None => True
  end.
Proof. unfold_vsrcs; try exact I. all: intros; var_env; veval_simp; reflexivity. Qed.

Lemma gen_ScaleMeanStddev__counts_columns :
  match vsrc_ScaleMeanStddev__counts with
  | Some e => forall nc ncs C0 C1 means0 means1 rvals cvals srt,
      veval (env_scale "MO.COLUMNS" (dims_attrs rvals cvals ++ var_attrs_cols nc ncs C0 C1 means0 means1) no_var srt) e
      = VL [VM nc C0; VM ncs C1]
  | None => True
  end.
Proof. unfold_vsrcs; try exact I. all: intros; var_env; veval_simp; reflexivity. Qed.

(* the two static functions *)
Lemma gen_ScaleMeanStddev__rows_weighted_mean_stddev :
  match vsrc_ScaleMeanStddev__rows_weighted_mean_stddev with
  | Some e => forall nc C vals means srt,
      List.length vals = nc -> wf_mat nc C -> List.length means = List.length C ->
      veval (mkVenv (var3 "counts" (VM nc C) "values" (VV vals) "scale_mean" (VV means)) no_var no_get no_call srt) e
      = root_vec (List.length C =? 0) (rows_var_vec vals C means)
  | None => True
  end.
Proof.
  unfold_vsrcs; try exact I.
  all: intros nc C vals means srt Hv HC Hm.
  all: pose proof (mask_take_length vals (map negb (map is_nan vals)) ltac:(vnorm; reflexivity)) as Hmt.
  all: unfold root_vec, rows_var_vec, var3.
  all: veval_simp.
  all: vsplit.
  all: repeat match goal with |- context [if ?b then _ else _] => first [replace b with true by lia | replace b with false by lia] end.
  all: try reflexivity.
  all: rewrite Nat2Z.id.
  all: subst nc.
  all: rewrite rows_var_list by assumption.
  all: reflexivity.
Qed.

Lemma gen_ScaleMeanStddev__columns_weighted_mean_stddev :
  match vsrc_ScaleMeanStddev__columns_weighted_mean_stddev with
  | Some e => forall nc C vals means srt,
      List.length vals = List.length C -> wf_mat nc C -> List.length means = nc ->
      veval (mkVenv (var3 "counts" (VM nc C) "values" (VV vals) "scale_mean" (VV means)) no_var no_get no_call srt) e
      = root_vec (nc =? 0) (cols_var_vec nc vals C means)
  | None => True
  end.
Proof.
  unfold_vsrcs; try exact I.
  all: intros nc C vals means srt Hv HC Hm.
  all: pose proof (mask_take_length vals (map negb (map is_nan vals)) ltac:(vnorm; reflexivity)) as Hmt.
  all: pose proof (mask_take_length C (map negb (map is_nan vals)) ltac:(vnorm; lia)) as HmC.
  all: unfold root_vec, cols_var_vec, var3.
  all: veval_simp.
  all: vsplit.
  all: repeat match goal with |- context [if ?b then _ else _] => first [replace b with true by lia | replace b with false by lia] end.
  all: try reflexivity.
  all: rewrite Nat2Z.id.
  all: rewrite cols_var_list by assumption.
  all: reflexivity.
Qed.

(* ------------------------------------------------------------------------------------ *)
(** * _ScaleMeanStddev.blocks *)

Ltac var_finish :=
  repeat match goal with |- context [if ?b then _ else _] =>
           first [replace b with true by lia | replace b with false by lia] end;
  rewrite ?Nat2Z.id;
  rewrite ?rows_var_list by (subst; assumption);
  rewrite ?cols_var_list by (subst; assumption);
  reflexivity.

Lemma gen_ScaleMeanStddev_blocks_rows :
  match vsrc_ScaleMeanStddev_blocks with
  | Some e => forall nc C0 C1 means0 means1 rvals cvals srt,
      any_value cvals = true -> List.length cvals = nc ->
      wf_mat nc C0 -> List.length means0 = List.length C0 ->
      wf_mat nc C1 -> List.length means1 = List.length C1 ->
      veval (env_scale "MO.ROWS" (dims_attrs rvals cvals ++ var_attrs_rows nc C0 C1 means0 means1) no_var srt) e
      = VL [root_vec (List.length C0 =? 0) (rows_var_vec cvals C0 means0);
            root_vec (List.length C1 =? 0) (rows_var_vec cvals C1 means1)]
  | None => True
  end.
Proof.
  unfold_vsrcs; try exact I.
  all: intros nc C0 C1 means0 means1 rvals cvals srt Hdef Hnc HC0 Hm0 HC1 Hm1.
  all: pose proof (mask_take_length cvals (map negb (map is_nan cvals)) ltac:(vnorm; reflexivity)) as Hmt.
  all: unfold root_vec, rows_var_vec.
  all: var_env.
  all: veval_simp.
  all: rewrite all_isnan_any_value, Hdef.
  all: cbn [negb].
  all: vsplit.
  all: subst nc.
  all: var_finish.
Qed.

Lemma gen_ScaleMeanStddev_blocks_columns :
  match vsrc_ScaleMeanStddev_blocks with
  | Some e => forall nr nc ncs C0 C1 means0 means1 rvals cvals srt,
      any_value rvals = true -> List.length rvals = nr ->
      wf_mat nc C0 -> List.length C0 = nr -> List.length means0 = nc ->
      wf_mat ncs C1 -> List.length C1 = nr -> List.length means1 = ncs ->
      veval (env_scale "MO.COLUMNS" (dims_attrs rvals cvals ++ var_attrs_cols nc ncs C0 C1 means0 means1) no_var srt) e
      = VL [root_vec (nc =? 0) (cols_var_vec nc rvals C0 means0);
            root_vec (ncs =? 0) (cols_var_vec ncs rvals C1 means1)]
  | None => True
  end.
Proof.
  unfold_vsrcs; try exact I.
  all: intros nr nc ncs C0 C1 means0 means1 rvals cvals srt Hdef Hnr HC0 HL0 Hm0 HC1 HL1 Hm1.
  all: pose proof (mask_take_length rvals (map negb (map is_nan rvals)) ltac:(vnorm; reflexivity)) as Hmt.
  all: pose proof (mask_take_length C0 (map negb (map is_nan rvals)) ltac:(vnorm; lia)) as HmC0.
  all: pose proof (mask_take_length C1 (map negb (map is_nan rvals)) ltac:(vnorm; lia)) as HmC1.
  all: unfold root_vec, cols_var_vec.
  all: var_env.
  all: veval_simp.
  all: rewrite all_isnan_any_value, Hdef.
  all: cbn [negb].
  all: vsplit.
  all: repeat match goal with |- context [if ?b then _ else _] =>
           first [replace b with true by lia | replace b with false by lia] end.
  all: rewrite ?Nat2Z.id.
  all: rewrite ?cols_var_list by (assumption || lia).
  all: reflexivity.
Qed.

Lemma gen_ScaleMeanStddev_blocks_undefined :
  match vsrc_ScaleMeanStddev_blocks with
  | Some e => forall (rows : bool) rvals cvals rest srt,
      any_value (if rows then cvals else rvals) = false ->
      veval (env_scale (orient_name rows) (dims_attrs rvals cvals ++ rest) no_var srt) e = VErr
  | None => True
  end.
Proof.
  unfold_vsrcs; try exact I.
  all: intros [|] rvals cvals rest srt Hdef; scale_env; vstage1;
    (match goal with |- v_if ?c _ _ = _ => assert (E : c = VB true) end;
     [vrun; rewrite all_isnan_any_value, Hdef; reflexivity|rewrite E; reflexivity]).
Qed.

(* ------------------------------------------------------------------------------------ *)
(** * _ScaleMeanStderr *)

(* stddev / sqrt(margin), cell by cell, through the squares *)
Definition stderr_vec (sd mg : list xq) : list xq := map2 (fun s m => xdiv s (sqrt_arg m)) sd mg.

Lemma map2_map_r {A B C D} (f : A -> C -> D) (g : B -> C) a b :
  map2 f a (map g b) = map2 (fun x y => f x (g y)) a b.
Proof.
  unfold map2. revert b. induction a as [|x a IH]; intros [|y b]; try reflexivity.
  simpl. f_equal. apply IH.
Qed.

Definition stderr_attrs (o : string) (dsd dmg : bool) sd0 sd1 mg0 mg1 : list (string * vval) :=
  [("_second_order_measures." ++ o ++ "_scale_mean_stddev.is_defined", VB dsd);
   ("_second_order_measures." ++ o ++ "_weighted_base.is_defined", VB dmg);
   ("_second_order_measures." ++ o ++ "_scale_mean_stddev.blocks[0]", VRV sd0);
   ("_second_order_measures." ++ o ++ "_scale_mean_stddev.blocks[1]", VRV sd1);
   ("_second_order_measures." ++ o ++ "_weighted_base.blocks[0]", VV mg0);
   ("_second_order_measures." ++ o ++ "_weighted_base.blocks[1]", VV mg1)].
Definition orient_word (rows : bool) : string := if rows then "rows" else "columns".

Ltac stderr_env := unfold stderr_attrs, orient_word, env_scale, orient_name, String.append, app.

Lemma gen_ScaleMeanStderr_is_defined :
  match vsrc_ScaleMeanStderr_is_defined with
  | Some e => forall (rows : bool) dsd dmg sd0 sd1 mg0 mg1 srt,
      veval (env_scale (orient_name rows) (stderr_attrs (orient_word rows) dsd dmg sd0 sd1 mg0 mg1) no_var srt) e
      = VB (dsd && dmg)
  | None => True
  end.
Proof.
  unfold_vsrcs; try exact I.
  all: intros [|] [|] [|] sd0 sd1 mg0 mg1 srt; stderr_env; veval_simp; reflexivity.
Qed.

Lemma gen_ScaleMeanStderr_blocks :
  match vsrc_ScaleMeanStderr_blocks with
  | Some e => forall (rows : bool) sd0 sd1 mg0 mg1 srt,
      List.length sd0 = List.length mg0 -> List.length sd1 = List.length mg1 ->
      veval (env_scale (orient_name rows) (stderr_attrs (orient_word rows) true true sd0 sd1 mg0 mg1) no_var srt) e
      = VL [VRV (stderr_vec sd0 mg0); VRV (stderr_vec sd1 mg1)]
  | None => True
  end.
Proof.
  unfold_vsrcs; try exact I.
  all: intros [|] sd0 sd1 mg0 mg1 srt H0 H1; unfold stderr_vec; stderr_env; veval_simp; vsplit;
    rewrite !map2_map_r; reflexivity.
Qed.

Lemma gen_ScaleMeanStderr_blocks_undefined :
  match vsrc_ScaleMeanStderr_blocks with
  | Some e => forall (rows : bool) dsd dmg sd0 sd1 mg0 mg1 srt,
      dsd && dmg = false ->
      veval (env_scale (orient_name rows) (stderr_attrs (orient_word rows) dsd dmg sd0 sd1 mg0 mg1) no_var srt) e
      = VErr
  | None => True
  end.
Proof.
  unfold_vsrcs; try exact I.
  all: intros [|] [|] [|] sd0 sd1 mg0 mg1 srt H; try discriminate H; stderr_env; vstage1;
    (match goal with |- v_if ?c _ _ = _ => assert (E : c = VB true) by (vrun; reflexivity); rewrite E end;
     reflexivity).
Qed.
