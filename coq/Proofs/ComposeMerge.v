(* Proofs/ComposeMerge.v -- C04: merge equivalence for the measures that Props/C04.v left partial.

   (A) INTERSECTIONS BY MERGING ON BOTH DIMENSIONS.  A row subtotal rs and a column subtotal cs,
       both without subtrahends, of a categorical x categorical slice (2-D or a 3-D partition):
       the model's intersection cell of the counts and of the row / column / table bases equals
       the cell (merged row, merged column) of the table tabulated from the survey in which the
       row addends AND the column addends have been merged in the data ([merged_both_survey]);
       hence so does every congruent function of (count, row base, column base, table base):
       the three proportions, the z-score cell, any p-value, population estimates.
   (B) ROW subtotal: any function of the z-score (p-values through any CDF), population counts
       with the categorical-date dispatch, and the scale mean of the merged row.
   (C) COLUMN subtotal: the derived cell measures (mirror of Proofs/MergeMeasures.v part 1-2).
   All on top of Proofs/MergeSurvey.v / MergeMeasures.v; no new assumption. *)
From Coq Require Import QArith ZArith List Bool Lia Arith Setoid Morphisms Btauto.
From CC Require Import Base.XQ Base.ListX Spec.Survey Spec.Merge Model.CubeCounts Model.Subtotals
     Model.Proportions Model.Variance Model.Zscore Model.Population Model.Scale
     Proofs.CubeCountsProofs Proofs.ProportionsProofs Proofs.VarianceProofs Proofs.PairwiseXQ
     Proofs.MergeSum Proofs.MergeSurvey Proofs.MergeMeasures.
Import ListNotations.
Local Close Scope Q_scope.
Local Open Scope nat_scope.

(* recoding one variable does not touch the answers to another one *)
Lemma fresh_for_recode_other v u A m ms S :
  u <> v -> fresh_for u ms S -> fresh_for u ms (recode v A m S).
Proof.
  intros Huv H r Hr. unfold recode in Hr. apply in_map_iff in Hr. destruct Hr as [r' [<- Hr']].
  rewrite (recode_ans_other v A m r' u Huv). exact (H r' Hr').
Qed.

Lemma has_subs_nil s : s_sub s = [] -> has_subs s = false.
Proof. intros H. unfold has_subs. rewrite H. reflexivity. Qed.

(* ==================================================================================== *)
(** * (A) intersections by merging on both dimensions *)

Section Intersection.
  Variable S : survey.
  Variable tv : tvar.
  Variables vr vc : nat.
  Variables ms mc : list bool.        (* flags of the rows / columns variable, both categorical *)
  Variable k : nat.
  Variables rs cs : subtotal.
  Hypothesis Ht : t_ok tv.
  Hypothesis Hk : k < t_n tv.
  Hypothesis Hvar : vr <> vc.
  Hypothesis Htvr : tv_other tv vr.
  Hypothesis Htvc : tv_other tv vc.
  Hypothesis Hrsub : s_sub rs = [].
  Hypothesis Hcsub : s_sub cs = [].
  Hypothesis Hroffs : Forall (fun i => i < n_valid ms) (s_add rs).
  Hypothesis Hcoffs : Forall (fun j => j < n_valid mc) (s_add cs).
  Hypothesis Hrnd : NoDup (s_add rs).
  Hypothesis Hcnd : NoDup (s_add cs).
  Hypothesis Hrfresh : fresh_for vr ms S.
  Hypothesis Hcfresh : fresh_for vc mc S.

  Let nr := nval ms.
  Let nc := nval mc.
  Let ms' := merged_flags ms.
  Let mc' := merged_flags mc.
  Let sl := length mrv.
  Let Hcat : cat_or_mr KCat := or_introl eq_refl.
  Let Hvar' : vc <> vr := fun E => Hvar (eq_sym E).

  (* rows merged, then columns merged: both recodings of Spec/Merge.v *)
  Let S1 := merged_rows_survey S vr ms rs.
  Definition merged_both_survey : survey := merged_cols_survey (merged_rows_survey S vr ms rs) vc mc cs.
  Let S2 := merged_both_survey.

  Let V := slice_of tv vr KCat ms vc KCat mc S k.
  Let V1 := slice_of tv vr KCat ms' vc KCat mc S1 k.
  Let V2 := slice_of tv vr KCat ms' vc KCat mc' S2 k.

  Lemma fresh1 : fresh_for vc mc S1.
  Proof. unfold S1, merged_rows_survey. apply fresh_for_recode_other; [exact Hvar'| exact Hcfresh]. Qed.

  Lemma nr_lt1 : nr < nval ms'.
  Proof. unfold nr, ms'. rewrite !nval_n_valid, n_valid_merged. lia. Qed.
  Lemma nval_ms'_S : nval ms' = Datatypes.S nr.
  Proof. apply n_valid_merged. Qed.
  Lemma nval_mc'_S : nval mc' = Datatypes.S nc.
  Proof. apply n_valid_merged. Qed.

  Lemma coffs_lt j : In j (s_add cs) -> j < nc.
  Proof. intros Hj. rewrite Forall_forall in Hcoffs. apply Hcoffs. exact Hj. Qed.

  (* an intersection of two plain subtotals: the column subtotal's addends of the inserted row *)
  Lemma inter_as_row_sums base dcn drn :
    inter_cell base dcn drn rs cs =x= xsum (map (fun j => subrow_cell base drn rs j) (s_add cs)).
  Proof.
    unfold inter_cell. rewrite (has_subs_nil rs Hrsub), (has_subs_nil cs Hcsub). simpl.
    rewrite Hcsub. simpl. unfold xsub. rewrite xneg_zero. apply xadd_0_r.
  Qed.

  (* ---- counts ---------------------------------------------------------------------- *)
  Theorem merge_counts_inter dcn drn :
    inter_cell (tab2 nr nc (counts_of V CCat CCat)) dcn drn rs cs =x= counts_of V2 CCat CCat nr nc.
  Proof.
    rewrite inter_as_row_sums.
    (* each inserted-row cell is the merged row of the rows-merged table *)
    rewrite (xsum_map_xeq _ (fun j => counts_of V1 CCat CCat nr j) (s_add cs)).
    2:{ intros j Hj.
        apply (merge_counts_row S tv vr vc KCat ms mc k rs Ht Hcat Hk Hvar' Htvr Hrsub Hroffs Hrnd Hrfresh
                 drn j (coffs_lt j Hj)). }
    (* ... and the sum over the column addends is the merged column of the both-merged table *)
    rewrite <- (sum_cols_tab2 (nval ms') nc (counts_of V1 CCat CCat) nr (s_add cs) Hcoffs nr_lt1).
    rewrite <- (subcol_cell_nosub _ false cs nr Hcsub).
    apply (merge_counts_col S1 tv vr vc KCat ms' mc k cs Ht Hcat Hk Hvar Htvc Hcsub Hcoffs Hcnd fresh1
             false nr nr_lt1).
  Qed.

  (* ---- row bases: _RowWeightedBases._intersections = the inserted row's base, column 0 --- *)
  Theorem merge_row_bases_inter : 0 < nc ->
    subrow_cell (tab2 nr nc (row_bases_of V nc sl CCat CCat)) true rs 0
    =x= row_bases_of V2 (nval mc') sl CCat CCat nr nc.
  Proof.
    intros H0.
    etransitivity.
    { apply (merge_row_bases_row S tv vr vc KCat ms mc k rs Ht Hcat Hk Hvar' Htvr Hrsub Hroffs Hrnd Hrfresh
               true 0 H0). }
    transitivity (mnth (tab2 (nval ms') nc (row_bases_of V1 nc sl CCat CCat)) nr 0).
    { rewrite (tab2_mnth _ _ _ nr 0 nr_lt1 H0). reflexivity. }
    apply (merge_row_bases_col S1 tv vr vc KCat ms' mc k cs Ht Hcat Hk Hvar Htvc Hcoffs fresh1 nr nr_lt1 H0).
  Qed.

  (* ---- column bases: the inserted column's base, row 0 ----------------------------------- *)
  Theorem merge_column_bases_inter : 0 < nr ->
    subcol_cell (tab2 nr nc (column_bases_of V nr sl CCat CCat)) true cs 0
    =x= column_bases_of V2 (nval ms') sl CCat CCat nr nc.
  Proof.
    intros H0.
    rewrite (subcol_cell_nosub _ true cs 0 Hcsub).
    rewrite (sum_cols_tab2 nr nc _ 0 (s_add cs) Hcoffs H0).
    rewrite (xsum_map_xeq _ (fun j => column_bases_of V1 (nval ms') sl CCat CCat nr j) (s_add cs)).
    2:{ intros j Hj.
        rewrite <- (tab2_mnth nr nc (column_bases_of V nr sl CCat CCat) 0 j H0 (coffs_lt j Hj)).
        apply (merge_column_bases_row S tv vr vc KCat ms mc k rs Ht Hcat Hk Hvar' Htvr Hroffs Hrfresh
                 j H0 (coffs_lt j Hj)). }
    rewrite <- (sum_cols_tab2 (nval ms') nc (column_bases_of V1 (nval ms') sl CCat CCat) nr (s_add cs) Hcoffs nr_lt1).
    rewrite <- (subcol_cell_nosub _ true cs nr Hcsub).
    apply (merge_column_bases_col S1 tv vr vc KCat ms' mc k cs Ht Hcat Hk Hvar Htvc Hcsub Hcoffs Hcnd fresh1
             true nr nr_lt1).
  Qed.

  (* ---- table bases: the table base -------------------------------------------------------- *)
  Theorem merge_table_bases_inter : 0 < nr -> 0 < nc ->
    mnth (tab2 nr nc (table_bases_of V nr nc sl sl CCat CCat)) 0 0
    =x= table_bases_of V2 (nval ms') (nval mc') sl sl CCat CCat nr nc.
  Proof.
    intros Hr0 Hc0.
    etransitivity.
    { apply (merge_table_bases_row S tv vr vc KCat ms mc k rs Ht Hcat Hk Hvar' Htvr Hroffs Hrfresh 0 Hr0 Hc0). }
    transitivity (mnth (tab2 (nval ms') nc (table_bases_of V1 (nval ms') nc sl sl CCat CCat)) nr 0).
    { rewrite (tab2_mnth _ _ _ nr 0 nr_lt1 Hc0). reflexivity. }
    apply (merge_table_bases_col S1 tv vr vc KCat ms' mc k cs Ht Hcat Hk Hvar Htvc Hcoffs fresh1 nr nr_lt1 Hc0).
  Qed.
End Intersection.

(* the intersection cells of the model's block builders *)
Section InterBlocks.
  Variable nr nc : nat.
  Variable rsubs csubs : list subtotal.
  Variables kk l : nat.
  Hypothesis Hkk : kk < length rsubs.
  Hypothesis Hl : l < length csubs.

  Lemma count_blocks_inter counts dn :
    mnth (b_inter (count_blocks nr nc rsubs csubs counts dn)) kk l
    = inter_cell counts dn dn (nth kk rsubs nosub) (nth l csubs nosub).
  Proof. unfold count_blocks, sum_blocks; simpl. rewrite tab2_mnth by assumption. reflexivity. Qed.
  Lemma row_base_blocks_inter rb :
    mnth (b_inter (row_base_blocks nr nc rsubs csubs rb)) kk l = subrow_cell rb true (nth kk rsubs nosub) 0.
  Proof. unfold row_base_blocks; simpl. rewrite tab2_mnth by assumption. reflexivity. Qed.
  Lemma col_base_blocks_inter cb :
    mnth (b_inter (col_base_blocks nr nc rsubs csubs cb)) kk l = subcol_cell cb true (nth l csubs nosub) 0.
  Proof. unfold col_base_blocks; simpl. rewrite tab2_mnth by assumption. reflexivity. Qed.
  Lemma table_base_blocks_inter tb :
    mnth (b_inter (table_base_blocks nr nc rsubs csubs tb)) kk l = mnth tb 0 0.
  Proof. unfold table_base_blocks; simpl. rewrite tab2_mnth by assumption. reflexivity. Qed.
End InterBlocks.

Section InterSurvey.
  Variable S : survey.
  Variable tv : tvar.
  Variables vr vc : nat.
  Variables ms mc : list bool.
  Variable k : nat.
  Variables rsubs csubs : list subtotal.
  Variables kk l : nat.
  Variable dn : bool.
  Hypothesis Ht : t_ok tv.
  Hypothesis Hk : k < t_n tv.
  Hypothesis Hvar : vr <> vc.
  Hypothesis Htvr : tv_other tv vr.
  Hypothesis Htvc : tv_other tv vc.
  Hypothesis Hkk : kk < length rsubs.
  Hypothesis Hl : l < length csubs.
  Let rs := nth kk rsubs nosub.
  Let cs := nth l csubs nosub.
  Hypothesis Hrsub : s_sub rs = [].
  Hypothesis Hcsub : s_sub cs = [].
  Hypothesis Hroffs : Forall (fun i => i < n_valid ms) (s_add rs).
  Hypothesis Hcoffs : Forall (fun j => j < n_valid mc) (s_add cs).
  Hypothesis Hrnd : NoDup (s_add rs).
  Hypothesis Hcnd : NoDup (s_add cs).
  Hypothesis Hrfresh : fresh_for vr ms S.
  Hypothesis Hcfresh : fresh_for vc mc S.
  Hypothesis Hrpos : 0 < n_valid ms.
  Hypothesis Hcpos : 0 < n_valid mc.

  Let nr := nval ms.
  Let nc := nval mc.
  Let sl := length mrv.

  (* base blocks of the original table (= MergeMeasures.o_* with categorical columns) ... *)
  Notation OC := (o_counts S tv vr vc KCat ms mc k).
  Notation ORB := (o_rb S tv vr vc KCat ms mc k).
  Notation OCB := (o_cb S tv vr vc KCat ms mc k).
  Notation OTB := (o_tb S tv vr vc KCat ms mc k).
  (* ... and the four numbers of cell (merged row, merged column) of the both-merged table *)
  Let V2 := slice_of tv vr KCat (merged_flags ms) vc KCat (merged_flags mc)
                     (merged_both_survey S vr vc ms mc rs cs) k.
  Definition b_count : xq := counts_of V2 CCat CCat nr nc.
  Definition b_rb : xq := row_bases_of V2 (nval (merged_flags mc)) sl CCat CCat nr nc.
  Definition b_cb : xq := column_bases_of V2 (nval (merged_flags ms)) sl CCat CCat nr nc.
  Definition b_tb : xq :=
    table_bases_of V2 (nval (merged_flags ms)) (nval (merged_flags mc)) sl sl CCat CCat nr nc.

  Theorem merge_inter_block_counts :
    mnth (b_inter (count_blocks nr nc rsubs csubs OC dn)) kk l =x= b_count.
  Proof.
    rewrite (count_blocks_inter nr nc rsubs csubs kk l Hkk Hl).
    apply (merge_counts_inter S tv vr vc ms mc k rs cs Ht Hk Hvar Htvr Htvc Hrsub Hcsub Hroffs Hcoffs
             Hrnd Hcnd Hrfresh Hcfresh dn dn).
  Qed.
  Theorem merge_inter_block_row_bases :
    mnth (b_inter (row_base_blocks nr nc rsubs csubs ORB)) kk l =x= b_rb.
  Proof.
    rewrite (row_base_blocks_inter nr nc rsubs csubs kk l Hkk Hl).
    apply (merge_row_bases_inter S tv vr vc ms mc k rs cs Ht Hk Hvar Htvr Htvc Hrsub Hroffs Hcoffs
             Hrnd Hrfresh Hcfresh Hcpos).
  Qed.
  Theorem merge_inter_block_column_bases :
    mnth (b_inter (col_base_blocks nr nc rsubs csubs OCB)) kk l =x= b_cb.
  Proof.
    rewrite (col_base_blocks_inter nr nc rsubs csubs kk l Hkk Hl).
    apply (merge_column_bases_inter S tv vr vc ms mc k rs cs Ht Hk Hvar Htvr Htvc Hcsub Hroffs Hcoffs
             Hcnd Hrfresh Hcfresh Hrpos).
  Qed.
  Theorem merge_inter_block_table_bases :
    mnth (b_inter (table_base_blocks nr nc rsubs csubs OTB)) kk l =x= b_tb.
  Proof.
    rewrite (table_base_blocks_inter nr nc rsubs csubs kk l Hkk Hl).
    apply (merge_table_bases_inter S tv vr vc ms mc k rs cs Ht Hk Hvar Htvr Htvc Hroffs Hcoffs
             Hrfresh Hcfresh Hrpos Hcpos).
  Qed.

  (* every congruent function of the cell's count and three bases *)
  Theorem merge_inter_any_cell_measure (f : xq -> xq -> xq -> xq -> xq) :
    Proper (xeq ==> xeq ==> xeq ==> xeq ==> xeq) f ->
    f (mnth (b_inter (count_blocks nr nc rsubs csubs OC dn)) kk l)
      (mnth (b_inter (row_base_blocks nr nc rsubs csubs ORB)) kk l)
      (mnth (b_inter (col_base_blocks nr nc rsubs csubs OCB)) kk l)
      (mnth (b_inter (table_base_blocks nr nc rsubs csubs OTB)) kk l)
    =x= f b_count b_rb b_cb b_tb.
  Proof.
    intros Hf. apply Hf; [apply merge_inter_block_counts| apply merge_inter_block_row_bases
                          | apply merge_inter_block_column_bases| apply merge_inter_block_table_bases].
  Qed.

  (* the three proportions of the intersection cell *)
  Theorem merge_inter_row_proportion rd cd :
    mnth (b_inter (row_proportions nr nc rsubs csubs OC dn rd cd ORB)) kk l =x= xdiv b_count b_rb.
  Proof.
    unfold row_proportions.
    rewrite (props_inter nr nc rsubs csubs _ _ ORB OC rd cd kk l Hkk Hl).
    rewrite merge_inter_block_counts, merge_inter_block_row_bases. reflexivity.
  Qed.
  Theorem merge_inter_column_proportion rd cd :
    mnth (b_inter (col_proportions nr nc rsubs csubs OC dn rd cd OCB)) kk l =x= xdiv b_count b_cb.
  Proof.
    unfold col_proportions.
    rewrite (props_inter nr nc rsubs csubs _ _ OCB OC rd cd kk l Hkk Hl).
    rewrite merge_inter_block_counts, merge_inter_block_column_bases. reflexivity.
  Qed.
  Theorem merge_inter_table_proportion :
    mnth (b_inter (table_proportions nr nc rsubs csubs OC dn OTB)) kk l =x= xdiv b_count b_tb.
  Proof.
    unfold table_proportions, div_blocks. cbn [b_inter].
    rewrite (tab2_mnth _ _ _ kk l Hkk Hl).
    rewrite merge_inter_block_counts, merge_inter_block_table_bases. reflexivity.
  Qed.

  (* the z-score cell of the intersection (signed square) *)
  Theorem merge_inter_zscore_cell :
    z_zabs (mnth (b_inter (count_blocks nr nc rsubs csubs OC dn)) kk l)
           (mnth (b_inter (row_base_blocks nr nc rsubs csubs ORB)) kk l)
           (mnth (b_inter (col_base_blocks nr nc rsubs csubs OCB)) kk l)
           (mnth (b_inter (table_base_blocks nr nc rsubs csubs OTB)) kk l)
    =x= z_zabs b_count b_rb b_cb b_tb.
  Proof. apply merge_inter_any_cell_measure. exact z_zabs_Proper. Qed.
End InterSurvey.

(* ==================================================================================== *)
(** * (B) ROW subtotal: functions of z (p-values), population counts, scale mean *)

(* pointwise-equal vectors *)
Definition veq (a b : list xq) : Prop := Forall2 xeq a b.

Lemma veq_tab n f g : (forall i, i < n -> f i =x= g i) -> veq (tab n f) (tab n g).
Proof.
  intros H. unfold veq, tab.
  assert (G : forall l, (forall i, In i l -> i < n) -> Forall2 xeq (map f l) (map g l)).
  { induction l as [|a t IH]; intros Hl; simpl; constructor.
    - apply H. apply Hl. left. reflexivity.
    - apply IH. intros i Hi. apply Hl. right. exact Hi. }
  apply G. intros i Hi. apply in_seq in Hi. lia.
Qed.

(* the scale mean of a vector only depends on its counts and bases up to =x= *)
Lemma pdiv_veq c c' b b' : veq c c' -> veq b b' -> veq (pdiv c b) (pdiv c' b').
Proof.
  intros Hc. revert b b'. induction Hc as [|x x' t t' Hx Ht IH]; intros b b' Hb.
  - constructor.
  - destruct Hb as [|y y' u u' Hy Hu]; [constructor|].
    unfold pdiv. simpl. constructor.
    + rewrite Hx, Hy. reflexivity.
    + apply (IH u u' Hu).
Qed.

Lemma nansum_mul_veq vals p p' : veq p p' ->
  nansum (map (fun vp => xmul (fst vp) (snd vp)) (combine vals p))
  =x= nansum (map (fun vp => xmul (fst vp) (snd vp)) (combine vals p')).
Proof.
  intros Hp. revert vals. induction Hp as [|x x' t t' Hx Ht IH]; intros vals.
  - destruct vals; reflexivity.
  - destruct vals as [|v vs]; [reflexivity|]. simpl.
    assert (E : xmul v x =x= xmul v x') by (rewrite Hx; reflexivity).
    rewrite (is_nan_Proper _ _ E). destruct (is_nan (xmul v x')).
    + apply IH.
    + rewrite E, (IH vs). reflexivity.
Qed.

Lemma keep_valued_veq vals p p' : veq p p' -> xsum (keep_valued vals p) =x= xsum (keep_valued vals p').
Proof.
  intros Hp. revert vals. induction Hp as [|x x' t t' Hx Ht IH]; intros vals.
  - destruct vals; reflexivity.
  - destruct vals as [|v vs]; [reflexivity|]. unfold keep_valued. simpl.
    destruct (negb (is_nan v)); simpl.
    + fold (keep_valued vs t) (keep_valued vs t'). rewrite Hx.
      change (xadd x' (xsum (keep_valued vs t)) =x= xadd x' (xsum (keep_valued vs t'))).
      rewrite (IH vs). reflexivity.
    + apply IH.
Qed.

Lemma scale_mean_vec_veq c c' b b' vals : veq c c' -> veq b b' ->
  scale_mean_vec c b vals =x= scale_mean_vec c' b' vals.
Proof.
  intros Hc Hb. unfold scale_mean_vec, wmean.
  pose proof (pdiv_veq c c' b b' Hc Hb) as Hp.
  rewrite (nansum_mul_veq vals _ _ Hp), (keep_valued_veq vals _ _ Hp). reflexivity.
Qed.

Section RowMore.
  Variable S : survey.
  Variable tv : tvar.
  Variables vr vc : nat.
  Variable kc : kind.
  Variables ms mc : list bool.
  Variable k : nat.
  Variables rsubs csubs rsubs' csubs' : list subtotal.
  Variable kk : nat.
  Variables dn dn' rd cd rd' cd' : bool.
  Hypothesis Ht : t_ok tv.
  Hypothesis Hc : cat_or_mr kc.
  Hypothesis Hk : k < t_n tv.
  Hypothesis Hvar : vc <> vr.
  Hypothesis Htv : tv_other tv vr.
  Hypothesis Hkk : kk < length rsubs.
  Let s := nth kk rsubs nosub.
  Hypothesis Hsub : s_sub s = [].
  Hypothesis Hoffs : Forall (fun i => i < n_valid ms) (s_add s).
  Hypothesis Hnd : NoDup (s_add s).
  Hypothesis Hfresh : fresh_for vr ms S.
  Hypothesis Hpos : 0 < n_valid ms.

  Let nr := nval ms.
  Let nc := nval mc.
  Let nr' := Datatypes.S nr.
  Notation OC := (o_counts S tv vr vc kc ms mc k).
  Notation ORB := (o_rb S tv vr vc kc ms mc k).
  Notation OCB := (o_cb S tv vr vc kc ms mc k).
  Notation OTB := (o_tb S tv vr vc kc ms mc k).
  Notation MC := (m_counts S tv vr vc kc ms mc k rsubs kk).
  Notation MRB := (m_rb S tv vr vc kc ms mc k rsubs kk).
  Notation MCB := (m_cb S tv vr vc kc ms mc k rsubs kk).
  Notation MTB := (m_tb S tv vr vc kc ms mc k rsubs kk).

  (* ---- any function of the z-score: p-values through any CDF --------------------------- *)
  Theorem merge_z_function {A : Type} (g : xq -> A) j : j < nc ->
    (forall x y, x =x= y -> g x = g y) ->
    g (z_zabs (mnth (b_rows (count_blocks nr nc rsubs csubs OC dn)) kk j)
              (mnth (b_rows (row_base_blocks nr nc rsubs csubs ORB)) kk j)
              (mnth (b_rows (col_base_blocks nr nc rsubs csubs OCB)) kk j)
              (mnth (b_rows (table_base_blocks nr nc rsubs csubs OTB)) kk j))
    = g (z_zabs (mnth MC nr j) (mnth MRB nr j) (mnth MCB nr j) (mnth MTB nr j)).
  Proof.
    intros Hj Hg. apply Hg.
    apply (merge_zscore_cell S tv vr vc kc ms mc k rsubs csubs kk dn Ht Hc Hk Hvar Htv Hkk Hsub Hoffs Hnd
             Hfresh Hpos j Hj).
  Qed.

  (* ---- population counts: proportion picked by the categorical-date position ------------- *)
  Theorem merge_population_counts rcd ccd N f j : j < nc ->
    pop_cell (pop_choice rcd ccd
                (mnth (b_rows (row_proportions nr nc rsubs csubs OC dn rd cd ORB)) kk j)
                (mnth (b_rows (col_proportions nr nc rsubs csubs OC dn rd cd OCB)) kk j)
                (mnth (b_rows (table_proportions nr nc rsubs csubs OC dn OTB)) kk j)) N f false
    =x= pop_cell (pop_choice rcd ccd
                (mnth (b_base (row_proportions nr' nc rsubs' csubs' MC dn' rd' cd' MRB)) nr j)
                (mnth (b_base (col_proportions nr' nc rsubs' csubs' MC dn' rd' cd' MCB)) nr j)
                (mnth (b_base (table_proportions nr' nc rsubs' csubs' MC dn' MTB)) nr j)) N f false.
  Proof.
    intros Hj. unfold pop_cell.
    apply xmul_Proper; [|reflexivity]. apply xmul_Proper; [|reflexivity].
    unfold pop_choice. destruct rcd; [|destruct ccd].
    - apply (merge_row_proportions S tv vr vc kc ms mc k rsubs csubs rsubs' csubs' kk dn dn' rd cd rd' cd'
               Ht Hc Hk Hvar Htv Hkk Hsub Hoffs Hnd Hfresh Hpos j Hj).
    - apply (merge_column_proportions S tv vr vc kc ms mc k rsubs csubs rsubs' csubs' kk dn dn' rd cd rd' cd'
               Ht Hc Hk Hvar Htv Hkk Hsub Hoffs Hnd Hfresh Hpos j Hj).
    - apply (merge_table_proportions S tv vr vc kc ms mc k rsubs csubs rsubs' csubs' kk dn dn'
               Ht Hc Hk Hvar Htv Hkk Hsub Hoffs Hnd Hfresh Hpos j Hj).
  Qed.

  (* ---- rows scale mean of the inserted row: its counts / row bases over all base columns -- *)
  Definition sub_row_counts : list xq :=
    tab nc (fun j => mnth (b_rows (count_blocks nr nc rsubs csubs OC dn)) kk j).
  Definition sub_row_bases : list xq :=
    tab nc (fun j => mnth (b_rows (row_base_blocks nr nc rsubs csubs ORB)) kk j).
  Definition merged_row_counts : list xq := tab nc (fun j => mnth MC nr j).
  Definition merged_row_bases : list xq := tab nc (fun j => mnth MRB nr j).

  Theorem merge_scale_mean vals :
    scale_mean_vec sub_row_counts sub_row_bases vals
    =x= scale_mean_vec merged_row_counts merged_row_bases vals.
  Proof.
    apply scale_mean_vec_veq; apply veq_tab; intros j Hj.
    - apply (merge_block_counts S tv vr vc kc ms mc k rsubs csubs kk dn Ht Hc Hk Hvar Htv Hkk Hsub Hoffs Hnd
               Hfresh Hpos j Hj).
    - apply (merge_block_row_bases S tv vr vc kc ms mc k rsubs csubs kk Ht Hc Hk Hvar Htv Hkk Hsub Hoffs Hnd
               Hfresh Hpos j Hj).
  Qed.
End RowMore.

(* ==================================================================================== *)
(** * (C) COLUMN subtotal: the derived measures (mirror of MergeMeasures.v parts 1-2) *)

Section ColBlocks.
  Variable nr nc : nat.
  Variable rsubs csubs : list subtotal.
  Variable l : nat.
  Hypothesis Hl : l < length csubs.
  Let s := nth l csubs nosub.

  Lemma count_blocks_cols counts dn i : i < nr ->
    mnth (b_cols (count_blocks nr nc rsubs csubs counts dn)) i l = subcol_cell counts dn s i.
  Proof. intros Hi. unfold count_blocks, sum_blocks; simpl. rewrite tab2_mnth by assumption. reflexivity. Qed.
  Lemma row_base_blocks_cols rb i : i < nr ->
    mnth (b_cols (row_base_blocks nr nc rsubs csubs rb)) i l = mnth rb i 0.
  Proof. intros Hi. unfold row_base_blocks; simpl. rewrite tab2_mnth by assumption. reflexivity. Qed.
  Lemma col_base_blocks_cols cb i : i < nr ->
    mnth (b_cols (col_base_blocks nr nc rsubs csubs cb)) i l = subcol_cell cb true s i.
  Proof. intros Hi. unfold col_base_blocks; simpl. rewrite tab2_mnth by assumption. reflexivity. Qed.
  Lemma table_base_blocks_cols tb i : i < nr ->
    mnth (b_cols (table_base_blocks nr nc rsubs csubs tb)) i l = mnth tb i 0.
  Proof. intros Hi. unfold table_base_blocks; simpl. rewrite tab2_mnth by assumption. reflexivity. Qed.
End ColBlocks.

Section DerivedCol.
  (* original table nr x nc with subtotals rsubs / csubs; merged table nr x nc' with any
     insertions; [l] = the column subtotal under study, [mcol] = the merged column *)
  Variables nr nc nc' : nat.
  Variables rsubs csubs rsubs' csubs' : list subtotal.
  Variable l mcol i : nat.
  Variables counts rb cb tb counts' rb' cb' tb' : mat.
  Variables dn dn' rd cd rd' cd' : bool.
  Hypothesis Hl : l < length csubs.
  Hypothesis Hi : i < nr.
  Hypothesis Hm : mcol < nc'.
  Let s := nth l csubs nosub.
  Hypothesis Hsub : s_sub s = [].
  Hypothesis Hcnt : forall b, subcol_cell counts b s i =x= mnth counts' i mcol.
  Hypothesis Hcb : subcol_cell cb true s i =x= mnth cb' i mcol.
  Hypothesis Hrb : mnth rb i 0 =x= mnth rb' i mcol.
  Hypothesis Htb : mnth tb i 0 =x= mnth tb' i mcol.

  Lemma has_subs_sc : has_subs s = false.
  Proof. unfold has_subs. rewrite Hsub. reflexivity. Qed.

  Theorem derived_col_row_proportions :
    mnth (b_cols (row_proportions nr nc rsubs csubs counts dn rd cd rb)) i l
    =x= mnth (b_base (row_proportions nr nc' rsubs' csubs' counts' dn' rd' cd' rb')) i mcol.
  Proof.
    unfold row_proportions.
    rewrite (props_cols nr nc rsubs csubs _ _ rb counts rd cd i l Hi Hl). cbv zeta.
    fold s. rewrite has_subs_sc, andb_false_r.
    rewrite (props_base nr nc' rsubs' csubs' _ _ rb' counts' rd' cd' i mcol Hi Hm).
    rewrite (count_blocks_cols nr nc rsubs csubs l Hl counts dn i Hi),
            (row_base_blocks_cols nr nc rsubs csubs l Hl rb i Hi).
    rewrite count_blocks_base, row_base_blocks_base. fold s. rewrite (Hcnt dn), Hrb. reflexivity.
  Qed.

  Theorem derived_col_column_proportions :
    mnth (b_cols (col_proportions nr nc rsubs csubs counts dn rd cd cb)) i l
    =x= mnth (b_base (col_proportions nr nc' rsubs' csubs' counts' dn' rd' cd' cb')) i mcol.
  Proof.
    unfold col_proportions.
    rewrite (props_cols nr nc rsubs csubs _ _ cb counts rd cd i l Hi Hl). cbv zeta.
    fold s. rewrite has_subs_sc, andb_false_r.
    rewrite (props_base nr nc' rsubs' csubs' _ _ cb' counts' rd' cd' i mcol Hi Hm).
    rewrite (count_blocks_cols nr nc rsubs csubs l Hl counts dn i Hi),
            (col_base_blocks_cols nr nc rsubs csubs l Hl cb i Hi).
    rewrite count_blocks_base, col_base_blocks_base. fold s. rewrite (Hcnt dn), Hcb. reflexivity.
  Qed.

  Theorem derived_col_table_proportions :
    mnth (b_cols (table_proportions nr nc rsubs csubs counts dn tb)) i l
    =x= mnth (b_base (table_proportions nr nc' rsubs' csubs' counts' dn' tb')) i mcol.
  Proof.
    unfold table_proportions, div_blocks. cbn [b_cols b_base].
    rewrite (tab2_mnth _ _ _ i l Hi Hl), (tab2_mnth _ _ _ i mcol Hi Hm).
    rewrite (count_blocks_cols nr nc rsubs csubs l Hl counts dn i Hi),
            (table_base_blocks_cols nr nc rsubs csubs l Hl tb i Hi).
    rewrite count_blocks_base, table_base_blocks_base. fold s. rewrite (Hcnt dn), Htb. reflexivity.
  Qed.

  Section Var.
    Variables P T P' T' : blocks.
    Hypothesis HP : mnth (b_cols P) i l =x= mnth (b_base P') i mcol.
    Hypothesis HT : mnth (b_cols T) i l =x= mnth (b_base T') i mcol.

    Theorem derived_col_variance :
      mnth (b_cols (variance_blocks counts nr nc rsubs csubs P T)) i l
      =x= mnth (b_base (variance_blocks counts' nr nc' rsubs' csubs' P' T')) i mcol.
    Proof.
      destruct (var_blocks_pointwise counts nr nc rsubs csubs P T) as [_ [Hcols _]].
      destruct (var_blocks_pointwise counts' nr nc' rsubs' csubs' P' T') as [Hbase _].
      rewrite (Hcols i l Hi Hl), (Hbase i mcol Hi Hm).
      destruct (pos_neg_cols counts nr nc rsubs csubs i l Hi Hl) as [-> ->].
      destruct (pos_neg_base counts' nr nc' rsubs' csubs' i mcol Hi Hm) as [-> ->].
      fold s. rewrite Hsub. unfold sum_cols at 2. simpl map. simpl xsum.
      rewrite HP, HT.
      rewrite <- (subcol_cell_nosub counts false s i Hsub), (Hcnt false). reflexivity.
    Qed.

    Theorem derived_col_stderr_sq :
      stderr_sq (mnth (b_cols (variance_blocks counts nr nc rsubs csubs P T)) i l) (mnth (b_cols T) i l)
      =x= stderr_sq (mnth (b_base (variance_blocks counts' nr nc' rsubs' csubs' P' T')) i mcol)
                    (mnth (b_base T') i mcol).
    Proof. unfold stderr_sq. rewrite derived_col_variance, HT. reflexivity. Qed.
  End Var.

  Theorem derived_col_any (f : xq -> xq -> xq -> xq -> xq) :
    Proper (xeq ==> xeq ==> xeq ==> xeq ==> xeq) f ->
    f (subcol_cell counts dn s i) (mnth rb i 0) (subcol_cell cb true s i) (mnth tb i 0)
    =x= f (mnth counts' i mcol) (mnth rb' i mcol) (mnth cb' i mcol) (mnth tb' i mcol).
  Proof. intros Hf. apply Hf; [apply Hcnt| exact Hrb| exact Hcb| exact Htb]. Qed.
End DerivedCol.

Section ColSurvey.
  Variable S : survey.
  Variable tv : tvar.
  Variables vr vc : nat.
  Variable kr : kind.
  Variables mr ms : list bool.       (* rows flags; flags of the merged COLUMNS variable *)
  Variable k : nat.
  Variables rsubs csubs rsubs' csubs' : list subtotal.
  Variable l : nat.
  Variables dn dn' rd cd rd' cd' : bool.
  Hypothesis Ht : t_ok tv.
  Hypothesis Hr : cat_or_mr kr.
  Hypothesis Hk : k < t_n tv.
  Hypothesis Hvar : vr <> vc.
  Hypothesis Htv : tv_other tv vc.
  Hypothesis Hl : l < length csubs.
  Let s := nth l csubs nosub.
  Hypothesis Hsub : s_sub s = [].
  Hypothesis Hoffs : Forall (fun j => j < n_valid ms) (s_add s).
  Hypothesis Hnd : NoDup (s_add s).
  Hypothesis Hfresh : fresh_for vc ms S.
  Hypothesis Hpos : 0 < n_valid ms.

  Let nr := nval mr.
  Let nc := nval ms.
  Let nc' := Datatypes.S nc.
  Let ms' := merged_flags ms.
  Let S' := merged_cols_survey S vc ms s.
  Let V := slice_of tv vr kr mr vc KCat ms S k.
  Let V' := slice_of tv vr kr mr vc KCat ms' S' k.
  Let sl := length mrv.

  (* base blocks of the original table and of the table tabulated from the merged survey *)
  Definition oc_counts := tab2 nr nc (counts_of V (kcls kr) CCat).
  Definition oc_rb := tab2 nr nc (row_bases_of V nc sl (kcls kr) CCat).
  Definition oc_cb := tab2 nr nc (column_bases_of V nr sl (kcls kr) CCat).
  Definition oc_tb := tab2 nr nc (table_bases_of V nr nc sl sl (kcls kr) CCat).
  Definition mc_counts := tab2 nr nc' (counts_of V' (kcls kr) CCat).
  Definition mc_rb := tab2 nr nc' (row_bases_of V' nc' sl (kcls kr) CCat).
  Definition mc_cb := tab2 nr nc' (column_bases_of V' nr sl (kcls kr) CCat).
  Definition mc_tb := tab2 nr nc' (table_bases_of V' nr nc' sl sl (kcls kr) CCat).

  Lemma nclt : nc < nc'. Proof. unfold nc'. apply Nat.lt_succ_diag_r. Qed.
  Lemma nval_ms'c : nval ms' = nc'. Proof. apply n_valid_merged. Qed.

  Section Cell.
    Variable i : nat.
    Hypothesis Hi : i < nr.

    Lemma Ac_counts b : subcol_cell oc_counts b s i =x= mnth mc_counts i nc.
    Proof.
      unfold oc_counts, mc_counts. rewrite (tab2_mnth nr nc' _ i nc Hi nclt).
      apply (merge_counts_col S tv vr vc kr mr ms k s Ht Hr Hk Hvar Htv Hsub Hoffs Hnd Hfresh b i Hi).
    Qed.
    Lemma Ac_cb : subcol_cell oc_cb true s i =x= mnth mc_cb i nc.
    Proof.
      unfold oc_cb, mc_cb. rewrite (tab2_mnth nr nc' _ i nc Hi nclt).
      apply (merge_column_bases_col S tv vr vc kr mr ms k s Ht Hr Hk Hvar Htv Hsub Hoffs Hnd Hfresh true i Hi).
    Qed.
    Lemma Ac_rb : mnth oc_rb i 0 =x= mnth mc_rb i nc.
    Proof.
      unfold oc_rb, mc_rb. rewrite (tab2_mnth nr nc' _ i nc Hi nclt). rewrite <- nval_ms'c.
      apply (merge_row_bases_col S tv vr vc kr mr ms k s Ht Hr Hk Hvar Htv Hoffs Hfresh i Hi Hpos).
    Qed.
    Lemma Ac_tb : mnth oc_tb i 0 =x= mnth mc_tb i nc.
    Proof.
      unfold oc_tb, mc_tb. rewrite (tab2_mnth nr nc' _ i nc Hi nclt). rewrite <- nval_ms'c.
      apply (merge_table_bases_col S tv vr vc kr mr ms k s Ht Hr Hk Hvar Htv Hoffs Hfresh i Hi Hpos).
    Qed.

    (* first-order blocks *)
    Theorem merge_col_block_counts :
      mnth (b_cols (count_blocks nr nc rsubs csubs oc_counts dn)) i l =x= mnth mc_counts i nc.
    Proof. rewrite (count_blocks_cols nr nc rsubs csubs l Hl oc_counts dn i Hi). apply Ac_counts. Qed.
    Theorem merge_col_block_row_bases :
      mnth (b_cols (row_base_blocks nr nc rsubs csubs oc_rb)) i l =x= mnth mc_rb i nc.
    Proof. rewrite (row_base_blocks_cols nr nc rsubs csubs l Hl oc_rb i Hi). apply Ac_rb. Qed.
    Theorem merge_col_block_column_bases :
      mnth (b_cols (col_base_blocks nr nc rsubs csubs oc_cb)) i l =x= mnth mc_cb i nc.
    Proof. rewrite (col_base_blocks_cols nr nc rsubs csubs l Hl oc_cb i Hi). apply Ac_cb. Qed.
    Theorem merge_col_block_table_bases :
      mnth (b_cols (table_base_blocks nr nc rsubs csubs oc_tb)) i l =x= mnth mc_tb i nc.
    Proof. rewrite (table_base_blocks_cols nr nc rsubs csubs l Hl oc_tb i Hi). apply Ac_tb. Qed.

    (* proportions *)
    Theorem merge_col_row_proportions :
      mnth (b_cols (row_proportions nr nc rsubs csubs oc_counts dn rd cd oc_rb)) i l
      =x= mnth (b_base (row_proportions nr nc' rsubs' csubs' mc_counts dn' rd' cd' mc_rb)) i nc.
    Proof.
      apply (derived_col_row_proportions nr nc nc' rsubs csubs rsubs' csubs' l nc i
               oc_counts oc_rb mc_counts mc_rb dn dn' rd cd rd' cd' Hl Hi nclt Hsub Ac_counts Ac_rb).
    Qed.
    Theorem merge_col_column_proportions :
      mnth (b_cols (col_proportions nr nc rsubs csubs oc_counts dn rd cd oc_cb)) i l
      =x= mnth (b_base (col_proportions nr nc' rsubs' csubs' mc_counts dn' rd' cd' mc_cb)) i nc.
    Proof.
      apply (derived_col_column_proportions nr nc nc' rsubs csubs rsubs' csubs' l nc i
               oc_counts oc_cb mc_counts mc_cb dn dn' rd cd rd' cd' Hl Hi nclt Hsub Ac_counts Ac_cb).
    Qed.
    Theorem merge_col_table_proportions :
      mnth (b_cols (table_proportions nr nc rsubs csubs oc_counts dn oc_tb)) i l
      =x= mnth (b_base (table_proportions nr nc' rsubs' csubs' mc_counts dn' mc_tb)) i nc.
    Proof.
      apply (derived_col_table_proportions nr nc nc' rsubs csubs rsubs' csubs' l nc i
               oc_counts oc_tb mc_counts mc_tb dn dn' Hl Hi nclt Ac_counts Ac_tb).
    Qed.

    (* variances / squared standard errors, three directions *)
    Let Pr := row_proportions nr nc rsubs csubs oc_counts dn rd cd oc_rb.
    Let Pr' := row_proportions nr nc' rsubs' csubs' mc_counts dn' rd' cd' mc_rb.
    Let Tr := row_base_blocks nr nc rsubs csubs oc_rb.
    Let Tr' := row_base_blocks nr nc' rsubs' csubs' mc_rb.
    Let Pc := col_proportions nr nc rsubs csubs oc_counts dn rd cd oc_cb.
    Let Pc' := col_proportions nr nc' rsubs' csubs' mc_counts dn' rd' cd' mc_cb.
    Let Tc := col_base_blocks nr nc rsubs csubs oc_cb.
    Let Tc' := col_base_blocks nr nc' rsubs' csubs' mc_cb.
    Let Pt := table_proportions nr nc rsubs csubs oc_counts dn oc_tb.
    Let Pt' := table_proportions nr nc' rsubs' csubs' mc_counts dn' mc_tb.
    Let Tt := table_base_blocks nr nc rsubs csubs oc_tb.
    Let Tt' := table_base_blocks nr nc' rsubs' csubs' mc_tb.

    Theorem merge_col_row_variance :
      mnth (b_cols (variance_blocks oc_counts nr nc rsubs csubs Pr Tr)) i l
      =x= mnth (b_base (variance_blocks mc_counts nr nc' rsubs' csubs' Pr' Tr')) i nc.
    Proof.
      apply (derived_col_variance nr nc nc' rsubs csubs rsubs' csubs' l nc i oc_counts mc_counts
               Hl Hi nclt Hsub Ac_counts Pr Tr Pr' Tr' merge_col_row_proportions merge_col_block_row_bases).
    Qed.
    Theorem merge_col_column_variance :
      mnth (b_cols (variance_blocks oc_counts nr nc rsubs csubs Pc Tc)) i l
      =x= mnth (b_base (variance_blocks mc_counts nr nc' rsubs' csubs' Pc' Tc')) i nc.
    Proof.
      apply (derived_col_variance nr nc nc' rsubs csubs rsubs' csubs' l nc i oc_counts mc_counts
               Hl Hi nclt Hsub Ac_counts Pc Tc Pc' Tc' merge_col_column_proportions merge_col_block_column_bases).
    Qed.
    Theorem merge_col_table_variance :
      mnth (b_cols (variance_blocks oc_counts nr nc rsubs csubs Pt Tt)) i l
      =x= mnth (b_base (variance_blocks mc_counts nr nc' rsubs' csubs' Pt' Tt')) i nc.
    Proof.
      apply (derived_col_variance nr nc nc' rsubs csubs rsubs' csubs' l nc i oc_counts mc_counts
               Hl Hi nclt Hsub Ac_counts Pt Tt Pt' Tt' merge_col_table_proportions merge_col_block_table_bases).
    Qed.

    Theorem merge_col_column_stderr_sq :
      stderr_sq (mnth (b_cols (variance_blocks oc_counts nr nc rsubs csubs Pc Tc)) i l) (mnth (b_cols Tc) i l)
      =x= stderr_sq (mnth (b_base (variance_blocks mc_counts nr nc' rsubs' csubs' Pc' Tc')) i nc)
                    (mnth (b_base Tc') i nc).
    Proof. unfold stderr_sq. rewrite merge_col_column_variance. unfold Tc at 1. rewrite merge_col_block_column_bases. reflexivity. Qed.

    (* z-score cell, and any congruent function of count and the three bases *)
    Theorem merge_col_any_cell_measure (f : xq -> xq -> xq -> xq -> xq) :
      Proper (xeq ==> xeq ==> xeq ==> xeq ==> xeq) f ->
      f (mnth (b_cols (count_blocks nr nc rsubs csubs oc_counts dn)) i l)
        (mnth (b_cols Tr) i l) (mnth (b_cols Tc) i l) (mnth (b_cols Tt) i l)
      =x= f (mnth mc_counts i nc) (mnth mc_rb i nc) (mnth mc_cb i nc) (mnth mc_tb i nc).
    Proof.
      intros Hf. unfold Tr, Tc, Tt.
      apply Hf; [apply merge_col_block_counts| apply merge_col_block_row_bases
                 | apply merge_col_block_column_bases| apply merge_col_block_table_bases].
    Qed.

    Theorem merge_col_zscore_cell :
      z_zabs (mnth (b_cols (count_blocks nr nc rsubs csubs oc_counts dn)) i l)
             (mnth (b_cols Tr) i l) (mnth (b_cols Tc) i l) (mnth (b_cols Tt) i l)
      =x= z_zabs (mnth mc_counts i nc) (mnth mc_rb i nc) (mnth mc_cb i nc) (mnth mc_tb i nc).
    Proof. apply merge_col_any_cell_measure. exact z_zabs_Proper. Qed.
  End Cell.
End ColSurvey.

(* ==================================================================================== *)
(** * (A') variances / squared standard errors at intersections

   The Positive / Negative term blocks of Model/Variance.v at an intersection of two subtotals
   without subtrahends are the double sum of the counts and 0; the three-term formula therefore
   is the body formula [var_cell p base count 0] on the numbers of the both-merged cell. *)

Section InterVariance.
  Variable counts : mat.
  Variable nr nc : nat.
  Variable rsubs csubs : list subtotal.
  Variables kk l : nat.
  Hypothesis Hkk : kk < length rsubs.
  Hypothesis Hl : l < length csubs.
  Hypothesis Hrsub : s_sub (nth kk rsubs nosub) = [].
  Hypothesis Hcsub : s_sub (nth l csubs nosub) = [].

  Lemma pos_neg_inter dn :
    mnth (b_inter (pos_blocks counts nr nc rsubs csubs)) kk l
      =x= mnth (b_inter (count_blocks nr nc rsubs csubs counts dn)) kk l /\
    mnth (b_inter (neg_blocks counts nr nc rsubs csubs)) kk l = Fin 0.
  Proof.
    pose proof (has_subs_nil _ Hrsub) as Hr. pose proof (has_subs_nil _ Hcsub) as Hc.
    split.
    - rewrite (count_blocks_inter nr nc rsubs csubs kk l Hkk Hl counts dn).
      unfold pos_blocks. cbn [b_inter]. rewrite tab2_mnth by assumption.
      rewrite Hr, Hc. cbn [andb].
      symmetry. etransitivity; [apply (intersection_plain counts dn dn _ _ Hr Hc)|]. reflexivity.
    - unfold neg_blocks. cbn [b_inter]. rewrite tab2_mnth by assumption. cbv zeta.
      rewrite Hr, Hc. reflexivity.
  Qed.

  Lemma variance_inter_cell P T dn :
    mnth (b_inter (variance_blocks counts nr nc rsubs csubs P T)) kk l
    =x= var_cell (mnth (b_inter P) kk l) (mnth (b_inter T) kk l)
                 (mnth (b_inter (count_blocks nr nc rsubs csubs counts dn)) kk l) (Fin 0).
  Proof.
    destruct (var_blocks_pointwise counts nr nc rsubs csubs P T) as [_ [_ [_ Hin]]].
    rewrite (Hin kk l Hkk Hl). destruct (pos_neg_inter dn) as [Hp ->]. rewrite Hp. reflexivity.
  Qed.
End InterVariance.

Section InterSurveyVariance.
  Variable S : survey.
  Variable tv : tvar.
  Variables vr vc : nat.
  Variables ms mc : list bool.
  Variable k : nat.
  Variables rsubs csubs : list subtotal.
  Variables kk l : nat.
  Variables dn rd cd : bool.
  Hypothesis Ht : t_ok tv.
  Hypothesis Hk : k < t_n tv.
  Hypothesis Hvar : vr <> vc.
  Hypothesis Htvr : tv_other tv vr.
  Hypothesis Htvc : tv_other tv vc.
  Hypothesis Hkk : kk < length rsubs.
  Hypothesis Hl : l < length csubs.
  Hypothesis Hrsub : s_sub (nth kk rsubs nosub) = [].
  Hypothesis Hcsub : s_sub (nth l csubs nosub) = [].
  Hypothesis Hroffs : Forall (fun i => i < n_valid ms) (s_add (nth kk rsubs nosub)).
  Hypothesis Hcoffs : Forall (fun j => j < n_valid mc) (s_add (nth l csubs nosub)).
  Hypothesis Hrnd : NoDup (s_add (nth kk rsubs nosub)).
  Hypothesis Hcnd : NoDup (s_add (nth l csubs nosub)).
  Hypothesis Hrfresh : fresh_for vr ms S.
  Hypothesis Hcfresh : fresh_for vc mc S.
  Hypothesis Hrpos : 0 < n_valid ms.
  Hypothesis Hcpos : 0 < n_valid mc.

  Notation nr := (nval ms).
  Notation nc := (nval mc).
  Notation OC := (o_counts S tv vr vc KCat ms mc k).
  Notation ORB := (o_rb S tv vr vc KCat ms mc k).
  Notation OCB := (o_cb S tv vr vc KCat ms mc k).
  Notation OTB := (o_tb S tv vr vc KCat ms mc k).
  Notation bc := (b_count S tv vr vc ms mc k rsubs csubs kk l).
  Notation brb := (b_rb S tv vr vc ms mc k rsubs csubs kk l).
  Notation bcb := (b_cb S tv vr vc ms mc k rsubs csubs kk l).
  Notation btb := (b_tb S tv vr vc ms mc k rsubs csubs kk l).

  Theorem merge_inter_row_variance :
    mnth (b_inter (variance_blocks OC nr nc rsubs csubs
                     (row_proportions nr nc rsubs csubs OC dn rd cd ORB)
                     (row_base_blocks nr nc rsubs csubs ORB))) kk l
    =x= var_cell (xdiv bc brb) brb bc (Fin 0).
  Proof.
    rewrite (variance_inter_cell OC nr nc rsubs csubs kk l Hkk Hl Hrsub Hcsub _ _ dn).
    apply var_cell_Proper; [| | |reflexivity].
    - apply (merge_inter_row_proportion S tv vr vc ms mc k rsubs csubs kk l dn Ht Hk Hvar Htvr Htvc Hkk Hl
               Hrsub Hcsub Hroffs Hcoffs Hrnd Hcnd Hrfresh Hcfresh Hcpos rd cd).
    - apply (merge_inter_block_row_bases S tv vr vc ms mc k rsubs csubs kk l Ht Hk Hvar Htvr Htvc Hkk Hl
               Hrsub Hroffs Hcoffs Hrnd Hrfresh Hcfresh Hcpos).
    - apply (merge_inter_block_counts S tv vr vc ms mc k rsubs csubs kk l dn Ht Hk Hvar Htvr Htvc Hkk Hl
               Hrsub Hcsub Hroffs Hcoffs Hrnd Hcnd Hrfresh Hcfresh).
  Qed.

  Theorem merge_inter_column_variance :
    mnth (b_inter (variance_blocks OC nr nc rsubs csubs
                     (col_proportions nr nc rsubs csubs OC dn rd cd OCB)
                     (col_base_blocks nr nc rsubs csubs OCB))) kk l
    =x= var_cell (xdiv bc bcb) bcb bc (Fin 0).
  Proof.
    rewrite (variance_inter_cell OC nr nc rsubs csubs kk l Hkk Hl Hrsub Hcsub _ _ dn).
    apply var_cell_Proper; [| | |reflexivity].
    - apply (merge_inter_column_proportion S tv vr vc ms mc k rsubs csubs kk l dn Ht Hk Hvar Htvr Htvc Hkk Hl
               Hrsub Hcsub Hroffs Hcoffs Hrnd Hcnd Hrfresh Hcfresh Hrpos rd cd).
    - apply (merge_inter_block_column_bases S tv vr vc ms mc k rsubs csubs kk l Ht Hk Hvar Htvr Htvc Hkk Hl
               Hcsub Hroffs Hcoffs Hcnd Hrfresh Hcfresh Hrpos).
    - apply (merge_inter_block_counts S tv vr vc ms mc k rsubs csubs kk l dn Ht Hk Hvar Htvr Htvc Hkk Hl
               Hrsub Hcsub Hroffs Hcoffs Hrnd Hcnd Hrfresh Hcfresh).
  Qed.

  Theorem merge_inter_table_variance :
    mnth (b_inter (variance_blocks OC nr nc rsubs csubs
                     (table_proportions nr nc rsubs csubs OC dn OTB)
                     (table_base_blocks nr nc rsubs csubs OTB))) kk l
    =x= var_cell (xdiv bc btb) btb bc (Fin 0).
  Proof.
    rewrite (variance_inter_cell OC nr nc rsubs csubs kk l Hkk Hl Hrsub Hcsub _ _ dn).
    apply var_cell_Proper; [| | |reflexivity].
    - apply (merge_inter_table_proportion S tv vr vc ms mc k rsubs csubs kk l dn Ht Hk Hvar Htvr Htvc Hkk Hl
               Hrsub Hcsub Hroffs Hcoffs Hrnd Hcnd Hrfresh Hcfresh Hrpos Hcpos).
    - apply (merge_inter_block_table_bases S tv vr vc ms mc k rsubs csubs kk l Ht Hk Hvar Htvr Htvc Hkk Hl
               Hroffs Hcoffs Hrfresh Hcfresh Hrpos Hcpos).
    - apply (merge_inter_block_counts S tv vr vc ms mc k rsubs csubs kk l dn Ht Hk Hvar Htvr Htvc Hkk Hl
               Hrsub Hcsub Hroffs Hcoffs Hrnd Hcnd Hrfresh Hcfresh).
  Qed.
End InterSurveyVariance.
