(* Proofs/GenAgreeScaleTac.v -- environments and list-level facts of the GenAgree tie of the scale
   statistics (matrix/measure.py _ScaleMean / _ScaleMeanStddev / _ScaleMeanStderr / _ScaleMedian,
   stripe/measure.py _ScaledCounts) to Model/Scale.v.  The lemmas are in GenAgreeScaleMean.v,
   GenAgreeScaleVar.v, GenAgreeScaleMedian.v, GenAgreeScaleStrand.v. *)
From Coq Require Import QArith ZArith List Bool Lia Arith String ZifyBool Setoid Morphisms.
From CC Require Import Base.XQ Base.ListX Base.VecExp Model.Scale Proofs.GenAgreeVecTac.
Import ListNotations.
Local Close Scope Q_scope.
Local Open Scope string_scope.
Local Open Scope nat_scope.

(* ------------------------------------------------------------------------------------ *)
(** * environments *)

(* a marginal of matrix/measure.py: `self._orientation`, the other attribute paths by name *)
Definition env_scale (orient : string) (attrs : list (string * vval)) (var : string -> vval)
           (srt : list xq -> list nat) : venv :=
  mkVenv var (alist (("_orientation", VEnum orient) :: attrs)) no_get no_call srt.

Definition wf_mat (nc : nat) (m : list (list xq)) : Prop := Forall (fun r => List.length r = nc) m.

Lemma wf_mat_in nc m r : wf_mat nc m -> In r m -> List.length r = nc.
Proof. intros H Hr. unfold wf_mat in H. rewrite Forall_forall in H. apply H. exact Hr. Qed.

(* ------------------------------------------------------------------------------------ *)
(** * is_defined: not np.all(np.isnan(values)) *)

Lemma all_isnan_any_value l : forallb (fun b : bool => b) (map is_nan l) = negb (any_value l).
Proof.
  unfold any_value. induction l as [|a t IH]; simpl; [reflexivity|].
  rewrite IH. destruct (is_nan a); reflexivity.
Qed.

(* ------------------------------------------------------------------------------------ *)
(** * a[~np.isnan(values)] is the model's filter over the valued positions *)

Lemma mask_take_keep_valued vals props : List.length props = List.length vals ->
  mask_take props (map negb (map is_nan vals)) = keep_valued vals props.
Proof.
  unfold mask_take, keep_valued. revert props.
  induction vals as [|v vals IH]; intros [|p props] H; simpl in H; try discriminate; [reflexivity|].
  simpl. destruct (is_nan v); simpl; [apply IH; lia|]. f_equal. apply IH. lia.
Qed.

(* ------------------------------------------------------------------------------------ *)
(** * np.apply_along_axis *)

Lemma opt_all_scal_map (f : list xq -> vval) (g : list xq -> xq) P :
  (forall r, In r P -> f r = VS (g r)) ->
  opt_all (map (fun r => scal_of (f r)) P) = Some (map g P).
Proof.
  induction P as [|r t IH]; intros H; simpl; [reflexivity|].
  rewrite (H r) by (left; reflexivity). simpl. rewrite IH; [reflexivity|].
  intros r' Hr'. apply H. right. exact Hr'.
Qed.

Lemma v_apply_rows (f : list xq -> vval) (g : list xq -> xq) nc P :
  (List.length P =? 0) = false -> (forall r, In r P -> f r = VS (g r)) ->
  v_apply f (VZ 1) (VM nc P) = VV (map g P).
Proof.
  intros Hn H. unfold v_apply, apply_slices. rewrite Hn.
  rewrite (opt_all_scal_map f g P H). reflexivity.
Qed.

Lemma v_apply_cols (f : list xq -> vval) (g : list xq -> xq) nc P :
  (nc =? 0) = false -> (forall r, In r (cols_of nc P) -> f r = VS (g r)) ->
  v_apply f (VZ 0) (VM nc P) = VV (map g (cols_of nc P)).
Proof.
  intros Hn H. unfold v_apply, apply_slices. rewrite Hn.
  rewrite (opt_all_scal_map f g _ H). reflexivity.
Qed.

(* ------------------------------------------------------------------------------------ *)
(** * rows of a cell-wise quotient *)

Lemma map2_nil_l {A B C} (f : A -> B -> C) b : map2 f [] b = [].
Proof. reflexivity. Qed.
Lemma map2_cons {A B C} (f : A -> B -> C) x a y b : map2 f (x :: a) (y :: b) = f x y :: map2 f a b.
Proof. reflexivity. Qed.

Lemma map2_pdiv c b : map2 xdiv c b = pdiv c b.
Proof. reflexivity. Qed.

Lemma in_map2 {A B C} (f : A -> B -> C) a b z :
  In z (map2 f a b) -> exists x y, In x a /\ In y b /\ z = f x y.
Proof.
  unfold map2. intros H. apply in_map_iff in H. destruct H as [[x y] [E Hin]].
  exists x, y. split; [eapply in_combine_l; exact Hin|]. split; [eapply in_combine_r; exact Hin|].
  symmetry. exact E.
Qed.

Lemma map2_rows_length nc (f : xq -> xq -> xq) C B r :
  wf_mat nc C -> wf_mat nc B -> In r (map2 (map2 f) C B) -> List.length r = nc.
Proof.
  intros HC HB Hr. apply in_map2 in Hr. destruct Hr as [c [b [Hc [Hb ->]]]].
  rewrite map2_length, (wf_mat_in nc C c HC Hc), (wf_mat_in nc B b HB Hb). lia.
Qed.

Lemma map_map2 {A B C D} (g : C -> D) (f : A -> B -> C) a b :
  map g (map2 f a b) = map2 (fun x y => g (f x y)) a b.
Proof. unfold map2. rewrite map_map. reflexivity. Qed.

Lemma map2_empty {A B C} (f : A -> B -> C) a b :
  Nat.min (List.length a) (List.length b) = 0 -> map2 f a b = [].
Proof.
  intros H. destruct a; [reflexivity|]. destruct b; [reflexivity|]. simpl in H. lia.
Qed.

(* ------------------------------------------------------------------------------------ *)
(** * columns of a cell-wise quotient *)

Lemma vnth_map2 (f : xq -> xq -> xq) c b j :
  j < List.length c -> j < List.length b -> vnth (map2 f c b) j = f (vnth c j) (vnth b j).
Proof.
  revert b j. induction c as [|x c IH]; intros [|y b] j Hc Hb; simpl in Hc, Hb; try lia.
  rewrite map2_cons. destruct j; [reflexivity|].
  change (vnth (map2 f c b) j = f (vnth c j) (vnth b j)). apply IH; lia.
Qed.

Lemma mcol_map2 (f : xq -> xq -> xq) nc C B j :
  wf_mat nc C -> wf_mat nc B -> j < nc ->
  mcol (map2 (map2 f) C B) j = map2 f (mcol C j) (mcol B j).
Proof.
  intros HC. unfold mcol. revert B. induction HC as [|c C Hc HC IH]; intros B HB Hj; [reflexivity|].
  destruct B as [|b B]; [reflexivity|]. inversion HB as [|? ? Hb HB']; subst.
  rewrite map2_cons. cbn [map]. rewrite map2_cons. rewrite IH by assumption.
  rewrite vnth_map2 by lia. reflexivity.
Qed.

Lemma mcol_length (m : list (list xq)) j : List.length (mcol m j) = List.length m.
Proof. unfold mcol. apply map_length. Qed.

Lemma in_cols_of nc P r : In r (cols_of nc P) -> exists j, j < nc /\ r = mcol P j.
Proof.
  unfold cols_of, tab. intros H. apply in_map_iff in H. destruct H as [j [E Hj]].
  apply in_seq in Hj. exists j. split; [lia|symmetry; exact E].
Qed.

Lemma map_tab {A B} (g : A -> B) n (f : nat -> A) : map g (tab n f) = tab n (fun j => g (f j)).
Proof. unfold tab. rewrite map_map. reflexivity. Qed.

Lemma tab_ext_lt {A} n (f g : nat -> A) : (forall i, i < n -> f i = g i) -> tab n f = tab n g.
Proof. intros H. unfold tab. apply map_ext_in. intros i Hi. apply in_seq in Hi. apply H. lia. Qed.

Lemma tab_zero {A} n (f : nat -> A) : n = 0 -> tab n f = [].
Proof. intros ->. reflexivity. Qed.

(* ------------------------------------------------------------------------------------ *)
(** * the variance of one vector: masks vs the model's [valued_pairs] *)

Definition valued_mask (vals : list xq) : list bool := map negb (map is_nan vals).

Lemma mask_take_length {A} (l : list A) m : List.length l = List.length m ->
  List.length (mask_take l m) = count_true m.
Proof.
  unfold mask_take, count_true. revert m. induction l as [|a l IH]; intros [|b m] H; simpl in H; try discriminate; [reflexivity|].
  simpl. destruct b; simpl; [f_equal|]; apply IH; lia.
Qed.

Lemma mask_take_vals_fst vals (c : list xq) : List.length c = List.length vals ->
  mask_take vals (map negb (map is_nan vals)) = map fst (valued_pairs vals c).
Proof.
  unfold mask_take, valued_pairs. revert c.
  induction vals as [|v vals IH]; intros [|x c] H; simpl in H; try discriminate; [reflexivity|].
  simpl. destruct (is_nan v); simpl; [apply IH; lia|]. f_equal. apply IH. lia.
Qed.

Lemma mask_take_counts_snd vals (c : list xq) : List.length c = List.length vals ->
  mask_take c (map negb (map is_nan vals)) = map snd (valued_pairs vals c).
Proof. intros H. rewrite mask_take_keep_valued by exact H. reflexivity. Qed.

Lemma var_numerator_pairs (vp : list (xq * xq)) mu :
  map2 xmul (map snd vp) (map xsq (map (fun a => xsub a mu) (map fst vp)))
  = map (fun vc => xmul (snd vc) (xsq (xsub (fst vc) mu))) vp.
Proof.
  induction vp as [|[v c] t IH]; [reflexivity|]. cbn [map fst snd]. rewrite map2_cons, IH. reflexivity.
Qed.

(* counts[valued] * (values[valued] - mean) ** 2, summed, over sum(counts[valued]) *)
Lemma row_var_cell_raw vals c mu : List.length c = List.length vals ->
  xdiv (nansum (map2 xmul (mask_take c (map negb (map is_nan vals)))
                          (map xsq (map (fun a => xsub a mu)
                                        (mask_take vals (map negb (map is_nan vals)))))))
       (xsum (mask_take c (map negb (map is_nan vals))))
  = scale_var c vals mu.
Proof.
  intros H. rewrite (mask_take_vals_fst vals c H), (mask_take_counts_snd vals c H).
  rewrite var_numerator_pairs. reflexivity.
Qed.
(* .. and np.sqrt *)
Lemma row_var_cell vals c mu : List.length c = List.length vals ->
  root_arg (xdiv (nansum (map2 xmul (mask_take c (map negb (map is_nan vals)))
                                (map xsq (map (fun a => xsub a mu)
                                              (mask_take vals (map negb (map is_nan vals)))))))
                 (xsum (mask_take c (map negb (map is_nan vals)))))
  = sqrt_arg (scale_var c vals mu).
Proof. intros H. rewrite row_var_cell_raw by exact H. reflexivity. Qed.

Lemma repeat_S {A} (x : A) n : repeat x (S n) = x :: repeat x n.
Proof. reflexivity. Qed.

Lemma rows_var_list vals C means :
  wf_mat (List.length vals) C -> List.length means = List.length C ->
  map root_arg
      (map2 xdiv
         (map nansum
            (map2 (map2 xmul)
               (map (fun r => mask_take r (map negb (map is_nan vals))) C)
               (map (map xsq)
                  (map2 (fun (r : list xq) (u : xq) => map (fun a => xsub a u) r)
                        (repeat (mask_take vals (map negb (map is_nan vals))) (List.length C)) means))))
         (map xsum (map (fun r => mask_take r (map negb (map is_nan vals))) C)))
  = map2 (fun c mu => sqrt_arg (scale_var c vals mu)) C means.
Proof.
  intros HC. revert means. induction HC as [|c C Hc HC IH]; intros means Hm.
  - destruct means; [reflexivity|discriminate].
  - destruct means as [|mu means]; [discriminate|]. simpl in Hm.
    cbn [List.length map]. rewrite repeat_S. rewrite !map2_cons. cbn [map]. rewrite !map2_cons. cbn [map].
    rewrite map2_cons. cbn [map]. rewrite row_var_cell by exact Hc. f_equal. apply IH. lia.
Qed.

(* ------------------------------------------------------------------------------------ *)
(** * the variance of every COLUMN (the transposed computation of _columns_weighted_mean_stddev) *)

Lemma cols_of_length c (m : list (list xq)) : List.length (cols_of c m) = c.
Proof. unfold cols_of. apply tab_length. Qed.
#[export] Hint Rewrite cols_of_length mcol_length : vlen.

Lemma map2_tab {A B C} (f : A -> B -> C) n a b :
  map2 f (tab n a) (tab n b) = tab n (fun j => f (a j) (b j)).
Proof.
  unfold map2, tab. generalize (seq 0 n). intros l. induction l as [|x l IH]; [reflexivity|].
  simpl. f_equal. exact IH.
Qed.

Lemma mask_take_map {A B} (f : A -> B) l m : mask_take (map f l) m = map f (mask_take l m).
Proof.
  unfold mask_take. revert m. induction l as [|a l IH]; intros m; [reflexivity|].
  destruct m as [|b m]; [reflexivity|]. simpl. destruct b; simpl; [f_equal|]; apply IH.
Qed.

Lemma mcol_mask_take (C : list (list xq)) m j : mcol (mask_take C m) j = mask_take (mcol C j) m.
Proof. unfold mcol. symmetry. apply mask_take_map. Qed.

Lemma in_mask_take {A} (l : list A) m x : In x (mask_take l m) -> In x l.
Proof.
  unfold mask_take. intros H. apply in_map_iff in H. destruct H as [[y b] [E Hin]]. simpl in E. subst y.
  apply filter_In in Hin. destruct Hin as [Hin _]. eapply in_combine_l. exact Hin.
Qed.

Lemma wf_mat_mask_take nc C m : wf_mat nc C -> wf_mat nc (mask_take C m).
Proof.
  intros H. apply Forall_forall. intros r Hr. apply (wf_mat_in nc C r H). eapply in_mask_take. exact Hr.
Qed.

Lemma list_as_tab_len (l : list xq) k : List.length l = k -> tab k (vnth l) = l.
Proof.
  intros <-. apply (nth_ext _ _ NaN NaN).
  - apply tab_length.
  - intros i Hi. rewrite tab_length in Hi. rewrite tab_nth by exact Hi. reflexivity.
Qed.

(* a column of the transpose is a row *)
Lemma mcol_cols_of k (M : list (list xq)) j :
  wf_mat k M -> j < List.length M -> mcol (cols_of k M) j = nth j M [].
Proof.
  intros HM Hj. unfold cols_of. unfold mcol at 1. rewrite map_tab.
  rewrite (tab_ext_lt k _ (vnth (nth j M []))).
  - apply list_as_tab_len. apply (wf_mat_in k M _ HM). apply nth_In. exact Hj.
  - intros i Hi. rewrite mcol_vnth by exact Hj. reflexivity.
Qed.

Lemma nth_map2_repeat {A} (g : list xq -> xq -> A) (x : list xq) n means j d :
  j < n -> j < List.length means -> nth j (map2 g (repeat x n) means) d = g x (vnth means j).
Proof.
  revert means j. induction n as [|n IH]; intros means j Hn Hm; [lia|].
  destruct means as [|mu means]; [simpl in Hm; lia|]. rewrite repeat_S, map2_cons.
  destruct j; [reflexivity|]. simpl in Hm.
  change (nth j (map2 g (repeat x n) means) d = g x (vnth means j)). apply IH; lia.
Qed.

Lemma cols_var_list_raw nc vals C means :
  wf_mat nc C -> List.length vals = List.length C -> List.length means = nc ->
      (map2 xdiv
         (map nansum
            (cols_of nc
               (map2 (map2 xmul) (mask_take C (map negb (map is_nan vals)))
                  (cols_of (List.length (mask_take vals (map negb (map is_nan vals))))
                     (map (map xsq)
                        (map2 (fun (r : list xq) (u : xq) => map (fun a => xsub a u) r)
                              (repeat (mask_take vals (map negb (map is_nan vals))) nc) means))))))
         (map xsum (cols_of nc (mask_take C (map negb (map is_nan vals))))))
  = tab nc (fun j => scale_var (mcol C j) vals (vnth means j)).
Proof.
  intros HC Hv Hm.
  set (M := map negb (map is_nan vals)). set (vals' := mask_take vals M).
  set (SQ := map (map xsq) (map2 (fun (r : list xq) (u : xq) => map (fun a => xsub a u) r) (repeat vals' nc) means)).
  assert (HSQlen : List.length SQ = nc) by (unfold SQ; vnorm; lia).
  assert (HSQ : wf_mat (List.length vals') SQ).
  { apply Forall_forall. intros r Hr. unfold SQ in Hr. apply in_map_iff in Hr. destruct Hr as [r' [<- Hr']].
    apply in_map2 in Hr'. destruct Hr' as [x [u [Hx [_ ->]]]]. apply repeat_spec in Hx. subst x. vnorm. reflexivity. }
  unfold cols_of at 1 3. rewrite !map_tab, map2_tab. apply tab_ext_lt. intros j Hj.
  rewrite (mcol_map2 xmul nc).
  - rewrite mcol_mask_take. rewrite mcol_cols_of by (try exact HSQ; lia).
    unfold SQ. rewrite (map_nth (map xsq) _ [] j : nth j (map (map xsq) _) (map xsq []) = _).
    rewrite nth_map2_repeat by lia.
    apply row_var_cell_raw. rewrite mcol_length. lia.
  - apply wf_mat_mask_take. exact HC.
  - apply Forall_forall. intros r Hr. apply in_cols_of in Hr. destruct Hr as [i [_ ->]]. rewrite mcol_length. exact HSQlen.
  - exact Hj.
Qed.

Lemma cols_var_list nc vals C means :
  wf_mat nc C -> List.length vals = List.length C -> List.length means = nc ->
  map root_arg
      (map2 xdiv
         (map nansum
            (cols_of nc
               (map2 (map2 xmul) (mask_take C (map negb (map is_nan vals)))
                  (cols_of (List.length (mask_take vals (map negb (map is_nan vals))))
                     (map (map xsq)
                        (map2 (fun (r : list xq) (u : xq) => map (fun a => xsub a u) r)
                              (repeat (mask_take vals (map negb (map is_nan vals))) nc) means))))))
         (map xsum (cols_of nc (mask_take C (map negb (map is_nan vals))))))
  = tab nc (fun j => sqrt_arg (scale_var (mcol C j) vals (vnth means j))).
Proof. intros HC Hv Hm. rewrite (cols_var_list_raw nc vals C means HC Hv Hm), map_tab. reflexivity. Qed.
