(* Proofs about Model/Pairwise.v - statistics of property C13:
   the column-proportion t statistic (formula, sign, antisymmetry, self-comparison, df),
   the effective base, the legacy path, Welch's test for means, the overlap variant. *)
From Coq Require Import QArith Qabs ZArith List Bool Lia Arith Setoid Morphisms Lqa.
From CC Require Import Base.XQ Base.ListX Model.Pairwise Proofs.PairwiseXQ.
Import ListNotations.
Open Scope Q_scope.

Lemma xneg_fin q : xneg (Fin q) = Fin (- q). Proof. reflexivity. Qed.
Lemma xadd_fin p q : xadd (Fin p) (Fin q) = Fin (p + q). Proof. reflexivity. Qed.
Lemma xmul_fin p q : xmul (Fin p) (Fin q) = Fin (p * q). Proof. reflexivity. Qed.
Lemma xabs_fin q : xabs (Fin q) = Fin (Qabs q). Proof. reflexivity. Qed.
Ltac xfin := unfold xsub;
  repeat (rewrite xneg_fin || rewrite xadd_fin || rewrite xmul_fin || rewrite xabs_fin).

(* ---- closed forms on finite inputs ------------------------------------------------------ *)
Definition qpv (p n : Q) : Q := p * (1 + - p) / n.            (* p (1-p) / n as evaluated *)
Definition qS (p n p0 n0 : Q) : Q := qpv p n + qpv p0 n0.

Lemma prop_var_fin p n : ~ n == 0 -> prop_var (Fin p) (Fin n) = Fin (qpv p n).
Proof. intros H. unfold prop_var. xfin. apply xdiv_fin. exact H. Qed.

Lemma Qabs_nz x : ~ x == 0 -> ~ Qabs x == 0.
Proof.
  intros H E. apply H. destruct (Qlt_le_dec x 0) as [L|L].
  - rewrite (Qabs_neg x) in E by lra. lra.
  - rewrite (Qabs_pos x) in E by lra. exact E.
Qed.

Lemma t_tabs_fin p n p0 n0 : ~ n == 0 -> ~ n0 == 0 -> ~ qS p n p0 n0 == 0 ->
  t_tabs (Fin p) (Fin n) (Fin p0) (Fin n0) =
  Fin ((p + - p0) * Qabs (p + - p0) / Qabs (qS p n p0 n0)).
Proof.
  intros Hn Hn0 HS. unfold t_tabs. rewrite !prop_var_fin by assumption.
  xfin.
  apply xdiv_fin. apply Qabs_nz. exact HS.
Qed.

(* the 0/0 and x/0 cases: the two proportion variances cancel or are both 0 *)
Lemma t_tabs_zero_se p n p0 n0 : ~ n == 0 -> ~ n0 == 0 -> qS p n p0 n0 == 0 ->
  t_tabs (Fin p) (Fin n) (Fin p0) (Fin n0) =
  (if qzero ((p + - p0) * Qabs (p + - p0)) then NaN
   else Inf (qneg ((p + - p0) * Qabs (p + - p0)))).
Proof.
  intros Hn Hn0 HS. unfold t_tabs. rewrite !prop_var_fin by assumption.
  xfin.
  assert (Z : qzero (Qabs (qS p n p0 n0)) = true).
  { apply qzero_true. rewrite HS. reflexivity. }
  unfold qS in Z. unfold xdiv. rewrite Z. reflexivity.
Qed.

(* ---- t_formula: proportions in [0,1], positive bases, positive standard error ------------ *)
Theorem t_formula p n p0 n0 :
  0 < n -> 0 < n0 -> 0 < p * (1 - p) / n + p0 * (1 - p0) / n0 ->
  t_tabs (Fin p) (Fin n) (Fin p0) (Fin n0) =x=
  Fin ((p - p0) * Qabs (p - p0) / (p * (1 - p) / n + p0 * (1 - p0) / n0)).
Proof.
  intros Hn Hn0 HS.
  assert (E : qS p n p0 n0 == p * (1 - p) / n + p0 * (1 - p0) / n0) by (unfold qS, qpv, Qminus; reflexivity).
  rewrite t_tabs_fin; try (intros Z; lra).
  unfold xeq. rewrite (Qabs_pos (qS p n p0 n0)) by lra. rewrite E. unfold Qminus. reflexivity.
Qed.

(* proportions inside [0,1] and positive bases make the abs of the code a no-op
   (non-negative variance); it only matters for difference subtotals *)
Lemma qS_nonneg p n p0 n0 : 0 <= p -> p <= 1 -> 0 <= p0 -> p0 <= 1 -> 0 < n -> 0 < n0 ->
  0 <= p * (1 - p) / n + p0 * (1 - p0) / n0.
Proof.
  intros. assert (A : 0 <= p * (1 - p) / n).
  { apply Qle_shift_div_l; [assumption|]. nra. }
  assert (B : 0 <= p0 * (1 - p0) / n0).
  { apply Qle_shift_div_l; [assumption|]. nra. }
  lra.
Qed.

Lemma div_sign x v : 0 < v ->
  (0 < x / v <-> 0 < x) /\ (x / v < 0 <-> x < 0) /\ (x / v == 0 <-> x == 0).
Proof.
  intros Hv. assert (Hi : 0 < / v) by (apply Qinv_lt_0_compat; exact Hv).
  unfold Qdiv. set (iv := / v) in *.
  assert (E : x == (x * iv) * v).
  { unfold iv. field. intros E. rewrite E in Hv. apply (Qlt_irrefl _ Hv). }
  repeat split; intros H; nra.
Qed.

Lemma mul_abs_sign d : (0 < d * Qabs d <-> 0 < d) /\ (d * Qabs d < 0 <-> d < 0).
Proof.
  destruct (Qlt_le_dec d 0) as [L|L].
  - rewrite (Qabs_neg d) by lra. split; split; intros; nra.
  - rewrite (Qabs_pos d) by lra. split; split; intros; nra.
Qed.

(* sign: t < 0 exactly when the compared proportion is smaller than the selected one *)
Theorem t_sign p n p0 n0 :
  0 < n -> 0 < n0 -> 0 < p * (1 - p) / n + p0 * (1 - p0) / n0 ->
  exists tt, t_tabs (Fin p) (Fin n) (Fin p0) (Fin n0) = Fin tt /\
             (tt < 0 <-> p < p0) /\ (0 < tt <-> p0 < p).
Proof.
  intros Hn Hn0 HS.
  assert (E : qS p n p0 n0 == p * (1 - p) / n + p0 * (1 - p0) / n0) by (unfold qS, qpv, Qminus; reflexivity).
  assert (HS' : 0 < qS p n p0 n0) by (rewrite E; exact HS).
  eexists. split.
  - apply t_tabs_fin; intros Z; lra.
  - rewrite (Qabs_pos (qS p n p0 n0)) by lra. set (d := p + - p0).
    destruct (div_sign (d * Qabs d) _ HS') as [P [N _]].
    destruct (mul_abs_sign d) as [P' N'].
    rewrite P, N, P', N'. unfold d. split; split; intros; lra.
Qed.

Theorem t_only_larger_iff p n p0 n0 :
  0 < n -> 0 < n0 -> 0 < p * (1 - p) / n + p0 * (1 - p0) / n0 ->
  (xltb (t_tabs (Fin p) (Fin n) (Fin p0) (Fin n0)) (Fin 0) = true <-> p < p0).
Proof.
  intros Hn Hn0 HS. destruct (t_sign p n p0 n0 Hn Hn0 HS) as [tt [E [N _]]].
  rewrite E. rewrite xltb_fin. exact N.
Qed.

(* t squared *)
Lemma abs_mul_abs d : Qabs (d * Qabs d) == d * d.
Proof.
  rewrite Qabs_Qmult.
  destruct (Qlt_le_dec d 0) as [L|L].
  - rewrite (Qabs_neg d) by lra. rewrite (Qabs_pos (- d)) by lra. ring.
  - rewrite (Qabs_pos d) by lra. rewrite (Qabs_pos d) by lra. ring.
Qed.

Theorem t_sq_formula p n p0 n0 :
  0 < n -> 0 < n0 -> 0 < p * (1 - p) / n + p0 * (1 - p0) / n0 ->
  t_sq (Fin p) (Fin n) (Fin p0) (Fin n0) =x=
  Fin ((p - p0) * (p - p0) / (p * (1 - p) / n + p0 * (1 - p0) / n0)).
Proof.
  intros Hn Hn0 HS.
  assert (E : qS p n p0 n0 == p * (1 - p) / n + p0 * (1 - p0) / n0) by (unfold qS, qpv, Qminus; reflexivity).
  assert (HS' : 0 < qS p n p0 n0) by (rewrite E; exact HS).
  unfold t_sq. rewrite t_tabs_fin; try (intros Z; lra).
  unfold xabs, xeq. rewrite (Qabs_pos (qS p n p0 n0)) by lra.
  unfold Qdiv. rewrite Qabs_Qmult, abs_mul_abs.
  rewrite (Qabs_pos (/ qS p n p0 n0)) by (apply Qlt_le_weak, Qinv_lt_0_compat; exact HS').
  rewrite E. unfold Qminus. reflexivity.
Qed.

(* ---- antisymmetry: for ALL values (finite, infinite, NaN) -------------------------------- *)
Theorem t_antisym p n p0 n0 : t_tabs p0 n0 p n =x= xneg (t_tabs p n p0 n0).
Proof.
  unfold t_tabs.
  rewrite (xsub_antisym p p0).
  rewrite xmul_xabs_neg. rewrite xdiv_xneg_l.
  rewrite (xadd_comm (prop_var p0 n0) (prop_var p n)). reflexivity.
Qed.

Theorem t_sq_sym p n p0 n0 : t_sq p0 n0 p n =x= t_sq p n p0 n0.
Proof. unfold t_sq. rewrite t_antisym. apply xabs_xneg. Qed.

(* ---- a column against itself ------------------------------------------------------------- *)
Theorem t_self_zero p n : ~ n == 0 -> ~ p * (1 - p) == 0 ->
  t_tabs (Fin p) (Fin n) (Fin p) (Fin n) =x= Fin 0.
Proof.
  intros Hn Hp.
  assert (HS : ~ qS p n p n == 0).
  { unfold qS, qpv. intros E. apply Hp.
    assert (E2 : p * (1 + - p) / n * n == 0) by nra.
    assert (E3 : p * (1 + - p) / n * n == p * (1 + - p)) by (field; exact Hn).
    rewrite E3 in E2. unfold Qminus. exact E2. }
  rewrite t_tabs_fin by assumption. unfold xeq.
  assert (Z : p + - p == 0) by ring. rewrite Z. unfold Qdiv. ring.
Qed.

(* ... unless the proportion is 0 or 1: then the standard error is 0 and t = 0/0 = NaN *)
Theorem t_self_nan p n : ~ n == 0 -> p * (1 - p) == 0 ->
  t_tabs (Fin p) (Fin n) (Fin p) (Fin n) = NaN.
Proof.
  intros Hn Hp.
  assert (HS : qS p n p n == 0).
  { unfold qS, qpv. unfold Qminus in Hp. rewrite Hp. field. exact Hn. }
  rewrite t_tabs_zero_se by assumption.
  assert (Z : qzero ((p + - p) * Qabs (p + - p)) = true).
  { apply qzero_true. assert (E : p + - p == 0) by ring. rewrite E. ring. }
  rewrite Z. reflexivity.
Qed.

(* ---- degrees of freedom -------------------------------------------------------------------- *)
Theorem t_df_fin n n0 : t_df (Fin n) (Fin n0) =x= Fin (n + n0 - 2).
Proof. unfold t_df, xsub. simpl. unfold Qminus. reflexivity. Qed.

Theorem t_df_sym n n0 : t_df n0 n =x= t_df n n0.
Proof. unfold t_df. rewrite (xadd_comm n0 n). reflexivity. Qed.

(* ---- effective base ------------------------------------------------------------------------- *)
Theorem eff_base_fin w s : ~ s == 0 -> eff_base (Fin w) (Fin s) =x= Fin (w * w / s).
Proof. intros H. unfold eff_base. simpl xmul. rewrite xdiv_fin by exact H. reflexivity. Qed.

(* from the respondents' weights: (sum w)^2 / sum w^2 *)
Theorem eff_base_weights (ws : list Q) : ~ qsum (map (fun w => w * w) ws) == 0 ->
  eff_base (Fin (qsum ws)) (Fin (qsum (map (fun w => w * w) ws))) =x=
  Fin (qsum ws * qsum ws / qsum (map (fun w => w * w) ws)).
Proof. apply eff_base_fin. Qed.

Lemma qsum_repeat w n : qsum (repeat w n) == inject_Z (Z.of_nat n) * w.
Proof.
  induction n as [|n IH].
  - simpl. ring.
  - change (qsum (repeat w (S n))) with (w + qsum (repeat w n)). rewrite IH.
    rewrite Nat2Z.inj_succ. unfold Z.succ. rewrite inject_Z_plus. ring.
Qed.

(* n respondents of equal weight w: the effective base is the unweighted base n *)
Theorem eff_base_equal_weights (n : nat) (w : Q) : (0 < n)%nat -> ~ w == 0 ->
  eff_base (Fin (qsum (repeat w n))) (Fin (qsum (map (fun x => x * x) (repeat w n)))) =x=
  Fin (inject_Z (Z.of_nat n)).
Proof.
  intros Hn Hw.
  assert (Hm : map (fun x => x * x) (repeat w n) = repeat (w * w) n).
  { clear. induction n; simpl; congruence. }
  rewrite Hm.
  assert (Nz : ~ inject_Z (Z.of_nat n) == 0).
  { intros E. unfold Qeq, inject_Z in E. simpl in E. lia. }
  assert (D : ~ qsum (repeat (w * w) n) == 0).
  { rewrite qsum_repeat. intros E. destruct (Qmult_integral _ _ E) as [E1|E1]; [tauto|].
    destruct (Qmult_integral _ _ E1); tauto. }
  rewrite eff_base_fin by exact D. unfold xeq. rewrite !qsum_repeat. field. split; assumption.
Qed.

(* ---- the legacy path -------------------------------------------------------------------------- *)
(* same statistic as the matrix path whenever the variance sum is a non-negative number *)
Theorem legacy_tabs_eq p n p0 n0 s :
  xadd (prop_var p n) (prop_var p0 n0) = Fin s -> 0 <= s ->
  legacy_tabs p n p0 n0 =x= t_tabs p n p0 n0.
Proof.
  intros E Hs. unfold legacy_tabs, t_tabs. rewrite E.
  assert (L : xltb (Fin s) (Fin 0) = false) by (apply xltb_fin_false; exact Hs).
  rewrite L. rewrite (xabs_fin s).
  assert (Q : Fin (Qabs s) =x= Fin s) by (unfold xeq; apply Qabs_pos; exact Hs).
  rewrite Q. reflexivity.
Qed.

Theorem legacy_base_no_squared w ub : legacy_base w ub None = ub.
Proof. reflexivity. Qed.

(* with squared weights the legacy base is the effective base of the WEIGHTED margin,
   whatever the unweighted base *)
Theorem legacy_base_squared w ub s : legacy_base w ub (Some s) = eff_base w s.
Proof. reflexivity. Qed.

(* from the respondents' weights: (sum w)^2 / sum w^2, for every list of weights and every
   unweighted base (the statement that was refuted by two respondents of weight 2 before the
   legacy path took the weighted margin) *)
Theorem legacy_effective_base (ws : list Q) (ub : xq) :
  ~ qsum (map (fun x => x * x) ws) == 0 ->
  legacy_base (Fin (qsum ws)) ub (Some (Fin (qsum (map (fun x => x * x) ws)))) =x=
  Fin (qsum ws * qsum ws / qsum (map (fun x => x * x) ws)).
Proof. intros H. rewrite legacy_base_squared. apply eff_base_weights. exact H. Qed.

Theorem legacy_effective_base_eq (ws : list Q) (ub : xq) :
  legacy_base (Fin (qsum ws)) ub (Some (Fin (qsum (map (fun x => x * x) ws)))) =
  eff_base (Fin (qsum ws)) (Fin (qsum (map (fun x => x * x) ws))).
Proof. reflexivity. Qed.

(* ---- Welch's test for means ---------------------------------------------------------------------- *)
Definition qV (s n s0 n0 : Q) : Q := s * s / n + s0 * s0 / n0.

Lemma welch_v_fin s n s0 n0 : ~ n == 0 -> ~ n0 == 0 ->
  xadd (xdiv (xmul (Fin s) (Fin s)) (Fin n)) (xdiv (xmul (Fin s0) (Fin s0)) (Fin n0)) = Fin (qV s n s0 n0).
Proof.
  intros Hn Hn0. simpl xmul. rewrite !xdiv_fin by assumption. reflexivity.
Qed.

Theorem welch_formula m s n m0 s0 n0 : ~ n == 0 -> ~ n0 == 0 -> 0 < s * s / n + s0 * s0 / n0 ->
  welch_tabs (Fin m) (Fin s) (Fin n) (Fin m0) (Fin s0) (Fin n0) =x=
  Fin ((m - m0) * Qabs (m - m0) / (s * s / n + s0 * s0 / n0)).
Proof.
  intros Hn Hn0 HV. unfold welch_tabs. rewrite welch_v_fin by assumption.
  fold (qV s n s0 n0) in HV.
  assert (L : xltb (Fin (qV s n s0 n0)) (Fin 0) = false) by (apply xltb_fin_false; lra).
  rewrite L. xfin.
  rewrite xdiv_fin by (intros Z; lra). unfold xeq, qV, Qminus. reflexivity.
Qed.

Theorem welch_antisym m s n m0 s0 n0 :
  welch_tabs m0 s0 n0 m s n =x= xneg (welch_tabs m s n m0 s0 n0).
Proof.
  unfold welch_tabs.
  set (V := xadd (xdiv (xmul s s) n) (xdiv (xmul s0 s0) n0)).
  set (V' := xadd (xdiv (xmul s0 s0) n0) (xdiv (xmul s s) n)).
  assert (EV : V' =x= V) by apply xadd_comm.
  assert (EL : xltb V' (Fin 0) = xltb V (Fin 0)) by (rewrite EV; reflexivity).
  rewrite EL. destruct (xltb V (Fin 0)); [reflexivity|].
  rewrite EV. rewrite (xsub_antisym m m0). rewrite xmul_xabs_neg. apply xdiv_xneg_l.
Qed.

Theorem welch_df_sym s n s0 n0 : welch_df s0 n0 s n =x= welch_df s n s0 n0.
Proof.
  unfold welch_df, xsq.
  rewrite (xadd_comm (xdiv (xmul s0 s0) n0) (xdiv (xmul s s) n)).
  rewrite (xadd_comm (xdiv (xmul (xdiv (xmul s0 s0) n0) (xdiv (xmul s0 s0) n0)) (xsub n0 (Fin 1)))
                     (xdiv (xmul (xdiv (xmul s s) n) (xdiv (xmul s s) n)) (xsub n (Fin 1)))).
  reflexivity.
Qed.

(* Satterthwaite's approximation *)
Theorem welch_df_formula s n s0 n0 :
  ~ n == 0 -> ~ n0 == 0 -> ~ n - 1 == 0 -> ~ n0 - 1 == 0 ->
  let a := s * s / n in
  let b := s0 * s0 / n0 in
  ~ a * a / (n - 1) + b * b / (n0 - 1) == 0 ->
  welch_df (Fin s) (Fin n) (Fin s0) (Fin n0) =x=
  Fin ((a + b) * (a + b) / (a * a / (n - 1) + b * b / (n0 - 1))).
Proof.
  intros Hn Hn0 H1 H2 a b HD. unfold welch_df, xsq.
  assert (E1 : ~ n + - (1) == 0) by (unfold Qminus in H1; exact H1).
  assert (E2 : ~ n0 + - (1) == 0) by (unfold Qminus in H2; exact H2).
  xfin. rewrite !(xdiv_fin _ n), !(xdiv_fin _ n0) by assumption.
  xfin. rewrite (xdiv_fin _ (n + - (1))), (xdiv_fin _ (n0 + - (1))) by assumption.
  xfin. rewrite xdiv_fin.
  - unfold xeq, a, b, Qminus. reflexivity.
  - unfold a, b, Qminus in HD. exact HD.
Qed.

(* ---- overlapping multiple-response columns ---------------------------------------------------------- *)
Definition qov (Sa Sb Sab Na Nb Nab : Q) : Q :=
  let pa := Sa / Na in let pb := Sb / Nb in let pab := Sab / Nab in
  1 / (Na + Nb - Nab) * (pa * (1 - pa) + pb * (1 - pb) + 2 * pa * pb - 2 * pab).

Lemma ov_se2_fin Sa Sb Sab Na Nb Nab :
  ~ Na == 0 -> ~ Nb == 0 -> ~ Nab == 0 -> ~ Na + Nb - Nab == 0 ->
  ov_se2 (Fin Sa) (Fin Sb) (Fin Sab) (Fin Na) (Fin Nb) (Fin Nab) =x= Fin (qov Sa Sb Sab Na Nb Nab).
Proof.
  intros H1 H2 H3 H4. unfold ov_se2, ov_df.
  rewrite (xdiv_fin Sa Na), (xdiv_fin Sb Nb), (xdiv_fin Sab Nab) by assumption.
  xfin. rewrite xdiv_fin by (unfold Qminus in H4; exact H4).
  xfin. unfold xeq, qov, Qminus. reflexivity.
Qed.

Theorem ov_formula cpa cpb Sa Sb Sab Na Nb Nab :
  ~ Na == 0 -> ~ Nb == 0 -> ~ Nab == 0 -> ~ Na + Nb - Nab == 0 ->
  0 < qov Sa Sb Sab Na Nb Nab ->
  ov_tabs (Fin cpa) (Fin cpb) (Fin Sa) (Fin Sb) (Fin Sab) (Fin Na) (Fin Nb) (Fin Nab) =x=
  Fin ((cpb - cpa) * Qabs (cpb - cpa) / qov Sa Sb Sab Na Nb Nab).
Proof.
  intros H1 H2 H3 H4 HS. unfold ov_tabs.
  pose proof (ov_se2_fin Sa Sb Sab Na Nb Nab H1 H2 H3 H4) as E.
  set (sv := ov_se2 (Fin Sa) (Fin Sb) (Fin Sab) (Fin Na) (Fin Nb) (Fin Nab)) in *.
  assert (L : xltb sv (Fin 0) = false).
  { rewrite E. apply xltb_fin_false. lra. }
  rewrite L. rewrite E. xfin.
  rewrite xdiv_fin by (intros Z; lra). unfold xeq, Qminus. reflexivity.
Qed.

Lemma qov_sym Sa Sb Sab Na Nb Nab :
  ~ Na == 0 -> ~ Nb == 0 -> ~ Nab == 0 -> ~ Na + Nb - Nab == 0 ->
  qov Sb Sa Sab Nb Na Nab == qov Sa Sb Sab Na Nb Nab.
Proof.
  intros. unfold qov. field. repeat split; try assumption; intros E; lra.
Qed.

(* antisymmetric in (a, b) off the diagonal (finite counts, non-zero bases) *)
Theorem ov_antisym cpa cpb Sa Sb Sab Na Nb Nab :
  ~ Na == 0 -> ~ Nb == 0 -> ~ Nab == 0 -> ~ Na + Nb - Nab == 0 ->
  ov_tabs (Fin cpb) (Fin cpa) (Fin Sb) (Fin Sa) (Fin Sab) (Fin Nb) (Fin Na) (Fin Nab) =x=
  xneg (ov_tabs (Fin cpa) (Fin cpb) (Fin Sa) (Fin Sb) (Fin Sab) (Fin Na) (Fin Nb) (Fin Nab)).
Proof.
  intros H1 H2 H3 H4. unfold ov_tabs.
  assert (H4' : ~ Nb + Na - Nab == 0) by (intros E; apply H4; lra).
  pose proof (ov_se2_fin Sb Sa Sab Nb Na Nab H2 H1 H3 H4') as E1.
  pose proof (ov_se2_fin Sa Sb Sab Na Nb Nab H1 H2 H3 H4) as E2.
  set (s1 := ov_se2 (Fin Sb) (Fin Sa) (Fin Sab) (Fin Nb) (Fin Na) (Fin Nab)) in *.
  set (s2 := ov_se2 (Fin Sa) (Fin Sb) (Fin Sab) (Fin Na) (Fin Nb) (Fin Nab)) in *.
  assert (Q : s1 =x= s2).
  { rewrite E1, E2. apply qov_sym; assumption. }
  assert (EL : xltb s1 (Fin 0) = xltb s2 (Fin 0)) by (rewrite Q; reflexivity).
  rewrite EL. destruct (xltb s2 (Fin 0)); [reflexivity|].
  rewrite Q. rewrite (xsub_antisym (Fin cpb) (Fin cpa)). rewrite xmul_xabs_neg. apply xdiv_xneg_l.
Qed.

Theorem ov_df_sym Na Nb Nab : ov_df Nb Na Nab =x= ov_df Na Nb Nab.
Proof. unfold ov_df. rewrite (xadd_comm Nb Na). reflexivity. Qed.

(* on the diagonal the code short-circuits: t = 0 *)
Local Close Scope Q_scope.
Local Open Scope nat_scope.
Theorem ov_self_zero a CP S N i : i < nrows CP -> a < ncols CP ->
  mnth (ov_tblock a CP S N) i a = Fin 0.
Proof.
  intros Hi Ha. unfold ov_tblock. rewrite tab2_mnth by assumption.
  rewrite Nat.eqb_refl. reflexivity.
Qed.

Theorem ov_offdiag a b CP S N i : i < nrows CP -> b < ncols CP -> b <> a ->
  mnth (ov_tblock a CP S N) i b =
  ov_tabs (mnth CP i a) (mnth CP i b)
          (mnth (nth i S []) a a) (mnth (nth i S []) b b) (mnth (nth i S []) a b)
          (mnth (nth i N []) a a) (mnth (nth i N []) b b) (mnth (nth i N []) a b).
Proof.
  intros Hi Hb Hne. unfold ov_tblock. rewrite tab2_mnth by assumption.
  apply Nat.eqb_neq in Hne. rewrite Hne. reflexivity.
Qed.

(* ---- blocks: every cell is compared with the selected column OF ITS OWN ROW ---------------------- *)
Theorem pw_tblock_cell P N rp rn i j : i < nrows P -> j < ncols P ->
  mnth (pw_tblock P N rp rn) i j = t_tabs (mnth P i j) (mnth N i j) (vnth rp i) (vnth rn i).
Proof. intros Hi Hj. unfold pw_tblock. apply tab2_mnth; assumption. Qed.

Theorem pw_dfblock_cell N rn i j : i < nrows N -> j < ncols N ->
  mnth (pw_dfblock N rn) i j = t_df (mnth N i j) (vnth rn i).
Proof. intros Hi Hj. unfold pw_dfblock. apply tab2_mnth; assumption. Qed.

(* the reference is column sel of the base block, or (sel < 0) column ncols+sel of the
   inserted block, taken row by row *)
Theorem ref_col_base sel base ins i : (0 <= sel)%Z -> i < nrows base ->
  vnth (ref_col sel base ins) i = mnth base i (Z.to_nat sel).
Proof.
  intros H Hi. unfold ref_col. destruct (sel <? 0)%Z eqn:E; [apply Z.ltb_lt in E; lia|].
  apply mcol_vnth. exact Hi.
Qed.

Theorem ref_col_inserted sel base ins i : (sel < 0)%Z -> i < nrows ins ->
  vnth (ref_col sel base ins) i = mnth ins i (Z.to_nat (Z.of_nat (ncols ins) + sel)).
Proof.
  intros H Hi. unfold ref_col. apply Z.ltb_lt in H. rewrite H. apply mcol_vnth. exact Hi.
Qed.

Theorem eff_block_cell W SQ i j : i < nrows W -> j < ncols W ->
  mnth (eff_block W SQ) i j = eff_base (mnth W i j) (mnth SQ i j).
Proof. intros Hi Hj. unfold eff_block. apply tab2_mnth; assumption. Qed.

(* ---- the legacy path, cell by cell --------------------------------------------------------------- *)
Theorem legacy_t_cell props W UB sq c i j : i < nrows props -> j < ncols props ->
  mnth (legacy_t props W UB sq c) i j =
  legacy_tabs (mnth props i j)
              (legacy_base (mnth W i j) (mnth UB i j) (option_map (fun v => vnth v j) sq))
              (mnth props i c)
              (legacy_base (mnth W i c) (mnth UB i c) (option_map (fun v => vnth v c) sq)).
Proof. intros Hi Hj. unfold legacy_t. rewrite tab2_mnth by assumption. reflexivity. Qed.

Lemma eff_block_nrows W SQ : nrows (eff_block W SQ) = nrows W.
Proof. unfold eff_block. apply tab2_nrows. Qed.

(* legacy statistic == matrix-path statistic (reference = column c of the same display
   matrices, bases = effective bases of the weighted margins W and per-cell squared bases SQ)
   in every row whose squared bases are the ones the legacy path is given *)
Theorem legacy_matches_matrix_path props W UB SQ sqv c i j (s : Q) :
  i < nrows props -> j < ncols props -> c < ncols props ->
  nrows W = nrows props -> ncols W = ncols props ->
  mnth SQ i j = vnth sqv j -> mnth SQ i c = vnth sqv c ->
  xadd (prop_var (mnth props i j) (mnth (eff_block W SQ) i j))
       (prop_var (mnth props i c) (mnth (eff_block W SQ) i c)) = Fin s -> (0 <= s)%Q ->
  mnth (legacy_t props W UB (Some sqv) c) i j =x=
  mnth (pw_tblock props (eff_block W SQ) (mcol props c) (mcol (eff_block W SQ) c)) i j.
Proof.
  intros Hi Hj Hc HrW HcW Ej Ec HS Hs.
  rewrite legacy_t_cell by assumption.
  rewrite pw_tblock_cell by assumption.
  rewrite (mcol_vnth props c i) by exact Hi.
  rewrite (mcol_vnth (eff_block W SQ) c i)
    by (change (length (eff_block W SQ)) with (nrows (eff_block W SQ));
        rewrite eff_block_nrows, HrW; exact Hi).
  simpl option_map. rewrite !legacy_base_squared.
  rewrite <- Ej, <- Ec.
  assert (Hi' : i < nrows W) by (rewrite HrW; exact Hi).
  assert (Hj' : j < ncols W) by (rewrite HcW; exact Hj).
  assert (Hc' : c < ncols W) by (rewrite HcW; exact Hc).
  rewrite (eff_block_cell W SQ i j Hi' Hj') in *.
  rewrite (eff_block_cell W SQ i c Hi' Hc') in *.
  apply (legacy_tabs_eq _ _ _ _ s HS Hs).
Qed.

(* the legacy path is given the FIRST row of the squared bases (columns_squared_base): the
   equality holds in the first row, and in every row when the rows share their column bases
   (categorical rows) *)
Theorem legacy_matches_matrix_path_first_row props W UB SQ c i j (s : Q) :
  i < nrows props -> j < ncols props -> c < ncols props ->
  nrows W = nrows props -> ncols W = ncols props ->
  mrow SQ i = mrow SQ 0 ->
  xadd (prop_var (mnth props i j) (mnth (eff_block W SQ) i j))
       (prop_var (mnth props i c) (mnth (eff_block W SQ) i c)) = Fin s -> (0 <= s)%Q ->
  mnth (legacy_t props W UB (Some (mrow SQ 0)) c) i j =x=
  mnth (pw_tblock props (eff_block W SQ) (mcol props c) (mcol (eff_block W SQ) c)) i j.
Proof.
  intros Hi Hj Hc HrW HcW E HS Hs.
  apply (legacy_matches_matrix_path props W UB SQ (mrow SQ 0) c i j s); try assumption.
  - unfold mnth. fold (mrow SQ i). rewrite E. reflexivity.
  - unfold mnth. fold (mrow SQ i). rewrite E. reflexivity.
Qed.

(* ... but NOT in a later row of a table whose rows have their own bases (MR rows): the
   legacy base there is W[i,j]^2 / SQ[0,j].  Two MR row items, weighted margins 4, squared
   bases 8 (item 0) and 4 (item 1, column 0): matrix path n = 4, legacy n = 2 *)
Theorem legacy_squared_base_first_row_refuted :
  exists (props W UB SQ : mat) (c i j : nat),
    i < nrows props /\ j < ncols props /\ c < ncols props /\
    nrows W = nrows props /\ ncols W = ncols props /\
    ~ (mnth (legacy_t props W UB (Some (mrow SQ 0)) c) i j =x=
       mnth (pw_tblock props (eff_block W SQ) (mcol props c) (mcol (eff_block W SQ) c)) i j).
Proof.
  exists [[Fin (1#2); Fin (1#4)]; [Fin (1#2); Fin (1#4)]],
         [[Fin 4; Fin 4]; [Fin 4; Fin 4]],
         [[Fin 2; Fin 2]; [Fin 2; Fin 2]],
         [[Fin 8; Fin 8]; [Fin 4; Fin 8]], 0, 1, 1.
  vm_compute. repeat split; try lia; discriminate.
Qed.
