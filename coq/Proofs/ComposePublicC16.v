(* Proofs/ComposePublicC16.v -- the COMPOSED theorem of C16: _Slice.column_index, from the source text to
   the respondents.  Shape as in ComposePublicC03.v; the context additionally carries the baseline of the
   unconditional cube counts, here the array Model/CubeCounts.v::baseline_of extracts from the raw
   (missing-including) tensor of `tabulate S`.  At a display cell that shows base row r and base column c:

       100 * ( w(row r and column c) / w(eligible for row r, column c) )
           / ( w(row r) / w(eligible for row r) )                 -- no condition on the column in the baseline

   with numpy's propagation (NaN where a share is 0/0); an inserted row or column is NaN (NanSubtotals). *)
From Coq Require Import QArith ZArith List Bool Lia Arith String Setoid Morphisms.
From CC Require Import Base.XQ Base.ListX Base.WiringExp Spec.Survey
     Model.Subtotals Model.Proportions Model.CubeCounts
     Proofs.CubeCountsProofs Proofs.CubeCountsIndex Proofs.ComposeBase Proofs.ComposePayload
     Proofs.ComposePublicSem Proofs.ComposePublicLinks Proofs.ComposePublicChainDefs Proofs.ComposePublicChainCounts
     Proofs.ComposePublicChainBases Proofs.ComposePublicChain3
     Proofs.ComposePublicSlice Proofs.ComposePublicCells.
From CC Require Gen.WiringSrc.
Import ListNotations.
Local Close Scope Q_scope.
Local Open Scope string_scope.
Local Open Scope nat_scope.

Import CC.Gen.WiringSrc.

(* a context with another baseline *)
Definition with_baseline (C : pctx) (cmr : bool) (bl : nat -> nat -> xq) : pctx :=
  mkPctx (c_nr C) (c_nc C) (c_rsubs C) (c_csubs C) (c_rd C) (c_cd C) (c_cubem C) (c_cubeflag C) (c_flag C)
         cmr bl (c_ucolbase C) (c_urowbase C) (c_ro C) (c_co C).

Definition terms_public_column_index : bool :=
  is_some wsrc_Slice_column_index && (terms_asm_matrix && terms_column_index).

Theorem public_column_index_model :
  need terms_public_column_index
  (forall C, cube_tab C "counts" -> cube_tab C "column_bases" -> nonempty C -> orders_ok C ->
     matrix_member_spec C "column_index" (B_index C)).
Proof.
  unfold terms_public_column_index, wsrc_Slice_column_index. wiring_some.
  use_need public_matrix_of_realizes terms_asm_matrix. intros PM.
  use_need realizes_column_index terms_column_index. intros R.
  needed. intros C H1 H2 H3 Ho.
  eapply matrix_member_of_weval; [reflexivity|].
  exact (PM 3 C "column_index" (B_index C) (R _ C H1 H2 H3) (tabular_index C) Ho).
Qed.

(* the context of a survey slice with the survey's baseline *)
Definition Cs_index (S : survey) (tv : tvar) vr kr mr vc kc mc (k : nat) rsubs csubs dn rd cd flag ro co so : pctx :=
  with_baseline (Cs mr mc rsubs csubs dn rd cd flag ro co so) (kmr kc)
    (baseline_of (raw_slice_of tv vr kr mr vc kc mc S k) (valid_idxs mr) (List.length mc) 3 (kmr kr) (kmr kc)).

(* the extra hypotheses of C16's baseline theorem: a categorical columns variable is total (every respondent
   has one of its categories), and an MR x MR cube has no missing row item before a valid one *)
Definition baseline_ok (S : survey) (vr : nat) (kr : kind) (mr : list bool) (vc : nat) (kc : kind) (mc : list bool) : Prop :=
  (kc = KCat -> col_total S vc (List.length mc)) /\
  (kr = KMr -> kc = KMr -> forall i, i < nval mr -> nth i (valid_idxs mr) 0 = i).

Definition index_cell_spec (S : survey) (tv : tvar) vr kr mr vc kc mc (k r c : nat) (x : xq) : Prop :=
  x =x= xmul (Fin 100%Q)
          (xdiv (xdiv (Fin (w_cell tv k vr kr mr vc kc mc S r c)) (Fin (w_colbase tv k vr kr mr vc kc mc S r c)))
                (xdiv (Fin (wsum S (fun p => pop_of tv k p && in_el kr mr (ans p vr) r)))
                      (Fin (wsum S (fun p => pop_of tv k p && ok_el kr mr (ans p vr) r))))).

Section Cells.
  Variable S : survey.
  Variable tv : tvar.
  Variable vr : nat.
  Variable kr : kind.
  Variable mr : list bool.
  Variable vc : nat.
  Variable kc : kind.
  Variable mc : list bool.
  Variable k : nat.
  Variables rsubs csubs : list subtotal.
  Variables dn rd cd : bool.
  Variable flag : string -> bool.
  Variables ro co : list Z.
  Variable so : slice_out.
  Hypothesis D : survey_display S tv vr kr mr vc kc mc k rsubs csubs ro co so.
  Hypothesis HB : baseline_ok S vr kr mr vc kc mc.

  Let Ht : t_ok tv := proj1 D.
  Let Hr : cat_or_mr kr := proj1 (proj2 D).
  Let Hc : cat_or_mr kc := proj1 (proj2 (proj2 D)).
  Let Hk : k < t_n tv := proj1 (proj2 (proj2 (proj2 D))).
  Let Hso := proj1 (proj2 (proj2 (proj2 (proj2 (proj2 (proj2 (proj2 D))))))).
  Let Hd : display_ok mr mc rsubs csubs ro co := proj2 (proj2 (proj2 (proj2 (proj2 (proj2 (proj2 (proj2 D))))))).

  Notation C0 := (Cs mr mc rsubs csubs dn rd cd flag ro co so).
  Notation C := (Cs_index S tv vr kr mr vc kc mc k rsubs csubs dn rd cd flag ro co so).

  Lemma index_base_cell r c : r < nval mr -> c < nval mc ->
    index_cell_spec S tv vr kr mr vc kc mc k r c (mnth (b_base (B_index C)) r c).
  Proof.
    intros Hr' Hc'. unfold B_index, nan_blocks. cbn [b_base].
    change (c_nr C) with (nval mr). change (c_nc C) with (nval mc).
    rewrite (tab2_mnth _ _ _ r c Hr' Hc'). unfold index_fn, index_cell_spec, column_index_cell.
    change (m_counts C) with (m_counts C0). change (m_cb C) with (m_cb C0).
    rewrite (Cs_counts S tv vr kr mr vc kc mc k rsubs csubs dn rd cd flag ro co so Ht Hr Hc Hk Hso),
            (Cs_cb S tv vr kr mr vc kc mc k rsubs csubs dn rd cd flag ro co so Ht Hr Hc Hk Hso).
    rewrite (t_counts_cell S tv vr kr mr vc kc mc k Ht Hr Hc Hk r c Hr' Hc'),
            (t_cb_cell S tv vr kr mr vc kc mc k Ht Hr Hc Hk r c Hr' Hc').
    cbn [c_baseline c_cmr Cs_index with_baseline].
    rewrite (baseline_of_spec S tv vr vc kr kc mr mc k Ht Hr Hc Hk (proj1 HB) (proj2 HB) r
               (if kmr kc then c else 0) Hr').
    reflexivity.
  Qed.

  Lemma index_member :
    matrix_member_spec C "column_index" (B_index C) ->
    base_cells_spec (public_slice C "column_index") ro co (index_cell_spec S tv vr kr mr vc kc mc k).
  Proof.
    intros M. split; [exact (proj1 M)|].
    intros i j Hi Hj Hr0 Hc0. rewrite (proj2 M i j Hi Hj).
    change (nth i (c_ro C) 0%Z) with (rsel ro i). change (nth j (c_co C) 0%Z) with (csel co j).
    rewrite (signed_cell_base C (B_index C) _ _ Hr0 Hc0).
    apply index_base_cell.
    - exact (rsel_base mr mc rsubs csubs ro co i Hd Hi Hr0).
    - exact (csel_base mr mc rsubs csubs ro co j Hd Hj Hc0).
  Qed.
End Cells.

Theorem compose_public_Slice_column_index :
  need terms_public_column_index
  (forall S tv vr kr mr vc kc mc k rsubs csubs dn rd cd flag ro co so,
     survey_display S tv vr kr mr vc kc mc k rsubs csubs ro co so ->
     baseline_ok S vr kr mr vc kc mc ->
     base_cells_spec
       (public_slice (Cs_index S tv vr kr mr vc kc mc k rsubs csubs dn rd cd flag ro co so) "column_index") ro co
       (index_cell_spec S tv vr kr mr vc kc mc k)).
Proof.
  use_need public_column_index_model terms_public_column_index. intros PM. needed.
  intros S tv vr kr mr vc kc mc k rsubs csubs dn rd cd flag ro co so D HB.
  apply (index_member S tv vr kr mr vc kc mc k rsubs csubs dn rd cd flag ro co so D HB).
  pose proof (C_first_order S tv vr kr mr vc kc mc k rsubs csubs dn rd cd flag ro co so D) as (H1 & H2 & H3 & H4 & H5).
  apply PM.
  - exact H1.
  - exact H3.
  - exact H5.
  - exact (proj2 (proj2 (proj2 (proj2 (proj2 (proj2 (proj2 (proj2 D)))))))).
Qed.

Lemma compose_public_terms_available_C16 : terms_public_column_index = true.
Proof. reflexivity. Qed.
