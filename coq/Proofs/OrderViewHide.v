(* Proofs/OrderViewHide.v -- which insertions of a dimension become subtotals, wherever the
   insertion list lives: the transforms' "insertions" list when the key is there, else the list of
   the variable VIEW (references.view.transform.insertions).  A "hide": true flag suppresses an
   insertion of EITHER list (dimension.py::_Subtotals._iter_valid_subtotal_dicts); the flags of the
   view play no part once the transforms carry an "insertions" key.  (C09, second seeding round:
   a change that honoured the flag for transforms insertions only.) *)
From Coq Require Import ZArith List Bool Lia.
From CC Require Import Base.ListX Spec.OrderSpec Model.Collator Proofs.OrderCollate Proofs.OrderVisible.
Import ListNotations.

(* the insertion list in force: Dimension.subtotals *)
Definition list_in_force (d : dimension) : list insertion :=
  match d_tins d with Some l => l | None => d_view d end.

Lemma map_snd_with_ids fv ids ds : map snd (with_ids fv ids ds) = ds.
Proof.
  unfold with_ids. rewrite map_map.
  transitivity (map snd (enumerate ds)); [|apply snd_enumerate].
  apply map_ext. intros [k x]. destruct (i_id x); [reflexivity|]. destruct fv; reflexivity.
Qed.

(* the subtotals of a non-array dimension, in definition order, are exactly the well-formed,
   NOT flagged, valid-addend insertions of the list in force *)
Lemma subtotals_of_list_in_force d : d_array d = false ->
  map snd (subtotals d) = filter (ins_valid (d_ids d)) (list_in_force d).
Proof.
  intros A. unfold subtotals, list_in_force. rewrite A.
  destruct (d_tins d); rewrite map_snd_with_ids; reflexivity.
Qed.

Lemma subtotal_iff d i : d_array d = false ->
  (In i (map snd (subtotals d)) <->
   In i (list_in_force d) /\ i_wf i = true /\ i_hide i = false
   /\ existsb (fun t => imem t (d_ids d)) (i_terms i) = true).
Proof.
  intros A. rewrite (subtotals_of_list_in_force d A), filter_In. unfold ins_valid.
  rewrite !andb_true_iff, negb_true_iff. tauto.
Qed.

Lemma subtotals_count d : d_array d = false ->
  List.length (subtotals d) = List.length (filter (ins_valid (d_ids d)) (list_in_force d)).
Proof. intros A. rewrite <- (subtotals_of_list_in_force d A), map_length. reflexivity. Qed.

(* a VIEW insertion flagged hidden is no subtotal when the view is the list in force *)
Lemma view_hidden_not_subtotal d i : d_array d = false -> d_tins d = None ->
  In i (d_view d) -> i_hide i = true -> ~ In i (map snd (subtotals d)).
Proof.
  intros A T _ H Hin. apply (subtotal_iff d i A) in Hin. destruct Hin as (_ & _ & H' & _).
  rewrite H in H'. discriminate.
Qed.

(* once the transforms carry an "insertions" key the view (flags included) plays no part *)
Lemma transforms_insertions_override d l : d_array d = false -> d_tins d = Some l ->
  map snd (subtotals d) = filter (ins_valid (d_ids d)) l.
Proof. intros A T. rewrite (subtotals_of_list_in_force d A). unfold list_in_force. rewrite T. reflexivity. Qed.
