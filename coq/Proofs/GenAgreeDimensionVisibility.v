(* GenAgreeDimensionVisibility: the members of dimension.py that decide which elements are shown
   (_ElementTransforms.hide, Element.is_hidden, Dimension.prune; Element.missing / derived / anchor), as
   generated from src/cr/cube/dimension.py (Gen/DimensionSrc.v), read the transforms the way the first part of
   Model/Collator.v does ([hideval], [elem_hidden], [d_prune], [elem]).

     hideval_of v      the value under "hide" of an element's transforms: True / False / anything else
     danchor_of v      the value of references.anchor of a derived element as the model's [danchor] *)
From Coq Require Import List ZArith String Bool Lia Arith.
From CC Require Import Base.XQ Base.PyList Base.PyDict Model.DimType Model.Subtotals Model.SubtotalIds
  Model.PyDimension Gen.DimensionSrc Proofs.GenAgreeDimensionLib Proofs.GenAgreeDimensionSubtotal
  Proofs.GenAgreeDimensionAnchors.
From CC Require Base.Ident.
From CC Require Import Spec.OrderSpec Model.Collator.
Import ListNotations.
Local Close Scope Q_scope.
Local Open Scope Z_scope.

Definition hideval_of (v : jv) : hideval :=
  match v with JBool true => HTrue | JBool false => HFalse | _ => HOther end.
Definition jv_of_hideval (h : hideval) : jv :=
  match h with HTrue => JBool true | HFalse => JBool false | HOther => JNone end.
Definition hidden_of (h : hideval) : bool := match h with HTrue => true | _ => false end.

Lemma gen__ElementTransforms_hide :
  match src__ElementTransforms_hide with
  | Some f => forall x, f (mkPyXforms (JDict x))
                        = Ok (jv_of_hideval (hideval_of (jd_get_default x (JStr "hide") JNone)))
  | None => True end.
Proof.
  unfold src__ElementTransforms_hide.
  first [exact I | idtac].
  all: gen_open; msimpl; rewrite pj_get_dict; msimpl.
  all: destruct (jd_get_default x (JStr "hide") JNone) as [|[|]| | | | |]; reflexivity.
Qed.

(* {True: True, False: False, None: False}[hide] *)
Lemma gen_Element_is_hidden :
  match src_Element_is_hidden with
  | Some f => forall ed idx x t,
      f (mkPyElement ed idx (mkPyXforms (JDict x)) t)
      = Ok (JBool (hidden_of (hideval_of (jd_get_default x (JStr "hide") JNone))))
  | None => True end.
Proof.
  unfold src_Element_is_hidden.
  first [exact I | idtac].
  all: dep gen__ElementTransforms_hide src__ElementTransforms_hide.
  all: gen_open; msimpl.
  all: rewrite H; msimpl.
  all: destruct (hideval_of (jd_get_default x (JStr "hide") JNone)); reflexivity.
Qed.

Lemma gen_Dimension_prune :
  match src_Dimension_prune with
  | Some f => forall t dd tr,
      f (mkPyDimension t dd (JDict tr)) = Ok (jv_is_true (jd_get_default tr (JStr "prune") JNone))
  | None => True end.
Proof.
  unfold src_Dimension_prune.
  first [exact I | idtac].
  all: gen_open; msimpl; rewrite pj_get_dict; reflexivity.
Qed.

Lemma gen_Element_missing :
  match src_Element_missing with
  | Some f => forall e idx xf t,
      f (mkPyElement (JDict e) idx xf t) = Ok (jv_truthy (jd_get_default e (JStr "missing") JNone))
  | None => True end.
Proof.
  unfold src_Element_missing.
  first [exact I | idtac].
  all: gen_open; msimpl; rewrite pj_get_dict; reflexivity.
Qed.

(* the label formatter is opaque; building it raises nothing unless the dimension is a datetime *)
Lemma gen_fn__formatter :
  match src_fn__formatter with
  | Some f => forall t ty fmt, dtype_eqb t TDatetime = false -> f t ty fmt = Ok tt
  | None => True end.
Proof.
  unfold src_fn__formatter.
  first [exact I | idtac].
  all: destruct src_STRDICT_DATETIME_FORMATS; [|exact I].
  all: gen_open.
  all: unfold DT_DATETIME.
  all: rewrite H.
  all: reflexivity.
Qed.

(* --- Elements.from_typedef ------------------------------------------------------------------------------- *)
(* the element definitions of a type definition: "categories" of a categorical type, else "elements" *)
Definition typedef_defs (ty : jdict) : option (list jv) :=
  match jd_get ty (JStr "class") with
  | Some c =>
      match jd_get ty (JStr (if jv_eqb c (JStr "categorical") then "categories" else "elements")) with
      | Some (JList defs) => Some defs
      | _ => None
      end
  | None => None
  end.

(* an element definition: a dict whose id (the key _build_element_id picks) is the identifier i *)
Definition wf_def (t : dtype) (def : jv) (i : Ident.ident) : Prop :=
  exists e, def = JDict e /\ jd_get e (JStr (element_id_key e t)) = Some (jv_of_ident i).

(* all_xforms.get(element_id, all_xforms.get(str(element_id), {})) *)
Definition xform_of (ax : jdict) (i : Ident.ident) : jv :=
  jd_get_default ax (jv_of_ident i) (jd_get_default ax (JStr (Ident.str_of_ident i)) (JDict [])).

Definition element_of (t : dtype) (ax : jdict) (k : nat) (def : jv) (i : Ident.ident) : pyelement :=
  mkPyElement def (Z.of_nat k) (mkPyXforms (xform_of ax i)) t.

Fixpoint elements_from (t : dtype) (ax : jdict) (s : nat) (defs : list jv) (ids : list Ident.ident) : pyelements :=
  match defs, ids with
  | def :: ds, i :: is => element_of t ax s def i :: elements_from t ax (S s) ds is
  | _, _ => []
  end.

Lemma py_foldM_append {S A} (F : list S -> Z * A -> res (list S)) (g : nat -> A -> S) (l : list A) acc s :
  (forall acc k x, F acc (Z.of_nat k, x) = Ok (acc ++ [g k x])) ->
  py_foldM F (combine (map Z.of_nat (seq s (List.length l))) l) acc
  = Ok (acc ++ map (fun kx => g (fst kx) (snd kx)) (combine (seq s (List.length l)) l)).
Proof.
  intros H. revert acc s. induction l as [|x t IH]; intros acc s.
  - simpl. rewrite app_nil_r. reflexivity.
  - cbn [List.length seq map combine PyCollator.py_foldM fst snd]. rewrite H. cbn [Collator.bind].
    rewrite IH, <- app_assoc. reflexivity.
Qed.

Lemma fold_elements (F : list pyelement -> Z * jv -> res (list pyelement)) t ax defs ids :
  Forall2 (wf_def t) defs ids ->
  (forall acc k def i, wf_def t def i -> F acc (Z.of_nat k, def) = Ok (acc ++ [element_of t ax k def i])) ->
  forall s acc, py_foldM F (combine (map Z.of_nat (seq s (List.length defs))) defs) acc
                = Ok (acc ++ elements_from t ax s defs ids).
Proof.
  intros Hw HF. induction Hw as [|def i ds is Hdi _ IH]; intros s acc.
  - simpl. rewrite app_nil_r. reflexivity.
  - cbn [List.length seq map combine PyCollator.py_foldM elements_from].
    rewrite (HF acc s def i Hdi). cbn [Collator.bind]. rewrite IH, <- app_assoc. reflexivity.
Qed.

Lemma gen_Elements_from_typedef :
  match src_Elements_from_typedef with
  | Some f => forall ty tr t fmt defs ids ax,
      dtype_eqb t TMrSubvar = false -> dtype_eqb t TDatetime = false ->
      typedef_defs ty = Some defs -> jd_get_default ty (JStr "order") JNone = JNone ->
      jd_get_default tr (JStr "elements") (JDict []) = JDict ax ->
      Forall2 (wf_def t) defs ids ->
      f (JDict ty) (JDict tr) t fmt = Ok (elements_from t ax 0 defs ids)
  | None => True end.
Proof.
  unfold src_Elements_from_typedef, src__ElementTransforms___init__, src_Element___init__.
  first [exact I | idtac].
  all: destruct src_Elements__hidden_transforms; [|exact I].
  all: dep gen_fn__build_element_id src_fn__build_element_id.
  all: dep gen_fn__formatter src_fn__formatter.
  all: gen_open; msimpl.
  all: match goal with Hd : typedef_defs _ = Some _ |- _ => unfold typedef_defs in Hd end.
  all: unfold pj_getitem at 1; cbn [jv_hashable].
  all: destruct (jd_get ty (JStr "class")) as [c|]; [|discriminate]; msimpl.
  all: destruct (jv_eqb c (JStr "categorical")); unfold pj_getitem at 1; cbn [jv_hashable].
  all: match goal with Hd : match jd_get ?tyy ?k with _ => _ end = Some _ |- _ =>
         destruct (jd_get tyy k) as [[| | | | |defs'|]|]; try discriminate Hd; inversion Hd; subst defs' end.
  all: msimpl; rewrite pj_get_dict; msimpl.
  all: match goal with Ho : jd_get_default _ (JStr "order") JNone = JNone |- _ => rewrite Ho end.
  all: cbn [jv_is_none negb]; msimpl; rewrite pj_get_dict; msimpl.
  all: match goal with Ha : jd_get_default _ (JStr "elements") (JDict []) = JDict _ |- _ => rewrite Ha end.
  all: unfold DT_MR_SUBVAR; match goal with Hm : dtype_eqb _ TMrSubvar = false |- _ => rewrite Hm end; msimpl.
  all: unfold pj_iter; msimpl; rewrite bind_ret.
  all: unfold py_enumerate; rewrite py_range_len.
  all: match goal with Hw : Forall2 (wf_def _) _ _ |- _ => apply (fold_elements _ t ax defs ids Hw) end.
  all: intros acc k def i (e & -> & Hg).
  all: cbv beta iota; rewrite H, Hg; msimpl.
  all: unfold pj_str; rewrite jv_str_ident; msimpl.
  all: unfold pj_get; rewrite jv_hashable_ident; cbn [jv_hashable]; msimpl.
  all: rewrite H0 by assumption; reflexivity.
Qed.

(* --- Elements.valid_elements; Dimension.all_elements / valid_elements / element_ids ------------------------ *)
Definition el_missing (el : pyelement) : bool :=
  match el_element_dict el with JDict e => jv_truthy (jd_get_default e (JStr "missing") JNone) | _ => false end.
Definition el_is_dict (el : pyelement) : Prop := exists e, el_element_dict el = JDict e.

Lemma gen_Elements_valid_elements :
  match src_Elements_valid_elements with
  | Some f => forall els, Forall el_is_dict els -> f els = Ok (filter (fun el => negb (el_missing el)) els)
  | None => True end.
Proof.
  unfold src_Elements_valid_elements.
  first [exact I | idtac].
  all: dep gen_Element_missing src_Element_missing.
  all: gen_open; rewrite bind_ret.
  all: apply py_compM_filter.
  all: intros el Hel; match goal with Hf : Forall _ _ |- _ => rewrite Forall_forall in Hf; destruct (Hf el Hel) as [e He] end.
  all: destruct el as [ed idx xf t]; cbn [el_element_dict] in He; subst ed.
  all: rewrite H; unfold el_missing; cbn [el_element_dict Collator.bind].
  all: destruct (jv_truthy (jd_get_default e (JStr "missing") JNone)); reflexivity.
Qed.

(* what the Dimension members read: the type definition with its element definitions (no "order" key), the
   element transforms, a dimension type that is neither MR_SUBVAR (whose hidden insertions are merged into the
   element transforms) nor DATETIME (whose formatter reads the subtype) *)
Record dim_reads (t : dtype) (dd tr ty : jdict) (defs : list jv) (ids : list Ident.ident) (ax : jdict) : Prop := {
  dr_mr : dtype_eqb t TMrSubvar = false;
  dr_dt : dtype_eqb t TDatetime = false;
  dr_type : jd_get dd (JStr "type") = Some (JDict ty);
  dr_defs : typedef_defs ty = Some defs;
  dr_order : jd_get_default ty (JStr "order") JNone = JNone;
  dr_ax : jd_get_default tr (JStr "elements") (JDict []) = JDict ax;
  dr_ids : Forall2 (wf_def t) defs ids
}.

Lemma gen_Dimension_all_elements :
  match src_Dimension_all_elements with
  | Some f => forall t dd tr ty defs ids ax, dim_reads t dd tr ty defs ids ax ->
      f (mkPyDimension t (JDict dd) (JDict tr)) = Ok (elements_from t ax 0 defs ids)
  | None => True end.
Proof.
  unfold src_Dimension_all_elements.
  first [exact I | idtac].
  all: dep gen_Elements_from_typedef src_Elements_from_typedef.
  all: gen_open; msimpl.
  all: match goal with Hr : dim_reads _ _ _ _ _ _ _ |- _ => destruct Hr end.
  all: unfold pj_getitem; cbn [jv_hashable]; rewrite dr_type0; msimpl.
  all: rewrite (H ty tr t tt defs ids ax) by assumption; reflexivity.
Qed.

Lemma elements_from_dicts t ax s defs ids :
  Forall2 (wf_def t) defs ids -> Forall el_is_dict (elements_from t ax s defs ids).
Proof.
  intros H. revert s. induction H as [|def i ds is (e & -> & _) _ IH]; intros s; cbn [elements_from]; constructor.
  - exists e. reflexivity.
  - apply IH.
Qed.

(* the valid (non-missing) elements and their ids *)
Definition def_missing (def : jv) : bool :=
  match def with JDict e => jv_truthy (jd_get_default e (JStr "missing") JNone) | _ => false end.
Definition valid_ids (defs : list jv) (ids : list Ident.ident) : list Ident.ident :=
  map snd (filter (fun di => negb (def_missing (fst di))) (combine defs ids)).
Definition valid_elems (t : dtype) (ax : jdict) (defs : list jv) (ids : list Ident.ident) : pyelements :=
  filter (fun el => negb (el_missing el)) (elements_from t ax 0 defs ids).

Lemma valid_elems_wf t ax defs ids :
  Forall2 (wf_def t) defs ids -> wf_elems (valid_elems t ax defs ids) (valid_ids defs ids).
Proof.
  unfold valid_elems, valid_ids. generalize 0%nat as s. intros s H. revert s.
  induction H as [|def i ds is Hdi _ IH]; intros s; [constructor|].
  cbn [elements_from combine filter fst]. unfold el_missing at 1, element_of at 1. cbn [el_element_dict].
  destruct Hdi as (e & -> & Hg). cbn [def_missing].
  destruct (jv_truthy (jd_get_default e (JStr "missing") JNone)); cbn [negb map snd]; [apply IH|].
  constructor; [|apply IH]. exists e. split; [reflexivity | exact Hg].
Qed.

Lemma gen_Dimension_valid_elements :
  match src_Dimension_valid_elements with
  | Some f => forall t dd tr ty defs ids ax, dim_reads t dd tr ty defs ids ax ->
      f (mkPyDimension t (JDict dd) (JDict tr)) = Ok (valid_elems t ax defs ids)
  | None => True end.
Proof.
  unfold src_Dimension_valid_elements.
  first [exact I | idtac].
  all: dep gen_Dimension_all_elements src_Dimension_all_elements.
  all: dep gen_Elements_valid_elements src_Elements_valid_elements.
  all: gen_open.
  all: rewrite (H t dd tr ty defs ids ax) by assumption; msimpl.
  all: rewrite H0, bind_ret; [reflexivity|].
  all: apply elements_from_dicts; match goal with Hr : dim_reads _ _ _ _ _ _ _ |- _ => destruct Hr; assumption end.
Qed.

Lemma gen_Dimension_element_ids :
  match src_Dimension_element_ids with
  | Some f => forall t dd tr ty defs ids ax, dim_reads t dd tr ty defs ids ax ->
      f (mkPyDimension t (JDict dd) (JDict tr)) = Ok (map jv_of_ident (valid_ids defs ids))
  | None => True end.
Proof.
  unfold src_Dimension_element_ids.
  first [exact I | idtac].
  all: dep gen_Dimension_valid_elements src_Dimension_valid_elements.
  all: dep gen_Element_element_id src_Element_element_id.
  all: gen_open.
  all: rewrite (H t dd tr ty defs ids ax) by assumption; msimpl; rewrite bind_ret.
  all: assert (Hw : wf_elems (valid_elems t ax defs ids) (valid_ids defs ids))
         by (apply valid_elems_wf; match goal with Hr : dim_reads _ _ _ _ _ _ _ |- _ => destruct Hr; assumption end).
  all: apply (py_compM_forall2 _ _ _ _ _ Hw).
  all: intros x y Hxy; rewrite (H0 x y Hxy); reflexivity.
Qed.

(* --- Dimension.hidden_idxs ----------------------------------------------------------------------------------- *)
(* the "elements" transforms dict as the model's [d_hides]: keys are identifiers, values are dicts *)
Definition ax_entry (kv : jv * jv) (kh : ident * hideval) : Prop :=
  exists k x, fst kv = jv_of_ident k /\ fst kh = oid k /\ snd kv = JDict x /\
              snd kh = hideval_of (jd_get_default x (JStr "hide") JNone).
Definition ax_abs (ax : jdict) (hides : list (ident * hideval)) : Prop := Forall2 ax_entry ax hides.

Definition hide_of (v : jv) : hideval :=
  match v with JDict x => hideval_of (jd_get_default x (JStr "hide") JNone) | _ => HOther end.

Lemma ax_lookup ax hides i :
  ax_abs ax hides ->
  match jd_get ax (jv_of_ident i) with
  | Some v => jv_is_dict v = true /\ dict_get (oid i) hides = Some (hide_of v)
  | None => dict_get (oid i) hides = None
  end.
Proof.
  intros H. unfold jd_get. induction H as [|[k v] [k' h] t t' (k0 & x & E1 & E2 & E3 & E4) _ IH]; [reflexivity|].
  cbn [fst snd] in *. subst. cbn [py_dict_get dict_get]. rewrite jv_eqb_ident, oid_eqb.
  destruct (Ident.ident_eqb k0 i); [split; reflexivity | exact IH].
Qed.

Lemma xform_hidden ax hides i :
  ax_abs ax hides ->
  jv_is_dict (xform_of ax i) = true /\
  elem_hidden hides (oid i) = hidden_of (hide_of (xform_of ax i)).
Proof.
  intros H. unfold xform_of, jd_get_default, elem_hidden.
  pose proof (ax_lookup ax hides i H) as L1.
  pose proof (ax_lookup ax hides (Ident.IStr (Ident.str_of_ident i)) H) as L2.
  cbn [jv_of_ident oid] in L2. rewrite py_str_oid.
  destruct (jd_get ax (jv_of_ident i)) as [v|].
  - destruct L1 as [D ->]. split; [exact D|]. destruct (hide_of v); reflexivity.
  - rewrite L1. destruct (jd_get ax (JStr (Ident.str_of_ident i))) as [v|].
    + destruct L2 as [D ->]. split; [exact D|]. destruct (hide_of v); reflexivity.
    + rewrite L2. split; reflexivity.
Qed.

Lemma valid_elems_xf t ax defs ids :
  Forall2 (wf_def t) defs ids ->
  Forall2 (fun el i => el_element_transforms el = mkPyXforms (xform_of ax i))
          (valid_elems t ax defs ids) (valid_ids defs ids).
Proof.
  unfold valid_elems, valid_ids. generalize 0%nat as s. intros s H. revert s.
  induction H as [|def i ds is Hdi _ IH]; intros s; [constructor|].
  cbn [elements_from combine filter fst]. unfold el_missing at 1, element_of at 1. cbn [el_element_dict].
  destruct Hdi as (e & -> & Hg). cbn [def_missing].
  destruct (jv_truthy (jd_get_default e (JStr "missing") JNone)); cbn [negb map snd]; [apply IH|].
  constructor; [reflexivity | apply IH].
Qed.

Lemma hidden_idxs_ids d :
  hidden_idxs d = map fst (filter (fun ki => elem_hidden (d_hides d) (snd ki)) (enumerate (d_ids d))).
Proof.
  unfold hidden_idxs, d_ids, enumerate. rewrite map_length.
  generalize (seq 0 (List.length (d_elems d))) as ks. induction (d_elems d) as [|e t IH]; intros [|k ks]; try reflexivity.
  cbn [combine map filter snd fst]. destruct (elem_hidden (d_hides d) (e_id e)); cbn [map fst]; rewrite IH; reflexivity.
Qed.

Lemma gen_Dimension_hidden_idxs :
  match src_Dimension_hidden_idxs with
  | Some f => forall t dd tr ty defs ids ax d, dim_reads t dd tr ty defs ids ax ->
      ax_abs ax (d_hides d) -> d_ids d = map oid (valid_ids defs ids) ->
      f (mkPyDimension t (JDict dd) (JDict tr)) = Ok (map Z.of_nat (hidden_idxs d))
  | None => True end.
Proof.
  unfold src_Dimension_hidden_idxs.
  first [exact I | idtac].
  all: dep gen_Dimension_valid_elements src_Dimension_valid_elements.
  all: dep gen_Element_is_hidden src_Element_is_hidden.
  all: gen_open.
  all: rewrite (H t dd tr ty defs ids ax) by assumption; msimpl; rewrite bind_ret.
  all: rewrite hidden_idxs_ids.
  all: match goal with Hi : d_ids _ = _ |- _ => rewrite Hi; clear Hi end.
  all: assert (Hx : Forall2 (fun el i => el_element_transforms el = mkPyXforms (xform_of ax i))
                      (valid_elems t ax defs ids) (valid_ids defs ids))
         by (apply valid_elems_xf; match goal with Hr : dim_reads _ _ _ _ _ _ _ |- _ => destruct Hr; assumption end).
  all: unfold py_enumerate, enumerate; rewrite py_range_len, map_length, <- (Forall2_length' _ _ _ Hx).
  all: generalize 0%nat as s; induction Hx as [|el i els is Hel _ IH]; intros s; [reflexivity|].
  all: cbn [List.length seq map combine py_compM filter snd fst].
  all: destruct el as [ed idx xf te]; cbn [el_element_transforms] in Hel; subst xf.
  all: match goal with Ha : ax_abs _ _ |- _ => destruct (xform_hidden ax (d_hides d) i Ha) as [Dx Eh] end.
  all: destruct (xform_of ax i) as [| | | | | |x] eqn:Ex; try discriminate Dx.
  all: cbv beta iota; rewrite H0; msimpl; rewrite IH; msimpl.
  all: rewrite Eh; cbn [hide_of jv_truthy].
  all: destruct (hidden_of (hideval_of (jd_get_default x (JStr "hide") JNone))); reflexivity.
Qed.
