(* Proofs/GenAgreeZscore.v -- GenAgree for C12: what matrix/measure.py SAYS NOW for the four
   blocks of SecondOrderMeasures.zscores (_Zscores._base_values / _subtotal_columns /
   _subtotal_rows / _intersections, each a call of _calculate_zscores on that block of the
   weighted counts and of the table / row / column weighted bases) denotes [zblock] of
   Model/Zscore.v, the definition the theorems of Props/C12.v are about:

       if self._is_defective: NaN;  if all(t == r) or all(t == k): NaN;
       (c - r k / t) / sqrt(r k (t - r) (t - k) / t**3)

   stated through the signed square z*|z| ([meval_sq]): it is [z_zabs], cell by cell.
   `self._is_defective` is kept as an opaque boolean (its rank test is numpy's; Model/Zscore.v's
   [defective] stays tied to it by the correspondence): the lemma holds for either value.
   See GenAgreeMeasTac.v. *)
From Coq Require Import QArith ZArith List Bool Lia Arith String.
From CC Require Import Base.XQ Base.ListX Base.MeasureExp
     Model.Subtotals Model.Proportions Model.Variance Model.Zscore
     Gen.MeasureSrc Proofs.GenAgreeMeasTac.
Import ListNotations.
Local Close Scope Q_scope.
Local Open Scope string_scope.
Local Open Scope nat_scope.

Definition z_model (blk : string -> nat -> nat -> list (list xq)) (flag : string -> bool)
           (bi bj : nat) : list (list xq) :=
  zblock (flag "_is_defective") (blk "weighted_counts" bi bj) (blk "table_weighted_bases" bi bj)
         (blk "row_weighted_bases" bi bj) (blk "column_weighted_bases" bi bj).

(* the block's arrays have the block's shape *)
Definition z_shaped (blk : string -> nat -> nat -> list (list xq)) (bi bj n m : nat) : Prop :=
  nrows (blk "weighted_counts" bi bj) = n /\ ncols (blk "weighted_counts" bi bj) = m /\
  nrows (blk "table_weighted_bases" bi bj) = n /\ ncols (blk "table_weighted_bases" bi bj) = m.

Ltac gen_z :=
  unfold_srcs;
  lazymatch goal with
  | |- True => exact I
  | _ =>
      intros nr nc rsubs csubs rd cd blk cubem cubeflag flag [Hc1 [Hc2 [Ht1 Ht2]]];
      meas_eval; split; [reflexivity|split; [reflexivity|]];
      intros i j Hi Hj;
      unfold z_model, zblock, nan_like, mall_eq; rewrite Hc1, Hc2, Ht1, Ht2;
      destruct (flag "_is_defective"); [read_tab2; reflexivity|];
      lazymatch goal with
      | |- (if ?c then _ else _) = _ => destruct c; [read_tab2; reflexivity|]
      end;
      read_tab2;
      unfold z_zabs, z_resid, z_variance, z_expected, sqrt_guard, ssq;
      lazymatch goal with
      | |- context [xltb ?v (Fin 0%Q)] => destruct (xltb v (Fin 0%Q)); [apply xdiv_nan_r|reflexivity]
      end
  end.

Lemma gen_Zscores_blocks_00 :
  match src_Zscores_blocks_00 with
  | Some e => forall nr nc rsubs csubs rd cd blk cubem cubeflag flag,
      z_shaped blk 0 0 (nr) (nc) ->
      holds_mat_sq (menv_mat nr nc rsubs csubs rd cd blk cubem cubeflag flag) e DR DC
        (mnth (z_model blk flag 0 0))
  | None => True
  end.
Proof. gen_z. Qed.

Lemma gen_Zscores_blocks_01 :
  match src_Zscores_blocks_01 with
  | Some e => forall nr nc rsubs csubs rd cd blk cubem cubeflag flag,
      z_shaped blk 0 1 (nr) (List.length csubs) ->
      holds_mat_sq (menv_mat nr nc rsubs csubs rd cd blk cubem cubeflag flag) e DR DCS
        (mnth (z_model blk flag 0 1))
  | None => True
  end.
Proof. gen_z. Qed.

Lemma gen_Zscores_blocks_10 :
  match src_Zscores_blocks_10 with
  | Some e => forall nr nc rsubs csubs rd cd blk cubem cubeflag flag,
      z_shaped blk 1 0 (List.length rsubs) (nc) ->
      holds_mat_sq (menv_mat nr nc rsubs csubs rd cd blk cubem cubeflag flag) e DRS DC
        (mnth (z_model blk flag 1 0))
  | None => True
  end.
Proof. gen_z. Qed.

Lemma gen_Zscores_blocks_11 :
  match src_Zscores_blocks_11 with
  | Some e => forall nr nc rsubs csubs rd cd blk cubem cubeflag flag,
      z_shaped blk 1 1 (List.length rsubs) (List.length csubs) ->
      holds_mat_sq (menv_mat nr nc rsubs csubs rd cd blk cubem cubeflag flag) e DRS DCS
        (mnth (z_model blk flag 1 1))
  | None => True
  end.
Proof. gen_z. Qed.

(* `not np.all(counts.shape) or np.linalg.matrix_rank(counts) < 2` on the BASE block of the
   weighted counts is [defective] (the rank test itself is the environment's [rank_lt2]: numpy's
   SVD rank is tied to it by the correspondence only) *)
Lemma gen_Zscores__is_defective :
  match src_Zscores__is_defective with
  | Some c => forall nr nc rsubs csubs rd cd blk cubem cubeflag flag,
      nrows (blk "weighted_counts" 0 0) = nr -> ncols (blk "weighted_counts" 0 0) = nc ->
      ceval (menv_mat nr nc rsubs csubs rd cd blk cubem cubeflag flag) c =
      Some (defective (blk "weighted_counts" 0 0))
  | None => True
  end.
Proof.
  unfold_srcs;
  lazymatch goal with
  | |- True => exact I
  | _ =>
      intros nr nc rsubs csubs rd cd blk cubem cubeflag flag H1 H2; meas_eval;
      unfold defective; rewrite H1, H2;
      destruct (Nat.eqb nr 0), (Nat.eqb nc 0); reflexivity
  end.
Qed.
