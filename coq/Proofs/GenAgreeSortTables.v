(* Proofs/GenAgreeSortTables.v -- the keyword tables of the order helpers, read from the source text by
   harness/translate/x_assemble.py (Gen/SortTablesSrc.v), are the tables of Model/SortKeys.v the theorems
   of C08 are about:

     matrix/assembler.py  _BaseOrderHelper._measure propname_by_measure   = [matrix_table]   (keyword |-> property)
     matrix/assembler.py  _SortRowsByMarginalHelper._marginal             = [marginal_table]
     stripe/assembler.py  _SortByMeasureHelper._measure                   = [strand_table]
     enums.MEASURE / enums.MARGINAL (values)                              = [measure_enum] / [marginal_enum]

   as LOOKUP functions, for every keyword string: what `{..}.get(k)` returns on the source's dict display
   (the last binding of a repeated key) is the property of the model's row for k, and a keyword is a value
   of the enumeration iff the model says so.  The order of the entries does not matter, their content does.
   Decided by computation on the finite tables ([lookup_decide], [same_members_decide]). *)
From Coq Require Import List ZArith Bool Lia Arith String.
From CC Require Import Base.OrderExp Model.SortKeys Gen.SortTablesSrc.
Import ListNotations.
Local Open Scope string_scope.
Local Open Scope nat_scope.

Definition lookup_agrees (gen : list (string * string)) (model : list kwrow) : Prop :=
  forall k, assoc_last k gen = option_map kw_prop (find_kw model k).
Definition same_members (gen model : list string) : Prop :=
  forall k, smem k gen = smem k model.

Definition ostr_eqb (a b : option string) : bool :=
  match a, b with
  | Some x, Some y => String.eqb x y
  | None, None => true
  | _, _ => false
  end.
Lemma ostr_eqb_eq a b : ostr_eqb a b = true -> a = b.
Proof.
  destruct a, b; simpl; intros H; try discriminate; try reflexivity.
  apply String.eqb_eq in H. congruence.
Qed.

Lemma assoc_last_absent k l : ~ In k (map fst l) -> assoc_last k l = None.
Proof.
  induction l as [|[k' v] t IH]; simpl; intros H; [reflexivity|].
  rewrite IH by tauto. destruct (String.eqb k' k) eqn:E; [|reflexivity].
  apply String.eqb_eq in E. tauto.
Qed.

Lemma find_kw_absent k t : ~ In k (map kw_name t) -> find_kw t k = None.
Proof.
  unfold find_kw. induction t as [|r t IH]; simpl; intros H; [reflexivity|].
  destruct (String.eqb (kw_name r) k) eqn:E; [apply String.eqb_eq in E; tauto|]. apply IH. tauto.
Qed.

Definition lookup_check (gen : list (string * string)) (model : list kwrow) : bool :=
  forallb (fun k => ostr_eqb (assoc_last k gen) (option_map kw_prop (find_kw model k)))
          (map fst gen ++ map kw_name model).

Lemma lookup_decide gen model : lookup_check gen model = true -> lookup_agrees gen model.
Proof.
  unfold lookup_check, lookup_agrees. intros H k. rewrite forallb_forall in H.
  destruct (in_dec string_dec k (map fst gen ++ map kw_name model)) as [I|N].
  - apply ostr_eqb_eq. apply H. exact I.
  - rewrite assoc_last_absent by (intros X; apply N; apply in_or_app; left; exact X).
    rewrite find_kw_absent by (intros X; apply N; apply in_or_app; right; exact X). reflexivity.
Qed.

Lemma smem_In k l : smem k l = true <-> In k l.
Proof.
  unfold smem. rewrite existsb_exists. split.
  - intros (x & I & E). apply String.eqb_eq in E. subst. exact I.
  - intros I. exists k. split; [exact I|apply String.eqb_refl].
Qed.

Definition members_check (a b : list string) : bool :=
  forallb (fun k => smem k b) a && forallb (fun k => smem k a) b.

Lemma same_members_decide a b : members_check a b = true -> same_members a b.
Proof.
  unfold members_check, same_members. intros H k. apply andb_true_iff in H. destruct H as [H1 H2].
  rewrite forallb_forall in H1, H2.
  destruct (smem k a) eqn:A, (smem k b) eqn:B; try reflexivity.
  - apply smem_In in A. rewrite (H1 k A) in B. discriminate.
  - apply smem_In in B. rewrite (H2 k B) in A. discriminate.
Qed.

Ltac gen_table dec :=
  lazymatch goal with
  | |- True => exact I
  | _ => apply dec; vm_compute; reflexivity
  end.

Lemma gen_matrix_sort_measures :
  match tbl_matrix_sort_measures with Some t => lookup_agrees t matrix_table | None => True end.
Proof. unfold tbl_matrix_sort_measures. gen_table lookup_decide. Qed.

Lemma gen_marginal_sort_marginals :
  match tbl_marginal_sort_marginals with Some t => lookup_agrees t marginal_table | None => True end.
Proof. unfold tbl_marginal_sort_marginals. gen_table lookup_decide. Qed.

Lemma gen_strand_sort_measures :
  match tbl_strand_sort_measures with Some t => lookup_agrees t strand_table | None => True end.
Proof. unfold tbl_strand_sort_measures. gen_table lookup_decide. Qed.

Lemma gen_MEASURE_values :
  match tbl_MEASURE with Some t => same_members (map snd t) measure_enum | None => True end.
Proof. unfold tbl_MEASURE. gen_table same_members_decide. Qed.

Lemma gen_MARGINAL_values :
  match tbl_MARGINAL with Some t => same_members (map snd t) marginal_enum | None => True end.
Proof. unfold tbl_MARGINAL. gen_table same_members_decide. Qed.

(* the keywords of "type" the factories of the helpers distinguish ([method_of]) are values of
   COLLATION_METHOD, and the remaining value is the default *)
Definition collation_keywords : list string :=
  ["explicit"; "label"; "marginal"; "opposing_element"; "opposing_insertion"; "payload_order";
   "univariate_measure"].

Lemma gen_COLLATION_METHOD_values :
  match tbl_COLLATION_METHOD with
  | Some t => same_members (map snd t) collation_keywords /\ NoDup (map snd t) /\ NoDup (map fst t)
  | None => True
  end.
Proof.
  unfold tbl_COLLATION_METHOD.
  lazymatch goal with
  | |- True => exact I
  | _ => split; [apply same_members_decide; vm_compute; reflexivity|];
         split; repeat constructor; simpl; intuition discriminate
  end.
Qed.

(* every sortable keyword of the matrix / marginal tables is a member of its enumeration (a row the
   enumeration guard would make unreachable would be dead) - about the model's tables, through the ties
   above about the source's *)
Lemma matrix_table_in_enum :
  forallb (fun r => smem (kw_name r) measure_enum) matrix_table = true /\
  forallb (fun r => smem (kw_name r) marginal_enum) marginal_table = true.
Proof. split; vm_compute; reflexivity. Qed.
